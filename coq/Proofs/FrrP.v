(* Lemmas about Model/FrrRender.v and Model/FrrSem.v (C14). *)
From Coq Require Import String NArith Bool List Permutation Sorted Lia.
From Verif Require Import Model.FrrRender Model.FrrSem Proofs.FrrSortP.
Import ListNotations.
Open Scope string_scope.

Lemma render_nil : render [] = Some (mk_frr [] []).
Proof. reflexivity. Qed.

(* ---- the semantics does not look at sequence numbers ---- *)
Definition strip (it : item) : item := set_seq it 0.

Lemma number_strip l cnt : map strip (number l cnt) = map (fun x => strip (snd x)) l.
Proof.
  revert cnt; induction l as [|[[n|nm] it] l IH]; intros cnt; simpl; [reflexivity| |].
  - rewrite IH. destruct it; reflexivity.
  - destruct (bump nm cnt) as [n cnt']. simpl. rewrite IH. destruct it; reflexivity.
Qed.

Lemma pl_lines_strip its rs a name :
  pl_lines (mk_frr (map strip its) rs) a name = pl_lines (mk_frr its rs) a name.
Proof.
  unfold pl_lines; simpl. induction its as [|it its IH]; simpl; [reflexivity|].
  rewrite IH. destruct it; reflexivity.
Qed.

Lemma rm_entries_strip its rs name :
  rm_entries (mk_frr (map strip its) rs) name = rm_entries (mk_frr its rs) name.
Proof.
  unfold rm_entries; simpl. induction its as [|it its IH]; simpl; [reflexivity|].
  rewrite IH. destruct it; reflexivity.
Qed.

(* ---- the in route-map ---- *)
Lemma append_inj_l x a b : x ++ a = x ++ b -> a = b.
Proof. induction x as [|c x IH]; simpl; intros H; [assumption|]. inversion H. auto. Qed.

Lemma rm_in_neq_out s : rm_in s <> rm_out s.
Proof. unfold rm_in, rm_out. intros H. apply append_inj_l in H. discriminate. Qed.

(* the IRm items of one neighbor block: names and content *)
Definition block_rms (n : nconf) : list item :=
  flat_map (fun x => match snd x with IRm _ _ _ _ _ _ => [snd x] | _ => [] end) (neighbor_filters n).

Lemma in_block_rm_name n it :
  In it (map snd (neighbor_filters n)) ->
  match it with
  | IRm nm _ pm m st nx => (nm = rm_in (nc_s n) /\ pm = false /\ m = [] /\ nx = false) \/ nm = rm_out (nc_s n)
  | IPl _ _ _ _ _ => True
  end.
Proof.
  unfold neighbor_filters. rewrite !map_app, !in_app_iff, !map_map. simpl.
  intros H. destruct it as [nm sq pm m st nx|]; [|exact I].
  repeat (destruct H as [H|H]); try contradiction.
  all: try (inversion H; subst; auto; fail).
  all: try (apply in_map_iff in H as (x & E & _); inversion E; subst; right; reflexivity).
  - exfalso. apply in_map_iff in H as (x & E & Hx). apply in_flat_map in Hx as (a & _ & Ha).
    unfold adv_lines in Ha. rewrite !in_app_iff in Ha.
    destruct Ha as [Ha|[Ha|[Ha|Ha]]].
    + destruct (N.eqb (ac_lp a) 0); [contradiction|]. destruct Ha as [<-|[]]. discriminate.
    + apply in_map_iff in Ha as (c & <- & _). discriminate.
    + apply in_map_iff in Ha as (c & <- & _). discriminate.
    + destruct Ha as [<-|[]]. discriminate.
  - exfalso. destruct (nc_has4 n); simpl in H; [contradiction|]. destruct H as [H|[]]; discriminate.
  - exfalso. destruct (nc_has6 n); simpl in H; [contradiction|]. destruct H as [H|[]]; discriminate.
Qed.

(* a route-map all of whose entries are deny entries without match rejects everything *)
Lemma eval_all_deny ft um c es route acc fell :
  (forall e, In e es -> rm_permit e = false /\ rm_match e = []) -> es <> [] ->
  eval_rm ft um c es route acc fell = None.
Proof.
  destruct es as [|e es]; [congruence|]. intros H _. simpl.
  destruct (H e (or_introl eq_refl)) as [P M]. rewrite M, P. reflexivity.
Qed.

(* ---- session parameters on the rendered neighbor ---- *)
Lemma render_nbr_params asn n :
  let s := nc_s n in let r := render_nbr asn n in
  n_peer r = peer_tok s /\ n_iface r = nonempty (s_iface s) /\ n_asn r = asn_for s /\
  n_multihop r = s_multihop s /\ n_port r = (if N.eqb (s_port s) 0 then None else Some (s_port s)) /\
  n_timers r = (match s_keep s, s_hold s with Some k, Some h => Some ((k / second)%N, (h / second)%N) | _, _ => None end) /\
  n_connect r = (match s_connect s with Some c => if N.eqb (c / second) 0 then None else Some (c / second)%N | None => None end) /\
  n_password r = (if nonempty (s_password s) then Some (s_password s) else None) /\
  n_src r = (match s_src s with Some a => if nonempty a then Some a else None | None => None end) /\
  n_gr r = s_gr s /\ n_bfd r = (if nonempty (s_bfd s) then Some (s_bfd s) else None) /\
  (forall x, n_act4 r = Some x -> x = (rm_in s, rm_out s)) /\
  (forall x, n_act6 r = Some x -> x = (rm_in s, rm_out s)) /\
  (s_disable_mp s = false -> n_act4 r = Some (rm_in s, rm_out s) /\ n_act6 r = Some (rm_in s, rm_out s)) /\
  (s_disable_mp s = true -> nfam_of s = NF4 -> n_act4 r = Some (rm_in s, rm_out s) /\ n_act6 r = None) /\
  (s_disable_mp s = true -> nfam_of s = NF6 -> n_act4 r = None /\ n_act6 r = Some (rm_in s, rm_out s)) /\
  (s_disable_mp s = true -> nfam_of s = NFDual -> n_act4 r = None /\ n_act6 r = None).
Proof.
  simpl. repeat split; unfold activate in *.
  - intros x. destruct (negb _ || _); intros H; inversion H; reflexivity.
  - intros x. destruct (negb _ || _); intros H; inversion H; reflexivity.
  - rewrite H. reflexivity.
  - rewrite H. reflexivity.
  - rewrite H, H0. reflexivity.
  - rewrite H, H0. reflexivity.
  - rewrite H, H0. reflexivity.
  - rewrite H, H0. reflexivity.
  - rewrite H, H0. reflexivity.
  - rewrite H, H0. reflexivity.
Qed.

(* ---- routers of the rendered configuration ---- *)
Lemma mk_router_spec S k r : mk_router S k = Some r ->
  exists first rest, sessions_with rkey k S = first :: rest /\ rc_first r = first /\
    exact_pfx_set (rc_p4 r) (map a_pfx (advs_afi A4 (flat_map s_advs (first :: rest)))) /\
    exact_pfx_set (rc_p6 r) (map a_pfx (advs_afi A6 (flat_map s_advs (first :: rest)))) /\
    forall n, In n (rc_nbrs r) ->
      exists f more, sessions_with nname (nname f) (first :: rest) = f :: more /\
                     mk_neighbor f (flat_map s_advs (f :: more)) = Some n.
Proof.
  unfold mk_router. destruct (sessions_with rkey k S) as [|f rest] eqn:E; [discriminate|].
  destruct (all_some _) as [ns|] eqn:E2; [|discriminate]. intros H; inversion H; subst; simpl.
  exists f, rest. split; [reflexivity|]. split; [reflexivity|]. split; [apply sort_k_exact|]. split; [apply sort_k_exact|].
  intros n Hn. pose proof (all_some_in _ _ _ E2 Hn) as Hin. apply in_map_iff in Hin as (nn & Hnn & _).
  destruct (sessions_with nname nn (f :: rest)) as [|g more] eqn:E3; [discriminate|].
  assert (nname g = nn).
  { assert (In g (sessions_with nname nn (f :: rest))) by (rewrite E3; left; reflexivity).
    apply sessions_with_in in H0. tauto. }
  subst nn. exists g, more. split; assumption.
Qed.

Lemma render_routers S c : render S = Some c ->
  exists rs, create_config S = Some rs /\ routers c = map render_router rs /\
             items c = number (filters_of rs) [].
Proof.
  unfold render. destruct (create_config S) as [rs|]; [|discriminate]. intros H; inversion H; subst.
  exists rs; auto.
Qed.

Lemma create_config_router S rs r : create_config S = Some rs -> In r rs ->
  exists k, In k (map rkey S) /\ mk_router S k = Some r.
Proof.
  unfold create_config. intros H Hr. pose proof (all_some_in _ _ _ H Hr) as Hin.
  apply in_map_iff in Hin as (k & Hk & Hks). apply (proj1 (sort_s_in _ _)) in Hks. exists k; split; assumption.
Qed.

(* ---- F15 ---- *)
Definition f15_witness : session :=
  mk_session 100 (Some "10.1.1.254") "" "" false "net0" 0 "external" None 179 None None None "" "" false false true
    [mk_adv (mk_pfx "2001:db8::1/128" {| pfam := F6; pbase := 42540766411282592856903984951653826561; plen := 128 |}) 0 []] ("", "").

(* ---- every inbound route is rejected ---- *)
Definition all_nbrs (rs : list rconf) : list nconf := flat_map rc_nbrs rs.
(* no neighbor's in-map name is another neighbor's out-map name (computable; it
   holds when neighbor ids are distinct, which wf_sessions gives) *)
Definition in_out_distinct (rs : list rconf) : Prop :=
  forall n n', In n (all_nbrs rs) -> In n' (all_nbrs rs) -> rm_in (nc_s n) <> rm_out (nc_s n').

Lemma rm_entries_in its rs name e :
  In e (rm_entries (mk_frr its rs) name) <->
  exists sq pm m st nx, In (IRm name sq pm m st nx) its /\ e = mk_rme pm m st nx.
Proof.
  unfold rm_entries; simpl. rewrite in_flat_map. split.
  - intros (it & Hit & He). destruct it as [nm sq pm m st nx|]; [|contradiction].
    destruct (String.eqb nm name) eqn:E; [|contradiction]. apply String.eqb_eq in E. subst.
    destruct He as [<-|[]]. exists sq, pm, m, st, nx. auto.
  - intros (sq & pm & m & st & nx & Hin & ->). eexists; split; [exact Hin|]. simpl. rewrite String.eqb_refl. left; reflexivity.
Qed.

Lemma filters_of_in rs x : In x (map snd (filters_of rs)) <-> exists n, In n (all_nbrs rs) /\ In x (map snd (neighbor_filters n)).
Proof.
  unfold filters_of, all_nbrs. rewrite in_map_iff. split.
  - intros (y & <- & Hy). apply in_flat_map in Hy as (r & Hr & Hy). apply in_flat_map in Hy as (n & Hn & Hy).
    exists n. split; [apply in_flat_map; exists r; auto|apply in_map; assumption].
  - intros (n & Hn & Hx). apply in_map_iff in Hx as (y & <- & Hy). exists y; split; [reflexivity|].
    apply in_flat_map in Hn as (r & Hr & Hn). apply in_flat_map. exists r; split; [assumption|].
    apply in_flat_map. exists n; auto.
Qed.

Lemma strip_in its x : In x its -> In (strip x) (map strip its).
Proof. apply in_map. Qed.

Lemma in_denied_rendered ft um S c rs n route acc fell :
  render S = Some c -> create_config S = Some rs -> in_out_distinct rs -> In n (all_nbrs rs) ->
  eval_rm ft um c (rm_entries c (rm_in (nc_s n))) route acc fell = None.
Proof.
  intros Hr Hc Hd Hn. unfold render in Hr. rewrite Hc in Hr. inversion Hr; subst c; clear Hr.
  apply eval_all_deny.
  - intros e He. rewrite <- rm_entries_strip in He. rewrite number_strip in He.
    apply rm_entries_in in He as (sq & pm & m & st & nx & Hin & ->). simpl.
    apply in_map_iff in Hin as ([sp it] & E & Hin). simpl in E.
    assert (Hit: In it (map snd (filters_of rs))) by (apply in_map_iff; exists (sp, it); auto).
    apply filters_of_in in Hit as (n' & Hn' & Hit). apply in_block_rm_name in Hit.
    destruct it as [nm sq' pm' m' st' nx'|]; simpl in E; [|discriminate]. inversion E; subst.
    destruct Hit as [(_ & -> & -> & _)|Hout]; [split; reflexivity|].
    exfalso. exact (Hd n n' Hn Hn' Hout).
  - intros Hnil.
    assert (In (mk_rme false [] [] false) (rm_entries (mk_frr (number (filters_of rs) []) (map render_router rs)) (rm_in (nc_s n)))).
    { rewrite <- rm_entries_strip, number_strip. apply rm_entries_in. exists 0%N, false, [], [], false. split; [|reflexivity].
      apply in_map_iff. exists (Fixed 20, IRm (rm_in (nc_s n)) 0 false [] [] false). split; [reflexivity|].
      unfold filters_of. apply in_flat_map in Hn as (r & Hr & Hn). apply in_flat_map. exists r; split; [assumption|].
      apply in_flat_map. exists n; split; [assumption|]. unfold neighbor_filters. simpl. left; reflexivity. }
    rewrite Hnil in H. contradiction.
Qed.

(* ---- independence of the creation order ---- *)
Definition wf_perm (S : list session) : Prop :=
  (forall s t, In s S -> In t S -> rkey s = rkey t -> nname s = nname t -> s = t) /\
  (forall s t, In s S -> In t S -> rkey s = rkey t ->
     s_myasn s = s_myasn t /\ s_rid s = s_rid t /\ s_vrf s = s_vrf t) /\
  key_inj p_text (map a_pfx (flat_map s_advs S)).

Lemma perm_all_eq {A} (l l' : list A) :
  (forall x y, In x l -> In y l -> x = y) -> Permutation l l' -> l = l'.
Proof.
  intros H P. induction P.
  - reflexivity.
  - f_equal. apply IHP. intros a b Ha Hb. apply H; right; assumption.
  - assert (x = y) by (apply H; simpl; auto). subst. reflexivity.
  - assert (l = l') by (apply IHP1; assumption). subst. apply IHP2. assumption.
Qed.

Definition req (r r' : rconf) : Prop :=
  s_myasn (rc_first r) = s_myasn (rc_first r') /\ s_rid (rc_first r) = s_rid (rc_first r') /\
  s_vrf (rc_first r) = s_vrf (rc_first r') /\ rc_nbrs r = rc_nbrs r' /\ rc_p4 r = rc_p4 r' /\ rc_p6 r = rc_p6 r'.

Definition opt_rel {A} (R : A -> A -> Prop) (x y : option A) : Prop :=
  match x, y with None, None => True | Some a, Some b => R a b | _, _ => False end.

Lemma mk_router_perm S S' k : wf_perm S -> Permutation S S' -> opt_rel req (mk_router S k) (mk_router S' k).
Proof.
  intros (W1 & W2 & W3) Hperm. unfold mk_router.
  pose proof (filter_perm (fun s => String.eqb (rkey s) k) _ _ Hperm) as Pf.
  fold (sessions_with rkey k S) (sessions_with rkey k S') in Pf.
  destruct (sessions_with rkey k S) as [|f rest] eqn:E; destruct (sessions_with rkey k S') as [|f' rest'] eqn:E'.
  - exact I.
  - apply Permutation_nil in Pf. discriminate.
  - apply Permutation_sym, Permutation_nil in Pf. discriminate.
  - assert (Hsub: forall x, In x (f :: rest) -> In x S /\ rkey x = k)
      by (intros x Hx; rewrite <- E in Hx; apply sessions_with_in in Hx; assumption).
    assert (Hff': In f' (f :: rest)) by (eapply Permutation_in; [apply Permutation_sym; exact Pf|left; reflexivity]).
    destruct (Hsub f (or_introl eq_refl)) as [HfS Kf]. destruct (Hsub f' Hff') as [Hf'S Kf'].
    destruct (W2 f f' HfS Hf'S (eq_trans Kf (eq_sym Kf'))) as (A1 & A2 & A3).
    rewrite (sort_s_perm (map nname (f :: rest)) (map nname (f' :: rest'))) by (apply Permutation_map; assumption).
    set (g := fun Sr nn => match sessions_with nname nn Sr with [] => None | f0 :: _ => mk_neighbor f0 (flat_map s_advs (sessions_with nname nn Sr)) end).
    assert (Eg: forall nn, g (f :: rest) nn = g (f' :: rest') nn).
    { intros nn. unfold g.
      assert (sessions_with nname nn (f :: rest) = sessions_with nname nn (f' :: rest')) as ->; [|reflexivity].
      apply perm_all_eq; [|apply filter_perm; assumption].
      intros x y Hx Hy. apply sessions_with_in in Hx as [Hx Nx]. apply sessions_with_in in Hy as [Hy Ny].
      destruct (Hsub x Hx), (Hsub y Hy). apply W1; congruence. }
    change (fun nn => match sessions_with nname nn (f :: rest) with [] => None | f0 :: _ => mk_neighbor f0 (flat_map s_advs (sessions_with nname nn (f :: rest))) end)
      with (g (f :: rest)).
    change (fun nn => match sessions_with nname nn (f' :: rest') with [] => None | f0 :: _ => mk_neighbor f0 (flat_map s_advs (sessions_with nname nn (f' :: rest'))) end)
      with (g (f' :: rest')).
    rewrite (all_some_ext (g (f :: rest)) (g (f' :: rest'))) by (intros; apply Eg).
    destruct (all_some _) as [ns|]; [|exact I]. simpl.
    assert (Hkey: forall a, key_inj p_text (map a_pfx (advs_afi a (flat_map s_advs (f :: rest))))).
    { intros a x y Hx Hy. apply W3.
      - apply in_map_iff in Hx as (u & <- & Hu). apply in_map. apply filter_In in Hu as [Hu _].
        apply in_flat_map in Hu as (v & Hv & Hu). apply in_flat_map. exists v; split; [apply Hsub; assumption|assumption].
      - apply in_map_iff in Hy as (u & <- & Hu). apply in_map. apply filter_In in Hu as [Hu _].
        apply in_flat_map in Hu as (v & Hv & Hu). apply in_flat_map. exists v; split; [apply Hsub; assumption|assumption]. }
    assert (Hp: forall a, Permutation (map a_pfx (advs_afi a (flat_map s_advs (f :: rest)))) (map a_pfx (advs_afi a (flat_map s_advs (f' :: rest'))))).
    { intros a. apply Permutation_map. apply filter_perm. apply Permutation_flat_map. assumption. }
    unfold req; simpl. repeat split; try assumption.
    + apply sort_k_perm; [apply Hkey|apply Hp].
    + apply sort_k_perm; [apply Hkey|apply Hp].
Qed.

Lemma all_some_rel {A B} (R : B -> B -> Prop) (f g : A -> option B) l :
  (forall x, In x l -> opt_rel R (f x) (g x)) -> opt_rel (Forall2 R) (all_some (map f l)) (all_some (map g l)).
Proof.
  induction l as [|x l IH]; simpl; intros H; [constructor|].
  pose proof (H x (or_introl eq_refl)) as Hx. specialize (IH (fun y Hy => H y (or_intror Hy))).
  destruct (f x), (g x); simpl in Hx; try contradiction; [|exact I].
  destruct (all_some (map f l)), (all_some (map g l)); simpl in IH; try contradiction; [|exact I].
  simpl. constructor; assumption.
Qed.

Lemma req_render rs rs' : Forall2 req rs rs' ->
  map render_router rs = map render_router rs' /\ filters_of rs = filters_of rs'.
Proof.
  induction 1 as [|r r' rs rs' (A1 & A2 & A3 & A4 & A5 & A6) _ [IH1 IH2]]; [split; reflexivity|].
  split.
  - simpl. rewrite IH1. f_equal. unfold render_router. rewrite A1, A2, A3, A4, A5, A6. reflexivity.
  - unfold filters_of in *. simpl. rewrite IH2, A4. reflexivity.
Qed.

Lemma render_perm S S' : wf_perm S -> Permutation S S' -> render S = render S'.
Proof.
  intros W P. unfold render, create_config.
  rewrite (sort_s_perm (map rkey S) (map rkey S')) by (apply Permutation_map; assumption).
  pose proof (all_some_rel req (mk_router S) (mk_router S') (sort_s (map rkey S'))
                (fun k _ => mk_router_perm S S' k W P)) as H.
  destruct (all_some (map (mk_router S) _)) as [rs|], (all_some (map (mk_router S') _)) as [rs'|]; simpl in H; try contradiction; [|reflexivity].
  destruct (req_render _ _ H) as [E1 E2]. rewrite E1, E2. reflexivity.
Qed.
