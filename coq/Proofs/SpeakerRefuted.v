(* C09: witnesses on the faithful model for the two history dependences that are
   recorded as findings (F9, F25). *)
From Coq Require Import List NArith Bool.
From Verif Require Import Model.Speaker.
Local Open Scope N_scope.

Definition env_id : env := {| en_me := 0; en_ignore := false; en_ifs := [0; 1]; en_hash := fun _ n => n |}.
Definition env_rev : env := {| en_me := 0; en_ignore := false; en_ifs := [0; 1]; en_hash := fun _ n => 10 - n |}.

Definition w_node (i : N) : nodeinfo := {| nd_id := i; nd_unavail := false; nd_excl := false; nd_labels := [] |}.
Definition w_cidr : prefix := {| pfam := F4; pbase := 169090560; plen := 24 |}.      (* 10.20.30.0/24 *)
Definition w_cfg (l2 : list l2adv) : config := {| cf_pools := [ {| pl_cidrs := [w_cidr]; pl_bgp := []; pl_l2 := l2 |} ]; cf_peers := [] |}.
Definition w_svc (x : N) : svc :=
  {| sv_lb := true; sv_ips := Some [V4 x]; sv_local := false;
     sv_eps := [[ {| be_ready := Some true; be_serving := None; be_node := Some 0; be_addrs := [1] |} ]] |}.

(* F9: the advertisement's interface list stops matching a local interface (eth9 = 9) *)
Definition f9_history : list sev :=
  [ ENode (w_node 0);
    ECfg (w_cfg [ {| la_nodes := [0]; la_ifs := []; la_all := true |} ]);
    ESvc 0 (Some (w_svc 169090561));
    ECfg (w_cfg [ {| la_nodes := [0]; la_ifs := [9]; la_all := false |} ]) ].

Lemma f9_refuted :
  let ws := srun env_id (Some [0]) f9_history in
  forallb (fun e => match e with ESvc _ (Some s) => svc_ok s | _ => true end) f9_history = true /\
  stale_after env_id ([], sinit (Some [0])) false f9_history = false /\
  final_cfg_ok env_id (snd ws) = false /\
  s_l2 (snd ws) 0 <> None /\ s_l2 (fresh env_id (snd ws) (fst ws)) 0 = None /\
  ~ announced_equiv (snd ws) (fresh env_id (snd ws) (fst ws)).
Proof.
  cbv zeta. split; [reflexivity|]. split; [vm_compute; reflexivity|]. split; [vm_compute; reflexivity|].
  split; [vm_compute; discriminate|].
  split; [vm_compute; reflexivity|]. intros [H _]. specialize (H 0). vm_compute in H. exact H.
Qed.

(* F25: memberlist disabled; nodes 1 and 2 appear after the services were
   processed; their first event requests no re-sync although they are now
   candidates of the election (and node 2 wins it under env_rev) *)
Definition f25_history : list sev :=
  [ ENode (w_node 0);
    ECfg (w_cfg [ {| la_nodes := [0; 1; 2]; la_ifs := []; la_all := true |} ]);
    ESvc 0 (Some (w_svc 169090561));
    ENode (w_node 1); ENode (w_node 2) ].

Lemma f25_refuted :
  let ws := srun env_rev None f25_history in
  forallb (event_ok env_rev) f25_history = true /\
  forallb esvc_ok f25_history = true /\ final_cfg_ok env_rev (snd ws) = true /\
  stale_after env_rev ([], sinit None) false f25_history = true /\
  s_l2 (snd ws) 0 <> None /\ s_l2 (fresh env_rev (snd ws) (fst ws)) 0 = None /\
  ~ announced_equiv (snd ws) (fresh env_rev (snd ws) (fst ws)).
Proof.
  cbv zeta. split; [vm_compute; reflexivity|]. split; [vm_compute; reflexivity|]. split; [vm_compute; reflexivity|].
  split; [vm_compute; reflexivity|]. split; [vm_compute; discriminate|].
  split; [vm_compute; reflexivity|]. intros [H _]. specialize (H 0). vm_compute in H. exact H.
Qed.

(* with the re-sync a fix would request, the same history converges *)
Lemma f25_with_resync :
  let ws := srun env_rev None (f25_history ++ [EResync]) in
  s_l2 (snd ws) 0 = None /\ stale_after env_rev ([], sinit None) false (f25_history ++ [EResync]) = false.
Proof. vm_compute. split; reflexivity. Qed.

(* boundary of the hypothesis esvc_ok: a status that repeats an address.  compareIPs([a;a],[a;b]) holds
   (same length, every new address is an old one), so the old announcement of b is not withdrawn. *)
Definition dup_history : list sev :=
  [ ENode (w_node 0);
    ECfg (w_cfg [ {| la_nodes := [0]; la_ifs := []; la_all := true |} ]);
    ESvc 0 (Some {| sv_lb := true; sv_ips := Some [V4 169090561; V4 169090562]; sv_local := false; sv_eps := sv_eps (w_svc 0) |});
    ESvc 0 (Some {| sv_lb := true; sv_ips := Some [V4 169090561; V4 169090561]; sv_local := false; sv_eps := sv_eps (w_svc 0) |}) ].

Lemma repeated_address_refuted :
  let ws := srun env_id (Some [0]) dup_history in
  forallb esvc_ok dup_history = false /\
  final_cfg_ok env_id (snd ws) = true /\
  stale_after env_id ([], sinit (Some [0])) false dup_history = false /\
  ~ announced_equiv (snd ws) (fresh env_id (snd ws) (fst ws)).
Proof.
  cbv zeta. split; [vm_compute; reflexivity|]. split; [vm_compute; reflexivity|]. split; [vm_compute; reflexivity|].
  intros [H _]. specialize (H 0). vm_compute in H.
  destruct (H {| le_ip := V4 169090562; le_all := true; le_ifs := [] |}) as [H1 _].
  assert (X : In {| le_ip := V4 169090562; le_all := true; le_ifs := [] |}
                 [ {| le_ip := V4 169090561; le_all := true; le_ifs := [] |} ]) by (apply H1; right; left; reflexivity).
  destruct X as [X|[]]. discriminate.
Qed.
