(* C09: witnesses on the faithful model for the two history dependences that are
   recorded as findings (F9, F25). *)
From Coq Require Import List NArith Bool.
From Verif Require Import Model.Speaker.
Local Open Scope N_scope.

Definition env_id : env := {| en_me := 0; en_ignore := false; en_ifs := [0; 1]; en_hash := fun _ n => n |}.
Definition env_rev : env := {| en_me := 0; en_ignore := false; en_ifs := [0; 1]; en_hash := fun _ n => 10 - n |}.

Definition w_node (i : N) : nodeinfo := {| nd_id := i; nd_unavail := false; nd_excl := false; nd_labels := [] |}.
Definition w_cidr : prefix := {| pfam := F4; pbase := 169090560; plen := 24 |}.      (* 10.20.30.0/24 *)
Definition w_cfg (l2 : list l2adv) : config := {| cf_pools := [ {| pl_cidrs := [w_cidr]; pl_bgp := []; pl_l2 := l2 |} ]; cf_peers := [] |}.
Definition w_svc (x : N) : svc :=
  {| sv_lb := true; sv_ips := Some [V4 x]; sv_local := false;
     sv_eps := [[ {| be_ready := Some true; be_serving := None; be_node := Some 0; be_addrs := [1] |} ]] |}.

(* F9: the advertisement's interface list stops matching a local interface (eth9 = 9) *)
Definition f9_history : list sev :=
  [ ENode (w_node 0);
    ECfg (w_cfg [ {| la_nodes := [0]; la_ifs := []; la_all := true |} ]);
    ESvc 0 (Some (w_svc 169090561));
    ECfg (w_cfg [ {| la_nodes := [0]; la_ifs := [9]; la_all := false |} ]) ].

Lemma f9_refuted :
  let ws := srun env_id (Some [0]) f9_history in
  forallb (fun e => match e with ESvc _ (Some s) => svc_ok s | _ => true end) f9_history = true /\
  stale_after env_id ([], sinit (Some [0])) false f9_history = false /\
  final_cfg_ok env_id (snd ws) = false /\
  s_l2 (snd ws) 0 <> None /\ s_l2 (fresh env_id (snd ws) (fst ws)) 0 = None /\
  ~ announced_equiv (snd ws) (fresh env_id (snd ws) (fst ws)).
Proof.
  cbv zeta. split; [reflexivity|]. split; [vm_compute; reflexivity|]. split; [vm_compute; reflexivity|].
  split; [vm_compute; discriminate|].
  split; [vm_compute; reflexivity|]. intros [H _]. specialize (H 0). vm_compute in H. exact H.
Qed.

(* F25: memberlist disabled; nodes 1 and 2 appear after the services were
   processed; their first event requests no re-sync although they are now
   candidates of the election (and node 2 wins it under env_rev) *)
Definition f25_history : list sev :=
  [ ENode (w_node 0);
    ECfg (w_cfg [ {| la_nodes := [0; 1; 2]; la_ifs := []; la_all := true |} ]);
    ESvc 0 (Some (w_svc 169090561));
    ENode (w_node 1); ENode (w_node 2) ].

Lemma f25_refuted :
  let ws := srun env_rev None f25_history in
  forallb (event_ok env_rev) f25_history = true /\
  forallb esvc_ok f25_history = true /\ final_cfg_ok env_rev (snd ws) = true /\
  stale_after env_rev ([], sinit None) false f25_history = true /\
  s_l2 (snd ws) 0 <> None /\ s_l2 (fresh env_rev (snd ws) (fst ws)) 0 = None /\
  ~ announced_equiv (snd ws) (fresh env_rev (snd ws) (fst ws)).
Proof.
  cbv zeta. split; [vm_compute; reflexivity|]. split; [vm_compute; reflexivity|]. split; [vm_compute; reflexivity|].
  split; [vm_compute; reflexivity|]. split; [vm_compute; discriminate|].
  split; [vm_compute; reflexivity|]. intros [H _]. specialize (H 0). vm_compute in H. exact H.
Qed.

(* with the re-sync a fix would request, the same history converges *)
Lemma f25_with_resync :
  let ws := srun env_rev None (f25_history ++ [EResync]) in
  s_l2 (snd ws) 0 = None /\ stale_after env_rev ([], sinit None) false (f25_history ++ [EResync]) = false.
Proof. vm_compute. split; reflexivity. Qed.

(* boundary of the hypothesis esvc_ok: a status that repeats an address.  compareIPs([a;a],[a;b]) holds
   (same length, every new address is an old one), so the old announcement of b is not withdrawn. *)
Definition dup_history : list sev :=
  [ ENode (w_node 0);
    ECfg (w_cfg [ {| la_nodes := [0]; la_ifs := []; la_all := true |} ]);
    ESvc 0 (Some {| sv_lb := true; sv_ips := Some [V4 169090561; V4 169090562]; sv_local := false; sv_eps := sv_eps (w_svc 0) |});
    ESvc 0 (Some {| sv_lb := true; sv_ips := Some [V4 169090561; V4 169090561]; sv_local := false; sv_eps := sv_eps (w_svc 0) |}) ].

Lemma repeated_address_refuted :
  let ws := srun env_id (Some [0]) dup_history in
  forallb esvc_ok dup_history = false /\
  final_cfg_ok env_id (snd ws) = true /\
  stale_after env_id ([], sinit (Some [0])) false dup_history = false /\
  ~ announced_equiv (snd ws) (fresh env_id (snd ws) (fst ws)).
Proof.
  cbv zeta. split; [vm_compute; reflexivity|]. split; [vm_compute; reflexivity|]. split; [vm_compute; reflexivity|].
  intros [H _]. specialize (H 0). vm_compute in H.
  destruct (H {| le_ip := V4 169090562; le_all := true; le_ifs := [] |}) as [H1 _].
  assert (X : In {| le_ip := V4 169090562; le_all := true; le_ifs := [] |}
                 [ {| le_ip := V4 169090561; le_all := true; le_ifs := [] |} ]) by (apply H1; right; left; reflexivity).
  destruct X as [X|[]]. discriminate.
Qed.

(* T3: a configuration that is REFUSED (it has no pool for the announced 10.20.30.1) stays pending: the
   API server holds it, the speaker keeps running - and announcing under - the previous one *)
Definition w_cidr2 : prefix := {| pfam := F4; pbase := 3232235776; plen := 24 |}.    (* 192.168.0.0/24 *)
Definition w_cfg_other : config :=
  {| cf_pools := [ {| pl_cidrs := [w_cidr2]; pl_bgp := []; pl_l2 := [ {| la_nodes := [0]; la_ifs := []; la_all := true |} ] |} ]; cf_peers := [] |}.
Definition pending_history : list sev :=
  [ ENode (w_node 0);
    ECfg (w_cfg [ {| la_nodes := [0]; la_ifs := []; la_all := true |} ]);
    ESvc 0 (Some (w_svc 169090561));
    ECfg w_cfg_other ].

Lemma pending_refusal_refuted :
  let ws := srun env_id (Some [0]) pending_history in
  let a := api_run (Some [0]) pending_history in
  forallb esvc_ok pending_history = true /\ final_cfg_ok env_id (snd ws) = true /\
  stale_after env_id ([], sinit (Some [0])) false pending_history = false /\
  s_nodes (snd ws) = api_nodes a /\ s_cfg (snd ws) <> api_cfg a /\
  s_l2 (snd ws) 0 <> None /\ s_l2 (fresh_cluster env_id a (fst ws)) 0 = None /\
  ~ announced_equiv (snd ws) (fresh_cluster env_id a (fst ws)).
Proof.
  cbv zeta. split; [vm_compute; reflexivity|]. split; [vm_compute; reflexivity|]. split; [vm_compute; reflexivity|].
  split; [vm_compute; reflexivity|]. split; [vm_compute; discriminate|]. split; [vm_compute; discriminate|].
  split; [vm_compute; reflexivity|]. intros [H _]. specialize (H 0). vm_compute in H. exact H.
Qed.

(* a Node object is deleted; the speaker never forgets a node.  Memberlist disabled: the deleted node 2 stays a
   candidate of the election and (smallest hash) its winner, so node 0 keeps silent; a fresh speaker on the
   cluster's nodes {0, 1} announces *)
Definition env_del : env :=
  {| en_me := 0; en_ignore := false; en_ifs := [0; 1]; en_hash := fun _ n => match n with 2 => 0 | 0 => 1 | _ => 2 end |}.
Definition deleted_node_history : list sev :=
  [ ENode (w_node 0); ENode (w_node 1); ENode (w_node 2);
    ECfg (w_cfg [ {| la_nodes := [0; 1; 2]; la_ifs := []; la_all := true |} ]);
    ESvc 0 (Some (w_svc 169090561));
    ENodeDel 2;
    EResync ].

Lemma deleted_node_refuted :
  let ws := srun env_del None deleted_node_history in
  let a := api_run None deleted_node_history in
  forallb esvc_ok deleted_node_history = true /\ final_cfg_ok env_del (snd ws) = true /\
  stale_after env_del ([], sinit None) false deleted_node_history = false /\
  s_cfg (snd ws) = api_cfg a /\ s_nodes (snd ws) <> api_nodes a /\
  s_l2 (snd ws) 0 = None /\ s_l2 (fresh_cluster env_del a (fst ws)) 0 <> None /\
  ~ announced_equiv (snd ws) (fresh_cluster env_del a (fst ws)).
Proof.
  cbv zeta. split; [vm_compute; reflexivity|]. split; [vm_compute; reflexivity|]. split; [vm_compute; reflexivity|].
  split; [vm_compute; reflexivity|]. split; [vm_compute; discriminate|]. split; [vm_compute; reflexivity|].
  split; [vm_compute; discriminate|]. intros [H _]. specialize (H 0). vm_compute in H. exact H.
Qed.

(* joint satisfiability of all hypotheses with something announced on both protocols: a BGP peer with a node
   selector, one BGP advertisement (/24, localpref 100), a relabel that opens the session; then the node
   becomes network-unavailable and everything is withdrawn *)
Definition w_badv : badv := {| ba_agg4 := 24; ba_agg6 := 128; ba_lp := 100; ba_comms := [1]; ba_nodes := [0]; ba_peers := [] |}.
Definition w_cfg_bgp : config :=
  {| cf_pools := [ {| pl_cidrs := [w_cidr]; pl_bgp := [w_badv]; pl_l2 := [ {| la_nodes := [0]; la_ifs := []; la_all := true |} ] |} ];
     cf_peers := [ {| pc_name := 1; pc_sels := [[(7, 7)]]; pc_attr := 0; pc_ref := 0 |} ] |}.
Definition w_lab (l : list (N * N)) (un : bool) : nodeinfo := {| nd_id := 0; nd_unavail := un; nd_excl := false; nd_labels := l |}.
Definition bgp_history : list sev :=
  [ ENode (w_lab [] false); ECfg w_cfg_bgp; ESvc 0 (Some (w_svc 169090561)); ENode (w_lab [(7, 7)] false) ].

Lemma joint_nonvacuous :
  let ws := srun env_id (Some [0]) bgp_history in
  let a := api_run (Some [0]) bgp_history in
  forallb esvc_ok bgp_history = true /\ final_cfg_ok env_id (snd ws) = true /\
  stale_after env_id ([], sinit (Some [0])) false bgp_history = false /\
  s_cfg (snd ws) = api_cfg a /\ s_nodes (snd ws) = api_nodes a /\
  s_l2 (snd ws) 0 <> None /\ bs_ads (s_bgp (snd ws)) 0 <> None /\
  option_map (@length adv) (sess_of (s_bgp (snd ws)) 1) = Some 1%nat /\
  let ws' := srun env_id (Some [0]) (bgp_history ++ [ENode (w_lab [(7, 7)] true)]) in
  s_l2 (snd ws') 0 = None /\ bs_ads (s_bgp (snd ws')) 0 = None /\ sess_of (s_bgp (snd ws')) 1 = Some [].
Proof. vm_compute. repeat split; try discriminate. Qed.

(* ---- endpoint-slice selection ---- *)
Lemma slices_for_spec ns name all eps :
  In eps (slices_for ns name all) <->
  exists s, In s all /\ ks_ns s = ns /\ ks_label s = Some name /\ ks_eps s = eps.
Proof.
  unfold slices_for. rewrite in_map_iff. split.
  - intros [s [He Hs]]. apply filter_In in Hs. destruct Hs as [Hin Hf]. unfold slice_of in Hf.
    apply andb_true_iff in Hf. destruct Hf as [H1 H2]. apply N.eqb_eq in H1.
    destruct (ks_label s) as [l|] eqn:El; [|discriminate]. apply N.eqb_eq in H2. subst l. exists s. auto.
  - intros [s [Hin [H1 [H2 H3]]]]. exists s. split; [exact H3|]. apply filter_In. split; [exact Hin|].
    unfold slice_of. rewrite H1, H2, !N.eqb_refl. reflexivity.
Qed.

(* slices of other namespaces (same service name or not) never matter *)
Lemma slices_for_other_namespace ns name all extra :
  (forall s, In s extra -> ks_ns s <> ns) -> slices_for ns name (all ++ extra) = slices_for ns name all.
Proof.
  intros H. unfold slices_for. rewrite filter_app, map_app.
  assert (E : filter (slice_of ns name) extra = []).
  { induction extra as [|x r IH]; [reflexivity|]. cbn [filter]. unfold slice_of at 1.
    destruct (N.eqb_spec (ks_ns x) ns) as [Hx|Hx]; [exfalso; apply (H x); [left; reflexivity|exact Hx]|].
    cbn [andb]. apply IH. intros s Hs. apply H. right. exact Hs. }
  rewrite E. cbn. apply app_nil_r.
Qed.

(* grouping by the bare label mixes same-named Services of two namespaces, and changes the BGP decision *)
Definition ks_good : kslice := {| ks_ns := 0; ks_label := Some 7; ks_eps := [ {| be_ready := Some true; be_serving := None; be_node := Some 0; be_addrs := [1] |} ] |}.
Definition ks_bad : kslice := {| ks_ns := 1; ks_label := Some 7; ks_eps := [ {| be_ready := Some false; be_serving := Some false; be_node := Some 0; be_addrs := [1] |} ] |}.
Lemma slices_by_label_refuted :
  let v eps := {| bv_advs := [[0]]; bv_node := None; bv_ignore := false; bv_local := false; bv_eps := eps |} in
  bgp_decide 0 (v (slices_for 0 7 [ks_good; ks_bad])) = RAnnounce /\
  bgp_decide 0 (v (slices_by_label 7 [ks_good; ks_bad])) = RNoEndpoints.
Proof. vm_compute. split; reflexivity. Qed.
