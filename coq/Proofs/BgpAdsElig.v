(* C10: bgpController.ShouldAnnounce / hasHealthyEndpoint against the statement. *)
From Coq Require Import List NArith Bool Lia.
From Verif Require Import Model.BgpAds Proofs.ElectP.
Local Open Scope N_scope.

Definition updv (v : option bool) (c : bool) : option bool :=
  match v with None => Some c | Some b => Some (b && c) end.

Definition val (a : N) (l : list (bool * N)) (v0 : option bool) : option bool :=
  fold_left (fun v ca => if snd ca =? a then updv v (fst ca) else v) l v0.

Lemma hstep_val m keys c a' a :
  fst (hstep (m, keys) (c, a')) a = if a' =? a then updv (m a) c else m a.
Proof.
  cbn [hstep fst]. unfold upd. rewrite (N.eqb_sym a' a).
  destruct (N.eqb_spec a a') as [->|Hne].
  - destruct (m a') as [b|] eqn:E; destruct c; cbn; rewrite ?N.eqb_refl, ?E; cbn;
      try reflexivity; destruct b; reflexivity.
  - destruct (m a') as [b|] eqn:E; destruct c; cbn;
      repeat (match goal with |- context [?x =? ?y] => destruct (N.eqb_spec x y); try congruence end); reflexivity.
Qed.

Lemma hstep_keys m keys c a' : snd (hstep (m, keys) (c, a')) = a' :: keys.
Proof. reflexivity. Qed.

Lemma hfold_spec l : forall m keys,
  (forall a, fst (fold_left hstep l (m, keys)) a = val a l (m a)) /\
  (forall a, In a (snd (fold_left hstep l (m, keys))) <-> In a keys \/ In a (map snd l)).
Proof.
  induction l as [|[c a'] r IH]; intros m keys; cbn [fold_left].
  - split; [reflexivity|]. cbn. tauto.
  - destruct (hstep (m, keys) (c, a')) as [m1 k1] eqn:E.
    specialize (IH m1 k1). destruct IH as [IH1 IH2]. split.
    + intros a. rewrite IH1. unfold val at 2. cbn [fold_left snd fst].
      fold (val a r (if a' =? a then updv (m a) c else m a)).
      f_equal. pose proof (hstep_val m keys c a' a) as H. rewrite E in H. exact H.
    + intros a. rewrite IH2. pose proof (hstep_keys m keys c a') as H. rewrite E in H. cbn [snd] in H. subst k1.
      cbn. tauto.
Qed.

Lemma val_true a l : forall v0,
  val a l v0 = Some true <->
  ((v0 = Some true \/ (v0 = None /\ exists c, In (c, a) l)) /\ forall c, In (c, a) l -> c = true).
Proof.
  induction l as [|[c a'] r IH]; intros v0.
  - cbn. split.
    + intros ->. split; [left; reflexivity|tauto].
    + intros [[H|[_ [c []]]] _]; exact H.
  - unfold val. cbn [fold_left snd fst]. fold (val a r (if a' =? a then updv v0 c else v0)).
    rewrite IH. destruct (N.eqb_spec a' a) as [->|Hne].
    + split.
      * intros [H Hall]. split.
        -- destruct H as [H|[H _]].
           ++ destruct v0 as [b|]; cbn in H.
              ** injection H as H. apply andb_true_iff in H. destruct H as [-> ->]. left; reflexivity.
              ** right. split; [reflexivity|]. exists c. left; reflexivity.
           ++ destruct v0; discriminate.
        -- intros c' [Hc|Hc]; [|apply Hall; exact Hc]. injection Hc as <-.
           destruct H as [H|[H _]]; destruct v0 as [b|]; cbn in H; try discriminate.
           ++ injection H as H. apply andb_true_iff in H. tauto.
           ++ injection H as H. exact H.
      * intros [H Hall]. assert (Hc : c = true) by (apply Hall; left; reflexivity). subst c. split.
        -- left. destruct H as [->|[-> _]]; reflexivity.
        -- intros c' Hc'. apply Hall. right. exact Hc'.
    + split.
      * intros [H Hall]. split.
        -- destruct H as [H|[H [c' Hc']]]; [left; exact H|right]. split; [exact H|]. exists c'. right. exact Hc'.
        -- intros c' [Hc|Hc]; [congruence|apply Hall; exact Hc].
      * intros [H Hall]. split.
        -- destruct H as [H|[H [c' [Hc'|Hc']]]]; [left; exact H|congruence|right]. split; [exact H|]. exists c'. exact Hc'.
        -- intros c' Hc'. apply Hall. right. exact Hc'.
Qed.

Lemma in_ep_pairs es c a :
  In (c, a) (ep_pairs es) <-> exists e, In e es /\ In a (be_addrs e) /\ c = bcan_serve e.
Proof.
  unfold ep_pairs. rewrite in_flat_map. split.
  - intros [e [He Hin]]. apply in_map_iff in Hin. destruct Hin as [a' [Hp Ha]]. injection Hp as <- <-.
    exists e. auto.
  - intros [e [He [Ha ->]]]. exists e. split; [exact He|]. apply in_map_iff. exists a. auto.
Qed.

(* hasHealthyEndpoint: some address carried by a selected entry whose selected carriers can all serve *)
Lemma has_healthy_spec filt eps :
  has_healthy filt eps = true <->
  exists a, (exists e, In e (concat eps) /\ filt (be_node e) = false /\ In a (be_addrs e)) /\
            forall e, In e (concat eps) -> filt (be_node e) = false -> In a (be_addrs e) -> bcan_serve e = true.
Proof.
  unfold has_healthy.
  set (es := filter (fun e => negb (filt (be_node e))) (concat eps)).
  assert (Hes : forall e, In e es <-> In e (concat eps) /\ filt (be_node e) = false).
  { intros e. unfold es. rewrite filter_In, negb_true_iff. tauto. }
  destruct (fold_left hstep (ep_pairs es) (fun _ => None, [])) as [m keys] eqn:E.
  pose proof (hfold_spec (ep_pairs es) (fun _ => None) []) as [H1 H2]. rewrite E in H1, H2. cbn [fst snd] in H1, H2.
  rewrite existsb_exists. split.
  - intros [a [Hk Hm]]. exists a.
    destruct (m a) as [[|]|] eqn:Em; try discriminate.
    rewrite H1 in Em. apply val_true in Em. destruct Em as [[Hx|[_ [c Hc]]] Hall]; [discriminate|].
    apply in_ep_pairs in Hc. destruct Hc as [e [He [Ha _]]]. apply Hes in He. split.
    + exists e. tauto.
    + intros e' He' Hf Ha'. apply (Hall (bcan_serve e')). apply in_ep_pairs. exists e'.
      split; [apply Hes; tauto|auto].
  - intros [a [[e [He [Hf Ha]]] Hall]]. exists a. split.
    + apply H2. right. apply in_map_iff. exists (bcan_serve e, a). split; [reflexivity|].
      apply in_ep_pairs. exists e. split; [apply Hes; tauto|auto].
    + assert (Em : m a = Some true).
      { rewrite H1. apply val_true. split.
        - right. split; [reflexivity|]. exists (bcan_serve e). apply in_ep_pairs. exists e. split; [apply Hes; tauto|auto].
        - intros c Hc. apply in_ep_pairs in Hc. destruct Hc as [e' [He' [Ha' ->]]]. apply Hes in He'. apply Hall; tauto. }
      rewrite Em. reflexivity.
Qed.

Lemma not_me_false me n : not_me me n = false <-> n = Some me.
Proof.
  unfold not_me. destruct n as [m|]; [|split; discriminate].
  rewrite negb_false_iff, N.eqb_eq. split; congruence.
Qed.

Lemma healthy_all_spec v :
  has_healthy (fun _ => false) (bv_eps v) = true <-> exists a, ready_all v a.
Proof.
  rewrite has_healthy_spec. unfold ready_all, entries, carries. split.
  - intros [a [[e [He [_ Ha]]] Hall]]. exists a. split; [exists e; tauto|]. intros e' He' Ha'. apply Hall; auto.
  - intros [a [[e [He Ha]] Hall]]. exists a. split; [exists e; auto|]. intros e' He' _ Ha'. apply Hall; auto.
Qed.

Lemma healthy_here_spec me v :
  has_healthy (not_me me) (bv_eps v) = true <-> exists a, ready_here me v a.
Proof.
  rewrite has_healthy_spec. unfold ready_here, entries, carries. split.
  - intros [a [[e [He [Hn Ha]]] Hall]]. apply not_me_false in Hn. exists a. split; [exists e; tauto|].
    intros e' He' Hn' Ha'. apply Hall; auto. apply not_me_false. exact Hn'.
  - intros [a [[e [He [Hn Ha]]] Hall]]. exists a. split; [exists e; rewrite not_me_false; auto|].
    intros e' He' Hn' Ha'. apply not_me_false in Hn'. apply Hall; auto.
Qed.

Lemma adv_selects_spec me v : existsb (mem me) (bv_advs v) = true <-> adv_selects me v.
Proof.
  unfold adv_selects. rewrite existsb_exists. split; intros [l [Hl Hm]]; exists l; (split; [exact Hl|]); apply mem_In; exact Hm.
Qed.

(* what the code decides, as an iff (always true) *)
Lemma bgp_should_announce_iff me v : bgp_decide me v = RAnnounce <-> c10_code me v.
Proof.
  unfold c10_code.
  rewrite <- (adv_selects_spec me v), <- (healthy_all_spec v), <- (healthy_here_spec me v).
  unfold bgp_decide, node_unavail, node_excl.
  destruct (existsb (mem me) (bv_advs v)), (bv_node v) as [[[|] [|]]|], (bv_ignore v), (bv_local v),
    (has_healthy (not_me me) (bv_eps v)), (has_healthy (fun _ => false) (bv_eps v)); cbn;
    (split; [try discriminate; intros _; repeat split; auto; try discriminate
            |try reflexivity; intros [H1 [H2 [[H3|H3] [H4 H5]]]]; try discriminate; try (specialize (H5 eq_refl)); discriminate]).
Qed.

(* the other outcomes, in the order the code tests them *)
Lemma bgp_reason_not_owner me v : bgp_decide me v = RNotOwner <-> ~ adv_selects me v.
Proof.
  unfold bgp_decide. pose proof (adv_selects_spec me v) as Hs.
  destruct (existsb (mem me) (bv_advs v)); cbn [negb].
  - split.
    + repeat match goal with |- context [if ?c then _ else _] => destruct c end; discriminate.
    + intros H. exfalso. apply H. apply Hs. reflexivity.
  - split; [intros _ H; apply Hs in H; discriminate|reflexivity].
Qed.

(* under "no address on two nodes", the code's rule is the statement's rule *)
Lemma code_iff_literal me v : (bv_local v = true -> single_homed v) -> (c10_code me v <-> c10_literal me v).
Proof.
  intros Hsh0. unfold c10_code, c10_literal. destruct (bv_local v) eqn:El.
  - pose proof (Hsh0 eq_refl) as Hsh. split.
    + intros [H1 [H2 [H3 [[a' Ha'] Hh]]]]. repeat split; try assumption.
      destruct (Hh eq_refl) as [a [[e [He [Hn Hc]]] Hall]]. exists a. split.
      * split; [exists e; auto|]. intros e' He' Hc'. apply Hall; auto.
        rewrite <- Hn. symmetry. apply (Hsh e e' a); auto.
      * exists e; auto.
    + intros [H1 [H2 [H3 [a [Hra [e [He [Hn Hc]]]]]]]]. repeat split; try assumption.
      * exists a. exact Hra.
      * intros _. exists a. split; [exists e; auto|]. intros e' He' _ Hc'. apply Hra; auto.
  - split.
    + intros [H1 [H2 [H3 [H4 _]]]]. tauto.
    + intros [H1 [H2 [H3 H4]]]. repeat split; try assumption. discriminate.
Qed.

Lemma bgp_should_announce_partial me v :
  (bv_local v = true -> single_homed v) -> (bgp_decide me v = RAnnounce <-> c10_literal me v).
Proof. intros H. rewrite bgp_should_announce_iff. apply code_iff_literal. exact H. Qed.

(* in one direction the statement's rule always implies the code's *)
Lemma literal_implies_code me v : c10_literal me v -> bgp_decide me v = RAnnounce.
Proof.
  intros H. apply bgp_should_announce_iff. unfold c10_literal in H. unfold c10_code.
  destruct H as [H1 [H2 [H3 H4]]]. repeat split; try assumption.
  - destruct (bv_local v); destruct H4 as [a Ha]; exists a; [apply Ha|exact Ha].
  - intros El. rewrite El in H4. destruct H4 as [a [Hra [e [He [Hn Hc]]]]]. exists a.
    split; [exists e; auto|]. intros e' He' _ Hc'. apply Hra; auto.
Qed.

(* F18: address 1 can serve on me, an entry for address 1 on node 9 cannot,
   address 2 can serve on node 9 *)
Definition f18_view : bview :=
  {| bv_advs := [[0]]; bv_node := None; bv_ignore := false; bv_local := true;
     bv_eps := [[ {| be_ready := Some true; be_serving := None; be_node := Some 0; be_addrs := [1] |};
                  {| be_ready := Some false; be_serving := Some false; be_node := Some 9; be_addrs := [1] |};
                  {| be_ready := Some true; be_serving := None; be_node := Some 9; be_addrs := [2] |} ]] |}.
(* the same without the unrelated address 2 *)
Definition f18_view' : bview :=
  {| bv_advs := [[0]]; bv_node := None; bv_ignore := false; bv_local := true;
     bv_eps := [[ {| be_ready := Some true; be_serving := None; be_node := Some 0; be_addrs := [1] |};
                  {| be_ready := Some false; be_serving := Some false; be_node := Some 9; be_addrs := [1] |} ]] |}.

Lemma bgp_should_announce_literal_refuted :
  exists me v, bgp_decide me v = RAnnounce /\ ~ c10_literal me v.
Proof.
  exists 0, f18_view. split; [vm_compute; reflexivity|].
  unfold c10_literal. cbn [bv_local f18_view]. intros [_ [_ [_ [a [[_ Hall] [e [He [Hn Hc]]]]]]]].
  cbn in He. destruct He as [<-|[<-|[<-|[]]]]; cbn in Hn, Hc; try discriminate.
  destruct Hc as [<-|[]].
  specialize (Hall {| be_ready := Some false; be_serving := Some false; be_node := Some 9; be_addrs := [1] |}).
  assert (H : false = true); [|discriminate]. apply Hall; cbn; auto.
Qed.

(* the decision for this node depends on an unrelated remote endpoint *)
Lemma f18_depends_on_unrelated :
  bgp_decide 0 f18_view = RAnnounce /\ bgp_decide 0 f18_view' = RNoEndpoints.
Proof. vm_compute. split; reflexivity. Qed.

(* the reason is checked nondeterminism: the reference order reports an applicable reason; RAnnounce applies iff the
   decision is "announce"; any other applicable reason means "do not announce" *)
Lemma reason_of_decide_applies me v : reason_applies me v (bgp_decide me v) = true.
Proof.
  unfold reason_applies, bgp_decide.
  destruct (existsb (mem me) (bv_advs v)), (bv_node v) as [[[|] [|]]|], (bv_ignore v), (bv_local v),
    (has_healthy (not_me me) (bv_eps v)), (has_healthy (fun _ => false) (bv_eps v)); reflexivity.
Qed.

Lemma announce_applies_iff me v : reason_applies me v RAnnounce = true <-> bgp_decide me v = RAnnounce.
Proof.
  unfold reason_applies, bgp_decide.
  destruct (existsb (mem me) (bv_advs v)), (bv_node v) as [[[|] [|]]|], (bv_ignore v), (bv_local v),
    (has_healthy (not_me me) (bv_eps v)), (has_healthy (fun _ => false) (bv_eps v)); cbn; split; congruence.
Qed.

Lemma other_reason_means_no me v r : r <> RAnnounce -> reason_applies me v r = true -> bgp_decide me v <> RAnnounce.
Proof.
  intros Hr Ha Hd. apply announce_applies_iff in Hd. revert Ha Hd. unfold reason_applies.
  destruct (existsb (mem me) (bv_advs v)), (bv_node v) as [[[|] [|]]|], (bv_ignore v), (bv_local v),
    (has_healthy (not_me me) (bv_eps v)), (has_healthy (fun _ => false) (bv_eps v)), r; cbn; congruence.
Qed.

