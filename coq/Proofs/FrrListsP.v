(* Shape lemma for addToAdvertisements / mergeAdvertisements (Model/FrrRender.v add_all):
   every requested advertisement is covered by an entry of the merged list. *)
From Coq Require Import String NArith Bool List Lia.
From Verif Require Import Model.FrrRender Model.FrrSem Proofs.FrrSortP.
Import ListNotations.
Open Scope string_scope.

Definition covers (y x : advc) : Prop :=
  p_text (ac_pfx y) = p_text (ac_pfx x) /\ pfx_afi (ac_pfx y) = pfx_afi (ac_pfx x) /\
  incl (ac_comms x) (ac_comms y) /\ incl (ac_lcomms x) (ac_lcomms y) /\ ac_lp y = ac_lp x.

Lemma covers_refl x : covers x x.
Proof. unfold covers. repeat split; try reflexivity; apply incl_refl. Qed.

Lemma covers_trans z y x : covers z y -> covers y x -> covers z x.
Proof.
  intros (A1 & A2 & A3 & A4 & A5) (B1 & B2 & B3 & B4 & B5). unfold covers.
  repeat split; try congruence; eapply incl_tran; eassumption.
Qed.

Lemma afi_eqb_eq a b : afi_eqb a b = true -> a = b.
Proof. destruct a, b; simpl; congruence. Qed.

Lemma merge_covers c a m : p_text (ac_pfx c) = p_text (ac_pfx a) -> merge_advc c a = Some m -> covers m c /\ covers m a.
Proof.
  unfold merge_advc. intros T.
  destruct (afi_eqb (pfx_afi (ac_pfx c)) (pfx_afi (ac_pfx a))) eqn:E1; simpl; [|discriminate].
  destruct (N.eqb (ac_lp c) (ac_lp a)) eqn:E2; simpl; [|discriminate].
  apply afi_eqb_eq in E1. apply N.eqb_eq in E2. intros H; inversion H; subst; clear H. unfold covers; simpl.
  repeat split; try reflexivity; try congruence;
    intros u Hu; apply sort_s_in, in_or_app; auto.
Qed.

Lemma add_advc_covers cur a r : add_advc cur a = Some r ->
  (forall x, In x cur -> exists y, In y r /\ covers y x) /\ (exists y, In y r /\ covers y a).
Proof.
  revert r; induction cur as [|c rest IH]; simpl; intros r H.
  - inversion H; subst. split; [intros x []|]. exists a; split; [left; reflexivity|apply covers_refl].
  - destruct (String.leb (p_text (ac_pfx a)) (p_text (ac_pfx c))).
    + destruct (String.eqb (p_text (ac_pfx c)) (p_text (ac_pfx a))) eqn:E.
      * apply String.eqb_eq in E. destruct (merge_advc c a) as [m|] eqn:M; [|discriminate]. inversion H; subst.
        destruct (merge_covers _ _ _ E M) as [C1 C2]. split.
        -- intros x [->|Hx]; [exists m; split; [left; reflexivity|assumption]|exists x; split; [right; assumption|apply covers_refl]].
        -- exists m; split; [left; reflexivity|assumption].
      * inversion H; subst. split.
        -- intros x Hx. exists x; split; [right; assumption|apply covers_refl].
        -- exists a; split; [left; reflexivity|apply covers_refl].
    + destruct (add_advc rest a) as [r'|] eqn:R; [|discriminate]. inversion H; subst.
      destruct (IH _ eq_refl) as [I1 (y & Hy & Cy)]. split.
      * intros x [->|Hx]; [exists x; split; [left; reflexivity|apply covers_refl]|].
        destruct (I1 x Hx) as (z & Hz & Cz). exists z; split; [right; assumption|assumption].
      * exists y; split; [right; assumption|assumption].
Qed.

Lemma add_all_covers l : forall cur r, add_all cur l = Some r ->
  (forall x, In x cur -> exists y, In y r /\ covers y x) /\ (forall a, In a l -> exists y, In y r /\ covers y a).
Proof.
  induction l as [|a l IH]; simpl; intros cur r H.
  - inversion H; subst. split; [|intros a []]. intros x Hx; exists x; split; [assumption|apply covers_refl].
  - destruct (add_advc cur a) as [c|] eqn:E; [|discriminate].
    destruct (add_advc_covers _ _ _ E) as [A1 (y & Hy & Cy)]. destruct (IH _ _ H) as [B1 B2]. split.
    + intros x Hx. destruct (A1 x Hx) as (z & Hz & Cz). destruct (B1 z Hz) as (w & Hw & Cw).
      exists w; split; [assumption|eapply covers_trans; eassumption].
    + intros b [->|Hb]; [|apply B2; assumption].
      destruct (B1 y Hy) as (w & Hw & Cw). exists w; split; [assumption|eapply covers_trans; eassumption].
Qed.

(* every requested advertisement of a neighbor is represented in its merged list *)
Lemma mk_neighbor_covers f advs n : mk_neighbor f advs = Some n ->
  nc_s n = f /\ forall a, In a advs -> exists y, In y (nc_advs n) /\ covers y (advc_of a).
Proof.
  unfold mk_neighbor. destruct (add_all [] (map advc_of advs)) as [acs|] eqn:E; [|discriminate].
  intros H; inversion H; subst; simpl. split; [reflexivity|].
  intros a Ha. apply (proj2 (add_all_covers _ _ _ E)). apply in_map. assumption.
Qed.

(* ---- every list referenced by a neighbor's route-map has a line in that neighbor's block ---- *)
Definition has_line (n : nconf) (a : afi) (name : string) : Prop :=
  exists sq pm p, In (IPl a name sq pm p) (map snd (neighbor_filters n)).

Lemma adv_line_in n y it : In y (nc_advs n) -> In it (map snd (adv_lines (nc_s n) y)) -> In it (map snd (neighbor_filters n)).
Proof.
  intros Hy Hit. unfold neighbor_filters. rewrite !map_app, !in_app_iff.
  do 7 right. left. apply in_map_iff in Hit as (x & <- & Hx). apply in_map. apply in_flat_map. exists y; auto.
Qed.

Lemma line_allowed n y : In y (nc_advs n) -> has_line n (pfx_afi (ac_pfx y)) (pl_allowed (nc_s n)).
Proof.
  intros Hy. exists 0%N, true, (Some (ac_pfx y)). apply (adv_line_in n y _ Hy).
  unfold adv_lines. rewrite !map_app, !in_app_iff. do 3 right. left. reflexivity.
Qed.

Lemma line_lp n y : In y (nc_advs n) -> ac_lp y <> 0%N -> has_line n (pfx_afi (ac_pfx y)) (pl_lp (nc_s n) (ac_lp y)).
Proof.
  intros Hy Hn. exists 0%N, true, (Some (ac_pfx y)). apply (adv_line_in n y _ Hy).
  unfold adv_lines. rewrite !map_app, !in_app_iff. left.
  apply N.eqb_neq in Hn. rewrite Hn. left. reflexivity.
Qed.

Lemma line_comm n y c : In y (nc_advs n) -> In c (ac_comms y) -> has_line n (pfx_afi (ac_pfx y)) (pl_comm (nc_s n) c).
Proof.
  intros Hy Hc. exists 0%N, true, (Some (ac_pfx y)). apply (adv_line_in n y _ Hy).
  unfold adv_lines. rewrite !map_app, !in_app_iff. right; left. rewrite map_map. simpl.
  apply in_map_iff. exists c; auto.
Qed.

Lemma line_lcomm n y c : In y (nc_advs n) -> In c (ac_lcomms y) -> has_line n (pfx_afi (ac_pfx y)) (pl_lcomm (nc_s n) c).
Proof.
  intros Hy Hc. exists 0%N, true, (Some (ac_pfx y)). apply (adv_line_in n y _ Hy).
  unfold adv_lines. rewrite !map_app, !in_app_iff. right; right; left. rewrite map_map. simpl.
  apply in_map_iff. exists c; auto.
Qed.

Lemma advs_afi_in a l x : In x (advs_afi a l) <-> In x l /\ pfx_afi (a_pfx x) = a.
Proof.
  unfold advs_afi. rewrite filter_In. split; intros [H1 H2]; split; try assumption.
  - apply afi_eqb_eq; assumption.
  - subst. destruct (pfx_afi (a_pfx x)); reflexivity.
Qed.

Section Block.
  Variables (f : session) (advs : list adv) (n : nconf).
  Hypothesis Hmk : mk_neighbor f advs = Some n.

  Lemma mk_fields :
    nc_lp4 n = sort_n (filter (fun x => negb (N.eqb x 0)) (map a_lp (advs_afi A4 advs))) /\
    nc_lp6 n = sort_n (filter (fun x => negb (N.eqb x 0)) (map a_lp (advs_afi A6 advs))) /\
    nc_comm4 n = sort_s (flat_map (comms_of false) (advs_afi A4 advs)) /\
    nc_comm6 n = sort_s (flat_map (comms_of false) (advs_afi A6 advs)) /\
    nc_lcomm4 n = sort_s (flat_map (comms_of true) (advs_afi A4 advs)) /\
    nc_lcomm6 n = sort_s (flat_map (comms_of true) (advs_afi A6 advs)) /\
    (nc_has4 n = true -> exists x, In x (advs_afi A4 advs)) /\
    (nc_has6 n = true -> exists x, In x (advs_afi A6 advs)).
  Proof.
    unfold mk_neighbor in Hmk. destruct (add_all [] (map advc_of advs)); [|discriminate].
    inversion Hmk; subst; simpl. repeat split; try reflexivity.
    - destruct (advs_afi A4 advs) as [|x0 l0]; simpl; [discriminate|]. intros _; exists x0; left; reflexivity.
    - destruct (advs_afi A6 advs) as [|x0 l0]; simpl; [discriminate|]. intros _; exists x0; left; reflexivity.
  Qed.

  Lemma rep a0 : In a0 advs -> exists y, In y (nc_advs n) /\ covers y (advc_of a0).
  Proof. apply (proj2 (mk_neighbor_covers _ _ _ Hmk)). Qed.

  Lemma def_lp a lp : In lp (sort_n (filter (fun x => negb (N.eqb x 0)) (map a_lp (advs_afi a advs)))) ->
    has_line n a (pl_lp (nc_s n) lp).
  Proof.
    intros H. apply sort_n_in, filter_In in H as [H Hn]. apply negb_true_iff, N.eqb_neq in Hn.
    apply in_map_iff in H as (a0 & <- & Ha0). apply advs_afi_in in Ha0 as [Ha0 Af].
    destruct (rep a0 Ha0) as (y & Hy & (_ & Ay & _ & _ & Ly)). simpl in *.
    rewrite <- Af, <- Ay, <- Ly. apply line_lp; [assumption|congruence].
  Qed.

  Lemma def_comm a c : In c (sort_s (flat_map (comms_of false) (advs_afi a advs))) -> has_line n a (pl_comm (nc_s n) c).
  Proof.
    intros H. apply sort_s_in, in_flat_map in H as (a0 & Ha0 & Hc). apply advs_afi_in in Ha0 as [Ha0 Af].
    destruct (rep a0 Ha0) as (y & Hy & (_ & Ay & Cy & _ & _)). simpl in *.
    rewrite <- Af, <- Ay. apply line_comm; [assumption|apply Cy; assumption].
  Qed.

  Lemma def_lcomm a c : In c (sort_s (flat_map (comms_of true) (advs_afi a advs))) -> has_line n a (pl_lcomm (nc_s n) c).
  Proof.
    intros H. apply sort_s_in, in_flat_map in H as (a0 & Ha0 & Hc). apply advs_afi_in in Ha0 as [Ha0 Af].
    destruct (rep a0 Ha0) as (y & Hy & (_ & Ay & _ & Cy & _)). simpl in *.
    rewrite <- Af, <- Ay. apply line_lcomm; [assumption|apply Cy; assumption].
  Qed.

  Lemma def_allowed a : has_line n a (pl_allowed (nc_s n)).
  Proof.
    destruct mk_fields as (_ & _ & _ & _ & _ & _ & H4 & H6).
    assert (G: forall (hb : bool) (Hh : hb = true -> exists x, In x (advs_afi a advs)),
               (hb = false -> has_line n a (pl_allowed (nc_s n))) -> has_line n a (pl_allowed (nc_s n))).
    { intros hb Hh Hd. destruct hb; [|apply Hd; reflexivity].
      destruct (Hh eq_refl) as (a0 & Ha0). apply advs_afi_in in Ha0 as [Ha0 Af].
      destruct (rep a0 Ha0) as (y & Hy & (_ & Ay & _)). simpl in *. rewrite <- Af, <- Ay. apply line_allowed; assumption. }
    destruct a.
    - apply (G (nc_has4 n) H4). intros Hf. exists 0%N, false, None.
      unfold neighbor_filters. rewrite !map_app, !in_app_iff. do 8 right. left. rewrite Hf. left; reflexivity.
    - apply (G (nc_has6 n) H6). intros Hf. exists 0%N, false, None.
      unfold neighbor_filters. rewrite !map_app, !in_app_iff. do 9 right. left. rewrite Hf. left; reflexivity.
  Qed.

  Lemma block_lists_defined nm sq pm m st nx a name :
    In (IRm nm sq pm m st nx) (map snd (neighbor_filters n)) -> In (a, name) m -> has_line n a name.
  Proof.
    destruct mk_fields as (L4 & L6 & C4 & C6 & B4 & B6 & _).
    unfold neighbor_filters at 1. rewrite !map_app, !in_app_iff, !map_map. simpl. intros H Hm.
    repeat (destruct H as [H|H]); try contradiction.
    all: try (inversion H; subst; simpl in Hm; contradiction).
    all: try (inversion H; subst; destruct Hm as [Hm|[]]; try contradiction; inversion Hm; subst; apply def_allowed).
    all: try (apply in_map_iff in H as (x & E & Hx); inversion E; subst; destruct Hm as [Hm|[]]; inversion Hm; subst).
    - apply def_lp. rewrite <- L4. assumption.
    - apply def_lp. rewrite <- L6. assumption.
    - apply def_lcomm. rewrite <- B4. assumption.
    - apply def_lcomm. rewrite <- B6. assumption.
    - apply def_comm. rewrite <- C4. assumption.
    - apply def_comm. rewrite <- C6. assumption.
    - exfalso. apply in_map_iff in H as (x & E & Hx). apply in_flat_map in Hx as (y & _ & Hy).
      unfold adv_lines in Hy. rewrite !in_app_iff in Hy.
      destruct Hy as [Hy|[Hy|[Hy|Hy]]].
      + destruct (N.eqb (ac_lp y) 0); [contradiction|]. destruct Hy as [<-|[]]. discriminate.
      + apply in_map_iff in Hy as (c & <- & _). discriminate.
      + apply in_map_iff in Hy as (c & <- & _). discriminate.
      + destruct Hy as [<-|[]]. discriminate.
    - exfalso. destruct (nc_has4 n); simpl in H; [contradiction|]. destruct H as [H|[]]; discriminate.
    - exfalso. destruct (nc_has6 n); simpl in H; [contradiction|]. destruct H as [H|[]]; discriminate.
  Qed.
End Block.
