(* Lemmas about Model/AnnouncerJoin.v: group counters and socket membership when multicast joins
   may fail (after fix 5ea1991), and the refutation of the behaviour before it. *)
From Coq Require Import List NArith ZArith Bool Lia ZifyN ZifyNat ZifyBool.
From Verif Require Import Model.Net Proofs.NetP Model.Announcer Proofs.AnnouncerP Proofs.AnnouncerNdpP
  Proofs.AnnouncerTop Model.AnnouncerJoin.
Import ListNotations.
Local Open Scope Z_scope.

(* ---------- the services / reference-count part is the one of Model/Announcer.v ---------- *)
Definition peq (s t : st) : Prop := ips s = ips t /\ refcnt s = refcnt t /\ ndps s = ndps t /\ arps s = arps t.

Lemma peq_refl s : peq s s. Proof. repeat split. Qed.

Lemma peq_rc s t i : peq s t -> rc s i = rc t i.
Proof. intros [_ [E _]]. unfold rc. rewrite E. reflexivity. Qed.

Lemma peq_inc1 jok i s t : peq s t -> peq (inc1j jok i s) (inc1 i t).
Proof.
  intros P. pose proof (peq_rc s t i P) as R. destruct P as [A [B [C D]]].
  unfold peq, inc1j, inc1. cbn [ips refcnt ndps arps]. rewrite R, A, B, C, D. repeat split.
Qed.

Lemma peq_dec1 i s t : peq s t -> peq (dec1j s i) (dec1 t i).
Proof.
  intros P. pose proof (peq_rc s t i P) as R. destruct P as [A [B [C D]]].
  unfold peq, dec1j, dec1. cbn [ips refcnt ndps arps]. rewrite R, A, B, C, D. repeat split.
Qed.

Lemma peq_fold_dec1 l s t : peq s t -> peq (fold_left dec1j l s) (fold_left dec1 l t).
Proof. revert s t. induction l as [|i l IH]; intros s t P; cbn; [exact P|]. apply IH, peq_dec1, P. Qed.

Lemma peq_with_ips s t m : peq s t -> peq (with_ips s m) (with_ips t m).
Proof. intros [A [B [C D]]]. unfold peq, with_ips. cbn. rewrite B, C, D. repeat split. Qed.

Lemma peq_set name a jok s t : peq s t -> peq (set_balancer_j name a jok s) (set_balancer name a t).
Proof.
  intros P. assert (E : ips s = ips t) by apply P. unfold set_balancer_j, set_balancer, cur_advs. rewrite E.
  destruct (existsb _ _); [apply peq_with_ips, P|apply peq_inc1, peq_with_ips, P].
Qed.

Lemma peq_delete name s t : peq s t -> peq (delete_balancer_j name s) (delete_balancer name t).
Proof.
  intros P. assert (E : ips s = ips t) by apply P. unfold delete_balancer_j, delete_balancer. rewrite E.
  destruct (lookup name (ips t)); [apply peq_fold_dec1, peq_with_ips, P|exact P].
Qed.

Lemma peq_run us s t : peq s t -> peq (runj us s) (run (map erase us) t).
Proof.
  revert s t. induction us as [|u us IH]; intros s t P; cbn; [exact P|]. apply IH.
  destruct u; cbn; [apply peq_set|apply peq_delete]; exact P.
Qed.

Lemma inv_peq s t : peq s t -> inv t -> inv s.
Proof.
  intros P [K O R]. assert (E : ips s = ips t) by apply P. split.
  - rewrite E. exact K.
  - rewrite E. exact O.
  - intros i. rewrite (peq_rc s t i P), E. apply R.
Qed.

Lemma holds_peq s t svc a : peq s t -> (holds s svc a <-> holds t svc a).
Proof. intros [E _]. unfold holds. rewrite E. reflexivity. Qed.

(* ---------- Watch / Unwatch with failing joins on one (interface, group) ---------- *)
Lemma watch1j_unch ok i gm intf intf' g : intf' <> intf \/ in_group g i = false ->
  g1 (watch1j ok i gm intf) intf' g = g1 gm intf' g /\ g2 (watch1j ok i gm intf) intf' g = g2 gm intf' g.
Proof.
  unfold watch1j, in_group, g1, g2. destruct (sn_group i) as [g'|]; [|auto]. intros H.
  assert (X : pair_eqb (intf', g) (intf, g') = false).
  { apply pair_eqb_neq. intros E. inversion E; subst. destruct H as [H|H]; [congruence|]. rewrite N.eqb_refl in H. discriminate. }
  destruct (_ =? 0); [destruct ok|]; cbn [fst snd]; rewrite ?zget_zset, ?X; auto.
Qed.

Lemma watch1j_hit ok i gm intf g : in_group g i = true ->
  g1 (watch1j ok i gm intf) intf g = (if g1 gm intf g =? 0 then if ok then 1 else 0 else g1 gm intf g + 1) /\
  g2 (watch1j ok i gm intf) intf g = (if (g1 gm intf g =? 0) && ok then g2 gm intf g + 1 else g2 gm intf g).
Proof.
  unfold watch1j, in_group, g1, g2. destruct (sn_group i) as [g'|]; [|discriminate]. intros H. apply N.eqb_eq in H. subst g'.
  destruct (zget pair_eqb (intf, g) (fst gm) =? 0) eqn:Z0; [destruct ok|]; cbn [fst snd andb];
    rewrite ?zget_zset, ?pair_eqb_refl; split; try reflexivity; lia.
Qed.

Lemma unwatch1j_unch i gm intf intf' g : intf' <> intf \/ in_group g i = false ->
  g1 (unwatch1j i gm intf) intf' g = g1 gm intf' g /\ g2 (unwatch1j i gm intf) intf' g = g2 gm intf' g.
Proof.
  unfold unwatch1j, in_group, g1, g2. destruct (sn_group i) as [g'|]; [|auto]. intros H.
  assert (X : pair_eqb (intf', g) (intf, g') = false).
  { apply pair_eqb_neq. intros E. inversion E; subst. destruct H as [H|H]; [congruence|]. rewrite N.eqb_refl in H. discriminate. }
  destruct (_ <=? 0); [auto|]. cbn [fst snd]. split; [rewrite zget_zset, X; reflexivity|].
  destruct (_ =? 0); [rewrite zget_zset, X|]; reflexivity.
Qed.

Lemma unwatch1j_hit i gm intf g : in_group g i = true ->
  g1 (unwatch1j i gm intf) intf g = (if g1 gm intf g <=? 0 then g1 gm intf g else g1 gm intf g - 1) /\
  g2 (unwatch1j i gm intf) intf g = (if (0 <? g1 gm intf g) && (g1 gm intf g - 1 =? 0) then g2 gm intf g - 1 else g2 gm intf g).
Proof.
  unfold unwatch1j, in_group, g1, g2. destruct (sn_group i) as [g'|]; [|discriminate]. intros H. apply N.eqb_eq in H. subst g'.
  destruct (zget pair_eqb (intf, g) (fst gm) <=? 0) eqn:L.
  - assert (0 <? zget pair_eqb (intf, g) (fst gm) = false) as -> by lia. cbn [andb]. auto.
  - assert (0 <? zget pair_eqb (intf, g) (fst gm) = true) as -> by lia. cbn [fst snd andb].
    split; [rewrite zget_zset, pair_eqb_refl; reflexivity|].
    destruct (_ =? 0); [rewrite zget_zset, pair_eqb_refl|]; reflexivity.
Qed.

Definition fwj (jok : N -> bool) (i : ip) (l : list N) (gm : gm_t) : gm_t :=
  fold_left (fun gm intf => watch1j (jok intf) i gm intf) l gm.

Lemma fwj_unch jok i l gm intf g : ~ In intf l \/ in_group g i = false ->
  g1 (fwj jok i l gm) intf g = g1 gm intf g /\ g2 (fwj jok i l gm) intf g = g2 gm intf g.
Proof.
  revert gm. induction l as [|x l IH]; intros gm H; cbn [fwj fold_left]; [auto|].
  destruct (IH (watch1j (jok x) i gm x)) as [A B]. { destruct H as [H|H]; [left; intros HI; apply H; right; exact HI|right; exact H]. }
  unfold fwj in A, B. rewrite A, B. apply watch1j_unch. destruct H as [H|H]; [left; intros ->; apply H; left; reflexivity|right; exact H].
Qed.

Lemma fwj_hit jok i l gm intf g : NoDup l -> In intf l -> in_group g i = true ->
  g1 (fwj jok i l gm) intf g = (if g1 gm intf g =? 0 then if jok intf then 1 else 0 else g1 gm intf g + 1) /\
  g2 (fwj jok i l gm) intf g = (if (g1 gm intf g =? 0) && jok intf then g2 gm intf g + 1 else g2 gm intf g).
Proof.
  revert gm. induction l as [|x l IH]; intros gm ND HI G; [contradiction|]. cbn [fwj fold_left]. inversion ND; subst.
  destruct (N.eq_dec x intf) as [->|Hne].
  - destruct (fwj_unch jok i l (watch1j (jok intf) i gm intf) intf g) as [A B]; [left; assumption|].
    unfold fwj in A, B. rewrite A, B. apply watch1j_hit. exact G.
  - destruct HI as [E|HI]; [contradiction|]. destruct (IH (watch1j (jok x) i gm x) H2 HI G) as [A B].
    unfold fwj in A, B. rewrite A, B.
    destruct (watch1j_unch (jok x) i gm x intf g) as [C D]; [left; congruence|]. rewrite C, D. auto.
Qed.

Lemma fuj_unch i l gm intf g : ~ In intf l \/ in_group g i = false ->
  g1 (fold_left (unwatch1j i) l gm) intf g = g1 gm intf g /\ g2 (fold_left (unwatch1j i) l gm) intf g = g2 gm intf g.
Proof.
  revert gm. induction l as [|x l IH]; intros gm H; cbn [fold_left]; [auto|].
  destruct (IH (unwatch1j i gm x)) as [A B]. { destruct H as [H|H]; [left; intros HI; apply H; right; exact HI|right; exact H]. }
  rewrite A, B. apply unwatch1j_unch. destruct H as [H|H]; [left; intros ->; apply H; left; reflexivity|right; exact H].
Qed.

Lemma fuj_hit i l gm intf g : NoDup l -> In intf l -> in_group g i = true ->
  g1 (fold_left (unwatch1j i) l gm) intf g = (if g1 gm intf g <=? 0 then g1 gm intf g else g1 gm intf g - 1) /\
  g2 (fold_left (unwatch1j i) l gm) intf g = (if (0 <? g1 gm intf g) && (g1 gm intf g - 1 =? 0) then g2 gm intf g - 1 else g2 gm intf g).
Proof.
  revert gm. induction l as [|x l IH]; intros gm ND HI G; [contradiction|]. cbn [fold_left]. inversion ND; subst.
  destruct (N.eq_dec x intf) as [->|Hne].
  - destruct (fuj_unch i l (unwatch1j i gm intf) intf g) as [A B]; [left; assumption|]. rewrite A, B.
    apply unwatch1j_hit. exact G.
  - destruct HI as [E|HI]; [contradiction|]. destruct (IH (unwatch1j i gm x) H2 HI G) as [A B]. rewrite A, B.
    destruct (unwatch1j_unch i gm x intf g) as [C D]; [left; congruence|]. rewrite C, D. auto.
Qed.

Ltac bash := repeat match goal with |- context [if ?c then _ else _] => destruct c eqn:? end; try lia; try discriminate.

(* ---------- the invariant ---------- *)
(* b = "no join has failed so far" *)
Definition Jinv (b : bool) (s : st) : Prop :=
  forall intf g U, In intf (ndps s) -> NoDup U -> covers s U ->
    0 <= grp s intf g /\ grp s intf g <= zsum (Fg s g) U /\
    (b = true -> grp s intf g = zsum (Fg s g) U) /\
    mem s intf g = (if 0 <? grp s intf g then 1 else 0).

Lemma Jinv_ext b s s' : refcnt s = refcnt s' -> groups s = groups s' -> member s = member s' ->
  ndps s = ndps s' -> Jinv b s -> Jinv b s'.
Proof.
  destruct s, s'. cbn. intros -> -> -> ->. unfold Jinv, covers, Fg, rc, grp, mem. cbn. auto.
Qed.

Lemma Fg_nonneg s g i : 0 <= Fg s g i.
Proof. unfold Fg. destruct (_ && _); lia. Qed.

Lemma zsum_nonneg f U : (forall i, 0 <= f i) -> 0 <= zsum f U.
Proof. intros H. induction U as [|j U IH]; cbn; [lia|]. pose proof (H j). lia. Qed.

Lemma zsum_ge f U i : (forall j, 0 <= f j) -> In i U -> f i <= zsum f U.
Proof.
  intros H. induction U as [|j U IH]; cbn; [contradiction|]. intros [->|Hi].
  - pose proof (zsum_nonneg f U H). lia.
  - pose proof (IH Hi). pose proof (H j). lia.
Qed.

Lemma rc_inc1j jok s i j : rc (inc1j jok i s) j = if ip_eqb j i then rc s i + 1 else rc s j.
Proof. unfold inc1j, rc at 1. cbn [refcnt]. apply rc_zset. Qed.
Lemma rc_dec1j s i j : rc (dec1j s i) j = if ip_eqb j i then rc s i - 1 else rc s j.
Proof. unfold dec1j, rc at 1. cbn [refcnt]. apply rc_zset. Qed.

Lemma Jinv_inc1j jok s i b : NoDup (ndps s) -> 0 <= rc s i -> Jinv b s ->
  Jinv (b && forallb jok (ndps s)) (inc1j jok i s).
Proof.
  intros ND Hrc J.
  assert (RCo : forall j, j <> i -> rc (inc1j jok i s) j = rc s j).
  { intros j Hj. rewrite rc_inc1j. apply ip_eqb_neq in Hj. rewrite Hj. reflexivity. }
  assert (RCi : rc (inc1j jok i s) i = rc s i + 1) by (rewrite rc_inc1j, ip_eqb_refl; reflexivity).
  assert (G : forall intf g, In intf (ndps s) ->
            grp (inc1j jok i s) intf g =
              (if (rc s i =? 0) && in_group g i
               then (if grp s intf g =? 0 then if jok intf then 1 else 0 else grp s intf g + 1) else grp s intf g) /\
            mem (inc1j jok i s) intf g =
              (if (rc s i =? 0) && in_group g i && (grp s intf g =? 0) && jok intf then mem s intf g + 1 else mem s intf g)).
  { intros intf g HI. unfold inc1j, grp at 1, mem at 1. cbn [groups member].
    destruct (1 <? rc s i + 1) eqn:E.
    - assert (rc s i =? 0 = false) as -> by lia. cbn. split; reflexivity.
    - assert (rc s i =? 0 = true) as -> by lia. cbn [andb]. destruct (in_group g i) eqn:GI.
      + destruct (fwj_hit jok i (ndps s) (groups s, member s) intf g ND HI GI) as [A B].
        unfold fwj, g1, g2 in A, B. cbn [fst snd] in A, B. fold (grp s intf g) in A, B. fold (mem s intf g) in B.
        split; [exact A|]. rewrite B. cbn [andb]. reflexivity.
      + destruct (fwj_unch jok i (ndps s) (groups s, member s) intf g) as [A B]; [right; exact GI|].
        unfold fwj, g1, g2 in A, B. cbn [fst snd] in A, B. split; [exact A|exact B]. }
  intros intf g U HI NDU CV. cbn [ndps inc1j] in HI.
  assert (HiU : In i U) by (apply CV; rewrite RCi; lia).
  assert (CV0 : covers s U).
  { intros j Hj. destruct (ip_dec j i) as [->|Hne]; [exact HiU|]. apply CV. rewrite RCo by exact Hne. exact Hj. }
  destruct (J intf g U HI NDU CV0) as [P0 [P1 [P2 P3]]].
  destruct (G intf g HI) as [EG EM]. rewrite EG, EM, P3.
  rewrite (zsum_update (Fg s g) (Fg (inc1j jok i s) g) U i NDU HiU) by (intros j Hj; apply Fg_other, RCo, Hj).
  assert (DF : Fg (inc1j jok i s) g i - Fg s g i = if (rc s i =? 0) && in_group g i then 1 else 0).
  { unfold Fg. rewrite RCi. destruct (in_group g i); destruct (rc s i =? 0) eqn:E;
      destruct (0 <? rc s i + 1) eqn:E1; destruct (0 <? rc s i) eqn:E2; cbn [andb]; lia. }
  rewrite DF.
  assert (JK : b && forallb jok (ndps s) = true -> b = true /\ jok intf = true).
  { intros H. apply andb_true_iff in H. destruct H as [H1 H2]. split; [exact H1|]. rewrite forallb_forall in H2. apply H2, HI. }
  destruct (rc s i =? 0) eqn:C1; destruct (in_group g i) eqn:C2; destruct (grp s intf g =? 0) eqn:C3;
    destruct (jok intf) eqn:C4; cbn [andb]; (split; [|split; [|split]]);
    try (intros H; destruct (JK H) as [Hb Hk]; specialize (P2 Hb); try discriminate); bash.
Qed.

Lemma Jinv_dec1j s i b : NoDup (ndps s) -> 1 <= rc s i -> Jinv b s -> Jinv b (dec1j s i).
Proof.
  intros ND Hrc J.
  assert (RCo : forall j, j <> i -> rc (dec1j s i) j = rc s j).
  { intros j Hj. rewrite rc_dec1j. apply ip_eqb_neq in Hj. rewrite Hj. reflexivity. }
  assert (RCi : rc (dec1j s i) i = rc s i - 1) by (rewrite rc_dec1j, ip_eqb_refl; reflexivity).
  assert (G : forall intf g, In intf (ndps s) ->
            grp (dec1j s i) intf g =
              (if (rc s i =? 1) && in_group g i then (if grp s intf g <=? 0 then grp s intf g else grp s intf g - 1) else grp s intf g) /\
            mem (dec1j s i) intf g =
              (if (rc s i =? 1) && in_group g i && (0 <? grp s intf g) && (grp s intf g - 1 =? 0) then mem s intf g - 1 else mem s intf g)).
  { intros intf g HI. unfold dec1j, grp at 1, mem at 1. cbn [groups member].
    destruct (0 <? rc s i - 1) eqn:E.
    - assert (rc s i =? 1 = false) as -> by lia. cbn. split; reflexivity.
    - assert (rc s i =? 1 = true) as -> by lia. cbn [andb]. destruct (in_group g i) eqn:GI.
      + destruct (fuj_hit i (ndps s) (groups s, member s) intf g ND HI GI) as [A B].
        unfold g1, g2 in A, B. cbn [fst snd] in A, B. fold (grp s intf g) in A, B. fold (mem s intf g) in B.
        split; [exact A|]. rewrite B. cbn [andb]. reflexivity.
      + destruct (fuj_unch i (ndps s) (groups s, member s) intf g) as [A B]; [right; exact GI|].
        unfold g1, g2 in A, B. cbn [fst snd] in A, B. split; [exact A|exact B]. }
  intros intf g U HI NDU CV. cbn [ndps dec1j] in HI.
  destruct (G intf g HI) as [EG EM]. rewrite EG, EM.
  assert (DF : Fg s g i - Fg (dec1j s i) g i = if (rc s i =? 1) && in_group g i then 1 else 0).
  { unfold Fg. rewrite RCi. destruct (in_group g i); destruct (rc s i =? 1) eqn:E;
      destruct (0 <? rc s i - 1) eqn:E1; destruct (0 <? rc s i) eqn:E2; cbn [andb]; lia. }
  (* the sum before, over a list that also covers the state before *)
  assert (PRE : exists S0, 0 <= grp s intf g /\ grp s intf g <= S0 /\ (b = true -> grp s intf g = S0) /\
                           mem s intf g = (if 0 <? grp s intf g then 1 else 0) /\
                           S0 = zsum (Fg (dec1j s i) g) U + (if (rc s i =? 1) && in_group g i then 1 else 0) /\
                           0 <= zsum (Fg (dec1j s i) g) U).
  { pose proof (zsum_nonneg (Fg (dec1j s i) g) U (Fg_nonneg _ g)) as NN.
    destruct (in_dec ip_dec i U) as [HiU|HiU].
    - assert (CV0 : covers s U).
      { intros j Hj. destruct (ip_dec j i) as [->|Hne]; [exact HiU|]. apply CV. rewrite RCo by exact Hne. exact Hj. }
      destruct (J intf g U HI NDU CV0) as [P0 [P1 [P2 P3]]]. exists (zsum (Fg s g) U). repeat split; try assumption.
      rewrite (zsum_update (Fg s g) (Fg (dec1j s i) g) U i NDU HiU) by (intros j Hj; apply Fg_other, RCo, Hj). lia.
    - assert (CV0 : covers s (i :: U)).
      { intros j Hj. destruct (ip_dec j i) as [->|Hne]; [left; reflexivity|]. right. apply CV. rewrite RCo by exact Hne. exact Hj. }
      assert (R0 : rc (dec1j s i) i = 0).
      { destruct (Z.eq_dec (rc (dec1j s i) i) 0) as [E|E]; [exact E|]. exfalso. apply HiU, CV, E. }
      destruct (J intf g (i :: U) HI (NoDup_cons _ HiU NDU) CV0) as [P0 [P1 [P2 P3]]].
      exists (zsum (Fg s g) (i :: U)). repeat split; try assumption. cbn [zsum].
      rewrite (zsum_notin (Fg s g) (Fg (dec1j s i) g) U i HiU) by (intros j Hj; apply Fg_other, RCo, Hj).
      assert (Fg (dec1j s i) g i = 0) by (unfold Fg; rewrite R0; reflexivity). lia. }
  destruct PRE as [S0 [P0 [P1 [P2 [P3 [ES NN]]]]]]. rewrite P3.
  destruct (rc s i =? 1) eqn:C1; destruct (in_group g i) eqn:C2; destruct (grp s intf g <=? 0) eqn:C3;
    destruct (0 <? grp s intf g) eqn:C4; destruct (grp s intf g - 1 =? 0) eqn:C5; cbn [andb] in *; try lia;
    (split; [|split; [|split]]); try (intros Hb; specialize (P2 Hb)); bash.
Qed.

Lemma ndps_dec1j s i : ndps (dec1j s i) = ndps s. Proof. reflexivity. Qed.
Lemma ndps_fold_dec1j l s : ndps (fold_left dec1j l s) = ndps s.
Proof. revert s. induction l as [|i l IH]; intros s; cbn; [reflexivity|]. rewrite IH. reflexivity. Qed.

Lemma Jinv_fold_dec1j l s b : NoDup l -> (forall i, In i l -> 1 <= rc s i) -> NoDup (ndps s) ->
  Jinv b s -> Jinv b (fold_left dec1j l s).
Proof.
  revert s. induction l as [|i l IH]; intros s ND H NDn J; cbn [fold_left]; [exact J|].
  inversion ND; subst. apply IH; [assumption| |rewrite ndps_dec1j; exact NDn|].
  - intros j Hj. rewrite rc_dec1j. destruct (ip_eqb j i) eqn:E.
    + apply ip_eqb_eq in E. subst. contradiction.
    + apply H. right. exact Hj.
  - apply Jinv_dec1j; [exact NDn|apply H; left; reflexivity|exact J].
Qed.

Lemma Jinv_weaken b b' s : Jinv b s -> Jinv (b && b') s.
Proof.
  intros J intf g U HI NDU CV. destruct (J intf g U HI NDU CV) as [P0 [P1 [P2 P3]]]. repeat split; try assumption.
  intros H. apply andb_true_iff in H. apply P2, H.
Qed.

Definition jfull (b : bool) (s : st) : Prop := inv s /\ NoDup (ndps s) /\ Jinv b s.

Lemma jfull_set name a jok s b : jfull b s -> jfull (b && forallb jok (ndps s)) (set_balancer_j name a jok s).
Proof.
  intros [I [ND J]].
  assert (P : peq (set_balancer_j name a jok s) (set_balancer name a s)) by (apply peq_set, peq_refl).
  split; [apply (inv_peq _ _ P), inv_set_balancer, I|].
  unfold set_balancer_j. destruct (existsb (same_ip a) (cur_advs s name)).
  - split; [exact ND|]. apply Jinv_weaken. eapply Jinv_ext; [| | | |exact J]; reflexivity.
  - split; [exact ND|].
    apply (Jinv_inc1j jok (with_ips s (insert name (cur_advs s name ++ [a]) (ips s))) (a_ip a) b); [exact ND|apply (rc_nonneg s _ I)|].
    eapply Jinv_ext; [| | | |exact J]; reflexivity.
Qed.

Lemma jfull_delete name s b : jfull b s -> jfull b (delete_balancer_j name s).
Proof.
  intros [I [ND J]].
  assert (P : peq (delete_balancer_j name s) (delete_balancer name s)) by (apply peq_delete, peq_refl).
  split; [apply (inv_peq _ _ P), inv_delete_balancer, I|].
  unfold delete_balancer_j. destruct (lookup name (ips s)) as [advs|] eqn:L; [|split; assumption].
  split; [rewrite ndps_fold_dec1j; exact ND|].
  apply Jinv_fold_dec1j.
  - eapply inv_once; [exact I|apply lookup_in; exact L].
  - intros i Hi. change (rc (with_ips s (remove name (ips s))) i) with (rc s i). rewrite (inv_rc _ I).
    assert (0 < count (ips s) i); [|lia]. eapply count_ex_pos; [apply lookup_in; exact L|apply holds_ip_in; exact Hi].
  - exact ND.
  - eapply Jinv_ext; [| | | |exact J]; reflexivity.
Qed.

Lemma ndps_runj us s : ndps (runj us s) = ndps s.
Proof.
  revert s. induction us as [|u us IH]; intros s; cbn; [reflexivity|]. rewrite IH. destruct u as [name a jok|name]; cbn.
  - unfold set_balancer_j. destruct (existsb _ _); reflexivity.
  - unfold delete_balancer_j. destruct (lookup name (ips s)); [rewrite ndps_fold_dec1j|]; reflexivity.
Qed.

Lemma jfull_run us s b : jfull b s -> jfull (b && all_joined (ndps s) us) (runj us s).
Proof.
  revert s b. induction us as [|u us IH]; intros s b F; cbn [runj fold_left all_joined forallb].
  - rewrite andb_true_r. exact F.
  - destruct u as [name a jok|name]; cbn [apply_updj].
    + pose proof (IH _ _ (jfull_set name a jok s b F)) as H.
      assert (E : ndps (set_balancer_j name a jok s) = ndps s).
      { unfold set_balancer_j. destruct (existsb _ _); reflexivity. }
      rewrite E in H. rewrite andb_assoc. exact H.
    + pose proof (IH _ _ (jfull_delete name s b F)) as H.
      assert (E : ndps (delete_balancer_j name s) = ndps s).
      { unfold delete_balancer_j. destruct (lookup name (ips s)); [rewrite ndps_fold_dec1j|]; reflexivity. }
      rewrite E in H. cbn [andb]. exact H.
Qed.

Lemma Jinv_init ar nd b : Jinv b (init ar nd).
Proof.
  intros intf g U _ _ _. unfold grp, mem, init, zget. cbn.
  assert (Z0 : zsum (Fg (mk_st [] [] ar nd [] []) g) U = 0).
  { induction U as [|j U IH]; cbn; [reflexivity|]. rewrite IH. unfold Fg, rc, zget. cbn. reflexivity. }
  rewrite Z0. repeat split; lia.
Qed.

(* ---------- the statement ---------- *)
Lemma t_j_groups ar nd us intf g : NoDup nd -> In intf nd ->
  let s := runj us (init ar nd) in
  let n := Z.of_nat (length (filter (in_group g) (announced s))) in
  0 <= grp s intf g <= n /\
  mem s intf g = (if 0 <? grp s intf g then 1 else 0) /\
  (all_joined nd us = true -> grp s intf g = n) /\
  (n = 0 -> grp s intf g = 0 /\ mem s intf g = 0).
Proof.
  intros ND Hi s n.
  assert (F0 : jfull true (init ar nd)) by (split; [apply inv_init|split; [exact ND|apply Jinv_init]]).
  pose proof (jfull_run us (init ar nd) true F0) as [I [ND' J]]. fold s in I, ND', J. cbn [andb ndps init] in J.
  assert (Hi' : In intf (ndps s)) by (unfold s; rewrite ndps_runj; exact Hi).
  assert (CV : covers s (announced s)).
  { intros i Hr. apply (announced_rc _ _ I). pose proof (rc_nonneg s i I). lia. }
  destruct (J intf g (announced s) Hi' (NoDup_nodup _ _) CV) as [P0 [P1 [P2 P3]]].
  assert (SUM : zsum (Fg s g) (announced s) = n).
  { apply zsum_filter. intros i Hin. apply (announced_rc _ _ I) in Hin. unfold Fg.
    assert (0 <? rc s i = true) as -> by lia. reflexivity. }
  rewrite SUM in P1, P2. split; [lia|]. split; [exact P3|]. split; [exact P2|].
  intros Hn. assert (grp s intf g = 0) by lia. split; [assumption|]. rewrite P3. replace (grp s intf g) with 0. reflexivity.
Qed.

(* the services / addresses part is untouched by join failures: everything proved about
   [reached] (answers, reference counts, withdraw, gratuitous) holds for [runj] as well *)
Lemma t_j_same_services ar nd us : let s := runj us (init ar nd) in let t := reached ar nd (map erase us) in
  ips s = ips t /\ refcnt s = refcnt t /\ (forall i intf, should_announce s i intf = should_announce t i intf).
Proof.
  intros s t. destruct (peq_run us (init ar nd) (init ar nd) (peq_refl _)) as [A [B _]]. fold s in A, B.
  unfold reached in t. fold t in A, B. split; [exact A|]. split; [exact B|].
  intros i intf. unfold should_announce, all_advs. rewrite A. reflexivity.
Qed.

(* BEFORE fix 5ea1991 (Unwatch decrements unconditionally): one failed join, a withdrawal and a new
   announcement whose join would succeed leave the address announced with counter 0 and the group
   not joined; with the fix the same history ends joined *)
Lemma j_prefix_refuted :
  let a := mk_adv (V6 1193046) true [] in
  let us := [JSet 1 a (fun _ => false); JDel 1; JSet 1 a (fun _ => true)] in
  let s := runj_prefix us (init [] [1%N]) in
  should_announce s (V6 1193046) 1 = DNone /\ rc s (V6 1193046) = 1 /\ grp s 1 1193046 = 0 /\ mem s 1 1193046 = 0 /\
  grp (runj_prefix [JSet 1 a (fun _ => false); JDel 1] (init [] [1%N])) 1 1193046 = -1 /\
  grp (runj us (init [] [1%N])) 1 1193046 = 1 /\ mem (runj us (init [] [1%N])) 1 1193046 = 1.
Proof. vm_compute. repeat split. Qed.
