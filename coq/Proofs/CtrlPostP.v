(* Lifting handler postconditions to whole histories: a property of a Service's
   own object that every run of convergeBalancer establishes for the status /
   annotation it produces holds for every Service whenever the reconciler has no
   pending work - after any history. *)
From Coq Require Import List NArith Bool Lia.
From Verif Require Import Model.Net Model.Alloc Model.Ctrl Proofs.NetP Proofs.AllocP Proofs.AllocPolicyP
  Proofs.AllocMonoP Proofs.CtrlP Proofs.CtrlWorldP Proofs.CtrlThmP Proofs.CtrlStarveP.
Import ListNotations.
Local Open Scope N_scope.

Section Post.
Variable rank : ip -> N.
(* may depend on the configuration the controller holds and on what memory records for the Service *)
Variable post : pools -> option alloc -> svcobj -> Prop.
Hypothesis Hconv : forall a s o k v ok, minv a ->
  converge rank a s o k = CR v ok -> post (s_pools a) (get_alloc (cv_mem v) s) (with_status o (cv_status v) (cv_annot v)).

Local Notation PW w t o := (post (s_pools (c_mem (w_ctl w))) (get_alloc (c_mem (w_ctl w)) t) o).

Lemma with_status_id o : with_status o (o_status o) (o_annot o) = o.
Proof. destruct o; reflexivity. Qed.

Lemma handler_post w s k w1 r o :
  apply_handler rank w s k = Some (w1, r) -> aget (w_api w) s = Some o ->
  c_have_pools (w_ctl w) = true -> minv (c_mem (w_ctl w)) ->
  r <> Error -> r <> ReprocessAll ->
  forall o1, aget (w_api w1) s = Some o1 -> PW w1 s o1.
Proof.
  intros EH0. rewrite (apply_handler_pools rank _ _ _ _ _ EH0). revert EH0. unfold apply_handler. rewrite api_get_aget. intros H Eo Hp Hm Hr1 Hr2. rewrite Eo in H.
  destruct (set_balancer rank (w_ctl w) s (Some o) k) as [oc|] eqn:ES; [|discriminate].
  injection H as <- <-. cbn [w_api w_ctl].
  destruct (set_balancer_mem rank _ _ _ _ _ ES Hp) as (v & ok & EC & Hmem & Hw).
  pose proof (Hconv _ _ _ _ _ _ Hm EC) as HP. rewrite Hmem.
  pose proof (set_balancer_spec rank _ _ _ _ _ ES) as (_ & _ & _ & _ & Hmain). specialize (Hmain Hp).
  destruct (oc_write oc) as [[st an]|].
  - destruct Hw as [-> ->]. destruct Hmain as (_ & _ & Hw2). destruct (k_write k).
    + intros o1. rewrite aget_put_same. intros [= <-]. exact HP.
    + destruct (Hw2 eq_refl); congruence.
  - destruct Hw as [E1 E2]. rewrite E1, E2, with_status_id in HP. intros o1. rewrite Eo. intros [= <-]. exact HP.
Qed.

Definition L (w : world) : Prop :=
  w_reload w = true \/ w_gate w = false \/
  forall s o, aget (w_api w) s = Some o -> In s (w_queue w) \/ PW w s o.

Lemma pass_post order : forall ks w retry acc w' retry' rs (D : svc -> Prop),
  reload_pass rank w order ks retry acc = Some (w', retry', rs) ->
  mem_inv (w_ctl w) -> c_have_pools (w_ctl w) = true ->
  retry' = false ->
  (forall t o, D t -> aget (w_api w) t = Some o -> PW w t o) ->
  forall t o, D t \/ In t order -> aget (w_api w') t = Some o -> PW w' t o.
Proof.
  induction order as [|s order IH]; intros ks w retry acc w' retry' rs D H Hm Hp Hr HD t o Ht.
  - cbn in H. injection H as <- _ _. destruct Ht as [Ht|[]]. apply HD. exact Ht.
  - cbn [reload_pass] in H. destruct ks as [|k ks]; [discriminate|].
    destruct (apply_handler rank w s k) as [[w1 r]|] eqn:EH; [|discriminate].
    pose proof (apply_handler_inv rank w s k w1 r EH (fun _ => Hp) Hm) as (F1 & Ex1 & Hm1 & Hp1 & _).
    pose proof (apply_handler_pools rank _ _ _ _ _ EH) as Hps.
    pose proof (reload_pass_inv rank _ _ _ _ _ _ _ _ H Hm1 (Hp1 Hp)) as (_ & _ & _ & _ & _ & _ & Rt & _).
    assert (Hrr : r <> ReprocessAll /\ r <> Error).
    { split; intros ->; (assert (retry' = true) by (apply Rt; destruct retry; reflexivity)); congruence. }
    apply (IH _ _ _ _ _ _ _ (fun u => D u \/ u = s) H Hm1 (Hp1 Hp) Hr).
    + intros u ou [Hu| ->] Hou.
      * destruct (N.eq_dec u s) as [->|Hne].
        -- case_eq (aget (w_api w) s); [intros os Eos|intros Eos; apply Ex1 in Eos; congruence].
           exact (handler_post _ _ _ _ _ _ EH Eos Hp Hm (proj2 Hrr) (proj1 Hrr) ou Hou).
        -- rewrite (proj1 (F1 u Hne)) in Hou. rewrite Hps, (proj2 (F1 u Hne)). apply (HD u ou Hu Hou).
      * case_eq (aget (w_api w) s); [intros os Eos|intros Eos; apply Ex1 in Eos; congruence].
        exact (handler_post _ _ _ _ _ _ EH Eos Hp Hm (proj2 Hrr) (proj1 Hrr) ou Hou).
    + destruct Ht as [Ht|[<- |Ht]]; auto.
Qed.

Theorem wstep_L w e w' : WInv w -> L w -> wstep rank w e = Some w' -> L w'.
Proof.
  intros [HI HS HRP HGP HMP] HL. unfold wstep.
  destruct (wstep_t rank w e) as [[w2 rs]|] eqn:E; [|discriminate]. intros [= <-].
  destruct e as [s o|s|ps|s k|order ks| |]; cbn [wstep_t] in E.
  - injection E as <- _. destruct HL as [H|[H|H]]; [left; exact H|right; left; exact H|].
    right. right. cbn [w_api w_queue]. intros t ot. destruct (N.eq_dec t s) as [->|Hne].
    + intros _. left. apply In_enqueue. auto.
    + rewrite (aget_put_other _ _ _ _ Hne). intros Ht. destruct (H t ot Ht); [left; apply In_enqueue; auto|right; assumption].
  - injection E as <- _. destruct HL as [H|[H|H]]; [left; exact H|right; left; exact H|].
    right. right. cbn [w_api w_queue]. intros t ot. destruct (N.eq_dec t s) as [->|Hne].
    + rewrite aget_del_same. discriminate.
    + rewrite (aget_del_other _ _ _ Hne). intros Ht. destruct (H t ot Ht); [left; apply In_enqueue; auto|right; assumption].
  - injection E as <- _. left. reflexivity.
  - destruct (negb (memN s (w_queue w))) eqn:Eq; [discriminate|].
    destruct (negb (w_gate w) && match api_get w s with Some _ => true | None => false end) eqn:Eg.
    + injection E as <- _. right. left. reflexivity.
    + destruct (apply_handler rank w s k) as [[w1 r]|] eqn:EH; [|discriminate]. injection E as <- _.
      destruct HL as [H|[H|H]]; [left; cbn; rewrite H; reflexivity|right; left; exact H|].
      destruct (w_gate w) eqn:Egate; [|right; left; reflexivity].
      pose proof (HGP eq_refl) as Hp.
      pose proof (apply_handler_inv rank w s k w1 r EH (fun _ => Hp) HI) as (F1 & Ex1 & _).
      pose proof (apply_handler_pools rank _ _ _ _ _ EH) as Hps.
      destruct r.
      * right. right. cbn [w_api w_queue w_ctl]. intros t ot Ht. destruct (N.eq_dec t s) as [->|Hne].
        -- right. case_eq (aget (w_api w) s); [intros os Eos|intros Eos; apply Ex1 in Eos; congruence].
           apply (handler_post _ _ _ _ _ _ EH Eos Hp HI); [discriminate|discriminate|exact Ht].
        -- rewrite (proj1 (F1 t Hne)) in Ht. destruct (H t ot Ht); [left; apply In_dequeue; auto|right; rewrite Hps, (proj2 (F1 t Hne)); assumption].
      * right. right. cbn [w_api w_queue w_ctl]. intros t ot Ht. destruct (N.eq_dec t s) as [->|Hne].
        -- left. apply negb_false_iff, memN_In in Eq. exact Eq.
        -- rewrite (proj1 (F1 t Hne)) in Ht. destruct (H t ot Ht); [left; assumption|right; rewrite Hps, (proj2 (F1 t Hne)); assumption].
      * left. cbn. apply orb_true_r.
      * right. right. cbn [w_api w_queue w_ctl]. intros t ot Ht. destruct (N.eq_dec t s) as [->|Hne].
        -- right. case_eq (aget (w_api w) s); [intros os Eos|intros Eos; apply Ex1 in Eos; congruence].
           apply (handler_post _ _ _ _ _ _ EH Eos Hp HI); [discriminate|discriminate|exact Ht].
        -- rewrite (proj1 (F1 t Hne)) in Ht. destruct (H t ot Ht); [left; apply In_dequeue; auto|right; rewrite Hps, (proj2 (F1 t Hne)); assumption].
  - destruct (negb (w_reload w)) eqn:Er; [discriminate|]. apply negb_false_iff in Er.
    destruct (negb (same_set order (map fst (w_api w)) && desc_by_status w order)) eqn:Eo; [discriminate|].
    apply negb_false_iff, andb_true_iff in Eo. destruct Eo as [Eo _].
    destruct (reload_pass rank w order ks false []) as [[[w1 retry] rs1]|] eqn:EP; [|discriminate].
    injection E as <- _. destruct retry; [left; reflexivity|].
    right. right. cbn [w_api w_queue]. intros t ot Ht. right.
    pose proof (reload_pass_inv rank _ _ _ _ _ _ _ _ EP HI (HRP Er)) as (_ & _ & _ & _ & _ & Ex' & _).
    assert (Hin : In t order).
    { apply (same_set_In _ _ t Eo). apply aget_In. intros Hn. apply Ex' in Hn. congruence. }
    apply (pass_post order _ _ _ _ _ _ _ (fun _ => False) EP HI (HRP Er) eq_refl (fun u ou (F : False) _ => match F with end) t ot (or_intror Hin) Ht).
  - destruct (negb (c_have_pools (w_ctl w))); [discriminate|]. injection E as <- _. left. reflexivity.
  - injection E as <- _. right. left. reflexivity.
Qed.

Lemma wrun_L evs : forall w0 w, WInv w0 -> L w0 -> wrun rank evs w0 = Some w -> WInv w /\ L w.
Proof.
  induction evs as [|e evs IH]; intros w0 w HW HL H; cbn in H.
  - injection H as <-. auto.
  - unfold wrun in IH. destruct (wstep rank w0 e) as [w1|] eqn:E; [|rewrite wrun_none in H; discriminate].
    apply (IH w1 w); [eapply wstep_WInv; eassumption|eapply wstep_L; eassumption|exact H].
Qed.

Theorem quiescent_post evs w :
  wrun rank evs world0 = Some w -> quiescent w ->
  forall s o, aget (w_api w) s = Some o -> PW w s o.
Proof.
  intros Hr (Hq1 & Hq2 & Hq3).
  destruct (wrun_L evs world0 w WInv_world0 (or_intror (or_introl eq_refl)) Hr) as [_ [H|[H|H]]]; [congruence|congruence|].
  intros s o Ho. destruct (H s o Ho) as [Hin|Hp]; [rewrite Hq2 in Hin; destruct Hin|exact Hp].
Qed.
End Post.

Section Inst.
Variable rank : ip -> N.

(* a run that reports an error leaves no address, unless the request itself is unparsable (F19) *)
Lemma converge_fail_status a s o k v : converge rank a s o k = CR v false -> o_want o = WInvalid \/ cv_status v = [].
Proof.
  unfold converge.
  set (c0 := {| cv_mem := a; cv_status := o_status o; cv_annot := o_annot o |}).
  destruct (negb (o_lb o)); [discriminate|].
  destruct (match by_name (s_pools a) with [] => true | _ => false end); [intros [= <-]; right; reflexivity|].
  destruct (negb (o_cluster_ok o)); [intros [= <-]; right; reflexivity|].
  destruct (is_require _ && _); [intros [= <-]; right; reflexivity|].
  destruct (stageA c0 s o) as [c1 lb1] eqn:EA.
  pose proof (stageB_Q rank s c0 o c1 lb1 eq_refl EA) as QB.
  pose proof (stageB_NilNone rank s c1 lb1 o (stageA_NilNone s _ _ _ _ EA)) as NB.
  destruct (stageB rank c1 lb1 s o) as [[c3 lb3]|c3]; [|intros _; left; exact NB].
  destruct (stageC c3 lb3 s (o_req o) k) as [[c4 lb4]|] eqn:EC; [|discriminate].
  pose proof (stageC_Q _ _ _ _ _ _ _ QB EC) as QC.
  destruct (stageD c4 lb4 s o k) as [res|] eqn:ED; [|discriminate].
  destruct res as [[c5 lb5]|c5].
  - unfold stageE. destruct lb5; [intros [= <-]; right; reflexivity|].
    destruct (pool_of (cv_mem c5) s) as [pn|]; [|intros [= <-]; right; reflexivity].
    destruct (find_pool _ pn); [discriminate|intros [= <-]; right; reflexivity].
  - intros [= <-]. unfold stageD in ED. destruct lb4 as [|x l]; [|discriminate].
    destruct QC as [_ Q2]. specialize (Q2 eq_refl).
    destruct (o_want o) as [|d|]; [|right|left; reflexivity].
    + destruct (alloc_op _ _) as [[a' [ips|e|]]|]; try discriminate; injection ED as <-; right; exact Q2.
    + destruct (negb _); [injection ED as <-; exact Q2|].
      destruct (assign (cv_mem c4) s (o_req o) d) as [a' [i|e|]]; try (injection ED as <-; exact Q2).
      destruct (o_want_pool o) as [p|]; [|discriminate].
      destruct (opt_pool_eqb _ _); [discriminate|injection ED as <-; exact Q2].
Qed.

(* C02: a Service that requests specific addresses has exactly those, or none *)
Definition post_explicit (o : svcobj) : Prop :=
  forall d, o_want o = WIps d -> (is_prefer (r_pol (o_req o)) && is_dual (r_fam (o_req o))) = false ->
    o_status o = [] \/ same_ips (o_status o) d.

Lemma converge_post_explicit a s o k v ok : minv a ->
  converge rank a s o k = CR v ok -> post_explicit (with_status o (cv_status v) (cv_annot v)).
Proof.
  intros _ EC d Hw Hna. cbn [with_status o_want o_req o_status] in *.
  destruct (o_lb o) eqn:Hlb.
  - destruct ok.
    + destruct (explicit_ips_exact rank _ _ _ _ _ _ EC Hlb Hw) as [H|(have & x & _ & _ & Hap)]; [right; exact H|].
      unfold additional_applies in Hap. rewrite Hna in Hap. discriminate.
    + destruct (converge_fail_status _ _ _ _ _ EC) as [H|H]; [congruence|left; exact H].
  - unfold converge in EC. rewrite Hlb in EC. cbn in EC. injection EC as <- _. left. reflexivity.
Qed.

(* C02: the addresses of a Service match its IP families *)
Section Fam.
Variable s : svc.
Variable o : svcobj.
Let r := o_req o.
Definition FOK (lb : list ip) : Prop := lb = [] \/ family_changed (alloc_fam lb) (r_fam r) (r_pol r) = false.

Lemma alloc_fam_sort2 l : alloc_fam (sort2 rank l) = alloc_fam l.
Proof.
  unfold sort2. destruct l as [|x [|y [|z t]]]; try reflexivity.
  destruct (rank y <? rank x); [|reflexivity]. cbn.
  destruct (ip_fam x), (ip_fam y); reflexivity.
Qed.

Lemma FOK_sort2 l : FOK l -> FOK (sort2 rank l).
Proof.
  intros [->|H]; [left; reflexivity|]. right. rewrite alloc_fam_sort2. exact H.
Qed.

Lemma offer_ok_family a p ips : offer_ok a s r p ips = true -> FOK ips.
Proof.
  unfold offer_ok, FOK. rewrite andb_true_iff. intros [_ H]. right.
  destruct (r_fam r) eqn:Ef; destruct ips as [|x [|y [|z t]]]; try discriminate.
  - cbn. apply fam_eqb_eq in H. rewrite H. reflexivity.
  - cbn. apply fam_eqb_eq in H. rewrite H. reflexivity.
  - cbn. destruct (r_pol r); try discriminate. destruct (ip_fam x); reflexivity.
  - cbn. apply andb_true_iff in H. destruct H as [H H3]. apply andb_true_iff in H. destruct H as [H1 H2].
    apply fam_eqb_eq in H1. apply fam_eqb_eq in H2. rewrite H1, H2. reflexivity.
Qed.

Lemma step_additional_family a have pn c a' x :
  step a (OAdditional s r have pn c) = (a', ROk [x]) -> fam_eqb (ip_fam x) (other_fam (ip_fam have)) = true.
Proof.
  cbn [step]. destruct (additional_spec a s r have pn c) eqn:Es; [|discriminate].
  destruct c as [x'|]; [|discriminate].
  destruct (assign a s r [have; x']) as [a1 [i|e|]]; try discriminate. intros [= _ <-].
  unfold additional_spec in Es. destruct (find_pool (s_pools a) pn); [|discriminate].
  repeat (apply andb_true_iff in Es; destruct Es as [Es ?]). exact Es.
Qed.

Lemma step_allocate_family a c a' ips : get_alloc a s = None ->
  step a (OAllocate s r c) = (a', ROk ips) -> FOK ips.
Proof.
  intros Hg. cbn [step]. rewrite Hg. destruct (allocate_spec a s r c) eqn:Es; [|discriminate].
  destruct c as [[pn ips']|]; [|discriminate].
  destruct (assign a s r ips') as [a1 [i|e1|]] eqn:Ea; try discriminate. intros [= <- <-].
  apply assign_ok_holds in Ea. destruct Ea as (-> & _).
  unfold allocate_spec in Es. destruct (find_pool (s_pools a) pn) as [p|]; [|discriminate].
  apply andb_true_iff in Es. destruct Es as [Es _]. eapply offer_ok_family. exact Es.
Qed.

Lemma step_frompool_family a pn c a' ips : get_alloc a s = None ->
  step a (OAllocateFromPool s r pn c) = (a', ROk ips) -> FOK ips.
Proof.
  intros Hg. cbn [step]. rewrite Hg. destruct (from_pool_spec a s r pn c) eqn:Es; [|discriminate].
  destruct c as [ips'|]; [|discriminate].
  destruct (assign a s r ips') as [a1 [i|e1|]] eqn:Ea; try discriminate. intros [= <- <-].
  apply assign_ok_holds in Ea. destruct Ea as (-> & _).
  unfold from_pool_spec in Es. destruct (find_pool (s_pools a) pn) as [p|]; [|discriminate].
  apply andb_true_iff in Es. destruct Es as [Es _]. eapply offer_ok_family. exact Es.
Qed.

Definition post_family (ob : svcobj) : Prop :=
  o_status ob <> [] ->
  o_lb ob = true /\ family_changed (alloc_fam (o_status ob)) (r_fam (o_req ob)) (r_pol (o_req ob)) = false.

Lemma converge_post_family a k v ok : minv a ->
  converge rank a s o k = CR v ok -> post_family (with_status o (cv_status v) (cv_annot v)).
Proof.
  intros _. unfold post_family. cbn [with_status o_status o_lb o_req]. unfold converge.
  set (c0 := {| cv_mem := a; cv_status := o_status o; cv_annot := o_annot o |}).
  destruct (o_lb o); cbn [negb]; [|intros [= <- _] H; exfalso; apply H; reflexivity].
  destruct (match by_name (s_pools a) with [] => true | _ => false end); [intros [= <- _] H; exfalso; apply H; reflexivity|].
  destruct (negb (o_cluster_ok o)); [intros [= <- _] H; exfalso; apply H; reflexivity|].
  destruct (is_require _ && _); [intros [= <- _] H; exfalso; apply H; reflexivity|].
  destruct (stageA c0 s o) as [c1 lb1] eqn:EA.
  pose proof (stageA_NilNone s _ _ _ _ EA) as NA.
  assert (HA : FOK lb1 /\ (cv_status c1 = [] \/ (cv_status c1 = o_status o /\ lb1 = o_status o))).
  { unfold stageA in EA. destruct (o_status o) as [|x l] eqn:Es; [injection EA as <- <-; split; [left|left]; reflexivity|].
    destruct (family_changed _ _ _) eqn:Ef; injection EA as <- <-.
    - split; [left|left]; reflexivity.
    - split; [right; exact Ef|right; split; reflexivity]. }
  destruct HA as [FA SA].
  pose proof (stageB_NilNone rank s c1 lb1 o NA) as NB.
  assert (HB : match stageB rank c1 lb1 s o with
               | inl (c3, lb3) => FOK lb3
               | inr c3 => cv_status c3 = [] \/ (cv_status c3 = o_status o /\ FOK (o_status o))
               end).
  { unfold stageB. destruct lb1 as [|x l]; [left; reflexivity|].
    assert (Hst : cv_status c1 = [] \/ (cv_status c1 = o_status o /\ FOK (o_status o))).
    { destruct SA as [H|[H1 H2]]; [left; exact H|right; split; [exact H1|rewrite <- H2; exact FA]]. }
    assert (W : forall c lb, FOK lb -> (cv_status c = [] \/ (cv_status c = o_status o /\ FOK (o_status o))) ->
       match match o_want o with
             | WInvalid => inr c
             | WIps d => if equal_ips rank lb d then inl (c, sort2 rank lb) else inl (clear c s, [])
             | WNone => inl (c, lb)
             end with
       | inl (c3, lb3) => FOK lb3
       | inr c3 => cv_status c3 = [] \/ (cv_status c3 = o_status o /\ FOK (o_status o))
       end).
    { intros c lb Hl Hc. destruct (o_want o) as [|d|]; [exact Hl| |exact Hc].
      destruct (equal_ips rank lb d); [apply FOK_sort2; exact Hl|left; reflexivity]. }
    destruct (assign (cv_mem c1) s (o_req o) (x :: l)) as [a' [i|e|]].
    - destruct (o_want_pool o) as [p|].
      + destruct (opt_pool_eqb _ _); apply W; try exact FA; try exact Hst; [left; reflexivity|left; reflexivity].
      + apply W; [exact FA|exact Hst].
    - destruct (o_want_pool o); apply W; left; reflexivity.
    - destruct (o_want_pool o); apply W; left; reflexivity. }
  pose proof (stageB_Q rank s c0 o c1 lb1 eq_refl EA) as QB0.
  destruct (stageB rank c1 lb1 s o) as [[c3 lb3]|c3].
  2:{ intros [= <- _] Hne. destruct HB as [H|[H1 [H2|H2]]]; [congruence|congruence|]. rewrite H1. auto. }
  destruct (stageC c3 lb3 s (o_req o) k) as [[c4 lb4]|] eqn:EC; [|discriminate].
  pose proof (stageC_NilNone s _ _ _ _ _ _ NB EC) as NC.
  pose proof (stageC_Q _ _ _ _ _ _ _ QB0 EC) as QC.
  assert (HC : FOK lb4).
  { unfold stageC in EC. destruct lb3 as [|have [|y l]]; try (injection EC as _ <-; exact HB).
    destruct (additional_applies (o_req o) [have]) eqn:Eap; [|injection EC as _ <-; exact HB].
    destruct (pool_of (cv_mem c3) s) as [pn|]; [|injection EC as _ <-; exact HB].
    destruct (alloc_op (cv_mem c3) (OAdditional s (o_req o) have pn (the_additional have k))) as [[a' res]|] eqn:E; [|discriminate].
    apply alloc_op_some in E. destruct E as [E _].
    destruct res as [[|x [|? ?]]|e|]; injection EC as _ <-; try exact HB.
    right. apply step_additional_family in E. unfold additional_applies in Eap. apply andb_true_iff in Eap. destruct Eap as [E1 E2].
    fold r in E1, E2. cbn [alloc_fam].
    assert (Hd : fam_eqb (ip_fam have) (ip_fam x) = false).
    { apply fam_eqb_eq in E. rewrite E. destruct (ip_fam have); reflexivity. }
    rewrite Hd. destruct (r_fam r); try discriminate. destruct (r_pol r); try discriminate. reflexivity. }
  destruct (stageD c4 lb4 s o k) as [res|] eqn:ED; [|discriminate].
  assert (HD : match res with inl (_, lb5) => FOK lb5 | inr c5 => cv_status c5 = [] end).
  { unfold stageD in ED. destruct lb4 as [|x l]; [|injection ED as <-; exact HC].
    specialize (NC eq_refl). destruct QC as [_ Q2]. specialize (Q2 eq_refl).
    destruct (o_want o) as [|d|].
    - destruct (o_want_pool o) as [p|].
      + destruct (alloc_op _ _) as [[a' [ips|e|]]|] eqn:E; try discriminate; injection ED as <-; [|exact Q2..].
        apply alloc_op_some in E. destruct E as [E _]. eapply step_frompool_family; eassumption.
      + destruct (alloc_op _ _) as [[a' [ips|e|]]|] eqn:E; try discriminate; injection ED as <-; [|exact Q2..].
        apply alloc_op_some in E. destruct E as [E _]. eapply step_allocate_family; eassumption.
    - destruct (match alloc_fam d with Some f => sfam_eqb f (r_fam (o_req o)) | None => false end) eqn:Ef; cbn [negb] in ED;
        [|injection ED as <-; exact Q2].
      assert (Fd : FOK d).
      { right. fold r in Ef. destruct (alloc_fam d) as [f|]; [|discriminate]. cbn. rewrite Ef. reflexivity. }
      destruct (assign (cv_mem c4) s (o_req o) d) as [a' [i|e|]]; try (injection ED as <-; exact Q2).
      destruct (o_want_pool o) as [p|]; [|injection ED as <-; exact Fd].
      destruct (opt_pool_eqb _ _); injection ED as <-; [exact Fd|exact Q2].
    - injection ED as <-. exact Q2. }
  destruct res as [[c5 lb5]|c5].
  - unfold stageE. destruct lb5 as [|x l]; [intros [= <- _] H; exfalso; apply H; reflexivity|].
    destruct (pool_of (cv_mem c5) s) as [pn|]; [|intros [= <- _] H; exfalso; apply H; reflexivity].
    destruct (find_pool _ pn); intros [= <- _] H; [|exfalso; apply H; reflexivity].
    cbn [cv_status]. split; [reflexivity|]. destruct HD as [HD|HD]; [discriminate|exact HD].
  - intros [= <- _] Hne. exfalso. apply Hne. exact HD.
Qed.
End Fam.
End Inst.

(* C02: the pool annotation names a configured pool that owns every address of the
   status and whose namespace / service selectors admit the Service *)
Definition post_pool (ps : pools) (o : svcobj) : Prop :=
  o_want o <> WInvalid -> o_status o <> [] ->
  exists p, In p (by_name ps) /\ o_annot o = Some (p_name p) /\
            (forall x, In x (o_status o) -> in_pool p x = true) /\ compatible p (o_req o) = true.

Lemma converge_post_pool rank a s o k v ok : minv a ->
  converge rank a s o k = CR v ok -> post_pool (s_pools a) (with_status o (cv_status v) (cv_annot v)).
Proof.
  intros Hm EC Hw Hst. cbn [with_status o_want o_status o_annot o_req] in *.
  destruct ok; [|destruct (converge_fail_status rank _ _ _ _ _ EC); congruence].
  assert (Hlb : o_lb o = true).
  { destruct (o_lb o) eqn:E; [reflexivity|]. unfold converge in EC. rewrite E in EC. cbn in EC. injection EC as <-. cbn in Hst. congruence. }
  destruct (converge_ok_annot rank s _ _ _ _ EC Hlb) as (_ & Han & _).
  pose proof (converge_synced rank s _ _ _ _ _ EC) as Hs. unfold synced in Hs.
  pose proof (converge_attrs rank s _ _ _ _ _ EC) as HAT.
  destruct (converge_frame _ _ _ _ _ _ _ EC) as [_ HF2].
  unfold ips_of in Hs. unfold pool_of in Han.
  destruct (get_alloc (cv_mem v) s) as [al|] eqn:Hg.
  - destruct (HAT al Hg) as (_ & _ & p & Hpf & Hn & Hc). rewrite HF2 in Hpf.
    apply pool_for_spec in Hpf. destruct Hpf as [Hin Hall].
    exists p. split; [exact Hin|]. split; [rewrite Han; cbn; congruence|]. split; [|exact Hc].
    intros x Hx. apply Hall. apply Hs. exact Hx.
  - exfalso. destruct (cv_status v) as [|x l]; [congruence|]. destruct (Hs x) as [_ H]. apply H. left. reflexivity.
Qed.

(* ---------- the two instances, for every history ---------- *)
Theorem quiescent_explicit_exact rank evs w s o d :
  wrun rank evs world0 = Some w -> quiescent w -> aget (w_api w) s = Some o ->
  o_want o = WIps d -> (is_prefer (r_pol (o_req o)) && is_dual (r_fam (o_req o))) = false ->
  o_status o = [] \/ same_ips (o_status o) d.
Proof.
  intros Hr Hq Ho. apply (quiescent_post rank (fun _ _ => post_explicit) (fun a s o k v ok => converge_post_explicit rank a s o k v ok) evs w Hr Hq s o Ho).
Qed.

Theorem quiescent_family_ok rank evs w s o :
  wrun rank evs world0 = Some w -> quiescent w -> aget (w_api w) s = Some o -> o_status o <> [] ->
  o_lb o = true /\ family_changed (alloc_fam (o_status o)) (r_fam (o_req o)) (r_pol (o_req o)) = false.
Proof.
  intros Hr Hq Ho. apply (quiescent_post rank (fun _ _ => post_family) (fun a s o k v ok => converge_post_family rank s o a k v ok) evs w Hr Hq s o Ho).
Qed.

Theorem quiescent_pool_admits rank evs w s o :
  wrun rank evs world0 = Some w -> quiescent w -> aget (w_api w) s = Some o ->
  o_want o <> WInvalid -> o_status o <> [] ->
  exists p, In p (by_name (s_pools (c_mem (w_ctl w)))) /\ o_annot o = Some (p_name p) /\
            (forall x, In x (o_status o) -> in_pool p x = true) /\ compatible p (o_req o) = true.
Proof.
  intros Hr Hq Ho. apply (quiescent_post rank (fun ps _ => post_pool ps) (fun a s o k v ok => converge_post_pool rank a s o k v ok) evs w Hr Hq s o Ho).
Qed.

(* ---------- requested pool; memory record vs spec ---------- *)
Section WantPool.
Variable rank : ip -> N.
Variable s : svc.
Variable o : svcobj.
Variable wp : poolid.
Hypothesis Hwp : o_want_pool o = Some wp.
Variable ps : pools.
Hypothesis Hnu : names_unique ps.
Hypothesis Hdj : pools_disjoint (by_name ps).

(* memory has the configuration ps, is coherent, and whatever it records for s lies in pool wp *)
Definition WPI (a : st) : Prop :=
  s_pools a = ps /\ minv a /\ forall al, get_alloc a s = Some al -> a_pool al = wp.

Lemma WPI_unassign a : s_pools a = ps -> minv a -> WPI (unassign a s).
Proof.
  intros Hp Hm. split; [exact Hp|]. split; [apply (MI_unassign s a Hm)|].
  intros al H. rewrite get_alloc_unassign_same in H. discriminate.
Qed.

(* an assignment whose addresses all lie in the pool named wp is recorded under wp *)
Lemma assign_in_pool a r ips a' out p :
  s_pools a = ps -> minv a -> assign a s r ips = (a', ROk out) ->
  find_pool ps wp = Some p -> ips <> [] -> (forall x, In x ips -> in_pool p x = true) -> WPI a'.
Proof.
  intros Hp Hm Ha Hf Hne Hall.
  pose proof (MI_assign s a r ips Hm) as Hm'. rewrite Ha in Hm'. cbn [fst] in Hm'.
  apply assign_ok_inv in Ha. destruct Ha as (p' & Hck & _ & ->).
  split; [cbn; exact Hp|]. split; [exact Hm'|].
  intros al Hg. rewrite get_alloc_do_assign_same in Hg. injection Hg as <-. cbn.
  apply assign_check_spec in Hck. destruct Hck as (Hpf & _). rewrite Hp in Hpf.
  destruct (find_pool_spec _ _ _ Hf) as [Hin Hn].
  rewrite <- (owner_unique (by_name ps) ips p' p Hdj Hne Hpf Hin Hall). exact Hn.
Qed.

Lemma WPI_clear c : s_pools (cv_mem c) = ps -> minv (cv_mem c) -> WPI (cv_mem (clear c s)).
Proof. intros. cbn. apply WPI_unassign; assumption. Qed.

Lemma stageB_WPI c1 lb1 : s_pools (cv_mem c1) = ps -> minv (cv_mem c1) ->
  (lb1 = [] -> get_alloc (cv_mem c1) s = None) ->
  match stageB rank c1 lb1 s o with inl (c3, _) | inr c3 => WPI (cv_mem c3) end.
Proof.
  intros Hp Hm Hn. unfold stageB. destruct lb1 as [|x l].
  - split; [exact Hp|]. split; [exact Hm|]. intros al H. rewrite (Hn eq_refl) in H. discriminate.
  - assert (W : forall c lb, WPI (cv_mem c) ->
       match match o_want o with
             | WInvalid => inr c
             | WIps d => if equal_ips rank lb d then inl (c, sort2 rank lb) else inl (clear c s, [])
             | WNone => inl (c, lb)
             end with
       | inl (c3, _) | inr c3 => WPI (cv_mem c3)
       end).
    { intros c lb Hc. destruct (o_want o) as [|d|]; [exact Hc| |exact Hc].
      destruct (equal_ips rank lb d); [exact Hc|]. destruct Hc as (H1 & H2 & _). apply WPI_clear; assumption. }
    pose proof (MI_assign s (cv_mem c1) (o_req o) (x :: l) Hm) as Hm2.
    pose proof (assign_pools (cv_mem c1) s (o_req o) (x :: l)) as Hp2.
    destruct (assign (cv_mem c1) s (o_req o) (x :: l)) as [a' [i|e|]]; cbn [fst] in Hm2, Hp2.
    + rewrite Hwp. cbn [cv_mem].
      destruct (opt_pool_eqb (pool_of a' s) (Some wp)) eqn:Eq; apply W.
      * split; [cbn; congruence|]. split; [exact Hm2|]. cbn [cv_mem]. intros al Hg. unfold pool_of in Eq. rewrite Hg in Eq. cbn in Eq.
        apply N.eqb_eq in Eq. exact Eq.
      * apply WPI_clear; cbn; [congruence|exact Hm2].
    + apply W. apply WPI_clear; assumption.
    + apply W. apply WPI_clear; assumption.
Qed.

Lemma stageC_WPI c3 lb3 k c4 lb4 : WPI (cv_mem c3) -> Q s c3 lb3 ->
  stageC c3 lb3 s (o_req o) k = Some (c4, lb4) -> WPI (cv_mem c4).
Proof.
  intros H3 Q3. unfold stageC. destruct lb3 as [|have [|y l]]; try (intros [= <- _]; exact H3).
  destruct (additional_applies (o_req o) [have]); [|intros [= <- _]; exact H3].
  destruct (pool_of (cv_mem c3) s) as [pn|] eqn:Epo; [|intros [= <- _]; exact H3].
  destruct (alloc_op (cv_mem c3) (OAdditional s (o_req o) have pn (the_additional have k))) as [[a' res]|] eqn:E; [|discriminate].
  apply alloc_op_some in E. destruct E as [E _].
  assert (Ha : WPI a').
  { destruct H3 as (Hp & Hm & Hal).
    assert (Hsame : WPI (cv_mem c3)) by (split; auto).
    cbn [step] in E.
    destruct (additional_spec (cv_mem c3) s (o_req o) have pn (the_additional have k)) eqn:Es.
    2:{ injection E as <- _. exact Hsame. }
    destruct (the_additional have k) as [x|].
    2:{ injection E as <- _. exact Hsame. }
    destruct (assign (cv_mem c3) s (o_req o) [have; x]) as [a1 [i|e|]] eqn:Ea.
    2:{ injection E as <- _. exact Hsame. }
    2:{ injection E as <- _. exact Hsame. }
    injection E as <- _.
    (* the old allocation: pool wp, contains have *)
    unfold pool_of in Epo. destruct (get_alloc (cv_mem c3) s) as [al|] eqn:Hg; [|discriminate]. cbn in Epo. injection Epo as <-.
    pose proof (Hal al eq_refl) as Hpool. 
    destruct (proj2 Hm (s, al)) as (p0 & Hpf0 & Hn0); [apply get_alloc_In; [exact (proj1 (proj1 Hm))|exact Hg]|].
    cbn [snd] in Hpf0, Hn0. rewrite Hp in Hpf0. apply pool_for_spec in Hpf0. destruct Hpf0 as [Hin0 Hall0].
    unfold additional_spec in Es. rewrite Hp in Es. destruct (find_pool ps (a_pool al)) as [p|] eqn:Ef; [|discriminate].
    destruct (find_pool_spec _ _ _ Ef) as [Hinp Hnp].
    assert (p0 = p) by (apply (names_unique_eq ps); auto; congruence). subst p0.
    repeat (apply andb_true_iff in Es; destruct Es as [Es ?]).
    rewrite Hpool in Ef.
    eapply (assign_in_pool _ _ _ _ _ p Hp Hm Ea Ef); [discriminate|].
    intros z [<-|[<-|[]]]; [|assumption].
    apply Hall0. destruct Q3 as [Q1 _]. unfold ips_of in Q1. rewrite Hg in Q1. apply Q1. left. reflexivity. }
  destruct res as [[|x [|? ?]]|e|]; intros [= <- _]; exact Ha.
Qed.

Lemma stageD_WPI c4 lb4 k res : WPI (cv_mem c4) -> (lb4 = [] -> get_alloc (cv_mem c4) s = None) ->
  stageD c4 lb4 s o k = Some res ->
  match res with inl (c5, _) | inr c5 => WPI (cv_mem c5) end.
Proof.
  intros H4 Hn. unfold stageD. destruct lb4 as [|x l]; [|intros [= <-]; exact H4].
  specialize (Hn eq_refl). destruct H4 as (Hp & Hm & Hal).
  assert (Hsame : WPI (cv_mem c4)) by (split; auto).
  destruct (o_want o) as [|d|].
  - rewrite Hwp.
    destruct (alloc_op (cv_mem c4) (OAllocateFromPool s (o_req o) wp (option_map snd (k_final k)))) as [[a' r]|] eqn:E; [|discriminate].
    apply alloc_op_some in E. destruct E as [E _].
    assert (Ha : WPI a').
    { cbn [step] in E. rewrite Hn in E.
      destruct (from_pool_spec (cv_mem c4) s (o_req o) wp (option_map snd (k_final k))) eqn:Es.
      2:{ injection E as <- _. exact Hsame. }
      destruct (option_map snd (k_final k)) as [ips|].
      2:{ injection E as <- _. exact Hsame. }
      destruct (assign (cv_mem c4) s (o_req o) ips) as [a1 [i|e|]] eqn:Ea.
      2:{ injection E as <- _. exact Hsame. }
      2:{ injection E as <- _. exact Hsame. }
      injection E as <- _.
      unfold from_pool_spec in Es. rewrite Hp in Es. destruct (find_pool ps wp) as [p|] eqn:Ef; [|discriminate].
      apply andb_true_iff in Es. destruct Es as [Es _].
      eapply (assign_in_pool _ _ _ _ _ p Hp Hm Ea Ef).
      - intros ->. rewrite offer_ok_nonempty in Es. discriminate.
      - intros z Hz. unfold offer_ok in Es. apply andb_true_iff in Es. destruct Es as [Es _].
        pose proof (proj1 (forallb_forall _ _) Es z Hz) as Hz'. apply andb_true_iff in Hz'. tauto. }
    destruct r; intros [= <-]; exact Ha.
  - destruct (negb _); [intros [= <-]; exact Hsame|].
    pose proof (MI_assign s (cv_mem c4) (o_req o) d Hm) as Hm2.
    pose proof (assign_pools (cv_mem c4) s (o_req o) d) as Hp2.
    destruct (assign (cv_mem c4) s (o_req o) d) as [a' [i|e|]]; cbn [fst] in Hm2, Hp2; try (intros [= <-]; exact Hsame).
    rewrite Hwp. destruct (opt_pool_eqb (pool_of a' s) (Some wp)) eqn:Eq; intros [= <-].
    + split; [cbn; congruence|]. split; [exact Hm2|]. cbn [cv_mem]. intros al Hg. unfold pool_of in Eq. rewrite Hg in Eq. cbn in Eq.
      apply N.eqb_eq in Eq. exact Eq.
    + cbn [cv_mem]. apply WPI_unassign; [congruence|exact Hm2].
  - intros [= <-]. exact Hsame.
Qed.

Lemma converge_WPI a k v ok : s_pools a = ps -> minv a ->
  converge rank a s o k = CR v ok -> WPI (cv_mem v).
Proof.
  intros Hp Hm. unfold converge.
  set (c0 := {| cv_mem := a; cv_status := o_status o; cv_annot := o_annot o |}).
  assert (H0 : WPI (cv_mem (clear c0 s))) by (apply WPI_clear; assumption).
  destruct (negb (o_lb o)); [intros [= <- _]; exact H0|].
  destruct (match by_name (s_pools a) with [] => true | _ => false end); [intros [= <- _]; exact H0|].
  destruct (negb (o_cluster_ok o)); [intros [= <- _]; exact H0|].
  destruct (is_require _ && _); [intros [= <- _]; exact H0|].
  destruct (stageA c0 s o) as [c1 lb1] eqn:EA.
  pose proof (stageA_NilNone s _ _ _ _ EA) as NA.
  assert (HA : s_pools (cv_mem c1) = ps /\ minv (cv_mem c1)).
  { unfold stageA in EA. destruct (o_status o); [injection EA as <- _; cbn; split; [exact Hp|apply (MI_unassign s a Hm)]|].
    destruct (family_changed _ _ _); injection EA as <- _; cbn; split; auto. apply (MI_unassign s a Hm). }
  pose proof (stageB_WPI c1 lb1 (proj1 HA) (proj2 HA) NA) as HB.
  pose proof (stageB_Q rank s c0 o c1 lb1 eq_refl EA) as QB.
  pose proof (stageB_NilNone rank s c1 lb1 o NA) as NB.
  destruct (stageB rank c1 lb1 s o) as [[c3 lb3]|c3]; [|intros [= <- _]; exact HB].
  destruct (stageC c3 lb3 s (o_req o) k) as [[c4 lb4]|] eqn:EC; [|discriminate].
  pose proof (stageC_WPI _ _ _ _ _ HB QB EC) as HC.
  pose proof (stageC_NilNone s _ _ _ _ _ _ NB EC) as NC.
  destruct (stageD c4 lb4 s o k) as [res|] eqn:ED; [|discriminate].
  pose proof (stageD_WPI _ _ _ _ HC NC ED) as HD.
  destruct res as [[c5 lb5]|c5]; [|intros [= <- _]; exact HD].
  unfold stageE. destruct HD as (D1 & D2 & D3).
  destruct lb5; [intros [= <- _]; apply WPI_clear; assumption|].
  destruct (pool_of (cv_mem c5) s) as [pn|]; [|intros [= <- _]; apply WPI_clear; assumption].
  destruct (find_pool _ pn); intros [= <- _]; [split; auto|apply WPI_clear; assumption].
Qed.
End WantPool.

(* C02: a Service that requests a pool has an address of that pool or none *)
Definition post_wantpool (ps : pools) (_ : option alloc) (o : svcobj) : Prop :=
  names_unique ps -> pools_disjoint (by_name ps) ->
  forall wp, o_want_pool o = Some wp -> o_want o <> WInvalid -> o_status o = [] \/ o_annot o = Some wp.

Lemma converge_post_wantpool rank a s o k v ok : minv a ->
  converge rank a s o k = CR v ok ->
  post_wantpool (s_pools a) (get_alloc (cv_mem v) s) (with_status o (cv_status v) (cv_annot v)).
Proof.
  intros Hm EC Hnu Hdj wp Hwp Hw. cbn [with_status o_want_pool o_want o_status o_annot] in *.
  destruct ok.
  - destruct (o_lb o) eqn:Hlb.
    + right. destruct (converge_ok_annot rank s _ _ _ _ EC Hlb) as (_ & Han & pn & p & Hpn & _).
      destruct (converge_WPI rank s o wp Hwp (s_pools a) Hnu Hdj a k v true eq_refl Hm EC) as (_ & _ & Hal).
      rewrite Han. unfold pool_of. destruct (get_alloc (cv_mem v) s) as [al|] eqn:Hg.
      * cbn. f_equal. apply Hal. reflexivity.
      * exfalso. rewrite Han in Hpn. unfold pool_of in Hpn. rewrite Hg in Hpn. discriminate.
    + left. unfold converge in EC. rewrite Hlb in EC. cbn in EC. injection EC as <-. reflexivity.
  - left. destruct (converge_fail_status rank _ _ _ _ _ EC); [congruence|assumption].
Qed.

Theorem quiescent_requested_pool rank evs w s o wp :
  wrun rank evs world0 = Some w -> quiescent w -> aget (w_api w) s = Some o ->
  names_unique (s_pools (c_mem (w_ctl w))) -> pools_disjoint (by_name (s_pools (c_mem (w_ctl w)))) ->
  o_want_pool o = Some wp -> o_want o <> WInvalid -> o_status o = [] \/ o_annot o = Some wp.
Proof.
  intros Hr Hq Ho Hnu Hdj. apply (quiescent_post rank post_wantpool (fun a s o k v ok => converge_post_wantpool rank a s o k v ok) evs w Hr Hq s o Ho Hnu Hdj).
Qed.

(* C01 bridge: what memory records for a Service carries the ports and the sharing /
   backend key of the Service as it is now, and exactly its status addresses *)
Definition post_attrs (_ : pools) (ga : option alloc) (o : svcobj) : Prop :=
  forall al, ga = Some al ->
    a_ports al = r_ports (o_req o) /\ a_key al = r_key (o_req o) /\ same_ips (a_ips al) (o_status o).

Lemma converge_post_attrs rank a s o k v ok : minv a ->
  converge rank a s o k = CR v ok ->
  post_attrs (s_pools a) (get_alloc (cv_mem v) s) (with_status o (cv_status v) (cv_annot v)).
Proof.
  intros _ EC al Hg. cbn [with_status o_req o_status].
  destruct (converge_attrs rank s _ _ _ _ _ EC al Hg) as (H1 & H2 & _).
  split; [exact H1|]. split; [exact H2|].
  pose proof (converge_synced rank s _ _ _ _ _ EC) as Hs. unfold synced, ips_of in Hs. rewrite Hg in Hs. exact Hs.
Qed.

Theorem quiescent_record_matches_spec rank evs w s o al :
  wrun rank evs world0 = Some w -> quiescent w -> aget (w_api w) s = Some o ->
  get_alloc (c_mem (w_ctl w)) s = Some al ->
  a_ports al = r_ports (o_req o) /\ a_key al = r_key (o_req o) /\ same_ips (a_ips al) (o_status o).
Proof.
  intros Hr Hq Ho Hg.
  exact (quiescent_post rank post_attrs (fun a s o k v ok => converge_post_attrs rank a s o k v ok) evs w Hr Hq s o Ho al Hg).
Qed.

(* C01, status level, in terms of what the Services themselves carry: two Services whose
   statuses share an address have the same non-empty sharing key, the same backend
   key and disjoint (protocol, port) sets *)
Theorem quiescent_statuses_exclusive_specs rank evs w s1 s2 o1 o2 x :
  wrun rank evs world0 = Some w -> quiescent w -> s1 <> s2 ->
  aget (w_api w) s1 = Some o1 -> aget (w_api w) s2 = Some o2 ->
  In x (o_status o1) -> In x (o_status o2) ->
  let k1 := r_key (o_req o1) in let k2 := r_key (o_req o2) in
  sharing k1 <> 0 /\ sharing k1 = sharing k2 /\ backend k1 = backend k2 /\
  forall p, In p (r_ports (o_req o1)) -> ~ In p (r_ports (o_req o2)).
Proof.
  intros Hr Hq Hne H1 H2 Hx1 Hx2.
  destruct (quiescent_status_exclusive rank evs w s1 s2 o1 o2 x Hr Hq Hne H1 H2 Hx1 Hx2) as (al1 & al2 & G1 & G2 & Hsh).
  destruct (quiescent_record_matches_spec rank evs w s1 o1 al1 Hr Hq H1 G1) as (P1 & K1 & _).
  destruct (quiescent_record_matches_spec rank evs w s2 o2 al2 Hr Hq H2 G2) as (P2 & K2 & _).
  unfold shareable in Hsh. rewrite P1, P2, K1, K2 in Hsh. exact Hsh.
Qed.
