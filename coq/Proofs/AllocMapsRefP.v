(* Refinement: the concrete allocator (Model/AllocMaps.v) simulates Model/Alloc.v
   through [abs]; coherence of the maps is an invariant of every operation. *)
From Coq Require Import List NArith ZArith Bool Lia Permutation.
From Verif Require Import Model.Net Model.Alloc Model.AllocMaps Proofs.NetP Proofs.AllocP Proofs.AllocPolicyP
  Proofs.AllocMapsBaseP Proofs.AllocMapsP Proofs.AllocMapsCohP.
Import ListNotations.
Local Open Scope N_scope.

Lemma forallb_ext' {A} (f g : A -> bool) l : (forall x, In x l -> f x = g x) -> forallb f l = forallb g l.
Proof.
  induction l as [|x l IH]; intros H; [reflexivity|]. cbn. rewrite (H x (or_introl eq_refl)), IH; [reflexivity|].
  intros y Hy. apply H. right. exact Hy.
Qed.

Lemma existsb_ext' {A} (f g : A -> bool) l : (forall x, In x l -> f x = g x) -> existsb f l = existsb g l.
Proof.
  induction l as [|x l IH]; intros H; [reflexivity|]. cbn. rewrite (H x (or_introl eq_refl)), IH; [reflexivity|].
  intros y Hy. apply H. right. exact Hy.
Qed.

(* ---------- checkSharing on the maps = check_sharing on the abstraction ---------- *)
Theorem m_check_sharing_eq m s x ports k :
  MCoh m -> m_check_sharing m s x ports k = check_sharing (abs m) s x ports k.
Proof.
  intros HC. unfold m_check_sharing, check_sharing.
  destruct (tenants (abs m) x) as [|e0 ts] eqn:Et.
  - rewrite (coh_key_none m HC x Et). reflexivity.
  - assert (He0 : In e0 (tenants (abs m) x)) by (rewrite Et; left; reflexivity).
    rewrite (coh_key_some m HC x e0 He0).
    assert (Hten : forall e, In e (e0 :: ts) <-> In e (m_alloc m) /\ In x (a_ips (snd e))).
    { intros e. rewrite <- Et. apply In_tenants. }
    f_equal; [f_equal|].
    + apply eq_true_iff_eq. rewrite negb_true_iff, forallb_forall. split.
      * intros H e He. apply N.eqb_eq. destruct (N.eq_dec (fst e) s) as [E|E]; [exact E|]. exfalso.
        assert (Hex : existsb (fun t => negb (t =? s)) (svcs_on m x) = true).
        { apply existsb_exists. exists (fst e). split.
          - apply (coh_svcs m HC). exists (snd e). rewrite <- surjective_pairing. apply Hten. exact He.
          - apply negb_true_iff. apply N.eqb_neq. exact E. }
        congruence.
      * intros H. apply not_true_is_false. intros Hex.
        apply existsb_exists in Hex. destruct Hex as [t [Ht Hne]]. apply negb_true_iff, N.eqb_neq in Hne.
        apply (coh_svcs m HC) in Ht. destruct Ht as [alt [Ht Hxt]].
        assert (Hin : In (t, alt) (e0 :: ts)) by (apply Hten; auto).
        specialize (H _ Hin). cbn in H. apply N.eqb_eq in H. contradiction.
    + apply eq_true_iff_eq. rewrite !forallb_forall. split.
      * intros H e He. apply orb_true_iff. destruct (N.eqb_spec (fst e) s) as [E|E]; [left; reflexivity|right].
        apply ports_disjoint_spec. intros p Hp Hpe. specialize (H p Hp). cbv beta in H.
        assert (Ho : owner m x p = Some (fst e)).
        { apply (coh_ports m HC). exists (snd e). rewrite <- surjective_pairing.
          apply Hten in He. destruct He. auto. }
        rewrite Ho in H. apply N.eqb_eq in H. contradiction.
      * intros H p Hp. destruct (owner m x p) as [t|] eqn:Ho; [|reflexivity].
        apply (coh_ports m HC) in Ho. destruct Ho as [alt [Ht [Hxt Hpt]]].
        assert (Hin : In (t, alt) (e0 :: ts)) by (apply Hten; auto).
        specialize (H _ Hin). cbn [fst snd] in H. apply orb_true_iff in H. destruct H as [H|H]; [exact H|].
        exfalso. apply (proj1 (ports_disjoint_spec _ _) H p Hp Hpt).
Qed.

(* ---------- Assign ---------- *)
Lemma m_assign_check_eq m s r ips : MCoh m -> m_assign_check m s r ips = assign_check (abs m) s r ips.
Proof.
  intros HC. unfold m_assign_check, assign_check. cbn [abs s_pools].
  destruct (pool_for _ ips); [|reflexivity].
  rewrite (forallb_ext' (fun x => m_check_sharing m s x (r_ports r) (r_key r))
                        (fun x => check_sharing (abs m) s x (r_ports r) (r_key r))); [reflexivity|].
  intros x _. apply m_check_sharing_eq. exact HC.
Qed.

Definition lift (p : mstate * res) : st * res := (abs (fst p), snd p).

Lemma lift_assign m s r ips : MCoh m -> lift (m_assign_op m s r ips) = assign (abs m) s r ips.
Proof.
  intros HC. unfold lift, m_assign_op, assign. rewrite (m_assign_check_eq m s r ips HC).
  destruct (assign_check (abs m) s r ips); cbn [fst snd]; [rewrite abs_m_assign|]; reflexivity.
Qed.

Lemma families_distinct_NoDup ips : families_distinct ips -> NoDup ips.
Proof.
  intros [Hl Hd]. destruct ips as [|x [|y [|z t]]].
  - constructor.
  - constructor; [intros []|constructor].
  - constructor; [|constructor; [intros []|constructor]]. intros [H|[]]. apply (Hd x y eq_refl). rewrite H. reflexivity.
  - cbn in Hl. lia.
Qed.

Lemma check_sharing_compat a s ips ports k pn :
  Inv a -> (forall x, In x ips -> check_sharing a s x ports k = true) ->
  compat (allocated a) s {| a_pool := pn; a_ips := ips; a_ports := ports; a_key := k |}.
Proof.
  intros HI Hchk e x He Hne Hx Hxe. cbn in Hx. specialize (Hchk x Hx).
  pose proof (proj1 (check_sharing_iff a s x ports k HI) Hchk) as Hc. destruct (Hc e He Hne Hxe) as [Hk Hp].
  apply sharing_ok_spec in Hk. unfold shareable. cbn. repeat split; try tauto.
  intros p Hq Hpa. exact (Hp p Hpa Hq).
Qed.

Lemma MInv_assign_op m s r ips : MInv m -> wf_req r -> MInv (fst (m_assign_op m s r ips)).
Proof.
  intros HM [Hpne Hpnd]. pose proof HM as (HC & HI & HW). unfold m_assign_op.
  destruct (m_assign_check m s r ips) as [p|e] eqn:E; cbn [fst]; [|exact HM].
  rewrite (m_assign_check_eq m s r ips HC) in E. apply assign_check_spec in E.
  destruct E as (_ & _ & Hfam & Hsh).
  apply MInv_assign; [exact HM| |].
  - repeat split; cbn; auto. apply families_distinct_NoDup. exact Hfam.
  - apply (check_sharing_compat (abs m)); assumption.
Qed.

(* ---------- SetPools ---------- *)
Lemma MCoh_with_pools m ps : MCoh m -> MCoh (with_pools m ps).
Proof. intros []. constructor; assumption. Qed.

Lemma MInv_with_pools m ps : MInv m -> MInv (with_pools m ps).
Proof.
  intros (HC & HI & HW). split; [apply MCoh_with_pools; exact HC|]. split; [exact HI|exact HW].
Qed.

Lemma alloc_eta al : {| a_pool := a_pool al; a_ips := a_ips al; a_ports := a_ports al; a_key := a_key al |} = al.
Proof. destruct al; reflexivity. Qed.

Lemma MInv_rehome_step ps m e : MInv m -> In e (m_alloc m) -> MInv (rehome_step ps m e).
Proof.
  intros HM He. pose proof HM as (HC & HI & HW). unfold rehome_step.
  destruct (pool_for (by_name ps) (a_ips (snd e))) as [p|]; [|apply MInv_unassign; exact HM].
  destruct (p_name p =? a_pool (snd e)); [exact HM|].
  apply MInv_assign; [apply MInv_unassign; exact HM| |].
  - exact (HW e He).
  - rewrite m_unassign_alloc. intros e' x He' Hne Hx Hxe'. cbn in Hx. apply In_remove_svc in He'.
    destruct HI as [_ Hex]. destruct He' as [He' _].
    destruct (Hex e' e x He' He Hne Hxe' Hx) as (S1 & S2 & S3 & S4). unfold shareable. cbn. auto.
Qed.

Lemma rehome_step_alloc ps m e e' :
  NoDup (map fst (m_alloc m)) -> In e (m_alloc m) ->
  (In e' (m_alloc (rehome_step ps m e)) <-> rehome ps e = Some e' \/ (In e' (m_alloc m) /\ fst e' <> fst e)).
Proof.
  intros Hnd He. unfold rehome_step, rehome.
  destruct (pool_for (by_name ps) (a_ips (snd e))) as [p|].
  - destruct (N.eqb_spec (p_name p) (a_pool (snd e))) as [En|En].
    + rewrite En, alloc_eta, <- surjective_pairing. split.
      * intros H. destruct (N.eq_dec (fst e') (fst e)) as [E|E]; [left|right; auto].
        f_equal. destruct e as [s al], e' as [s' al']. cbn in E. subst s'. f_equal.
        apply (keys_functional (m_alloc m) s); assumption.
      * intros [[= <-]|[H _]]; assumption.
    + rewrite m_assign_alloc, m_unassign_alloc. cbn [In]. rewrite !In_remove_svc. split.
      * intros [H|[[H1 _] H2]]; [left; f_equal; exact H|right; auto].
      * intros [[= <-]|[H1 H2]]; [left; reflexivity|right; auto].
  - rewrite m_unassign_alloc, In_remove_svc. split; [intros H; right; exact H|intros [H|H]; [discriminate|exact H]].
Qed.

Lemma rehome_step_pools ps m e : m_pools (rehome_step ps m e) = m_pools m.
Proof.
  unfold rehome_step. destruct (pool_for _ _); [|apply m_unassign_pools].
  destruct (_ =? _); [reflexivity|]. rewrite m_assign_pools. apply m_unassign_pools.
Qed.

Lemma fold_rehome ps order : forall m,
  MInv m -> NoDup (map fst order) -> (forall e, In e order -> In e (m_alloc m)) ->
  let m' := fold_left (rehome_step ps) order m in
  MInv m' /\ m_pools m' = m_pools m /\
  forall e', In e' (m_alloc m') <->
             (exists e, In e order /\ rehome ps e = Some e') \/ (In e' (m_alloc m) /\ ~ In (fst e') (map fst order)).
Proof.
  induction order as [|e r IH]; intros m HM Hnd Hsub; cbn [fold_left].
  - split; [exact HM|]. split; [reflexivity|]. intros e'. split; [intros H; right; split; [exact H|intros []]|].
    intros [[e [[] _]]|[H _]]. exact H.
  - cbn in Hnd. inversion Hnd as [|? ? Hn Hd]; subst.
    assert (He : In e (m_alloc m)) by (apply Hsub; left; reflexivity).
    assert (Hkeys : NoDup (map fst (m_alloc m))) by (destruct HM as (_ & [H _] & _); exact H).
    pose proof (MInv_rehome_step ps m e HM He) as HM1.
    assert (Hsub1 : forall e0, In e0 r -> In e0 (m_alloc (rehome_step ps m e))).
    { intros e0 He0. apply (rehome_step_alloc ps m e e0 Hkeys He). right. split; [apply Hsub; right; exact He0|].
      intros E. apply Hn. rewrite <- E. apply in_map. exact He0. }
    destruct (IH _ HM1 Hd Hsub1) as (HMf & Hpf & Hal). split; [exact HMf|].
    split; [rewrite Hpf; apply rehome_step_pools|].
    intros e'. rewrite Hal, (rehome_step_alloc ps m e e' Hkeys He). cbn [In map]. split.
    + intros [[e0 [H1 H2]]|[[H1|[H1 H2]] H3]].
      * left. exists e0. auto.
      * left. exists e. auto.
      * right. split; [exact H1|]. intros [E|E]; [congruence|contradiction].
    + intros [[e0 [[<-|H1] H2]]|[H1 H2]].
      * right. split; [left; exact H2|]. apply rehome_fst in H2. destruct H2 as [H2 _]. rewrite H2. exact Hn.
      * left. exists e0. auto.
      * right. split; [right; split; [exact H1|]|]; intros E; apply H2; [left; congruence|right; exact E].
Qed.

(* the range statement may produce a service again after its entry was re-inserted
   (Go: an entry created during iteration may or may not be produced): nothing happens *)
Lemma rehome_step_revisit ps m e e' : rehome ps e = Some e' -> rehome_step ps m e' = m.
Proof.
  unfold rehome, rehome_step. destruct (pool_for (by_name ps) (a_ips (snd e))) as [p|] eqn:E; [|discriminate].
  intros [= <-]. cbn [fst snd a_ips a_pool]. rewrite E, N.eqb_refl. reflexivity.
Qed.

(* two abstract states with the same pools and the same recorded allocations *)
Definition st_equiv (a b : st) : Prop :=
  s_pools a = s_pools b /\ forall e, In e (allocated a) <-> In e (allocated b).

Lemma st_equiv_refl a : st_equiv a a.
Proof. split; [reflexivity|tauto]. Qed.
Lemma st_equiv_sym a b : st_equiv a b -> st_equiv b a.
Proof. intros [H1 H2]. split; [auto|]. intros e. symmetry. apply H2. Qed.
Lemma st_equiv_trans a b c : st_equiv a b -> st_equiv b c -> st_equiv a c.
Proof. intros [H1 H2] [H3 H4]. split; [congruence|]. intros e. rewrite H2. apply H4. Qed.

(* SetPools: whatever the order in which the range statement visits the services *)
Theorem m_set_pools_sim m ps order :
  MInv m -> NoDup (map fst order) -> (forall e, In e order <-> In e (m_alloc m)) ->
  MInv (m_set_pools m ps order) /\ st_equiv (abs (m_set_pools m ps order)) (set_pools (abs m) ps).
Proof.
  intros HM Hnd Hsame. unfold m_set_pools.
  destruct (fold_rehome ps order (with_pools m ps) (MInv_with_pools m ps HM) Hnd) as (HMf & Hpf & Hal).
  { intros e He. apply Hsame. exact He. }
  split; [exact HMf|]. split; [cbn; rewrite Hpf; reflexivity|].
  intros e'. cbn [abs allocated set_pools]. rewrite Hal, omap_In. cbn [with_pools m_alloc]. split.
  - intros [[e [H1 H2]]|[H1 H2]]; [exists e; split; [apply Hsame; exact H1|exact H2]|].
    exfalso. apply H2. apply in_map. apply Hsame. exact H1.
  - intros [e [H1 H2]]. left. exists e. split; [apply Hsame; exact H1|exact H2].
Qed.
