(* Independence of the rendered configuration from the order of each session's
   advertisement list: addToAdvertisements commutes (on a list strictly sorted by
   prefix text, when a prefix text determines the prefix), hence add_all is
   invariant under permutation of the advertisements. *)
From Coq Require Import String NArith Bool List Sorted Permutation Lia.
From Verif Require Import Model.FrrSpec Proofs.FrrSortP Proofs.FrrListsP Proofs.FrrShapeP Proofs.FrrP.
Import ListNotations.
Open Scope string_scope.

(* ---- order facts ---- *)
Lemma slt_leb x y : slt x y -> String.leb x y = true.
Proof. intros [H _]; exact H. Qed.

Lemma slt_not_leb x y : slt x y -> String.leb y x = false.
Proof.
  intros [H N]. destruct (String.leb y x) eqn:E; [|reflexivity]. exfalso. apply N. apply String.leb_antisym; assumption.
Qed.

Lemma slt_neqb x y : slt x y -> String.eqb x y = false /\ String.eqb y x = false.
Proof. intros [_ N]. split; apply String.eqb_neq; congruence. Qed.

Lemma tri x y : slt x y \/ x = y \/ slt y x.
Proof.
  destruct (String.eqb x y) eqn:E; [apply String.eqb_eq in E; auto|]. apply String.eqb_neq in E.
  destruct (String.leb_total x y) as [H|H]; [left|right; right]; split; auto.
Qed.

(* ---- one insertion step, by trichotomy ---- *)
Definition omap {A B} (f : A -> B) (x : option A) : option B := match x with Some a => Some (f a) | None => None end.

Lemma ins_lt a c rest : slt (atext a) (atext c) -> add_advc (c :: rest) a = Some (a :: c :: rest).
Proof.
  intros H. simpl. fold (atext a) (atext c). rewrite (slt_leb _ _ H). destruct (slt_neqb _ _ H) as [_ E]. rewrite E. reflexivity.
Qed.

Lemma ins_eq a c rest : atext a = atext c ->
  add_advc (c :: rest) a = omap (fun m => m :: rest) (merge_advc c a).
Proof.
  intros H. simpl. fold (atext a) (atext c). rewrite H, leb_refl, String.eqb_refl. destruct (merge_advc c a); reflexivity.
Qed.

Lemma ins_gt a c rest : slt (atext c) (atext a) ->
  add_advc (c :: rest) a = omap (cons c) (add_advc rest a).
Proof.
  intros H. simpl. fold (atext a) (atext c). rewrite (slt_not_leb _ _ H). destruct (add_advc rest a); reflexivity.
Qed.

Lemma merge_text c a m : merge_advc c a = Some m -> atext m = atext c.
Proof.
  unfold merge_advc. destruct (negb _); [discriminate|]. destruct (negb _); [discriminate|]. intros H; inversion H; reflexivity.
Qed.

(* ---- merging commutes ---- *)
Lemma sort_s_app_comm a b : sort_s (a ++ b) = sort_s (b ++ a).
Proof. apply sort_s_ext. intros x. rewrite !in_app_iff. tauto. Qed.

Lemma sort_s_app3 a b c : sort_s (sort_s (a ++ b) ++ c) = sort_s (sort_s (a ++ c) ++ b).
Proof. apply sort_s_ext. intros x. rewrite !in_app_iff, !sort_s_in, !in_app_iff. tauto. Qed.

Lemma afi_eqb_sym a b : afi_eqb a b = afi_eqb b a.
Proof. destruct a, b; reflexivity. Qed.

Lemma merge_comm a b : ac_pfx a = ac_pfx b -> merge_advc a b = merge_advc b a.
Proof.
  intros P. unfold merge_advc. rewrite P, (N.eqb_sym (ac_lp b) (ac_lp a)).
  destruct (negb (afi_eqb _ _)); [reflexivity|].
  destruct (N.eqb (ac_lp a) (ac_lp b)) eqn:E; simpl; [|reflexivity]. apply N.eqb_eq in E.
  rewrite (sort_s_app_comm (ac_comms a)), (sort_s_app_comm (ac_lcomms a)), E. reflexivity.
Qed.

Definition obind {A B} (x : option A) (f : A -> option B) : option B := match x with Some a => f a | None => None end.

Lemma merge_assoc c a b :
  obind (merge_advc c a) (fun m => merge_advc m b) = obind (merge_advc c b) (fun m => merge_advc m a).
Proof.
  unfold merge_advc.
  destruct (afi_eqb (pfx_afi (ac_pfx c)) (pfx_afi (ac_pfx a))) eqn:A1;
  destruct (afi_eqb (pfx_afi (ac_pfx c)) (pfx_afi (ac_pfx b))) eqn:A2;
  destruct (N.eqb (ac_lp c) (ac_lp a)) eqn:L1; destruct (N.eqb (ac_lp c) (ac_lp b)) eqn:L2;
  simpl; rewrite ?A1, ?A2, ?L1, ?L2; simpl; try reflexivity.
  rewrite sort_s_app3, (sort_s_app3 (ac_lcomms c)). reflexivity.
Qed.

(* ---- two insertions commute ---- *)
Definition ins2 (cur : list advc) (a b : advc) : option (list advc) := obind (add_advc cur a) (fun c => add_advc c b).

Definition tinj (L : list advc) : Prop := forall x y, In x L -> In y L -> atext x = atext y -> ac_pfx x = ac_pfx y.

Lemma ins2_lt_lt a b c rest : slt (atext a) (atext c) -> slt (atext b) (atext c) -> ac_pfx a = ac_pfx b \/ atext a <> atext b ->
  ins2 (c :: rest) a b = ins2 (c :: rest) b a.
Proof.
  intros Ha Hb Hp. unfold ins2. rewrite (ins_lt a c rest Ha), (ins_lt b c rest Hb). cbn [obind].
  destruct (tri (atext b) (atext a)) as [H|[H|H]].
  - rewrite (ins_lt b a _ H), (ins_gt a b _ H), (ins_lt a c rest Ha). reflexivity.
  - rewrite (ins_eq b a _ H), (ins_eq a b _ (eq_sym H)). destruct Hp as [P|N]; [|congruence]. rewrite (merge_comm a b P). reflexivity.
  - rewrite (ins_gt b a _ H), (ins_lt b c rest Hb), (ins_lt a b _ H). reflexivity.
Qed.

Lemma ins2_lt_eq a b c rest : slt (atext a) (atext c) -> atext b = atext c ->
  ins2 (c :: rest) a b = ins2 (c :: rest) b a.
Proof.
  intros Ha Hb. unfold ins2. rewrite (ins_lt a c rest Ha), (ins_eq b c rest Hb). cbn [obind].
  assert (Hab: slt (atext a) (atext b)) by (rewrite Hb; exact Ha).
  rewrite (ins_gt b a _ Hab), (ins_eq b c rest Hb).
  destruct (merge_advc c b) as [m|] eqn:M; cbn [obind omap]; [|reflexivity].
  rewrite ins_lt; [reflexivity|]. rewrite (merge_text _ _ _ M). exact Ha.
Qed.

Lemma ins2_lt_gt a b c rest : slt (atext a) (atext c) -> slt (atext c) (atext b) ->
  ins2 (c :: rest) a b = ins2 (c :: rest) b a.
Proof.
  intros Ha Hb. unfold ins2. rewrite (ins_lt a c rest Ha), (ins_gt b c rest Hb). cbn [obind].
  assert (Hab: slt (atext a) (atext b)) by (eapply slt_trans; eassumption).
  rewrite (ins_gt b a _ Hab), (ins_gt b c rest Hb).
  destruct (add_advc rest b) as [r'|]; cbn [obind omap]; [|reflexivity]. rewrite (ins_lt a c r' Ha). reflexivity.
Qed.

Lemma ins2_eq_gt a b c rest : atext a = atext c -> slt (atext c) (atext b) ->
  ins2 (c :: rest) a b = ins2 (c :: rest) b a.
Proof.
  intros Ha Hb. unfold ins2. rewrite (ins_eq a c rest Ha), (ins_gt b c rest Hb).
  destruct (merge_advc c a) as [m|] eqn:M; cbn [obind omap].
  - rewrite ins_gt by (rewrite (merge_text _ _ _ M); exact Hb).
    destruct (add_advc rest b) as [r'|]; cbn [obind omap]; [|reflexivity]. rewrite (ins_eq a c r' Ha), M. reflexivity.
  - destruct (add_advc rest b) as [r'|]; cbn [obind omap]; [|reflexivity]. rewrite (ins_eq a c r' Ha), M. reflexivity.
Qed.

Lemma ins2_eq_eq a b c rest : atext a = atext c -> atext b = atext c ->
  ins2 (c :: rest) a b = ins2 (c :: rest) b a.
Proof.
  intros Ha Hb. unfold ins2. rewrite (ins_eq a c rest Ha), (ins_eq b c rest Hb).
  pose proof (merge_assoc c a b) as MA.
  destruct (merge_advc c a) as [m|] eqn:M1; destruct (merge_advc c b) as [m'|] eqn:M2; cbn [obind omap] in *.
  - rewrite ins_eq by (rewrite (merge_text _ _ _ M1); exact Hb).
    rewrite (ins_eq a m' rest) by (rewrite (merge_text _ _ _ M2); exact Ha). rewrite MA. reflexivity.
  - rewrite ins_eq by (rewrite (merge_text _ _ _ M1); exact Hb). rewrite MA. reflexivity.
  - rewrite (ins_eq a m' rest) by (rewrite (merge_text _ _ _ M2); exact Ha). rewrite <- MA. reflexivity.
  - reflexivity.
Qed.

Lemma ins2_comm cur : forall a b, ssorted atext cur -> tinj (a :: b :: cur) -> ins2 cur a b = ins2 cur b a.
Proof.
  induction cur as [|c rest IH]; intros a b Hs Hi.
  - unfold ins2. change (add_advc [] a) with (Some [a]). change (add_advc [] b) with (Some [b]). cbn [obind].
    destruct (tri (atext b) (atext a)) as [H|[H|H]].
    + rewrite (ins_lt b a [] H), (ins_gt a b [] H). reflexivity.
    + rewrite (ins_eq b a [] H), (ins_eq a b [] (eq_sym H)).
      rewrite (merge_comm a b); [reflexivity|]. apply Hi; simpl; auto.
    + rewrite (ins_gt b a [] H), (ins_lt a b [] H). reflexivity.
  - assert (Hp: ac_pfx a = ac_pfx b \/ atext a <> atext b).
    { destruct (String.eqb (atext a) (atext b)) eqn:E; [left|right].
      - apply String.eqb_eq in E. apply Hi; simpl; auto.
      - apply String.eqb_neq in E. exact E. }
    destruct (tri (atext a) (atext c)) as [Ha|[Ha|Ha]]; destruct (tri (atext b) (atext c)) as [Hb|[Hb|Hb]].
    + apply ins2_lt_lt; assumption.
    + apply ins2_lt_eq; assumption.
    + apply ins2_lt_gt; assumption.
    + symmetry. apply ins2_lt_eq; assumption.
    + apply ins2_eq_eq; assumption.
    + apply ins2_eq_gt; assumption.
    + symmetry. apply ins2_lt_gt; assumption.
    + symmetry. apply ins2_eq_gt; assumption.
    + unfold ins2. rewrite (ins_gt a c rest Ha), (ins_gt b c rest Hb).
      inversion Hs as [|? ? Hs' _]; subst.
      assert (Hi': tinj (a :: b :: rest)).
      { intros x y Hx Hy. apply Hi; simpl in *; tauto. }
      pose proof (IH a b Hs' Hi') as E. unfold ins2 in E.
      destruct (add_advc rest a) as [r1|]; destruct (add_advc rest b) as [r2|]; cbn [obind omap] in *.
      * rewrite (ins_gt b c r1 Hb), (ins_gt a c r2 Ha), E. reflexivity.
      * rewrite (ins_gt b c r1 Hb), E. reflexivity.
      * rewrite (ins_gt a c r2 Ha), <- E. reflexivity.
      * reflexivity.
Qed.

(* ---- add_all is invariant under permutation ---- *)
Definition pinj (P : list pfx) : Prop := forall p q, In p P -> In q P -> p_text p = p_text q -> p = q.

Lemma pinj_incl P Q : incl P Q -> pinj Q -> pinj P.
Proof. intros I H p q Hp Hq. apply H; apply I; assumption. Qed.

Lemma pinj_tinj L : pinj (map ac_pfx L) -> tinj L.
Proof. intros H x y Hx Hy E. apply H; [apply in_map; assumption|apply in_map; assumption|exact E]. Qed.

Lemma add_all_cons cur a l : add_all cur (a :: l) = obind (add_advc cur a) (fun c => add_all c l).
Proof. simpl. destruct (add_advc cur a); reflexivity. Qed.

Lemma ins_pfxs cur a c : add_advc cur a = Some c -> incl (map ac_pfx c) (map ac_pfx (a :: cur)).
Proof.
  intros H p Hp. apply in_map_iff in Hp as (y & <- & Hy).
  assert (S: supp (a :: cur) y).
  { eapply (add_advc_supp (a :: cur) cur a c); [| |exact H|exact Hy].
    - intros x Hx. apply supp_self. right; assumption.
    - left; reflexivity. }
  destruct S as ((g & Hg & Pg & _) & _). rewrite <- Pg. apply in_map; assumption.
Qed.

Lemma add_all_perm l l' : Permutation l l' ->
  forall cur, ssorted atext cur -> pinj (map ac_pfx (cur ++ l)) -> add_all cur l = add_all cur l'.
Proof.
  induction 1 as [|x l l' P IH|x y l|l l' l'' P1 IH1 P2 IH2]; intros cur Hs Hi.
  - reflexivity.
  - rewrite !add_all_cons. destruct (add_advc cur x) as [c|] eqn:E; cbn [obind]; [|reflexivity].
    apply IH; [eapply add_advc_sorted; eauto|].
    eapply pinj_incl; [|exact Hi]. rewrite !map_app. intros p Hp. apply in_app_or in Hp as [Hp|Hp].
    + apply (ins_pfxs _ _ _ E) in Hp. simpl in Hp. apply in_or_app. simpl. tauto.
    + apply in_or_app. simpl. tauto.
  - rewrite !add_all_cons.
    assert (E: ins2 cur y x = ins2 cur x y).
    { apply ins2_comm; [assumption|]. apply pinj_tinj. eapply pinj_incl; [|exact Hi].
      rewrite map_app. simpl. intros p [<-|[<-|Hp]]; apply in_or_app; simpl; tauto. }
    unfold ins2 in E.
    destruct (add_advc cur y) as [c1|]; destruct (add_advc cur x) as [c2|]; cbn [obind] in *.
    + rewrite !add_all_cons, E. reflexivity.
    + rewrite add_all_cons, E. reflexivity.
    + rewrite add_all_cons, <- E. reflexivity.
    + reflexivity.
  - rewrite (IH1 cur Hs Hi). apply IH2; [assumption|].
    eapply pinj_incl; [|exact Hi]. rewrite !map_app. intros p Hp. apply in_app_or in Hp as [Hp|Hp]; apply in_or_app; [left; assumption|right].
    apply in_map_iff in Hp as (z & <- & Hz). apply in_map. eapply Permutation_in; [apply Permutation_sym; exact P1|exact Hz].
Qed.

(* ---- sort_n is invariant under permutation ---- *)
Lemma sorted_n_unique l1 : forall l2, StronglySorted N.lt l1 -> StronglySorted N.lt l2 ->
  (forall x, In x l1 <-> In x l2) -> l1 = l2.
Proof.
  induction l1 as [|x l1 IH]; intros l2 H1 H2 Heq.
  - destruct l2 as [|y l2]; [reflexivity|]. exfalso. apply (proj2 (Heq y)). left; reflexivity.
  - destruct l2 as [|y l2]; [exfalso; apply (proj1 (Heq x)); left; reflexivity|].
    inversion H1 as [|? ? S1 F1]; inversion H2 as [|? ? S2 F2]; subst. rewrite Forall_forall in F1, F2.
    assert (x = y).
    { destruct (proj1 (Heq x) (or_introl eq_refl)) as [E|Hin]; [congruence|].
      destruct (proj2 (Heq y) (or_introl eq_refl)) as [E|Hin2]; [congruence|].
      pose proof (F2 x Hin). pose proof (F1 y Hin2). lia. }
    subst y. f_equal. apply IH; try assumption. intros u. split; intros Hu.
    + destruct (proj1 (Heq u) (or_intror Hu)) as [E|?]; [|assumption]. subst u. pose proof (F1 x Hu). lia.
    + destruct (proj2 (Heq u) (or_intror Hu)) as [E|?]; [|assumption]. subst u. pose proof (F2 x Hu). lia.
Qed.

Lemma sort_n_perm l l' : Permutation l l' -> sort_n l = sort_n l'.
Proof.
  intros P. apply sorted_n_unique; try apply sort_n_sorted. intros x. rewrite !sort_n_in.
  split; apply Permutation_in; [assumption|apply Permutation_sym; assumption].
Qed.

Lemma perm_nil_match {A} (l l' : list A) : Permutation l l' ->
  (match l with [] => true | _ => false end) = (match l' with [] => true | _ => false end).
Proof.
  intros P. destruct l, l'; try reflexivity.
  - apply Permutation_nil in P. discriminate.
  - apply Permutation_sym, Permutation_nil in P. discriminate.
Qed.

(* ---- neighbors ---- *)
Definition with_s (f : session) (n : nconf) : nconf :=
  mk_nconf f (nc_advs n) (nc_has4 n) (nc_has6 n) (nc_comm4 n) (nc_comm6 n) (nc_lcomm4 n) (nc_lcomm6 n) (nc_lp4 n) (nc_lp6 n).

Definition with_advs (s : session) (l : list adv) : session :=
  mk_session (s_myasn s) (s_rid s) (s_vrf s) (s_addr s) (s_addr4 s) (s_iface s) (s_peerasn s) (s_dynasn s) (s_src s)
             (s_port s) (s_hold s) (s_keep s) (s_connect s) (s_password s) (s_bfd s) (s_gr s) (s_multihop s)
             (s_disable_mp s) l (s_secret s).

Lemma with_s_self n : with_s (nc_s n) n = n.
Proof. destruct n; reflexivity. Qed.

Lemma mk_neighbor_perm f f' advs advs' : pinj (map a_pfx advs) -> Permutation advs advs' ->
  mk_neighbor f' advs' = omap (with_s f') (mk_neighbor f advs).
Proof.
  intros Hi P. unfold mk_neighbor.
  assert (E: add_all [] (map advc_of advs) = add_all [] (map advc_of advs')).
  { apply add_all_perm; [apply Permutation_map; assumption|constructor|].
    simpl. rewrite map_map. exact Hi. }
  rewrite <- E. destruct (add_all [] (map advc_of advs)) as [acs|]; [|reflexivity].
  assert (PA: forall a, Permutation (advs_afi a advs) (advs_afi a advs')) by (intros a; apply filter_perm; assumption).
  cbn [omap]. unfold with_s; cbn [nc_advs nc_has4 nc_has6 nc_comm4 nc_comm6 nc_lcomm4 nc_lcomm6 nc_lp4 nc_lp6].
  rewrite (perm_nil_match _ _ (PA A4)), (perm_nil_match _ _ (PA A6)).
  rewrite (sort_s_perm _ _ (Permutation_flat_map (comms_of false) (PA A4))), (sort_s_perm _ _ (Permutation_flat_map (comms_of false) (PA A6))).
  rewrite (sort_s_perm _ _ (Permutation_flat_map (comms_of true) (PA A4))), (sort_s_perm _ _ (Permutation_flat_map (comms_of true) (PA A6))).
  rewrite (sort_n_perm _ _ (filter_perm _ _ _ (Permutation_map a_lp (PA A4)))), (sort_n_perm _ _ (filter_perm _ _ _ (Permutation_map a_lp (PA A6)))).
  reflexivity.
Qed.

Lemma nf_with_advs f l n : neighbor_filters (with_s (with_advs f l) n) = neighbor_filters (with_s f n).
Proof. destruct f; reflexivity. Qed.

Lemma rn_with_advs asn f l n : render_nbr asn (with_s (with_advs f l) n) = render_nbr asn (with_s f n).
Proof. destruct f; reflexivity. Qed.

Lemma keys_with_advs f l : rkey (with_advs f l) = rkey f /\ nname (with_advs f l) = nname f /\
  s_myasn (with_advs f l) = s_myasn f /\ s_vrf (with_advs f l) = s_vrf f /\ s_rid (with_advs f l) = s_rid f /\
  s_advs (with_advs f l) = l.
Proof. destruct f; repeat split; reflexivity. Qed.

(* ---- session lists related by permuting each advertisement list ---- *)
Definition adv_perm (s s' : session) : Prop :=
  s' = with_advs s (s_advs s') /\ Permutation (s_advs s) (s_advs s').

Lemma adv_perm_keys s s' : adv_perm s s' -> rkey s' = rkey s /\ nname s' = nname s.
Proof. intros [E _]. rewrite E. destruct (keys_with_advs s (s_advs s')) as (A & B & _). auto. Qed.

Lemma forall2_filter {A} (R : A -> A -> Prop) (f : A -> bool) l l' :
  Forall2 R l l' -> (forall x y, R x y -> f x = f y) -> Forall2 R (filter f l) (filter f l').
Proof.
  induction 1 as [|x y l l' Hxy _ IH]; intros Hf; simpl; [constructor|].
  rewrite <- (Hf x y Hxy). destruct (f x); [constructor; auto|auto].
Qed.

Lemma sw_rel key v S S' : (forall s s', adv_perm s s' -> key s' = key s) ->
  Forall2 adv_perm S S' -> Forall2 adv_perm (sessions_with key v S) (sessions_with key v S').
Proof.
  intros Hk F. unfold sessions_with. apply forall2_filter; [assumption|]. intros x y Hxy. rewrite (Hk x y Hxy). reflexivity.
Qed.

Lemma rel_map_key (key : session -> string) L L' : (forall s s', adv_perm s s' -> key s' = key s) ->
  Forall2 adv_perm L L' -> map key L = map key L'.
Proof. intros Hk F. induction F as [|x y l l' Hxy _ IH]; simpl; [reflexivity|]. rewrite (Hk x y Hxy), IH. reflexivity. Qed.

Lemma rel_flat_advs L L' : Forall2 adv_perm L L' -> Permutation (flat_map s_advs L) (flat_map s_advs L').
Proof.
  induction 1 as [|x y l l' [_ P] _ IH]; simpl; [constructor|]. apply Permutation_app; assumption.
Qed.

Lemma rel_in L L' s : Forall2 adv_perm L L' -> In s L -> exists s', In s' L' /\ adv_perm s s'.
Proof.
  induction 1 as [|x y l l' Hxy _ IH]; simpl; [tauto|]. intros [->|H]; [exists y; auto|].
  destruct (IH H) as (s' & A & B). exists s'; auto.
Qed.

(* rendered-equivalence of neighbors and routers *)
Definition nrel (n n' : nconf) : Prop := exists l, n' = with_s (with_advs (nc_s n) l) n.
Definition rrel (r r' : rconf) : Prop :=
  (exists l, rc_first r' = with_advs (rc_first r) l) /\ Forall2 nrel (rc_nbrs r) (rc_nbrs r') /\
  rc_p4 r = rc_p4 r' /\ rc_p6 r = rc_p6 r'.

Lemma nrel_render asn n n' : nrel n n' ->
  neighbor_filters n' = neighbor_filters n /\ render_nbr asn n' = render_nbr asn n.
Proof.
  intros (l & ->). rewrite nf_with_advs, rn_with_advs, with_s_self. auto.
Qed.

Lemma rrel_render rs rs' : Forall2 rrel rs rs' ->
  map render_router rs = map render_router rs' /\ filters_of rs = filters_of rs'.
Proof.
  induction 1 as [|r r' rs rs' ((l & Ef) & Fn & E4 & E6) _ [IH1 IH2]]; [split; reflexivity|].
  assert (En: forall asn, map (render_nbr asn) (rc_nbrs r) = map (render_nbr asn) (rc_nbrs r')).
  { intros asn. induction Fn as [|n n' ns ns' Hn _ IHn]; cbn [map]; [reflexivity|].
    rewrite (proj2 (nrel_render asn n n' Hn)), IHn. reflexivity. }
  assert (Ef': flat_map neighbor_filters (rc_nbrs r) = flat_map neighbor_filters (rc_nbrs r')).
  { clear En. induction Fn as [|n n' ns ns' Hn _ IHn]; cbn [flat_map]; [reflexivity|].
    rewrite (proj1 (nrel_render 0%N n n' Hn)), IHn. reflexivity. }
  split.
  - simpl. rewrite IH1. f_equal. unfold render_router. rewrite Ef.
    destruct (keys_with_advs (rc_first r) l) as (_ & _ & A & B & C & _). rewrite A, B, C, En, E4, E6. reflexivity.
  - unfold filters_of in *. simpl. rewrite IH2, Ef'. reflexivity.
Qed.

Lemma mk_router_advperm S S' k : wf_sessions S -> Forall2 adv_perm S S' ->
  opt_rel rrel (mk_router S k) (mk_router S' k).
Proof.
  intros W F. unfold mk_router.
  pose proof (sw_rel rkey k S S' (fun s s' H => proj1 (adv_perm_keys s s' H)) F) as Fr.
  destruct (sessions_with rkey k S) as [|f rest] eqn:E; destruct (sessions_with rkey k S') as [|f' rest'] eqn:E';
    inversion Fr as [|? ? ? ? Hff' Frest]; subst; [exact I|].
  assert (Hsub: forall x, In x (f :: rest) -> In x S) by (intros x Hx; rewrite <- E in Hx; apply sessions_with_in in Hx; tauto).
  rewrite <- (rel_map_key nname (f :: rest) (f' :: rest') (fun s s' H => proj2 (adv_perm_keys s s' H)) Fr).
  set (g := fun Sr nn => match sessions_with nname nn Sr with [] => None | f0 :: _ => mk_neighbor f0 (flat_map s_advs (sessions_with nname nn Sr)) end).
  change (fun nn => match sessions_with nname nn (f :: rest) with [] => None | f0 :: _ => mk_neighbor f0 (flat_map s_advs (sessions_with nname nn (f :: rest))) end)
    with (g (f :: rest)).
  change (fun nn => match sessions_with nname nn (f' :: rest') with [] => None | f0 :: _ => mk_neighbor f0 (flat_map s_advs (sessions_with nname nn (f' :: rest'))) end)
    with (g (f' :: rest')).
  assert (Hg: forall nn, opt_rel nrel (g (f :: rest) nn) (g (f' :: rest') nn)).
  { intros nn. unfold g.
    pose proof (sw_rel nname nn _ _ (fun s s' H => proj2 (adv_perm_keys s s' H)) Fr) as Fn.
    destruct (sessions_with nname nn (f :: rest)) as [|h more] eqn:En; destruct (sessions_with nname nn (f' :: rest')) as [|h' more'] eqn:En';
      inversion Fn as [|? ? ? ? Hhh' Fmore]; subst; [exact I|].
    rewrite (mk_neighbor_perm h h' (flat_map s_advs (h :: more)) (flat_map s_advs (h' :: more'))).
    - destruct (mk_neighbor h (flat_map s_advs (h :: more))) as [n|] eqn:Hn; [|exact I]. simpl.
      destruct Hhh' as [Eh _]. exists (s_advs h'). rewrite (proj1 (mk_neighbor_covers _ _ _ Hn)), <- Eh. reflexivity.
    - intros p q Hp Hq. apply (wf_pfx _ W); unfold all_pfx.
      + apply in_map_iff in Hp as (a & <- & Ha). apply in_map. apply in_flat_map in Ha as (u & Hu & Ha). apply in_flat_map. exists u. split; [|assumption].
        apply Hsub. assert (In u (sessions_with nname nn (f :: rest))) by (rewrite En; assumption). apply sessions_with_in in H. tauto.
      + apply in_map_iff in Hq as (a & <- & Ha). apply in_map. apply in_flat_map in Ha as (u & Hu & Ha). apply in_flat_map. exists u. split; [|assumption].
        apply Hsub. assert (In u (sessions_with nname nn (f :: rest))) by (rewrite En; assumption). apply sessions_with_in in H. tauto.
    - apply rel_flat_advs. assumption. }
  pose proof (all_some_rel nrel (g (f :: rest)) (g (f' :: rest')) (sort_s (map nname (f :: rest))) (fun nn _ => Hg nn)) as HA.
  destruct (all_some (map (g (f :: rest)) _)) as [ns|]; destruct (all_some (map (g (f' :: rest')) _)) as [ns'|]; simpl in HA; try contradiction; [|exact I].
  simpl. unfold rrel; simpl. split; [destruct Hff' as [Ef _]; eauto|]. split; [assumption|].
  assert (Hkey: forall a, key_inj p_text (map a_pfx (advs_afi a (flat_map s_advs (f :: rest))))).
  { intros a x y Hx Hy. apply (wf_pfx _ W); unfold all_pfx.
    - apply in_map_iff in Hx as (u & <- & Hu). apply in_map. apply filter_In in Hu as [Hu _].
      apply in_flat_map in Hu as (v & Hv & Hu). apply in_flat_map. exists v; split; [apply Hsub; assumption|assumption].
    - apply in_map_iff in Hy as (u & <- & Hu). apply in_map. apply filter_In in Hu as [Hu _].
      apply in_flat_map in Hu as (v & Hv & Hu). apply in_flat_map. exists v; split; [apply Hsub; assumption|assumption]. }
  assert (Hp: forall a, Permutation (map a_pfx (advs_afi a (flat_map s_advs (f :: rest)))) (map a_pfx (advs_afi a (flat_map s_advs (f' :: rest'))))).
  { intros a. apply Permutation_map. apply filter_perm. apply rel_flat_advs. assumption. }
  split; apply sort_k_perm; [apply Hkey|apply Hp|apply Hkey|apply Hp].
Qed.

Theorem render_advperm S S' : wf_sessions S -> Forall2 adv_perm S S' -> render S = render S'.
Proof.
  intros W F. unfold render, create_config.
  rewrite <- (rel_map_key rkey S S' (fun s s' H => proj1 (adv_perm_keys s s' H)) F).
  pose proof (all_some_rel rrel (mk_router S) (mk_router S') (sort_s (map rkey S))
                (fun k _ => mk_router_advperm S S' k W F)) as H.
  destruct (all_some (map (mk_router S) _)) as [rs|], (all_some (map (mk_router S') _)) as [rs'|]; simpl in H; try contradiction; [|reflexivity].
  destruct (rrel_render _ _ H) as [E1 E2]. rewrite E1, E2. reflexivity.
Qed.

(* both kinds of reordering together *)
Lemma wf_perm_of_wf S : wf_sessions S -> wf_perm S.
Proof.
  intros W. split; [apply (wf_nbr _ W)|]. split; [apply (wf_rkey _ W)|]. exact (wf_pfx _ W).
Qed.

Lemma wf_sessions_perm S S1 : wf_sessions S -> Permutation S S1 -> wf_sessions S1.
Proof.
  intros W P.
  assert (I: forall x, In x S1 -> In x S) by (intros x; apply Permutation_in, Permutation_sym; assumption).
  assert (IP: forall x, In x (all_pfx S1) -> In x (all_pfx S)).
  { intros x. unfold all_pfx. apply Permutation_in, Permutation_sym. apply Permutation_map, Permutation_flat_map. assumption. }
  constructor.
  - eapply Permutation_NoDup; [exact P|apply (wf_nodup _ W)].
  - intros s t Hs Ht. apply (wf_nbr _ W); auto.
  - intros s t Hs Ht. apply (wf_rkey _ W); auto.
  - intros x y Hx Hy. apply (wf_pfx _ W); auto.
  - intros s t Hs Ht. apply (wf_vrf _ W); auto.
  - intros s t Hs Ht. apply (wf_peer _ W); auto.
  - intros s t k k' Hs Ht. apply (wf_pl _ W); auto.
  - intros s t Hs Ht. apply (wf_rm_out _ W); auto.
  - intros s t Hs Ht. apply (wf_rm_in _ W); auto.
Qed.

Theorem render_perm_full S S1 S' : wf_sessions S -> Permutation S S1 -> Forall2 adv_perm S1 S' -> render S = render S'.
Proof.
  intros W P F. rewrite (render_perm S S1 (wf_perm_of_wf S W) P).
  apply render_advperm; [eapply wf_sessions_perm; eassumption|assumption].
Qed.
