(* Regression of the model: readOpen as it was BEFORE the two fix: commits
   (4cdd426 "hdr.Len < 37", 3bb171f notification read from the raw connection).
   On that model the C16 statements about readOpen are refuted. *)
From Coq Require Import List NArith Bool Lia.
From Verif Require Import Model.Wire.
Import ListNotations.
Local Open Scope N_scope.

Definition read_open_prefix : list N -> rres * N := read_open_gen 37 false.

(* F10: the minimal well-formed OPEN (29 octets, no optional parameters) *)
Definition min_open : open_msg :=
  {| o_ver := 4; o_asn := 64512; o_hold := 90; o_id := [10; 0; 0; 1]; o_params := [] |}.

Lemma read_open_correct_refuted_prefix :
  exists o, wf_msg true (MOpen o) /\ dec_msg true (ser_msg true (MOpen o)) = Some (MOpen o) /\
            fst (read_open_prefix (ser_msg true (MOpen o))) = RErr EOther.
Proof.
  exists min_open. split; [|split; vm_compute; reflexivity].
  split; [vm_compute; discriminate|]. unfold min_open, wf_open; cbn. repeat split; try lia. constructor.
Qed.

(* the same OPEN on the model of the current tree *)
Lemma read_open_min_open_fixed :
  read_open (ser_msg true (MOpen min_open)) = (ROk (understood min_open), 29).
Proof. vm_compute. reflexivity. Qed.

(* every well-formed OPEN of 29..36 octets built from empty capability options
   was rejected *)
Lemma read_open_short_rejected_prefix :
  forallb (fun k => match read_open_prefix (ser_msg true (MOpen {| o_ver := 4; o_asn := 1; o_hold := 3; o_id := [1; 1; 1; 1];
                                              o_params := repeat (PCaps []) k |})) with
                    | (RErr EOther, 19) => true | _ => false end) [0; 1; 2; 3]%nat = true.
Proof. vm_compute. reflexivity. Qed.

(* a NOTIFICATION header announcing 19 octets: two octets beyond the announced
   length were consumed *)
Lemma read_open_bounded_refuted_prefix :
  exists bs, 19 <= len bs /\ snd (read_open_prefix bs) = 21 /\ nth 16 bs 0 * 256 + nth 17 bs 0 = 19.
Proof. exists (marker ++ [0; 19; 3; 6; 2; 255; 255]). vm_compute. repeat split; discriminate. Qed.

Lemma read_open_notification_fixed :
  read_open (marker ++ [0; 19; 3; 6; 2; 255; 255]) = (RErr EEof, 19).
Proof. vm_compute. reflexivity. Qed.
