(* What [collide] means for routes: in an accepted configuration one (prefix, node, peer)
   never gets two local preferences from two advertisements attached to the same pool. *)
From Coq Require Import NArith Bool List Lia ZifyN ZifyBool Permutation.
From Verif Require Import Model.Cfg Proofs.NetP Proofs.CfgSortP Proofs.CfgSummP Proofs.CfgP.
Local Open Scope N_scope.

(* advertisement a of pool p announces address x of the pool from node n to peer pr as the
   aggregate [mask_to (agg_of a (ip_fam x)) x] *)
Definition announces (p : pool) (a : bgpadv) (x : ip) (n pr : N) : Prop :=
  in_prefixes (p_cidrs p) x /\ In n (ba_nodes a) /\ (ba_peers a = [] \/ In pr (ba_peers a)).
Definition route (a : bgpadv) (x : ip) : prefix := mask_to (agg_of a (ip_fam x)) x.

Lemma parse_addr_one_family a cs : parse_addr a = Some cs -> forall c c', In c cs -> In c' cs -> pfam c = pfam c'.
Proof.
  destruct a as [q|b l|s e]; cbn [parse_addr].
  - destruct (wf_prefixb q); [|discriminate]. intros [= <-] c c' [<-|[]] [<-|[]]. reflexivity.
  - destruct (_ && _); [|discriminate]. destruct (96 <=? l); intros H;
      apply (f_equal (fun o => match o with Some v => v | None => cs end)) in H; cbv beta iota in H; subst cs;
      intros c c' [<-|[]] [<-|[]]; reflexivity.
  - destruct s as [s|s], e as [e|e]; try discriminate.
    + destruct ((s <=? e) && (e <? 2 ^ 32)) eqn:W; [|discriminate].
      apply andb_true_iff in W. destruct W as [_ W2]. apply N.ltb_lt in W2. intros H.
      destruct (summarize_exact F4 s e cs W2 H) as (_ & _ & G). rewrite Forall_forall in G.
      intros c c' Hc Hc'. destruct (G _ Hc) as (_ & _ & E & _). destruct (G _ Hc') as (_ & _ & E' & _). congruence.
    + destruct ((s <=? e) && (e <? 2 ^ 128)) eqn:W; [|discriminate].
      apply andb_true_iff in W. destruct W as [_ W2]. apply N.ltb_lt in W2. intros H.
      destruct (summarize_exact F6 s e cs W2 H) as (_ & _ & G). rewrite Forall_forall in G.
      intros c c' Hc Hc'. destruct (G _ Hc) as (_ & _ & E & _). destruct (G _ Hc') as (_ & _ & E' & _). congruence.
Qed.

(* a pool parsed from a resource has every family its CIDRs have *)
Lemma parsed_pool_has nss c p0 q : parse_pool nss c = Some p0 -> In q (p_cidrs p0) -> pool_has (pfam q) p0 = true.
Proof.
  intros P Hq. destruct (parse_pool_spec _ _ _ P) as (_ & Hper & Hc & _). rewrite Hc in Hq.
  apply in_concat_iff in Hq. destruct Hq as [cs [Hcs Hq]].
  apply parse_addrs_spec in Hper. destruct (Forall2_in_r _ _ _ _ Hper Hcs) as [a [_ Pa]].
  unfold pool_has. apply existsb_exists. exists cs. split; [assumption|].
  destruct cs as [|c0 r]; [destruct Hq|]. apply fam_eqb_eq.
  apply (parse_addr_one_family a (c0 :: r) Pa); [left; reflexivity|assumption].
Qed.

Lemma pool_has_core f p p' : core p = core p' -> pool_has f p = pool_has f p'.
Proof. intros C. unfold pool_has. rewrite (core_per _ _ C). reflexivity. Qed.

Theorem one_route_one_localpref iter r out p : pools_for iter r = Some out -> In p (po_pools out) ->
  ForallOrdPairs (fun a b => forall x n pr, announces p a x n pr -> announces p b x n pr ->
                                            route a x = route b x -> ba_lp a = ba_lp b) (p_bgp p).
Proof.
  intros H Hp. pose proof (localpref_no_collision _ _ _ _ H Hp) as L.
  destruct (accepted_pool_origin _ _ _ _ H Hp) as (c & p0 & _ & P & C).
  eapply FOP_impl_in; [|exact L]. cbn. intros a b _ _ NC x n pr (Hx & Hn & Hpr) (_ & Hn' & Hpr') HR.
  destruct (N.eq_dec (ba_lp a) (ba_lp b)) as [E|NE]; [assumption|]. exfalso. apply (NC NE).
  split; [exists n; auto|]. split.
  - unfold peers_overlap. destruct Hpr as [E|I]; [auto|]. destruct Hpr' as [E'|I']; [auto|].
    right. right. exists pr. auto.
  - destruct Hx as [q [Hq Cq]]. exists (pfam q). split.
    + rewrite <- (pool_has_core _ _ _ C). apply (parsed_pool_has _ _ _ _ P). rewrite (core_cidrs _ _ C). assumption.
    + apply contains_spec in Cq. destruct Cq as [Fq _]. rewrite Fq.
      unfold route, mask_to in HR. congruence.
Qed.
