(* What [collide] means for routes: in an accepted configuration one (prefix, node, peer)
   never gets two local preferences from two advertisements attached to the same pool. *)
From Coq Require Import NArith Bool List Lia ZifyN ZifyBool Permutation.
From Verif Require Import Model.Cfg Proofs.NetP Proofs.CfgSortP Proofs.CfgSummP Proofs.CfgP.
Local Open Scope N_scope.

(* advertisement a of pool p announces address x of the pool from node n to peer pr as the
   aggregate [mask_to (agg_of a (ip_fam x)) x] *)
Definition announces (p : pool) (a : bgpadv) (x : ip) (n pr : N) : Prop :=
  in_prefixes (p_cidrs p) x /\ In n (ba_nodes a) /\ (ba_peers a = [] \/ In pr (ba_peers a)).
Definition route (a : bgpadv) (x : ip) : prefix := mask_to (agg_of a (ip_fam x)) x.

Lemma parse_addr_one_family a cs : parse_addr a = Some cs -> forall c c', In c cs -> In c' cs -> pfam c = pfam c'.
Proof.
  destruct a as [q|b l|s e]; cbn [parse_addr].
  - destruct (wf_prefixb q); [|discriminate]. intros [= <-] c c' [<-|[]] [<-|[]]. reflexivity.
  - destruct (_ && _); [|discriminate]. destruct (96 <=? l); intros H;
      apply (f_equal (fun o => match o with Some v => v | None => cs end)) in H; cbv beta iota in H; subst cs;
      intros c c' [<-|[]] [<-|[]]; reflexivity.
  - destruct s as [s|s], e as [e|e]; try discriminate.
    + destruct ((s <=? e) && (e <? 2 ^ 32)) eqn:W; [|discriminate].
      apply andb_true_iff in W. destruct W as [_ W2]. apply N.ltb_lt in W2. intros H.
      destruct (summarize_exact F4 s e cs W2 H) as (_ & _ & G). rewrite Forall_forall in G.
      intros c c' Hc Hc'. destruct (G _ Hc) as (_ & _ & E & _). destruct (G _ Hc') as (_ & _ & E' & _). congruence.
    + destruct ((s <=? e) && (e <? 2 ^ 128)) eqn:W; [|discriminate].
      apply andb_true_iff in W. destruct W as [_ W2]. apply N.ltb_lt in W2. intros H.
      destruct (summarize_exact F6 s e cs W2 H) as (_ & _ & G). rewrite Forall_forall in G.
      intros c c' Hc Hc'. destruct (G _ Hc) as (_ & _ & E & _). destruct (G _ Hc') as (_ & _ & E' & _). congruence.
Qed.

(* a pool parsed from a resource has every family its CIDRs have *)
Lemma parsed_pool_has nss c p0 q : parse_pool nss c = Some p0 -> In q (p_cidrs p0) -> pool_has (pfam q) p0 = true.
Proof.
  intros P Hq. destruct (parse_pool_spec _ _ _ P) as (_ & Hper & Hc & _). rewrite Hc in Hq.
  apply in_concat_iff in Hq. destruct Hq as [cs [Hcs Hq]].
  apply parse_addrs_spec in Hper. destruct (Forall2_in_r _ _ _ _ Hper Hcs) as [a [_ Pa]].
  unfold pool_has. apply existsb_exists. exists cs. split; [assumption|].
  destruct cs as [|c0 r]; [destruct Hq|]. apply fam_eqb_eq.
  apply (parse_addr_one_family a (c0 :: r) Pa); [left; reflexivity|assumption].
Qed.

Lemma pool_has_core f p p' : core p = core p' -> pool_has f p = pool_has f p'.
Proof. intros C. unfold pool_has. rewrite (core_per _ _ C). reflexivity. Qed.

Theorem one_route_one_localpref iter r out p : pools_for iter r = Some out -> In p (po_pools out) ->
  ForallOrdPairs (fun a b => forall x n pr, announces p a x n pr -> announces p b x n pr ->
                                            route a x = route b x -> ba_lp a = ba_lp b) (p_bgp p).
Proof.
  intros H Hp. pose proof (localpref_no_collision _ _ _ _ H Hp) as L.
  destruct (accepted_pool_origin _ _ _ _ H Hp) as (c & p0 & _ & P & C).
  eapply FOP_impl_in; [|exact L]. cbn. intros a b _ _ NC x n pr (Hx & Hn & Hpr) (_ & Hn' & Hpr') HR.
  destruct (N.eq_dec (ba_lp a) (ba_lp b)) as [E|NE]; [assumption|]. exfalso. apply (NC NE).
  split; [exists n; auto|]. split.
  - unfold peers_overlap. destruct Hpr as [E|I]; [auto|]. destruct Hpr' as [E'|I']; [auto|].
    right. right. exists pr. auto.
  - destruct Hx as [q [Hq Cq]]. exists (pfam q). split.
    + rewrite <- (pool_has_core _ _ _ C). apply (parsed_pool_has _ _ _ _ P). rewrite (core_cidrs _ _ C). assumption.
    + apply contains_spec in Cq. destruct Cq as [Fq _]. rewrite Fq.
      unfold route, mask_to in HR. congruence.
Qed.

(* ------------------------------------------------------------------ across pools *)
(* validateBGPAdvPerPool looks at one pool at a time.  Across pools (or across two address
   entries of one pool) the clause still holds for entries that are one CIDR: the aggregate of
   an address of such an entry stays inside it, so if two entries yield the same aggregate
   route each contains the other's address - they share addresses, which an accepted
   configuration excludes for two different entries (accepted_disjoint). *)
Theorem cidr_entries_share_no_route iter r out p1 p2 q1 q2 b1 b2 x1 x2 :
  pools_for iter r = Some out -> In p1 (po_pools out) -> In p2 (po_pools out) ->
  In [q1] (p_per_addr p1) -> In [q2] (p_per_addr p2) -> In b1 (p_bgp p1) -> In b2 (p_bgp p2) ->
  contains q1 x1 = true -> contains q2 x2 = true -> route b1 x1 = route b2 x2 ->
  contains q1 x2 = true /\ contains q2 x1 = true.
Proof.
  intros H Hp1 Hp2 Hq1 Hq2 Hb1 Hb2 C1 C2 R.
  destruct (pools_for_accepted _ _ _ H) as (ps0 & ps2 & A).
  pose proof (af_ok _ _ _ _ A) as OK. rewrite Forall_forall in OK.
  apply (Permutation_in _ (af_perm _ _ _ _ A)) in Hp1, Hp2.
  destruct (OK _ Hp1) as [_ G1]. destruct (OK _ Hp2) as [_ G2]. rewrite Forall_forall in G1, G2.
  destruct (G1 _ Hb1) as (A4 & A6 & L1). destruct (G2 _ Hb2) as (B4 & B6 & L2).
  specialize (L1 q1 [] Hq1). specialize (L2 q2 [] Hq2). cbn [lowest fold_left] in L1, L2.
  assert (F1 : pfam q1 = ip_fam x1) by (apply contains_spec in C1; tauto).
  assert (F2 : pfam q2 = ip_fam x2) by (apply contains_spec in C2; tauto).
  unfold route in R. split.
  - eapply (aggregate_contained q1 x1 (agg_of b1 (pfam q1)) x2); [exact L1|apply agg_of_le_width; assumption|exact C1|].
    rewrite F1, R. apply mask_to_contains_self.
  - eapply (aggregate_contained q2 x2 (agg_of b2 (pfam q2)) x1); [exact L2|apply agg_of_le_width; assumption|exact C2|].
    rewrite F2, <- R. apply mask_to_contains_self.
Qed.

Corollary disjoint_cidr_entries_share_no_route iter r out p1 p2 q1 q2 b1 b2 x1 x2 :
  pools_for iter r = Some out -> In p1 (po_pools out) -> In p2 (po_pools out) ->
  In [q1] (p_per_addr p1) -> In [q2] (p_per_addr p2) -> In b1 (p_bgp p1) -> In b2 (p_bgp p2) ->
  disjoint q1 q2 -> contains q1 x1 = true -> contains q2 x2 = true -> route b1 x1 <> route b2 x2.
Proof.
  intros H Hp1 Hp2 Hq1 Hq2 Hb1 Hb2 D C1 C2 R.
  destruct (cidr_entries_share_no_route _ _ _ _ _ _ _ _ _ _ _ H Hp1 Hp2 Hq1 Hq2 Hb1 Hb2 C1 C2 R) as [X _].
  exact (D x2 X C2).
Qed.

(* ... and fails for range-written pools: 0.0.0.10-0.0.0.15 and 0.0.0.4-0.0.0.9, one
   advertisement each (aggregation length 30, local preference 100 / 200, every peer), one node:
   accepted, and both announce 0.0.0.8/30 from node 1 - with two local preferences.
   Reproduced on the real config.For (same result). *)
Definition xp_pool n a : pool_cr :=
  {| pl_name := n; pl_labels := []; pl_addrs := [a]; pl_avoid := false; pl_auto := true; pl_alloc := None |}.
Definition xp_adv n lp pools : bgp_cr :=
  {| bg_name := n; bg_agg4 := 30; bg_agg6 := 128; bg_lp := lp; bg_comms := []; bg_peers := [];
     bg_pools := pools; bg_psels := []; bg_nsels := [] |}.
Definition cross_pool_witness : resources :=
  {| r_pools := [xp_pool 1 (ARange (V4 10) (V4 15)); xp_pool 2 (ARange (V4 4) (V4 9))]; r_l2 := [];
     r_bgp := [xp_adv 1 100 [1]; xp_adv 2 200 [2]];
     r_nodes := [{| nd_name := 1; nd_labels := []; nd_ips := [V4 1000] |}]; r_nss := [];
     r_peers := []; r_bfds := []; r_comms := [] |}.

Theorem localpref_cross_pool_refuted :
  exists r out p1 p2 b1 b2 x1 x2 n pr,
    pools_for (fun l => l) r = Some out /\ In p1 (po_pools out) /\ In p2 (po_pools out) /\ p_name p1 <> p_name p2 /\
    In b1 (p_bgp p1) /\ In b2 (p_bgp p2) /\ announces p1 b1 x1 n pr /\ announces p2 b2 x2 n pr /\
    route b1 x1 = route b2 x2 /\ ba_lp b1 <> ba_lp b2.
Proof.
  exists cross_pool_witness.
  destruct (pools_for (fun l => l) cross_pool_witness) as [out|] eqn:E; [|vm_compute in E; discriminate].
  vm_compute in E. injection E as <-.
  eexists. eexists. eexists. eexists. eexists. exists (V4 10), (V4 8), 1, 7.
  split; [reflexivity|]. split; [left; reflexivity|]. split; [right; left; reflexivity|].
  split; [cbn; discriminate|]. split; [left; reflexivity|]. split; [left; reflexivity|].
  split; [|split; [|split]].
  - split; [|split; [left; reflexivity|left; reflexivity]].
    eexists. split; [left; reflexivity|]. vm_compute. reflexivity.
  - split; [|split; [left; reflexivity|left; reflexivity]].
    eexists. split; [right; left; reflexivity|]. vm_compute. reflexivity.
  - vm_compute. reflexivity.
  - cbn. discriminate.
Qed.
