(* Regression of the model: the bgpController BEFORE commit 25c43b3
   ("fix: republish BGP advertisements after closing sessions", F12) is
   [bstep_gen false]: a session closed by syncPeers / SetConfig is not followed
   by updateAds.  On that model PeersForService is not exact. *)
From Coq Require Import List NArith Bool.
From Verif Require Import Model.BgpAds.
Local Open Scope N_scope.

Definition brun_prefix (me : N) (evs : list bev) : bstate := fold_left (bstep_gen false me) evs binit.

Definition f12_adv : badv := {| ba_agg4 := 32; ba_agg6 := 128; ba_lp := 0; ba_comms := []; ba_nodes := [0]; ba_peers := [] |}.
(* peer 0 only on nodes labelled (0,0); the node is relabelled *)
Definition f12_history : list bev :=
  [ BCfg [ {| pc_name := 0; pc_sels := [[(0, 0)]]; pc_attr := 0; pc_ref := 0 |} ];
    BNode 0 [(0, 0)];
    BSet 0 [V4 169090561] [f12_adv];
    BNode 0 [(0, 1)] ].
(* peer 0 is removed from the configuration *)
Definition f12_history_cfg : list bev :=
  [ BCfg [ {| pc_name := 0; pc_sels := []; pc_attr := 0; pc_ref := 0 |} ];
    BSet 0 [V4 169090561] [f12_adv];
    BCfg [] ].

Lemma peers_for_service_prefix_refuted :
  exists me evs svc p, In p (bs_active (brun_prefix me evs) svc) /\ sess_of (brun_prefix me evs) p = None.
Proof. exists 0, f12_history, 0, 0. vm_compute. split; [left; reflexivity|reflexivity]. Qed.

Lemma peers_for_service_prefix_refuted_cfg :
  In 0 (bs_active (brun_prefix 0 f12_history_cfg) 0) /\ sess_of (brun_prefix 0 f12_history_cfg) 0 = None.
Proof. vm_compute. split; [left; reflexivity|reflexivity]. Qed.

(* the same histories on the current model *)
Lemma f12_fixed :
  bs_active (brun 0 f12_history) 0 = [] /\ bs_active (brun 0 f12_history_cfg) 0 = [].
Proof. vm_compute. split; reflexivity. Qed.
