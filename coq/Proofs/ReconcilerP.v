(* Theorems about Model/Reconciler.v over all event sequences. *)
From Coq Require Import List Bool.
From Verif Require Import Model.Reconciler.

Section P.
  Context {C : Type} (ceq : C -> C -> bool).
  Hypothesis ceq_eq : forall x y, ceq x y = true <-> x = y.

  Lemma same_spec m c : same ceq m c = true <-> m = Some c.
  Proof.
    destruct m as [o|]; cbn; [|split; discriminate]. rewrite ceq_eq. split; [intros ->; reflexivity|intros [= ->]; reflexivity].
  Qed.

  (* invariants of every reachable history *)
  Definition inv (pool : bool) (s : hist C) : Prop :=
    if pool then h_memo s = h_accepted s                       (* PoolReconciler: the memo is the last accepted *)
    else forall m, h_memo s = Some m -> h_given s = Some m.    (* ConfigReconciler: a memo is the last given *)

  Lemma inv_init pool : inv pool (@hinit C).
  Proof. destruct pool; cbn; [reflexivity|discriminate]. Qed.

  Lemma inv_step pool s ev : inv pool s -> inv pool (fst (hstep ceq pool s ev)).
  Proof.
    destruct ev as [[c|] h]; unfold hstep, rstep, inv; cbn [fst snd]; [|destruct pool; auto].
    destruct (same ceq (h_memo s) c) eqn:E; [destruct pool; auto|].
    destruct pool, h; cbn; intros I; auto; try congruence; try discriminate.
  Qed.

  Lemma inv_run pool evs : forall s, inv pool s -> inv pool (hrun ceq pool evs s).
  Proof. induction evs as [|ev r IH]; intros s I; cbn; [assumption|]. apply IH, inv_step, I. Qed.

  (* (a) the handler is skipped on a rendered configuration only when that configuration is the
         one it was LAST GIVEN (ConfigReconciler) / LAST ACCEPTED (PoolReconciler) *)
  Theorem skipped_only_when_unchanged pool s c h : inv pool s ->
    o_called (snd (hstep ceq pool s (Some c, h))) = None ->
    if pool then h_accepted s = Some c else h_given s = Some c.
  Proof.
    unfold hstep, rstep, inv. cbn [fst snd]. destruct (same ceq (h_memo s) c) eqn:E.
    - apply same_spec in E. intros I _. destruct pool; [congruence|auto].
    - destruct h; cbn; discriminate.
  Qed.

  Corollary skipped_only_when_unchanged_run pool evs c h :
    let s := hrun ceq pool evs hinit in
    o_called (snd (hstep ceq pool s (Some c, h))) = None ->
    if pool then h_accepted s = Some c else h_given s = Some c.
  Proof. intros s. apply skipped_only_when_unchanged. apply inv_run, inv_init. Qed.

  (* (c) requeue iff the handler was called and answered Error; (d) ForceReload iff it was called
         and answered ReprocessAll; a render failure does neither *)
  Theorem requeue_iff_error pool s r h :
    o_requeue (snd (hstep ceq pool s (r, h))) = true <->
    (o_called (snd (hstep ceq pool s (r, h))) <> None /\ h = HError).
  Proof.
    unfold hstep, rstep. cbn [fst snd]. destruct r as [c|]; [|cbn; split; [discriminate|intros [H _]; contradiction]].
    destruct (same ceq (h_memo s) c); [cbn; split; [discriminate|intros [H _]; contradiction]|].
    destruct h; cbn; split; try discriminate; try (intros [_ H]; discriminate); auto; intros _; split; [discriminate|reflexivity].
  Qed.

  Theorem reload_iff_reprocess pool s r h :
    o_reload (snd (hstep ceq pool s (r, h))) = true <->
    (o_called (snd (hstep ceq pool s (r, h))) <> None /\ h = HReprocessAll).
  Proof.
    unfold hstep, rstep. cbn [fst snd]. destruct r as [c|]; [|cbn; split; [discriminate|intros [H _]; contradiction]].
    destruct (same ceq (h_memo s) c); [cbn; split; [discriminate|intros [H _]; contradiction]|].
    destruct h; cbn; split; try discriminate; try (intros [_ H]; discriminate); auto; intros _; split; [discriminate|reflexivity].
  Qed.

  (* the handler is only ever called with what the current state renders to *)
  Theorem called_with_rendered pool s r h c :
    o_called (snd (hstep ceq pool s (r, h))) = Some c -> r = Some c.
  Proof.
    unfold hstep, rstep. cbn [fst snd]. destruct r as [c'|]; [|cbn; discriminate].
    destruct (same ceq (h_memo s) c'); [cbn; discriminate|]. destruct h; cbn; congruence.
  Qed.

  (* (b) history independence.  ConfigReconciler: after ANY step whose snapshot renders to c and
         that ends without requeue, the configuration last given to the handler is c - whatever
         happened before, exactly what a fresh reconciler would have given. *)
  Theorem config_quiescent_given_is_rendered s c h : inv false s ->
    o_requeue (snd (hstep ceq false s (Some c, h))) = false ->
    h_given (fst (hstep ceq false s (Some c, h))) = Some c.
  Proof.
    unfold hstep, rstep, inv. cbn [fst snd]. destruct (same ceq (h_memo s) c) eqn:E.
    - apply same_spec in E. cbn. auto.
    - destruct h; cbn; auto.
  Qed.

  (*     PoolReconciler: the same for the configuration last ACCEPTED, provided the handler did
         not answer ErrorNoRetry in this step (then the memo keeps the previous configuration
         while the handler has seen the new one: the controller's SetPools answers ErrorNoRetry
         only for a nil pool set, which toConfig never renders). *)
  Theorem pool_quiescent_accepted_is_rendered s c h : inv true s ->
    o_requeue (snd (hstep ceq true s (Some c, h))) = false ->
    (o_called (snd (hstep ceq true s (Some c, h))) = None \/ h <> HErrorNoRetry) ->
    h_accepted (fst (hstep ceq true s (Some c, h))) = Some c /\
    (h_given (fst (hstep ceq true s (Some c, h))) = Some c \/
     o_called (snd (hstep ceq true s (Some c, h))) = None).
  Proof.
    unfold hstep, rstep, inv. cbn [fst snd]. destruct (same ceq (h_memo s) c) eqn:E.
    - apply same_spec in E. cbn. intros I _ _. split; [congruence|auto].
    - destruct h; cbn; intros I R N; try discriminate; auto. destruct N as [N|N]; [discriminate|contradiction].
  Qed.

  (*     ... and it is a real difference: for the PoolReconciler the unrestricted statement fails *)
  Theorem pool_given_not_rendered_after_noretry_refuted (a b : C) : a <> b ->
    exists evs, h_given (hrun ceq true evs hinit) = Some b /\
                (forall o, In o (outs ceq true evs hinit) -> o_requeue o = false) /\
                fst (last evs (None, HSuccess)) = Some a.
  Proof.
    intros Hab. exists [(Some a, HSuccess); (Some b, HErrorNoRetry); (Some a, HSuccess)].
    assert (E1 : ceq a b = false) by (destruct (ceq a b) eqn:E; [apply ceq_eq in E; contradiction|reflexivity]).
    assert (E2 : ceq a a = true) by (apply ceq_eq; reflexivity).
    cbn. unfold hstep, rstep. cbn. rewrite E1. cbn. rewrite E2. cbn. split; [reflexivity|]. split; [|reflexivity].
    intros o [<-|[<-|[<-|[]]]]; reflexivity.
  Qed.

  (* over whole histories: after a run whose last event rendered to c and did not requeue *)
  Corollary config_history_independent evs c h :
    o_requeue (snd (hstep ceq false (hrun ceq false evs hinit) (Some c, h))) = false ->
    h_given (hrun ceq false (evs ++ [(Some c, h)]) hinit) = Some c.
  Proof.
    intros R. unfold hrun. rewrite fold_left_app. cbn [fold_left].
    apply config_quiescent_given_is_rendered; [apply inv_run, inv_init|exact R].
  Qed.

  Corollary pool_history_independent evs c h : h <> HErrorNoRetry ->
    o_requeue (snd (hstep ceq true (hrun ceq true evs hinit) (Some c, h))) = false ->
    h_accepted (hrun ceq true (evs ++ [(Some c, h)]) hinit) = Some c.
  Proof.
    intros N R. unfold hrun. rewrite fold_left_app. cbn [fold_left].
    apply pool_quiescent_accepted_is_rendered; [apply inv_run, inv_init|exact R|right; exact N].
  Qed.

  (* a fresh reconciler gives the handler what the snapshot renders to *)
  Theorem fresh_gives_rendered pool c h : o_called (snd (hstep ceq pool hinit (Some c, h))) = Some c.
  Proof. unfold hstep, rstep. cbn. destruct h; reflexivity. Qed.
End P.
