(* Coherence of the allocator's derived maps with [allocated] (C11: memory =
   rebuild): definition, preserved by Unassign and by the unconditional assign. *)
From Coq Require Import List NArith ZArith Bool Lia Permutation.
From Verif Require Import Model.Net Model.Alloc Model.AllocMaps Proofs.NetP Proofs.AllocP
  Proofs.AllocMapsBaseP Proofs.AllocMapsP.
Import ListNotations.
Local Open Scope N_scope.

(* number of allocations recorded under pool name n that hold address x *)
Definition users (a : st) (n : poolid) (x : ip) : Z :=
  Z.of_nat (length (filter (fun e => (a_pool (snd e) =? n) && mem_ip x (a_ips (snd e))) (allocated a))).

(* the domain: at least one port, no port twice (API server), no address twice
   (Assign: at most two addresses, of different families) *)
Definition AllocOk (al : alloc) : Prop := a_ports al <> [] /\ NoDup (a_ports al) /\ NoDup (a_ips al).
Definition AllocsOk (a : st) : Prop := forall e, In e (allocated a) -> AllocOk (snd e).

(* every derived map equals what is rebuilt from [allocated] *)
Record MCoh (m : mstate) : Prop := {
  (* sharingKeyForIP[x] is the key of every service holding x; absent when nobody holds x *)
  coh_key_some : forall x e, In e (tenants (abs m) x) -> key_of m x = Some (a_key (snd e));
  coh_key_none : forall x, tenants (abs m) x = [] -> key_of m x = None;
  (* portsInUse[x][p] = t exactly when t holds x and has port p *)
  coh_ports : forall x p t, owner m x p = Some t <->
                exists al, In (t, al) (m_alloc m) /\ In x (a_ips al) /\ In p (a_ports al);
  (* servicesOnIP[x] is the set of services holding x *)
  coh_svcs : forall x t, In t (svcs_on m x) <-> exists al, In (t, al) (m_alloc m) /\ In x (a_ips al);
  (* poolIPsInUse[n][x] is the number of allocations under pool name n holding x; no zero entries *)
  coh_count : forall n x, count m n x = nz (users (abs m) n x);
  coh_use_keys : forall n, NoDup (map fst (use_of m n));
  (* poolIPV4InUse / poolIPV6InUse: the same counts, for the addresses of their family only *)
  coh_count4 : forall n x, aget ip_eqb x (use4_of m n) = if is4 x then nz (users (abs m) n x) else None;
  coh_count6 : forall n x, aget ip_eqb x (use6_of m n) = if is6 x then nz (users (abs m) n x) else None;
  coh_use4_keys : forall n, NoDup (map fst (use4_of m n));
  coh_use6_keys : forall n, NoDup (map fst (use6_of m n));
  (* neither the "incoherent state" panic nor a write to a nil map was reached *)
  coh_nopanic : m_panic m = false
}.

Definition MInv (m : mstate) : Prop := MCoh m /\ Inv (abs m) /\ AllocsOk (abs m).

Lemma MCoh_init : MCoh m_init.
Proof.
  constructor; try reflexivity.
  - intros x e [].
  - intros x p t. split; [discriminate|]. intros [al [[] _]].
  - intros x t. split; [intros []|]. intros [al [[] _]].
  - intros n. constructor.
  - intros n x. destruct (is4 x); reflexivity.
  - intros n x. destruct (is6 x); reflexivity.
  - intros n. constructor.
  - intros n. constructor.
Qed.

Lemma MInv_init : MInv m_init.
Proof. split; [exact MCoh_init|]. split; [exact Inv_init|]. intros e []. Qed.

(* ---------- facts about the abstract side ---------- *)
Lemma keys_functional (l : list (svc * alloc)) s al1 al2 :
  NoDup (map fst l) -> In (s, al1) l -> In (s, al2) l -> al1 = al2.
Proof.
  intros Hnd H1 H2. apply (find_svc_In l s al1 Hnd) in H1. apply (find_svc_In l s al2 Hnd) in H2. congruence.
Qed.

Lemma skey_eta (k1 k2 : skey) : sharing k1 = sharing k2 -> backend k1 = backend k2 -> k1 = k2.
Proof. destruct k1, k2; cbn; intros -> ->; reflexivity. Qed.

Lemma shareable_key x y : shareable x y -> a_key x = a_key y.
Proof. intros (_ & H1 & H2 & _). apply skey_eta; assumption. Qed.

Lemma aget_get (l : list (svc * alloc)) s : aget N.eqb s l = option_map snd (find (fun e => fst e =? s) l).
Proof. reflexivity. Qed.

Lemma filter_length_remove (P : svc * alloc -> bool) l s al :
  NoDup (map fst l) -> In (s, al) l ->
  length (filter P l) = (length (filter P (remove_svc s l)) + (if P (s, al) then 1 else 0))%nat.
Proof.
  induction l as [|[s0 a0] l IH]; intros Hnd Hin; [destruct Hin|].
  cbn in Hnd. inversion Hnd as [|? ? Hn Hd]; subst. cbn [remove_svc filter fst].
  destruct (N.eqb_spec s0 s) as [->|Hne]; cbn [negb filter].
  - assert (a0 = al).
    { destruct Hin as [H|H]; [congruence|]. exfalso. apply Hn. apply in_map_iff. exists (s, al). auto. }
    subst a0.
    assert (Hrm : remove_svc s l = l).
    { apply (adel_notin N.eqb). apply (aget_None_notin N.eqb N.eqb_eq). exact Hn. }
    unfold remove_svc in Hrm. rewrite Hrm. destruct (P (s, al)); cbn; lia.
  - destruct Hin as [H|Hin]; [congruence|]. specialize (IH Hd Hin). unfold remove_svc in IH.
    destruct (P (s0, a0)); cbn [length]; rewrite IH; reflexivity.
Qed.

Lemma users_remove a s al n x :
  NoDup (map fst (allocated a)) -> In (s, al) (allocated a) ->
  users a n x = (users (unassign a s) n x + (if (a_pool al =? n)%N && mem_ip x (a_ips al) then 1 else 0))%Z.
Proof.
  intros Hnd Hin. unfold users. cbn [unassign allocated].
  rewrite (filter_length_remove _ _ s al Hnd Hin). cbn [snd].
  destruct ((a_pool al =? n) && mem_ip x (a_ips al)); lia.
Qed.

Lemma users_nonneg a n x : (0 <= users a n x)%Z.
Proof. unfold users. lia. Qed.

Lemma users_pos a e x : In e (allocated a) -> In x (a_ips (snd e)) -> (0 < users a (a_pool (snd e)) x)%Z.
Proof.
  intros He Hx. unfold users.
  assert (In e (filter (fun e0 => (a_pool (snd e0) =? a_pool (snd e)) && mem_ip x (a_ips (snd e0))) (allocated a))).
  { apply filter_In. split; [exact He|]. rewrite N.eqb_refl. apply mem_ip_In. exact Hx. }
  destruct (filter _ _); [destruct H|]. cbn. lia.
Qed.

Lemma cnt_users m n x : MCoh m -> cnt x (use_of m n) = users (abs m) n x.
Proof.
  intros HC. unfold cnt. fold (count m n x). rewrite (coh_count m HC). unfold nz.
  destruct (users (abs m) n x =? 0)%Z eqn:E; [|reflexivity]. apply Z.eqb_eq in E. congruence.
Qed.

Lemma nz_some c : (0 < c)%Z -> nz c = Some c.
Proof. intros H. unfold nz. destruct (c =? 0)%Z eqn:E; [apply Z.eqb_eq in E; lia|reflexivity]. Qed.

Lemma forallb_false_ex {A} (f : A -> bool) l : forallb f l = false -> exists x, In x l /\ f x = false.
Proof.
  induction l as [|y l IH]; cbn; [discriminate|]. intros H. apply andb_false_iff in H. destruct H as [H|H].
  - exists y. auto.
  - destruct (IH H) as [x [H1 H2]]. exists x. auto.
Qed.

Lemma is4_or_is6 x : is4 x = false -> is6 x = true.
Proof. unfold is4, is6. destruct (ip_fam x); cbn; congruence. Qed.

(* presence of the inner family map of a pool under which an address of that family is held *)
Lemma twin_present (sel : ip -> bool) (um : list (poolid * list (ip * Z))) a n (ips : list ip) :
  (forall x, aget ip_eqb x (inner (aget N.eqb n um)) = if sel x then nz (users a n x) else None) ->
  (forall x, In x ips -> (0 < users a n x)%Z) ->
  forallb (fun x => negb (sel x)) ips = true \/ aget N.eqb n um <> None.
Proof.
  intros Hc Hu. destruct (forallb (fun x => negb (sel x)) ips) eqn:E; [left; reflexivity|right].
  apply forallb_false_ex in E. destruct E as [x [Hx Hs]]. apply negb_false_iff in Hs.
  specialize (Hc x). rewrite Hs, (nz_some _ (Hu x Hx)) in Hc.
  destruct (aget N.eqb n um); [discriminate|]. discriminate.
Qed.

(* the count update of a family map, from its coherence *)
Lemma twin_after_unassign (sel : ip -> bool) (got : option Z) (c u u' : Z) (b : bool) x :
  c = (if sel x then u else 0)%Z -> (0 <= u')%Z -> u = (u' + (if b then 1 else 0))%Z ->
  got = (if b then nz (c - (if sel x then 1 else 0))%Z else (if sel x then nz u else None)) ->
  got = if sel x then nz u' else None.
Proof.
  intros -> Hu' -> ->. destruct (sel x), b; try reflexivity; f_equal; lia.
Qed.

Lemma is_nil_true {A} (l : list A) : is_nil l = true <-> l = [].
Proof. destruct l; cbn; split; congruence. Qed.

(* ---------- Unassign ---------- *)
Lemma m_unassign_alloc m s : m_alloc (m_unassign m s) = remove_svc s (m_alloc m).
Proof.
  unfold m_unassign. destruct (aget N.eqb s (m_alloc m)) as [al|] eqn:E.
  - rewrite ufold_alloc. reflexivity.
  - symmetry. apply (adel_notin N.eqb). exact E.
Qed.

Lemma m_unassign_pools m s : m_pools (m_unassign m s) = m_pools m.
Proof.
  unfold m_unassign. destruct (aget N.eqb s (m_alloc m)); [|reflexivity]. rewrite ufold_pools. reflexivity.
Qed.

Lemma abs_m_unassign m s : abs (m_unassign m s) = unassign (abs m) s.
Proof. unfold abs, unassign. rewrite m_unassign_alloc, m_unassign_pools. reflexivity. Qed.

Lemma MCoh_unassign m s : MInv m -> MCoh (m_unassign m s).
Proof.
  intros (HC & HI & HW). pose proof HI as [Hnd Hex].
  pose proof (abs_m_unassign m s) as Habs.
  unfold m_unassign in *. destruct (aget N.eqb s (m_alloc m)) as [al|] eqn:Eg; [|exact HC].
  assert (Hin : In (s, al) (m_alloc m)) by (apply (aget_Some_In N.eqb N.eqb_eq); exact Eg).
  destruct (HW (s, al) Hin) as (Hpne & Hpnd & Hind). cbn [snd] in *.
  set (m0 := with_alloc m (adel N.eqb s (m_alloc m))) in *.
  set (m' := fold_left (unassign_ip s al) (a_ips al) m0) in *.
  (* the maps of m0 are those of m *)
  assert (K0 : forall x, key_of m0 x = key_of m x) by reflexivity.
  assert (P0 : forall x, ports_on m0 x = ports_on m x) by reflexivity.
  assert (S0 : forall x, svcs_on m0 x = svcs_on m x) by reflexivity.
  assert (U0 : forall n, use_of m0 n = use_of m n) by reflexivity.
  assert (C0 : forall n x, count m0 n x = count m n x) by reflexivity.
  (* tenants after the removal *)
  assert (Hten : forall x e, In e (tenants (abs m') x) <-> In e (tenants (abs m) x) /\ fst e <> s).
  { intros x e. rewrite Habs, !In_tenants. cbn [unassign allocated]. rewrite In_remove_svc. tauto. }
  assert (Hal' : forall e, In e (m_alloc m') <-> In e (m_alloc m) /\ fst e <> s).
  { intros e. change (m_alloc m') with (allocated (abs m')). rewrite Habs. cbn. apply In_remove_svc. }
  (* the owner of a port on an address *)
  assert (Hown : forall x p, owner m' x p =
             if mem_ip x (a_ips al) && mem_port p (a_ports al) then None else owner m x p).
  { intros x p. unfold owner, m'. rewrite (ufold_ports s al _ m0 x Hind), P0.
    destruct (mem_ip x (a_ips al)); cbn; [|reflexivity]. apply aget_del_all. }
  (* the departing service owns its ports *)
  assert (Hmine : forall x p, In x (a_ips al) -> In p (a_ports al) -> owner m x p = Some s).
  { intros x p Hx Hp. apply (coh_ports m HC). exists al. auto. }
  (* another tenant has a port that stays *)
  assert (Hstay : forall x e, In x (a_ips al) -> In e (tenants (abs m) x) -> fst e <> s ->
                    is_nil (del_all (a_ports al) (ports_on m x)) = false).
  { intros x e Hx He Hne. apply In_tenants in He. destruct He as [He Hxe].
    destruct (HW e He) as (Hne' & _ & _). destruct (a_ports (snd e)) as [|p ps] eqn:Ep; [congruence|].
    assert (Hsh : shareable (snd e) al).
    { apply (Hex e (s, al) x He Hin Hne Hxe Hx). }
    destruct Hsh as (_ & _ & _ & Hdis).
    assert (Hp : aget port_eqb p (del_all (a_ports al) (ports_on m x)) = Some (fst e)).
    { rewrite aget_del_all. rewrite mem_port_false.
      - apply (coh_ports m HC). exists (snd e). rewrite <- surjective_pairing. rewrite Ep. cbn. auto.
      - apply Hdis. rewrite Ep. left. reflexivity. }
    destruct (del_all (a_ports al) (ports_on m x)); [discriminate|reflexivity]. }
  assert (Hpres : a_ips al = [] \/ present al m0).
  { destruct (a_ips al) as [|x0 r] eqn:Ei; [left; reflexivity|right].
    unfold present. change (m_use m0) with (m_use m).
    pose proof (users_pos (abs m) (s, al) x0 Hin) as Hu. cbn [snd] in Hu. rewrite Ei in Hu. specialize (Hu (or_introl eq_refl)).
    pose proof (coh_count m HC (a_pool al) x0) as Hc. rewrite (nz_some _ Hu) in Hc.
    unfold count, use_of in Hc. destruct (aget N.eqb (a_pool al) (m_use m)); [discriminate|]. discriminate. }
  assert (Hupos : forall x, In x (a_ips al) -> (0 < users (abs m) (a_pool al) x)%Z).
  { intros x Hx. apply (users_pos (abs m) (s, al) x Hin Hx). }
  constructor.
  - (* key present for every remaining tenant *)
    intros x e He. apply Hten in He. destruct He as [He Hne].
    unfold m'. rewrite (ufold_key s al _ m0 x Hind), P0, K0.
    destruct (mem_ip x (a_ips al)) eqn:Hm; cbn.
    + apply mem_ip_In in Hm. rewrite (Hstay x e Hm He Hne). apply (coh_key_some m HC). exact He.
    + apply (coh_key_some m HC). exact He.
  - (* key absent when nobody is left *)
    intros x Hnone. unfold m'. rewrite (ufold_key s al _ m0 x Hind), P0, K0.
    assert (Hall : forall e, In e (tenants (abs m) x) -> fst e = s).
    { intros e He. destruct (N.eq_dec (fst e) s) as [E|E]; [exact E|]. exfalso.
      assert (In e (tenants (abs m') x)) by (apply Hten; tauto). rewrite Hnone in H. destruct H. }
    destruct (tenants (abs m) x) as [|e0 ts] eqn:Et.
    { rewrite (coh_key_none m HC x Et). destruct (_ && _); reflexivity. }
    assert (He0 : In e0 (tenants (abs m) x)) by (rewrite Et; left; reflexivity).
    pose proof (Hall e0 (or_introl eq_refl)) as Es.
    apply In_tenants in He0. destruct He0 as [He0 Hx0]. cbn in He0.
    assert (snd e0 = al).
    { apply (keys_functional (m_alloc m) s); [exact Hnd| |exact Hin]. rewrite <- Es, <- surjective_pairing. exact He0. }
    rewrite H in Hx0. rewrite (mem_ip_true _ _ Hx0). cbn.
    assert (Hnil : del_all (a_ports al) (ports_on m x) = []).
    { apply (nil_iff_aget port_eqb port_eqb_eq). intros p. rewrite aget_del_all.
      destruct (mem_port p (a_ports al)) eqn:Hm; [reflexivity|].
      destruct (aget port_eqb p (ports_on m x)) as [t|] eqn:Eo; [|reflexivity]. exfalso.
      apply (coh_ports m HC) in Eo. destruct Eo as [alt [Ht [Hxt Hpt]]].
      assert (Hte : In (t, alt) (e0 :: ts)) by (rewrite <- Et; apply In_tenants; auto).
      pose proof (Hall _ Hte) as Ets. cbn in Ets. subst t.
      assert (alt = al) by (apply (keys_functional (m_alloc m) s); auto). subst alt.
      apply mem_port_true in Hpt. congruence. }
    rewrite Hnil. reflexivity.
  - (* ports *)
    intros x p t. rewrite Hown. split.
    + intros H. destruct (mem_ip x (a_ips al) && mem_port p (a_ports al)) eqn:Hm; [discriminate|].
      apply (coh_ports m HC) in H. destruct H as [alt [Ht [Hxt Hpt]]].
      exists alt. split; [|auto]. apply Hal'. split; [exact Ht|]. cbn. intros ->.
      assert (alt = al) by (apply (keys_functional (m_alloc m) s); auto). subst alt.
      rewrite (mem_ip_true _ _ Hxt), (mem_port_true _ _ Hpt) in Hm. discriminate.
    + intros [alt [Ht [Hxt Hpt]]]. apply Hal' in Ht. destruct Ht as [Ht Hne]. cbn in Hne.
      destruct (mem_ip x (a_ips al) && mem_port p (a_ports al)) eqn:Hm.
      * exfalso. apply andb_true_iff in Hm. destruct Hm as [H1 H2]. apply mem_ip_In in H1. apply mem_port_In in H2.
        destruct (Hex (t, alt) (s, al) x Ht Hin Hne Hxt H1) as (_ & _ & _ & Hdis). apply (Hdis p Hpt H2).
      * apply (coh_ports m HC). exists alt. auto.
  - (* services *)
    intros x t. unfold m'. rewrite (ufold_svcs s al _ m0 x Hind), S0.
    destruct (mem_ip x (a_ips al)) eqn:Hm.
    + rewrite filter_In, negb_true_iff, N.eqb_neq, (coh_svcs m HC). split.
      * intros [[alt [Ht Hxt]] Hne]. exists alt. split; [|exact Hxt]. apply Hal'. auto.
      * intros [alt [Ht Hxt]]. apply Hal' in Ht. destruct Ht as [Ht Hne]. split; [exists alt; auto|exact Hne].
    + rewrite (coh_svcs m HC). split.
      * intros [alt [Ht Hxt]]. exists alt. split; [|exact Hxt]. apply Hal'. split; [exact Ht|]. cbn. intros ->.
        assert (alt = al) by (apply (keys_functional (m_alloc m) s); auto). subst alt.
        rewrite (mem_ip_true _ _ Hxt) in Hm. discriminate.
      * intros [alt [Ht Hxt]]. apply Hal' in Ht. exists alt. tauto.
  - (* counts *)
    intros n x. rewrite Habs. unfold m'. rewrite (ufold_count s al _ m0 n x Hind Hpres), U0, C0.
    pose proof (users_remove (abs m) s al n x Hnd Hin) as Hu.
    rewrite (cnt_users m n x HC), (coh_count m HC).
    rewrite (N.eqb_sym n (a_pool al)). destruct ((a_pool al =? n) && mem_ip x (a_ips al)).
    + f_equal. lia.
    + f_equal. lia.
  - (* keys of the count maps *)
    intros n. unfold m'. apply ufold_keys; [exact Hpres|]. rewrite U0. apply (coh_use_keys m HC).
  - (* poolIPV4InUse *)
    intros n x. rewrite Habs. unfold use4_of, m'. rewrite ufold_use4. change (m_use4 m0) with (m_use4 m).
    rewrite (uu_fold_count _ _ _ _ n x Hind (twin_present is4 (m_use4 m) (abs m) (a_pool al) (a_ips al) (coh_count4 m HC (a_pool al)) Hupos)).
    apply (twin_after_unassign is4 _ (cnt x (use4_of m n)) (users (abs m) n x) _ ((a_pool al =? n) && mem_ip x (a_ips al)) x).
    + unfold cnt. rewrite (coh_count4 m HC). destruct (is4 x); [|reflexivity]. unfold nz.
      destruct (users (abs m) n x =? 0)%Z eqn:E; [apply Z.eqb_eq in E; congruence|reflexivity].
    + apply users_nonneg.
    + apply (users_remove (abs m) s al n x Hnd Hin).
    + rewrite (N.eqb_sym n (a_pool al)). fold (use4_of m n). destruct ((a_pool al =? n) && mem_ip x (a_ips al)); [reflexivity|].
      apply (coh_count4 m HC).
  - (* poolIPV6InUse *)
    intros n x. rewrite Habs. unfold use6_of, m'. rewrite ufold_use6. change (m_use6 m0) with (m_use6 m).
    rewrite (uu_fold_count _ _ _ _ n x Hind (twin_present is6 (m_use6 m) (abs m) (a_pool al) (a_ips al) (coh_count6 m HC (a_pool al)) Hupos)).
    apply (twin_after_unassign is6 _ (cnt x (use6_of m n)) (users (abs m) n x) _ ((a_pool al =? n) && mem_ip x (a_ips al)) x).
    + unfold cnt. rewrite (coh_count6 m HC). destruct (is6 x); [|reflexivity]. unfold nz.
      destruct (users (abs m) n x =? 0)%Z eqn:E; [apply Z.eqb_eq in E; congruence|reflexivity].
    + apply users_nonneg.
    + apply (users_remove (abs m) s al n x Hnd Hin).
    + rewrite (N.eqb_sym n (a_pool al)). fold (use6_of m n). destruct ((a_pool al =? n) && mem_ip x (a_ips al)); [reflexivity|].
      apply (coh_count6 m HC).
  - intros n. unfold use4_of, m'. rewrite ufold_use4. change (m_use4 m0) with (m_use4 m). apply uu_fold_keys.
    + apply (twin_present is4 (m_use4 m) (abs m) (a_pool al) (a_ips al) (coh_count4 m HC (a_pool al)) Hupos).
    + apply (coh_use4_keys m HC).
  - intros n. unfold use6_of, m'. rewrite ufold_use6. change (m_use6 m0) with (m_use6 m). apply uu_fold_keys.
    + apply (twin_present is6 (m_use6 m) (abs m) (a_pool al) (a_ips al) (coh_count6 m HC (a_pool al)) Hupos).
    + apply (coh_use6_keys m HC).
  - (* no panic *)
    unfold m'. apply ufold_panic; [exact Hind|exact Hpres|exact (coh_nopanic m HC)| |].
    + intros x Hx. rewrite P0. apply del_panics_false; [exact Hpnd|]. intros p Hp. apply (Hmine x p Hx Hp).
    + intros x Hx. change (m_use4 m0) with (m_use4 m). change (m_use6 m0) with (m_use6 m).
      destruct (is4 x) eqn:E4.
      * pose proof (coh_count4 m HC (a_pool al) x) as Hc. rewrite E4, (nz_some _ (Hupos x Hx)) in Hc.
        unfold use4_of in Hc. destruct (aget N.eqb (a_pool al) (m_use4 m)); [discriminate|discriminate].
      * pose proof (coh_count6 m HC (a_pool al) x) as Hc. rewrite (is4_or_is6 x E4), (nz_some _ (Hupos x Hx)) in Hc.
        unfold use6_of in Hc. destruct (aget N.eqb (a_pool al) (m_use6 m)); [discriminate|discriminate].
Qed.

Lemma AllocsOk_unassign a s : AllocsOk a -> AllocsOk (unassign a s).
Proof. intros H e He. cbn in He. apply In_remove_svc in He. apply H. tauto. Qed.

Lemma MInv_unassign m s : MInv m -> MInv (m_unassign m s).
Proof.
  intros H. split; [apply MCoh_unassign; exact H|]. rewrite abs_m_unassign. destruct H as (_ & HI & HW).
  split; [apply Inv_unassign; exact HI|apply AllocsOk_unassign; exact HW].
Qed.

(* ---------- assign (unconditional) ---------- *)
(* the caller's obligation ("Caller must ensure that this call is safe"): the new
   allocation may share every address with the services already on it *)
Definition compat (l : list (svc * alloc)) (s : svc) (al : alloc) : Prop :=
  forall e x, In e l -> fst e <> s -> In x (a_ips al) -> In x (a_ips (snd e)) -> shareable (snd e) al.

Lemma compat_remove l s al : compat l s al -> compat (remove_svc s l) s al.
Proof. intros H e x He. apply In_remove_svc in He. apply H. tauto. Qed.

Lemma m_assign_alloc m s al : m_alloc (m_assign m s al) = (s, al) :: remove_svc s (m_alloc m).
Proof.
  unfold m_assign. rewrite afold_alloc. cbn [with_alloc m_alloc]. rewrite m_unassign_alloc.
  unfold aset. f_equal. apply (adel_adel N.eqb).
Qed.

Lemma m_assign_pools m s al : m_pools (m_assign m s al) = m_pools m.
Proof. unfold m_assign. rewrite afold_pools. cbn [with_alloc m_pools]. apply m_unassign_pools. Qed.

Lemma abs_m_assign m s al : abs (m_assign m s al) = do_assign (abs m) s al.
Proof. unfold abs, do_assign. rewrite m_assign_alloc, m_assign_pools. reflexivity. Qed.

Lemma Inv_cons a s al :
  Inv a -> compat (allocated a) s al -> Inv (do_assign a s al).
Proof.
  intros [Hnd Hex] Hc. split; [apply NoDup_do_assign; exact Hnd|].
  intros e1 e2 x H1 H2 Hne Hx1 Hx2. cbn in H1, H2.
  destruct H1 as [H1|H1], H2 as [H2|H2]; subst; cbn in *.
  - congruence.
  - apply In_remove_svc in H2. apply shareable_sym. apply (Hc e2 x); tauto.
  - apply In_remove_svc in H1. apply (Hc e1 x); tauto.
  - apply In_remove_svc in H1. apply In_remove_svc in H2. apply (Hex e1 e2 x); tauto.
Qed.

Lemma AllocsOk_do_assign a s al : AllocsOk a -> AllocOk al -> AllocsOk (do_assign a s al).
Proof.
  intros H Hal e [<-|He]; [exact Hal|]. apply In_remove_svc in He. apply H. tauto.
Qed.

Lemma users_cons a s al n x :
  users {| s_pools := s_pools a; allocated := (s, al) :: allocated a |} n x =
  (users a n x + (if (a_pool al =? n)%N && mem_ip x (a_ips al) then 1 else 0))%Z.
Proof.
  unfold users. cbn [allocated filter snd]. destruct ((a_pool al =? n) && mem_ip x (a_ips al)); cbn [length]; lia.
Qed.

(* assign onto a state that does not record s *)
Lemma MCoh_assign_fresh m s al :
  MInv m -> aget N.eqb s (m_alloc m) = None -> AllocOk al -> compat (m_alloc m) s al ->
  MCoh (fold_left (assign_ip s al) (a_ips al) (with_alloc m ((s, al) :: m_alloc m))).
Proof.
  intros (HC & HI & HW) Hfresh (Hpne & Hpnd & Hind) Hcomp. pose proof HI as [Hnd Hex].
  set (m0 := with_alloc m ((s, al) :: m_alloc m)).
  set (m' := fold_left (assign_ip s al) (a_ips al) m0).
  assert (Hal' : m_alloc m' = (s, al) :: m_alloc m) by (unfold m'; rewrite afold_alloc; reflexivity).
  assert (Hpl' : m_pools m' = m_pools m) by (unfold m'; rewrite afold_pools; reflexivity).
  assert (Hnotin : forall alt, ~ In (s, alt) (m_alloc m)).
  { intros alt H. apply (aget_None_notin N.eqb N.eqb_eq) in Hfresh. apply Hfresh. apply in_map_iff. exists (s, alt). auto. }
  assert (Hten : forall x e, In e (tenants (abs m') x) <->
                   (e = (s, al) /\ In x (a_ips al)) \/ In e (tenants (abs m) x)).
  { intros x e. rewrite !In_tenants. unfold abs. cbn [allocated]. rewrite Hal'. cbn [In]. split.
    - intros [[<-|H] Hx]; [left; auto|right; auto].
    - intros [[-> Hx]|[H Hx]]; [split; [left; reflexivity|exact Hx]|split; [right; exact H|exact Hx]]. }
  assert (Hown : forall x p, owner m' x p =
             if mem_ip x (a_ips al) && mem_port p (a_ports al) then Some s else owner m x p).
  { intros x p. unfold owner, m'. rewrite (afold_ports s al _ m0 x Hind).
    change (ports_on m0 x) with (ports_on m x).
    destruct (mem_ip x (a_ips al)); cbn; [|reflexivity]. apply aget_add_ports. }
  assert (Ha' : abs m' = {| s_pools := s_pools (abs m); allocated := (s, al) :: allocated (abs m) |}).
  { unfold abs. rewrite Hal', Hpl'. reflexivity. }
  constructor.
  - intros x e He. apply Hten in He. unfold m'. rewrite (afold_key s al _ m0 x Hind).
    change (key_of m0 x) with (key_of m x).
    destruct He as [[-> Hx]|He].
    + rewrite (mem_ip_true _ _ Hx). reflexivity.
    + destruct (mem_ip x (a_ips al)) eqn:Hm; [|apply (coh_key_some m HC); exact He].
      apply mem_ip_In in Hm. apply In_tenants in He. destruct He as [He Hxe]. cbn in He. f_equal. symmetry.
      apply shareable_key. apply (Hcomp e x He); auto.
      intros Es. apply (Hnotin (snd e)). rewrite <- Es, <- surjective_pairing. exact He.
  - intros x Hnone. unfold m'. rewrite (afold_key s al _ m0 x Hind). change (key_of m0 x) with (key_of m x).
    destruct (mem_ip x (a_ips al)) eqn:Hm.
    + exfalso. apply mem_ip_In in Hm. assert (In (s, al) (tenants (abs m') x)) by (apply Hten; left; auto).
      rewrite Hnone in H. destruct H.
    + apply (coh_key_none m HC). destruct (tenants (abs m) x) as [|e0 ts] eqn:Et; [reflexivity|]. exfalso.
      assert (In e0 (tenants (abs m') x)) by (apply Hten; right; rewrite Et; left; reflexivity).
      rewrite Hnone in H. destruct H.
  - intros x p t. rewrite Hown, Hal'. split.
    + intros H. destruct (mem_ip x (a_ips al) && mem_port p (a_ports al)) eqn:Hm.
      * injection H as <-. apply andb_true_iff in Hm. destruct Hm as [H1 H2].
        apply mem_ip_In in H1. apply mem_port_In in H2. exists al. split; [left; reflexivity|auto].
      * apply (coh_ports m HC) in H. destruct H as [alt [Ht Hr]]. exists alt. split; [right; exact Ht|exact Hr].
    + intros [alt [[Ht|Ht] [Hxt Hpt]]].
      * injection Ht as <- <-. rewrite (mem_ip_true _ _ Hxt), (mem_port_true _ _ Hpt). reflexivity.
      * assert (Hne : t <> s) by (intros ->; exact (Hnotin alt Ht)).
        destruct (mem_ip x (a_ips al) && mem_port p (a_ports al)) eqn:Hm.
        -- exfalso. apply andb_true_iff in Hm. destruct Hm as [H1 H2]. apply mem_ip_In in H1. apply mem_port_In in H2.
           destruct (Hcomp (t, alt) x Ht Hne H1 Hxt) as (_ & _ & _ & Hdis). apply (Hdis p Hpt H2).
        -- apply (coh_ports m HC). exists alt. auto.
  - intros x t. rewrite Hal'. unfold m'. rewrite (afold_svcs s al _ m0 x Hind). change (svcs_on m0 x) with (svcs_on m x).
    destruct (mem_ip x (a_ips al)) eqn:Hm.
    + rewrite In_add_svc, (coh_svcs m HC). apply mem_ip_In in Hm. split.
      * intros [->|[alt [Ht Hxt]]]; [exists al; split; [left; reflexivity|exact Hm]|exists alt; split; [right; exact Ht|exact Hxt]].
      * intros [alt [[Ht|Ht] Hxt]]; [injection Ht as <- <-; left; reflexivity|right; exists alt; auto].
    + rewrite (coh_svcs m HC). split.
      * intros [alt [Ht Hxt]]. exists alt. split; [right; exact Ht|exact Hxt].
      * intros [alt [[Ht|Ht] Hxt]]; [|exists alt; auto]. injection Ht as <- <-.
        rewrite (mem_ip_true _ _ Hxt) in Hm. discriminate.
  - intros n x. unfold m'. rewrite (afold_count s al _ m0 n x Hind).
    change (use_of m0 n) with (use_of m n). change (count m0 n x) with (count m n x).
    assert (Ha : abs (fold_left (assign_ip s al) (a_ips al) m0) =
                 {| s_pools := s_pools (abs m); allocated := (s, al) :: allocated (abs m) |}).
    { unfold abs. fold m'. rewrite Hal', Hpl'. reflexivity. }
    rewrite Ha, users_cons, (cnt_users m n x HC), (coh_count m HC), (N.eqb_sym n (a_pool al)).
    destruct ((a_pool al =? n) && mem_ip x (a_ips al)).
    + symmetry. apply nz_some. pose proof (users_nonneg (abs m) n x). lia.
    + f_equal. lia.
  - intros n. unfold m'. apply afold_keys. change (use_of m0 n) with (use_of m n). apply (coh_use_keys m HC).
  - intros n x. rewrite Ha'. unfold use4_of, m'. rewrite afold_use4. change (m_use4 m0) with (m_use4 m).
    rewrite (ua_fold_count _ _ _ _ n x Hind), users_cons, (N.eqb_sym n (a_pool al)). fold (use4_of m n).
    pose proof (coh_count4 m HC n x) as Hc. unfold cnt. rewrite Hc.
    pose proof (users_nonneg (abs m) n x) as Hu. destruct (is4 x); [|rewrite andb_false_r; reflexivity].
    rewrite andb_true_r. destruct ((a_pool al =? n) && mem_ip x (a_ips al)).
    + unfold nz at 1. destruct (users (abs m) n x =? 0)%Z eqn:E.
      * apply Z.eqb_eq in E. rewrite E. reflexivity.
      * symmetry. apply nz_some. lia.
    + f_equal. lia.
  - intros n x. rewrite Ha'. unfold use6_of, m'. rewrite afold_use6. change (m_use6 m0) with (m_use6 m).
    rewrite (ua_fold_count _ _ _ _ n x Hind), users_cons, (N.eqb_sym n (a_pool al)). fold (use6_of m n).
    pose proof (coh_count6 m HC n x) as Hc. unfold cnt. rewrite Hc.
    pose proof (users_nonneg (abs m) n x) as Hu. destruct (is6 x); [|rewrite andb_false_r; reflexivity].
    rewrite andb_true_r. destruct ((a_pool al =? n) && mem_ip x (a_ips al)).
    + unfold nz at 1. destruct (users (abs m) n x =? 0)%Z eqn:E.
      * apply Z.eqb_eq in E. rewrite E. reflexivity.
      * symmetry. apply nz_some. lia.
    + f_equal. lia.
  - intros n. unfold use4_of, m'. rewrite afold_use4. apply ua_fold_keys. apply (coh_use4_keys m HC).
  - intros n. unfold use6_of, m'. rewrite afold_use6. apply ua_fold_keys. apply (coh_use6_keys m HC).
  - unfold m'. rewrite afold_panic. exact (coh_nopanic m HC).
Qed.

Lemma MInv_assign m s al :
  MInv m -> AllocOk al -> compat (m_alloc m) s al -> MInv (m_assign m s al).
Proof.
  intros HM Hal Hc. pose proof (MInv_unassign m s HM) as HM1.
  split.
  - unfold m_assign. set (m1 := m_unassign m s) in *.
    assert (Hfresh : aget N.eqb s (m_alloc m1) = None).
    { unfold m1. rewrite m_unassign_alloc. apply (aget_adel_eq N.eqb). }
    assert (aset N.eqb s al (m_alloc m1) = (s, al) :: m_alloc m1) as ->.
    { unfold aset. f_equal. apply (adel_notin N.eqb). exact Hfresh. }
    apply MCoh_assign_fresh; auto. unfold m1. rewrite m_unassign_alloc. apply compat_remove. exact Hc.
  - rewrite abs_m_assign. destruct HM as (_ & HI & HW). split.
    + apply Inv_cons; assumption.
    + apply AllocsOk_do_assign; assumption.
Qed.
