(* The sequence numbers the template function `counter` assigns (FrrRender.number /
   bump) increase strictly, in text order, within every prefix-list (afi, name) and
   every route-map: FRR's evaluation order (by sequence number) is the text order
   the semantics of Model/FrrSem.v uses. *)
From Coq Require Import String NArith Bool List Sorted Lia.
From Verif Require Import Model.FrrSpec Proofs.FrrSortP Proofs.FrrListsP Proofs.FrrShapeP Proofs.FrrP Proofs.FrrSemP
     Proofs.FrrOutP Proofs.FrrExactP.
Import ListNotations.
Open Scope string_scope.

(* ---- strings: right cancellation ---- *)
Lemma length_app a b : String.length (a ++ b) = String.length a + String.length b.
Proof. induction a as [|c a IH]; simpl; [reflexivity|]. rewrite IH. reflexivity. Qed.

Lemma app_inj_r a : forall b x, a ++ x = b ++ x -> a = b.
Proof.
  induction a as [|c a IH]; intros [|d b] x H; simpl in *.
  - reflexivity.
  - exfalso. assert (L: String.length x = String.length (String d (b ++ x))) by (rewrite <- H; reflexivity).
    simpl in L. rewrite length_app in L. lia.
  - exfalso. assert (L: String.length (String c (a ++ x)) = String.length x) by (rewrite H; reflexivity).
    simpl in L. rewrite length_app in L. lia.
  - inversion H. f_equal. eapply IH; eassumption.
Qed.

(* ---- the counter table ---- *)
Fixpoint cget (name : string) (cnt : list (string * N)) : N :=
  match cnt with
  | [] => 0%N
  | (k, v) :: r => if String.eqb k name then v else cget name r
  end.

Lemma bump_fst name cnt : fst (bump name cnt) = N.succ (cget name cnt).
Proof.
  induction cnt as [|[k v] r IH]; simpl; [reflexivity|].
  destruct (String.eqb k name); [reflexivity|]. destruct (bump name r) as [n r'] eqn:E. simpl in *. exact IH.
Qed.

Lemma bump_snd name cnt k : cget k (snd (bump name cnt)) = if String.eqb name k then N.succ (cget name cnt) else cget k cnt.
Proof.
  induction cnt as [|[k' v] r IH]; simpl.
  - rewrite String.eqb_sym. destruct (String.eqb name k) eqn:E; [|reflexivity]. reflexivity.
  - destruct (String.eqb k' name) eqn:E; simpl.
    + apply String.eqb_eq in E. subst k'. destruct (String.eqb name k); reflexivity.
    + destruct (bump name r) as [n r'] eqn:E2. simpl in *. destruct (String.eqb k' k) eqn:E3.
      * apply String.eqb_eq in E3. subst k'. rewrite String.eqb_sym, E. reflexivity.
      * exact IH.
Qed.

(* ---- strictly increasing lists bounded below ---- *)
Definition inc_above (b : N) (l : list N) : Prop := increasing l = true /\ forall y, In y l -> (b < y)%N.

Lemma inc_above_cons b x l : (b < x)%N -> inc_above x l -> inc_above b (x :: l).
Proof.
  intros Hb [Hi Ha]. split.
  - simpl. destruct l as [|y l']; [reflexivity|]. rewrite Hi. assert (x < y)%N by (apply Ha; left; reflexivity).
    apply N.ltb_lt in H. rewrite H. reflexivity.
  - intros y [<-|Hy]; [assumption|]. specialize (Ha y Hy). lia.
Qed.

Lemma inc_above_weaken b b' l : (b <= b')%N -> inc_above b' l -> inc_above b l.
Proof. intros Hb [Hi Ha]. split; [assumption|]. intros y Hy. specialize (Ha y Hy). lia. Qed.

(* the sequence numbers given to the items of a class P, all of which use the counter kappa *)
Definition seqs_of (P : item -> bool) (its : list item) : list N :=
  flat_map (fun it => if P it then [match it with IRm _ s _ _ _ _ => s | IPl _ _ s _ _ => s end] else []) its.

Lemma P_set_seq_dummy : True. Proof. exact I. Qed.

Lemma number_increasing (P : item -> bool) kappa :
  (forall it n, P (set_seq it n) = P it) ->
  forall l cnt, (forall sp it, In (sp, it) l -> P it = true -> sp = Counter kappa) ->
  inc_above (cget kappa cnt) (seqs_of P (number l cnt)).
Proof.
  intros HP l. induction l as [|[sp it] r IH]; intros cnt Hc; simpl.
  - split; [reflexivity|intros y []].
  - assert (Hr: forall sp' it', In (sp', it') r -> P it' = true -> sp' = Counter kappa) by (intros; eapply Hc; [right; eassumption|assumption]).
    destruct sp as [n|nm].
    + (* fixed: not in the class *)
      simpl. rewrite HP. destruct (P it) eqn:E; [specialize (Hc _ _ (or_introl eq_refl) E); discriminate|]. simpl. apply IH; assumption.
    + destruct (bump nm cnt) as [n cnt'] eqn:B. simpl. rewrite HP.
      pose proof (bump_fst nm cnt) as F. pose proof (bump_snd nm cnt kappa) as S2. rewrite B in F, S2. simpl in F, S2.
      destruct (P it) eqn:E; simpl.
      * assert (nm = kappa) by (specialize (Hc _ _ (or_introl eq_refl) E); inversion Hc; reflexivity). subst nm.
        rewrite String.eqb_refl in S2.
        replace (match set_seq it n with IRm _ s _ _ _ _ => s | IPl _ _ s _ _ => s end) with n by (destruct it; reflexivity).
        apply inc_above_cons; [lia|]. rewrite F, <- S2. apply IH; assumption.
      * eapply inc_above_weaken; [|apply IH; assumption]. rewrite S2. destruct (String.eqb nm kappa) eqn:E2; [|lia].
        apply String.eqb_eq in E2. subst. lia.
Qed.

(* items of a class all of which carry a fixed number *)
Lemma number_fixed (P : item -> bool) f :
  (forall it n, P (set_seq it n) = P it) ->
  forall l cnt, (forall sp it, In (sp, it) l -> P it = true -> sp = Fixed f) ->
  seqs_of P (number l cnt) = map (fun _ => f) (filter P (map snd l)).
Proof.
  intros HP l. induction l as [|[sp it] r IH]; intros cnt Hc; simpl; [reflexivity|].
  assert (Hr: forall sp' it', In (sp', it') r -> P it' = true -> sp' = Fixed f) by (intros; eapply Hc; [right; eassumption|assumption]).
  destruct sp as [n|nm].
  - simpl. rewrite HP. destruct (P it) eqn:E; simpl; [|apply IH; assumption].
    assert (n = f) by (specialize (Hc _ _ (or_introl eq_refl) E); inversion Hc; reflexivity). subst.
    rewrite IH by assumption. destruct it; reflexivity.
  - destruct (bump nm cnt) as [n cnt'] eqn:B. simpl. rewrite HP.
    destruct (P it) eqn:E; [specialize (Hc _ _ (or_introl eq_refl) E); discriminate|]. simpl. apply IH; assumption.
Qed.

(* ---- the classes ---- *)
Definition P_pl (a : afi) (name : string) (it : item) : bool :=
  match it with IPl a' n _ _ _ => afi_eqb a a' && String.eqb n name | _ => false end.
Definition P_rm (name : string) (it : item) : bool :=
  match it with IRm n _ _ _ _ _ => String.eqb n name | _ => false end.

Lemma P_pl_set a name it n : P_pl a name (set_seq it n) = P_pl a name it.
Proof. destruct it; reflexivity. Qed.
Lemma P_rm_set name it n : P_rm name (set_seq it n) = P_rm name it.
Proof. destruct it; reflexivity. Qed.

Lemma pl_seqs_class c a name : pl_seqs c a name = seqs_of (P_pl a name) (items c).
Proof.
  unfold pl_seqs, seqs_of. induction (items c) as [|it r IH]; simpl; [reflexivity|]. rewrite IH.
  destruct it; simpl; [reflexivity|]. destruct (afi_eqb a a0 && String.eqb name0 name); reflexivity.
Qed.

Lemma rm_seqs_class c name : rm_seqs c name = seqs_of (P_rm name) (items c).
Proof.
  unfold rm_seqs, seqs_of. induction (items c) as [|it r IH]; simpl; [reflexivity|]. rewrite IH.
  destruct it; simpl; [|reflexivity]. destruct (String.eqb name0 name); reflexivity.
Qed.

(* which counter every emitted line uses *)
Definition spec_ok (n : nconf) (x : seqspec * item) : Prop :=
  match snd x with
  | IPl _ nm _ _ _ => fst x = Counter nm
  | IRm nm _ _ _ _ _ => (fst x = Fixed 20 /\ nm = rm_in (nc_s n)) \/ (fst x = Counter (nid (nc_s n)) /\ nm = rm_out (nc_s n))
  end.

Lemma forall_map_spec {X} n (g : X -> seqspec * item) l : (forall z, spec_ok n (g z)) -> Forall (spec_ok n) (map g l).
Proof. intros H. apply Forall_forall. intros x Hx. apply in_map_iff in Hx as (z & <- & _). apply H. Qed.

Lemma block_spec_ok n : Forall (spec_ok n) (neighbor_filters n).
Proof.
  unfold neighbor_filters.
  repeat (apply Forall_app; split); try (apply forall_map_spec; intros; unfold spec_ok, prop_entry; simpl; auto; fail).
  - constructor; [unfold spec_ok; simpl; auto|constructor].
  - apply Forall_forall. intros x Hx. apply in_flat_map in Hx as (y & _ & H). unfold adv_lines in H. rewrite !in_app_iff in H.
    destruct H as [H|[H|[H|H]]].
    + destruct (N.eqb (ac_lp y) 0); [contradiction|]. destruct H as [<-|[]]. reflexivity.
    + apply in_map_iff in H as (z & <- & _). reflexivity.
    + apply in_map_iff in H as (z & <- & _). reflexivity.
    + destruct H as [<-|[]]. reflexivity.
  - destruct (nc_has4 n); constructor; [reflexivity|constructor].
  - destruct (nc_has6 n); constructor; [reflexivity|constructor].
  - constructor; [unfold spec_ok; simpl; auto|]. constructor; [unfold spec_ok; simpl; auto|constructor].
Qed.

Lemma filters_spec rs sp it : In (sp, it) (filters_of rs) -> exists n, In n (all_nbrs rs) /\ spec_ok n (sp, it).
Proof.
  unfold filters_of. intros H. apply in_flat_map in H as (r & Hr & H). apply in_flat_map in H as (n & Hn & H).
  exists n. split; [apply all_nbrs_in; exists r; auto|]. exact (proj1 (Forall_forall _ _) (block_spec_ok n) _ H).
Qed.

(* prefix-lists: for every session set *)
Theorem pl_seqs_increasing S c a name : render S = Some c -> increasing (pl_seqs c a name) = true.
Proof.
  intros Hr. destruct (render_routers _ _ Hr) as (rs & Hc & _ & Hi). rewrite pl_seqs_class, Hi.
  apply (number_increasing (P_pl a name) name (P_pl_set a name) (filters_of rs) []).
  intros sp it Hin HP. destruct (filters_spec _ _ _ Hin) as (n & _ & Hs). unfold spec_ok in Hs. simpl in Hs.
  destruct it as [|a' nm sq pm q]; [discriminate|]. simpl in HP. apply andb_true_iff in HP as [_ E]. apply String.eqb_eq in E. congruence.
Qed.

(* route-maps: the in-map of a neighbor has exactly one entry *)
Lemma block_in_entries n : rme_of (block n) (rm_in (nc_s n)) = [mk_rme false [] [] false].
Proof.
  assert (Hne: rm_out (nc_s n) <> rm_in (nc_s n)) by (intros E; exact (rm_in_neq_out _ (eq_sym E))).
  apply String.eqb_neq in Hne.
  unfold block, neighbor_filters. rewrite !map_app, !rme_of_app, !map_map. simpl. unfold prop_entry. simpl.
  assert (E0: forall {X} a (f : X -> string) (g : X -> setc) xs,
             rme_of (map (fun x => IRm (rm_out (nc_s n)) 0 true [(a, f x)] [g x] true) xs) (rm_in (nc_s n)) = []).
  { intros X a f g xs. apply rme_of_none. intros n' sq pm m st nx H. apply in_map_iff in H as (x & E & _). inversion E; subst.
    apply String.eqb_neq. exact Hne. }
  rewrite !E0.
  assert (E2: rme_of (map snd (flat_map (adv_lines (nc_s n)) (nc_advs n))) (rm_in (nc_s n)) = []).
  { apply rme_of_none. intros n' sq pm m st nx H. exfalso.
    apply in_map_iff in H as (x & E & Hx). apply in_flat_map in Hx as (y & _ & Hy).
    unfold adv_lines in Hy. rewrite !in_app_iff in Hy. destruct Hy as [Hy|[Hy|[Hy|Hy]]].
    - destruct (N.eqb (ac_lp y) 0); [contradiction|]. destruct Hy as [<-|[]]. discriminate.
    - apply in_map_iff in Hy as (c & <- & _). discriminate.
    - apply in_map_iff in Hy as (c & <- & _). discriminate.
    - destruct Hy as [<-|[]]. discriminate. }
  assert (E3: forall (b : bool) a, rme_of (map snd (if b then [] else [(Counter (pl_allowed (nc_s n)), IPl a (pl_allowed (nc_s n)) 0 false None)])) (rm_in (nc_s n)) = []).
  { intros b a. apply rme_of_none. intros n' sq pm m st nx H. destruct b; simpl in H; [contradiction|]. destruct H as [H|[]]; discriminate. }
  rewrite E2, !E3. unfold rme_of, rm_entries. simpl. rewrite String.eqb_refl, Hne. reflexivity.
Qed.

Lemma rm_in_inj S s t : wf_sessions S -> In s S -> In t S -> rm_in s = rm_in t -> s = t.
Proof.
  intros W Hs Ht E. apply (wf_rm_out _ W); try assumption. unfold rm_in, rm_out in *. apply app_inj_r in E. rewrite E. reflexivity.
Qed.

Lemma rendered_rm_in S c rs s r n : wf_sessions S -> render S = Some c -> create_config S = Some rs -> In s S ->
  In r rs -> mk_router S (rkey s) = Some r -> In n (rc_nbrs r) -> nc_s n = s ->
  rm_entries c (rm_in s) = [mk_rme false [] [] false].
Proof.
  intros W Hr Hc HsS Hrin Hmr Hnin Hns.
  assert (E: rm_entries c (rm_in s) = rme_of (map strip (items c)) (rm_in s))
    by (unfold rme_of; rewrite rm_entries_strip; reflexivity).
  rewrite E. clear E. rewrite (stripped_items _ _ _ Hr Hc). unfold blocks. rewrite rme_of_flat_map.
  destruct (cc_keys _ _ Hc) as [Hk Hmrs].
  assert (Other: forall n', In (nc_s n') S -> nc_s n' <> s -> rme_of (block n') (rm_in s) = []).
  { intros n' HS Hne. apply block_rme_other.
    - intros X. apply Hne. symmetry. eapply rm_in_inj; eauto.
    - intros X. exact (wf_rm_in _ W s (nc_s n') HsS HS X). }
  rewrite (flat_map_only (fun r' => rkey (rc_first r')) _ rs r).
  - rewrite rme_of_flat_map. rewrite (flat_map_only (fun n' => nname (nc_s n')) _ (rc_nbrs r) n).
    + rewrite <- Hns. apply block_in_entries.
    + rewrite (router_nbr_names _ _ _ Hmr). apply sort_s_nodup.
    + assumption.
    + intros n' Hn' Hne. destruct (router_nbr _ _ _ _ W Hmr Hn') as (HS & _ & _).
      apply Other; [assumption|]. intros X. apply Hne. rewrite X, Hns. reflexivity.
  - rewrite Hk. apply sort_s_nodup.
  - assumption.
  - intros r' Hr' Hne. rewrite rme_of_flat_map. apply flat_map_nil. intros n' Hn'.
    destruct (router_nbr _ _ _ _ W (Hmrs r' Hr') Hn') as (HS & K & _).
    apply Other; [assumption|]. intros X. apply Hne. rewrite <- K, X. symmetry. apply (proj2 (mk_router_first _ _ _ Hmr)).
Qed.

Lemma filter_P_rm_length its name : List.length (filter (P_rm name) its) = List.length (rme_of its name).
Proof.
  unfold rme_of, rm_entries; simpl. induction its as [|it r IH]; simpl; [reflexivity|].
  destruct it as [n sq pm m st nx|]; simpl; [|exact IH]. destruct (String.eqb n name); simpl; [f_equal|]; exact IH.
Qed.

(* route-maps, for well-formed session sets *)
Theorem rm_seqs_increasing S c name : wf_sessions S -> render S = Some c ->
  (exists sq pm m st nx, In (IRm name sq pm m st nx) (items c)) -> increasing (rm_seqs c name) = true.
Proof.
  intros W Hr (sq & pm & m & st & nx & Hit). destruct (render_routers _ _ Hr) as (rs & Hc & _ & Hi).
  destruct (block_of_item _ _ _ _ Hr Hc Hit) as (n0 & Hn0 & Hb). simpl in Hb.
  destruct (nbr_session _ _ _ W Hc Hn0) as (HsS & _).
  pose proof (in_block_rm_name n0 _ Hb) as Hnm. simpl in Hnm.
  rewrite rm_seqs_class, Hi.
  assert (Hsess: forall sp it, In (sp, it) (filters_of rs) -> exists n', In (nc_s n') S /\ spec_ok n' (sp, it)).
  { intros sp it Hin. destruct (filters_spec _ _ _ Hin) as (n' & Hn' & Hs). exists n'. split; [apply (nbr_session _ _ _ W Hc Hn')|exact Hs]. }
  destruct Hnm as [(Enm & _)|Enm].
  - (* the in-map: every entry with this name carries the fixed number 20, and there is exactly one *)
    rewrite (number_fixed (P_rm name) 20%N (P_rm_set name)).
    + destruct (session_nbr _ _ _ W Hc HsS) as (r & n & Hrin & Hmr & Hn & Hns & _).
      pose proof (rendered_rm_in S c rs (nc_s n0) r n W Hr Hc HsS Hrin Hmr Hn Hns) as R1. rewrite <- Enm in R1.
      assert (L: List.length (filter (P_rm name) (map snd (filters_of rs))) = 1).
      { rewrite filter_P_rm_length.
        assert (E: rme_of (map snd (filters_of rs)) name = rm_entries c name).
        { assert (X: rm_entries c name = rme_of (map strip (items c)) name) by (unfold rme_of; rewrite rm_entries_strip; reflexivity).
          rewrite X, Hi, number_strip. f_equal. apply map_ext_in. intros x Hx.
          apply in_flat_map in Hx as (r0 & _ & Hx). apply in_flat_map in Hx as (n1 & _ & Hx). symmetry. eapply block_seq0; eassumption. }
        rewrite E, R1. reflexivity. }
      destruct (filter (P_rm name) (map snd (filters_of rs))) as [|x [|y l]]; simpl in L; try discriminate. reflexivity.
    + intros sp it Hin HP. destruct (Hsess _ _ Hin) as (n' & HS' & Hs). unfold spec_ok in Hs. simpl in Hs.
      destruct it as [nm' sq' pm' m' st' nx'|]; [|discriminate]. simpl in HP. apply String.eqb_eq in HP. subst nm'.
      destruct Hs as [[E _]|[_ E]]; [exact E|]. exfalso. rewrite Enm in E. exact (wf_rm_in _ W _ _ HsS HS' E).
  - (* the out-map: every entry with this name uses the counter of that neighbor id *)
    apply (number_increasing (P_rm name) (nid (nc_s n0)) (P_rm_set name) (filters_of rs) []).
    intros sp it Hin HP. destruct (Hsess _ _ Hin) as (n' & HS' & Hs). unfold spec_ok in Hs. simpl in Hs.
    destruct it as [nm' sq' pm' m' st' nx'|]; [|discriminate]. simpl in HP. apply String.eqb_eq in HP. subst nm'.
    destruct Hs as [[_ E]|[E1 E2]].
    + exfalso. rewrite Enm in E. exact (wf_rm_in _ W _ _ HS' HsS (eq_sym E)).
    + rewrite Enm in E2. assert (nc_s n0 = nc_s n') by (apply (wf_rm_out _ W); assumption). rewrite H. exact E1.
Qed.

(* FRR's order (by sequence number) is the text order, for every list and route-map of the rendered configuration *)
Theorem seqs_increasing S c : wf_sessions S -> render S = Some c -> seqs_increasing_b c = true.
Proof.
  intros W Hr. unfold seqs_increasing_b. apply forallb_forall. intros it Hit. destruct it as [nm sq pm m st nx|a nm sq pm q].
  - apply (rm_seqs_increasing S c nm W Hr). eauto 10.
  - apply (pl_seqs_increasing S c a nm Hr).
Qed.

(* ---------- text matching = binary matching on the rendered lines ---------- *)
Lemma nbr_advs_from_S S rs n : create_config S = Some rs -> In n (all_nbrs rs) ->
  exists f advs, mk_neighbor f advs = Some n /\ forall a, In a advs -> In (a_pfx a) (all_pfx S).
Proof.
  intros Hc Hn. apply all_nbrs_in in Hn as (r & Hr & Hn).
  destruct (create_config_router _ _ _ Hc Hr) as (k & _ & Hk).
  destruct (mk_router_spec _ _ _ Hk) as (f & rest & E & _ & _ & _ & Hnb).
  destruct (Hnb n Hn) as (g & more & Eg & Hmk). exists g, (flat_map s_advs (g :: more)). split; [assumption|].
  intros a Ha. apply in_flat_map in Ha as (u & Hu & Ha). unfold all_pfx. apply in_map. apply in_flat_map. exists u. split; [|assumption].
  assert (In u (sessions_with nname (nname g) (f :: rest))) by (rewrite Eg; assumption).
  apply sessions_with_in in H as [H _]. rewrite <- E in H. apply sessions_with_in in H. tauto.
Qed.

Theorem line_prefix_requested S c a nm sq pm q : render S = Some c -> In (IPl a nm sq pm (Some q)) (items c) -> In q (all_pfx S).
Proof.
  intros Hr Hit. destruct (render_routers _ _ Hr) as (rs & Hc & _).
  destruct (block_of_item _ _ _ _ Hr Hc Hit) as (n & Hn & Hb). simpl in Hb.
  destruct (nbr_advs_from_S _ _ _ Hc Hn) as (f & advs & Hmk & Hin).
  apply block_ipl in Hb as [(y & Hy & _ & E & _)|(_ & _ & E & _)]; [|discriminate]. inversion E; subst.
  destruct (proj2 (mk_neighbor_shape _ _ _ Hmk) y Hy) as ((g & Hg & Pg & _) & _).
  apply in_map_iff in Hg as (a0 & <- & Ha0). simpl in Pg. rewrite <- Pg. apply Hin; assumption.
Qed.

Lemma prefix_eqb_true_iff x y : prefix_eqb x y = true <-> x = y.
Proof.
  split.
  - destruct x as [fa ba la], y as [fb bb lb]. unfold prefix_eqb; simpl. intros H.
    apply andb_true_iff in H as [H H3]. apply andb_true_iff in H as [H1 H2].
    apply N.eqb_eq in H2, H3. subst. destruct fa, fb; simpl in H1; try discriminate; reflexivity.
  - intros ->. destruct y as [fa ba la]. unfold prefix_eqb; simpl. rewrite !N.eqb_refl. destruct fa; reflexivity.
Qed.

(* on every prefix line of the rendered configuration, comparing texts (Model/FrrSem.v) is comparing binary prefixes (FRR) *)
Theorem text_match_is_binary_match S c a nm sq pm q p :
  render S = Some c -> route_ok S p -> canonical_texts S p ->
  In (IPl a nm sq pm (Some q)) (items c) -> pfx_eqb q p = prefix_eqb (p_net q) (p_net p).
Proof.
  intros Hr Hok Hcan Hit. pose proof (line_prefix_requested _ _ _ _ _ _ _ Hr Hit) as Hq.
  destruct (pfx_eqb q p) eqn:E.
  - apply pfx_eqb_text in E. rewrite (Hok q Hq E). symmetry. apply prefix_eqb_true_iff. reflexivity.
  - symmetry. destruct (prefix_eqb (p_net q) (p_net p)) eqn:E2; [|reflexivity]. exfalso.
    apply prefix_eqb_true_iff in E2. assert (p_text q = p_text p) by (apply Hcan; simpl; auto).
    apply pfx_eqb_text in H. congruence.
Qed.
