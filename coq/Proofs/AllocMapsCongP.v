(* Model/Alloc.v does not depend on the order in which [allocated] lists the
   recorded allocations: two states with the same pools and the same recorded
   allocations (both satisfying the invariant) answer every operation alike and
   stay equivalent.  Needed because SetPools re-inserts the re-homed services:
   the concrete list is a permutation of the abstract one. *)
From Coq Require Import List NArith ZArith Bool Lia Permutation.
From Verif Require Import Model.Net Model.Alloc Model.AllocMaps Proofs.NetP Proofs.AllocP Proofs.AllocPolicyP
  Proofs.AllocMapsBaseP Proofs.AllocMapsP Proofs.AllocMapsCohP Proofs.AllocMapsRefP.
Import ListNotations.
Local Open Scope N_scope.

Lemma scan_ext fuel f ok ok' : (forall x, ok x = ok' x) -> forall cur, scan fuel f cur ok = scan fuel f cur ok'.
Proof.
  intros H. induction fuel as [|fuel IH]; intros cur; [reflexivity|]. cbn [scan]. rewrite H, IH. reflexivity.
Qed.

Lemma first_some_ext {A B} (f g : A -> option B) l : (forall x, f x = g x) -> first_some f l = first_some g l.
Proof. intros H. induction l as [|x l IH]; [reflexivity|]. cbn. rewrite H, IH. reflexivity. Qed.

Lemma fold_left_ext {A B} (f g : A -> B -> A) l : (forall acc x, f acc x = g acc x) ->
  forall i, fold_left f l i = fold_left g l i.
Proof. intros H. induction l as [|x l IH]; intros i; [reflexivity|]. cbn. rewrite H. apply IH. Qed.

Section Congr.
  Variables a b : st.
  Hypothesis Hp : s_pools a = s_pools b.
  Hypothesis Hc : forall s x ports k, check_sharing a s x ports k = check_sharing b s x ports k.

  Lemma addr_free_c s r p x : addr_free a s r p x = addr_free b s r p x.
  Proof. unfold addr_free. rewrite Hc. reflexivity. Qed.

  Lemma first_free_cidr_c s r p c : first_free_cidr a s r p c = first_free_cidr b s r p c.
  Proof. unfold first_free_cidr. apply scan_ext. intros x. apply addr_free_c. Qed.

  Lemma first_free_c s r p f : first_free a s r p f = first_free b s r p f.
  Proof.
    unfold first_free. apply first_some_ext. intros c. destruct (fam_eqb (pfam c) f); [apply first_free_cidr_c|reflexivity].
  Qed.

  Lemma has_free_c s r p f : has_free a s r p f = has_free b s r p f.
  Proof. unfold has_free. rewrite first_free_c. reflexivity. Qed.

  Lemma pool_offer_c s r p : pool_offer a s r p = pool_offer b s r p.
  Proof. unfold pool_offer. rewrite !first_free_c. reflexivity. Qed.

  Lemma classify_c s r p : classify a s r p = classify b s r p.
  Proof. unfold classify. rewrite !has_free_c. reflexivity. Qed.

  Lemma best_class_c s r l : best_class a s r l = best_class b s r l.
  Proof. unfold best_class. apply fold_left_ext. intros acc p. rewrite classify_c. reflexivity. Qed.

  Lemma offer_ok_c s r p ips : offer_ok a s r p ips = offer_ok b s r p ips.
  Proof.
    unfold offer_ok. f_equal.
    - apply forallb_ext'. intros x _. rewrite addr_free_c. reflexivity.
    - destruct (r_fam r); try reflexivity. destruct ips as [|x [|y t]]; try reflexivity.
      destruct (r_pol r); try reflexivity. rewrite has_free_c. reflexivity.
  Qed.

  Lemma choice_ok_in_c s r l p : choice_ok_in a s r l p = choice_ok_in b s r l p.
  Proof.
    unfold choice_ok_in. rewrite !classify_c, best_class_c. f_equal.
    apply forallb_ext'. intros q _. rewrite classify_c. reflexivity.
  Qed.

  Lemma allocate_spec_c s r c : allocate_spec a s r c = allocate_spec b s r c.
  Proof.
    unfold allocate_spec. rewrite Hp. destruct c as [[pn ips]|].
    - destruct (find_pool (s_pools b) pn); [|reflexivity].
      rewrite offer_ok_c, !choice_ok_in_c, best_class_c. reflexivity.
    - rewrite !best_class_c. reflexivity.
  Qed.

  Lemma assign_check_c s r ips : assign_check a s r ips = assign_check b s r ips.
  Proof.
    unfold assign_check. rewrite Hp. destruct (pool_for _ ips); [|reflexivity].
    rewrite (forallb_ext' (fun x => check_sharing a s x (r_ports r) (r_key r))
                          (fun x => check_sharing b s x (r_ports r) (r_key r))); [reflexivity|].
    intros x _. apply Hc.
  Qed.

  Lemma assign_res_c s r ips : snd (assign a s r ips) = snd (assign b s r ips).
  Proof. unfold assign. rewrite assign_check_c. destruct (assign_check b s r ips); reflexivity. Qed.

  Lemma from_pool_spec_c s r pn c : from_pool_spec a s r pn c = from_pool_spec b s r pn c.
  Proof.
    unfold from_pool_spec. rewrite Hp. destruct (find_pool (s_pools b) pn), c; try reflexivity.
    - rewrite offer_ok_c. reflexivity.
    - rewrite pool_offer_c. reflexivity.
  Qed.

  Lemma additional_spec_c s r have pn c : additional_spec a s r have pn c = additional_spec b s r have pn c.
  Proof.
    unfold additional_spec. rewrite Hp. destruct (find_pool (s_pools b) pn); [|reflexivity].
    destruct c as [x|].
    - rewrite addr_free_c, assign_res_c. reflexivity.
    - rewrite has_free_c, first_free_c. destruct (first_free b s r p _); [|reflexivity].
      rewrite assign_res_c. reflexivity.
  Qed.

  Hypothesis He : forall e, In e (allocated a) <-> In e (allocated b).

  Lemma do_assign_equiv s al : st_equiv (do_assign a s al) (do_assign b s al).
  Proof.
    split; [exact Hp|]. intros e. cbn. rewrite !In_remove_svc, He. tauto.
  Qed.

  Lemma unassign_equiv s : st_equiv (unassign a s) (unassign b s).
  Proof. split; [exact Hp|]. intros e. cbn. rewrite !In_remove_svc, He. tauto. Qed.

  Lemma set_pools_equiv ps : st_equiv (set_pools a ps) (set_pools b ps).
  Proof.
    split; [reflexivity|]. intros e. cbn. rewrite !omap_In. split; intros [x [H1 H2]]; exists x; split; auto; apply He; exact H1.
  Qed.

  Lemma assign_equiv s r ips :
    snd (assign a s r ips) = snd (assign b s r ips) /\ st_equiv (fst (assign a s r ips)) (fst (assign b s r ips)).
  Proof.
    split; [apply assign_res_c|]. unfold assign. rewrite assign_check_c.
    destruct (assign_check b s r ips); cbn [fst]; [apply do_assign_equiv|split; assumption].
  Qed.
End Congr.

Lemma check_sharing_equiv a b : Inv a -> Inv b -> st_equiv a b ->
  forall s x ports k, check_sharing a s x ports k = check_sharing b s x ports k.
Proof.
  intros HA HB [_ He] s x ports k. apply eq_true_iff_eq.
  rewrite (check_sharing_iff a s x ports k HA), (check_sharing_iff b s x ports k HB).
  split; intros H e Hin; apply H; apply He; exact Hin.
Qed.

Lemma get_alloc_equiv a b : Inv a -> Inv b -> st_equiv a b -> forall s, get_alloc a s = get_alloc b s.
Proof.
  intros [HA _] [HB _] [_ He] s.
  destruct (get_alloc a s) as [al|] eqn:Ea, (get_alloc b s) as [bl|] eqn:Eb; try reflexivity.
  - apply (get_alloc_In a s al HA) in Ea. apply He in Ea. apply (get_alloc_In b s al HB) in Ea. congruence.
  - apply (get_alloc_In a s al HA) in Ea. apply He in Ea. apply (get_alloc_In b s al HB) in Ea. congruence.
  - apply (get_alloc_In b s bl HB) in Eb. apply He in Eb. apply (get_alloc_In a s bl HA) in Eb. congruence.
Qed.

(* every operation, whatever choice the implementation reported *)
Theorem step_equiv a b o :
  Inv a -> Inv b -> st_equiv a b ->
  snd (step a o) = snd (step b o) /\ st_equiv (fst (step a o)) (fst (step b o)).
Proof.
  intros HA HB HE. pose proof HE as [Hp He].
  pose proof (check_sharing_equiv a b HA HB HE) as Hc.
  pose proof (get_alloc_equiv a b HA HB HE) as Hg.
  assert (Hasg : forall s r ips, snd (assign a s r ips) = snd (assign b s r ips) /\
                                 st_equiv (fst (assign a s r ips)) (fst (assign b s r ips))).
  { intros. apply assign_equiv; assumption. }
  destruct o as [s r ips|s|s r c|s r pn c|s r have pn c|ps]; cbn [step].
  - apply Hasg.
  - split; [reflexivity|]. apply unassign_equiv; assumption.
  - rewrite <- Hg. destruct (get_alloc a s) as [al|].
    + destruct (Hasg s r (a_ips al)) as [Hr Hs].
      destruct (assign a s r (a_ips al)) as [a1 ra], (assign b s r (a_ips al)) as [b1 rb]. cbn in Hr, Hs. subst rb.
      destruct ra; destruct c as [[pn ips']|]; cbn; try (split; [reflexivity|assumption]).
      destruct (ips_eqb ips' (a_ips al)); cbn; split; auto.
    + rewrite <- (allocate_spec_c a b Hp Hc). destruct (allocate_spec a s r c); [|split; [reflexivity|assumption]].
      destruct c as [[pn ips']|]; [|split; [reflexivity|assumption]].
      destruct (Hasg s r ips') as [Hr Hs].
      destruct (assign a s r ips') as [a1 ra], (assign b s r ips') as [b1 rb]. cbn in Hr, Hs. subst rb.
      destruct ra; cbn; split; auto.
  - rewrite <- Hg. destruct (get_alloc a s) as [al|].
    + destruct (alloc_fam (a_ips al)) as [f|].
      * destruct (negb _ && negb _).
        -- destruct c; split; auto.
        -- destruct (Hasg s r (a_ips al)) as [Hr Hs].
           destruct (assign a s r (a_ips al)) as [a1 ra], (assign b s r (a_ips al)) as [b1 rb]. cbn in Hr, Hs. subst rb.
           destruct ra; destruct c as [ips'|]; cbn; try (split; [reflexivity|assumption]).
           destruct (ips_eqb ips' (a_ips al)); cbn; split; auto.
      * destruct c; split; auto.
    + rewrite <- (from_pool_spec_c a b Hp Hc). destruct (from_pool_spec a s r pn c); [|split; [reflexivity|assumption]].
      destruct c as [ips'|]; [|split; [reflexivity|assumption]].
      destruct (Hasg s r ips') as [Hr Hs].
      destruct (assign a s r ips') as [a1 ra], (assign b s r ips') as [b1 rb]. cbn in Hr, Hs. subst rb.
      destruct ra; cbn; split; auto.
  - rewrite <- (additional_spec_c a b Hp Hc). destruct (additional_spec a s r have pn c); [|split; [reflexivity|assumption]].
    destruct c as [x|]; [|split; [reflexivity|assumption]].
    destruct (Hasg s r [have; x]) as [Hr Hs].
    destruct (assign a s r [have; x]) as [a1 ra], (assign b s r [have; x]) as [b1 rb]. cbn in Hr, Hs. subst rb.
    destruct ra; cbn; split; auto.
  - split; [reflexivity|]. apply set_pools_equiv. exact He.
Qed.
