(* poolCount's closed form equals an independent count of the usable addresses
   of a CIDR (C11: "assigned + available = number of usable addresses"). *)
From Coq Require Import List NArith ZArith Bool Lia ZifyN ZifyBool ZifyNat.
From Verif Require Import Model.Net Model.Alloc Proofs.NetP Proofs.AllocP Proofs.AllocCountP.
Import ListNotations.
Local Open Scope N_scope.
Ltac Zify.zify_post_hook ::= Z.div_mod_to_equations.

(* the addresses of a block, enumerated *)
Fixpoint range_ips (f : fam) (first : N) (n : nat) : list ip :=
  match n with O => [] | S n' => mk_ip f first :: range_ips f (first + 1) n' end.
Definition cidr_addrs (c : prefix) : list ip := range_ips (pfam c) (pfirst c) (N.to_nat (block c)).
Definition usable (avoid : bool) (x : ip) : bool := negb (avoid && buggy x).

Lemma range_ips_length f first n : length (range_ips f first n) = n.
Proof. revert first. induction n; intros; cbn; [reflexivity|rewrite IHn; reflexivity]. Qed.

Lemma In_range_ips f first n x :
  In x (range_ips f first n) <-> exists k, x = mk_ip f k /\ first <= k < first + N.of_nat n.
Proof.
  revert first. induction n as [|n IH]; intros first; cbn [range_ips].
  - split; [intros []|intros [k [_ H]]; lia].
  - cbn [In]. rewrite IH. split.
    + intros [<-|[k [-> H]]]; [exists first; split; [reflexivity|lia]|exists k; split; [reflexivity|lia]].
    + intros [k [-> H]]. destruct (N.eq_dec k first) as [->|Hne]; [left; reflexivity|right; exists k; split; [reflexivity|lia]].
Qed.

(* number of buggy (.0 / .255) values below m *)
Definition buggy_upto (m : N) : N := 2 * (m / 256) + (if m mod 256 =? 0 then 0 else 1).
Definition bN (b : bool) : N := if b then 1 else 0.

Lemma buggy_upto_step m : buggy_upto (m + 1) = buggy_upto m + bN (buggy (V4 m)).
Proof.
  unfold buggy_upto, buggy, bN.
  destruct (N.eqb_spec ((m + 1) mod 256) 0), (N.eqb_spec (m mod 256) 0), (N.eqb_spec (m mod 256) 255); cbn [orb]; lia.
Qed.

Lemma count_buggy_range n : forall first,
  N.of_nat (length (filter buggy (range_ips F4 first n))) + buggy_upto first = buggy_upto (first + N.of_nat n).
Proof.
  induction n as [|n IH]; intros first; cbn [range_ips filter].
  - cbn. f_equal. lia.
  - cbn [mk_ip]. specialize (IH (first + 1)). rewrite buggy_upto_step in IH.
    replace (first + N.of_nat (S n)) with (first + 1 + N.of_nat n) by lia. rewrite <- IH.
    destruct (buggy (V4 first)); cbn [length bN]; lia.
Qed.

Lemma filter_usable_length avoid l :
  (length (filter (usable avoid) l) + (if avoid then length (filter buggy l) else O) = length l)%nat.
Proof.
  unfold usable. induction l as [|x l IH]; [destruct avoid; reflexivity|].
  cbn [filter]. destruct avoid; cbn [andb negb] in *.
  - destruct (buggy x); cbn [negb length] in *; lia.
  - cbn [length] in *. lia.
Qed.

Lemma filter_buggy_v6 first n : filter buggy (range_ips F6 first n) = [].
Proof. revert first. induction n; intros; cbn; [reflexivity|apply IHn]. Qed.

(* a block of 256*K addresses starting at a multiple of 256*K *)
Lemma buggy_big_block t K : 0 < K ->
  buggy_upto (t * (256 * K) + 256 * K) = buggy_upto (t * (256 * K)) + 2 * K.
Proof.
  intros HK. unfold buggy_upto.
  replace (t * (256 * K) + 256 * K) with ((t * K + K) * 256) by lia.
  replace (t * (256 * K)) with ((t * K) * 256) by lia.
  rewrite !N.div_mul, !N.mod_mul by discriminate. rewrite N.eqb_refl. nia.
Qed.

(* a block of blk addresses (blk a proper divisor of 256, at least 2) starting at a multiple of blk *)
Lemma buggy_small_block blk d t : blk * d = 256 -> 2 <= blk ->
  let first := t * blk in
  buggy_upto (first + blk) =
  buggy_upto first + bN (buggy (V4 first)) + bN (buggy (V4 (first + blk - 1))).
Proof.
  intros Hbd Hblk first.
  assert (Hd : 0 < d) by nia.
  pose proof (N.div_mod t d ltac:(lia)) as Ht. pose proof (N.mod_lt t d ltac:(lia)) as Htl.
  set (q := t / d) in *. set (t' := t mod d) in *.
  assert (Hf : first = 256 * q + t' * blk) by (unfold first; nia).
  assert (Hr : t' * blk + blk <= 256) by nia.
  assert (Hq0 : first / 256 = q) by (symmetry; apply (N.div_unique first 256 q (t' * blk)); lia).
  assert (Hr0 : first mod 256 = t' * blk) by (symmetry; apply (N.mod_unique first 256 q (t' * blk)); lia).
  unfold buggy_upto, buggy, bN.
  destruct (N.eq_dec (t' * blk + blk) 256) as [E|E].
  - (* the block ends on a /24 boundary *)
    assert (H1 : (first + blk) / 256 = q + 1) by (symmetry; apply (N.div_unique (first + blk) 256 (q + 1) 0); lia).
    assert (H2 : (first + blk) mod 256 = 0) by (symmetry; apply (N.mod_unique (first + blk) 256 (q + 1) 0); lia).
    assert (H3 : (first + blk - 1) mod 256 = 255) by (symmetry; apply (N.mod_unique (first + blk - 1) 256 q 255); lia).
    rewrite H1, H2, H3, Hq0, Hr0.
    assert (t' * blk <> 0) by nia. assert (t' * blk <> 255) by nia.
    destruct (N.eqb_spec (t' * blk) 0), (N.eqb_spec (t' * blk) 255); cbn; lia.
  - assert (H1 : (first + blk) / 256 = q) by (symmetry; apply (N.div_unique (first + blk) 256 q (t' * blk + blk)); lia).
    assert (H2 : (first + blk) mod 256 = t' * blk + blk) by (symmetry; apply (N.mod_unique (first + blk) 256 q (t' * blk + blk)); lia).
    assert (H3 : (first + blk - 1) mod 256 = t' * blk + blk - 1) by (symmetry; apply (N.mod_unique (first + blk - 1) 256 q (t' * blk + blk - 1)); lia).
    rewrite H1, H2, H3, Hq0, Hr0.
    assert (t' * blk <> 255) by nia.
    destruct (N.eqb_spec (t' * blk + blk) 0); [lia|].
    destruct (N.eqb_spec (t' * blk + blk - 1) 0); [lia|].
    destruct (N.eqb_spec (t' * blk + blk - 1) 255); [lia|].
    destruct (N.eqb_spec (t' * blk) 0), (N.eqb_spec (t' * blk) 255); cbn; lia.
Qed.
