(* poolCount's closed form equals an independent count of the usable addresses
   of a CIDR (C11: "assigned + available = number of usable addresses"). *)
From Coq Require Import List NArith ZArith Bool Lia ZifyN ZifyBool ZifyNat.
From Verif Require Import Model.Net Model.Alloc Proofs.NetP Proofs.AllocP Proofs.AllocPolicyP Proofs.AllocCountP.
Import ListNotations.
Local Open Scope N_scope.
Ltac Zify.zify_post_hook ::= Z.div_mod_to_equations.
Local Arguments N.sub : simpl never.
Local Arguments N.mul : simpl never.
Local Arguments N.pow : simpl never.
Local Arguments Z.mul : simpl never.
Local Arguments Z.pow : simpl never.
Local Arguments Z.sub : simpl never.
Local Arguments Z.of_N : simpl never.

(* the addresses of a block, enumerated *)
Fixpoint range_ips (f : fam) (first : N) (n : nat) : list ip :=
  match n with O => [] | S n' => mk_ip f first :: range_ips f (first + 1) n' end.
Definition cidr_addrs (c : prefix) : list ip := range_ips (pfam c) (pfirst c) (N.to_nat (block c)).
Definition usable (avoid : bool) (x : ip) : bool := negb (avoid && buggy x).

Lemma range_ips_length f first n : length (range_ips f first n) = n.
Proof. revert first. induction n; intros; cbn; [reflexivity|rewrite IHn; reflexivity]. Qed.

Lemma In_range_ips f first n x :
  In x (range_ips f first n) <-> exists k, x = mk_ip f k /\ first <= k < first + N.of_nat n.
Proof.
  revert first. induction n as [|n IH]; intros first; cbn [range_ips].
  - split; [intros []|intros [k [_ H]]; lia].
  - cbn [In]. rewrite IH. split.
    + intros [<-|[k [-> H]]]; [exists first; split; [reflexivity|lia]|exists k; split; [reflexivity|lia]].
    + intros [k [-> H]]. destruct (N.eq_dec k first) as [->|Hne]; [left; reflexivity|right; exists k; split; [reflexivity|lia]].
Qed.

(* number of buggy (.0 / .255) values below m *)
Definition buggy_upto (m : N) : N := 2 * (m / 256) + (if m mod 256 =? 0 then 0 else 1).
Definition bN (b : bool) : N := if b then 1 else 0.

Lemma buggy_upto_step m : buggy_upto (m + 1) = buggy_upto m + bN (buggy (V4 m)).
Proof.
  unfold buggy_upto, buggy, bN.
  destruct (N.eqb_spec ((m + 1) mod 256) 0), (N.eqb_spec (m mod 256) 0), (N.eqb_spec (m mod 256) 255); cbn [orb]; lia.
Qed.

Lemma count_buggy_range n : forall first,
  N.of_nat (length (filter buggy (range_ips F4 first n))) + buggy_upto first = buggy_upto (first + N.of_nat n).
Proof.
  induction n as [|n IH]; intros first; cbn [range_ips filter].
  - cbn. f_equal. lia.
  - cbn [mk_ip]. specialize (IH (first + 1)). rewrite buggy_upto_step in IH.
    replace (first + N.of_nat (S n)) with (first + 1 + N.of_nat n) by lia. rewrite <- IH.
    destruct (buggy (V4 first)); cbn [length bN]; lia.
Qed.

Lemma filter_usable_length avoid l :
  (length (filter (usable avoid) l) + (if avoid then length (filter buggy l) else O) = length l)%nat.
Proof.
  unfold usable. induction l as [|x l IH]; [destruct avoid; reflexivity|].
  cbn [filter]. destruct avoid; cbn [andb negb] in *.
  - destruct (buggy x); cbn [negb length] in *; lia.
  - cbn [length] in *. lia.
Qed.

Lemma filter_buggy_v6 first n : filter buggy (range_ips F6 first n) = [].
Proof. revert first. induction n; intros; cbn; [reflexivity|apply IHn]. Qed.

(* a block of 256*K addresses starting at a multiple of 256*K *)
Lemma buggy_big_block t K : 0 < K ->
  buggy_upto (t * (256 * K) + 256 * K) = buggy_upto (t * (256 * K)) + 2 * K.
Proof.
  intros HK. unfold buggy_upto.
  replace (t * (256 * K) + 256 * K) with ((t * K + K) * 256) by lia.
  replace (t * (256 * K)) with ((t * K) * 256) by lia.
  rewrite !N.div_mul, !N.mod_mul by discriminate. rewrite N.eqb_refl. nia.
Qed.

(* a block of blk addresses (blk a proper divisor of 256, at least 2) starting at a multiple of blk *)
Lemma buggy_small_block blk d h t : blk * d = 256 -> blk = 2 * h -> 0 < h -> 2 <= d ->
  let first := t * blk in
  buggy_upto (first + blk) =
  buggy_upto first + bN (buggy (V4 first)) + bN (buggy (V4 (first + blk - 1))).
Proof.
  intros Hbd Hh Hh0 Hd2 first.
  assert (Hblk : 2 <= blk) by lia.
  assert (Hd : 0 < d) by lia.
  assert (Hodd : forall z, z * blk <> 255).
  { intros z Hz. rewrite Hh in Hz. assert (2 * (z * h) = 255) by nia. lia. }
  pose proof (N.div_mod t d ltac:(lia)) as Ht. pose proof (N.mod_lt t d ltac:(lia)) as Htl.
  set (q := t / d) in *. set (t' := t mod d) in *.
  assert (Hf : first = 256 * q + t' * blk).
  { unfold first. rewrite Ht at 1. rewrite N.mul_add_distr_r. f_equal. rewrite <- Hbd. ring. }
  assert (Hr : t' * blk + blk <= 256) by nia.
  assert (Hq0 : first / 256 = q) by (symmetry; apply (N.div_unique first 256 q (t' * blk)); lia).
  assert (Hr0 : first mod 256 = t' * blk) by (symmetry; apply (N.mod_unique first 256 q (t' * blk)); lia).
  unfold buggy_upto, buggy, bN.
  destruct (N.eq_dec (t' * blk + blk) 256) as [E|E].
  - (* the block ends on a /24 boundary *)
    assert (H1 : (first + blk) / 256 = q + 1) by (symmetry; apply (N.div_unique (first + blk) 256 (q + 1) 0); lia).
    assert (H2 : (first + blk) mod 256 = 0) by (symmetry; apply (N.mod_unique (first + blk) 256 (q + 1) 0); lia).
    assert (H3 : (first + blk - 1) mod 256 = 255) by (symmetry; apply (N.mod_unique (first + blk - 1) 256 q 255); lia).
    rewrite H1, H2, H3, Hq0, Hr0.
    assert (t' * blk <> 0) by nia. pose proof (Hodd t').
    destruct (N.eqb_spec (t' * blk) 0), (N.eqb_spec (t' * blk) 255); cbn [orb N.eqb Pos.eqb]; lia.
  - assert (H1 : (first + blk) / 256 = q) by (symmetry; apply (N.div_unique (first + blk) 256 q (t' * blk + blk)); lia).
    assert (H2 : (first + blk) mod 256 = t' * blk + blk) by (symmetry; apply (N.mod_unique (first + blk) 256 q (t' * blk + blk)); lia).
    assert (H3 : (first + blk - 1) mod 256 = t' * blk + blk - 1) by (symmetry; apply (N.mod_unique (first + blk - 1) 256 q (t' * blk + blk - 1)); lia).
    rewrite H1, H2, H3, Hq0, Hr0.
    pose proof (Hodd t'). pose proof (Hodd (t' + 1)) as Hodd1.
    destruct (N.eqb_spec (t' * blk + blk) 0); [lia|].
    destruct (N.eqb_spec (t' * blk + blk - 1) 0); [lia|].
    destruct (N.eqb_spec (t' * blk + blk - 1) 255); [lia|].
    destruct (N.eqb_spec (t' * blk) 0), (N.eqb_spec (t' * blk) 255); cbn [orb N.eqb Pos.eqb]; lia.
Qed.

(* ---------- the closed form of poolCount counts the usable addresses ---------- *)
Lemma usable_count_nonavoid l : length (filter (usable false) l) = length l.
Proof. pose proof (filter_usable_length false l) as H. cbv beta iota in H. lia. Qed.

Lemma usable_count_v6 first n : length (filter (usable true) (range_ips F6 first n)) = n.
Proof.
  pose proof (filter_usable_length true (range_ips F6 first n)) as H.
  rewrite filter_buggy_v6, range_ips_length in H. cbv beta iota in H. cbn [length] in H. lia.
Qed.

Lemma usable_count_v4 first n :
  Z.of_nat (length (filter (usable true) (range_ips F4 first n))) =
  (Z.of_nat n - (Z.of_N (buggy_upto (first + N.of_nat n)) - Z.of_N (buggy_upto first)))%Z.
Proof.
  pose proof (filter_usable_length true (range_ips F4 first n)) as H. rewrite range_ips_length in H.
  cbv beta iota in H. pose proof (count_buggy_range n first). lia.
Qed.

Lemma block_pow c : block c = 2 ^ (width (pfam c) - plen c).
Proof. reflexivity. Qed.

Lemma Zpow_N (k : N) : Z.of_N (2 ^ k) = (2 ^ Z.of_N k)%Z.
Proof. rewrite N2Z.inj_pow. reflexivity. Qed.

Theorem poolcount_formula avoid c n :
  plen c <= width (pfam c) -> cidr_count avoid c = Some n ->
  n = Z.of_nat (length (filter (usable avoid) (cidr_addrs c))).
Proof.
  intros Hw. unfold cidr_count. destruct (62 <=? width (pfam c) - plen c) eqn:Hbig; [discriminate|].
  intros H. injection H as Hn. rewrite <- Hn. clear Hn n.
  unfold cidr_addrs. set (hb := width (pfam c) - plen c) in *.
  assert (Hblk : block c = 2 ^ hb) by reflexivity.
  assert (Hlen : Z.of_nat (N.to_nat (block c)) = (2 ^ Z.of_N hb)%Z) by (rewrite N_nat_Z, Hblk; apply Zpow_N).
  destruct avoid; cbn [andb].
  2:{ rewrite usable_count_nonavoid, range_ips_length. symmetry. exact Hlen. }
  destruct (pfam c) eqn:Hf; cbn [fam_eqb].
  2:{ rewrite usable_count_v6. symmetry. exact Hlen. }
  (* IPv4, avoiding .0 and .255 *)
  change (width F4) with 32 in *.
  rewrite usable_count_v4, Hlen, N2Nat.id.
  unfold plast, pfirst. rewrite Hblk.
  set (t := pbase c / 2 ^ hb).
  destruct (plen c <=? 24) eqn:H24.
  - apply N.leb_le in H24.
    assert (E : 2 ^ hb = 256 * 2 ^ (24 - plen c)).
    { unfold hb. replace (32 - plen c) with (8 + (24 - plen c)) by lia. rewrite N.pow_add_r. reflexivity. }
    rewrite E. rewrite buggy_big_block by (apply pow2_pos).
    rewrite N2Z.inj_add, N2Z.inj_mul, Zpow_N. change (Z.of_N 2) with 2%Z. lia.
  - apply N.leb_gt in H24.
    assert (Hcases : plen c = 25 \/ plen c = 26 \/ plen c = 27 \/ plen c = 28 \/ plen c = 29 \/
                     plen c = 30 \/ plen c = 31 \/ plen c = 32) by lia.
    unfold b2z.
    assert (Hsmall : forall blk d h, 2 ^ hb = blk -> blk * d = 256 -> blk = 2 * h -> 0 < h -> 2 <= d ->
      (2 ^ Z.of_N hb - (Z.of_N (buggy_upto (t * blk + blk)) - Z.of_N (buggy_upto (t * blk))) =
       2 ^ Z.of_N hb - (if buggy (mk_ip F4 (t * blk)) then 1 else 0) -
       (if (t * blk =? t * blk + blk - 1)%N then 0 else if buggy (mk_ip F4 (t * blk + blk - 1)) then 1 else 0))%Z).
    { intros blk d h Hb Hbd Hh Hh0 Hd2.
      pose proof (buggy_small_block blk d h t Hbd Hh Hh0 Hd2) as HS. cbv zeta in HS. rewrite HS.
      destruct (N.eqb_spec (t * blk) (t * blk + blk - 1)) as [Eq|Ne]; [lia|].
      cbn [mk_ip]. unfold bN. destruct (buggy (V4 (t * blk))), (buggy (V4 (t * blk + blk - 1))); lia. }
    Ltac small_case Hsmall :=
      match goal with |- context [(2 ^ (32 - ?o))%N] =>
        let b := eval vm_compute in (2 ^ (32 - o))%N in
        let d := eval vm_compute in (256 / b)%N in
        let h := eval vm_compute in (b / 2)%N in
        change (2 ^ (32 - o))%N with b in *; symmetry; apply (Hsmall b d h); [reflexivity|reflexivity|reflexivity|lia|lia]
      end.
    destruct Hcases as [E|[E|[E|[E|[E|[E|[E|E]]]]]]]; unfold hb in *; rewrite E in *;
      [small_case Hsmall|small_case Hsmall|small_case Hsmall|small_case Hsmall|small_case Hsmall|small_case Hsmall|small_case Hsmall|].
    (* /32: a single address *)
    change (2 ^ (32 - 32)) with 1 in *. rewrite !N.mul_1_r.
    replace (t + 1 - 1) with t by lia. rewrite N.eqb_refl.
    rewrite buggy_upto_step. cbn [mk_ip]. unfold bN. change (2 ^ Z.of_N (32 - 32))%Z with 1%Z.
    destruct (buggy (V4 t)); lia.
Qed.

(* per-family capacity = the number of usable addresses of the pool's CIDRs of
   that family, counted, saturating at MaxInt64 *)
Definition usable_addrs (p : pool) (f : fam) : list (list ip) :=
  map (fun c => filter (usable (p_avoid p)) (cidr_addrs c))
      (filter (fun c => fam_eqb (pfam c) f) (p_cidrs p)).

(* ---------- assigned never exceeds the number of usable addresses ---------- *)
Lemma In_cidr_addrs c x :
  contains c x = true -> In x (cidr_addrs c).
Proof.
  intros H. apply contains_in_range in H. destruct H as [Hf H]. unfold in_range, plast in H.
  apply andb_true_iff in H. destruct H as [H1 H2]. apply N.leb_le in H1. apply N.leb_le in H2.
  unfold cidr_addrs. apply In_range_ips. exists (ip_val x). split.
  - rewrite Hf. destruct x; reflexivity.
  - rewrite N2Nat.id. pose proof (block_pos c). lia.
Qed.

Definition usable_concat (p : pool) (f : fam) : list ip :=
  flat_map (fun c => if fam_eqb (pfam c) f then filter (usable (p_avoid p)) (cidr_addrs c) else []) (p_cidrs p).

Lemma in_pool_usable_concat p x : in_pool p x = true -> In x (usable_concat p (ip_fam x)).
Proof.
  unfold in_pool. rewrite andb_true_iff, existsb_exists. intros [Hb [c [Hc Hx]]].
  unfold usable_concat. apply in_flat_map. exists c. split; [exact Hc|].
  assert (Hf : pfam c = ip_fam x) by (apply contains_in_range in Hx; tauto).
  rewrite Hf, fam_eqb_refl. apply filter_In. split; [apply In_cidr_addrs; exact Hx|exact Hb].
Qed.

Lemma usable_concat_length p f m :
  (forall c, In c (p_cidrs p) -> plen c <= width (pfam c)) ->
  exact_sum (p_avoid p) f (p_cidrs p) = Some m -> Z.of_nat (length (usable_concat p f)) = m.
Proof.
  unfold usable_concat. intros Hw. revert m. induction (p_cidrs p) as [|c l IH]; intros m; cbn [exact_sum flat_map].
  - intros [= <-]. reflexivity.
  - assert (Hw' : forall c', In c' l -> plen c' <= width (pfam c')) by (intros; apply Hw; right; assumption).
    rewrite app_length, Nat2Z.inj_add. destruct (fam_eqb (pfam c) f).
    + destruct (cidr_count (p_avoid p) c) as [n|] eqn:E; [|discriminate].
      destruct (exact_sum (p_avoid p) f l) as [m'|]; [|discriminate]. intros [= <-].
      rewrite (IH Hw' m' eq_refl). rewrite (poolcount_formula _ _ _ (Hw c (or_introl eq_refl)) E). reflexivity.
    + cbn [length]. intros H. rewrite (IH Hw' m H). lia.
Qed.

(* the distinct addresses of family f recorded under pool name n are usable
   addresses of that pool: their number is at most the exact capacity *)
Theorem assigned_le_capacity a n p f m :
  Inv a -> PoolCoh a -> NoDup (map p_name (by_name (s_pools a))) ->
  find_pool (s_pools a) n = Some p -> wf_pool_lens p ->
  exact_sum (p_avoid p) f (p_cidrs p) = Some m ->
  (assigned a n f <= m)%Z.
Proof.
  intros [Hnd _] HC Hun Hfp Hw Hm. unfold assigned.
  rewrite <- (usable_concat_length p f m Hw Hm). apply Nat2Z.inj_le.
  apply NoDup_incl_length.
  - apply NoDup_filter. apply ips_in_use_NoDup.
  - intros x Hx. apply filter_In in Hx. destruct Hx as [Hin Hfam]. apply fam_eqb_eq in Hfam.
    apply ips_in_use_spec in Hin. destruct Hin as [e [He [Hn Hxe]]].
    destruct (HC e He) as [q [Hq Hqn]]. apply AllocPolicyP.pool_for_spec in Hq. destruct Hq as [Hqin Hall].
    assert (q = p).
    { apply AllocPolicyP.find_pool_spec in Hfp. destruct Hfp as [Hpin Hpn].
      apply (AllocPolicyP.names_unique_eq (s_pools a)); auto. congruence. }
    subst q. rewrite <- Hfam. apply in_pool_usable_concat. apply Hall. exact Hxe.
Qed.

Local Open Scope Z_scope.
(* C11 "no reported count is ever negative": available = capacity - assigned >= 0, for
   every reachable allocator state; the hypothesis [assigned <= max_i64] only matters in
   the saturated case (more than 2^63-1 addresses assigned is physically impossible) *)
Theorem available_nonneg a n p f :
  Inv a -> PoolCoh a -> NoDup (map p_name (by_name (s_pools a))) ->
  find_pool (s_pools a) n = Some p -> wf_pool_lens p ->
  assigned a n f <= max_i64 ->
  0 <= pool_capacity p f - assigned a n f.
Proof.
  intros HI HP Hnd Hf Hwf Hmax. rewrite (pool_capacity_saturating p f Hwf).
  destruct (exact_sum (p_avoid p) f (p_cidrs p)) as [m|] eqn:E.
  - pose proof (assigned_le_capacity a n p f m HI HP Hnd Hf Hwf E). lia.
  - lia.
Qed.

Corollary counters_nonneg a n p :
  Inv a -> PoolCoh a -> NoDup (map p_name (by_name (s_pools a))) ->
  find_pool (s_pools a) n = Some p -> wf_pool_lens p ->
  assigned a n F4 <= max_i64 -> assigned a n F6 <= max_i64 ->
  let c := counters_for a n in
  0 <= c_assigned4 c /\ 0 <= c_assigned6 c /\ 0 <= c_avail4 c /\ 0 <= c_avail6 c.
Proof.
  intros HI HP Hnd Hf Hwf H4 H6. unfold counters_for. rewrite Hf. cbn.
  pose proof (available_nonneg a n p F4 HI HP Hnd Hf Hwf H4).
  pose proof (available_nonneg a n p F6 HI HP Hnd Hf Hwf H6).
  unfold assigned in *. repeat split; try lia.
Qed.
