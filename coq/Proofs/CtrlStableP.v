(* C03 over whole histories: a Service whose recorded addresses stay (statically)
   admissible - its own request is not edited, every configuration delivered
   still contains a compatible pool owning them - keeps exactly those addresses
   through any interleaving of other Services' events, pool changes, single
   reconciles and full re-syncs, with failing status writes. *)
From Coq Require Import List NArith Bool Lia.
From Verif Require Import Model.Net Model.Alloc Model.Ctrl Proofs.NetP Proofs.AllocP Proofs.AllocPolicyP
  Proofs.AllocMonoP Proofs.CtrlP Proofs.CtrlWorldP Proofs.CtrlThmP Proofs.CtrlStarveP Proofs.CtrlRestartP.
Import ListNotations.
Local Open Scope N_scope.

Section Stable.
Variable rank : ip -> N.
Variable s : svc.
Variable o0 : svcobj.        (* the Service's request (status / annotation fields are irrelevant) *)
Variable S0 : list ip.       (* the addresses it holds *)

Definition obj (an : option poolid) : svcobj := with_status o0 S0 an.

(* admissibility that depends only on the configuration and the request *)
Definition sadm (ps : pools) : Prop :=
  o_lb o0 = true /\ by_name ps <> [] /\ o_cluster_ok o0 = true /\
  (is_require (r_pol (o_req o0)) && negb (is_dual (r_fam (o_req o0)))) = false /\
  S0 <> [] /\ family_changed (alloc_fam S0) (r_fam (o_req o0)) (r_pol (o_req o0)) = false /\
  (exists p, pool_for (by_name ps) S0 = Some p /\ compatible p (o_req o0) = true /\
             forall wp, o_want_pool o0 = Some wp -> p_name p = wp) /\
  (2 <? N.of_nat (length S0)) = false /\ same_family2 S0 = false /\
  (o_want o0 = WNone \/ exists d, o_want o0 = WIps d /\ equal_ips rank S0 d = true).

(* what memory records for the Service *)
Definition held (a : st) : Prop :=
  exists al, get_alloc a s = Some al /\ a_ips al = S0 /\
             a_ports al = r_ports (o_req o0) /\ a_key al = r_key (o_req o0).

Lemma adm_from_static a an : Inv a -> held a -> sadm (s_pools a) -> admissible_now rank a s (obj an).
Proof.
  intros HI (al & Hg & Hi & Hpo & Hk) (Hlb & Hps & Hcl & Hrq & Hne & Hfam & (p & Hpf & Hcomp & Hwp) & Hlen & Hsf & Hwant).
  unfold admissible_now, obj. cbn [with_status o_lb o_req o_cluster_ok o_status o_want o_want_pool].
  repeat (split; [assumption|]).
  assert (Hck : assign_check a s (o_req o0) S0 = inl p).
  { unfold assign_check. rewrite Hpf, Hcomp, Hlen, Hsf. cbn [negb].
    assert (F : forallb (fun x => check_sharing a s x (r_ports (o_req o0)) (r_key (o_req o0))) S0 = true).
    { apply forallb_forall. intros x Hx. apply (check_sharing_iff a s x _ _ HI).
      intros e He Hne' Hxe.
      assert (Hin : In (s, al) (allocated a)) by (apply get_alloc_In; [exact (proj1 HI)|exact Hg]).
      destruct (proj2 HI e (s, al) x He Hin Hne' Hxe) as (Sh1 & Sh2 & Sh3 & Sh4); [cbn; rewrite Hi; exact Hx|].
      cbn [snd] in *. rewrite <- Hk, <- Hpo. split.
      - apply sharing_ok_spec. repeat split; try assumption. congruence.
      - intros q Hq Hq'. exact (Sh4 q Hq' Hq). }
    rewrite F. reflexivity. }
  eexists. split; [unfold assign; rewrite Hck; reflexivity|]. split; [|exact Hwant].
  intros wp Hw. unfold pool_of. rewrite get_alloc_do_assign_same. cbn. f_equal. apply Hwp. exact Hw.
Qed.

Hypothesis Hsorted : sort2 rank S0 = S0.                                   (* the status is in its normalised order *)
Hypothesis Hnoadd : additional_applies (o_req o0) S0 = false.              (* no second family to gain *)

Definition K (w : world) : Prop :=
  (exists an, aget (w_api w) s = Some (obj an)) /\ held (c_mem (w_ctl w)) /\ sadm (s_pools (c_mem (w_ctl w))).

Lemma handler_stable w k w1 r : mem_inv (w_ctl w) -> c_have_pools (w_ctl w) = true -> K w ->
  apply_handler rank w s k = Some (w1, r) -> K w1.
Proof.
  intros HI Hp ((an & Hapi) & Hheld & Hsadm) EH.
  pose proof (apply_handler_pools _ _ _ _ _ _ EH) as Hps.
  pose proof (adm_from_static _ an (proj1 HI) Hheld Hsadm) as Hadm.
  unfold apply_handler in EH. rewrite api_get_aget, Hapi in EH.
  destruct (set_balancer rank (w_ctl w) s (Some (obj an)) k) as [oc|] eqn:ES; [|discriminate].
  injection EH as <- _. unfold K. cbn [w_api w_ctl] in *.
  destruct (set_balancer_mem rank _ _ _ _ _ ES Hp) as (v & ok & EC & Hmem & Hw).
  destruct (converge_recorded rank _ _ _ _ _ _ Hadm Hnoadd EC) as (_ & Hv & _ & Hst).
  cbn [obj with_status o_status o_req] in Hv, Hst.
  assert (Hst' : cv_status v = S0) by (destruct Hst as [H|H]; [exact H|rewrite H; exact Hsorted]).
  split; [|split; [|rewrite Hps; exact Hsadm]].
  - destruct (oc_write oc) as [[st an']|].
    + destruct (k_write k).
      * rewrite aget_put_same. exists an'. unfold obj. cbn. rewrite (proj1 Hw), Hst'. reflexivity.
      * exists an. exact Hapi.
    + exists an. exact Hapi.
  - rewrite Hmem, Hv. destruct Hadm as (_ & _ & _ & _ & _ & _ & a' & Has & _).
    cbn [obj with_status o_status o_req] in Has. rewrite Has. cbn [fst].
    apply assign_ok_inv in Has. destruct Has as (p & _ & _ & ->).
    eexists. split; [apply get_alloc_do_assign_same|]. cbn. auto.
Qed.

Lemma handler_other_stable w t k w1 r : t <> s -> K w -> apply_handler rank w t k = Some (w1, r) -> K w1.
Proof.
  intros Hne ((an & Hapi) & (al & Hg & Hrest) & Hsadm) EH.
  destruct (handler_frame rank _ _ _ _ _ s EH (not_eq_sym Hne)) as [A1 A2].
  pose proof (apply_handler_pools _ _ _ _ _ _ EH) as Hps.
  split; [exists an; rewrite A1; exact Hapi|]. split; [exists al; rewrite A2; auto|rewrite Hps; exact Hsadm].
Qed.

Lemma pass_stable order : forall ks w retry acc w' retry' rs,
  reload_pass rank w order ks retry acc = Some (w', retry', rs) ->
  mem_inv (w_ctl w) -> c_have_pools (w_ctl w) = true -> K w -> K w'.
Proof.
  induction order as [|t order IH]; intros ks w retry acc w' retry' rs H Hm Hp HK.
  - cbn in H. injection H as <- _ _. exact HK.
  - cbn [reload_pass] in H. destruct ks as [|k ks]; [discriminate|].
    destruct (apply_handler rank w t k) as [[w1 r]|] eqn:EH; [|discriminate].
    pose proof (apply_handler_inv rank w t k w1 r EH (fun _ => Hp) Hm) as (_ & _ & Hm1 & Hp1 & _).
    apply (IH _ _ _ _ _ _ _ H Hm1 (Hp1 Hp)).
    destruct (N.eq_dec t s) as [->|Hne].
    + exact (handler_stable w k w1 r Hm Hp HK EH).
    + exact (handler_other_stable w t k w1 r Hne HK EH).
Qed.

(* the events the statement quantifies over: anything except an edit / deletion
   of the Service itself, a configuration that stops owning its addresses, or a
   restart (C06 treats restarts) *)
Definition ok_ev (e : ev) : Prop :=
  match e with
  | UPut t _ => t <> s
  | UDel t => t <> s
  | EPools ps => sadm ps
  | ECrash => False
  | _ => True
  end.

Lemma held_pools (w : world) : WInv w -> held (c_mem (w_ctl w)) -> c_have_pools (w_ctl w) = true.
Proof.
  intros [_ _ _ _ HMP] (al & Hg & _). apply HMP. unfold get_alloc in Hg. intros Hn. rewrite Hn in Hg. discriminate.
Qed.

Theorem wstep_K w e w' : WInv w -> K w -> ok_ev e -> wstep rank w e = Some w' -> K w'.
Proof.
  intros HW HK Hok. pose proof (held_pools w HW (proj1 (proj2 HK))) as Hp.
  destruct HW as [HI HS HRP HGP HMP]. unfold wstep.
  destruct (wstep_t rank w e) as [[w2 rs]|] eqn:E; [|discriminate]. intros [= <-].
  destruct HK as ((an & Hapi) & Hheld & Hsadm).
  destruct e as [t o|t|ps|t k|order ks| |]; cbn [wstep_t ok_ev] in *.
  - injection E as <- _. unfold K. cbn [w_api w_ctl]. split; [|auto].
    exists an. rewrite aget_put_other; [exact Hapi|auto].
  - injection E as <- _. unfold K. cbn [w_api w_ctl]. split; [|auto].
    exists an. rewrite aget_del_other; [exact Hapi|auto].
  - injection E as <- _. unfold K. cbn [w_api w_ctl set_pools_c c_mem]. split; [exists an; exact Hapi|].
    split; [|exact Hok]. destruct Hheld as (al & Hg & Hi & Hpo & Hk).
    destruct Hok as (_ & _ & _ & _ & _ & _ & (p & Hpf & _) & _).
    rewrite <- Hi in Hpf. unfold held. eexists. split; [exact (setpools_keeps _ _ _ _ _ (proj1 HI) Hg Hpf)|]. cbn. auto.
  - destruct (negb (memN t (w_queue w))); [discriminate|].
    destruct (negb (w_gate w) && _).
    + injection E as <- _. unfold K. cbn [w_api w_ctl]. split; [exists an; exact Hapi|auto].
    + destruct (apply_handler rank w t k) as [[w1 r]|] eqn:EH; [|discriminate]. injection E as <- _.
      assert (HK1 : K w1).
      { destruct (N.eq_dec t s) as [->|Hne].
        - exact (handler_stable w k w1 r HI Hp (conj (ex_intro _ an Hapi) (conj Hheld Hsadm)) EH).
        - exact (handler_other_stable w t k w1 r Hne (conj (ex_intro _ an Hapi) (conj Hheld Hsadm)) EH). }
      exact HK1.
  - destruct (negb (w_reload w)); [discriminate|].
    destruct (negb _); [discriminate|].
    destruct (reload_pass rank w order ks false []) as [[[w1 retry] rs1]|] eqn:EP; [|discriminate].
    injection E as <- _.
    exact (pass_stable order _ _ _ _ _ _ _ EP HI Hp (conj (ex_intro _ an Hapi) (conj Hheld Hsadm))).
  - destruct (negb (c_have_pools (w_ctl w))); [discriminate|]. injection E as <- _.
    unfold K. cbn [w_api w_ctl]. split; [exists an; exact Hapi|auto].
  - destruct Hok.
Qed.

Theorem wrun_K evs : forall w w', WInv w -> K w -> Forall ok_ev evs -> wrun rank evs w = Some w' -> K w'.
Proof.
  induction evs as [|e evs IH]; intros w w' HW HK Hok H; cbn in H.
  - injection H as <-. exact HK.
  - inversion Hok as [|? ? H1 H2]; subst. unfold wrun in IH. destruct (wstep rank w e) as [w1|] eqn:E.
    + eapply IH; [eapply wstep_WInv; eassumption|eapply wstep_K; eassumption|exact H2|exact H].
    + rewrite wrun_none in H. discriminate.
Qed.

(* C03: the Service has exactly the same addresses, in the API and in memory, after the whole history *)
Theorem stable_across_history evs w w' :
  WInv w -> K w -> Forall ok_ev evs -> wrun rank evs w = Some w' ->
  (exists o', aget (w_api w') s = Some o' /\ o_status o' = S0) /\ ips_of (c_mem (w_ctl w')) s = S0.
Proof.
  intros HW HK Hok H. destruct (wrun_K evs w w' HW HK Hok H) as ((an & Hapi) & (al & Hg & Hi & _) & _).
  split; [exists (obj an); split; [exact Hapi|reflexivity]|]. unfold ips_of. rewrite Hg. exact Hi.
Qed.
End Stable.
