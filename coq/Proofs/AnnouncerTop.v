(* Lemmas about Model/Announcer.v, part 3: the statements of C13 over all
   histories [run us (init ar nd)]. *)
From Coq Require Import List NArith ZArith Bool Lia.
From Verif Require Import Model.Net Proofs.NetP Model.Announcer Proofs.AnnouncerP Proofs.AnnouncerNdpP.
Import ListNotations.
Local Open Scope Z_scope.

Definition reached (ar nd : list N) (us : list upd) : st := run us (init ar nd).

Lemma reached_inv ar nd us : inv (reached ar nd us).
Proof. apply inv_run, inv_init. Qed.

(* number of services that list the address *)
Definition services_with (s : st) (i : ip) : nat :=
  length (filter (fun p => existsb (fun a => ip_eqb (a_ip a) i) (snd p)) (ips s)).

Lemma t_refcnt_inv ar nd us : let s := reached ar nd us in
  (forall i, rc s i = Z.of_nat (services_with s i)) /\
  (forall svc advs, lookup svc (ips s) = Some advs -> NoDup (map a_ip advs) /\ advs <> []) /\
  NoDup (map fst (ips s)).
Proof.
  intros s. pose proof (reached_inv ar nd us) as I. fold s in I. split; [|split].
  - intros i. apply (inv_rc _ I).
  - intros svc advs L. split; [eapply inv_once; [exact I|apply lookup_in; exact L]|].
    (* entries are never empty: by induction over the history *)
    revert svc advs L. subst s. unfold reached. clear I.
    assert (G : forall s, inv s -> (forall svc advs, lookup svc (ips s) = Some advs -> advs <> []) ->
                forall svc advs, lookup svc (ips (run us s)) = Some advs -> advs <> []).
    { induction us as [|u us IH]; intros s I H; [exact H|]. cbn. apply IH; [apply inv_apply; exact I|].
      intros svc advs L. destruct u as [name a|name]; cbn in L.
      - destruct (N.eq_dec svc name) as [->|Hne].
        + rewrite ips_set_balancer, lookup_insert_same in L. inversion L; subst; clear L.
          destruct (existsb (same_ip a) (cur_advs s name)) eqn:E.
          * intros E0. apply override_in in E. rewrite E0 in E. contradiction.
          * intros E0. apply app_eq_nil in E0. destruct E0; discriminate.
        + rewrite ips_set_balancer, lookup_insert_other in L; [eapply H; exact L|apply (inv_keys _ I)|exact Hne].
      - unfold delete_balancer in L. destruct (lookup name (ips s)) as [advs0|] eqn:L0; [|eapply H; exact L].
        rewrite ips_fold_dec1 in L. cbn [ips with_ips] in L. apply lookup_in, in_remove in L. destruct L as [_ L].
        eapply H. apply in_lookup; [apply (inv_keys _ I)|exact L]. }
    apply G; [apply inv_init|]. intros svc advs L. discriminate.
  - apply (inv_keys _ I).
Qed.

Lemma t_answer_iff ar nd us i intf : let s := reached ar nd us in
  should_announce s i intf = DNone <-> exists svc a, holds s svc a /\ a_ip a = i /\ match_intf a intf = true.
Proof. intros s. apply answer_iff, reached_inv. Qed.

Lemma t_drop_reason ar nd us i intf : let s := reached ar nd us in
  (should_announce s i intf = DAnnounceIP <-> forall svc a, holds s svc a -> a_ip a <> i) /\
  (should_announce s i intf = DNone \/ should_announce s i intf = DAnnounceIP \/ should_announce s i intf = DNotMatchIntf).
Proof. intros s. split; [apply not_held_iff, reached_inv|apply scan_range]. Qed.

Lemma t_withdraw_last ar nd us name i : let s := reached ar nd us in
  (forall svc a, holds s svc a -> a_ip a = i -> svc = name) ->
  let s' := delete_balancer name s in
  (forall intf, should_announce s' i intf = DAnnounceIP) /\
  (forall intf mac op dst, arp_process s' intf mac op dst i <> DNone) /\
  (forall a, a_ip a = i -> gratuitous s' a = []) /\ rc s' i = 0.
Proof.
  intros s H s'. pose proof (reached_inv ar nd us) as I. fold s in I.
  pose proof (inv_delete_balancer name s I) as I'. fold s' in I'.
  assert (NH : forall svc a, holds s' svc a -> a_ip a <> i).
  { intros svc a Hh E. apply (holds_delete name s svc a I) in Hh. destruct Hh as [Hne Hh]. apply Hne. eapply H; eauto. }
  assert (SA : forall intf, should_announce s' i intf = DAnnounceIP) by (intros; apply (not_held_iff _ _ _ I'); exact NH).
  split; [exact SA|]. split; [|split].
  - intros intf mac op dst E. apply arp_reply_iff in E. destruct E as [_ [_ E]]. rewrite SA in E. discriminate.
  - intros a E. apply gratuitous_guard; [exact I'|]. intros svc b Hh. rewrite E. eapply NH; eauto.
  - pose proof (rc_nonneg s' i I'). destruct (Z.eq_dec (rc s' i) 0) as [E|E]; [exact E|]. exfalso.
    assert (P : 0 < rc s' i) by lia. apply (rc_pos_iff _ _ I') in P. destruct P as [svc [a [H1 H2]]]. eapply NH; eauto.
Qed.

Lemma t_withdraw_one_of_many ar nd us name other a intf : let s := reached ar nd us in
  other <> name -> holds s other a -> match_intf a intf = true ->
  let s' := delete_balancer name s in
  should_announce s' (a_ip a) intf = DNone /\ 0 < rc s' (a_ip a) /\
  (forall b, a_ip b = a_ip a -> gratuitous s' b = match a_ip b with
     | V4 _ => map (pair true) (filter (match_intf b) (arps s'))
     | V6 _ => map (pair false) (filter (match_intf b) (ndps s')) end).
Proof.
  intros s Hne Hh M s'. pose proof (reached_inv ar nd us) as I. fold s in I.
  pose proof (inv_delete_balancer name s I) as I'. fold s' in I'.
  assert (Hh' : holds s' other a) by (apply (holds_delete name s other a I); auto).
  split; [|split].
  - apply (answer_iff _ _ _ I'). exists other, a. auto.
  - apply (rc_pos_iff _ _ I'). exists other, a. auto.
  - intros b E. apply gratuitous_held; [exact I'|]. exists other, a. auto.
Qed.

(* announcing answers on the advertisement's interfaces; re-announcing with a changed
   interface set replaces the old scope; other services / addresses are untouched *)
Lemma t_announce ar nd us name a : let s := reached ar nd us in
  let s' := set_balancer name a s in
  holds s' name a /\
  (forall b, holds s' name b -> a_ip b = a_ip a -> b = a) /\
  (forall b, a_ip b <> a_ip a -> (holds s' name b <-> holds s name b)) /\
  (forall svc b, svc <> name -> (holds s' svc b <-> holds s svc b)) /\
  (forall intf, match_intf a intf = true -> should_announce s' (a_ip a) intf = DNone) /\
  (forall intf, (forall svc b, svc <> name -> holds s svc b -> a_ip b <> a_ip a) ->
                (should_announce s' (a_ip a) intf = DNone <-> match_intf a intf = true)).
Proof.
  intros s s'. pose proof (reached_inv ar nd us) as I. fold s in I.
  pose proof (inv_set_balancer name a s I) as I'. fold s' in I'.
  split; [apply holds_set_self|]. split; [intros b; apply holds_set_self_unique; exact I|].
  split; [intros b; apply holds_set_self_other|]. split; [intros svc b Hne; apply holds_set_other; assumption|].
  split.
  - intros intf M. apply (answer_iff _ _ _ I'). exists name, a. split; [apply holds_set_self|auto].
  - intros intf Sole. rewrite (answer_iff _ _ _ I'). split.
    + intros [svc [b [Hh [E M]]]]. destruct (N.eq_dec svc name) as [->|Hne].
      * assert (b = a) by (apply (holds_set_self_unique name a s b I Hh E)). subst. exact M.
      * exfalso. apply (holds_set_other name a s svc b I Hne) in Hh. eapply Sole; eauto.
    + intros M. exists name, a. split; [apply holds_set_self|auto].
Qed.

Lemma t_gratuitous_guard ar nd us a : let s := reached ar nd us in
  (rc s (a_ip a) <= 0 -> gratuitous s a = []) /\
  (rc s (a_ip a) = 0 <-> forall svc b, holds s svc b -> a_ip b <> a_ip a) /\
  (forall x, In x (gratuitous s a) ->
     (exists svc b, holds s svc b /\ a_ip b = a_ip a) /\ match_intf a (snd x) = true /\
     In (snd x) (if fst x then arps s else ndps s)).
Proof.
  intros s. pose proof (reached_inv ar nd us) as I. fold s in I. split; [|split].
  - intros H. unfold gratuitous. destruct (rc s (a_ip a) <=? 0) eqn:E; [reflexivity|lia].
  - pose proof (rc_nonneg s (a_ip a) I) as NN. pose proof (rc_pos_iff s (a_ip a) I) as P. split.
    + intros E svc b Hh Hip. assert (0 < rc s (a_ip a)); [|lia]. apply P. eauto.
    + intros H. destruct (Z.eq_dec (rc s (a_ip a)) 0) as [E|E]; [exact E|]. exfalso.
      assert (Q : 0 < rc s (a_ip a)) by lia. apply P in Q. destruct Q as [svc [b [H1 H2]]]. eapply H; eauto.
  - intros x Hx. destruct (gratuitous_sent s a x I Hx) as [A B]. split; [exact A|]. split; [exact B|].
    unfold gratuitous in Hx. destruct (rc s (a_ip a) <=? 0); [destruct Hx|].
    destruct (a_ip a); apply in_map_iff in Hx; destruct Hx as [y [<- Hx]]; apply filter_In in Hx; apply Hx.
Qed.

Lemma ndps_run us s : ndps (run us s) = ndps s.
Proof.
  revert s. induction us as [|u us IH]; intros s; cbn; [reflexivity|]. rewrite IH.
  destruct u as [name a|name]; cbn.
  - unfold set_balancer. destruct (existsb _ _); reflexivity.
  - unfold delete_balancer. destruct (lookup name (ips s)); [rewrite ndps_fold_dec1|]; reflexivity.
Qed.

Lemma t_ndp_groups_balanced ar nd us intf g : NoDup nd -> In intf nd ->
  let s := reached ar nd us in
  grp s intf g = Z.of_nat (length (filter (in_group g) (announced s))) /\
  mem s intf g = (if 0 <? grp s intf g then 1 else 0) /\
  NoDup (announced s) /\
  (forall i, In i (announced s) <-> exists svc a, holds s svc a /\ a_ip a = i).
Proof.
  intros ND HI s.
  assert (FI : full_inv s) by (apply full_inv_run, full_inv_init; exact ND).
  assert (HI' : In intf (ndps s)) by (unfold s, reached; rewrite ndps_run; exact HI).
  destruct (groups_balanced s intf g FI HI') as [A B]. split; [exact A|]. split; [exact B|].
  split; [apply NoDup_nodup|]. intros i. destruct FI as [I _].
  rewrite (announced_rc _ _ I). apply rc_pos_iff. exact I.
Qed.

Lemma t_rw_atomic evs s0 :
  exec evs s0 = (run (updates evs) s0, serial_answers evs [] s0) /\
  forall ans, In ans (snd (exec evs s0)) ->
    exists pre post q, updates evs = pre ++ post /\ ans = ask (run pre s0) q.
Proof.
  pose proof (exec_serial evs [] s0) as E. cbn in E. split; [exact E|].
  intros ans H. rewrite E in H. cbn [snd] in H. apply serial_answers_prefix in H. exact H.
Qed.
