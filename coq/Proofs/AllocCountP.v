(* Pool usage counters (C11): bounds of the capacity arithmetic, regression
   lemmas for the two repaired defects of poolCount (F3, F16). *)
From Coq Require Import List NArith ZArith Bool Lia ZifyN ZifyBool.
From Verif Require Import Model.Net Model.Alloc Proofs.NetP Proofs.AllocP.
Import ListNotations.
Local Open Scope Z_scope.
Local Arguments N.sub : simpl never.
Local Arguments Z.mul : simpl never.
Local Arguments Z.pow : simpl never.
Local Arguments Z.sub : simpl never.
Local Arguments Z.of_N : simpl never.

Lemma b2z_range b : 0 <= b2z b <= 1.
Proof. destruct b; cbn; lia. Qed.

Lemma pow2_ge1 n : 0 <= n -> 1 <= 2 ^ n.
Proof. intros H. pose proof (Z.pow_pos_nonneg 2 n). lia. Qed.

Lemma cidr_count_nonneg avoid c n :
  (plen c <= width (pfam c))%N -> cidr_count avoid c = Some n -> 0 <= n.
Proof.
  unfold cidr_count. intros Hw. destruct (62 <=? width (pfam c) - plen c)%N; [discriminate|].
  intros H. injection H as Hn. rewrite <- Hn. clear Hn n. set (hb := (width (pfam c) - plen c)%N).
  pose proof (pow2_ge1 (Z.of_N hb) ltac:(lia)) as Hsz.
  destruct (avoid && fam_eqb (pfam c) F4) eqn:Ha; [|lia].
  apply andb_true_iff in Ha. destruct Ha as [_ Hf]. apply fam_eqb_eq in Hf.
  assert (Hhb : Z.of_N hb = 32 - Z.of_N (plen c)).
  { unfold hb. rewrite Hf in Hw |- *. change (width F4) with 32%N in *. clear - Hw. lia. }
  destruct (plen c <=? 24)%N eqn:Hl.
  - apply N.leb_le in Hl.
    assert (E : 2 ^ Z.of_N hb = 256 * 2 ^ Z.of_N (24 - plen c)).
    { rewrite Hhb. replace (32 - Z.of_N (plen c)) with (8 + Z.of_N (24 - plen c)) by lia.
      rewrite Z.pow_add_r by lia. reflexivity. }
    rewrite E. pose proof (pow2_ge1 (Z.of_N (24 - plen c)) ltac:(lia)) as Hk.
    set (k := 2 ^ Z.of_N (24 - plen c)) in *. clearbody k. clear - Hk. lia.
  - apply N.leb_gt in Hl.
    pose proof (b2z_range (buggy (mk_ip (pfam c) (pfirst c)))).
    pose proof (b2z_range (buggy (mk_ip (pfam c) (plast c)))).
    destruct (pfirst c =? plast c)%N eqn:Hfl; [lia|].
    (* first <> last: the block has at least two addresses *)
    apply N.eqb_neq in Hfl. unfold plast, block in Hfl. fold hb in Hfl.
    assert (hb <> 0)%N. { intros E0. rewrite E0 in Hfl. cbn in Hfl. lia. }
    assert (2 <= 2 ^ Z.of_N hb).
    { replace (Z.of_N hb) with (1 + (Z.of_N hb - 1)) by lia. rewrite Z.pow_add_r by lia.
      pose proof (pow2_ge1 (Z.of_N hb - 1) ltac:(lia)). lia. }
    lia.
Qed.

Lemma sat_add_bounds x y : 0 <= x <= max_i64 -> 0 <= y -> 0 <= sat_add x y <= max_i64.
Proof. unfold sat_add, max_i64. intros. lia. Qed.

Definition wf_pool_lens (p : pool) : Prop := forall c, In c (p_cidrs p) -> (plen c <= width (pfam c))%N.

(* the reported capacity is never negative and never exceeds MaxInt64 *)
Lemma pool_capacity_bounds p f : wf_pool_lens p -> 0 <= pool_capacity p f <= max_i64.
Proof.
  unfold pool_capacity, wf_pool_lens. intros Hw.
  assert (G : forall l acc, (forall c, In c l -> (plen c <= width (pfam c))%N) -> 0 <= acc <= max_i64 ->
     0 <= fold_left (fun acc c => if fam_eqb (pfam c) f then
                            match cidr_count (p_avoid p) c with None => max_i64 | Some n => sat_add acc n end
                          else acc) l acc <= max_i64).
  { induction l as [|c l IH]; intros acc Hl Hacc; cbn [fold_left]; [exact Hacc|].
    apply IH; [intros c' Hc'; apply Hl; right; exact Hc'|].
    destruct (fam_eqb (pfam c) f); [|exact Hacc].
    destruct (cidr_count (p_avoid p) c) as [n|] eqn:E.
    - apply sat_add_bounds; [exact Hacc|]. eapply cidr_count_nonneg; [|exact E]. apply Hl. left. reflexivity.
    - unfold max_i64. lia. }
  apply G; [exact Hw|unfold max_i64; lia].
Qed.

(* saturating sum = min(MaxInt64, exact sum); an "enormous" prefix makes it MaxInt64 *)
Fixpoint exact_sum (avoid : bool) (f : fam) (l : list prefix) : option Z :=
  match l with
  | [] => Some 0
  | c :: r =>
      if fam_eqb (pfam c) f then
        match cidr_count avoid c, exact_sum avoid f r with
        | Some n, Some m => Some (n + m)
        | _, _ => None
        end
      else exact_sum avoid f r
  end.

Lemma capacity_fold_saturating avoid f l : forall acc,
  (forall c, In c l -> (plen c <= width (pfam c))%N) -> 0 <= acc <= max_i64 ->
  fold_left (fun acc c => if fam_eqb (pfam c) f then
                            match cidr_count avoid c with None => max_i64 | Some n => sat_add acc n end
                          else acc) l acc =
  match exact_sum avoid f l with
  | Some m => Z.min max_i64 (acc + m)
  | None => max_i64
  end.
Proof.
  induction l as [|c l IH]; intros acc Hl Hacc; cbn [fold_left exact_sum].
  - unfold max_i64 in *. lia.
  - assert (Hl' : forall c', In c' l -> (plen c' <= width (pfam c'))%N) by (intros; apply Hl; right; assumption).
    destruct (fam_eqb (pfam c) f); [|apply IH; assumption].
    destruct (cidr_count avoid c) as [n|] eqn:E.
    + pose proof (cidr_count_nonneg avoid c n (Hl c (or_introl eq_refl)) E) as Hn.
      rewrite IH; [|exact Hl'|apply sat_add_bounds; assumption].
      destruct (exact_sum avoid f l) as [m|] eqn:Em; [|reflexivity].
      assert (0 <= m).
      { clear - Em Hl'. revert m Em. induction l as [|d l IHl]; cbn [exact_sum]; intros m Em.
        - injection Em as <-. lia.
        - assert (Hl'' : forall c', In c' l -> (plen c' <= width (pfam c'))%N) by (intros; apply Hl'; right; assumption).
          destruct (fam_eqb (pfam d) f); [|apply IHl; assumption].
          destruct (cidr_count avoid d) as [n'|] eqn:E'; [|discriminate].
          destruct (exact_sum avoid f l) as [m'|]; [|discriminate]. injection Em as <-.
          pose proof (cidr_count_nonneg avoid d n' (Hl' d (or_introl eq_refl)) E'). specialize (IHl Hl'' m' eq_refl). lia. }
      unfold sat_add, max_i64 in *. lia.
    + rewrite IH; [|exact Hl'|unfold max_i64; lia].
      destruct (exact_sum avoid f l) as [m|] eqn:Em; [|reflexivity].
      assert (0 <= m).
      { clear - Em Hl'. revert m Em. induction l as [|d l IHl]; cbn [exact_sum]; intros m Em.
        - injection Em as <-. lia.
        - assert (Hl'' : forall c', In c' l -> (plen c' <= width (pfam c'))%N) by (intros; apply Hl'; right; assumption).
          destruct (fam_eqb (pfam d) f); [|apply IHl; assumption].
          destruct (cidr_count avoid d) as [n'|] eqn:E'; [|discriminate].
          destruct (exact_sum avoid f l) as [m'|]; [|discriminate]. injection Em as <-.
          pose proof (cidr_count_nonneg avoid d n' (Hl' d (or_introl eq_refl)) E'). specialize (IHl Hl'' m' eq_refl). lia. }
      unfold max_i64 in *. lia.
Qed.

Theorem pool_capacity_saturating p f :
  wf_pool_lens p ->
  pool_capacity p f = match exact_sum (p_avoid p) f (p_cidrs p) with
                      | Some m => Z.min max_i64 m
                      | None => max_i64
                      end.
Proof.
  intros Hw. unfold pool_capacity. rewrite capacity_fold_saturating; [|exact Hw|unfold max_i64; lia].
  destruct (exact_sum _ _ _); reflexivity.
Qed.

(* the saturating sum does not depend on the order of the CIDRs *)
Lemma exact_sum_app avoid f l1 l2 :
  exact_sum avoid f (l1 ++ l2) =
  match exact_sum avoid f l1, exact_sum avoid f l2 with Some a, Some b => Some (a + b) | _, _ => None end.
Proof.
  induction l1 as [|c l1 IH]; cbn [app exact_sum].
  - destruct (exact_sum avoid f l2); reflexivity.
  - destruct (fam_eqb (pfam c) f); [|exact IH]. rewrite IH.
    destruct (cidr_count avoid c), (exact_sum avoid f l1), (exact_sum avoid f l2); try reflexivity. f_equal. lia.
Qed.

(* counters: assigned + available = capacity, assigned counts distinct addresses *)
Theorem counters_sum a n p :
  find_pool (s_pools a) n = Some p ->
  c_assigned4 (counters_for a n) + c_avail4 (counters_for a n) = pool_capacity p F4 /\
  c_assigned6 (counters_for a n) + c_avail6 (counters_for a n) = pool_capacity p F6 /\
  0 <= c_assigned4 (counters_for a n) /\ 0 <= c_assigned6 (counters_for a n).
Proof.
  intros H. unfold counters_for. rewrite H. cbn. unfold assigned. lia.
Qed.

Lemma dedup_NoDup l : NoDup (dedup_ips l).
Proof.
  induction l as [|x l IH]; cbn; [constructor|]. destruct (mem_ip x l) eqn:E; [exact IH|].
  constructor; [|exact IH]. intros Hin.
  assert (In x l).
  { clear - Hin. induction l as [|y l IHl]; cbn in Hin; [destruct Hin|].
    destruct (mem_ip y l); [right; auto|]. destruct Hin as [->|Hin]; [left; reflexivity|right; auto]. }
  apply mem_ip_In in H. congruence.
Qed.

Lemma dedup_In x l : In x (dedup_ips l) <-> In x l.
Proof.
  induction l as [|y l IH]; cbn; [tauto|]. destruct (mem_ip y l) eqn:E.
  - rewrite IH. split; [tauto|]. intros [->|H]; [apply mem_ip_In; exact E|exact H].
  - cbn. rewrite IH. tauto.
Qed.

(* the addresses counted as in use under a pool name are exactly the distinct
   addresses of the allocations recorded under that name *)
Theorem ips_in_use_spec a n x :
  In x (ips_in_use a n) <-> exists e, In e (allocated a) /\ a_pool (snd e) = n /\ In x (a_ips (snd e)).
Proof.
  unfold ips_in_use. rewrite dedup_In, in_flat_map. split.
  - intros [e [He Hx]]. destruct (N.eqb_spec (a_pool (snd e)) n); [|destruct Hx]. exists e. auto.
  - intros [e [He [Hn Hx]]]. exists e. split; [exact He|]. rewrite Hn, N.eqb_refl. exact Hx.
Qed.

Theorem ips_in_use_NoDup a n : NoDup (ips_in_use a n).
Proof. apply dedup_NoDup. Qed.

(* ---- regression lemmas: the arithmetic before the two fixes ---- *)
Definition f3_pool : pool :=
  {| p_name := 1%N; p_cidrs := [ {| pfam := F6; pbase := (2^127 + 2^126 + 2^125 + 2^124 + 2^123 + 2^122)%N; plen := 64%N |};
                                {| pfam := F6; pbase := (2^127 + 2^126 + 2^125 + 2^124 + 2^123 + 2^122 + 2^112)%N; plen := 120%N |} ];
     p_avoid := false; p_auto := true; p_pin := None |}.

Lemma F3_prefix_refuted : pool_capacity_prefix f3_pool F6 < 0.
Proof. vm_compute. reflexivity. Qed.

Lemma F3_fixed : pool_capacity f3_pool F6 = max_i64.
Proof. vm_compute. reflexivity. Qed.

Definition f16_cidr : prefix := {| pfam := F4; pbase := 167772160%N; plen := 32%N |}.   (* 10.0.0.0/32 *)

Lemma F16_prefix_refuted : cidr_count_prefix true f16_cidr = Some (-1).
Proof. vm_compute. reflexivity. Qed.

Lemma F16_fixed : cidr_count true f16_cidr = Some 0.
Proof. vm_compute. reflexivity. Qed.
