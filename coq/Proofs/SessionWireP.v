(* Session meets Wire: a peer the handshake accepts is a peer for which every
   admissible advertisement can be encoded (connect's guard is exactly
   sendUpdate's "asn does not fit in 2 octets" error case). *)
From Coq Require Import List NArith Bool Lia ZifyN ZifyBool.
From Verif Require Import Model.Wire Model.Session Proofs.WireP Proofs.SessionP.
Import ListNotations.
Local Open Scope N_scope.

Definition ibgp_of (c : cfg) : bool := my_asn c =? peer_asn c.

Theorem established_can_encode c asn fb nh a :
  hs_accept c asn fb = true ->
  wf_uparams (my_asn c) nh a -> len (a_comms a) <= 63 -> forallb is_legacy (a_comms a) = true ->
  enc_update (my_asn c) (ibgp_of c) fb nh a <> None.
Proof.
  unfold hs_accept, hs_accept_gen. intros H Hwf Hn Hl E.
  apply (enc_update_none _ _ _ _ _ Hwf) in E.
  destruct E as [(_ & -> & Hasn) | [E | E]]; [|lia|congruence].
  apply andb_true_iff in H. destruct H as [_ H]. replace (65535 <? my_asn c) with true in H by lia.
  discriminate.
Qed.

(* the OPEN a session writes (connect: sendOpen(conn, s.MyASN, routerID, *s.HoldTime))
   carries the configured AS number and hold time -- 90 only for a nil HoldTime,
   an explicit 0 stays 0 and then there is no keepalive timer *)
Theorem session_open_decodes c rid bs w4 :
  my_asn c < 4294967296 -> wf_ip4 rid -> session_hold c < 65536 -> (session_hold c = 0 \/ 3 <= session_hold c) ->
  enc_open (my_asn c) rid (session_hold c) = Some bs ->
  dec_msg w4 bs = Some (intended_open (my_asn c) rid (session_hold c)).
Proof. intros Ha Hr Hh Hh' He. exact (proj1 (open_roundtrip _ _ _ _ w4 Ha Hr Hh Hh' He)). Qed.

Lemma session_hold_spec c :
  (cfg_hold c = None -> session_hold c = 90) /\
  (forall h, cfg_hold c = Some h -> session_hold c = h) /\
  (cfg_hold c = Some 0 -> forall ph, keepalive_period c ph = None).
Proof.
  unfold keepalive_period, session_hold. split; [|split].
  - intros E. rewrite E. reflexivity.
  - intros h E. rewrite E. reflexivity.
  - intros E ph. rewrite E. rewrite N.min_0_l. reflexivity.
Qed.

(* whatever UPDATE a flush writes on an established connection, the peer --
   parsing AS_PATH with the width IT announced on this connection -- reads
   exactly the intended route *)
Theorem established_update_decodes c es w id nh a bs :
  run c world0 es = Some w -> conn (ws w) = Some id -> up (wp w) = Some id ->
  wf_uparams (my_asn c) nh a ->
  enc_update (my_asn c) (ibgp_of c) (emit_width w) nh a = Some bs ->
  dec_msg (pcap (wp w)) bs = Some (intended_update (my_asn c) (ibgp_of c) nh a).
Proof.
  intros Hr Hc Hu Hwf He. rewrite <- (flush_uses_connection_capability c es w id Hr Hc Hu).
  exact (proj1 (update_roundtrip _ _ _ _ _ _ Hwf He)).
Qed.

(* why the flag must follow the connection: an eBGP UPDATE encoded for a
   4-octet peer is not what a 2-octet peer reads (and vice versa) *)
Lemma wrong_width_misread :
  exists asn nh a bs, wf_uparams asn nh a /\ enc_update asn false true nh a = Some bs /\
    dec_msg false bs <> Some (intended_update asn false nh a) /\
  exists bs', enc_update asn false false nh a = Some bs' /\
    dec_msg true bs' <> Some (intended_update asn false nh a).
Proof.
  exists 64512, [127; 0; 0; 1], {| a_pfx := {| p_ip := [10; 20; 0; 0]; p_len := 24 |}; a_lp := 0; a_comms := [] |}.
  eexists. split.
  { split; [cbn; lia|]. split; [split; [reflexivity|]; repeat constructor|].
    split; [|split; [cbn; lia | constructor]]. split; [reflexivity|]. split; [repeat constructor | cbn; lia]. }
  split; [reflexivity|]. split; [vm_compute; discriminate|].
  eexists. split; [reflexivity|]. vm_compute. discriminate.
Qed.

(* before fix: 588bbc0 the guard was MyASN > 65536 *)
Definition hs_accept_prefix : cfg -> N -> bool -> bool := hs_accept_gen 65536.

Lemma established_can_encode_refuted_prefix :
  exists c asn fb nh a, hs_accept_prefix c asn fb = true /\ wf_uparams (my_asn c) nh a /\
    len (a_comms a) <= 63 /\ forallb is_legacy (a_comms a) = true /\
    enc_update (my_asn c) (ibgp_of c) fb nh a = None.
Proof.
  exists {| my_asn := 65536; peer_asn := 64999; universe := []; cfg_hold := None |}, 64999, false, [127; 0; 0; 1],
    {| a_pfx := {| p_ip := [10; 20; 0; 0]; p_len := 24 |}; a_lp := 0; a_comms := [] |}.
  split; [reflexivity|]. split.
  { split; [cbn; lia|]. split; [split; [reflexivity|]; repeat constructor|].
    split; [|split; [cbn; lia | constructor]]. split; [reflexivity|]. split; [repeat constructor | cbn; lia]. }
  split; [cbn; lia|]. split; reflexivity.
Qed.

Lemma hs_accept_65536_fixed :
  hs_accept {| my_asn := 65536; peer_asn := 64999; universe := []; cfg_hold := None |} 64999 false = false.
Proof. reflexivity. Qed.
