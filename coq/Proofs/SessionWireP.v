(* Session meets Wire: a peer the handshake accepts is a peer for which every
   admissible advertisement can be encoded (connect's guard is exactly
   sendUpdate's "asn does not fit in 2 octets" error case). *)
From Coq Require Import List NArith Bool Lia ZifyN ZifyBool.
From Verif Require Import Model.Wire Model.Session Proofs.WireP Proofs.WireSizeP Proofs.SessionP.
Import ListNotations.
Local Open Scope N_scope.

Definition ibgp_of (c : cfg) : bool := my_asn c =? peer_asn c.

Theorem established_can_encode c asn fb nh a :
  hs_accept c asn fb = true ->
  wf_uparams (my_asn c) nh a -> len (a_comms a) <= 63 -> forallb is_legacy (a_comms a) = true ->
  enc_update (my_asn c) (ibgp_of c) fb nh a <> None.
Proof.
  unfold hs_accept, hs_accept_gen. intros H Hwf Hn Hl E.
  apply (enc_update_none _ _ _ _ _ Hwf) in E.
  destruct E as [(_ & -> & Hasn) | [E | E]]; [|lia|congruence].
  apply andb_true_iff in H. destruct H as [_ H]. replace (65535 <? my_asn c) with true in H by lia.
  discriminate.
Qed.

(* the OPEN a session writes (connect: sendOpen(conn, s.MyASN, routerID, *s.HoldTime))
   carries the configured AS number and hold time -- 90 only for a nil HoldTime,
   an explicit 0 stays 0 and then there is no keepalive timer *)
Theorem session_open_decodes c rid bs w4 :
  my_asn c < 4294967296 -> wf_ip4 rid -> session_hold c < 65536 -> (session_hold c = 0 \/ 3 <= session_hold c) ->
  enc_open (my_asn c) rid (session_hold c) = Some bs ->
  dec_msg w4 bs = Some (intended_open (my_asn c) rid (session_hold c)).
Proof. intros Ha Hr Hh Hh' He. exact (proj1 (open_roundtrip _ _ _ _ w4 Ha Hr Hh Hh' He)). Qed.

Lemma session_hold_spec c :
  (cfg_hold c = None -> session_hold c = 90) /\
  (forall h, cfg_hold c = Some h -> session_hold c = h) /\
  (cfg_hold c = Some 0 -> forall ph, keepalive_period c ph = None).
Proof.
  unfold keepalive_period, session_hold. split; [|split].
  - intros E. rewrite E. reflexivity.
  - intros h E. rewrite E. reflexivity.
  - intros E ph. rewrite E. rewrite N.min_0_l. reflexivity.
Qed.

(* whatever UPDATE a flush writes on an established connection, the peer --
   parsing AS_PATH with the width IT announced on this connection -- reads
   exactly the intended route *)
Theorem established_update_decodes c es w id nh a bs :
  run c world0 es = Some w -> conn (ws w) = Some id -> up (wp w) = Some id ->
  wf_uparams (my_asn c) nh a ->
  enc_update (my_asn c) (ibgp_of c) (emit_width w) nh a = Some bs ->
  dec_msg (pcap (wp w)) bs = Some (intended_update (my_asn c) (ibgp_of c) nh a).
Proof.
  intros Hr Hc Hu Hwf He. rewrite <- (flush_uses_connection_capability c es w id Hr Hc Hu).
  exact (proj1 (update_roundtrip _ _ _ _ _ _ Hwf He)).
Qed.

(* why the flag must follow the connection: an eBGP UPDATE encoded for a
   4-octet peer is not what a 2-octet peer reads (and vice versa) *)
Lemma wrong_width_misread :
  exists asn nh a bs, wf_uparams asn nh a /\ enc_update asn false true nh a = Some bs /\
    dec_msg false bs <> Some (intended_update asn false nh a) /\
  exists bs', enc_update asn false false nh a = Some bs' /\
    dec_msg true bs' <> Some (intended_update asn false nh a).
Proof.
  exists 64512, [127; 0; 0; 1], {| a_pfx := {| p_ip := [10; 20; 0; 0]; p_len := 24 |}; a_lp := 0; a_comms := [] |}.
  eexists. split.
  { split; [cbn; lia|]. split; [split; [reflexivity|]; repeat constructor|].
    split; [|split; [cbn; lia | constructor]]. split; [reflexivity|]. split; [repeat constructor | cbn; lia]. }
  split; [reflexivity|]. split; [vm_compute; discriminate|].
  eexists. split; [reflexivity|]. vm_compute. discriminate.
Qed.

(* before fix: 588bbc0 the guard was MyASN > 65536 *)
Definition hs_accept_prefix : cfg -> N -> bool -> bool := hs_accept_gen 65536.

Lemma established_can_encode_refuted_prefix :
  exists c asn fb nh a, hs_accept_prefix c asn fb = true /\ wf_uparams (my_asn c) nh a /\
    len (a_comms a) <= 63 /\ forallb is_legacy (a_comms a) = true /\
    enc_update (my_asn c) (ibgp_of c) fb nh a = None.
Proof.
  exists {| my_asn := 65536; peer_asn := 64999; universe := []; cfg_hold := None |}, 64999, false, [127; 0; 0; 1],
    {| a_pfx := {| p_ip := [10; 20; 0; 0]; p_len := 24 |}; a_lp := 0; a_comms := [] |}.
  split; [reflexivity|]. split.
  { split; [cbn; lia|]. split; [split; [reflexivity|]; repeat constructor|].
    split; [|split; [cbn; lia | constructor]]. split; [reflexivity|]. split; [repeat constructor | cbn; lia]. }
  split; [cbn; lia|]. split; reflexivity.
Qed.

Lemma hs_accept_65536_fixed :
  hs_accept {| my_asn := 65536; peer_asn := 64999; universe := []; cfg_hold := None |} 64999 false = false.
Proof. reflexivity. Qed.

(* ------------------------------------------------------------ withdraws at byte level *)
(* [kp] maps a key of the session model (Prefix.String() of the advertisement) to
   the IPv4 prefix put on the wire.  ASSUMPTION of Model/Session.v, stated here:
   distinct keys denote distinct NLRI ([nlri_inj]); see [alias_example]. *)
Definition nlri_inj (kp : key -> prefix) : Prop :=
  forall k1 k2, p_len (kp k1) = p_len (kp k2) ->
    mask_to (p_len (kp k1)) (addr_val (p_ip (kp k1))) = mask_to (p_len (kp k2)) (addr_val (p_ip (kp k2))) -> k1 = k2.

(* two different Go keys ("10.0.0.1/24", "10.0.0.0/24") that are ONE route on the
   wire: Set of the first followed by Set of the second sends UPDATE (second) and
   then withdraws the first = the same NLRI.  The session model does not cover
   advertisements whose address has bits beyond the mask (the callers mask them:
   speaker/bgp_controller.go lbIP.Mask(m)). *)
Lemma alias_example :
  let p1 := {| p_ip := [10; 0; 0; 1]; p_len := 24 |} in
  let p2 := {| p_ip := [10; 0; 0; 0]; p_len := 24 |} in
  p1 <> p2 /\ wf_prefix p1 /\ wf_prefix p2 /\
  nlri_network (intended_nlri p1) = nlri_network (intended_nlri p2) /\ enc_prefix p1 = enc_prefix p2.
Proof.
  cbv zeta. split; [discriminate|]. split; [|split].
  - split; [reflexivity|]. split; [repeat constructor | cbn; lia].
  - split; [reflexivity|]. split; [repeat constructor | cbn; lia].
  - split; reflexivity.
Qed.

(* the byte form of the model's [MWdr ks]: one sendWithdraw of the prefixes.  A
   conforming peer reads it back exactly when it fits into 4096 octets, which is
   guaranteed up to 814 withdrawn routes *)
Theorem withdraw_bridge (kp : key -> prefix) (ks : list key) bs w4 :
  (forall k, wf_prefix (kp k)) -> enc_withdraw (map kp ks) = Some bs ->
  (dec_msg w4 bs = Some (intended_withdraw (map kp ks)) <-> len bs <= 4096) /\
  (len ks <= 814 -> len bs <= 4096).
Proof.
  intros Hkp He.
  assert (Hps : Forall wf_prefix (map kp ks)).
  { apply Forall_forall. intros p Hp. apply in_map_iff in Hp. destruct Hp as (k & <- & _). apply Hkp. }
  split; [exact (proj1 (withdraw_roundtrip_iff _ _ w4 Hps He))|].
  intros Hn. rewrite (enc_withdraw_len _ _ He). pose proof (len_enc_prefixes _ Hps) as Hl.
  unfold len in *. rewrite map_length in Hl. lia.
Qed.

(* ... and beyond that the convergence statement is FALSE at byte level for a
   conforming peer (finding withdraw-exceeds-4096-octets): a reachable state of
   the session model in which the next flush is ONE withdraw of 815 host routes,
   whose byte form the RFC decoder rejects.  The model's peer (like the scripted
   peer of the harness) applies the withdraw regardless of its size. *)
Definition host_prefix (k : key) : prefix := {| p_ip := [10; 100 + k / 256; k mod 256; 7]; p_len := 32 |}.
Definition keys815 : list key := map N.of_nat (seq 0 815).
Definition cfg815 : cfg := {| my_asn := 64512; peer_asn := 64999; universe := keys815; cfg_hold := None |}.
Definition es815 : list sev :=
  [ESet (map (fun k => (k, 0)) keys815); EHandshake 1 64999 true true; EFirstFlush keys815 None; ESet []].

Theorem stable_table_bytes_refuted :
  exists w ks bs, run cfg815 world0 es815 = Some w /\
    emitted cfg815 w (EDiffFlush keys815 keys815 None) = [MWdr ks] /\ len ks = 815 /\
    Forall wf_prefix (map host_prefix ks) /\
    enc_withdraw (map host_prefix ks) = Some bs /\ 4096 < len bs /\ dec_msg true bs = None.
Proof.
  destruct (run cfg815 world0 es815) as [w|] eqn:Er; [|vm_compute in Er; discriminate].
  exists w, keys815. 
  destruct (enc_withdraw (map host_prefix keys815)) as [bs|] eqn:Eb; [|vm_compute in Eb; discriminate].
  exists bs. split; [reflexivity|].
  assert (Hem : emitted cfg815 w (EDiffFlush keys815 keys815 None) = [MWdr keys815]).
  { assert (H : match run cfg815 world0 es815 with
                | Some w0 => emitted cfg815 w0 (EDiffFlush keys815 keys815 None) | None => [] end = [MWdr keys815])
      by (vm_compute; reflexivity).
    rewrite Er in H. exact H. }
  split; [exact Hem|]. split; [vm_compute; reflexivity|]. split.
  { apply Forall_forall. intros p Hp. apply in_map_iff in Hp. destruct Hp as (k & <- & Hk).
    unfold keys815 in Hk. apply in_map_iff in Hk. destruct Hk as (n & <- & Hn). apply in_seq in Hn.
    unfold host_prefix, wf_prefix. cbn [p_ip p_len]. split; [reflexivity|]. split; [|lia].
    assert (N.of_nat n / 256 < 4) by (apply N.div_lt_upper_bound; lia).
    pose proof (N.mod_lt (N.of_nat n) 256 ltac:(discriminate)).
    repeat constructor; lia. }
  split; [reflexivity|].
  assert (H : match enc_withdraw (map host_prefix keys815) with
              | Some b => (4096 <? len b) && match dec_msg true b with None => true | Some _ => false end
              | None => false end = true) by (vm_compute; reflexivity).
  rewrite Eb in H. apply andb_true_iff in H. destruct H as [H1 H2].
  split; [apply N.ltb_lt; exact H1|]. destruct (dec_msg true bs); [discriminate | reflexivity].
Qed.
