(* Soundness of the decision procedure FrrSpec.wf_sessions_b. *)
From Coq Require Import String NArith Bool List Lia.
From Verif Require Import Model.FrrSpec.
Import ListNotations.
Open Scope string_scope.

Section Eqb.
  Context {A : Type} (eqb : A -> A -> bool).
  Hypothesis sound : forall x y, eqb x y = true -> x = y.
  Hypothesis refl : forall x, eqb x x = true.

  Lemma opt_eqb_sound a b : opt_eqb eqb a b = true -> a = b.
  Proof. destruct a, b; simpl; try discriminate; [intros H; f_equal; apply sound; assumption|reflexivity]. Qed.
  Lemma opt_eqb_refl a : opt_eqb eqb a a = true.
  Proof. destruct a; simpl; auto. Qed.
  Lemma list_eqb_sound a : forall b, list_eqb eqb a b = true -> a = b.
  Proof.
    induction a as [|x a IH]; intros [|y b]; simpl; try discriminate; [reflexivity|].
    intros H. apply andb_true_iff in H as [H1 H2]. f_equal; [apply sound; assumption|apply IH; assumption].
  Qed.
  Lemma list_eqb_refl a : list_eqb eqb a a = true.
  Proof. induction a as [|x a IH]; simpl; [reflexivity|]. rewrite refl, IH. reflexivity. Qed.
End Eqb.

Lemma pair_eqb_sound {A B} (ea : A -> A -> bool) (eb : B -> B -> bool) :
  (forall x y, ea x y = true -> x = y) -> (forall x y, eb x y = true -> x = y) ->
  forall a b, pair_eqb ea eb a b = true -> a = b.
Proof.
  intros Ha Hb [a1 a2] [b1 b2]. unfold pair_eqb; simpl. intros H. apply andb_true_iff in H as [H1 H2].
  f_equal; auto.
Qed.
Lemma pair_eqb_refl {A B} (ea : A -> A -> bool) (eb : B -> B -> bool) :
  (forall x, ea x x = true) -> (forall x, eb x x = true) -> forall a, pair_eqb ea eb a a = true.
Proof. intros Ha Hb [a1 a2]. unfold pair_eqb; simpl. rewrite Ha, Hb. reflexivity. Qed.

Lemma str_sound x y : String.eqb x y = true -> x = y.
Proof. apply String.eqb_eq. Qed.
Lemma n_sound x y : N.eqb x y = true -> x = y.
Proof. apply N.eqb_eq. Qed.
Lemma bool_sound x y : Bool.eqb x y = true -> x = y.
Proof. apply Bool.eqb_prop. Qed.
Lemma bool_refl x : Bool.eqb x x = true.
Proof. destruct x; reflexivity. Qed.

Lemma prefix_eqb_sound a b : prefix_eqb a b = true -> a = b.
Proof.
  destruct a as [fa ba la], b as [fb bb lb]. unfold prefix_eqb; simpl. intros H.
  apply andb_true_iff in H as [H H3]. apply andb_true_iff in H as [H1 H2].
  apply N.eqb_eq in H2, H3. subst. destruct fa, fb; simpl in H1; try discriminate; reflexivity.
Qed.
Lemma prefix_eqb_refl a : prefix_eqb a a = true.
Proof. destruct a as [fa ba la]. unfold prefix_eqb; simpl. rewrite !N.eqb_refl. destruct fa; reflexivity. Qed.

Lemma pfx_full_eqb_sound a b : pfx_full_eqb a b = true -> a = b.
Proof.
  destruct a, b. unfold pfx_full_eqb; simpl. intros H. apply andb_true_iff in H as [H1 H2].
  apply String.eqb_eq in H1. apply prefix_eqb_sound in H2. subst. reflexivity.
Qed.
Lemma pfx_full_eqb_refl a : pfx_full_eqb a a = true.
Proof. destruct a. unfold pfx_full_eqb; simpl. rewrite String.eqb_refl, prefix_eqb_refl. reflexivity. Qed.

Lemma adv_eqb_sound a b : adv_eqb a b = true -> a = b.
Proof.
  destruct a, b. unfold adv_eqb; simpl. intros H. apply andb_true_iff in H as [H H3]. apply andb_true_iff in H as [H1 H2].
  apply pfx_full_eqb_sound in H1. apply N.eqb_eq in H2.
  apply (list_eqb_sound _ (pair_eqb_sound _ _ bool_sound str_sound)) in H3. subst. reflexivity.
Qed.
Lemma adv_eqb_refl a : adv_eqb a a = true.
Proof.
  destruct a. unfold adv_eqb; simpl. rewrite pfx_full_eqb_refl, N.eqb_refl.
  rewrite (list_eqb_refl _ (pair_eqb_refl _ _ bool_refl String.eqb_refl)). reflexivity.
Qed.

Lemma session_eqb_sound s t : session_eqb s t = true -> s = t.
Proof.
  destruct s, t. unfold session_eqb; simpl. intros H.
  repeat match type of H with (_ && _) = true => let H2 := fresh "E" in apply andb_true_iff in H as [H H2] end.
  apply N.eqb_eq in H. apply (opt_eqb_sound _ str_sound) in E17. apply String.eqb_eq in E16, E15, E13, E11, E5, E4.
  apply bool_sound in E14, E3, E2, E1. apply N.eqb_eq in E12, E9. apply (opt_eqb_sound _ str_sound) in E10.
  apply (opt_eqb_sound _ n_sound) in E8, E7, E6. apply (list_eqb_sound _ adv_eqb_sound) in E0.
  apply (pair_eqb_sound _ _ str_sound str_sound) in E. subst. reflexivity.
Qed.

Lemma session_eqb_refl s : session_eqb s s = true.
Proof.
  destruct s. unfold session_eqb; simpl.
  rewrite !N.eqb_refl, !String.eqb_refl, !bool_refl, !(opt_eqb_refl _ String.eqb_refl), !(opt_eqb_refl _ N.eqb_refl),
          (list_eqb_refl _ adv_eqb_refl), (pair_eqb_refl _ _ String.eqb_refl String.eqb_refl). reflexivity.
Qed.

Lemma kind_eqb_sound a b : kind_eqb a b = true -> a = b.
Proof.
  destruct a, b; simpl; try discriminate; intros H; try reflexivity; f_equal;
    [apply N.eqb_eq|apply String.eqb_eq|apply String.eqb_eq]; assumption.
Qed.

Lemma nodup_b_sound {A} (eqb : A -> A -> bool) (refl : forall x, eqb x x = true) l : nodup_b eqb l = true -> NoDup l.
Proof.
  induction l as [|x l IH]; simpl; intros H; [constructor|].
  apply andb_true_iff in H as [H1 H2]. constructor; [|apply IH; assumption].
  intros Hin. apply negb_true_iff in H1.
  assert (existsb (eqb x) l = true) by (apply existsb_exists; exists x; auto). congruence.
Qed.

Lemma all2_sound {A} (l : list A) f : all2 l f = true -> forall x y, In x l -> In y l -> f x y = true.
Proof.
  unfold all2. intros H x y Hx Hy. rewrite forallb_forall in H. specialize (H x Hx). rewrite forallb_forall in H. apply H; assumption.
Qed.

Lemma imp_sound a b : imp a b = true -> a = true -> b = true.
Proof. unfold imp. intros H ->. exact H. Qed.

Theorem wf_sessions_b_sound S : wf_sessions_b S = true -> wf_sessions S.
Proof.
  unfold wf_sessions_b. intros H.
  repeat match type of H with (_ && _) = true => let H2 := fresh "W" in apply andb_true_iff in H as [H H2] end.
  constructor.
  - apply (nodup_b_sound _ session_eqb_refl). assumption.
  - intros s t Hs Ht E1 E2. apply session_eqb_sound. apply (imp_sound _ _ (all2_sound _ _ W6 s t Hs Ht)).
    rewrite E1, E2, !String.eqb_refl. reflexivity.
  - intros s t Hs Ht E1. pose proof (imp_sound _ _ (all2_sound _ _ W5 s t Hs Ht)) as X.
    rewrite E1, String.eqb_refl in X. specialize (X eq_refl).
    apply andb_true_iff in X as [X X3]. apply andb_true_iff in X as [X1 X2].
    apply N.eqb_eq in X1. apply (opt_eqb_sound _ str_sound) in X2. apply String.eqb_eq in X3. auto.
  - intros x y Hx Hy E. apply pfx_full_eqb_sound. apply (imp_sound _ _ (all2_sound _ _ W4 x y Hx Hy)).
    rewrite E. apply String.eqb_refl.
  - intros s t Hs Ht E. apply String.eqb_eq. apply (imp_sound _ _ (all2_sound _ _ W3 s t Hs Ht)).
    rewrite E. apply String.eqb_refl.
  - intros s t Hs Ht E1 E2. apply session_eqb_sound. apply (imp_sound _ _ (all2_sound _ _ W2 s t Hs Ht)).
    rewrite E1, E2, !String.eqb_refl. reflexivity.
  - intros s t k k' Hs Ht Hk Hk' E. pose proof (all2_sound _ _ W1 s t Hs Ht) as X.
    rewrite forallb_forall in X. specialize (X k Hk). rewrite forallb_forall in X. specialize (X k' Hk').
    pose proof (imp_sound _ _ X) as Y. rewrite E, String.eqb_refl in Y. specialize (Y eq_refl). apply andb_true_iff in Y as [X1 X2].
    split; [apply session_eqb_sound|apply kind_eqb_sound]; assumption.
  - intros s t Hs Ht E. apply session_eqb_sound. apply (imp_sound _ _ (all2_sound _ _ W0 s t Hs Ht)).
    rewrite E. apply String.eqb_refl.
  - intros s t Hs Ht E. pose proof (all2_sound _ _ W s t Hs Ht) as X. cbv beta in X. rewrite E, String.eqb_refl in X. discriminate.
Qed.

Theorem route_ok_b_sound S p : route_ok_b S p = true -> route_ok S p.
Proof.
  unfold route_ok_b, route_ok. intros H x Hx E. rewrite forallb_forall in H. specialize (H x Hx).
  apply pfx_full_eqb_sound. apply (imp_sound _ _ H). rewrite E. apply String.eqb_refl.
Qed.

Theorem comms_ok_b_sound S : comms_ok_b S = true -> comms_ok S.
Proof.
  unfold comms_ok_b, comms_ok. intros H s a c Hs Ha Hc.
  rewrite forallb_forall in H. specialize (H s Hs). rewrite forallb_forall in H. specialize (H a Ha).
  rewrite forallb_forall in H. specialize (H (false, c) Hc). simpl in H. apply negb_true_iff in H. exact H.
Qed.

Theorem canonical_texts_b_sound S p : canonical_texts_b S p = true -> canonical_texts S p.
Proof.
  unfold canonical_texts_b, canonical_texts. intros H x y Hx Hy E. apply String.eqb_eq.
  apply (imp_sound _ _ (all2_sound _ _ H x y Hx Hy)). rewrite E. apply prefix_eqb_refl.
Qed.
