(* C06, the central clause: a new controller instance that starts from the
   recorded statuses gives every Service whose recorded addresses are (jointly)
   admissible exactly those addresses back, whatever order reprocessAll lists the
   Services in within its "more recorded addresses first" rule and whatever the
   allocator would have chosen for the others - as long as no Service is a
   PreferDualStack one holding a single address (finding F14) and every recorded
   status is admissible (finding F21). *)
From Coq Require Import List NArith Bool Lia.
From Verif Require Import Model.Net Model.Alloc Model.Ctrl Proofs.NetP Proofs.AllocP Proofs.AllocPolicyP
  Proofs.AllocMonoP Proofs.CtrlP Proofs.CtrlWorldP Proofs.CtrlThmP Proofs.CtrlStarveP.
Import ListNotations.
Local Open Scope N_scope.

Section Restart.
Variable rank : ip -> N.

Lemma additional_applies_sort2 r l : additional_applies r (sort2 rank l) = additional_applies r l.
Proof.
  unfold additional_applies, sort2. destruct l as [|x [|y [|z t]]]; try reflexivity.
  destruct (rank y <? rank x); reflexivity.
Qed.

(* one run of convergeBalancer on a Service whose recorded addresses are admissible
   and that cannot gain a second family: memory gets exactly the recorded addresses *)
Lemma converge_recorded a s o k v ok :
  admissible_now rank a s o -> additional_applies (o_req o) (o_status o) = false ->
  converge rank a s o k = CR v ok ->
  ok = true /\ cv_mem v = fst (assign a s (o_req o) (o_status o)) /\ same_ips (cv_status v) (o_status o) /\
  (cv_status v = o_status o \/ cv_status v = sort2 rank (o_status o)).
Proof.
  intros (Hlb & Hpools & Hcl & Hreq & Hst & Hfam & a' & Has & Hwp & Hwant) Hna.
  unfold converge. rewrite Hlb, Hcl, Hreq. cbn [negb].
  destruct (by_name (s_pools a)) as [|p0 ps0] eqn:Ebn; [congruence|].
  set (c0 := {| cv_mem := a; cv_status := o_status o; cv_annot := o_annot o |}).
  assert (EA : stageA c0 s o = (c0, o_status o)).
  { unfold stageA. destruct (o_status o) as [|x l] eqn:Es; [congruence|]. rewrite Hfam. reflexivity. }
  rewrite EA.
  set (c2 := {| cv_mem := a'; cv_status := o_status o; cv_annot := o_annot o |}).
  assert (EB : exists lb3, stageB rank c0 (o_status o) s o = inl (c2, lb3) /\ same_ips lb3 (o_status o) /\
                           (lb3 = o_status o \/ lb3 = sort2 rank (o_status o))).
  { unfold stageB. destruct (o_status o) as [|x l] eqn:Es; [congruence|]. cbn [cv_mem c0]. rewrite Has.
    cbv beta iota zeta.
    assert (Hfin : exists lb3,
              match o_want o with
              | WNone => inl (c2, x :: l)
              | WIps d => if equal_ips rank (x :: l) d then inl (c2, sort2 rank (x :: l)) else inl (clear c2 s, [])
              | WInvalid => inr c2
              end = inl (c2, lb3) /\ same_ips lb3 (x :: l) /\ (lb3 = x :: l \/ lb3 = sort2 rank (x :: l))).
    { destruct Hwant as [->|[d [-> Heq]]].
      - exists (x :: l). split; [reflexivity|]. split; [apply same_ips_refl|left; reflexivity].
      - rewrite Heq. exists (sort2 rank (x :: l)). split; [reflexivity|]. split; [apply sort2_same|right; reflexivity]. }
    destruct (o_want_pool o) as [p|] eqn:Ep.
    - cbn [cv_mem]. rewrite (Hwp p eq_refl). cbn [opt_pool_eqb]. rewrite N.eqb_refl. exact Hfin.
    - exact Hfin. }
  destruct EB as (lb3 & EB & Hsame3 & Hlb3). rewrite EB.
  assert (Hne3 : lb3 <> []).
  { intros ->. destruct (o_status o) as [|x l]; [congruence|]. specialize (Hsame3 x). cbn in Hsame3. tauto. }
  assert (Hna3 : additional_applies (o_req o) lb3 = false).
  { destruct Hlb3 as [->| ->]; [exact Hna|rewrite additional_applies_sort2; exact Hna]. }
  assert (EC : stageC c2 lb3 s (o_req o) k = Some (c2, lb3)).
  { unfold stageC. destruct lb3 as [|have [|y l]]; try reflexivity. rewrite Hna3. reflexivity. }
  rewrite EC.
  assert (ED : stageD c2 lb3 s o k = Some (inl (c2, lb3))).
  { unfold stageD. destruct lb3; [congruence|reflexivity]. }
  rewrite ED. unfold stageE. destruct lb3 as [|y3 l3] eqn:E3; [congruence|].
  destruct (assigned_pool_exists _ _ _ _ _ _ Has) as (pn & q & Hpo & Hfp). cbn [cv_mem c2]. rewrite Hpo, Hfp.
  intros [= <- <-]. cbn [cv_status cv_mem]. split; [reflexivity|]. split; [rewrite Has; reflexivity|].
  split; [exact Hsame3|exact Hlb3].
Qed.

Lemma admissible_sub m M s o : Inv m -> Inv M -> covers m M -> by_name (s_pools m) <> [] ->
  admissible_now rank M s o -> admissible_now rank m s o.
Proof.
  intros Im IM Hc Hpm (Hlb & Hpools & Hcl & Hreq & Hst & Hfam & a' & Has & Hwp & Hwant).
  repeat (split; [assumption|]).
  apply assign_ok_inv in Has. destruct Has as (p & Hck & _ & ->).
  pose proof (assign_check_anti m M Im IM Hc s (o_req o) (o_status o) p Hck) as Hck'.
  eexists. split; [unfold assign; rewrite Hck'; reflexivity|]. split; [|exact Hwant].
  intros wp Hw. specialize (Hwp wp Hw). unfold pool_of in *. rewrite get_alloc_do_assign_same in *. exact Hwp.
Qed.

Lemma handler_recorded w s k w1 r o :
  apply_handler rank w s k = Some (w1, r) -> aget (w_api w) s = Some o ->
  c_have_pools (w_ctl w) = true ->
  admissible_now rank (c_mem (w_ctl w)) s o -> additional_applies (o_req o) (o_status o) = false ->
  (exists o', aget (w_api w1) s = Some o' /\ same_ips (o_status o') (o_status o)) /\
  c_mem (w_ctl w1) = fst (assign (c_mem (w_ctl w)) s (o_req o) (o_status o)).
Proof.
  unfold apply_handler. rewrite api_get_aget. intros H Eo Hp Hadm Hna. rewrite Eo in H.
  destruct (set_balancer rank (w_ctl w) s (Some o) k) as [oc|] eqn:ES; [|discriminate].
  injection H as <- _. cbn [w_api w_ctl].
  destruct (set_balancer_mem rank _ _ _ _ _ ES Hp) as (v & ok & EC & Hmem & Hw).
  destruct (converge_recorded _ _ _ _ _ _ Hadm Hna EC) as (_ & Hv & Hs & _).
  split; [|rewrite Hmem; exact Hv].
  destruct (oc_write oc) as [[st an]|].
  - destruct (k_write k).
    + rewrite aget_put_same. eexists. split; [reflexivity|]. cbn. rewrite (proj1 Hw). exact Hs.
    + exists o. split; [exact Eo|apply same_ips_refl].
  - exists o. split; [exact Eo|apply same_ips_refl].
Qed.


(* ---------- the first full pass after a restart ---------- *)
Section Pass.
Variable M : st.                          (* the allocations the recorded statuses describe *)
Hypothesis IM : Inv M.
Hypothesis PM : PoolCoh M.
Variable api0 : list (svc * svcobj).      (* the Services as the new instance finds them *)

Definition recd (s : svc) (o : svcobj) : Prop := aget api0 s = Some o /\ o_status o <> [].

Record recorded_ok (s : svc) (o : svcobj) : Prop := {
  ro_adm : admissible_now rank M s o;
  ro_mem : exists al, get_alloc M s = Some al /\ a_ips al = o_status o /\
                      a_ports al = r_ports (o_req o) /\ a_key al = r_key (o_req o);
  ro_noadd : additional_applies (o_req o) (o_status o) = false }.
Hypothesis Hrec : forall s o, recd s o -> recorded_ok s o.

Definition nst (s : svc) : nat := length (match aget api0 s with Some o => o_status o | None => [] end).

Lemma recd_nst s o : recd s o -> (0 < nst s)%nat.
Proof. intros [H1 H2]. unfold nst. rewrite H1. destruct (o_status o); [congruence|cbn; lia]. Qed.

Lemma assign_recorded m s o al : Inv m -> covers m M -> s_pools m = s_pools M ->
  admissible_now rank M s o ->
  get_alloc M s = Some al -> a_ips al = o_status o -> a_ports al = r_ports (o_req o) -> a_key al = r_key (o_req o) ->
  get_alloc (fst (assign m s (o_req o) (o_status o))) s = Some al.
Proof.
  intros Im Hc Hps Hadm Hg Hi Hp Hk.
  destruct Hadm as (_ & _ & _ & _ & _ & _ & a' & Has & _).
  apply assign_ok_inv in Has. destruct Has as (p & Hck & _ & _).
  pose proof (assign_check_anti m M Im IM Hc s (o_req o) (o_status o) p Hck) as Hck'.
  unfold assign. rewrite Hck'. cbn [fst]. rewrite get_alloc_do_assign_same. f_equal.
  apply assign_check_spec in Hck. destruct Hck as (Hpf & _).
  destruct (PM (s, al)) as (p' & Hpf' & Hn'); [apply get_alloc_In; [exact (proj1 IM)|exact Hg]|].
  cbn [snd] in Hpf', Hn'. rewrite Hi, Hpf in Hpf'. injection Hpf' as <-.
  destruct al as [apool aips aports akey]. cbn in *. subst. reflexivity.
Qed.

Lemma pass_keeps rest : forall ks w retry acc w' retry' rs,
  reload_pass rank w rest ks retry acc = Some (w', retry', rs) ->
  mem_inv (w_ctl w) -> c_have_pools (w_ctl w) = true -> s_pools (c_mem (w_ctl w)) = s_pools M ->
  NoDup rest ->
  (forall l1 s l2, rest = l1 ++ s :: l2 -> forall t, In t l2 -> (nst t <= nst s)%nat) ->
  (forall s o, recd s o ->
     (In s rest /\ get_alloc (c_mem (w_ctl w)) s = None /\ aget (w_api w) s = Some o) \/
     (~ In s rest /\ get_alloc (c_mem (w_ctl w)) s = get_alloc M s /\
      exists o', aget (w_api w) s = Some o' /\ same_ips (o_status o') (o_status o))) ->
  ((forall u al, get_alloc (c_mem (w_ctl w)) u = Some al -> get_alloc M u = Some al) \/
   (forall s o, recd s o -> ~ In s rest)) ->
  forall s o, recd s o ->
    get_alloc (c_mem (w_ctl w')) s = get_alloc M s /\
    exists o', aget (w_api w') s = Some o' /\ same_ips (o_status o') (o_status o).
Proof.
  induction rest as [|s rest IH]; intros ks w retry acc w' retry' rs H Hm Hp Hps Hnd Hsort G2 G3 u ou Hu.
  - cbn in H. injection H as <- _ _. destruct (G2 u ou Hu) as [[[] _]|(_ & H1 & H2)]. auto.
  - cbn [reload_pass] in H. destruct ks as [|k ks]; [discriminate|].
    destruct (apply_handler rank w s k) as [[w1 r]|] eqn:EH; [|discriminate].
    pose proof (apply_handler_inv rank w s k w1 r EH (fun _ => Hp) Hm) as (F1 & _ & Hm1 & Hp1 & _).
    specialize (Hp1 Hp). pose proof (apply_handler_pools rank _ _ _ _ _ EH) as Hps1.
    inversion Hnd as [|? ? Hnin Hnd']; subst.
    assert (Hsort' : forall l1 s0 l2, rest = l1 ++ s0 :: l2 -> forall t, In t l2 -> (nst t <= nst s0)%nat).
    { intros l1 s0 l2 Heq. apply (Hsort (s :: l1) s0 l2). rewrite Heq. reflexivity. }
    eapply (IH _ _ _ _ _ _ _ H Hm1 Hp1); try eassumption; [congruence| |].
    + (* G2 *)
      intros t ot Ht. destruct (N.eq_dec t s) as [->|Hne].
      * (* the recorded Service handled now *)
        destruct (G2 s ot Ht) as [(_ & Hgn & Hapi)|(Hnot & _)]; [|exfalso; apply Hnot; left; reflexivity].
        destruct G3 as [G3|G3]; [|exfalso; apply (G3 s ot Ht); left; reflexivity].
        destruct (Hrec s ot Ht) as [Hadm (al & Hg & Hi & Hpo & Hk) Hna].
        assert (Hcov : covers (c_mem (w_ctl w)) M).
        { apply sub_covers; [exact (proj1 Hm)|exact IM|]. split; [congruence|exact G3]. }
        assert (Hadm' : admissible_now rank (c_mem (w_ctl w)) s ot).
        { apply (admissible_sub _ M); try assumption; [exact (proj1 Hm)|].
          rewrite Hps. destruct Hadm as (_ & Hx & _). exact Hx. }
        destruct (handler_recorded _ _ _ _ _ _ EH Hapi Hp Hadm' Hna) as (Hap1 & Hmem1).
        right. split; [exact Hnin|]. split; [|exact Hap1].
        rewrite Hmem1, Hg. apply assign_recorded; try assumption. exact (proj1 Hm).
      * destruct (F1 t Hne) as [A1 A2]. rewrite A1, A2.
        destruct (G2 t ot Ht) as [(Hin & Hr)|(Hnot & Hr)].
        -- left. split; [destruct Hin as [Hin|Hin]; [congruence|exact Hin]|exact Hr].
        -- right. split; [intros Hin; apply Hnot; right; exact Hin|exact Hr].
    + (* G3 *)
      destruct (aget api0 s) as [os|] eqn:Es.
      * destruct (o_status os) as [|x l] eqn:Est.
        -- right. intros t ot Ht Hin. pose proof (recd_nst t ot Ht) as Hpos.
           pose proof (Hsort [] s rest eq_refl t Hin) as Hle. unfold nst at 2 in Hle. rewrite Es, Est in Hle. cbn in Hle. lia.
        -- assert (Hs : recd s os) by (split; [exact Es|rewrite Est; discriminate]).
           destruct G3 as [G3|G3]; [|exfalso; apply (G3 s os Hs); left; reflexivity].
           left. intros t al. destruct (N.eq_dec t s) as [->|Hne].
           ++ destruct (G2 s os Hs) as [(_ & Hgn & Hapi)|(Hnot & _)]; [|exfalso; apply Hnot; left; reflexivity].
              destruct (Hrec s os Hs) as [Hadm (al0 & Hg & Hi & Hpo & Hk) Hna].
              assert (Hcov : covers (c_mem (w_ctl w)) M).
              { apply sub_covers; [exact (proj1 Hm)|exact IM|]. split; [congruence|exact G3]. }
              assert (Hadm' : admissible_now rank (c_mem (w_ctl w)) s os).
              { apply (admissible_sub _ M); try assumption; [exact (proj1 Hm)|].
                rewrite Hps. destruct Hadm as (_ & Hx & _). exact Hx. }
              destruct (handler_recorded _ _ _ _ _ _ EH Hapi Hp Hadm' Hna) as (_ & Hmem1).
              rewrite Hmem1, (assign_recorded _ s os al0 (proj1 Hm) Hcov Hps Hadm Hg Hi Hpo Hk), Hg. auto.
           ++ rewrite (proj2 (F1 t Hne)). apply G3.
      * right. intros t ot Ht Hin. pose proof (recd_nst t ot Ht) as Hpos.
        pose proof (Hsort [] s rest eq_refl t Hin) as Hle. unfold nst at 2 in Hle. rewrite Es in Hle. cbn in Hle. lia.
Qed.
End Pass.

(* ---------- the restart as the reconciler sees it ---------- *)
Lemma same_set_NoDup a b : same_set a b = true -> NoDup b -> NoDup a.
Proof.
  unfold same_set. rewrite !andb_true_iff, !forallb_forall. intros [[H1 H2] H3] Hb.
  apply N.eqb_eq in H3. apply Nat2N.inj in H3.
  apply (NoDup_incl_NoDup Hb); [lia|]. intros x Hx. apply memN_In. apply H2. exact Hx.
Qed.

Lemma desc_by_status_nst w order :
  desc_by_status w order = true ->
  forall l1 s l2, order = l1 ++ s :: l2 -> forall t, In t l2 -> (nst (w_api w) t <= nst (w_api w) s)%nat.
Proof.
  intros Hd l1 s l2 Heq t Ht. pose proof (desc_by_status_sorted w order Hd l1 s l2 Heq t Ht) as H.
  unfold nstatus in H. unfold nst. rewrite <- !api_get_aget. exact H.
Qed.

(* events of existing Services that arrive before the first full pass change nothing but the queue *)
Fixpoint early (w : world) (evs : list (svc * oracle)) : option world :=
  match evs with
  | [] => Some w
  | (s, k) :: r => match wstep rank w (ESvc s k) with Some w1 => early w1 r | None => None end
  end.

Lemma early_noop evs : forall w w', w_gate w = false ->
  (forall s k, In (s, k) evs -> aget (w_api w) s <> None) ->
  early w evs = Some w' ->
  w_api w' = w_api w /\ w_ctl w' = w_ctl w /\ w_gate w' = false /\ w_reload w' = w_reload w.
Proof.
  induction evs as [|[s k] evs IH]; intros w w' Hg Hex H; cbn [early] in H.
  - injection H as <-. auto.
  - unfold wstep in H. cbn [wstep_t] in H. destruct (negb (memN s (w_queue w))); [discriminate|].
    rewrite Hg in H. cbn [negb andb] in H. rewrite api_get_aget in H.
    destruct (aget (w_api w) s) as [o|] eqn:Eo; [|exfalso; apply (Hex s k); [left; reflexivity|exact Eo]].
    cbn [option_map fst] in H.
    match type of H with early ?w1 _ = _ =>
      destruct (IH w1 w' eq_refl (fun s0 k0 Hin => Hex s0 k0 (or_intror Hin)) H) as (A & B & C & D) end.
    cbn in *. auto.
Qed.

Theorem restart_keeps_recorded M w ps evs order ks wc wp we w' :
  Inv M -> PoolCoh M -> s_pools M = ps ->
  NoDup (map fst (w_api w)) ->
  (forall s o, recd (w_api w) s o -> recorded_ok M s o) ->
  wstep rank w ECrash = Some wc -> wstep rank wc (EPools ps) = Some wp ->
  (forall s k, In (s, k) evs -> aget (w_api w) s <> None) -> early wp evs = Some we ->
  wstep rank we (EReload order ks) = Some w' ->
  forall s o, aget (w_api w) s = Some o -> o_status o <> [] ->
    (exists o', aget (w_api w') s = Some o' /\ same_ips (o_status o') (o_status o)) /\
    same_ips (ips_of (c_mem (w_ctl w')) s) (o_status o).
Proof.
  intros IM PM Hps Hnd Hrec Hc Hpl Hex Hea Hre s o Ho Hst.
  unfold wstep in Hc, Hpl. cbn in Hc, Hpl. injection Hc as <-. cbn in Hpl. injection Hpl as <-.
  match type of Hea with early ?w1 _ = _ =>
    destruct (early_noop evs w1 we eq_refl Hex Hea) as (Eapi & Ectl & Egate & Erel) end.
  cbn in Eapi, Ectl, Erel.
  unfold wstep in Hre. cbn [wstep_t] in Hre. rewrite Erel in Hre. cbn [negb] in Hre.
  destruct (negb (same_set order (map fst (w_api we)) && desc_by_status we order)) eqn:Eo; [discriminate|].
  apply negb_false_iff, andb_true_iff in Eo. destruct Eo as [Eset Edesc].
  destruct (reload_pass rank we order ks false []) as [[[w1 retry] rs1]|] eqn:EP; [|discriminate].
  cbn [option_map fst] in Hre. injection Hre as <-. cbn [w_api w_ctl].
  assert (Hmem : c_mem (w_ctl we) = {| s_pools := ps; allocated := [] |}) by (rewrite Ectl; reflexivity).
  assert (Hminv : mem_inv (w_ctl we)).
  { unfold mem_inv. rewrite Hmem. split; [split; [constructor|intros e1 e2 x []]|intros e []]. }
  assert (Hhp : c_have_pools (w_ctl we) = true) by (rewrite Ectl; reflexivity).
  assert (Hkeep : get_alloc (c_mem (w_ctl w1)) s = get_alloc M s /\
                  exists o', aget (w_api w1) s = Some o' /\ same_ips (o_status o') (o_status o)).
  { eapply (pass_keeps M IM PM (w_api w) Hrec order _ _ _ _ _ _ _ EP Hminv Hhp).
    - rewrite Hmem. cbn. congruence.
    - rewrite Eapi in Eset. eapply same_set_NoDup; eassumption.
    - rewrite <- Eapi. apply desc_by_status_nst. exact Edesc.
    - intros t ot [Ht1 Ht2]. left. split; [|split].
      + apply (same_set_In _ _ t Eset). rewrite Eapi. apply aget_In. rewrite Ht1. discriminate.
      + rewrite Hmem. reflexivity.
      + rewrite Eapi. exact Ht1.
    - left. intros u al. rewrite Hmem. cbn. discriminate.
    - split; assumption. }
  destruct Hkeep as [Hg Hap]. split; [exact Hap|].
  destruct (Hrec s o (conj Ho Hst)) as [_ (al & Hal & Hi & _) _].
  unfold ips_of. rewrite Hg, Hal, Hi. apply same_ips_refl.
Qed.

(* ... and a Service WITHOUT a recorded address cannot take an address recorded for
   another Service: whatever it holds after the pass that a recorded Service has in its
   status, it holds as an admitted co-tenant (same sharing and backend key, disjoint ports) *)
Theorem restart_unrecorded_cannot_take M w ps evs order ks wc wp we w' :
  Inv M -> PoolCoh M -> s_pools M = ps ->
  NoDup (map fst (w_api w)) ->
  (forall s o, recd (w_api w) s o -> recorded_ok M s o) ->
  wstep rank w ECrash = Some wc -> wstep rank wc (EPools ps) = Some wp ->
  (forall s k, In (s, k) evs -> aget (w_api w) s <> None) -> early wp evs = Some we ->
  wstep rank we (EReload order ks) = Some w' ->
  forall s o x t alt, aget (w_api w) s = Some o -> In x (o_status o) -> t <> s ->
    get_alloc (c_mem (w_ctl w')) t = Some alt -> In x (a_ips alt) ->
    exists al, get_alloc (c_mem (w_ctl w')) s = Some al /\ same_ips (a_ips al) (o_status o) /\ shareable alt al.
Proof.
  intros IM PM Hps Hnd Hrec Hc Hpl Hex Hea Hre s o x t alt Ho Hx Hne Hg Hxt.
  assert (Hst : o_status o <> []) by (intros E; rewrite E in Hx; destruct Hx).
  destruct (restart_keeps_recorded M w ps evs order ks wc wp we w' IM PM Hps Hnd Hrec Hc Hpl Hex Hea Hre s o Ho Hst) as [_ Hs].
  destruct (Hrec s o (conj Ho Hst)) as [_ (al & Hal & Hi & _) _].
  (* memory after the pass is Inv *)
  assert (HI' : Inv (c_mem (w_ctl w'))).
  { unfold wstep in Hc, Hpl. cbn in Hc, Hpl. injection Hc as <-. cbn in Hpl. injection Hpl as <-.
    match type of Hea with early ?w1 _ = _ =>
      destruct (early_noop evs w1 we eq_refl Hex Hea) as (Eapi & Ectl & Egate & Erel) end.
    cbn in Eapi, Ectl, Erel.
    unfold wstep in Hre. cbn [wstep_t] in Hre. rewrite Erel in Hre. cbn [negb] in Hre.
    destruct (negb _) in Hre; [discriminate|].
    destruct (reload_pass rank we order ks false []) as [[[w1 retry] rs1]|] eqn:EP; [|discriminate].
    cbn [option_map fst] in Hre. injection Hre as <-. cbn [w_ctl].
    assert (Hminv : mem_inv (w_ctl we)).
    { unfold mem_inv. rewrite Ectl. cbn. split; [split; [constructor|intros e1 e2 y []]|intros e []]. }
    assert (Hhp : c_have_pools (w_ctl we) = true) by (rewrite Ectl; reflexivity).
    exact (proj1 (proj1 (reload_pass_inv rank _ _ _ _ _ _ _ _ EP Hminv Hhp))). }
  unfold ips_of in Hs. destruct (get_alloc (c_mem (w_ctl w')) s) as [al'|] eqn:Hg'.
  2:{ exfalso. destruct (o_status o) as [|y l]; [congruence|]. destruct (Hs y) as [_ H]. apply H. left. reflexivity. }
  exists al'. split; [reflexivity|].
  assert (Hx' : In x (a_ips al')) by (apply Hs; exact Hx).
  split.
  - exact Hs.
  - apply (get_alloc_In _ _ _ (proj1 HI')) in Hg. apply (get_alloc_In _ _ _ (proj1 HI')) in Hg'.
    exact (proj2 HI' (t, alt) (s, al') x Hg Hg' Hne Hxt Hx').
Qed.
End Restart.
