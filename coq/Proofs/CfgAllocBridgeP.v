(* Bridge from the configuration model (Model/Cfg.v, C08) to the allocator model
   (Model/Alloc.v, C01/C02/C07): the pools of an accepted configuration, translated to the
   allocator's representation, satisfy the two facts the allocator theorems assume of their
   configuration - AllocPolicyP.names_unique and AllocPolicyP.pools_disjoint. *)
From Coq Require Import NArith Bool List Lia Permutation.
From Verif Require Model.Alloc Proofs.AllocPolicyP.
From Verif Require Import Model.Cfg Proofs.NetP Proofs.CfgSortP Proofs.CfgP.
Local Open Scope N_scope.

(* config.Pool -> the allocator's view of it *)
Definition to_alloc_pool (p : pool) : Alloc.pool :=
  {| Alloc.p_name := p_name p; Alloc.p_cidrs := p_cidrs p; Alloc.p_avoid := p_avoid p; Alloc.p_auto := p_auto p;
     Alloc.p_pin := match p_alloc p with
                    | Some a => Some {| Alloc.prio := sa_prio a; Alloc.nss := sa_nss a; Alloc.sels := sa_sels a |}
                    | None => None
                    end |}.
Definition to_alloc_pools (o : pools_out) : Alloc.pools :=
  {| Alloc.by_name := map to_alloc_pool (po_pools o); Alloc.by_ns := po_byns o; Alloc.by_sel := po_bysel o |}.

Lemma accepted_out_names_nodup iter r out : pools_for iter r = Some out -> NoDup (map p_name (po_pools out)).
Proof.
  intros H. destruct (pools_for_accepted _ _ _ H) as (ps0 & ps2 & A).
  assert (E : map p_name ps0 = map p_name ps2).
  { pose proof (af_grown _ _ _ _ A) as G. clear - G. induction G as [|p p' l l' [C _] G IH]; cbn; [reflexivity|].
    rewrite IH, (core_name _ _ C). reflexivity. }
  eapply Permutation_NoDup; [apply Permutation_map, Permutation_sym, (af_perm _ _ _ _ A)|].
  rewrite <- E. apply (af_nodup _ _ _ _ A).
Qed.

Lemma FOP_flat_map_cross {A B} (R : B -> B -> Prop) (f : A -> list B) l :
  (forall x y, R x y -> R y x) -> ForallOrdPairs R (flat_map f l) ->
  forall l1 a l2, l = l1 ++ a :: l2 -> forall b, In b (l1 ++ l2) -> forall x y, In x (f a) -> In y (f b) -> R x y.
Proof.
  intros S F l1 a l2 -> b Hb x y Hx Hy.
  rewrite flat_map_app in F. cbn in F.
  apply in_app_iff in Hb. destruct Hb as [Hb|Hb].
  - (* b before a: y comes first *)
    apply S. apply in_split in Hb. destruct Hb as (m1 & m2 & ->).
    rewrite flat_map_app in F. cbn in F. rewrite <- !app_assoc in F.
    clear - F Hx Hy. induction (flat_map f m1) as [|z t IH]; cbn in F.
    + induction (f b) as [|z t IH]; [destruct Hy|]. cbn in F. inversion F as [|? ? Fz Ft]; subst.
      destruct Hy as [<-|Hy]; [|auto]. rewrite Forall_forall in Fz. apply Fz.
      apply in_app_iff. right. apply in_app_iff. right. apply in_app_iff. left. assumption.
    + inversion F; auto.
  - apply in_split in Hb. destruct Hb as (m1 & m2 & ->).
    clear - F Hx Hy. induction (flat_map f l1) as [|z t IH]; cbn in F.
    + induction (f a) as [|z t IH]; [destruct Hx|]. cbn in F. inversion F as [|? ? Fz Ft]; subst.
      destruct Hx as [<-|Hx]; [|auto]. rewrite Forall_forall in Fz. apply Fz.
      apply in_app_iff. right. rewrite flat_map_app. apply in_app_iff. right. cbn. apply in_app_iff. left. assumption.
    + inversion F; auto.
Qed.

Theorem accepted_pools_for_allocator iter r out : pools_for iter r = Some out ->
  AllocPolicyP.names_unique (to_alloc_pools out) /\
  AllocPolicyP.pools_disjoint (Alloc.by_name (to_alloc_pools out)).
Proof.
  intros H. pose proof (accepted_out_names_nodup _ _ _ H) as ND. pose proof (accepted_disjoint _ _ _ H) as D. split.
  - unfold AllocPolicyP.names_unique, to_alloc_pools. cbn. rewrite map_map. exact ND.
  - unfold AllocPolicyP.pools_disjoint, to_alloc_pools. cbn. intros p q x Hp Hq Ip Iq.
    apply in_map_iff in Hp, Hq. destruct Hp as [p0 [<- Hp0]]. destruct Hq as [q0 [<- Hq0]].
    apply AllocPolicyP.in_pool_spec in Ip, Iq. destruct Ip as [_ [c [Hc Cc]]]. destruct Iq as [_ [c' [Hc' Cc']]].
    cbn in Hc, Hc'. destruct (in_split _ _ Hp0) as (l1 & l2 & E).
    rewrite E in Hq0. apply in_app_iff in Hq0. destruct Hq0 as [Hq0|[<-|Hq0]]; [| reflexivity |].
    + exfalso. refine (FOP_flat_map_cross disjoint p_cidrs _ disjoint_sym D l1 p0 l2 E q0 _ c c' Hc Hc' x Cc Cc').
      apply in_app_iff. left. assumption.
    + exfalso. refine (FOP_flat_map_cross disjoint p_cidrs _ disjoint_sym D l1 p0 l2 E q0 _ c c' Hc Hc' x Cc Cc').
      apply in_app_iff. right. assumption.
Qed.
