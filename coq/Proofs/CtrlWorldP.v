(* The reconciler around the handler: invariant over all histories of user
   events, configuration deliveries, single-service reconciles, full passes,
   failing status writes and restarts (C06, status halves of C01/C02). *)
From Coq Require Import List NArith Bool Lia.
From Verif Require Import Model.Net Model.Alloc Model.Ctrl Proofs.NetP Proofs.AllocP Proofs.AllocPolicyP Proofs.CtrlP.
Import ListNotations.
Local Open Scope N_scope.

(* ---------- the API map ---------- *)
Lemma api_find_put_same (l : list (svc * svcobj)) s o :
  option_map snd (find (fun e => fst e =? s) (api_put l s o)) = Some o.
Proof. unfold api_put. cbn. rewrite N.eqb_refl. reflexivity. Qed.

Lemma api_find_filter_other (l : list (svc * svcobj)) s t : t <> s ->
  find (fun e => fst e =? t) (filter (fun e => negb (fst e =? s)) l) = find (fun e => fst e =? t) l.
Proof.
  intros Hne. induction l as [|e l IH]; [reflexivity|].
  cbn [filter find]. match goal with |- context [negb ?b] => destruct b eqn:E end; cbn [negb].
  - apply N.eqb_eq in E. match goal with |- context [if ?b then _ else _] => destruct b eqn:E2 end;
      [apply N.eqb_eq in E2; congruence|exact IH].
  - cbn [find]. match goal with |- context [if ?b then _ else _] => destruct b eqn:E2 end; [reflexivity|exact IH].
Qed.

Lemma api_find_filter_same (l : list (svc * svcobj)) s :
  find (fun e => fst e =? s) (filter (fun e => negb (fst e =? s)) l) = None.
Proof.
  induction l as [|e l IH]; [reflexivity|].
  cbn [filter]. match goal with |- context [negb ?b] => destruct b eqn:E end; cbn [negb]; [exact IH|].
  cbn [find]. rewrite E. exact IH.
Qed.

Definition aget (l : list (svc * svcobj)) (s : svc) : option svcobj :=
  option_map snd (find (fun e => fst e =? s) l).

Lemma aget_put_same l s o : aget (api_put l s o) s = Some o.
Proof. apply api_find_put_same. Qed.
Lemma aget_put_other l s o t : t <> s -> aget (api_put l s o) t = aget l t.
Proof.
  intros Hne. unfold aget, api_put. cbn [find fst].
  destruct (s =? t) eqn:E; [apply N.eqb_eq in E; congruence|]. rewrite api_find_filter_other by exact Hne. reflexivity.
Qed.
Lemma aget_del_same l s : aget (api_del l s) s = None.
Proof. unfold aget, api_del. rewrite api_find_filter_same. reflexivity. Qed.
Lemma aget_del_other l s t : t <> s -> aget (api_del l s) t = aget l t.
Proof. intros Hne. unfold aget, api_del. rewrite api_find_filter_other by exact Hne. reflexivity. Qed.

Lemma aget_In l s : aget l s <> None <-> In s (map fst l).
Proof.
  unfold aget. induction l as [|[s0 o0] l IH].
  - cbn. split; [intros H; exfalso; apply H; reflexivity|tauto].
  - cbn [find map fst]. destruct (N.eqb_spec s0 s) as [E|E].
    + cbn. split; [auto|intros _ H; discriminate H].
    + rewrite IH. cbn. split; [auto|]. intros [H|H]; [congruence|exact H].
Qed.

Lemma memN_In n l : memN n l = true <-> In n l.
Proof.
  unfold memN. rewrite existsb_exists. split.
  - intros [x [Hx He]]. apply N.eqb_eq in He. subst. exact Hx.
  - intros H. exists n. split; [exact H|apply N.eqb_refl].
Qed.

Lemma In_enqueue q s t : In t (enqueue q s) <-> t = s \/ In t q.
Proof.
  unfold enqueue. destruct (memN s q) eqn:E.
  - apply memN_In in E. split; [auto|]. intros [->|H]; auto.
  - cbn. split; intros [H|H]; auto.
Qed.
Lemma In_dequeue q s t : In t (dequeue q s) <-> In t q /\ t <> s.
Proof. unfold dequeue. rewrite filter_In, negb_true_iff, N.eqb_neq. tauto. Qed.

(* ---------- one handler call ---------- *)
Section Handler.
Variable rank : ip -> N.

Definition synced_w (w : world) (s : svc) : Prop :=
  match aget (w_api w) s with
  | Some o => same_ips (ips_of (c_mem (w_ctl w)) s) (o_status o)
  | None => get_alloc (c_mem (w_ctl w)) s = None
  end.

Definition mem_inv (c : cstate) : Prop := Inv (c_mem c) /\ PoolCoh (c_mem c).

Lemma same_ips_of_eqb a b : ips_eqb a b = true -> a = b.
Proof. apply ips_eqb_eq. Qed.

(* what SetBalancer does to the controller and what it asks to write *)
Lemma set_balancer_spec c s o k oc :
  set_balancer rank c s o k = Some oc ->
  (* other services and the pools are untouched *)
  (forall t, t <> s -> get_alloc (c_mem (oc_state oc)) t = get_alloc (c_mem c) t) /\
  s_pools (c_mem (oc_state oc)) = s_pools (c_mem c) /\
  (c_have_pools c = true -> c_have_pools (oc_state oc) = true) /\
  (mem_inv c -> mem_inv (oc_state oc)) /\
  match o with
  | None => get_alloc (c_mem (oc_state oc)) s = None /\ oc_write oc = None
  | Some ob =>
      c_have_pools c = true ->
      match oc_write oc with
      | None => same_ips (ips_of (c_mem (oc_state oc)) s) (o_status ob) /\ oc_sync oc <> Error
      | Some (st, an) => same_ips (ips_of (c_mem (oc_state oc)) s) st /\
                         (k_write k = true -> oc_sync oc <> Error) /\ (k_write k = false -> oc_sync oc = Error \/ oc_sync oc = ReprocessAll)
      end
  end.
Proof.
  unfold set_balancer. destruct o as [ob|].
  - destruct (negb (c_have_pools c)) eqn:Hp.
    + intros [= <-]. cbn. split; [auto|]. split; [auto|]. split; [auto|]. split; [auto|].
      intros Hh. rewrite Hh in Hp. discriminate.
    + destruct (converge rank (c_mem c) s ob k) as [v ok|] eqn:EC; [|discriminate].
      pose proof (converge_frame _ _ _ _ _ _ _ EC) as [HF1 HF2].
      pose proof (converge_synced _ _ _ _ _ _ _ EC) as HS. unfold synced in HS.
      assert (HI : mem_inv c -> mem_inv {| c_mem := cv_mem v; c_have_pools := true |}).
      { intros [I1 I2]. split; cbn; [eapply converge_Inv; eassumption|eapply converge_PoolCoh; eassumption]. }
      destruct (negb (negb (ips_eqb (cv_status v) (o_status ob)) || negb (opt_pool_eqb (cv_annot v) (o_annot ob)))) eqn:Hch.
      * intros [= <-]. cbn. split; [exact HF1|]. split; [exact HF2|]. split; [auto|]. split; [exact HI|].
        intros _. split.
        -- apply negb_true_iff, orb_false_iff in Hch. destruct Hch as [H1 _]. apply negb_false_iff, ips_eqb_eq in H1.
           rewrite <- H1. exact HS.
        -- match goal with |- (if ?b then _ else _) <> _ => destruct b end; [congruence|].
           destruct (skey_eqb _ _); destruct ok; congruence.
      * intros [= <-]. cbn. split; [exact HF1|]. split; [exact HF2|]. split; [auto|]. split; [exact HI|].
        intros _. split; [exact HS|]. split.
        -- intros Hw. rewrite Hw. match goal with |- (if ?b then _ else _) <> _ => destruct b end; [congruence|].
           destruct (skey_eqb _ _); destruct ok; congruence.
        -- intros Hw. rewrite Hw. match goal with |- (match (if ?b then _ else _) with _ => _ end) = _ \/ _ => destruct b end; [right; reflexivity|].
           destruct (skey_eqb _ _); [destruct ok|]; auto.
  - destruct (get_alloc (c_mem c) s) eqn:Hg; intros [= <-]; cbn.
    + split; [intros t Ht; apply get_alloc_unassign_other; exact Ht|]. split; [reflexivity|]. split; [auto|].
      split; [intros [I1 I2]; split; cbn; [apply Inv_unassign; exact I1|apply PoolCoh_unassign; exact I2]|].
      split; [apply get_alloc_unassign_same|reflexivity].
    + split; [auto|]. split; [reflexivity|]. split; [auto|]. split; [auto|]. split; [exact Hg|reflexivity].
Qed.

End Handler.

(* ---------- the world invariant ---------- *)
Section WorldInv.
Variable rank : ip -> N.

Definition wsynced (w : world) (s : svc) : Prop :=
  match aget (w_api w) s with
  | Some o => same_ips (ips_of (c_mem (w_ctl w)) s) (o_status o)
  | None => get_alloc (c_mem (w_ctl w)) s = None
  end.

Definition pending (w : world) (s : svc) : Prop := In s (w_queue w).

Record WInv (w : world) : Prop := {
  wi_mem : mem_inv (w_ctl w);
  (* every Service is in sync with memory, or still has work pending; before the
     first full pass completes everything is pending by definition *)
  wi_sync : forall s, wsynced w s \/ pending w s \/
                      (aget (w_api w) s <> None /\ (w_reload w = true \/ w_gate w = false));
  (* a re-sync is only ever requested, and the gate only ever opens, once a
     configuration has been delivered *)
  wi_reload_pools : w_reload w = true -> c_have_pools (w_ctl w) = true;
  wi_gate_pools : w_gate w = true -> c_have_pools (w_ctl w) = true;
  wi_mem_pools : allocated (c_mem (w_ctl w)) <> [] -> c_have_pools (w_ctl w) = true
}.

Lemma get_alloc_nil a s : allocated a = [] -> get_alloc a s = None.
Proof. unfold get_alloc. intros ->. reflexivity. Qed.

Lemma WInv_world0 : WInv world0.
Proof.
  constructor; cbn; try discriminate; try congruence.
  - split; [apply Inv_init|apply PoolCoh_init].
  - intros s. left. unfold wsynced. cbn. reflexivity.
Qed.

(* the API after a handler call *)
Definition api_after (w : world) (s : svc) (k : oracle) (oc : outcome) : list (svc * svcobj) :=
  match oc_write oc, api_get w s with
  | Some (st, an), Some o => if k_write k then api_put (w_api w) s (with_status o st an) else w_api w
  | _, _ => w_api w
  end.

Lemma api_get_aget w s : api_get w s = aget (w_api w) s.
Proof. reflexivity. Qed.

Lemma apply_handler_inv w s k w' r :
  apply_handler rank w s k = Some (w', r) ->
  (aget (w_api w) s <> None -> c_have_pools (w_ctl w) = true) ->
  mem_inv (w_ctl w) ->
  (* frame *)
  (forall t, t <> s -> aget (w_api w') t = aget (w_api w) t /\
                       get_alloc (c_mem (w_ctl w')) t = get_alloc (c_mem (w_ctl w)) t) /\
  ((aget (w_api w') s = None) <-> (aget (w_api w) s = None)) /\
  mem_inv (w_ctl w') /\
  (c_have_pools (w_ctl w) = true -> c_have_pools (w_ctl w') = true) /\
  (allocated (c_mem (w_ctl w')) <> [] -> c_have_pools (w_ctl w') = true \/ allocated (c_mem (w_ctl w)) <> []) /\
  w_gate w' = w_gate w /\ w_reload w' = w_reload w /\ w_queue w' = w_queue w /\
  (r <> Error -> wsynced w' s \/ (r = ReprocessAll /\ aget (w_api w') s <> None)) /\
  (r = ReprocessAll -> c_have_pools (w_ctl w) = true \/ allocated (c_mem (w_ctl w)) <> []).
Proof.
  unfold apply_handler. rewrite api_get_aget.
  destruct (set_balancer rank (w_ctl w) s (aget (w_api w) s) k) as [oc|] eqn:ES; [|discriminate].
  intros [= <- <-] Hpools HI. cbn [w_api w_ctl w_gate w_reload w_queue].
  pose proof (set_balancer_spec rank _ _ _ _ _ ES) as (HF1 & HF2 & HP & HM & Hmain).
  rewrite ?api_get_aget.
  split; [|split; [|split; [auto|split; [exact HP|split; [|split; [reflexivity|split; [reflexivity|split; [reflexivity|split]]]]]]]].
  - (* frame *)
    intros t Ht. split; [|apply HF1; exact Ht].
    destruct (oc_write oc) as [[st an]|]; [|reflexivity].
    destruct (aget (w_api w) s) as [o|]; [|reflexivity].
    destruct (k_write k); [|reflexivity]. apply aget_put_other. exact Ht.
  - (* existence of s in the API is unchanged *)
    destruct (oc_write oc) as [[st an]|]; [|tauto].
    destruct (aget (w_api w) s) as [o|] eqn:Eo; [|rewrite Eo; tauto].
    destruct (k_write k); [|rewrite Eo; tauto]. rewrite aget_put_same. split; discriminate.
  - (* memory non-empty => pools known *)
    intros Hne. destruct (aget (w_api w) s) as [o|] eqn:Eo.
    + left. apply HP. apply Hpools. discriminate.
    + right. intros Hnil. apply Hne. unfold set_balancer in ES.
      rewrite (get_alloc_nil _ s Hnil) in ES. injection ES as <-. exact Hnil.
  - (* sync *)
    intros Hr. unfold wsynced. cbn [w_api w_ctl].
    destruct (aget (w_api w) s) as [o|] eqn:Eo.
    + assert (Hh : c_have_pools (w_ctl w) = true) by (apply Hpools; discriminate).
      specialize (Hmain Hh).
      destruct (oc_write oc) as [[st an]|].
      * destruct Hmain as (Hs & Hw1 & Hw2). destruct (k_write k) eqn:Ek.
        -- left. rewrite aget_put_same. cbn. exact Hs.
        -- destruct (Hw2 eq_refl) as [He|He]; [exfalso; apply Hr; exact He|].
           right. split; [exact He|]. rewrite Eo. discriminate.
      * left. rewrite Eo. tauto.
    + left. destruct Hmain as [Hg Hw]. rewrite Hw, Eo. exact Hg.
  - (* a re-sync request presupposes a configuration or a recorded allocation *)
    intros Hr. destruct (aget (w_api w) s) as [o|] eqn:Eo.
    + left. apply Hpools. discriminate.
    + right. intros Hnil. unfold set_balancer in ES. rewrite (get_alloc_nil _ s Hnil) in ES.
      injection ES as <-. cbn in Hr. discriminate.
Qed.


Lemma wsynced_ext w w' t :
  aget (w_api w') t = aget (w_api w) t ->
  get_alloc (c_mem (w_ctl w')) t = get_alloc (c_mem (w_ctl w)) t ->
  wsynced w t -> wsynced w' t.
Proof. unfold wsynced, ips_of. intros -> ->. tauto. Qed.

Lemma reload_pass_inv order : forall ks w retry acc w' retry' rs,
  reload_pass rank w order ks retry acc = Some (w', retry', rs) ->
  mem_inv (w_ctl w) -> c_have_pools (w_ctl w) = true ->
  mem_inv (w_ctl w') /\ c_have_pools (w_ctl w') = true /\
  w_gate w' = w_gate w /\ w_reload w' = w_reload w /\ w_queue w' = w_queue w /\
  (forall t, aget (w_api w') t = None <-> aget (w_api w) t = None) /\
  (retry = true -> retry' = true) /\
  (forall t, ~ In t order -> aget (w_api w') t = aget (w_api w) t /\
                            get_alloc (c_mem (w_ctl w')) t = get_alloc (c_mem (w_ctl w)) t) /\
  (retry' = false -> forall t, In t order -> wsynced w' t).
Proof.
  induction order as [|s order IH]; intros ks w retry acc w' retry' rs H HI HP.
  - cbn in H. injection H as <- <- _.
    split; [exact HI|]. split; [exact HP|]. split; [reflexivity|]. split; [reflexivity|]. split; [reflexivity|].
    split; [tauto|]. split; [auto|]. split; [auto|]. intros _ t [].
  - cbn [reload_pass] in H. destruct ks as [|k ks]; [discriminate|].
    destruct (apply_handler rank w s k) as [[w1 r]|] eqn:EH; [|discriminate].
    pose proof (apply_handler_inv w s k w1 r EH (fun _ => HP) HI)
      as (F1 & Ex1 & HI1 & HP1 & _ & G1 & R1 & Q1 & S1 & _).
    specialize (HP1 HP).
    pose proof (IH _ _ _ _ _ _ _ H HI1 HP1) as (HI' & HP' & G' & R' & Q' & Ex' & Rt' & F' & S').
    split; [exact HI'|]. split; [exact HP'|]. split; [congruence|]. split; [congruence|]. split; [congruence|].
    split; [intros t; rewrite Ex'; destruct (N.eq_dec t s) as [->|Hne]; [exact Ex1|rewrite (proj1 (F1 t Hne)); tauto]|].
    split; [intros Hr; apply Rt'; rewrite Hr; reflexivity|].
    split.
    + intros t Hnot. assert (t <> s) by (intros ->; apply Hnot; left; reflexivity).
      assert (~ In t order) by (intros Hin; apply Hnot; right; exact Hin).
      destruct (F' t H1) as [A1 A2]. destruct (F1 t H0) as [B1 B2]. split; congruence.
    + intros Hr' t Hin.
      destruct (in_dec N.eq_dec t order) as [Hin'|Hnin]; [apply S'; assumption|].
      destruct Hin as [<-|Hin]; [|contradiction].
      (* s was processed now and not again later: it was brought in sync and then left alone *)
      assert (Hrne : r <> Error).
      { intros ->. assert (retry' = true) by (apply Rt'; destruct retry; reflexivity). congruence. }
      destruct (F' s Hnin) as [A1 A2]. eapply wsynced_ext; [exact A1|exact A2|].
      destruct (S1 Hrne) as [Hs|[-> _]]; [exact Hs|].
      exfalso. assert (retry' = true) by (apply Rt'; destruct retry; reflexivity). congruence.
Qed.

Lemma get_alloc_omap_none ps (l : list (svc * alloc)) t :
  find (fun e => fst e =? t) l = None -> find (fun e => fst e =? t) (omap (rehome ps) l) = None.
Proof.
  intros H. destruct (find (fun e => fst e =? t) (omap (rehome ps) l)) as [e'|] eqn:F; [|reflexivity].
  exfalso. apply find_some in F. destruct F as [Hin Hk]. apply omap_In in Hin. destruct Hin as [e [He Hr]].
  apply rehome_fst in Hr. destruct Hr as [Ef _].
  pose proof (find_none _ _ H e He) as Hn. cbv beta in Hn, Hk.
  apply N.eqb_eq in Hk. apply N.eqb_neq in Hn. apply Hn. transitivity (fst e'); [symmetry; exact Ef|exact Hk].
Qed.

Lemma get_alloc_set_pools_none a ps t : get_alloc a t = None -> get_alloc (set_pools a ps) t = None.
Proof.
  unfold get_alloc. cbn. destruct (find (fun e => fst e =? t) (allocated a)) eqn:E; [discriminate|].
  intros _. rewrite get_alloc_omap_none by exact E. reflexivity.
Qed.

Lemma same_set_In a b t : same_set a b = true -> (In t a <-> In t b).
Proof.
  unfold same_set. rewrite !andb_true_iff, !forallb_forall. intros [[H1 H2] _].
  split; intros H; [apply memN_In, H1|apply memN_In, H2]; exact H.
Qed.

Theorem wstep_WInv w e w' : WInv w -> wstep rank w e = Some w' -> WInv w'.
Proof.
  intros [HI HS HRP HGP HMP]. unfold wstep.
  destruct (wstep_t rank w e) as [[w1 rs]|] eqn:E; [|discriminate]. intros [= <-].
  destruct e as [s o|s|ps|s k|order ks| |]; cbn [wstep_t] in E.
  - (* UPut *)
    injection E as <- _. constructor; cbn; auto.
    intros t. destruct (N.eq_dec t s) as [->|Hne].
    + right. left. unfold pending. cbn. apply In_enqueue. auto.
    + destruct (HS t) as [H|[H|H]].
      * left. unfold wsynced in *. cbn. rewrite aget_put_other by exact Hne. exact H.
      * right. left. unfold pending in *. cbn. apply In_enqueue. auto.
      * right. right. cbn. rewrite aget_put_other by exact Hne. exact H.
  - (* UDel *)
    injection E as <- _. constructor; cbn; auto.
    intros t. destruct (N.eq_dec t s) as [->|Hne].
    + right. left. unfold pending. cbn. apply In_enqueue. auto.
    + destruct (HS t) as [H|[H|H]].
      * left. unfold wsynced in *. cbn. rewrite aget_del_other by exact Hne. exact H.
      * right. left. unfold pending in *. cbn. apply In_enqueue. auto.
      * right. right. cbn. rewrite aget_del_other by exact Hne. exact H.
  - (* EPools *)
    injection E as <- _. constructor; cbn; auto.
    + destruct HI as [I1 I2]. split; cbn; [apply Inv_set_pools; exact I1|apply PoolCoh_set_pools].
    + intros t. destruct (aget (w_api w) t) as [o|] eqn:Eo.
      * right. right. rewrite ?Eo. split; [discriminate|auto].
      * destruct (HS t) as [H|[H|[H _]]].
        -- left. unfold wsynced in *. cbn. rewrite ?Eo in *. apply get_alloc_set_pools_none. exact H.
        -- right. left. exact H.
        -- congruence.
  - (* ESvc *)
    destruct (negb (memN s (w_queue w))) eqn:Eq; [discriminate|].
    apply negb_false_iff, memN_In in Eq.
    destruct (negb (w_gate w) && match api_get w s with Some _ => true | None => false end) eqn:Eg.
    + (* dropped by the gate *)
      injection E as <- _. apply andb_true_iff in Eg. destruct Eg as [Eg1 Eg2].
      apply negb_true_iff in Eg1.
      constructor; cbn; auto; try congruence.
      intros t. destruct (N.eq_dec t s) as [->|Hne].
      * right. right. split; [|auto]. rewrite api_get_aget in Eg2. destruct (aget (w_api w) s); [discriminate|discriminate].
      * destruct (HS t) as [H|[H|[H1 H2]]]; [left; exact H| |right; right; split; [exact H1|right; reflexivity]].
        right. left. unfold pending in *. cbn. apply In_dequeue. auto.
    + destruct (apply_handler rank w s k) as [[w2 r]|] eqn:EH; [|discriminate].
      injection E as <- _.
      assert (Hpre : aget (w_api w) s <> None -> c_have_pools (w_ctl w) = true).
      { intros Hn. apply HGP. apply andb_false_iff in Eg. destruct Eg as [Eg|Eg].
        - apply negb_false_iff in Eg. exact Eg.
        - rewrite api_get_aget in Eg. destruct (aget (w_api w) s); [discriminate|congruence]. }
      pose proof (apply_handler_inv w s k w2 r EH Hpre HI) as (F1 & Ex1 & HI1 & HP1 & HM1 & G1 & R1 & Q1 & S1 & RP1).
      constructor; cbn.
      * exact HI1.
      * intros t. destruct (N.eq_dec t s) as [->|Hne].
        -- destruct r.
           ++ destruct S1 as [H|[H _]]; [discriminate|left; exact H|discriminate].
           ++ right. left. unfold pending. cbn. exact Eq.
           ++ destruct S1 as [H|[_ H]]; [discriminate|left; exact H|].
              right. right. split; [exact H|left]. rewrite orb_true_r. reflexivity.
           ++ destruct S1 as [H|[H _]]; [discriminate|left; exact H|discriminate].
        -- destruct (F1 t Hne) as [A1 A2].
           destruct (HS t) as [H|[H|[H1 H2]]].
           ++ left. eapply wsynced_ext; [exact A1|exact A2|exact H].
           ++ right. left. unfold pending in *. cbn. destruct r; try (apply In_dequeue; auto). exact H.
           ++ right. right. rewrite A1. split; [exact H1|]. destruct H2 as [H2|H2]; [left; rewrite H2; reflexivity|right; exact H2].
      * intros Hr. apply orb_true_iff in Hr. destruct Hr as [Hr|Hr]; [apply HP1, HRP, Hr|].
        destruct r; try discriminate. destruct (RP1 eq_refl) as [H|H]; [apply HP1, H|apply HP1, HMP, H].
      * intros Hg. apply HP1, HGP, Hg.
      * intros Hne. destruct (HM1 Hne) as [H|H]; [exact H|apply HP1, HMP, H].
  - (* EReload *)
    destruct (negb (w_reload w)) eqn:Er; [discriminate|]. apply negb_false_iff in Er.
    destruct (negb (same_set order (map fst (w_api w)) && desc_by_status w order)) eqn:Eo; [discriminate|].
    apply negb_false_iff, andb_true_iff in Eo. destruct Eo as [Eo _].
    destruct (reload_pass rank w order ks false []) as [[[w2 retry] rs2]|] eqn:EP; [|discriminate].
    injection E as <- _.
    pose proof (reload_pass_inv _ _ _ _ _ _ _ _ EP HI (HRP Er)) as (HI' & HP' & G' & R' & Q' & Ex' & _ & F' & S').
    constructor; cbn; auto.
    intros t. destruct (aget (w_api w) t) as [o|] eqn:Eo1.
    + assert (Hin : In t order).
      { apply (same_set_In _ _ t Eo). apply aget_In. rewrite Eo1. discriminate. }
      destruct retry.
      * right. right. split; [|auto]. intros Hn. apply Ex' in Hn. congruence.
      * left. apply S'; auto.
    + assert (Hnin : ~ In t order).
      { intros Hin. apply (same_set_In _ _ t Eo) in Hin. apply aget_In in Hin. congruence. }
      destruct (F' t Hnin) as [A1 A2].
      destruct (HS t) as [H|[H|[H _]]].
      * left. eapply wsynced_ext; [exact A1|exact A2|exact H].
      * right. left. unfold pending in *. cbn. exact H.
      * congruence.
  - (* EKick *)
    destruct (negb (c_have_pools (w_ctl w))) eqn:Ek; [discriminate|]. apply negb_false_iff in Ek.
    injection E as <- _. constructor; cbn; auto.
    intros t. destruct (HS t) as [H|[H|[H1 H2]]]; [left; exact H|right; left; exact H|right; right; auto].
  - (* ECrash *)
    injection E as <- _. constructor; cbn; try discriminate; try congruence.
    + split; [apply Inv_init|apply PoolCoh_init].
    + intros t. destruct (aget (w_api w) t) as [o|] eqn:Eo1.
      * right. left. unfold pending. cbn. apply aget_In. rewrite Eo1. discriminate.
      * left. unfold wsynced. cbn. rewrite Eo1. reflexivity.
Qed.

Definition wrun (evs : list ev) (w : world) : option world :=
  fold_left (fun ow e => match ow with Some w => wstep rank w e | None => None end) evs (Some w).

Lemma wrun_none evs : fold_left (fun ow e => match ow with Some w => wstep rank w e | None => None end) evs None = None.
Proof. induction evs; cbn; auto. Qed.

Theorem wrun_WInv evs : forall w w', WInv w -> wrun evs w = Some w' -> WInv w'.
Proof.
  induction evs as [|e evs IH]; intros w w' HW H; cbn in H.
  - injection H as <-. exact HW.
  - unfold wrun in IH. destruct (wstep rank w e) as [w1|] eqn:E.
    + eapply IH; [eapply wstep_WInv; eassumption|exact H].
    + rewrite wrun_none in H. discriminate.
Qed.

(* C06, last clause: whenever the controller has no pending work, its memory
   equals the recorded statuses: every Service's status is exactly what the
   allocator records for it, and nothing is recorded for Services that no
   longer exist (no leak) *)
Theorem quiescent_memory_eq_status evs w :
  wrun evs world0 = Some w -> quiescent w ->
  forall s, match aget (w_api w) s with
            | Some o => same_ips (ips_of (c_mem (w_ctl w)) s) (o_status o)
            | None => get_alloc (c_mem (w_ctl w)) s = None
            end.
Proof.
  intros Hr (Hq1 & Hq2 & Hq3) s.
  pose proof (wrun_WInv evs world0 w WInv_world0 Hr) as [_ HS _ _ _].
  destruct (HS s) as [H|[H|[_ [H|H]]]]; [exact H| | |].
  - unfold pending in H. rewrite Hq2 in H. destruct H.
  - congruence.
  - congruence.
Qed.
End WorldInv.
