(* Lemmas about Model/Wire.v, part 3: the independent decoder is injective on
   OPEN messages: whatever byte string it accepts as an OPEN is the
   serialization of the decoded message.  Hence readOpen is correct on every
   byte string [dec_msg] accepts (not only on serializations). *)
From Coq Require Import List Arith NArith Bool Lia ZifyN ZifyNat ZifyBool.
From Verif Require Import Model.Wire Proofs.WireP Proofs.WireReadP.
Import ListNotations.
Local Open Scope N_scope.

Lemma bind_some {A B} (x : option A) (f : A -> option B) y :
  bind x f = Some y -> exists a, x = Some a /\ f a = Some y.
Proof. destruct x; cbn; intros H; [eauto | discriminate]. Qed.

Lemma guard_some b : guard b = Some tt -> b = true.
Proof. destruct b; cbn; congruence. Qed.

Lemma take_inv k l a r : take k l = Some (a, r) -> l = a ++ r /\ len a = k.
Proof.
  unfold take. destruct (len l <? k) eqn:E; [discriminate|]. intros [= <- <-].
  split; [symmetry; apply firstn_skipn|]. unfold len in *. rewrite firstn_length. lia.
Qed.

Lemma get8_inv l b r : get8 l = Some (b, r) -> l = b :: r.
Proof. destruct l; cbn; intros H; inversion H; reflexivity. Qed.

Lemma b_of_pair a b : a < 256 -> b < 256 -> u16 (a * 256 + b) = [a; b].
Proof.
  intros Ha Hb. unfold u16, b1, b0. f_equal; [|f_equal].
  - replace ((a * 256 + b) / 256) with a.
    + apply N.mod_small. assumption.
    + apply (N.div_unique (a * 256 + b) 256 a b); lia.
  - symmetry. apply (N.mod_unique (a * 256 + b) 256 a b); lia.
Qed.

Lemma get16_inv l n r : wfb l -> get16 l = Some (n, r) -> l = u16 n ++ r /\ n < 65536 /\ wfb r.
Proof.
  destruct l as [|a [|b l]]; cbn [get16]; intros Hw H; try discriminate. inversion H; subst.
  inversion Hw as [|? ? Ha Hw1]; subst. inversion Hw1 as [|? ? Hb Hw2]; subst.
  rewrite b_of_pair by assumption. repeat split; [lia | assumption].
Qed.

Lemma wfb_inv_app a b : wfb (a ++ b) -> wfb a /\ wfb b.
Proof. apply wfb_app. Qed.

Lemma many_inv {A} (p : list N -> option (A * list N)) (ser : A -> list N) (ok : A -> Prop) :
  (forall l a r, p l = Some (a, r) -> l = ser a ++ r /\ ok a) ->
  forall fuel l xs, many p fuel l = Some xs -> l = concat (map ser xs) /\ Forall ok xs.
Proof.
  intros Hp. induction fuel as [|f IH]; intros l xs H.
  - destruct l; cbn in H; [|discriminate]. inversion H. split; [reflexivity | constructor].
  - destruct l as [|y l]; [cbn in H; inversion H; split; [reflexivity | constructor]|].
    rewrite many_step in H by discriminate.
    apply bind_some in H. destruct H as ([a r] & Hpa & H).
    apply bind_some in H. destruct H as (ys & Hm & H). inversion H; subst.
    apply Hp in Hpa. destruct Hpa as [-> Hok]. apply IH in Hm. destruct Hm as [-> Hall].
    split; [reflexivity | constructor; assumption].
Qed.

Lemma dec_cap_inv l c r : dec_cap l = Some (c, r) -> l = ser_cap c ++ r /\ wf_cap c.
Proof.
  unfold dec_cap. intros H.
  apply bind_some in H. destruct H as ([code r1] & H1 & H). apply get8_inv in H1. subst l.
  apply bind_some in H. destruct H as ([n r2] & H2 & H). apply get8_inv in H2. subst r1.
  apply bind_some in H. destruct H as ([v r3] & H3 & H). apply take_inv in H3. destruct H3 as [-> Hn].
  apply bind_some in H. destruct H as ([] & Hg & H). apply guard_some in Hg. inversion H; subst.
  unfold ser_cap, wf_cap. cbn [c_code c_val app]. split; [reflexivity|].
  intros Hc. destruct (code =? 1) eqn:E1, (code =? 65) eqn:E2; cbn in Hg; lia.
Qed.

Lemma dec_param_inv l p r : dec_param l = Some (p, r) -> l = ser_param p ++ r /\ wf_param p.
Proof.
  unfold dec_param. intros H.
  apply bind_some in H. destruct H as ([t r1] & H1 & H). apply get8_inv in H1. subst l.
  apply bind_some in H. destruct H as ([n r2] & H2 & H). apply get8_inv in H2. subst r1.
  apply bind_some in H. destruct H as ([v r3] & H3 & H). apply take_inv in H3. destruct H3 as [-> Hn].
  destruct (t =? 2) eqn:Et.
  - apply bind_some in H. destruct H as (cs & Hcs & H). inversion H; subst.
    apply (many_inv dec_cap ser_cap wf_cap dec_cap_inv) in Hcs. destruct Hcs as [-> Hall].
    apply N.eqb_eq in Et. subst t. cbn [ser_param wf_param app]. rewrite <- ?app_assoc. split; [reflexivity | assumption].
  - inversion H; subst. cbn [ser_param wf_param app]. rewrite <- ?app_assoc. split; [reflexivity | lia].
Qed.

Lemma marker_inv mk : len mk = 16 -> forallb (N.eqb 255) mk = true -> mk = marker.
Proof.
  intros Hl Hf. unfold len in Hl.
  do 16 (destruct mk as [|? mk]; [cbn [length] in Hl; lia|]).
  destruct mk; [|cbn [length] in Hl; lia].
  cbn [forallb] in Hf. repeat (apply andb_true_iff in Hf; destruct Hf as [?H Hf]).
  repeat match goal with H : (255 =? _) = true |- _ => apply N.eqb_eq in H; subst end. reflexivity.
Qed.

Theorem dec_open_inv w4 bs o : wfb bs -> dec_msg w4 bs = Some (MOpen o) ->
  bs = ser_msg w4 (MOpen o) /\ wf_msg w4 (MOpen o).
Proof.
  intros Hw H. unfold dec_msg in H.
  apply bind_some in H. destruct H as ([mk r0] & H0 & H). apply take_inv in H0. destruct H0 as [-> Hmk].
  apply wfb_inv_app in Hw. destruct Hw as [_ Hw].
  apply bind_some in H. destruct H as ([] & Hg & H). apply guard_some in Hg.
  apply marker_inv in Hg; [|assumption]. subst mk.
  apply bind_some in H. destruct H as ([l r1] & H1 & H). apply (get16_inv _ _ _ Hw) in H1. destruct H1 as (-> & Hl & Hw1).
  apply bind_some in H. destruct H as ([t body] & H2 & H). apply get8_inv in H2. subst r1.
  apply bind_some in H. destruct H as ([] & Hg2 & H). apply guard_some in Hg2.
  rewrite !len_app, len_marker, len_u16, len_cons in Hg2.
  destruct (t =? 1) eqn:Et.
  2:{ destruct (t =? 2); [apply bind_some in H; destruct H as (? & _ & H); discriminate|].
      destruct (t =? 3).
      { apply bind_some in H. destruct H as ([? ?] & _ & H). apply bind_some in H. destruct H as ([? ?] & _ & H). discriminate. }
      destruct (t =? 4); [destruct body; discriminate | discriminate]. }
  apply N.eqb_eq in Et. subst t.
  apply bind_some in H. destruct H as (o' & Ho & H). inversion H; subst o'. clear H.
  unfold dec_open in Ho.
  inversion Hw1 as [|? ? _ Hwb]; subst.
  apply bind_some in Ho. destruct Ho as ([v r2] & H3 & Ho). apply get8_inv in H3. subst body.
  inversion Hwb as [|? ? _ Hw2]; subst.
  apply bind_some in Ho. destruct Ho as ([a r3] & H4 & Ho). apply (get16_inv _ _ _ Hw2) in H4. destruct H4 as (-> & Ha & Hw3).
  apply bind_some in Ho. destruct Ho as ([h r4] & H5 & Ho). apply (get16_inv _ _ _ Hw3) in H5. destruct H5 as (-> & Hh & Hw4).
  apply bind_some in Ho. destruct Ho as ([id r5] & H6 & Ho). apply take_inv in H6. destruct H6 as [-> Hid].
  apply bind_some in Ho. destruct Ho as ([ol r6] & H7 & Ho). apply get8_inv in H7. subst r5.
  apply bind_some in Ho. destruct Ho as ([] & Hg3 & Ho). apply guard_some in Hg3.
  apply bind_some in Ho. destruct Ho as ([] & Hg4 & Ho). apply guard_some in Hg4.
  apply bind_some in Ho. destruct Ho as ([] & Hg5 & Ho). apply guard_some in Hg5.
  apply bind_some in Ho. destruct Ho as (ps & Hps & Ho). inversion Ho; subst o. clear Ho.
  apply (many_inv dec_param ser_param wf_param dec_param_inv) in Hps. destruct Hps as [-> Hall].
  assert (Hser : marker ++ u16 l ++ 1 :: v :: u16 a ++ u16 h ++ id ++ ol :: concat (map ser_param ps)
                 = ser_msg w4 (MOpen {| o_ver := v; o_asn := a; o_hold := h; o_id := id; o_params := ps |})).
  { unfold ser_msg. cbn [ser_body o_ver o_asn o_hold o_id o_params app].
    apply N.eqb_eq in Hg3. subst ol.
    apply andb_true_iff in Hg2. destruct Hg2 as [_ Hg2b]. apply N.eqb_eq in Hg2b.
    match goal with |- context [u16 (19 + ?x)] => replace (19 + x) with l by lia end. reflexivity. }
  split; [exact Hser|].
  split.
  - rewrite <- Hser. rewrite !len_app, len_marker, len_u16, !len_cons, !len_app, !len_u16, len_cons in *. lia.
  - unfold wf_open. cbn [o_ver o_asn o_hold o_id o_params]. repeat split; try assumption; lia.
Qed.


(* readOpen on EVERY byte string the independent decoder accepts as an OPEN
   whose optional parameters are all capabilities, followed by any bytes *)
Theorem read_open_correct_dec bs o extra :
  wfb bs -> dec_msg true bs = Some (MOpen o) -> Forall is_pcaps (o_params o) ->
  read_open (bs ++ extra) = (ROk (understood o), len bs).
Proof.
  intros Hw Hd Hp. destruct (dec_open_inv true bs o Hw Hd) as [-> Hwf].
  apply read_open_correct; [assumption|].
  destruct Hwf as [_ (_ & _ & _ & _ & _ & Hps)].
  apply Forall_forall. intros p Hin. rewrite Forall_forall in Hp, Hps.
  specialize (Hp p Hin). specialize (Hps p Hin). destruct p as [cs|]; [|contradiction].
  exists cs. split; [reflexivity | exact Hps].
Qed.
