(* Map algebra of Model/AllocMaps.v: what every lookup returns after one
   iteration / after the whole loop of Unassign and assign.  No coherence is
   assumed here. *)
From Coq Require Import List NArith ZArith Bool Lia Permutation.
From Verif Require Import Model.Net Model.Alloc Model.AllocMaps Proofs.NetP Proofs.AllocP Proofs.AllocMapsBaseP.
Import ListNotations.
Local Open Scope N_scope.

(* instances of the association-list lemmas *)
Definition ig_cons {V} := @aget_cons ip V ip_eqb.
Definition ig_set_eq {V} := @aget_aset_eq ip V ip_eqb ip_eqb_eq.
Definition ig_set_ne {V} := @aget_aset_ne ip V ip_eqb ip_eqb_eq.
Definition ig_del_eq {V} := @aget_adel_eq ip V ip_eqb.
Definition ig_del_ne {V} := @aget_adel_ne ip V ip_eqb ip_eqb_eq.
Definition pg_set_eq {V} := @aget_aset_eq port V port_eqb port_eqb_eq.
Definition pg_set_ne {V} := @aget_aset_ne port V port_eqb port_eqb_eq.
Definition pg_del_eq {V} := @aget_adel_eq port V port_eqb.
Definition pg_del_ne {V} := @aget_adel_ne port V port_eqb port_eqb_eq.
Definition ng_set_eq {V} := @aget_aset_eq N V N.eqb N.eqb_eq.
Definition ng_set_ne {V} := @aget_aset_ne N V N.eqb N.eqb_eq.
Definition ng_del_eq {V} := @aget_adel_eq N V N.eqb.
Definition ng_del_ne {V} := @aget_adel_ne N V N.eqb N.eqb_eq.

Lemma mem_ip_cons x y l : mem_ip x (y :: l) = ip_eqb x y || mem_ip x l.
Proof. reflexivity. Qed.
Lemma mem_ip_false x l : ~ In x l -> mem_ip x l = false.
Proof. intros H. destruct (mem_ip x l) eqn:E; [|reflexivity]. apply mem_ip_In in E. contradiction. Qed.
Lemma mem_port_false p l : ~ In p l -> mem_port p l = false.
Proof. intros H. destruct (mem_port p l) eqn:E; [|reflexivity]. apply mem_port_In in E. contradiction. Qed.
Lemma mem_port_true p l : In p l -> mem_port p l = true.
Proof. apply mem_port_In. Qed.
Lemma mem_ip_true x l : In x l -> mem_ip x l = true.
Proof. apply mem_ip_In. Qed.

(* ---------- inner maps ---------- *)
Lemma del_all_nil ps : del_all ps [] = [].
Proof. induction ps as [|p r IH]; [reflexivity|]. exact IH. Qed.

Lemma aget_del_all p ps pm :
  aget port_eqb p (del_all ps pm) = if mem_port p ps then None else aget port_eqb p pm.
Proof.
  revert pm. induction ps as [|q r IH]; intros pm; [reflexivity|].
  change (del_all (q :: r) pm) with (del_all r (adel port_eqb q pm)). rewrite IH.
  change (mem_port p (q :: r)) with (port_eqb p q || mem_port p r).
  destruct (port_dec q p) as [->|Hne].
  - rewrite pg_del_eq. rewrite (proj2 (port_eqb_eq p p) eq_refl). cbn. destruct (mem_port p r); reflexivity.
  - rewrite (pg_del_ne _ _ _ Hne).
    assert (port_eqb p q = false) as ->.
    { destruct (port_eqb p q) eqn:E; [|reflexivity]. apply port_eqb_eq in E. congruence. }
    reflexivity.
Qed.

Lemma del_panics_false s ps pm :
  NoDup ps -> (forall p, In p ps -> aget port_eqb p pm = Some s) -> del_panics s ps pm = false.
Proof.
  revert pm. induction ps as [|p r IH]; intros pm Hnd H; [reflexivity|].
  inversion Hnd as [|? ? Hn Hd]; subst. cbn [del_panics].
  rewrite (H p (or_introl eq_refl)), N.eqb_refl. cbn. apply IH; [exact Hd|].
  intros q Hq. rewrite pg_del_ne; [apply H; right; exact Hq|]. intros ->. contradiction.
Qed.

Lemma aget_add_ports p s ps pm :
  aget port_eqb p (add_ports s ps pm) = if mem_port p ps then Some s else aget port_eqb p pm.
Proof.
  revert pm. induction ps as [|q r IH]; intros pm; [reflexivity|].
  change (add_ports s (q :: r) pm) with (add_ports s r (aset port_eqb q s pm)). rewrite IH.
  change (mem_port p (q :: r)) with (port_eqb p q || mem_port p r).
  destruct (port_dec q p) as [->|Hne].
  - rewrite pg_set_eq, (proj2 (port_eqb_eq p p) eq_refl). cbn. destruct (mem_port p r); reflexivity.
  - rewrite (pg_set_ne _ _ _ _ Hne).
    assert (port_eqb p q = false) as ->.
    { destruct (port_eqb p q) eqn:E; [|reflexivity]. apply port_eqb_eq in E. congruence. }
    reflexivity.
Qed.

Definition nz (c : Z) : option Z := if (c =? 0)%Z then None else Some c.

Lemma cnt_aset x c cm : cnt x (aset ip_eqb x c cm) = c.
Proof. unfold cnt. rewrite ig_set_eq. reflexivity. Qed.

Lemma aget_dec_eq x cm : aget ip_eqb x (dec x cm) = nz (cnt x cm - 1)%Z.
Proof.
  unfold dec, nz. rewrite cnt_aset. destruct (cnt x cm - 1 =? 0)%Z.
  - apply ig_del_eq.
  - apply ig_set_eq.
Qed.

Lemma aget_dec_ne x x' cm : x <> x' -> aget ip_eqb x' (dec x cm) = aget ip_eqb x' cm.
Proof.
  intros Hne. unfold dec. rewrite cnt_aset. destruct (cnt x cm - 1 =? 0)%Z.
  - rewrite (ig_del_ne _ _ _ Hne). apply ig_set_ne. exact Hne.
  - apply ig_set_ne. exact Hne.
Qed.

Lemma keys_dec x cm : NoDup (map fst cm) -> NoDup (map fst (dec x cm)).
Proof.
  intros H. unfold dec. destruct (_ =? 0)%Z.
  - apply keys_adel. apply (keys_aset ip_eqb ip_eqb_eq). exact H.
  - apply (keys_aset ip_eqb ip_eqb_eq). exact H.
Qed.

Lemma aget_inc_eq x cm : aget ip_eqb x (inc x cm) = Some (cnt x cm + 1)%Z.
Proof. apply ig_set_eq. Qed.
Lemma aget_inc_ne x x' cm : x <> x' -> aget ip_eqb x' (inc x cm) = aget ip_eqb x' cm.
Proof. apply ig_set_ne. Qed.
Lemma keys_inc x cm : NoDup (map fst cm) -> NoDup (map fst (inc x cm)).
Proof. apply (keys_aset ip_eqb ip_eqb_eq). Qed.

Lemma In_add_svc t s l : In t (add_svc s l) <-> t = s \/ In t l.
Proof.
  unfold add_svc. destruct (memN s l) eqn:E.
  - apply memN_In in E. split; [tauto|]. intros [->|H]; assumption.
  - cbn. split; intros [H|H]; auto.
Qed.

(* ---------- the family maps poolIPV4InUse / poolIPV6InUse (on the bare map) ---------- *)
Lemma aget_zdel_eq x cm : aget ip_eqb x (zdel x cm) = nz (cnt x cm).
Proof.
  unfold zdel, nz. destruct (cnt x cm =? 0)%Z eqn:E; [apply ig_del_eq|].
  unfold cnt in *. destruct (aget ip_eqb x cm); [reflexivity|discriminate].
Qed.
Lemma aget_zdel_ne x x' cm : x <> x' -> aget ip_eqb x' (zdel x cm) = aget ip_eqb x' cm.
Proof. intros H. unfold zdel. destruct (_ =? 0)%Z; [apply ig_del_ne; exact H|reflexivity]. Qed.
Lemma keys_zdel x cm : NoDup (map fst cm) -> NoDup (map fst (zdel x cm)).
Proof. intros H. unfold zdel. destruct (_ =? 0)%Z; [apply keys_adel|]; exact H. Qed.

Lemma aget_udec_eq sel x cm :
  aget ip_eqb x (udec sel x cm) = nz (cnt x cm - (if sel then 1 else 0))%Z.
Proof. unfold udec. rewrite aget_zdel_eq. destruct sel; [rewrite cnt_aset; reflexivity|f_equal; lia]. Qed.
Lemma aget_udec_ne sel x x' cm : x <> x' -> aget ip_eqb x' (udec sel x cm) = aget ip_eqb x' cm.
Proof. intros H. unfold udec. rewrite (aget_zdel_ne _ _ _ H). destruct sel; [apply ig_set_ne; exact H|reflexivity]. Qed.
Lemma keys_udec sel x cm : NoDup (map fst cm) -> NoDup (map fst (udec sel x cm)).
Proof. intros H. unfold udec. apply keys_zdel. destruct sel; [apply (keys_aset ip_eqb ip_eqb_eq)|]; exact H. Qed.

Lemma uu_get n sel x um n' : (sel = true -> aget N.eqb n um <> None) ->
  inner (aget N.eqb n' (use_unassign n sel x um)) =
  if n' =? n then udec sel x (inner (aget N.eqb n um)) else inner (aget N.eqb n' um).
Proof.
  intros Hp. unfold use_unassign. destruct (aget N.eqb n um) as [cm|] eqn:E.
  - destruct (N.eqb_spec n' n) as [->|Hne]; [rewrite ng_set_eq; reflexivity|rewrite ng_set_ne by congruence; reflexivity].
  - destruct sel; [exfalso; apply Hp; reflexivity|]. destruct (N.eqb_spec n' n) as [->|Hne]; [rewrite E; reflexivity|reflexivity].
Qed.
Lemma uu_present n sel x um : aget N.eqb n um <> None -> aget N.eqb n (use_unassign n sel x um) <> None.
Proof. unfold use_unassign. destruct (aget N.eqb n um) eqn:E; [|congruence]. intros _. rewrite ng_set_eq. discriminate. Qed.

Definition UU (n : poolid) (sel : ip -> bool) := fun um x => use_unassign n (sel x) x um.

Lemma uu_fold_present n sel ips : forall um, aget N.eqb n um <> None -> aget N.eqb n (fold_left (UU n sel) ips um) <> None.
Proof. induction ips as [|x r IH]; intros um H; [exact H|]. cbn [fold_left]. apply IH. apply uu_present. exact H. Qed.

Lemma uu_fold_count n sel ips : forall um n' x', NoDup ips ->
  (forallb (fun x => negb (sel x)) ips = true \/ aget N.eqb n um <> None) ->
  aget ip_eqb x' (inner (aget N.eqb n' (fold_left (UU n sel) ips um))) =
  if (n' =? n) && mem_ip x' ips then nz (cnt x' (inner (aget N.eqb n' um)) - (if sel x' then 1 else 0))%Z
  else aget ip_eqb x' (inner (aget N.eqb n' um)).
Proof.
  induction ips as [|x r IH]; intros um n' x' Hnd Hp.
  - cbn. rewrite andb_false_r. reflexivity.
  - inversion Hnd as [|? ? Hn Hd]; subst. cbn [fold_left].
    assert (Hp1 : sel x = true -> aget N.eqb n um <> None).
    { intros Hs. destruct Hp as [Hp|Hp]; [|exact Hp]. cbn in Hp. rewrite Hs in Hp. discriminate. }
    assert (Hp2 : forallb (fun x => negb (sel x)) r = true \/ aget N.eqb n (UU n sel um x) <> None).
    { destruct Hp as [Hp|Hp]; [left; cbn in Hp; apply andb_true_iff in Hp; tauto|right; apply uu_present; exact Hp]. }
    rewrite (IH _ _ _ Hd Hp2), mem_ip_cons. unfold UU at 1 2. rewrite (uu_get n (sel x) x um n' Hp1).
    destruct (n' =? n) eqn:En; [|reflexivity]. cbn.
    destruct (ip_dec x' x) as [->|Hne].
    + rewrite ip_eqb_refl, (mem_ip_false _ _ Hn). cbn. apply N.eqb_eq in En. subst n'. apply aget_udec_eq.
    + rewrite (ip_eqb_neq _ _ Hne). cbn. apply N.eqb_eq in En. subst n'. unfold cnt.
      rewrite aget_udec_ne by congruence. reflexivity.
Qed.

Lemma uu_fold_keys n sel ips : forall um n',
  (forallb (fun x => negb (sel x)) ips = true \/ aget N.eqb n um <> None) ->
  NoDup (map fst (inner (aget N.eqb n' um))) -> NoDup (map fst (inner (aget N.eqb n' (fold_left (UU n sel) ips um)))).
Proof.
  induction ips as [|x r IH]; intros um n' Hp H; [exact H|]. cbn [fold_left].
  assert (Hp1 : sel x = true -> aget N.eqb n um <> None).
  { intros Hs. destruct Hp as [Hp|Hp]; [|exact Hp]. cbn in Hp. rewrite Hs in Hp. discriminate. }
  apply IH.
  - destruct Hp as [Hp|Hp]; [left; cbn in Hp; apply andb_true_iff in Hp; tauto|right; apply uu_present; exact Hp].
  - unfold UU. rewrite (uu_get n (sel x) x um n' Hp1). destruct (n' =? n) eqn:En; [|exact H].
    apply keys_udec. apply N.eqb_eq in En. subst. exact H.
Qed.

Lemma ua_get n sel x um n' :
  inner (aget N.eqb n' (use_assign n sel x um)) =
  if n' =? n then (if sel then inc x (inner (aget N.eqb n um)) else inner (aget N.eqb n um)) else inner (aget N.eqb n' um).
Proof.
  unfold use_assign. destruct (N.eqb_spec n' n) as [->|Hne]; [rewrite ng_set_eq; reflexivity|rewrite ng_set_ne by congruence; reflexivity].
Qed.

Definition UA (n : poolid) (sel : ip -> bool) := fun um x => use_assign n (sel x) x um.

Lemma ua_fold_count n sel ips : forall um n' x', NoDup ips ->
  aget ip_eqb x' (inner (aget N.eqb n' (fold_left (UA n sel) ips um))) =
  if (n' =? n) && mem_ip x' ips && sel x' then Some (cnt x' (inner (aget N.eqb n' um)) + 1)%Z
  else aget ip_eqb x' (inner (aget N.eqb n' um)).
Proof.
  induction ips as [|x r IH]; intros um n' x' Hnd.
  - cbn. rewrite andb_false_r. reflexivity.
  - inversion Hnd as [|? ? Hn Hd]; subst. cbn [fold_left].
    rewrite (IH _ _ _ Hd), mem_ip_cons. unfold UA at 1 2. rewrite (ua_get n (sel x) x um n').
    destruct (n' =? n) eqn:En; [|reflexivity]. cbn. apply N.eqb_eq in En. subst n'.
    destruct (ip_dec x' x) as [->|Hne].
    + rewrite ip_eqb_refl, (mem_ip_false _ _ Hn). cbn. destruct (sel x); [apply aget_inc_eq|reflexivity].
    + rewrite (ip_eqb_neq _ _ Hne). cbn. destruct (sel x); [|reflexivity]. unfold cnt. rewrite aget_inc_ne by congruence. reflexivity.
Qed.

Lemma ua_fold_keys n sel ips : forall um n',
  NoDup (map fst (inner (aget N.eqb n' um))) -> NoDup (map fst (inner (aget N.eqb n' (fold_left (UA n sel) ips um)))).
Proof.
  induction ips as [|x r IH]; intros um n' H; [exact H|]. cbn [fold_left]. apply IH.
  unfold UA. rewrite ua_get. destruct (n' =? n) eqn:En; [|exact H]. apply N.eqb_eq in En. subst.
  destruct (sel x); [apply keys_inc|]; exact H.
Qed.

(* ---------- one iteration of Unassign's loop ---------- *)
Section UnassignIp.
  Variables (s : svc) (al : alloc).
  Let f := unassign_ip s al.

  Lemma uip_alloc m x : m_alloc (f m x) = m_alloc m.
  Proof. reflexivity. Qed.
  Lemma uip_pools m x : m_pools (f m x) = m_pools m.
  Proof. reflexivity. Qed.

  Lemma uip_ports m x x' :
    ports_on (f m x) x' = if ip_eqb x' x then del_all (a_ports al) (ports_on m x) else ports_on m x'.
  Proof.
    unfold ports_on, f, unassign_ip. cbn [m_ports].
    destruct (ip_dec x' x) as [->|Hne].
    - rewrite ip_eqb_refl. destruct (aget ip_eqb x (m_ports m)) as [pm|] eqn:E.
      + rewrite ig_set_eq. cbn [inner].
        destruct (del_all (a_ports al) pm) eqn:D; cbn [is_nil].
        * rewrite ig_del_eq. reflexivity.
        * rewrite ig_set_eq. reflexivity.
      + rewrite E. cbn [inner is_nil]. rewrite ig_del_eq, del_all_nil. reflexivity.
    - rewrite (ip_eqb_neq _ _ Hne). assert (Hne' : x <> x') by congruence.
      destruct (aget ip_eqb x (m_ports m)) as [pm|] eqn:E.
      + rewrite ig_set_eq. cbn [inner]. destruct (is_nil _).
        * rewrite (ig_del_ne _ _ _ Hne'), (ig_set_ne _ _ _ _ Hne'). reflexivity.
        * rewrite (ig_set_ne _ _ _ _ Hne'). reflexivity.
      + rewrite E. cbn [inner is_nil]. rewrite (ig_del_ne _ _ _ Hne'). reflexivity.
  Qed.

  Lemma uip_key m x x' :
    key_of (f m x) x' = if ip_eqb x' x then (if is_nil (del_all (a_ports al) (ports_on m x)) then None else key_of m x)
                        else key_of m x'.
  Proof.
    unfold key_of, ports_on, f, unassign_ip. cbn [m_key].
    destruct (ip_dec x' x) as [->|Hne].
    - rewrite ip_eqb_refl. destruct (aget ip_eqb x (m_ports m)) as [pm|] eqn:E.
      + rewrite ig_set_eq. cbn [inner]. destruct (is_nil _); [apply ig_del_eq|reflexivity].
      + rewrite E. cbn [inner is_nil]. rewrite del_all_nil. cbn [is_nil]. apply ig_del_eq.
    - rewrite (ip_eqb_neq _ _ Hne). assert (Hne' : x <> x') by congruence.
      destruct (is_nil _); [apply ig_del_ne; exact Hne'|reflexivity].
  Qed.

  Lemma uip_svcs m x x' :
    svcs_on (f m x) x' = if ip_eqb x' x then filter (fun t => negb (t =? s)) (svcs_on m x) else svcs_on m x'.
  Proof.
    unfold svcs_on, f, unassign_ip. cbn [m_svcs].
    destruct (ip_dec x' x) as [->|Hne].
    - rewrite ip_eqb_refl. destruct (aget ip_eqb x (m_svcs m)) as [l|] eqn:E.
      + rewrite ig_set_eq. reflexivity.
      + rewrite E. reflexivity.
    - rewrite (ip_eqb_neq _ _ Hne). assert (Hne' : x <> x') by congruence.
      destruct (aget ip_eqb x (m_svcs m)) as [l|] eqn:E; [|reflexivity].
      rewrite (ig_set_ne _ _ _ _ Hne'). reflexivity.
  Qed.

  Definition present (m : mstate) : Prop := aget N.eqb (a_pool al) (m_use m) <> None.

  Lemma uip_present m x : present m -> present (f m x).
  Proof.
    unfold present, f, unassign_ip. cbn [m_use]. destruct (aget N.eqb (a_pool al) (m_use m)); [|congruence].
    intros _. rewrite ng_set_eq. discriminate.
  Qed.

  Lemma uip_use m x n :
    present m -> use_of (f m x) n = if n =? a_pool al then dec x (use_of m n) else use_of m n.
  Proof.
    unfold present, use_of, f, unassign_ip. cbn [m_use]. intros Hp.
    destruct (aget N.eqb (a_pool al) (m_use m)) as [cm|] eqn:E; [|congruence].
    destruct (N.eqb_spec n (a_pool al)) as [->|Hne].
    - rewrite ng_set_eq, E. reflexivity.
    - rewrite ng_set_ne; [reflexivity|congruence].
  Qed.

  Lemma uip_count m x n x' :
    present m ->
    count (f m x) n x' = if (n =? a_pool al) && ip_eqb x' x then nz (cnt x (use_of m n) - 1)%Z else count m n x'.
  Proof.
    intros Hp. unfold count. rewrite (uip_use m x n Hp). destruct (n =? a_pool al); [|reflexivity]. cbn.
    destruct (ip_dec x' x) as [->|Hne].
    - rewrite ip_eqb_refl. apply aget_dec_eq.
    - rewrite (ip_eqb_neq _ _ Hne). apply aget_dec_ne. congruence.
  Qed.

  Lemma uip_panic m x :
    m_panic (f m x) = m_panic m || del_panics s (a_ports al) (ports_on m x) || is_none (aget N.eqb (a_pool al) (m_use m))
                      || is_none (aget N.eqb (a_pool al) (if is4 x then m_use4 m else m_use6 m)).
  Proof. reflexivity. Qed.

  Lemma ufold_use4 ips m : m_use4 (fold_left f ips m) = fold_left (UU (a_pool al) is4) ips (m_use4 m).
  Proof. revert m. induction ips as [|x r IH]; intros m; [reflexivity|]. cbn [fold_left]. rewrite IH. reflexivity. Qed.
  Lemma ufold_use6 ips m : m_use6 (fold_left f ips m) = fold_left (UU (a_pool al) is6) ips (m_use6 m).
  Proof. revert m. induction ips as [|x r IH]; intros m; [reflexivity|]. cbn [fold_left]. rewrite IH. reflexivity. Qed.

  (* ---- the whole loop, over distinct addresses ---- *)
  Lemma ufold_alloc ips m : m_alloc (fold_left f ips m) = m_alloc m.
  Proof. revert m. induction ips as [|x r IH]; intros m; [reflexivity|]. cbn [fold_left]. rewrite IH. reflexivity. Qed.
  Lemma ufold_pools ips m : m_pools (fold_left f ips m) = m_pools m.
  Proof. revert m. induction ips as [|x r IH]; intros m; [reflexivity|]. cbn [fold_left]. rewrite IH. reflexivity. Qed.

  Lemma ufold_ports ips : forall m x', NoDup ips ->
    ports_on (fold_left f ips m) x' = if mem_ip x' ips then del_all (a_ports al) (ports_on m x') else ports_on m x'.
  Proof.
    induction ips as [|x r IH]; intros m x' Hnd; [reflexivity|]. inversion Hnd as [|? ? Hn Hd]; subst.
    cbn [fold_left]. rewrite (IH _ _ Hd), mem_ip_cons, uip_ports.
    destruct (ip_dec x' x) as [->|Hne].
    - rewrite ip_eqb_refl, (mem_ip_false _ _ Hn). reflexivity.
    - rewrite (ip_eqb_neq _ _ Hne). reflexivity.
  Qed.

  Lemma ufold_key ips : forall m x', NoDup ips ->
    key_of (fold_left f ips m) x' =
    if mem_ip x' ips && is_nil (del_all (a_ports al) (ports_on m x')) then None else key_of m x'.
  Proof.
    induction ips as [|x r IH]; intros m x' Hnd; [reflexivity|]. inversion Hnd as [|? ? Hn Hd]; subst.
    cbn [fold_left]. rewrite (IH _ _ Hd), mem_ip_cons, uip_key, uip_ports.
    destruct (ip_dec x' x) as [->|Hne].
    - rewrite ip_eqb_refl, (mem_ip_false _ _ Hn). cbn. reflexivity.
    - rewrite (ip_eqb_neq _ _ Hne). reflexivity.
  Qed.

  Lemma ufold_svcs ips : forall m x', NoDup ips ->
    svcs_on (fold_left f ips m) x' =
    if mem_ip x' ips then filter (fun t => negb (t =? s)) (svcs_on m x') else svcs_on m x'.
  Proof.
    induction ips as [|x r IH]; intros m x' Hnd; [reflexivity|]. inversion Hnd as [|? ? Hn Hd]; subst.
    cbn [fold_left]. rewrite (IH _ _ Hd), mem_ip_cons, uip_svcs.
    destruct (ip_dec x' x) as [->|Hne].
    - rewrite ip_eqb_refl, (mem_ip_false _ _ Hn). reflexivity.
    - rewrite (ip_eqb_neq _ _ Hne). reflexivity.
  Qed.

  Lemma ufold_count ips : forall m n x', NoDup ips -> (ips = [] \/ present m) ->
    count (fold_left f ips m) n x' =
    if (n =? a_pool al) && mem_ip x' ips then nz (cnt x' (use_of m n) - 1)%Z else count m n x'.
  Proof.
    induction ips as [|x r IH]; intros m n x' Hnd Hp.
    - cbn. rewrite andb_false_r. reflexivity.
    - destruct Hp as [Hp|Hp]; [discriminate|]. inversion Hnd as [|? ? Hn Hd]; subst.
      cbn [fold_left]. rewrite (IH _ _ _ Hd (or_intror (uip_present m x Hp))), mem_ip_cons.
      rewrite (uip_count m x n x' Hp), (uip_use m x n Hp).
      destruct (n =? a_pool al); [|reflexivity]. cbn.
      destruct (ip_dec x' x) as [->|Hne].
      + rewrite ip_eqb_refl, (mem_ip_false _ _ Hn). reflexivity.
      + rewrite (ip_eqb_neq _ _ Hne). cbn. unfold cnt. rewrite aget_dec_ne by congruence. reflexivity.
  Qed.

  Lemma ufold_keys ips : forall m n, (ips = [] \/ present m) ->
    NoDup (map fst (use_of m n)) -> NoDup (map fst (use_of (fold_left f ips m) n)).
  Proof.
    induction ips as [|x r IH]; intros m n Hp H; [exact H|].
    destruct Hp as [Hp|Hp]; [discriminate|]. cbn [fold_left].
    apply IH; [right; apply uip_present; exact Hp|]. rewrite (uip_use m x n Hp).
    destruct (n =? a_pool al); [apply keys_dec|]; exact H.
  Qed.

  Lemma ufold_panic ips : forall m, NoDup ips -> (ips = [] \/ present m) -> m_panic m = false ->
    (forall x, In x ips -> del_panics s (a_ports al) (ports_on m x) = false) ->
    (forall x, In x ips -> aget N.eqb (a_pool al) (if is4 x then m_use4 m else m_use6 m) <> None) ->
    m_panic (fold_left f ips m) = false.
  Proof.
    induction ips as [|x r IH]; intros m Hnd Hp Hpan H Htw; [exact Hpan|].
    destruct Hp as [Hp|Hp]; [discriminate|]. inversion Hnd as [|? ? Hn Hd]; subst. cbn [fold_left].
    apply IH; [exact Hd|right; apply uip_present; exact Hp| | |].
    - rewrite uip_panic, Hpan, (H x (or_introl eq_refl)). unfold present in Hp.
      pose proof (Htw x (or_introl eq_refl)) as Ht.
      destruct (aget N.eqb (a_pool al) (m_use m)); [|congruence].
      destruct (aget N.eqb (a_pool al) (if is4 x then m_use4 m else m_use6 m)); [reflexivity|congruence].
    - intros y Hy. rewrite uip_ports. rewrite ip_eqb_neq; [apply H; right; exact Hy|]. intros ->. contradiction.
    - intros y Hy. specialize (Htw y (or_intror Hy)). unfold f, unassign_ip. cbn [m_use4 m_use6].
      destruct (is4 y); apply uu_present; exact Htw.
  Qed.
End UnassignIp.

(* ---------- one iteration of assign's loop ---------- *)
Section AssignIp.
  Variables (s : svc) (al : alloc).
  Let g := assign_ip s al.

  Lemma aip_key m x x' : key_of (g m x) x' = if ip_eqb x' x then Some (a_key al) else key_of m x'.
  Proof.
    unfold key_of, g, assign_ip. cbn [m_key]. destruct (ip_dec x' x) as [->|Hne].
    - rewrite ip_eqb_refl. apply ig_set_eq.
    - rewrite (ip_eqb_neq _ _ Hne). apply ig_set_ne. congruence.
  Qed.

  Lemma aip_ports m x x' :
    ports_on (g m x) x' = if ip_eqb x' x then add_ports s (a_ports al) (ports_on m x) else ports_on m x'.
  Proof.
    unfold ports_on, g, assign_ip. cbn [m_ports]. destruct (ip_dec x' x) as [->|Hne].
    - rewrite ip_eqb_refl, ig_set_eq. reflexivity.
    - rewrite (ip_eqb_neq _ _ Hne), ig_set_ne by congruence. reflexivity.
  Qed.

  Lemma aip_svcs m x x' :
    svcs_on (g m x) x' = if ip_eqb x' x then add_svc s (svcs_on m x) else svcs_on m x'.
  Proof.
    unfold svcs_on at 1. unfold g, assign_ip. cbn [m_svcs]. destruct (ip_dec x' x) as [->|Hne].
    - rewrite ip_eqb_refl, ig_set_eq. reflexivity.
    - rewrite (ip_eqb_neq _ _ Hne), ig_set_ne by congruence. reflexivity.
  Qed.

  Lemma aip_use m x n : use_of (g m x) n = if n =? a_pool al then inc x (use_of m n) else use_of m n.
  Proof.
    unfold use_of, g, assign_ip. cbn [m_use]. destruct (N.eqb_spec n (a_pool al)) as [->|Hne].
    - rewrite ng_set_eq. reflexivity.
    - rewrite ng_set_ne by congruence. reflexivity.
  Qed.

  Lemma aip_count m x n x' :
    count (g m x) n x' = if (n =? a_pool al) && ip_eqb x' x then Some (cnt x (use_of m n) + 1)%Z else count m n x'.
  Proof.
    unfold count. rewrite aip_use. destruct (n =? a_pool al); [|reflexivity]. cbn.
    destruct (ip_dec x' x) as [->|Hne].
    - rewrite ip_eqb_refl. apply aget_inc_eq.
    - rewrite (ip_eqb_neq _ _ Hne). apply aget_inc_ne. congruence.
  Qed.

  Lemma afold_use4 ips m : m_use4 (fold_left g ips m) = fold_left (UA (a_pool al) is4) ips (m_use4 m).
  Proof. revert m. induction ips as [|x r IH]; intros m; [reflexivity|]. cbn [fold_left]. rewrite IH. reflexivity. Qed.
  Lemma afold_use6 ips m : m_use6 (fold_left g ips m) = fold_left (UA (a_pool al) is6) ips (m_use6 m).
  Proof. revert m. induction ips as [|x r IH]; intros m; [reflexivity|]. cbn [fold_left]. rewrite IH. reflexivity. Qed.

  Lemma afold_alloc ips m : m_alloc (fold_left g ips m) = m_alloc m.
  Proof. revert m. induction ips as [|x r IH]; intros m; [reflexivity|]. cbn [fold_left]. rewrite IH. reflexivity. Qed.
  Lemma afold_pools ips m : m_pools (fold_left g ips m) = m_pools m.
  Proof. revert m. induction ips as [|x r IH]; intros m; [reflexivity|]. cbn [fold_left]. rewrite IH. reflexivity. Qed.
  Lemma afold_panic ips m : m_panic (fold_left g ips m) = m_panic m.
  Proof. revert m. induction ips as [|x r IH]; intros m; [reflexivity|]. cbn [fold_left]. rewrite IH. reflexivity. Qed.

  Lemma afold_key ips : forall m x', NoDup ips ->
    key_of (fold_left g ips m) x' = if mem_ip x' ips then Some (a_key al) else key_of m x'.
  Proof.
    induction ips as [|x r IH]; intros m x' Hnd; [reflexivity|]. inversion Hnd as [|? ? Hn Hd]; subst.
    cbn [fold_left]. rewrite (IH _ _ Hd), mem_ip_cons, aip_key.
    destruct (ip_dec x' x) as [->|Hne].
    - rewrite ip_eqb_refl, (mem_ip_false _ _ Hn). reflexivity.
    - rewrite (ip_eqb_neq _ _ Hne). reflexivity.
  Qed.

  Lemma afold_ports ips : forall m x', NoDup ips ->
    ports_on (fold_left g ips m) x' = if mem_ip x' ips then add_ports s (a_ports al) (ports_on m x') else ports_on m x'.
  Proof.
    induction ips as [|x r IH]; intros m x' Hnd; [reflexivity|]. inversion Hnd as [|? ? Hn Hd]; subst.
    cbn [fold_left]. rewrite (IH _ _ Hd), mem_ip_cons, aip_ports.
    destruct (ip_dec x' x) as [->|Hne].
    - rewrite ip_eqb_refl, (mem_ip_false _ _ Hn). reflexivity.
    - rewrite (ip_eqb_neq _ _ Hne). reflexivity.
  Qed.

  Lemma afold_svcs ips : forall m x', NoDup ips ->
    svcs_on (fold_left g ips m) x' = if mem_ip x' ips then add_svc s (svcs_on m x') else svcs_on m x'.
  Proof.
    induction ips as [|x r IH]; intros m x' Hnd; [reflexivity|]. inversion Hnd as [|? ? Hn Hd]; subst.
    cbn [fold_left]. rewrite (IH _ _ Hd), mem_ip_cons, aip_svcs.
    destruct (ip_dec x' x) as [->|Hne].
    - rewrite ip_eqb_refl, (mem_ip_false _ _ Hn). reflexivity.
    - rewrite (ip_eqb_neq _ _ Hne). reflexivity.
  Qed.

  Lemma afold_count ips : forall m n x', NoDup ips ->
    count (fold_left g ips m) n x' =
    if (n =? a_pool al) && mem_ip x' ips then Some (cnt x' (use_of m n) + 1)%Z else count m n x'.
  Proof.
    induction ips as [|x r IH]; intros m n x' Hnd.
    - cbn. rewrite andb_false_r. reflexivity.
    - inversion Hnd as [|? ? Hn Hd]; subst. cbn [fold_left].
      rewrite (IH _ _ _ Hd), mem_ip_cons, aip_count, aip_use.
      destruct (n =? a_pool al); [|reflexivity]. cbn.
      destruct (ip_dec x' x) as [->|Hne].
      + rewrite ip_eqb_refl, (mem_ip_false _ _ Hn). reflexivity.
      + rewrite (ip_eqb_neq _ _ Hne). cbn. unfold cnt. rewrite aget_inc_ne by congruence. reflexivity.
  Qed.

  Lemma afold_keys ips : forall m n,
    NoDup (map fst (use_of m n)) -> NoDup (map fst (use_of (fold_left g ips m) n)).
  Proof.
    induction ips as [|x r IH]; intros m n H; [exact H|]. cbn [fold_left]. apply IH. rewrite aip_use.
    destruct (n =? a_pool al); [apply keys_inc|]; exact H.
  Qed.
End AssignIp.
