(* Lemmas about Model/AnnouncerExt.v: the control-flow transcriptions agree with the model the
   C13 theorems are about (and the `return` variants do not); spam loop, gratuitous sweeps and
   interface rescans interleaved with updates keep the statement of C13. *)
From Coq Require Import List NArith ZArith Bool Lia ZifyN ZifyNat ZifyBool.
From Verif Require Import Model.Net Proofs.NetP Model.Announcer Proofs.AnnouncerP Proofs.AnnouncerNdpP
  Proofs.AnnouncerTop Model.AnnouncerExt.
Import ListNotations.
Local Open Scope Z_scope.

(* ---------- for_each ---------- *)
Lemma for_each_next {A S} (body : A -> S -> S * ctl) (f : S -> A -> S) l s :
  (forall x s, body x s = (f s x, CNext)) -> for_each body l s = (fold_left f l s, CNext).
Proof.
  intros H. revert s. induction l as [|x l IH]; intros s; cbn; [reflexivity|]. rewrite H. apply IH.
Qed.

(* ---------- DeleteBalancer ---------- *)
Lemma del_body_dec1 cur s : del_body cur s = (dec1 s (a_ip cur), CNext).
Proof.
  unfold del_body, dec1, set_rc, unwatch_all. cbn [ips refcnt arps ndps groups member].
  set (c := rc s (a_ip cur) - 1).
  assert (E : rc (mk_st (ips s) (zset (a_ip cur) c (refcnt s)) (arps s) (ndps s) (groups s) (member s)) (a_ip cur) = c).
  { unfold rc. cbn [refcnt]. rewrite zget_zset, ip_eqb_refl. reflexivity. }
  rewrite E. destruct (0 <? c); reflexivity.
Qed.

Lemma delete_balancer_t_eq name s : delete_balancer_t name s = delete_balancer name s.
Proof.
  unfold delete_balancer_t, delete_balancer. destruct (lookup name (ips s)) as [advs|]; [|reflexivity].
  rewrite (for_each_next del_body (fun s cur => dec1 s (a_ip cur))) by (intros; apply del_body_dec1).
  cbn [fst]. generalize (with_ips s (remove name (ips s))). induction advs as [|a l IH]; intros s0; cbn; [reflexivity|apply IH].
Qed.

(* ---------- gratuitous ---------- *)
Lemma grat_for_each a k l acc :
  for_each (grat_body a k) l acc = ((acc ++ map (pair k) (filter (match_intf a) l))%list, CNext).
Proof.
  revert acc. induction l as [|x l IH]; intros acc; cbn [for_each filter map].
  - rewrite app_nil_r. reflexivity.
  - unfold grat_body at 1. destruct (match_intf a x); cbn [negb].
    + rewrite IH. cbn [map]. rewrite <- app_assoc. reflexivity.
    + apply IH.
Qed.

Lemma gratuitous_t_eq s a : gratuitous_t s a = gratuitous s a.
Proof.
  unfold gratuitous_t, gratuitous. destruct (rc s (a_ip a) <=? 0); [reflexivity|].
  destruct (a_ip a); rewrite grat_for_each; reflexivity.
Qed.

(* ---------- the `return` variants are wrong ---------- *)
(* two services share 10.0.0.1; withdrawing the first returns from the loop before the entry is
   forgotten: the service is still listed, the count says 1 although 2 services list the address *)
Lemma delete_return_refuted :
  exists ar nd us name i,
    let s := reached ar nd us in let s' := delete_balancer_return name s in
    announce_name s' name = true /\ rc s' i = 1 /\ services_with s' i = 2%nat /\
    announce_name (delete_balancer name s) name = false.
Proof.
  exists [1%N], [], [USet 1 (mk_adv (V4 167772161) true []); USet 2 (mk_adv (V4 167772161) true [])], 1%N, (V4 167772161).
  vm_compute. repeat split.
Qed.

(* a sweep that returns at the first responder not covered by the advertisement skips the others *)
Lemma gratuitous_return_refuted :
  exists ar nd us a, let s := reached ar nd us in
    gratuitous_return s a = [] /\ gratuitous s a = [(true, 2%N)].
Proof.
  exists [1%N; 2%N], [], [USet 1 (mk_adv (V4 167772161) false [2%N])], (mk_adv (V4 167772161) false [2%N]).
  vm_compute. split; reflexivity.
Qed.

(* ---------- rescan ---------- *)
Lemma inv_rescan ar nd s : inv s -> inv (rescan ar nd s).
Proof. intros [K O R]. split; [exact K|exact O|exact R]. Qed.

Lemma holds_rescan ar nd s svc a : holds (rescan ar nd s) svc a <-> holds s svc a.
Proof. reflexivity. Qed.

Lemma rc_rescan ar nd s i : rc (rescan ar nd s) i = rc s i.
Proof. reflexivity. Qed.

Lemma zget_filter {K} (eqb : K -> K -> bool) (p : K -> bool) k m :
  (forall k', eqb k k' = true -> p k' = true) ->
  zget eqb k (filter (fun e => p (fst e)) m) = zget eqb k m.
Proof.
  intros H. unfold zget. induction m as [|[k' v] m IH]; [reflexivity|]. cbn [filter fst].
  destruct (p k') eqn:P.
  - cbn [find fst]. destruct (eqb k k'); [reflexivity|exact IH].
  - cbn [find fst]. destruct (eqb k k') eqn:E; [rewrite (H k' E) in P; discriminate|exact IH].
Qed.

Lemma zget_filter_out {K} (eqb : K -> K -> bool) (p : K -> bool) k m :
  (forall k', eqb k k' = true -> p k' = false) ->
  zget eqb k (filter (fun e => p (fst e)) m) = 0.
Proof.
  intros H. unfold zget. induction m as [|[k' v] m IH]; [reflexivity|]. cbn [filter fst].
  destruct (p k') eqn:P; [|exact IH].
  cbn [find fst]. destruct (eqb k k') eqn:E; [rewrite (H k' E) in P; discriminate|exact IH].
Qed.

Lemma memN_in x l : memN x l = true <-> In x l.
Proof.
  unfold memN. rewrite existsb_exists. split.
  - intros [y [H1 H2]]. apply N.eqb_eq in H2. subst. exact H1.
  - intros H. exists x. split; [exact H|apply N.eqb_refl].
Qed.

Lemma filter_none {A} (p : A -> bool) l : (forall x, In x l -> p x = false) -> filter p l = [].
Proof.
  induction l as [|x l IH]; intros H; [reflexivity|]. cbn. rewrite (H x) by (left; reflexivity).
  apply IH. intros y Hy. apply H. right. exact Hy.
Qed.

(* dedup_ips *)
Lemma dedup_in x l : In x (dedup_ips l) <-> In x l.
Proof.
  induction l as [|y l IH]; [reflexivity|]. cbn [dedup_ips]. destruct (existsb (ip_eqb y) l) eqn:E.
  - rewrite IH. split; [intros H; right; exact H|]. intros [<-|H]; [|exact H].
    apply existsb_exists in E. destruct E as [z [Hz Ez]]. apply ip_eqb_eq in Ez. subst. exact Hz.
  - cbn [In]. rewrite IH. reflexivity.
Qed.

Lemma dedup_nodup l : NoDup (dedup_ips l).
Proof.
  induction l as [|y l IH]; [constructor|]. cbn [dedup_ips]. destruct (existsb (ip_eqb y) l) eqn:E; [exact IH|].
  constructor; [|exact IH]. rewrite dedup_in. intros H.
  assert (X : existsb (ip_eqb y) l = true) by (apply existsb_exists; exists y; split; [exact H|apply ip_eqb_refl]). congruence.
Qed.

Lemma zget_nonzero_in {K} (eqb : K -> K -> bool) k (m : list (K * Z)) :
  (forall a b, eqb a b = true -> a = b) -> zget eqb k m <> 0 -> In k (map fst m).
Proof.
  intros EQ. unfold zget. destruct (find (fun p => eqb k (fst p)) m) as [p|] eqn:F; [|intros H; congruence].
  intros _. apply find_some in F. destruct F as [F1 F2]. apply EQ in F2. subst. apply in_map. exact F1.
Qed.

Lemma live_in s i : In i (live_ips s) <-> 0 < rc s i.
Proof.
  unfold live_ips. rewrite filter_In, dedup_in. split; [intros [_ H]; lia|]. intros H. split; [|lia].
  unfold rc in *. apply (zget_nonzero_in ip_eqb); [intros a b E; apply ip_eqb_eq; exact E|lia].
Qed.

Lemma live_nodup s : NoDup (live_ips s).
Proof. unfold live_ips. apply NoDup_filter, dedup_nodup. Qed.

Lemma filter_and {A} (p q : A -> bool) l : filter (fun i => p i && q i) l = filter q (filter p l).
Proof.
  induction l as [|x l IH]; [reflexivity|]. cbn [filter]. destruct (p x); cbn [andb filter]; [destruct (q x); rewrite IH; reflexivity|exact IH].
Qed.

Lemma filter_permutation {A} (f : A -> bool) l l' :
  Permutation.Permutation l l' -> Permutation.Permutation (filter f l) (filter f l').
Proof.
  intros P. induction P; cbn [filter].
  - constructor.
  - destruct (f x); [constructor|]; assumption.
  - destruct (f x), (f y); try constructor; apply Permutation.Permutation_refl.
  - eapply Permutation.perm_trans; eassumption.
Qed.

(* the sum over any covering duplicate-free list is the number of live addresses in the group *)
Lemma zsum_live s g U : inv s -> NoDup U -> covers s U ->
  zsum (Fg s g) U = Z.of_nat (length (filter (in_group g) (live_ips s))).
Proof.
  intros I ND CV.
  rewrite (zsum_filter (Fg s g) (fun i => (0 <? rc s i) && in_group g i) U) by (intros; reflexivity).
  f_equal. rewrite filter_and. apply Permutation.Permutation_length.
  apply filter_permutation. apply Permutation.NoDup_Permutation; [apply NoDup_filter; exact ND|apply live_nodup|].
  intros x. rewrite filter_In, live_in. split; [intros [_ H]; lia|]. intros H. split; [apply CV; lia|lia].
Qed.

(* Watch of a list of addresses on one responder *)
Lemma watch_ips_other intf intf' l gm g : intf' <> intf ->
  g1 (watch_ips intf l gm) intf' g = g1 gm intf' g /\ g2 (watch_ips intf l gm) intf' g = g2 gm intf' g.
Proof.
  intros Hne. revert gm. induction l as [|i l IH]; intros gm; cbn [watch_ips fold_left]; [auto|].
  destruct (IH (watch1 i gm intf)) as [A B]. unfold watch_ips in A, B. rewrite A, B.
  apply watch1_unch. left. exact Hne.
Qed.

Lemma watch_ips_hit intf l gm g :
  g2 gm intf g = (if 0 <? g1 gm intf g then 1 else 0) -> 0 <= g1 gm intf g ->
  g1 (watch_ips intf l gm) intf g = g1 gm intf g + Z.of_nat (length (filter (in_group g) l)) /\
  g2 (watch_ips intf l gm) intf g = (if 0 <? g1 (watch_ips intf l gm) intf g then 1 else 0).
Proof.
  revert gm. induction l as [|i l IH]; intros gm E NN; cbn [watch_ips fold_left filter].
  - cbn [length]. split; [lia|exact E].
  - destruct (in_group g i) eqn:G.
    + destruct (watch1_hit i gm intf g G) as [A B].
      assert (E' : g2 (watch1 i gm intf) intf g = if 0 <? g1 (watch1 i gm intf) intf g then 1 else 0).
      { rewrite A, B, E. destruct (g1 gm intf g =? 0) eqn:Z0; destruct (0 <? g1 gm intf g) eqn:P;
          destruct (0 <? g1 gm intf g + 1) eqn:P1; lia. }
      destruct (IH (watch1 i gm intf) E' ltac:(lia)) as [C D]. unfold watch_ips in C, D |- *. split; [|exact D].
      rewrite C, A. cbn [length]. lia.
    + destruct (watch1_unch i gm intf intf g (or_intror G)) as [A B].
      assert (E' : g2 (watch1 i gm intf) intf g = if 0 <? g1 (watch1 i gm intf) intf g then 1 else 0) by (rewrite A, B; exact E).
      destruct (IH (watch1 i gm intf) E' ltac:(lia)) as [C D]. unfold watch_ips in C, D |- *. split; [|exact D].
      rewrite C, A. reflexivity.
Qed.

(* ... on every new responder *)
Lemma fresh_unch l fresh gm intf g : ~ In intf fresh ->
  g1 (fold_left (fun gm x => watch_ips x l gm) fresh gm) intf g = g1 gm intf g /\
  g2 (fold_left (fun gm x => watch_ips x l gm) fresh gm) intf g = g2 gm intf g.
Proof.
  revert gm. induction fresh as [|x fresh IH]; intros gm H; cbn [fold_left]; [auto|].
  destruct (IH (watch_ips x l gm)) as [A B]; [intros X; apply H; right; exact X|]. rewrite A, B.
  apply watch_ips_other. intros ->. apply H. left. reflexivity.
Qed.

Lemma fresh_hit l fresh gm intf g : NoDup fresh -> In intf fresh ->
  g2 gm intf g = (if 0 <? g1 gm intf g then 1 else 0) -> 0 <= g1 gm intf g ->
  let gm' := fold_left (fun gm x => watch_ips x l gm) fresh gm in
  g1 gm' intf g = g1 gm intf g + Z.of_nat (length (filter (in_group g) l)) /\
  g2 gm' intf g = (if 0 <? g1 gm' intf g then 1 else 0).
Proof.
  revert gm. induction fresh as [|x fresh IH]; intros gm ND Hi E NN; [contradiction|]. cbn [fold_left]. inversion ND; subst.
  destruct (N.eq_dec x intf) as [->|Hne].
  - destruct (watch_ips_hit intf l gm g E NN) as [A B].
    destruct (fresh_unch l fresh (watch_ips intf l gm) intf g H1) as [C D]. cbn zeta. rewrite C, D. split; [exact A|exact B].
  - destruct Hi as [->|Hi]; [congruence|].
    destruct (watch_ips_other x intf l gm g ltac:(congruence)) as [A B].
    destruct (IH (watch_ips x l gm) H2 Hi ltac:(rewrite A, B; exact E) ltac:(rewrite A; exact NN)) as [C D].
    cbn zeta in C, D |- *. split; [rewrite C, A; reflexivity|exact D].
Qed.

(* the rescan keeps the whole invariant: kept responders are untouched, new ones have watched
   exactly the addresses in use *)
Lemma full_inv_rescan ar nd s : NoDup nd -> full_inv s -> full_inv (rescan ar nd s).
Proof.
  intros NDn [I [ND [IG IM]]]. split; [apply inv_rescan; exact I|]. split; [exact NDn|].
  set (kept := filter (fun i => memN i (ndps s)) nd).
  set (fresh := filter (fun i => negb (memN i (ndps s))) nd).
  set (g0 := filter (fun e => memN (fst (fst e)) kept) (groups s)).
  set (m0 := filter (fun e => memN (fst (fst e)) kept) (member s)).
  set (gm' := fold_left (fun gm x => watch_ips x (live_ips s) gm) fresh (g0, m0)).
  assert (GRP : forall intf g, grp (rescan ar nd s) intf g = g1 gm' intf g) by reflexivity.
  assert (MEM : forall intf g, mem (rescan ar nd s) intf g = g2 gm' intf g) by reflexivity.
  assert (Kin : forall x, In x kept <-> In x nd /\ In x (ndps s)).
  { intros x. unfold kept. rewrite filter_In, memN_in. reflexivity. }
  assert (Fin : forall x, In x fresh <-> In x nd /\ ~ In x (ndps s)).
  { intros x. unfold fresh. rewrite filter_In, negb_true_iff. split.
    - intros [H1 H2]. split; [exact H1|]. intros H. apply memN_in in H. congruence.
    - intros [H1 H2]. split; [exact H1|]. destruct (memN x (ndps s)) eqn:M; [|reflexivity]. exfalso. apply H2, memN_in, M. }
  assert (NDf : NoDup fresh) by (apply NoDup_filter; exact NDn).
  (* values for a kept responder *)
  assert (KEPT : forall intf g, In intf nd -> In intf (ndps s) ->
                 g1 gm' intf g = grp s intf g /\ g2 gm' intf g = mem s intf g).
  { intros intf g H1 H2.
    destruct (fresh_unch (live_ips s) fresh (g0, m0) intf g) as [A B]; [rewrite Fin; tauto|].
    fold gm' in A, B. rewrite A, B. unfold g1, g2, g0, m0, grp, mem. cbn [fst snd]. split.
    - apply (zget_filter pair_eqb (fun k => memN (fst k) kept)). intros k' E. apply pair_eqb_eq in E. subst k'. cbn. apply memN_in, Kin. tauto.
    - apply (zget_filter pair_eqb (fun k => memN (fst k) kept)). intros k' E. apply pair_eqb_eq in E. subst k'. cbn. apply memN_in, Kin. tauto. }
  (* values for a new responder *)
  assert (FRESH : forall intf g, In intf nd -> ~ In intf (ndps s) ->
                  g1 gm' intf g = Z.of_nat (length (filter (in_group g) (live_ips s))) /\
                  g2 gm' intf g = (if 0 <? g1 gm' intf g then 1 else 0)).
  { intros intf g H1 H2.
    assert (Z1 : g1 (g0, m0) intf g = 0).
    { unfold g1, g0. cbn [fst]. apply (zget_filter_out pair_eqb (fun k => memN (fst k) kept)).
      intros k' E. apply pair_eqb_eq in E. subst k'. cbn. destruct (memN intf kept) eqn:M; [|reflexivity].
      apply memN_in, Kin in M. tauto. }
    assert (Z2 : g2 (g0, m0) intf g = 0).
    { unfold g2, m0. cbn [snd]. apply (zget_filter_out pair_eqb (fun k => memN (fst k) kept)).
      intros k' E. apply pair_eqb_eq in E. subst k'. cbn. destruct (memN intf kept) eqn:M; [|reflexivity].
      apply memN_in, Kin in M. tauto. }
    destruct (fresh_hit (live_ips s) fresh (g0, m0) intf g NDf) as [A B];
      [rewrite Fin; tauto|rewrite Z1, Z2; reflexivity|rewrite Z1; lia|].
    fold gm' in A, B. rewrite Z1 in A. split; [rewrite A; lia|exact B]. }
  split.
  - intros intf g U Hi NDU CV. cbn [ndps rescan] in Hi. rewrite GRP.
    assert (CV0 : covers s U) by exact CV.
    destruct (in_dec N.eq_dec intf (ndps s)) as [Hk|Hk].
    + destruct (KEPT intf g Hi Hk) as [A _]. rewrite A. apply (IG intf g U Hk NDU CV0).
    + destruct (FRESH intf g Hi Hk) as [A _]. rewrite A. symmetry.
      rewrite <- (zsum_live s g U I NDU CV0). apply zsum_ext. intros i _. unfold Fg. rewrite rc_rescan. reflexivity.
  - intros intf g Hi. cbn [ndps rescan] in Hi. rewrite MEM, GRP.
    destruct (in_dec N.eq_dec intf (ndps s)) as [Hk|Hk].
    + destruct (KEPT intf g Hi Hk) as [A B]. rewrite A, B. apply IM. exact Hk.
    + destruct (FRESH intf g Hi Hk) as [_ B]. exact B.
Qed.

(* ---------- the extended machine ---------- *)
Lemma xinv_step x e : inv (base x) -> inv (base (xstep x e)).
Proof.
  intros I. destruct e as [name a|name| |ex|ar nd|q]; cbn [xstep base].
  - apply inv_set_balancer. exact I.
  - apply inv_delete_balancer. exact I.
  - destruct (queue x); exact I.
  - exact I.
  - apply inv_rescan. exact I.
  - exact I.
Qed.

Lemma xinv_run evs x : inv (base x) -> inv (base (xrun evs x)).
Proof. revert x. induction evs as [|e evs IH]; intros x I; cbn; [exact I|]. apply IH, xinv_step, I. Qed.

Lemma xinv_reached ar nd evs : inv (base (xrun evs (xinit ar nd))).
Proof. apply xinv_run. apply inv_init. Qed.

Lemma send_in s a y : inv s -> In y (send s a) ->
  snd y = a_ip a /\ (exists svc b, holds s svc b /\ a_ip b = snd y) /\ match_intf a (snd (fst y)) = true /\
  In (snd (fst y)) (if fst (fst y) then arps s else ndps s).
Proof.
  intros I Hy. unfold send in Hy. apply in_map_iff in Hy. destruct Hy as [z [<- Hz]]. cbn [fst snd].
  destruct (gratuitous_sent s a z I Hz) as [A B]. split; [reflexivity|]. split; [exact A|]. split; [exact B|].
  unfold gratuitous in Hz. destruct (rc s (a_ip a) <=? 0); [destruct Hz|].
  destruct (a_ip a); apply in_map_iff in Hz; destruct Hz as [w [<- Hw]]; apply filter_In in Hw; apply Hw.
Qed.

(* every packet a step sends is for an address some announced service holds at that moment, on a
   responder that exists at that moment and that the queued advertisement covers *)
Lemma xsent_step x e y : inv (base x) -> In y (sent (xstep x e)) ->
  In y (sent x) \/
  ((exists svc b, holds (base x) svc b /\ a_ip b = snd y) /\
   In (snd (fst y)) (if fst (fst y) then arps (base x) else ndps (base x))).
Proof.
  intros I Hy. destruct e as [name a|name| |ex|ar nd|q]; cbn [xstep sent] in Hy; try (left; exact Hy).
  - destruct (queue x) as [|a q]; [left; exact Hy|]. cbn [sent] in Hy.
    destruct (spam_known (a_ip a) (spam x)); [left; exact Hy|].
    apply in_app_or in Hy. destruct Hy as [Hy|Hy]; [left; exact Hy|right].
    destruct (send_in _ _ _ I Hy) as [_ [A [_ B]]]. split; assumption.
  - apply in_app_or in Hy. destruct Hy as [Hy|Hy]; [left; exact Hy|right].
    apply in_flat_map in Hy. destruct Hy as [en [_ Hy]].
    destruct (send_in _ _ _ I Hy) as [_ [A [_ B]]]. split; assumption.
Qed.

(* nobody holds i, and i is not announced again: still nobody holds i *)
Lemma no_holder_step i x e : inv (base x) -> not_set_of i e ->
  (forall svc b, holds (base x) svc b -> a_ip b <> i) ->
  forall svc b, holds (base (xstep x e)) svc b -> a_ip b <> i.
Proof.
  intros I NS NH svc b Hh. destruct e as [name a|name| |ex|ar nd|q]; cbn [xstep base] in Hh.
  - cbn in NS. destruct (N.eq_dec svc name) as [->|Hne].
    + destruct (ip_dec (a_ip b) (a_ip a)) as [E|E]; [congruence|].
      apply (holds_set_self_other name a (base x) b E) in Hh. apply (NH name b Hh).
    + apply (holds_set_other name a (base x) svc b I Hne) in Hh. apply (NH svc b Hh).
  - apply (holds_delete name (base x) svc b I) in Hh. apply (NH svc b (proj2 Hh)).
  - destruct (queue x); apply (NH svc b Hh).
  - apply (NH svc b Hh).
  - apply (NH svc b Hh).
  - apply (NH svc b Hh).
Qed.

(* after the last holder of i is gone, no unsolicited announcement for i is sent — whatever the
   spam loop still has queued or is repeating, whatever is rescanned — until i is announced again *)
Lemma x_silent i evs x : inv (base x) -> (forall svc b, holds (base x) svc b -> a_ip b <> i) ->
  Forall (not_set_of i) evs ->
  forall y, In y (sent (xrun evs x)) -> snd y = i -> In y (sent x).
Proof.
  revert x. induction evs as [|e evs IH]; intros x I NH F y Hy Ei; [exact Hy|].
  inversion F; subst. cbn [xrun fold_left] in Hy.
  assert (Hy' : In y (sent (xstep x e))).
  { apply (IH (xstep x e)); [apply xinv_step; exact I|apply no_holder_step; assumption|assumption|exact Hy|reflexivity]. }
  destruct (xsent_step x e y I Hy') as [H|[[svc [b [Hh Eb]]] _]]; [exact H|].
  exfalso. apply (NH svc b Hh). exact Eb.
Qed.

(* ---------- NDP groups under the extended machine ---------- *)
Lemma xfull_step x e : full_inv (base x) -> wf_ev e -> full_inv (base (xstep x e)).
Proof.
  intros FI W. destruct e as [name a|name| |ex|ar nd'|q]; cbn [xstep base].
  - apply full_inv_set; exact FI.
  - apply full_inv_delete; exact FI.
  - destruct (queue x); assumption.
  - assumption.
  - apply full_inv_rescan; [exact W|exact FI].
  - assumption.
Qed.

Lemma xfull_run evs x : full_inv (base x) -> Forall wf_ev evs -> full_inv (base (xrun evs x)).
Proof.
  revert x. induction evs as [|e evs IH]; intros x FI F; cbn; [assumption|].
  inversion F; subst. apply IH; [apply xfull_step; assumption|assumption].
Qed.

Lemma x_groups_balanced ar nd evs intf g : NoDup nd -> Forall wf_ev evs ->
  let s := base (xrun evs (xinit ar nd)) in
  In intf (ndps s) ->
  grp s intf g = Z.of_nat (length (filter (in_group g) (announced s))) /\
  mem s intf g = (if 0 <? grp s intf g then 1 else 0) /\
  ((forall j, In j (announced s) -> in_group g j = false) -> mem s intf g = 0).
Proof.
  intros ND F s Hi.
  pose proof (xfull_run evs (xinit ar nd) (full_inv_init ar nd ND) F) as FI. fold s in FI.
  destruct (groups_balanced s intf g FI Hi) as [A B]. split; [exact A|]. split; [exact B|].
  intros H. rewrite B, A. rewrite (filter_none (in_group g) (announced s) H). reflexivity.
Qed.

(* BEFORE fix 437595c (F29): a responder the rescan creates after an IPv6 address was announced
   is not joined to the address' solicited-node group *)
Lemma late_responder_not_joined_prefix :
  exists intf g i, let s := rescan_prefix [] [1%N] (set_balancer 1 (mk_adv (V6 1193046) true []) (init [] [])) in
    In intf (ndps s) /\ In i (announced s) /\ in_group g i = true /\
    should_announce s i intf = DNone /\ grp s intf g = 0 /\ mem s intf g = 0.
Proof.
  exists 1%N, 1193046%N, (V6 1193046).
  vm_compute. repeat split; try reflexivity; left; reflexivity.
Qed.

(* the same history on the fixed rescan: joined *)
Lemma late_responder_joined :
  let s := base (xrun [XSet 1 (mk_adv (V6 1193046) true []); XRescan [] [1%N]] (xinit [] [])) in
  grp s 1 1193046 = 1 /\ mem s 1 1193046 = 1.
Proof. vm_compute. split; reflexivity. Qed.

Lemma no_holder_run i evs x : inv (base x) -> Forall (not_set_of i) evs ->
  (forall svc b, holds (base x) svc b -> a_ip b <> i) ->
  forall svc b, holds (base (xrun evs x)) svc b -> a_ip b <> i.
Proof.
  revert x. induction evs as [|e evs IH]; intros x I F NH; [exact NH|]. inversion F; subst. cbn [xrun fold_left].
  apply IH; [apply xinv_step; exact I|assumption|apply no_holder_step; assumption].
Qed.

(* ---------- top-level statements over all interleavings ---------- *)
Lemma t_x_state ar nd evs : let s := base (xrun evs (xinit ar nd)) in
  (forall i, rc s i = Z.of_nat (services_with s i)) /\
  (forall i intf, should_announce s i intf = DNone <->
                  exists svc a, holds s svc a /\ a_ip a = i /\ match_intf a intf = true) /\
  (forall i intf, should_announce s i intf = DAnnounceIP <-> forall svc a, holds s svc a -> a_ip a <> i).
Proof.
  intros s. pose proof (xinv_reached ar nd evs) as I. fold s in I. split; [|split].
  - intros i. apply (inv_rc _ I).
  - intros i intf. apply answer_iff. exact I.
  - intros i intf. apply not_held_iff. exact I.
Qed.

Lemma t_x_unsolicited_sound ar nd evs e y : let x := xrun evs (xinit ar nd) in
  In y (sent (xstep x e)) ->
  In y (sent x) \/
  ((exists svc b, holds (base x) svc b /\ a_ip b = snd y) /\
   In (snd (fst y)) (if fst (fst y) then arps (base x) else ndps (base x))).
Proof. intros x. apply xsent_step. apply xinv_reached. Qed.

Lemma t_x_withdraw_last ar nd evs name i evs' : let x := xrun evs (xinit ar nd) in
  (forall svc a, holds (base x) svc a -> a_ip a = i -> svc = name) ->
  Forall (not_set_of i) evs' ->
  let x' := xrun evs' (xstep x (XDel name)) in
  (forall intf, should_announce (base x') i intf = DAnnounceIP) /\
  (forall intf mac op dst, arp_process (base x') intf mac op dst i <> DNone) /\
  (forall y, In y (sent x') -> snd y = i -> In y (sent x)).
Proof.
  intros x Only F x'. pose proof (xinv_reached ar nd evs) as I. fold x in I.
  set (x1 := xstep x (XDel name)).
  assert (I1 : inv (base x1)) by (apply xinv_step; exact I).
  assert (NH1 : forall svc b, holds (base x1) svc b -> a_ip b <> i).
  { intros svc b Hh E. cbn [x1 xstep base] in Hh. apply (holds_delete name (base x) svc b I) in Hh.
    destruct Hh as [Hne Hh]. apply Hne. eapply Only; eauto. }
  assert (I' : inv (base x')) by (apply xinv_run; exact I1).
  assert (NH' : forall svc b, holds (base x') svc b -> a_ip b <> i) by (apply no_holder_run; assumption).
  assert (SA : forall intf, should_announce (base x') i intf = DAnnounceIP) by (intros; apply (not_held_iff _ _ _ I'); exact NH').
  split; [exact SA|]. split.
  - intros intf mac op dst E. apply arp_reply_iff in E. destruct E as [_ [_ E]]. rewrite SA in E. discriminate.
  - intros y Hy Ei. apply (x_silent i evs' x1 I1 NH1 F y Hy Ei).
Qed.

(* ---------- the packet log grows by suffixes (statement-quality audit T6) ---------- *)
(* what one step appends to the log, and what is known about it *)
Lemma sent_step_app x e : exists new, sent (xstep x e) = (sent x ++ new)%list /\
  (inv (base x) -> forall y, In y new ->
     (exists svc b, holds (base x) svc b /\ a_ip b = snd y) /\
     In (snd (fst y)) (if fst (fst y) then arps (base x) else ndps (base x))).
Proof.
  destruct e as [name a|name| |ex|ar nd|q]; cbn [xstep sent];
    try (exists []; rewrite app_nil_r; split; [reflexivity|intros _ y []]).
  - destruct (queue x) as [|a q]; [exists []; rewrite app_nil_r; split; [reflexivity|intros _ y []]|]. cbn [sent].
    destruct (spam_known (a_ip a) (spam x)); [exists []; rewrite app_nil_r; split; [reflexivity|intros _ y []]|].
    eexists. split; [reflexivity|]. intros I y Hy. destruct (send_in _ _ _ I Hy) as [_ [A [_ B]]]. split; assumption.
  - eexists. split; [reflexivity|]. intros I y Hy. apply in_flat_map in Hy. destruct Hy as [en [_ Hy]].
    destruct (send_in _ _ _ I Hy) as [_ [A [_ B]]]. split; assumption.
Qed.

(* nobody holds i and i is not announced again: the log only grows by packets for OTHER addresses *)
Lemma x_silent_strong i evs : forall x, inv (base x) -> (forall svc b, holds (base x) svc b -> a_ip b <> i) ->
  Forall (not_set_of i) evs ->
  exists new, sent (xrun evs x) = (sent x ++ new)%list /\ forall y, In y new -> snd y <> i.
Proof.
  induction evs as [|e evs IH]; intros x I NH F.
  - exists []. rewrite app_nil_r. split; [reflexivity|intros y []].
  - inversion F; subst. cbn [xrun fold_left].
    destruct (sent_step_app x e) as [n1 [E1 P1]].
    destruct (IH (xstep x e)) as [n2 [E2 P2]]; [apply xinv_step; exact I|apply no_holder_step; assumption|assumption|].
    exists (n1 ++ n2)%list. split.
    + unfold xrun in E2. rewrite E2, E1, app_assoc. reflexivity.
    + intros y Hy. apply in_app_or in Hy. destruct Hy as [Hy|Hy]; [|apply P2; exact Hy].
      destruct (P1 I y Hy) as [[svc [b [Hh Eb]]] _]. intros E. apply (NH svc b Hh). congruence.
Qed.

Lemma t_x_unsolicited_sound_app ar nd evs e : let x := xrun evs (xinit ar nd) in
  exists new, sent (xstep x e) = (sent x ++ new)%list /\
    forall y, In y new ->
      (exists svc b, holds (base x) svc b /\ a_ip b = snd y) /\
      In (snd (fst y)) (if fst (fst y) then arps (base x) else ndps (base x)).
Proof.
  intros x. destruct (sent_step_app x e) as [new [E P]]. exists new. split; [exact E|].
  apply P. apply xinv_reached.
Qed.

Lemma t_x_withdraw_last_app ar nd evs name i evs' : let x := xrun evs (xinit ar nd) in
  (forall svc a, holds (base x) svc a -> a_ip a = i -> svc = name) ->
  Forall (not_set_of i) evs' ->
  let x' := xrun evs' (xstep x (XDel name)) in
  (forall intf, should_announce (base x') i intf = DAnnounceIP) /\
  (forall intf mac op dst, arp_process (base x') intf mac op dst i <> DNone) /\
  (exists new, sent x' = (sent x ++ new)%list /\ forall y, In y new -> snd y <> i).
Proof.
  intros x Only F x'. destruct (t_x_withdraw_last ar nd evs name i evs' Only F) as [A [B _]].
  split; [exact A|]. split; [exact B|].
  pose proof (xinv_reached ar nd evs) as I. fold x in I.
  set (x1 := xstep x (XDel name)).
  assert (I1 : inv (base x1)) by (apply xinv_step; exact I).
  assert (NH1 : forall svc b, holds (base x1) svc b -> a_ip b <> i).
  { intros svc b Hh E. cbn [x1 xstep base] in Hh. apply (holds_delete name (base x) svc b I) in Hh.
    destruct Hh as [Hne Hh]. apply Hne. eapply Only; eauto. }
  exact (x_silent_strong i evs' x1 I1 NH1 F).
Qed.
