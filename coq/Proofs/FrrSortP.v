(* Lemmas about the sorted-set functions of Model/FrrRender.v (sort_k, sort_s, sort_n). *)
From Coq Require Import String NArith Bool List Permutation Lia.
From Verif Require Import Model.FrrRender.
Import ListNotations.
Open Scope string_scope.

Lemma sort_s_nil : sort_s [] = [].
Proof. reflexivity. Qed.
