(* Lemmas about the sorted-set functions of Model/FrrRender.v (sort_k, sort_s,
   sort_n): membership, strict sortedness, uniqueness of the sorted duplicate-free
   list, invariance under permutation.  Shared by C14 and C15. *)
From Coq Require Import String Ascii NArith Bool List Permutation Sorted Lia.
From Verif Require Import Model.FrrRender.
Import ListNotations.
Open Scope string_scope.

Lemma leb_trans a b c : String.leb a b = true -> String.leb b c = true -> String.leb a c = true.
Proof.
  unfold String.leb. revert b c. induction a as [|x a IH]; intros [|y b] [|z c]; simpl; try congruence.
  unfold Ascii.compare.
  destruct (N.compare_spec (N_of_ascii x) (N_of_ascii y)) as [E|L|G];
  destruct (N.compare_spec (N_of_ascii y) (N_of_ascii z)) as [E2|L2|G2]; try congruence;
  destruct (N.compare_spec (N_of_ascii x) (N_of_ascii z)) as [E3|L3|G3]; try congruence; try lia.
  apply IH.
Qed.

Lemma leb_refl a : String.leb a a = true.
Proof. destruct (String.leb_total a a); assumption. Qed.

(* strict order on strings *)
Definition slt (a b : string) : Prop := String.leb a b = true /\ a <> b.

Lemma slt_trans a b c : slt a b -> slt b c -> slt a c.
Proof.
  intros [H1 N1] [H2 N2]. split; [eapply leb_trans; eauto|].
  intros ->. apply N1. apply String.leb_antisym; assumption.
Qed.

Lemma slt_irrefl a : ~ slt a a.
Proof. intros [_ N]; congruence. Qed.

Lemma not_leb_slt a b : String.leb a b = false -> slt b a.
Proof.
  intros H. split.
  - destruct (String.leb_total a b); congruence.
  - intros ->. rewrite leb_refl in H. discriminate.
Qed.

Section SortK.
  Context {A : Type} (key : A -> string).

  Definition klt (x y : A) : Prop := slt (key x) (key y).
  Definition ssorted (l : list A) : Prop := StronglySorted klt l.

  Lemma insert_k_in x l y : In y (insert_k key x l) -> y = x \/ In y l.
  Proof.
    induction l as [|z l IH]; simpl.
    - intros [<-|[]]; auto.
    - destruct (String.leb (key x) (key z)).
      + destruct (String.eqb (key x) (key z)); simpl; intros H; auto.
        destruct H as [<-|H]; auto.
      + simpl. intros [<-|H]; auto. destruct (IH H); auto.
  Qed.

  Lemma insert_k_keeps x l y : In y l -> In y (insert_k key x l).
  Proof.
    induction l as [|z l IH]; simpl; [tauto|].
    destruct (String.leb (key x) (key z)).
    - destruct (String.eqb (key x) (key z)); simpl; auto.
    - simpl. intros [<-|H]; auto.
  Qed.

  Lemma insert_k_has x l : exists y, In y (insert_k key x l) /\ key y = key x.
  Proof.
    induction l as [|z l IH]; simpl.
    - exists x; auto.
    - destruct (String.leb (key x) (key z)).
      + destruct (String.eqb (key x) (key z)) eqn:E.
        * apply String.eqb_eq in E. exists z; simpl; auto.
        * exists x; simpl; auto.
      + destruct IH as (y & Hy & Ky). exists y; simpl; auto.
  Qed.

  Lemma sort_k_in l y : In y (sort_k key l) -> In y l.
  Proof.
    induction l as [|x l IH]; simpl; [tauto|].
    intros H. apply insert_k_in in H as [->|H]; auto.
  Qed.

  Lemma sort_k_has l x : In x l -> exists y, In y (sort_k key l) /\ key y = key x.
  Proof.
    induction l as [|z l IH]; simpl; [tauto|].
    intros [->|H].
    - apply insert_k_has.
    - destruct (IH H) as (y & Hy & Ky). exists y; split; [apply insert_k_keeps; assumption|assumption].
  Qed.

  Lemma sort_k_keys l k : In k (map key (sort_k key l)) <-> In k (map key l).
  Proof.
    rewrite !in_map_iff. split.
    - intros (y & <- & H). exists y; split; [reflexivity|apply sort_k_in; assumption].
    - intros (x & <- & H). destruct (sort_k_has l x H) as (y & Hy & Ky). exists y; auto.
  Qed.

  Lemma insert_k_sorted x l : ssorted l -> ssorted (insert_k key x l).
  Proof.
    unfold ssorted. induction l as [|z l IH]; simpl; intros H.
    - constructor; constructor.
    - inversion H as [|? ? Hs Hf]; subst.
      destruct (String.leb (key x) (key z)) eqn:L.
      + destruct (String.eqb (key x) (key z)) eqn:E; [assumption|].
        apply String.eqb_neq in E.
        assert (Hxz: klt x z) by (split; assumption).
        constructor; [assumption|]. constructor; [assumption|].
        rewrite Forall_forall in *. intros w Hw. eapply slt_trans; [exact Hxz|apply Hf; assumption].
      + constructor; [apply IH; assumption|].
        rewrite Forall_forall in *. intros w Hw. apply insert_k_in in Hw as [->|Hw].
        * apply not_leb_slt; assumption.
        * apply Hf; assumption.
  Qed.

  Lemma sort_k_sorted l : ssorted (sort_k key l).
  Proof.
    induction l as [|x l IH]; simpl; [constructor|]. apply insert_k_sorted; assumption.
  Qed.

  Lemma ssorted_nodup_keys l : ssorted l -> NoDup (map key l).
  Proof.
    induction 1 as [|x l Hs IH Hf]; simpl; constructor; [|assumption].
    rewrite in_map_iff. intros (y & E & Hy). rewrite Forall_forall in Hf.
    specialize (Hf y Hy). unfold klt in Hf. rewrite E in Hf. exact (slt_irrefl _ Hf).
  Qed.

  (* two strictly sorted lists with the same keys have the same key sequence *)
  Lemma ssorted_keys_unique l1 l2 :
    ssorted l1 -> ssorted l2 -> (forall k, In k (map key l1) <-> In k (map key l2)) -> map key l1 = map key l2.
  Proof.
    intros H1; revert l2. induction H1 as [|x l1 Hs1 IH Hf1]; intros l2 H2 Heq.
    - destruct l2 as [|y l2]; [reflexivity|]. exfalso. apply (proj2 (Heq (key y))). simpl; auto.
    - destruct l2 as [|y l2].
      + exfalso. apply (proj1 (Heq (key x))). simpl; auto.
      + inversion H2 as [|? ? Hs2 Hf2]; subst. rewrite Forall_forall in Hf1, Hf2.
        assert (Exy: key x = key y).
        { destruct (proj1 (Heq (key x)) (or_introl eq_refl)) as [E|Hin]; [congruence|].
          destruct (proj2 (Heq (key y)) (or_introl eq_refl)) as [E|Hin2]; [congruence|].
          exfalso. apply in_map_iff in Hin as (w & Ew & Hw). apply in_map_iff in Hin2 as (v & Ev & Hv).
          pose proof (Hf2 w Hw) as A1. pose proof (Hf1 v Hv) as A2. unfold klt in *.
          rewrite Ew in A1. rewrite Ev in A2. exact (slt_irrefl _ (slt_trans _ _ _ A1 A2)). }
        simpl. rewrite Exy. f_equal. apply IH; [assumption|].
        intros k. split; intros Hk.
        * destruct (proj1 (Heq k) (or_intror Hk)) as [E|?]; [|assumption].
          exfalso. apply in_map_iff in Hk as (w & Ew & Hw). pose proof (Hf1 w Hw) as A1. unfold klt in A1.
          rewrite Ew, <- E, Exy in A1. exact (slt_irrefl _ A1).
        * destruct (proj2 (Heq k) (or_intror Hk)) as [E|?]; [|assumption].
          exfalso. apply in_map_iff in Hk as (w & Ew & Hw). pose proof (Hf2 w Hw) as A1. unfold klt in A1.
          rewrite Ew, <- E, Exy in A1. exact (slt_irrefl _ A1).
  Qed.

  (* two strictly sorted lists with the same elements are equal *)
  Lemma ssorted_unique l1 l2 :
    ssorted l1 -> ssorted l2 -> (forall x, In x l1 <-> In x l2) -> l1 = l2.
  Proof.
    intros H1; revert l2. induction H1 as [|x l1 Hs1 IH Hf1]; intros l2 H2 Heq.
    - destruct l2 as [|y l2]; [reflexivity|]. exfalso. apply (proj2 (Heq y)). simpl; auto.
    - destruct l2 as [|y l2].
      + exfalso. apply (proj1 (Heq x)). simpl; auto.
      + inversion H2 as [|? ? Hs2 Hf2]; subst. rewrite Forall_forall in Hf1, Hf2.
        assert (Exy: x = y).
        { destruct (proj1 (Heq x) (or_introl eq_refl)) as [E|Hin]; [congruence|].
          destruct (proj2 (Heq y) (or_introl eq_refl)) as [E|Hin2]; [congruence|].
          exfalso. exact (slt_irrefl _ (slt_trans _ _ _ (Hf2 x Hin) (Hf1 y Hin2))). }
        subst y. f_equal. apply IH; [assumption|].
        intros u. split; intros Hu.
        * destruct (proj1 (Heq u) (or_intror Hu)) as [E|?]; [|assumption].
          exfalso. subst u. exact (slt_irrefl _ (Hf1 x Hu)).
        * destruct (proj2 (Heq u) (or_intror Hu)) as [E|?]; [|assumption].
          exfalso. subst u. exact (slt_irrefl _ (Hf2 x Hu)).
  Qed.

  Definition key_inj (l : list A) : Prop := forall x y, In x l -> In y l -> key x = key y -> x = y.

  Lemma sort_k_in_iff l y : key_inj l -> (In y (sort_k key l) <-> In y l).
  Proof.
    intros Hinj. split; [apply sort_k_in|].
    intros Hy. destruct (sort_k_has l y Hy) as (z & Hz & Kz).
    assert (z = y) by (apply Hinj; [apply sort_k_in; assumption|assumption|assumption]). subst z. assumption.
  Qed.

  Lemma sort_k_perm l l' : key_inj l -> Permutation l l' -> sort_k key l = sort_k key l'.
  Proof.
    intros Hinj Hp.
    assert (Hinj': key_inj l').
    { intros x y Hx Hy. apply Hinj; eapply Permutation_in; try eassumption; apply Permutation_sym; assumption. }
    apply ssorted_unique; try apply sort_k_sorted.
    intros x. rewrite (sort_k_in_iff l x Hinj), (sort_k_in_iff l' x Hinj').
    split; apply Permutation_in; [assumption|apply Permutation_sym; assumption].
  Qed.
End SortK.

(* ---- strings ---- *)
Lemma sort_s_in l x : In x (sort_s l) <-> In x l.
Proof.
  unfold sort_s. apply sort_k_in_iff. intros a b _ _ E; exact E.
Qed.

Lemma sort_s_sorted l : StronglySorted slt (sort_s l).
Proof. exact (sort_k_sorted (fun s => s) l). Qed.

Lemma sort_s_nodup l : NoDup (sort_s l).
Proof.
  pose proof (ssorted_nodup_keys (fun s : string => s) _ (sort_k_sorted (fun s => s) l)) as H.
  rewrite map_id in H. exact H.
Qed.

Lemma sort_s_perm l l' : Permutation l l' -> sort_s l = sort_s l'.
Proof. apply sort_k_perm. intros a b _ _ E; exact E. Qed.

Lemma sort_s_ext l l' : (forall x, In x l <-> In x l') -> sort_s l = sort_s l'.
Proof.
  intros H. apply (ssorted_unique (fun s => s)); try apply sort_k_sorted.
  intros x. fold (sort_s l) (sort_s l'). rewrite !sort_s_in. apply H.
Qed.

(* ---- numbers ---- *)
Lemma insert_n_in x l y : In y (insert_n x l) <-> y = x \/ In y l.
Proof.
  induction l as [|z l IH]; simpl; [intuition|].
  destruct (N.leb x z) eqn:L.
  - destruct (N.eqb x z) eqn:E; simpl; [|intuition].
    apply N.eqb_eq in E. subst. intuition.
  - simpl. rewrite IH. intuition.
Qed.

Lemma sort_n_in l x : In x (sort_n l) <-> In x l.
Proof.
  induction l as [|z l IH]; simpl; [tauto|]. rewrite insert_n_in, IH. intuition.
Qed.

Lemma insert_n_sorted x l : StronglySorted N.lt l -> StronglySorted N.lt (insert_n x l).
Proof.
  induction l as [|z l IH]; simpl; intros H.
  - constructor; constructor.
  - inversion H as [|? ? Hs Hf]; subst. rewrite Forall_forall in Hf.
    destruct (N.leb x z) eqn:L.
    + destruct (N.eqb x z) eqn:E; [assumption|].
      apply N.leb_le in L. apply N.eqb_neq in E.
      constructor; [assumption|]. constructor; [lia|].
      rewrite Forall_forall. intros w Hw. specialize (Hf w Hw). lia.
    + apply N.leb_gt in L. constructor; [apply IH; assumption|].
      rewrite Forall_forall. intros w Hw. apply insert_n_in in Hw as [->|Hw]; [assumption|apply Hf; assumption].
Qed.

Lemma sort_n_sorted l : StronglySorted N.lt (sort_n l).
Proof. induction l as [|x l IH]; simpl; [constructor|apply insert_n_sorted; assumption]. Qed.

(* ---- all_some ---- *)
Lemma all_some_in {A} (l : list (option A)) r x : all_some l = Some r -> In x r -> In (Some x) l.
Proof.
  revert r; induction l as [|[y|] l IH]; simpl; intros r H Hx; try discriminate.
  - inversion H; subst. contradiction.
  - destruct (all_some l) as [r'|]; [|discriminate]. inversion H; subst.
    destruct Hx as [->|Hx]; [left; reflexivity|right; eapply IH; eauto].
Qed.

Lemma all_some_has {A} (l : list (option A)) r x : all_some l = Some r -> In (Some x) l -> In x r.
Proof.
  revert r; induction l as [|[y|] l IH]; simpl; intros r H Hx; try discriminate; [contradiction|].
  destruct (all_some l) as [r'|]; [|discriminate]. inversion H; subst.
  destruct Hx as [E|Hx]; [inversion E; left; reflexivity|right; eapply IH; eauto].
Qed.

Lemma all_some_none {A} (l : list (option A)) r : all_some l = Some r -> ~ In None l.
Proof.
  revert r; induction l as [|[y|] l IH]; simpl; intros r H; try discriminate; [tauto|].
  destruct (all_some l) as [r'|]; [|discriminate]. intros [E|Hn]; [discriminate|]. eapply IH; eauto.
Qed.

Lemma all_some_ext {A B} (f g : A -> option B) l : (forall x, In x l -> f x = g x) -> all_some (map f l) = all_some (map g l).
Proof.
  induction l as [|x l IH]; simpl; intros H; [reflexivity|].
  rewrite (H x (or_introl eq_refl)), IH; [reflexivity|]. intros y Hy; apply H; right; assumption.
Qed.

(* ---- sorted prefix sets ---- *)
Definition exact_pfx_set (ps : list pfx) (src : list pfx) : Prop :=
  ssorted p_text ps /\ NoDup (map p_text ps) /\
  (forall p, In p ps -> In p src) /\
  (forall q, In q src -> exists p, In p ps /\ p_text p = p_text q).

Lemma sort_k_exact l : exact_pfx_set (sort_k p_text l) l.
Proof.
  split; [apply sort_k_sorted|]. split; [apply ssorted_nodup_keys, sort_k_sorted|].
  split; [intros p; apply sort_k_in|intros q; apply sort_k_has].
Qed.


Lemma sessions_with_in k v S s : In s (sessions_with k v S) <-> In s S /\ k s = v.
Proof. unfold sessions_with. rewrite filter_In, String.eqb_eq. tauto. Qed.


Lemma filter_perm {A} (f : A -> bool) l l' : Permutation l l' -> Permutation (filter f l) (filter f l').
Proof.
  induction 1; simpl.
  - constructor.
  - destruct (f x); [constructor|]; assumption.
  - destruct (f x), (f y); try apply perm_swap; apply Permutation_refl.
  - eapply Permutation_trans; eassumption.
Qed.

