(* Sorting lemmas for Model/Cfg.v (C18): a sorted permutation is unique, hence any
   sort satisfying H-sort is canonical; by_namespace / by_selector do not depend on the
   map iteration order; toConfig does not depend on the listing order. *)
From Coq Require Import NArith Bool List Lia ZifyN ZifyBool Permutation Sorted.
From Verif Require Import Model.Cfg.
Local Open Scope N_scope.

Section Key.
  Context {A : Type} (key : A -> N).

  Lemma kinsert_perm x l : Permutation (kinsert key x l) (x :: l).
  Proof.
    induction l as [|y r IH]; cbn; [reflexivity|].
    destruct (key x <=? key y); [reflexivity|].
    rewrite IH. apply perm_swap.
  Qed.

  Lemma ksort_perm l : Permutation (ksort key l) l.
  Proof.
    induction l as [|x r IH]; cbn; [constructor|].
    rewrite kinsert_perm. constructor. exact IH.
  Qed.

  Lemma kinsert_sorted x l :
    StronglySorted (kle key) l -> StronglySorted (kle key) (kinsert key x l).
  Proof.
    induction l as [|y r IH]; intros H; cbn.
    - constructor; constructor.
    - destruct (key x <=? key y) eqn:E.
      + apply N.leb_le in E. constructor; [exact H|].
        constructor; [exact E|]. inversion H; subst.
        eapply Forall_impl; [|eassumption]. unfold kle. intros; lia.
      + apply N.leb_gt in E. inversion H; subst. constructor; [auto|].
        eapply Permutation_Forall; [symmetry; apply kinsert_perm|].
        constructor; [unfold kle; lia|assumption].
  Qed.

  Lemma ksort_sorted l : StronglySorted (kle key) (ksort key l).
  Proof. induction l; cbn; [constructor|]. apply kinsert_sorted. assumption. Qed.

  Lemma nodup_key_inj l a b :
    NoDup (map key l) -> In a l -> In b l -> key a = key b -> a = b.
  Proof.
    induction l as [|x r IH]; cbn; intros ND Ha Hb E; [contradiction|].
    inversion ND as [|? ? Hn ND']; subst.
    destruct Ha as [->|Ha], Hb as [->|Hb]; auto.
    - exfalso. apply Hn. rewrite E. apply in_map. assumption.
    - exfalso. apply Hn. rewrite <- E. apply in_map. assumption.
  Qed.

  (* a permutation sorted by a key that is injective on it is unique *)
  Lemma sorted_perm_unique l l' :
    NoDup (map key l) -> Permutation l l' ->
    StronglySorted (kle key) l -> StronglySorted (kle key) l' -> l = l'.
  Proof.
    revert l'. induction l as [|a r IH]; intros l' ND P S S'.
    - apply Permutation_nil in P. subst. reflexivity.
    - destruct l' as [|b r']; [apply Permutation_sym, Permutation_nil in P; discriminate|].
      assert (Hab : a = b).
      { apply (nodup_key_inj (a :: r)); auto.
        - left; reflexivity.
        - apply Permutation_sym in P. apply (Permutation_in _ P). left; reflexivity.
        - inversion S as [|? ? _ Fa]; inversion S' as [|? ? _ Fb]; subst.
          assert (In a (b :: r')) as [->|Ia] by (apply (Permutation_in _ P); left; reflexivity); [reflexivity|].
          assert (In b (a :: r)) as [->|Ib] by (apply (Permutation_in _ (Permutation_sym P)); left; reflexivity); [reflexivity|].
          rewrite Forall_forall in Fa, Fb. specialize (Fa _ Ib). specialize (Fb _ Ia).
          unfold kle in *. lia. }
      subst b. f_equal. apply IH.
      + inversion ND; assumption.
      + eapply Permutation_cons_inv; eassumption.
      + inversion S; assumption.
      + inversion S'; assumption.
  Qed.
End Key.

Lemma perm_nodup_map {A} (key : A -> N) l l' :
  Permutation l l' -> NoDup (map key l) -> NoDup (map key l').
Proof. intros P. apply Permutation_NoDup. apply Permutation_map. assumption. Qed.

(* any sort satisfying H-sort is canonical *)
Lemma hsort_canonical srt : hsort srt ->
  forall A (key : A -> N) l l', NoDup (map key l) -> Permutation l l' -> srt A key l = srt A key l'.
Proof.
  intros H A key l l' ND P.
  destruct (H A key l ND) as [P1 S1].
  destruct (H A key l' (perm_nodup_map key l l' P ND)) as [P2 S2].
  apply (sorted_perm_unique key); auto.
  - eapply perm_nodup_map; [symmetry; exact P1|assumption].
  - rewrite P1, P. symmetry. assumption.
Qed.

Lemma ksorter_hsort : hsort ksorter.
Proof. intros A key l _. split; [apply ksort_perm|apply ksort_sorted]. Qed.

Lemma hsort_unique srt srt' : hsort srt -> hsort srt' ->
  forall A (key : A -> N) l, NoDup (map key l) -> srt A key l = srt' A key l.
Proof.
  intros H H' A key l ND.
  destruct (H A key l ND) as [P1 S1]. destruct (H' A key l ND) as [P2 S2].
  apply (sorted_perm_unique key); auto.
  - eapply perm_nodup_map; [symmetry; exact P1|assumption].
  - rewrite P1. symmetry. assumption.
Qed.

(* ---- lists of numbers: no NoDup needed *)
Lemma sortedN_perm_unique (l l' : list N) :
  Permutation l l' -> StronglySorted (kle (fun x => x)) l -> StronglySorted (kle (fun x => x)) l' -> l = l'.
Proof.
  revert l'. induction l as [|a r IH]; intros l' P S S'.
  - apply Permutation_nil in P. subst. reflexivity.
  - destruct l' as [|b r']; [apply Permutation_sym, Permutation_nil in P; discriminate|].
    assert (a = b).
    { inversion S as [|? ? _ Fa]; inversion S' as [|? ? _ Fb]; subst.
      assert (In a (b :: r')) as [->|Ia] by (apply (Permutation_in _ P); left; reflexivity); [reflexivity|].
      assert (In b (a :: r)) as [->|Ib] by (apply (Permutation_in _ (Permutation_sym P)); left; reflexivity); [reflexivity|].
      rewrite Forall_forall in Fa, Fb. specialize (Fa _ Ib). specialize (Fb _ Ia). unfold kle in *. lia. }
    subst b. f_equal. apply IH.
    + eapply Permutation_cons_inv; eassumption.
    + inversion S; assumption.
    + inversion S'; assumption.
Qed.

Lemma sortN_perm l l' : Permutation l l' -> sortN l = sortN l'.
Proof.
  intros P. apply sortedN_perm_unique; try apply ksort_sorted.
  unfold sortN. rewrite !ksort_perm. assumption.
Qed.

Lemma memN_in x l : memN x l = true <-> In x l.
Proof.
  unfold memN. rewrite existsb_exists. split.
  - intros [y [Hy E]]. apply N.eqb_eq in E. subst. assumption.
  - intros H. exists x. split; [assumption|apply N.eqb_refl].
Qed.

Lemma uniq_cons y r : uniq (y :: r) = if memN y (uniq r) then uniq r else y :: uniq r.
Proof. reflexivity. Qed.

Lemma uniq_in x l : In x (uniq l) <-> In x l.
Proof.
  induction l as [|y r IH]; [cbn; tauto|].
  rewrite uniq_cons. destruct (memN y (uniq r)) eqn:E.
  - apply memN_in in E. rewrite IH. split; [cbn; auto|]. intros [<-|H]; [|assumption].
    apply IH. assumption.
  - cbn. rewrite IH. tauto.
Qed.

Lemma uniq_nodup l : NoDup (uniq l).
Proof.
  induction l as [|y r IH]; [constructor|].
  rewrite uniq_cons. destruct (memN y (uniq r)) eqn:E; [assumption|].
  constructor; [|assumption]. intros H. apply memN_in in H. congruence.
Qed.

Lemma setN_ext l l' : (forall x, In x l <-> In x l') -> setN l = setN l'.
Proof.
  intros H. unfold setN. apply sortN_perm. apply NoDup_Permutation; try apply uniq_nodup.
  intros x. rewrite !uniq_in. apply H.
Qed.

Lemma setN_in x l : In x (setN l) <-> In x l.
Proof.
  unfold setN, sortN. split; intros H.
  - apply uniq_in. eapply Permutation_in; [apply ksort_perm|exact H].
  - eapply Permutation_in; [symmetry; apply ksort_perm|]. apply uniq_in. exact H.
Qed.

Lemma setN_perm l l' : Permutation l l' -> setN l = setN l'.
Proof. intros P. apply setN_ext. intros x. split; apply Permutation_in; [|symmetry]; assumption. Qed.

Lemma filter_perm {A} (f : A -> bool) l l' : Permutation l l' -> Permutation (filter f l) (filter f l').
Proof.
  induction 1; cbn.
  - constructor.
  - destruct (f x); [constructor|]; assumption.
  - destruct (f x), (f y); try reflexivity. apply perm_swap.
  - etransitivity; eassumption.
Qed.

Lemma flat_map_perm {A B} (f : A -> list B) l l' : Permutation l l' -> Permutation (flat_map f l) (flat_map f l').
Proof.
  induction 1; cbn.
  - constructor.
  - apply Permutation_app_head. assumption.
  - rewrite !app_assoc. apply Permutation_app_tail. apply Permutation_app_comm.
  - etransitivity; eassumption.
Qed.

(* poolsByNamespace (after F2) and poolsByServiceSelector do not depend on the map order *)
Lemma by_namespace_perm o o' : Permutation o o' -> by_namespace o = by_namespace o'.
Proof.
  intros P. unfold by_namespace.
  rewrite (setN_perm _ _ (flat_map_perm pool_nss _ _ P)).
  apply map_ext. intros ns. f_equal. apply sortN_perm. apply Permutation_map. apply filter_perm. assumption.
Qed.

Lemma by_selector_perm o o' : Permutation o o' -> by_selector o = by_selector o'.
Proof. intros P. unfold by_selector. apply sortN_perm. apply Permutation_map, filter_perm. assumption. Qed.

Lemma pools_for_iter_indep iter iter' r : map_order iter -> map_order iter' ->
  pools_for iter r = pools_for iter' r.
Proof.
  intros H H'. unfold pools_for.
  destruct (pools_loop _ _ _ _ _); [|reflexivity].
  destruct (set_l2 _ _ _ _); [|reflexivity].
  destruct (set_bgp _ _ _ _); [|reflexivity].
  f_equal. f_equal.
  - apply by_namespace_perm. etransitivity; [apply H|symmetry; apply H'].
  - apply by_selector_perm. etransitivity; [apply H|symmetry; apply H'].
Qed.

Lemma cfg_for_iter_indep {O} iter iter' (other : resources -> option O) vcfg r :
  map_order iter -> map_order iter' -> cfg_for iter other vcfg r = cfg_for iter' other vcfg r.
Proof.
  intros H H'. unfold cfg_for. destruct (other r); [|reflexivity].
  rewrite (pools_for_iter_indep iter iter' r H H'). reflexivity.
Qed.

(* toConfig: the sorted snapshot does not depend on the listing order *)
Lemma canon_perm srt r r' : hsort srt -> nodup_names r -> perm_res r r' -> canon srt r = canon srt r'.
Proof.
  intros H (N1 & N2 & N3 & N4 & N5 & N6 & N7 & N8) (P1 & P2 & P3 & P4 & P5 & P6 & P7 & P8).
  unfold canon. f_equal; apply (hsort_canonical srt H); assumption.
Qed.

Lemma canon_sorter_indep srt srt' r : hsort srt -> hsort srt' -> nodup_names r -> canon srt r = canon srt' r.
Proof.
  intros H H' (N1 & N2 & N3 & N4 & N5 & N6 & N7 & N8).
  unfold canon. f_equal; apply (hsort_unique srt srt' H H'); assumption.
Qed.

Lemma to_config_perm {T} srt (F : resources -> T) r r' :
  hsort srt -> nodup_names r -> perm_res r r' -> to_config srt F r = to_config srt F r'.
Proof. intros. unfold to_config. f_equal. apply canon_perm; assumption. Qed.

Lemma to_config_deterministic {O} srt srt' iter iter' (other : resources -> option O) vcfg r r' :
  hsort srt -> hsort srt' -> map_order iter -> map_order iter' -> nodup_names r -> perm_res r r' ->
  to_config srt (cfg_for iter other vcfg) r = to_config srt' (cfg_for iter' other vcfg) r'.
Proof.
  intros H H' I I' ND P. unfold to_config.
  rewrite (canon_sorter_indep srt srt' r H H' ND), (canon_perm srt' r r' H' ND P).
  apply cfg_for_iter_indep; assumption.
Qed.

(* the reconcilers: an event that leaves the computed configuration equal neither calls the
   handler nor forces a re-sync *)
Lemma reconcile_skips_equal {C} pv (ceq : C -> C -> bool) st c h :
  rs_cur st = Some c -> ceq c c = true -> reconcile pv ceq st (Some c) h = st.
Proof. intros E R. unfold reconcile. rewrite E, R. reflexivity. Qed.

Lemma reconcile_rejected_keeps {C} pv (ceq : C -> C -> bool) st h : reconcile pv ceq st None h = st.
Proof. reflexivity. Qed.

Lemma reconcile_unrelated_events {C} pv (ceq : C -> C -> bool) st c (hs : list sync) :
  rs_cur st = Some c -> ceq c c = true ->
  fold_left (fun s h => reconcile pv ceq s (Some c) h) hs st = st.
Proof.
  intros E R. induction hs as [|h r IH]; [reflexivity|].
  cbn [fold_left]. rewrite reconcile_skips_equal by assumption. exact IH.
Qed.

Lemma acceptance_order_independent {O} srt iter (other : resources -> option O) vcfg r r' :
  hsort srt -> map_order iter -> nodup_names r -> perm_res r r' ->
  (to_config srt (cfg_for iter other vcfg) r = None <-> to_config srt (cfg_for iter other vcfg) r' = None).
Proof.
  intros H I N P. rewrite (@to_config_deterministic O srt srt iter iter other vcfg r r' H H I I N P). tauto.
Qed.
