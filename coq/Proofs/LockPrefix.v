(* Regression of the model for defect F17 (fixed in /repo by 93677d8): the lock
   facts of internal/layer2/announcer.go as the translator produced them BEFORE
   the fix.  GetStatus takes the read lock — the lock-set checker is satisfied —
   but hands out the guarded slice itself, and SetBalancer changes elements of
   that slice in place: the escape obligation is refuted. *)
From Coq Require Import List String.
From Verif Require Import Model.Lock.
Import ListNotations.
Local Open Scope string_scope.

Definition prefix_guards : guard_map := [("Announce.ips", "Announce.RWMutex"); ("Announce.ipRefcnt", "Announce.RWMutex")].
Definition prefix_funcs : program := [
  ("Announce.SetBalancer", [Acq "Announce.RWMutex"; Rd "Announce.ips"; Rd "Announce.ips"; WrE "Announce.ips"; WrE "Announce.ips";
                            Rd "Announce.ips"; WrE "Announce.ipRefcnt"; Rd "Announce.ipRefcnt"; Rel "Announce.RWMutex"]);
  ("Announce.GetStatus", [AcqR "Announce.RWMutex"; Rd "Announce.ips"; RelR "Announce.RWMutex"])].
Definition prefix_escapes : list (string * string) := [("Announce.GetStatus", "Announce.ips")].

Lemma prefix_well_locked : well_locked prefix_guards prefix_funcs = true.
Proof. vm_compute. reflexivity. Qed.

Lemma prefix_no_escape_refuted : no_escape prefix_funcs prefix_escapes = false.
Proof. vm_compute. reflexivity. Qed.

(* after the fix GetStatus returns a copy: no escape fact is emitted for it *)
Lemma postfix_no_escape : no_escape prefix_funcs [] = true.
Proof. vm_compute. reflexivity. Qed.
