(* What validateBGPAdvPerPool guarantees for a pool address entry written as a RANGE: the
   aggregation length is at least the length of the LARGEST block the range is summarised to,
   so aggregates of addresses of that block stay in the block; aggregates of addresses of the
   smaller blocks may leave the range (and the pool): _refuted witness. *)
From Coq Require Import NArith Bool List Lia ZifyN ZifyBool Permutation.
From Verif Require Import Model.Cfg Proofs.NetP Proofs.CfgSortP Proofs.CfgSummP Proofs.CfgP Proofs.CfgRouteP.
Local Open Scope N_scope.

Lemma fold_min_in (l : list prefix) : forall m, 
  let r := fold_left (fun m x => N.min m (plen x)) l m in r = m \/ exists q, In q l /\ r = plen q.
Proof.
  induction l as [|x t IH]; intros m; cbn; [left; reflexivity|].
  destruct (IH (N.min m (plen x))) as [E|[q [Hq E]]].
  - cbn zeta in E. destruct (N.min_spec m (plen x)) as [[_ Em]|[_ Em]].
    + left. rewrite E. exact Em.
    + right. exists x. split; [left; reflexivity|]. rewrite E. exact Em.
  - right. exists q. split; [right; assumption|exact E].
Qed.

Lemma lowest_in c r : exists q, In q (c :: r) /\ lowest (c :: r) = plen q.
Proof.
  unfold lowest. destruct (fold_min_in r (plen c)) as [E|[q [Hq E]]].
  - exists c. split; [left; reflexivity|exact E].
  - exists q. split; [right; assumption|exact E].
Qed.

(* an accepted entry is never empty (after F5): lowest [] = 0 and the [] branches of
   validate_adv / pool_has are unreachable *)
Lemma parse_addr_nonempty a cs : parse_addr a = Some cs -> cs <> [].
Proof.
  intros H. destruct (parse_addr_exact a cs H) as [X _].
  assert (W : exists x, addr_denotes a x).
  { destruct a as [p|b l|s e]; cbn [parse_addr addr_denotes] in *.
    - exists (mk_ip (pfam p) (pbase p)). apply contains_base.
    - destruct (96 <=? l); eexists; apply contains_base.
    - destruct (parse_range_same_family _ _ _ H) as [F L]. exists s. repeat split; auto; lia. }
  destruct W as [x Hx]. apply X in Hx. destruct Hx as [p [Hp _]]. intros ->. destruct Hp.
Qed.

(* every address entry (CIDR or range) of an accepted pool has, for every attached BGP
   advertisement, at least one block whose addresses aggregate inside that block *)
Theorem aggregate_in_some_block iter r out c : pools_for iter r = Some out -> In c (r_pools r) ->
  exists p, In p (po_pools out) /\ p_name p = pl_name c /\
    forall a cs b, In a (pl_addrs c) -> parse_addr a = Some cs -> In b (p_bgp p) ->
      exists q, In q cs /\ plen q <= agg_of b (pfam q) /\
        forall x y, contains q x = true -> contains (mask_to (agg_of b (pfam q)) x) y = true -> contains q y = true.
Proof.
  intros H Hc. destruct (pools_for_accepted _ _ _ H) as (ps0 & ps2 & A).
  destruct (Forall2_in_l _ _ _ _ (af_parsed _ _ _ _ A) Hc) as [p0 [Hp0 P]].
  destruct (Forall2_in_l _ _ _ _ (af_grown _ _ _ _ A) Hp0) as [p [Hp [C _]]].
  exists p. split; [apply (Permutation_in _ (Permutation_sym (af_perm _ _ _ _ A))); assumption|].
  destruct (parse_pool_spec _ _ _ P) as (Hn & Hper & _).
  split; [rewrite <- (core_name _ _ C); assumption|].
  intros a cs b Ha Pa Hb. pose proof (parse_addr_nonempty a cs Pa) as Hne.
  pose proof (af_ok _ _ _ _ A) as OK. rewrite Forall_forall in OK. destruct (OK _ Hp) as [_ G].
  rewrite Forall_forall in G. destruct (G _ Hb) as (H4 & H6 & Hl).
  apply parse_addrs_spec in Hper. destruct (Forall2_in_l _ _ _ _ Hper Ha) as [cs' [Hcs Pcs]].
  rewrite Pa in Pcs. injection Pcs as <-. rewrite <- (core_per _ _ C) in Hl.
  destruct cs as [|c0 rest]; [contradiction|]. specialize (Hl c0 rest Hcs).
  destruct (lowest_in c0 rest) as [q [Hq Eq]]. exists q. split; [assumption|].
  assert (Ef : pfam q = pfam c0) by (apply (parse_addr_one_family a _ Pa); [assumption|left; reflexivity]).
  rewrite <- Ef in Hl. split; [lia|]. intros x y Cx Cy.
  eapply aggregate_contained; [| |exact Cx|exact Cy]; [lia|].
  apply agg_of_le_width; assumption.
Qed.

(* ... and that is all: the pool 0.0.0.2-0.0.0.7 (blocks /31 and /30) with aggregationLength 30
   is accepted; the aggregate of pool address 0.0.0.2 is 0.0.0.0/30, which contains 0.0.0.0,
   an address outside the pool *)
Definition range_witness : resources :=
  {| r_pools := [{| pl_name := 1; pl_labels := []; pl_addrs := [ARange (V4 2) (V4 7)]; pl_avoid := false;
                    pl_auto := true; pl_alloc := None |}];
     r_l2 := [];
     r_bgp := [{| bg_name := 1; bg_agg4 := 30; bg_agg6 := 128; bg_lp := 0; bg_comms := []; bg_peers := [];
                  bg_pools := []; bg_psels := []; bg_nsels := [] |}];
     r_nodes := []; r_nss := []; r_peers := []; r_bfds := []; r_comms := [] |}.

Theorem aggregate_in_range_refuted :
  exists r out p b x y, pools_for (fun l => l) r = Some out /\ In p (po_pools out) /\ In b (p_bgp p) /\
    in_prefixes (p_cidrs p) x /\ contains (mask_to (agg_of b (ip_fam x)) x) y = true /\
    ~ in_prefixes (p_cidrs p) y.
Proof.
  exists range_witness.
  destruct (pools_for (fun l => l) range_witness) as [out|] eqn:E; [|vm_compute in E; discriminate].
  vm_compute in E. injection E as <-.
  eexists. eexists. eexists. exists (V4 2), (V4 0).
  split; [reflexivity|]. split; [left; reflexivity|]. split; [left; reflexivity|].
  split; [|split].
  - eexists. split; [left; reflexivity|]. vm_compute. reflexivity.
  - vm_compute. reflexivity.
  - intros [q [[<-|[<-|[]]] Hq]]; vm_compute in Hq; discriminate.
Qed.
