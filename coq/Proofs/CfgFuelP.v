(* ipaddr.Summarize emits at most 2*width+1 blocks: the model's fuel (2*width+2) always
   suffices, so [summarize] never returns None on a well-formed range.
   Counting argument: while the block is limited by the alignment of its start (phase 1) the
   block size strictly increases; once it is limited by the end of the range (phase 2) it
   stays so and the block size strictly decreases. *)
From Coq Require Import NArith Bool List Lia ZifyN ZifyNat ZifyBool Arith.
From Verif Require Import Model.Cfg Proofs.NetP Proofs.CfgSummP.
Local Open Scope N_scope.

Lemma blk_double w n : 0 < n -> n <= w -> blk w (n - 1) = 2 * blk w n.
Proof.
  intros H1 H2. unfold blk. replace (w - (n - 1)) with (N.succ (w - n)) by lia.
  rewrite N.pow_succ_r'. reflexivity.
Qed.

Lemma blk_divide w n n' : n <= n' -> n' <= w -> (blk w n' | blk w n).
Proof.
  intros H1 H2. unfold blk. exists (2 ^ (n' - n)). rewrite <- N.pow_add_r. f_equal. lia.
Qed.

Lemma blk_lt_inv w n n' : n <= w -> n' <= w -> blk w n' < blk w n -> n < n'.
Proof.
  intros H1 H2 H. unfold blk in H. apply N.pow_lt_mono_r_iff in H; lia.
Qed.

Lemma mod0_divide a b : 0 < b -> (a mod b = 0 <-> (b | a)).
Proof. intros H. apply N.mod_divide. lia. Qed.

(* start aligned at block n but not at the next larger block: after the block it is *)
Lemma next_aligned w n fi : 0 < n -> n <= w -> fi mod blk w n = 0 -> fi mod blk w (n - 1) <> 0 ->
  (fi + blk w n) mod blk w (n - 1) = 0.
Proof.
  intros H1 H2 A NA. pose proof (blk_pos w n) as P. pose proof (blk_pos w (n - 1)) as P'.
  apply mod0_divide in A; [|assumption]. destruct A as [c Hc].
  apply mod0_divide; [assumption|]. rewrite blk_double in * by assumption.
  destruct (N.Even_or_Odd c) as [[d Hd]|[d Hd]].
  - exfalso. apply NA. apply mod0_divide; [lia|]. exists d. subst. lia.
  - exists (d + 1). subst. lia.
Qed.

Lemma divide_mod0 a b : 0 < b -> (b | a) -> a mod b = 0.
Proof. intros H D. apply mod0_divide; assumption. Qed.

(* potential of the state (fi, chosen n) *)
Definition phase2 (w fi n : N) : bool := (0 <? n) && (fi mod blk w (n - 1) =? 0).
Definition pot (w fi n : N) : nat :=
  if phase2 w fi n then S (N.to_nat (w - n)) else S (N.to_nat n + N.to_nat w).

Definition choose (w fi li : N) : N := grow w fi li (N.to_nat w) w.

Lemma choose_facts w fi li : fi <= li ->
  let n := choose w fi li in
  n <= w /\ fi mod blk w n = 0 /\ fi + blk w n - 1 <= li /\
  (n = 0 \/ ~ (fi mod blk w (n - 1) = 0 /\ fi + blk w (n - 1) - 1 <= li)).
Proof.
  intros H n. unfold n, choose.
  pose proof (grow_le w fi li (N.to_nat w) w).
  destruct (grow_fits w fi li (N.to_nat w) w (fits_full w fi li H)) as [A B].
  pose proof (grow_max w fi li (N.to_nat w) w (Nat.le_refl _)) as M. cbn zeta in M.
  repeat split; auto.
Qed.

Lemma pot_decreases w fi li : li < 2 ^ w -> fi <= li ->
  let n := choose w fi li in let fi' := fi + blk w n in
  fi' <= li -> (pot w fi' (choose w fi' li) < pot w fi n)%nat.
Proof.
  intros Hli Hle n fi' Hle'.
  destruct (choose_facts w fi li Hle) as (Hn & A & F & M). fold n in Hn, A, F, M.
  destruct (choose_facts w fi' li Hle') as (Hn' & A' & F' & M'). set (n' := choose w fi' li) in *.
  pose proof (blk_pos w n) as P. pose proof (blk_pos w n') as P'.
  assert (Npos : 0 < n).
  { destruct (N.eq_0_gt_0_cases n) as [E|]; [|assumption]. exfalso.
    assert (B : blk w n = 2 ^ w) by (rewrite E; unfold blk; rewrite N.sub_0_r; reflexivity).
    unfold fi' in Hle'. rewrite B in Hle'. clear - Hle' Hli. lia. }
  unfold pot. destruct (phase2 w fi n) eqn:Ph.
  - (* phase 2: limited by the end; the next block is strictly smaller and phase 2 again *)
    unfold phase2 in Ph. apply andb_true_iff in Ph. destruct Ph as [_ Al]. apply N.eqb_eq in Al.
    destruct M as [M|M]; [clear - M Npos; lia|].
    assert (NF : li < fi + blk w (n - 1) - 1) by (apply N.lt_nge; intros G; apply M; split; assumption).
    rewrite blk_double in NF by assumption.
    assert (Lt : blk w n' < blk w n) by (unfold fi' in F'; clear - F' NF P P'; lia).
    pose proof (blk_lt_inv w n n' Hn Hn' Lt) as Hnn.
    assert (Ph' : phase2 w fi' n' = true).
    { unfold phase2. apply andb_true_iff. split; [apply N.ltb_lt; clear - Hnn; lia|]. apply N.eqb_eq.
      apply divide_mod0; [apply blk_pos|]. unfold fi'. apply N.divide_add_r.
      - apply N.divide_trans with (blk w (n - 1)); [apply blk_divide; clear - Hnn Hn' Npos; lia|].
        apply mod0_divide; [apply blk_pos|assumption].
      - apply blk_divide; clear - Hnn Hn'; lia. }
    rewrite Ph'. clear - Hnn Hn'. lia.
  - (* phase 1: limited by alignment; the start becomes aligned one level up *)
    unfold phase2 in Ph. apply andb_false_iff in Ph.
    destruct Ph as [Ph|Ph]; [apply N.ltb_ge in Ph; clear - Ph Npos; lia|]. apply N.eqb_neq in Ph.
    pose proof (next_aligned w n fi Npos Hn A Ph) as Al'. fold fi' in Al'.
    destruct (phase2 w fi' n') eqn:Ph'; [clear - Npos; lia|].
    unfold phase2 in Ph'. apply andb_false_iff in Ph'.
    destruct (N.lt_ge_cases n' n) as [L|G]; [clear - L; lia|]. exfalso.
    destruct Ph' as [Ph'|Ph']; [apply N.ltb_ge in Ph'; clear - Ph' G Npos; lia|]. apply N.eqb_neq in Ph'. apply Ph'.
    apply divide_mod0; [apply blk_pos|].
    apply N.divide_trans with (blk w (n - 1)); [apply blk_divide; clear - G Hn' Npos; lia|].
    apply mod0_divide; [apply blk_pos|assumption].
Qed.

Lemma pot_bound w fi n : n <= w -> (pot w fi n <= 2 * N.to_nat w + 1)%nat.
Proof. intros H. unfold pot. destruct (phase2 w fi n); lia. Qed.

Lemma summ_fuel w : forall m fuel fi li, li < 2 ^ w ->
  (li < fi \/ (fi <= li /\ (pot w fi (choose w fi li) <= m)%nat)) -> (m < fuel)%nat ->
  summ w fuel fi li <> None.
Proof.
  induction m as [m IH] using lt_wf_ind. intros fuel fi li Hli H Hf.
  destruct fuel as [|f]; [lia|]. cbn [summ].
  destruct (li <? fi) eqn:E; [discriminate|]. apply N.ltb_ge in E.
  destruct H as [H|[_ Hp]]; [clear - H E; lia|]. fold (choose w fi li). set (n := choose w fi li) in *. fold (blk w n).
  destruct (fi + blk w n - 1 =? 2 ^ w - 1); [discriminate|].
  pose proof (blk_pos w n) as P.
  replace (fi + blk w n - 1 + 1) with (fi + blk w n) by (clear - P; lia).
  assert (summ w f (fi + blk w n) li <> None) as NN; [|destruct (summ w f (fi + blk w n) li); [discriminate|congruence]].
  destruct (N.lt_ge_cases li (fi + blk w n)) as [L|G].
  - destruct f as [|f']; [|cbn [summ]; apply N.ltb_lt in L; rewrite L; discriminate].
    exfalso. unfold pot in Hp. destruct (phase2 w fi n); clear - Hp Hf; lia.
  - pose proof (pot_decreases w fi li Hli E G) as D. cbn zeta in D. fold n in D.
    apply (IH (pot w (fi + blk w n) (choose w (fi + blk w n) li))); try assumption.
    + clear - D Hp. lia.
    + right. split; [assumption|]. apply Nat.le_refl.
    + clear - D Hp Hf. lia.
Qed.

Theorem summarize_fuel_ok f s e : s <= e -> e < 2 ^ width f -> summarize f s e <> None.
Proof.
  intros H1 H2. unfold summarize.
  destruct (summ (width f) (2 * N.to_nat (width f) + 2) s e) eqn:E; [discriminate|]. exfalso.
  revert E. apply (summ_fuel (width f) (2 * N.to_nat (width f) + 1)); [assumption| |lia].
  right. split; [assumption|]. apply pot_bound. apply choose_facts. assumption.
Qed.

(* ParseCIDR accepts every well-formed entry *)
Theorem parse_accepts_wellformed a :
  match a with
  | ACidr p => wf_prefix p
  | AMapped b l => l <= 128 /\ b < 2 ^ 32
  | ARange s e => ip_fam s = ip_fam e /\ ip_val s <= ip_val e /\ wf_ip e
  end -> parse_addr a <> None.
Proof.
  destruct a as [p|b l|s e]; cbn [parse_addr].
  - intros [H1 H2]. unfold wf_prefixb. apply N.leb_le in H1. apply N.ltb_lt in H2. rewrite H1, H2. discriminate.
  - intros [H1 H2]. apply N.leb_le in H1. apply N.ltb_lt in H2. rewrite H1, H2. cbn [andb].
    destruct (96 <=? l); discriminate.
  - intros (Hf & Hle & Hw). destruct s as [s|s], e as [e|e]; try discriminate; unfold wf_ip in Hw; cbn [ip_val ip_fam width] in Hle, Hw.
    + apply N.leb_le in Hle. pose proof Hw as Hw'. apply N.ltb_lt in Hw. rewrite Hle, Hw. cbn [andb].
      apply summarize_fuel_ok; [apply N.leb_le; assumption|exact Hw'].
    + apply N.leb_le in Hle. pose proof Hw as Hw'. apply N.ltb_lt in Hw. rewrite Hle, Hw. cbn [andb].
      apply summarize_fuel_ok; [apply N.leb_le; assumption|exact Hw'].
Qed.
