(* Pool policy of assignments (C02) and completeness of allocation (C07, allocator half). *)
From Coq Require Import List NArith ZArith Bool Lia.
From Verif Require Import Model.Net Model.Alloc Proofs.NetP Proofs.AllocP.
Import ListNotations.
Local Open Scope N_scope.

(* ---------- pool ownership ---------- *)
Lemma pool_for_spec ps ips p :
  pool_for ps ips = Some p -> In p ps /\ forall x, In x ips -> in_pool p x = true.
Proof.
  unfold pool_for. intros H. apply find_some in H. destruct H as [Hin H].
  split; [exact Hin|]. apply forallb_forall. exact H.
Qed.

Lemma in_pool_spec p x :
  in_pool p x = true <-> (p_avoid p = true -> buggy x = false) /\ exists c, In c (p_cidrs p) /\ contains c x = true.
Proof.
  unfold in_pool. rewrite andb_true_iff, negb_true_iff, existsb_exists.
  destruct (p_avoid p), (buggy x); cbn; intuition congruence.
Qed.

(* what configuration validation guarantees (C08): no address in two pools *)
Definition pools_disjoint (ps : list pool) : Prop :=
  forall p q x, In p ps -> In q ps -> in_pool p x = true -> in_pool q x = true -> p = q.

Lemma owner_unique ps ips p q :
  pools_disjoint ps -> ips <> [] ->
  pool_for ps ips = Some p -> In q ps -> (forall x, In x ips -> in_pool q x = true) -> q = p.
Proof.
  intros Hd Hne Hp Hq Hall. apply pool_for_spec in Hp. destruct Hp as [Hin Hp].
  destruct ips as [|x r]; [congruence|]. apply (Hd q p x); auto; [apply Hall|apply Hp]; left; reflexivity.
Qed.

(* pool_for does not depend on the order in which Go happens to iterate the map *)
Lemma pool_for_order_independent ps ps' ips :
  pools_disjoint ps -> ips <> [] -> (forall p, In p ps <-> In p ps') ->
  pool_for ps ips = pool_for ps' ips.
Proof.
  intros Hd Hne Hperm.
  destruct (pool_for ps ips) as [p|] eqn:E1, (pool_for ps' ips) as [q|] eqn:E2; try reflexivity.
  - f_equal. symmetry. apply (owner_unique ps ips p q Hd Hne E1).
    + apply Hperm. apply (pool_for_spec _ _ _ E2).
    + apply (pool_for_spec _ _ _ E2).
  - exfalso. apply pool_for_spec in E1. destruct E1 as [Hin Hall].
    unfold pool_for in E2. pose proof (find_none _ _ E2 p (proj1 (Hperm p) Hin)) as E3.
    cbv beta in E3. rewrite (proj2 (forallb_forall _ _) Hall) in E3. discriminate.
  - exfalso. apply pool_for_spec in E2. destruct E2 as [Hin Hall].
    unfold pool_for in E1. pose proof (find_none _ _ E1 q (proj2 (Hperm q) Hin)) as E3.
    cbv beta in E3. rewrite (proj2 (forallb_forall _ _) Hall) in E3. discriminate.
Qed.

(* ---------- what a successful Assign guarantees ---------- *)
Definition families_distinct (ips : list ip) : Prop :=
  (length ips <= 2)%nat /\ (forall x y, ips = [x; y] -> ip_fam x <> ip_fam y).

Lemma assign_check_spec a s r ips p :
  assign_check a s r ips = inl p ->
  pool_for (by_name (s_pools a)) ips = Some p /\ compatible p r = true /\ families_distinct ips /\
  forall x, In x ips -> check_sharing a s x (r_ports r) (r_key r) = true.
Proof.
  intros H. pose proof (assign_check_sharing a s r ips p H) as Hs. revert H.
  unfold assign_check. destruct (pool_for _ _) as [q|]; [|discriminate].
  destruct (compatible q r) eqn:Hc; cbn; [|discriminate].
  destruct (2 <? N.of_nat (length ips)) eqn:Hl; [discriminate|].
  destruct (same_family2 ips) eqn:Hf; [discriminate|].
  destruct (forallb _ ips); cbn; [|discriminate]. intros [= <-].
  repeat split; auto.
  - apply N.ltb_ge in Hl. lia.
  - intros x y ->. cbn in Hf. intros E. rewrite E in Hf. rewrite fam_eqb_refl in Hf. discriminate.
Qed.

(* every recorded allocation names the pool that owns its addresses *)
Definition PoolCoh (a : st) : Prop :=
  forall e, In e (allocated a) ->
    exists p, pool_for (by_name (s_pools a)) (a_ips (snd e)) = Some p /\ p_name p = a_pool (snd e).

Lemma PoolCoh_init : PoolCoh init.
Proof. intros e []. Qed.

Lemma PoolCoh_unassign a s : PoolCoh a -> PoolCoh (unassign a s).
Proof. intros H e He. cbn in He. apply In_remove_svc in He. apply H. tauto. Qed.

Lemma PoolCoh_assign a s r ips : PoolCoh a -> PoolCoh (fst (assign a s r ips)).
Proof.
  intros H. unfold assign. destruct (assign_check a s r ips) as [p|e] eqn:E; cbn; [|exact H].
  intros e' [<-|He]; cbn.
  - apply assign_check_spec in E. exists p. tauto.
  - apply In_remove_svc in He. apply H. tauto.
Qed.

Lemma PoolCoh_set_pools a ps : PoolCoh (set_pools a ps).
Proof.
  intros e He. cbn in He. apply omap_In in He. destruct He as [o [Ho Hr]].
  unfold rehome in Hr. destruct (pool_for (by_name ps) (a_ips (snd o))) as [p|] eqn:E; [|discriminate].
  injection Hr as <-. cbn. exists p. auto.
Qed.

Theorem step_PoolCoh a o : PoolCoh a -> PoolCoh (fst (step a o)).
Proof.
  intros HI. destruct o as [s r ips|s|s r c|s r pn c|s r have pn c|ps]; cbn [step].
  - apply PoolCoh_assign. exact HI.
  - cbn. apply PoolCoh_unassign. exact HI.
  - destruct (get_alloc a s) as [al|].
    + pose proof (PoolCoh_assign a s r (a_ips al) HI) as HA.
      destruct (assign a s r (a_ips al)) as [a' [i|e|]] eqn:E; cbn in HA.
      * destruct c as [[pn ips]|]; [|exact HI]. destruct (ips_eqb ips (a_ips al)); [exact HA|exact HI].
      * destruct c; [exact HI|exact HA].
      * destruct c; [exact HI|exact HA].
    + destruct (allocate_spec a s r c); [|exact HI]. destruct c as [[pn ips]|]; [|exact HI].
      pose proof (PoolCoh_assign a s r ips HI) as HA.
      destruct (assign a s r ips) as [a' [i|e|]]; cbn in *; [exact HA|exact HI|exact HI].
  - destruct (get_alloc a s) as [al|].
    + destruct (alloc_fam (a_ips al)) as [f|].
      * destruct (negb _ && negb _).
        -- destruct c; exact HI.
        -- pose proof (PoolCoh_assign a s r (a_ips al) HI) as HA.
           destruct (assign a s r (a_ips al)) as [a' [i|e|]] eqn:E; cbn in HA.
           ++ destruct c as [ips|]; [|exact HI]. destruct (ips_eqb ips (a_ips al)); [exact HA|exact HI].
           ++ destruct c; [exact HI|exact HA].
           ++ destruct c; [exact HI|exact HA].
      * destruct c; exact HI.
    + destruct (from_pool_spec a s r pn c); [|exact HI]. destruct c as [ips|]; [|exact HI].
      pose proof (PoolCoh_assign a s r ips HI) as HA.
      destruct (assign a s r ips) as [a' [i|e|]]; cbn in *; [exact HA|exact HI|exact HI].
  - destruct (additional_spec a s r have pn c); [|exact HI]. destruct c as [x|]; [|exact HI].
    pose proof (PoolCoh_assign a s r [have; x] HI) as HA.
    destruct (assign a s r [have; x]) as [a' [i|e|]]; cbn in *; [exact HA|exact HI|exact HI].
  - cbn. apply PoolCoh_set_pools.
Qed.

Theorem run_PoolCoh ops : forall a, PoolCoh a -> PoolCoh (run ops a).
Proof.
  induction ops as [|o ops IH]; intros a HI; cbn; [exact HI|]. apply IH. apply step_PoolCoh. exact HI.
Qed.

(* C02, membership half, for every reachable state: every address recorded for
   a service lies in the pool its record names, is not a buggy address of an
   avoiding pool, and (pools being disjoint) in no other pool *)
Theorem recorded_addresses_in_named_pool ops s al x :
  let a := run ops init in
  get_alloc a s = Some al -> In x (a_ips al) ->
  exists p, In p (by_name (s_pools a)) /\ p_name p = a_pool al /\ in_pool p x = true /\
            (p_avoid p = true -> buggy x = false) /\
            (pools_disjoint (by_name (s_pools a)) ->
             forall q, In q (by_name (s_pools a)) -> in_pool q x = true -> q = p).
Proof.
  intros a Hg Hx.
  destruct (run_Inv ops init Inv_init) as [Hnd _]. fold a in Hnd.
  apply (get_alloc_In a s al Hnd) in Hg.
  destruct (run_PoolCoh ops init PoolCoh_init (s, al) Hg) as [p [Hp Hn]]. fold a in Hp. cbn in Hp, Hn.
  apply pool_for_spec in Hp. destruct Hp as [Hin Hall].
  exists p. repeat split; auto.
  - specialize (Hall x Hx). apply in_pool_spec in Hall. tauto.
  - intros Hd q Hq Hqx. apply (Hd q p x); auto.
Qed.

(* what the service holds right after a successful Assign *)
Theorem assign_policy a s r ips a' out :
  assign a s r ips = (a', ROk out) ->
  exists p, out = ips /\
    get_alloc a' s = Some {| a_pool := p_name p; a_ips := ips; a_ports := r_ports r; a_key := r_key r |} /\
    In p (by_name (s_pools a')) /\ (forall x, In x ips -> in_pool p x = true) /\
    compatible p r = true /\ families_distinct ips.
Proof.
  intros H. apply assign_ok_inv in H. destruct H as [p [Hc [-> ->]]].
  apply assign_check_spec in Hc. destruct Hc as (Hp & Hcomp & Hfam & _).
  apply pool_for_spec in Hp. destruct Hp as [Hin Hall]. destruct Hfam as [Hl Hd].
  exists p. split; [reflexivity|]. split.
  { unfold get_alloc, do_assign. cbn. rewrite N.eqb_refl. reflexivity. }
  split; [exact Hin|]. split; [exact Hall|]. split; [exact Hcomp|]. split; [exact Hl|exact Hd].
Qed.

(* ---------- free addresses: the scan is complete ---------- *)
Lemma scan_none fuel f cur ok :
  scan fuel f cur ok = None -> forall n, cur <= n -> n < cur + N.of_nat fuel -> ok (mk_ip f n) = false.
Proof.
  revert cur. induction fuel as [|fuel IH]; intros cur H n H1 H2; [lia|].
  cbn [scan] in H. destruct (ok (mk_ip f cur)) eqn:E; [discriminate|].
  destruct (N.eq_dec n cur) as [->|Hne]; [exact E|]. apply (IH (cur + 1) H); lia.
Qed.

Lemma scan_some fuel f cur ok x :
  scan fuel f cur ok = Some x -> ok x = true /\ exists n, x = mk_ip f n /\ cur <= n /\ n < cur + N.of_nat fuel.
Proof.
  revert cur. induction fuel as [|fuel IH]; intros cur H; [discriminate|].
  cbn [scan] in H. destruct (ok (mk_ip f cur)) eqn:E.
  - injection H as <-. split; [exact E|]. exists cur. split; [reflexivity|lia].
  - destruct (IH (cur + 1) H) as [Hok [n [Hx [H1 H2]]]]. split; [exact Hok|]. exists n. split; [exact Hx|lia].
Qed.

Lemma first_some_none {A B} (f : A -> option B) l : first_some f l = None -> forall x, In x l -> f x = None.
Proof.
  induction l as [|y l IH]; cbn; [tauto|]. destruct (f y) eqn:E; [discriminate|].
  intros H x [<-|Hx]; auto.
Qed.

Lemma first_some_some {A B} (f : A -> option B) l y : first_some f l = Some y -> exists x, In x l /\ f x = Some y.
Proof.
  induction l as [|z l IH]; cbn; [discriminate|]. destruct (f z) eqn:E.
  - intros [= <-]. exists z. auto.
  - intros H. destruct (IH H) as [x [Hx Hf]]. exists x. auto.
Qed.

Lemma mk_ip_val x : mk_ip (ip_fam x) (ip_val x) = x.
Proof. destruct x; reflexivity. Qed.

Lemma contains_range c x : contains c x = true -> pfirst c <= ip_val x /\ ip_val x < pfirst c + block c /\ pfam c = ip_fam x.
Proof.
  intros H. apply contains_in_range in H. destruct H as [Hf H]. unfold in_range, plast in H.
  apply andb_true_iff in H. destruct H as [H1 H2]. apply N.leb_le in H1. apply N.leb_le in H2.
  pose proof (block_pos c). repeat split; try lia. exact Hf.
Qed.

(* no free address of family f in pool p: then no address of the pool of that
   family is free for the request *)
Lemma first_free_none a s r p f :
  first_free a s r p f = None ->
  forall x, ip_fam x = f -> in_pool p x = true -> addr_free a s r p x = false.
Proof.
  intros H x Hf Hin. unfold first_free in H.
  apply in_pool_spec in Hin. destruct Hin as [_ [c [Hc Hx]]].
  pose proof (first_some_none _ _ H c Hc) as Hn. cbv beta in Hn.
  apply contains_range in Hx. destruct Hx as (H1 & H2 & Hfam).
  rewrite Hfam, Hf, fam_eqb_refl in Hn. unfold first_free_cidr in Hn.
  pose proof (scan_none _ _ _ _ Hn (ip_val x) H1) as Hs. rewrite N2Nat.id in Hs. specialize (Hs H2).
  rewrite Hfam, mk_ip_val in Hs. exact Hs.
Qed.

Lemma first_free_some a s r p f x :
  first_free a s r p f = Some x -> ip_fam x = f /\ in_pool p x = true /\ addr_free a s r p x = true.
Proof.
  intros H. unfold first_free in H. apply first_some_some in H. destruct H as [c [Hc H]].
  destruct (fam_eqb (pfam c) f) eqn:Hf; [|discriminate]. apply fam_eqb_eq in Hf.
  unfold first_free_cidr in H. apply scan_some in H. destruct H as [Hok [n [-> [H1 H2]]]].
  rewrite N2Nat.id in H2.
  assert (Hfam : ip_fam (mk_ip (pfam c) n) = f) by (rewrite <- Hf; destruct (pfam c); reflexivity).
  split; [exact Hfam|]. split; [|exact Hok].
  apply in_pool_spec. split.
  - intros Ha. unfold addr_free in Hok. apply andb_true_iff in Hok. destruct Hok as [Hb _].
    rewrite Ha in Hb. cbn in Hb. apply negb_true_iff in Hb. exact Hb.
  - exists c. split; [exact Hc|]. apply contains_in_range. split.
    + destruct (pfam c); reflexivity.
    + unfold in_range, plast. apply andb_true_iff. assert (ip_val (mk_ip (pfam c) n) = n) by (destruct (pfam c); reflexivity).
      rewrite H. split; [apply N.leb_le; lia|apply N.leb_le; lia].
Qed.

Lemma has_free_false a s r p f :
  has_free a s r p f = false -> forall x, ip_fam x = f -> in_pool p x = true -> addr_free a s r p x = false.
Proof.
  unfold has_free. destruct (first_free a s r p f) eqn:E; [discriminate|]. intros _. apply first_free_none. exact E.
Qed.

(* a pool classified [Nothing] has no admissible offer at all *)
Lemma classify_nothing_no_offer a s r p ips :
  classify a s r p = Nothing -> offer_ok a s r p ips = false.
Proof.
  intros Hc. destruct (offer_ok a s r p ips) eqn:Ho; [|reflexivity]. exfalso.
  unfold offer_ok in Ho. apply andb_true_iff in Ho. destruct Ho as [Hall Hshape].
  assert (Hfree : forall x, In x ips -> has_free a s r p (ip_fam x) = true).
  { intros x Hx. destruct (has_free a s r p (ip_fam x)) eqn:E; [reflexivity|].
    pose proof (proj1 (forallb_forall _ _) Hall x Hx) as H. apply andb_true_iff in H. destruct H as [Hi Hf].
    rewrite (has_free_false a s r p (ip_fam x) E x eq_refl Hi) in Hf. discriminate. }
  unfold classify in Hc.
  destruct (r_fam r) eqn:Hfam.
  - destruct ips as [|x [|y t]]; try discriminate. apply fam_eqb_eq in Hshape.
    specialize (Hfree x (or_introl eq_refl)). rewrite Hshape in Hfree. rewrite Hfree in Hc. discriminate.
  - destruct ips as [|x [|y t]]; try discriminate. apply fam_eqb_eq in Hshape.
    specialize (Hfree x (or_introl eq_refl)). rewrite Hshape in Hfree. rewrite Hfree in Hc. discriminate.
  - destruct ips as [|x [|y [|z t]]]; try discriminate.
    + destruct (r_pol r) eqn:Hpol; try discriminate.
      specialize (Hfree x (or_introl eq_refl)).
      destruct (has_free a s r p F4 && has_free a s r p F6); [discriminate|].
      unfold primary, secondary in Hc. destruct (ip_fam x), (r_first6 r); rewrite ?Hfree in Hc;
        try discriminate; destruct (has_free a s r p _); discriminate.
    + apply andb_true_iff in Hshape. destruct Hshape as [Hxy Hpol].
      apply andb_true_iff in Hxy. destruct Hxy as [Hx Hy]. apply fam_eqb_eq in Hx. apply fam_eqb_eq in Hy.
      pose proof (Hfree x (or_introl eq_refl)) as F1. pose proof (Hfree y (or_intror (or_introl eq_refl))) as F2.
      rewrite Hx in F1. rewrite Hy in F2. rewrite F1, F2 in Hc. cbn in Hc.
      destruct (r_pol r); discriminate.
Qed.

Lemma best_class_fold a s r l b :
  class_rank (fold_left (fun b p => if class_rank (classify a s r p) <? class_rank b then classify a s r p else b) l b)
  <= class_rank b /\
  forall p, In p l ->
    class_rank (fold_left (fun b p => if class_rank (classify a s r p) <? class_rank b then classify a s r p else b) l b)
    <= class_rank (classify a s r p).
Proof.
  revert b. induction l as [|q l IH]; intros b; cbn [fold_left].
  - split; [lia|]. intros p [].
  - destruct (IH (if class_rank (classify a s r q) <? class_rank b then classify a s r q else b)) as [H1 H2].
    destruct (N.ltb_spec (class_rank (classify a s r q)) (class_rank b)) as [Hlt|Hge].
    + split; [lia|]. intros p [<-|Hp]; [exact H1|apply H2; exact Hp].
    + split; [lia|]. intros p [<-|Hp]; [lia|apply H2; exact Hp].
Qed.

Lemma class_rank_nothing c : 3 <= class_rank c -> c = Nothing.
Proof. destruct c; cbn; intros H; try lia; reflexivity. Qed.

Lemma class_eqb_eq x y : class_eqb x y = true <-> x = y.
Proof. destruct x, y; cbn; split; congruence. Qed.

Lemma best_class_nothing a s r l :
  best_class a s r l = Nothing -> forall p, In p l -> classify a s r p = Nothing.
Proof.
  intros H p Hp. unfold best_class in H. destruct (best_class_fold a s r l Nothing) as [_ H2].
  specialize (H2 p Hp). rewrite H in H2. apply class_rank_nothing. exact H2.
Qed.

(* C07, allocator half: Allocate fails only when no candidate pool - pinned or
   unpinned auto-assign - has any admissible offer for the request *)
Theorem allocate_complete a s r :
  allocate_spec a s r None = true ->
  forall p ips, In p (pinned_pools (s_pools a) r ++ unpinned_pools (s_pools a)) -> offer_ok a s r p ips = false.
Proof.
  unfold allocate_spec. intros H p ips Hp. apply andb_true_iff in H. destruct H as [H1 H2].
  apply class_eqb_eq in H1. apply class_eqb_eq in H2. apply classify_nothing_no_offer.
  apply in_app_or in Hp. destruct Hp as [Hp|Hp].
  - exact (best_class_nothing a s r _ H1 p Hp).
  - exact (best_class_nothing a s r _ H2 p Hp).
Qed.

(* and an admissible offer means what the statement says: every address is in
   the pool, not avoided, free or shareable for the requester (check_sharing_iff),
   and the families match the request *)
Definition families_ok (r : req) (ips : list ip) : Prop :=
  match r_fam r with
  | S4 => exists x, ips = [x] /\ ip_fam x = F4
  | S6 => exists x, ips = [x] /\ ip_fam x = F6
  | SDual => (exists x y, ips = [x; y] /\ ip_fam x = F4 /\ ip_fam y = F6) \/
             (r_pol r = Prefer /\ exists x, ips = [x])
  end.

Lemma offer_ok_sound a s r p ips :
  offer_ok a s r p ips = true ->
  (forall x, In x ips -> in_pool p x = true /\ check_sharing a s x (r_ports r) (r_key r) = true) /\
  families_ok r ips.
Proof.
  unfold offer_ok. rewrite andb_true_iff. intros [Hall Hshape]. split.
  - intros x Hx. pose proof (proj1 (forallb_forall _ _) Hall x Hx) as H.
    apply andb_true_iff in H. destruct H as [Hi Hf]. unfold addr_free in Hf. apply andb_true_iff in Hf. tauto.
  - unfold families_ok. destruct (r_fam r).
    + destruct ips as [|x [|y t]]; try discriminate. apply fam_eqb_eq in Hshape. eauto.
    + destruct ips as [|x [|y t]]; try discriminate. apply fam_eqb_eq in Hshape. eauto.
    + destruct ips as [|x [|y [|z t]]]; try discriminate.
      * right. destruct (r_pol r); try discriminate. eauto.
      * left. apply andb_true_iff in Hshape. destruct Hshape as [Hxy _].
        apply andb_true_iff in Hxy. destruct Hxy as [Hx Hy]. apply fam_eqb_eq in Hx. apply fam_eqb_eq in Hy.
        exists x, y. auto.
Qed.

(* ---------- candidate lists ---------- *)
Lemma usable_pinned_spec ps r n p :
  usable_pinned ps r n = Some p -> find_pool ps n = Some p /\ p_auto p = true /\ compatible p r = true.
Proof.
  unfold usable_pinned. destruct (find_pool ps n) as [q|]; [|discriminate].
  destruct (p_auto q && compatible q r) eqn:E; [|discriminate]. intros [= <-].
  apply andb_true_iff in E. tauto.
Qed.

Lemma find_pool_spec ps n p : find_pool ps n = Some p -> In p (by_name ps) /\ p_name p = n.
Proof. unfold find_pool. intros H. apply find_some in H. destruct H as [H1 H2]. apply N.eqb_eq in H2. auto. Qed.

Lemma pinned_pools_spec ps r p :
  In p (pinned_pools ps r) ->
  In p (by_name ps) /\ p_auto p = true /\ compatible p r = true /\
  (In (p_name p) (lookup_ns ps (r_ns r)) \/ In (p_name p) (by_sel ps)).
Proof.
  unfold pinned_pools. intros H. apply in_app_or in H.
  destruct H as [H|H]; apply omap_In in H; destruct H as [n [Hn Hu]];
    apply usable_pinned_spec in Hu; destruct Hu as (Hf & Ha & Hc);
    apply find_pool_spec in Hf; destruct Hf as [Hin <-]; auto.
Qed.

Lemma unpinned_pools_spec ps p :
  In p (unpinned_pools ps) <-> In p (by_name ps) /\ p_auto p = true /\ p_pin p = None.
Proof.
  unfold unpinned_pools. rewrite filter_In, andb_true_iff. destruct (p_pin p); split; intros H; try tauto.
  - destruct H as [_ [_ H]]. discriminate.
  - destruct H as [_ [_ H]]. discriminate.
Qed.

Definition names_unique (ps : pools) : Prop := NoDup (map p_name (by_name ps)).

Lemma names_unique_eq ps p q :
  names_unique ps -> In p (by_name ps) -> In q (by_name ps) -> p_name p = p_name q -> p = q.
Proof.
  unfold names_unique. induction (by_name ps) as [|z l IH]; cbn; [tauto|].
  intros Hnd Hp Hq Hn. inversion Hnd as [|? ? Hni Hd]; subst.
  destruct Hp as [<-|Hp], Hq as [<-|Hq]; auto.
  - exfalso. apply Hni. rewrite Hn. apply in_map. exact Hq.
  - exfalso. apply Hni. rewrite <- Hn. apply in_map. exact Hp.
Qed.

Lemma choice_ok_in_spec a s r l p :
  choice_ok_in a s r l p = true ->
  (exists q, In q l /\ p_name q = p_name p) /\
  classify a s r p = best_class a s r l /\ classify a s r p <> Nothing /\
  forall q, In q l -> key_lt (prio_key q) (prio_key p) = true -> classify a s r q <> classify a s r p.
Proof.
  unfold choice_ok_in. rewrite !andb_true_iff, existsb_exists, negb_true_iff, forallb_forall.
  intros [[[Hex Hb] Hn] Hall]. repeat split.
  - destruct Hex as [q [Hq Hn']]. apply N.eqb_eq in Hn'. eauto.
  - apply class_eqb_eq. exact Hb.
  - intros E. rewrite E in Hn. discriminate.
  - intros q Hq Hk E. specialize (Hall q Hq). rewrite Hk, E in Hall. cbn in Hall.
    assert (class_eqb (classify a s r p) (classify a s r p) = true) by (apply class_eqb_eq; reflexivity).
    rewrite H in Hall. discriminate.
Qed.

(* C02, automatic allocation: the pool has auto-assignment enabled and admits
   the service; a pinned pool is taken whenever one can serve the request; among
   the candidates no pool with a strictly better priority offers the same kind
   of result *)
Theorem allocate_spec_sound a s r pn ips :
  names_unique (s_pools a) ->
  allocate_spec a s r (Some (pn, ips)) = true ->
  exists p, find_pool (s_pools a) pn = Some p /\ In p (by_name (s_pools a)) /\
    p_auto p = true /\ compatible p r = true /\
    (forall x, In x ips -> in_pool p x = true /\ check_sharing a s x (r_ports r) (r_key r) = true) /\
    families_ok r ips /\
    let pinned := pinned_pools (s_pools a) r in
    let unp := unpinned_pools (s_pools a) in
    ((In p pinned /\ forall q, In q pinned -> key_lt (prio_key q) (prio_key p) = true ->
                               classify a s r q <> classify a s r p)
     \/ (In p unp /\ forall q ips', In q pinned -> offer_ok a s r q ips' = false)).
Proof.
  intros Hu. unfold allocate_spec. destruct (find_pool (s_pools a) pn) as [p|] eqn:Hf; [|discriminate].
  rewrite andb_true_iff, orb_true_iff. intros [Hoff Hch].
  apply offer_ok_sound in Hoff. destruct Hoff as [Hall Hfam].
  pose proof (find_pool_spec _ _ _ Hf) as [Hin Hname].
  exists p. split; [reflexivity|]. split; [exact Hin|].
  assert (Hsame : forall l, (forall q, In q l -> In q (by_name (s_pools a))) ->
                            (exists q, In q l /\ p_name q = p_name p) -> In p l).
  { intros l Hl [q [Hq Hn]]. assert (q = p) by (apply (names_unique_eq (s_pools a)); auto). subst. exact Hq. }
  destruct Hch as [Hch|Hch].
  - apply choice_ok_in_spec in Hch. destruct Hch as (Hex & Hbest & Hnn & Hprio).
    assert (Hp : In p (pinned_pools (s_pools a) r)).
    { apply Hsame; [|exact Hex]. intros q Hq. apply pinned_pools_spec in Hq. tauto. }
    pose proof (pinned_pools_spec _ _ _ Hp) as (_ & Ha & Hc & _).
    split; [exact Ha|]. split; [exact Hc|]. split; [exact Hall|]. split; [exact Hfam|].
    left. split; [exact Hp|exact Hprio].
  - apply andb_true_iff in Hch. destruct Hch as [Hnone Hch]. apply class_eqb_eq in Hnone.
    apply choice_ok_in_spec in Hch. destruct Hch as (Hex & Hbest & Hnn & Hprio).
    assert (Hp : In p (unpinned_pools (s_pools a))).
    { apply Hsame; [|exact Hex]. intros q Hq. apply unpinned_pools_spec in Hq. tauto. }
    pose proof (proj1 (unpinned_pools_spec _ _) Hp) as (_ & Ha & Hpin).
    assert (Hc : compatible p r = true) by (unfold compatible; rewrite Hpin; reflexivity).
    split; [exact Ha|]. split; [exact Hc|]. split; [exact Hall|]. split; [exact Hfam|].
    right. split; [exact Hp|].
    intros q ips' Hq. apply classify_nothing_no_offer. exact (best_class_nothing a s r _ Hnone q Hq).
Qed.

(* the part of the specification [allocate_spec_sound] does not spell out: the
   chosen pool offers the BEST class available among the candidates of its list
   (Full before PrimaryOnly before SecondaryOnly), and an unpinned pool is taken
   only when no pinned pool offers anything *)
Theorem allocate_spec_best_class a s r pn ips :
  names_unique (s_pools a) ->
  allocate_spec a s r (Some (pn, ips)) = true ->
  exists p, find_pool (s_pools a) pn = Some p /\ classify a s r p <> Nothing /\
    let pinned := pinned_pools (s_pools a) r in
    let unp := unpinned_pools (s_pools a) in
    ((In p pinned /\ classify a s r p = best_class a s r pinned) \/
     (In p unp /\ best_class a s r pinned = Nothing /\ classify a s r p = best_class a s r unp /\
      forall q, In q unp -> key_lt (prio_key q) (prio_key p) = true -> classify a s r q <> classify a s r p)).
Proof.
  intros Hu. unfold allocate_spec. destruct (find_pool (s_pools a) pn) as [p|] eqn:Hf; [|discriminate].
  rewrite andb_true_iff, orb_true_iff. intros [_ Hch].
  pose proof (find_pool_spec _ _ _ Hf) as [Hin Hname].
  exists p. split; [reflexivity|].
  assert (Hsame : forall l, (forall q, In q l -> In q (by_name (s_pools a))) ->
                            (exists q, In q l /\ p_name q = p_name p) -> In p l).
  { intros l Hl [q [Hq Hn]]. assert (q = p) by (apply (names_unique_eq (s_pools a)); auto). subst. exact Hq. }
  destruct Hch as [Hch|Hch].
  - apply choice_ok_in_spec in Hch. destruct Hch as (Hex & Hbest & Hnn & _).
    split; [exact Hnn|]. left. split; [|exact Hbest].
    apply Hsame; [|exact Hex]. intros q Hq. apply pinned_pools_spec in Hq. tauto.
  - apply andb_true_iff in Hch. destruct Hch as [Hnone Hch]. apply class_eqb_eq in Hnone.
    apply choice_ok_in_spec in Hch. destruct Hch as (Hex & Hbest & Hnn & Hprio).
    split; [exact Hnn|]. right. split; [|split; [exact Hnone|split; [exact Hbest|exact Hprio]]].
    apply Hsame; [|exact Hex]. intros q Hq. apply unpinned_pools_spec in Hq. tauto.
Qed.
