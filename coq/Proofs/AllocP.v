(* Invariants of the allocator model: exclusivity (C01), what check_sharing means
   (C07/C11), every operation preserves them. *)
From Coq Require Import List NArith ZArith Bool Lia.
From Verif Require Import Model.Net Model.Alloc Proofs.NetP.
Import ListNotations.
Local Open Scope N_scope.

(* ---------- basic list facts ---------- *)
Lemma mem_ip_In x l : mem_ip x l = true <-> In x l.
Proof.
  unfold mem_ip. rewrite existsb_exists. split.
  - intros [y [Hy He]]. apply ip_eqb_eq in He. subst. exact Hy.
  - intros H. exists x. split; [exact H|]. apply ip_eqb_eq. reflexivity.
Qed.

Lemma port_eqb_eq a b : port_eqb a b = true <-> a = b.
Proof.
  unfold port_eqb. rewrite andb_true_iff, !N.eqb_eq. destruct a, b; cbn. split.
  - intros [-> ->]. reflexivity.
  - intros [= -> ->]. auto.
Qed.

Lemma mem_port_In p l : mem_port p l = true <-> In p l.
Proof.
  unfold mem_port. rewrite existsb_exists. split.
  - intros [y [Hy He]]. apply port_eqb_eq in He. subst. exact Hy.
  - intros H. exists p. split; [exact H|]. apply port_eqb_eq. reflexivity.
Qed.

Lemma ports_disjoint_spec a b :
  ports_disjoint a b = true <-> forall p, In p a -> ~ In p b.
Proof.
  unfold ports_disjoint. rewrite forallb_forall. split.
  - intros H p Hp Hb. specialize (H p Hp). apply negb_true_iff in H.
    apply mem_port_In in Hb. congruence.
  - intros H p Hp. apply negb_true_iff. destruct (mem_port p b) eqn:E; [|reflexivity].
    exfalso. apply (H p Hp). apply mem_port_In. exact E.
Qed.

(* ---------- the statement's sharing relation ---------- *)
(* two allocations may share an address: same non-empty sharing key, same
   backend key (both Cluster, or identical selectors), disjoint ports *)
Definition shareable (x y : alloc) : Prop :=
  sharing (a_key x) <> 0 /\ sharing (a_key x) = sharing (a_key y) /\
  backend (a_key x) = backend (a_key y) /\
  forall p, In p (a_ports x) -> ~ In p (a_ports y).

Lemma sharing_ok_spec e k :
  sharing_ok e k = true <-> sharing e <> 0 /\ sharing k <> 0 /\ sharing e = sharing k /\ backend e = backend k.
Proof.
  unfold sharing_ok. rewrite !andb_true_iff, !negb_true_iff, !N.eqb_neq, !N.eqb_eq. tauto.
Qed.

Lemma shareable_sym x y : shareable x y -> shareable y x.
Proof.
  intros (H1 & H2 & H3 & H4). repeat split; try congruence.
  intros p Hp Hq. exact (H4 p Hq Hp).
Qed.

(* exclusivity over the recorded allocations *)
Definition Excl (l : list (svc * alloc)) : Prop :=
  forall e1 e2 x, In e1 l -> In e2 l -> fst e1 <> fst e2 ->
    In x (a_ips (snd e1)) -> In x (a_ips (snd e2)) -> shareable (snd e1) (snd e2).

Definition Inv (a : st) : Prop := NoDup (map fst (allocated a)) /\ Excl (allocated a).

Lemma Inv_init : Inv init.
Proof. split; [constructor|]. intros e1 e2 x []. Qed.

(* ---------- remove / lookup ---------- *)
Lemma In_remove_svc s e l : In e (remove_svc s l) <-> In e l /\ fst e <> s.
Proof. unfold remove_svc. rewrite filter_In, negb_true_iff, N.eqb_neq. tauto. Qed.

Lemma NoDup_map_filter {A B} (f : A -> B) (p : A -> bool) l :
  NoDup (map f l) -> NoDup (map f (filter p l)).
Proof.
  induction l as [|x l IH]; cbn; [auto|]. intros H. inversion H as [|? ? Hn Hd]; subst.
  destruct (p x); cbn; [constructor|]; auto.
  intros Hin. apply Hn. apply in_map_iff in Hin. destruct Hin as [y [Hy Hin]].
  apply filter_In in Hin. apply in_map_iff. exists y. tauto.
Qed.

Lemma find_svc_In (l : list (svc * alloc)) s al :
  NoDup (map fst l) ->
  (option_map snd (find (fun e => fst e =? s) l) = Some al <-> In (s, al) l).
Proof.
  induction l as [|[s0 a0] l IH]; intros Hnd.
  - cbn. split; [discriminate|tauto].
  - cbn in Hnd. inversion Hnd as [|? ? Hn Hd]; subst. cbn. destruct (N.eqb_spec s0 s) as [E|E]; cbn.
    + split.
      * intros H. left. injection H as H. subst. reflexivity.
      * intros [H|H]; [congruence|]. exfalso. apply Hn. apply in_map_iff. exists (s, al). split; [cbn; congruence|exact H].
    + rewrite (IH Hd). split; [tauto|]. intros [H|H]; [congruence|exact H].
Qed.

Lemma get_alloc_In a s al :
  NoDup (map fst (allocated a)) -> (get_alloc a s = Some al <-> In (s, al) (allocated a)).
Proof. apply find_svc_In. Qed.

Lemma In_tenants a x e : In e (tenants a x) <-> In e (allocated a) /\ In x (a_ips (snd e)).
Proof. unfold tenants. rewrite filter_In, mem_ip_In. tauto. Qed.

(* ---------- what check_sharing decides ---------- *)
(* under the invariant: the address is free for (s, ports, k) iff every OTHER
   service holding it may share it with the requester *)
Lemma check_sharing_iff a s x ports k :
  Inv a ->
  (check_sharing a s x ports k = true <->
   forall e, In e (allocated a) -> fst e <> s -> In x (a_ips (snd e)) ->
     sharing_ok (a_key (snd e)) k = true /\ forall p, In p ports -> ~ In p (a_ports (snd e))).
Proof.
  intros [Hnd Hex]. unfold check_sharing.
  destruct (tenants a x) as [|e0 ts] eqn:Ht.
  - split; [|reflexivity]. intros _ e He _ Hx.
    assert (Hin : In e (tenants a x)) by (apply In_tenants; tauto). rewrite Ht in Hin. destruct Hin.
  - assert (He0 : In e0 (allocated a) /\ In x (a_ips (snd e0))) by (apply In_tenants; rewrite Ht; left; reflexivity).
    rewrite andb_true_iff, orb_true_iff, !forallb_forall. split.
    + intros [Hk Hp] e He Hne Hx.
      assert (Hin : In e (e0 :: ts)) by (rewrite <- Ht; apply In_tenants; tauto).
      split.
      * destruct Hk as [Hk|Hk].
        -- destruct (N.eq_dec (fst e0) (fst e)) as [E|E].
           ++ (* same service => same entry *)
              assert (e0 = e).
              { destruct e0 as [s0 a0], e as [s1 a1]. cbn in E. subst.
                f_equal. assert (H1 : get_alloc a s1 = Some a0) by (apply get_alloc_In; tauto).
                assert (H2 : get_alloc a s1 = Some a1) by (apply get_alloc_In; tauto). congruence. }
              subst. exact Hk.
           ++ destruct He0 as [He0 Hx0].
              destruct (Hex e0 e x He0 He E Hx0 Hx) as (S1 & S2 & S3 & _).
              apply sharing_ok_spec in Hk. apply sharing_ok_spec. intuition congruence.
        -- specialize (Hk e Hin). cbv beta in Hk. apply N.eqb_eq in Hk. contradiction.
      * specialize (Hp e Hin). apply orb_true_iff in Hp. destruct Hp as [Hp|Hp].
        -- apply N.eqb_eq in Hp. contradiction.
        -- apply ports_disjoint_spec. exact Hp.
    + intros H. split.
      * destruct (forallb (fun e => fst e =? s) (e0 :: ts)) eqn:Hall.
        -- right. apply forallb_forall. exact Hall.
        -- left. (* some other tenant exists *)
           assert (Hex' : exists e, In e (e0 :: ts) /\ fst e <> s).
           { clear - Hall. induction (e0 :: ts) as [|y l IH]; cbn in Hall; [discriminate|].
             apply andb_false_iff in Hall. destruct Hall as [Hy|Hl].
             - exists y. split; [left; reflexivity|]. apply N.eqb_neq. exact Hy.
             - destruct (IH Hl) as [e [He1 He2]]. exists e. split; [right; exact He1|exact He2]. }
           destruct Hex' as [e [He Hne]]. rewrite <- Ht in He. apply In_tenants in He. destruct He as [He Hx].
           destruct (H e He Hne Hx) as [Hk _].
           destruct (N.eq_dec (fst e0) (fst e)) as [E|E].
           ++ assert (e0 = e).
              { destruct e0 as [s0 a0], e as [s1 a1]. cbn in E. subst.
                f_equal. assert (H1 : get_alloc a s1 = Some a0) by (apply get_alloc_In; tauto).
                assert (H2 : get_alloc a s1 = Some a1) by (apply get_alloc_In; tauto). congruence. }
              subst. exact Hk.
           ++ destruct He0 as [He0 Hx0].
              destruct (Hex e0 e x He0 He E Hx0 Hx) as (S1 & S2 & S3 & _).
              apply sharing_ok_spec in Hk. apply sharing_ok_spec. intuition congruence.
      * intros e He. rewrite <- Ht in He. apply In_tenants in He. destruct He as [He Hx].
        apply orb_true_iff. destruct (N.eqb_spec (fst e) s) as [E|E]; [left; reflexivity|right].
        apply ports_disjoint_spec. apply (H e He E Hx).
Qed.

(* ---------- operations preserve the invariant ---------- *)
Lemma Inv_unassign a s : Inv a -> Inv (unassign a s).
Proof.
  intros [Hnd Hex]. split; cbn.
  - unfold remove_svc. apply NoDup_map_filter. exact Hnd.
  - intros e1 e2 x H1 H2. apply In_remove_svc in H1. apply In_remove_svc in H2. apply Hex; tauto.
Qed.

Lemma NoDup_do_assign a s al :
  NoDup (map fst (allocated a)) -> NoDup (map fst (allocated (do_assign a s al))).
Proof.
  intros Hnd. cbn. constructor.
  - intros Hin. apply in_map_iff in Hin. destruct Hin as [e [He Hin]]. apply In_remove_svc in Hin. tauto.
  - unfold remove_svc. apply NoDup_map_filter. exact Hnd.
Qed.

Lemma Inv_do_assign a s al :
  Inv a ->
  (forall x, In x (a_ips al) -> check_sharing a s x (a_ports al) (a_key al) = true) ->
  Inv (do_assign a s al).
Proof.
  intros HI Hchk. pose proof HI as [Hnd Hex]. split; [apply NoDup_do_assign; exact Hnd|].
  assert (Hnew : forall e x, In e (allocated a) -> fst e <> s -> In x (a_ips al) -> In x (a_ips (snd e)) ->
                             shareable (snd e) al).
  { intros e x He Hne Hx Hxe. specialize (Hchk x Hx).
    pose proof (proj1 (check_sharing_iff a s x (a_ports al) (a_key al) HI) Hchk) as Hchk'. clear Hchk. rename Hchk' into Hchk.
    destruct (Hchk e He Hne Hxe) as [Hk Hp]. apply sharing_ok_spec in Hk.
    repeat split; try tauto. intros p Hq Hpa. exact (Hp p Hpa Hq). }
  intros e1 e2 x H1 H2 Hne Hx1 Hx2. cbn in H1, H2.
  destruct H1 as [H1|H1], H2 as [H2|H2]; subst; cbn in *.
  - congruence.
  - apply In_remove_svc in H2. apply shareable_sym. apply (Hnew e2 x); tauto.
  - apply In_remove_svc in H1. apply (Hnew e1 x); tauto.
  - apply In_remove_svc in H1. apply In_remove_svc in H2. apply (Hex e1 e2 x); tauto.
Qed.

Lemma assign_ok_inv a s r ips a' out :
  assign a s r ips = (a', ROk out) ->
  exists p, assign_check a s r ips = inl p /\ out = ips /\
            a' = do_assign a s {| a_pool := p_name p; a_ips := ips; a_ports := r_ports r; a_key := r_key r |}.
Proof.
  unfold assign. destruct (assign_check a s r ips) as [p|e]; [|discriminate].
  intros [= <- <-]. exists p. auto.
Qed.

Lemma assign_err_same a s r ips a' e : assign a s r ips = (a', RErr e) -> a' = a.
Proof. unfold assign. destruct (assign_check a s r ips); [discriminate|]. intros [= <- _]. reflexivity. Qed.

Lemma assign_never_mismatch a s r ips a' : assign a s r ips <> (a', RSpecMismatch).
Proof. unfold assign. destruct (assign_check a s r ips); discriminate. Qed.

Lemma assign_check_sharing a s r ips p :
  assign_check a s r ips = inl p ->
  forall x, In x ips -> check_sharing a s x (r_ports r) (r_key r) = true.
Proof.
  unfold assign_check. destruct (pool_for _ _); [|discriminate].
  destruct (negb (compatible _ _)); [discriminate|].
  destruct (2 <? _); [discriminate|]. destruct (same_family2 ips); [discriminate|].
  destruct (forallb _ ips) eqn:E; cbn; [|discriminate]. intros _. apply forallb_forall. exact E.
Qed.

Lemma Inv_assign a s r ips : Inv a -> Inv (fst (assign a s r ips)).
Proof.
  intros HI. unfold assign. destruct (assign_check a s r ips) as [p|e] eqn:E; cbn; [|exact HI].
  apply Inv_do_assign; [exact HI|]. cbn. apply (assign_check_sharing a s r ips p E).
Qed.

Lemma omap_In {A B} (f : A -> option B) l y : In y (omap f l) <-> exists x, In x l /\ f x = Some y.
Proof.
  induction l as [|x l IH]; cbn.
  - split; [tauto|]. intros [x [[] _]].
  - destruct (f x) eqn:E; cbn; rewrite IH; split.
    + intros [<-|[x' [H1 H2]]]; [exists x; auto|exists x'; auto].
    + intros [x' [[<-|H1] H2]]; [left; congruence|right; exists x'; auto].
    + intros [x' [H1 H2]]. exists x'. auto.
    + intros [x' [[<-|H1] H2]]; [congruence|exists x'; auto].
Qed.

Lemma rehome_fst ps e e' : rehome ps e = Some e' ->
  fst e' = fst e /\ a_ips (snd e') = a_ips (snd e) /\ a_ports (snd e') = a_ports (snd e) /\ a_key (snd e') = a_key (snd e).
Proof. unfold rehome. destruct (pool_for _ _); [|discriminate]. intros [= <-]. cbn. auto. Qed.

Lemma NoDup_map_omap ps l : NoDup (map fst l) -> NoDup (map fst (omap (rehome ps) l)).
Proof.
  induction l as [|e l IH]; cbn; [auto|]. intros H. inversion H as [|? ? Hn Hd]; subst.
  destruct (rehome ps e) as [e'|] eqn:E; [|auto]. cbn. constructor; [|auto].
  intros Hin. apply Hn. apply in_map_iff in Hin. destruct Hin as [y [Hy Hin]].
  apply omap_In in Hin. destruct Hin as [z [Hz Hr]]. apply rehome_fst in Hr. apply rehome_fst in E.
  apply in_map_iff. exists z. split; [|exact Hz]. destruct Hr as [Hr _]. destruct E as [E _]. congruence.
Qed.

Lemma Inv_set_pools a ps : Inv a -> Inv (set_pools a ps).
Proof.
  intros [Hnd Hex]. split; cbn; [apply NoDup_map_omap; exact Hnd|].
  intros e1 e2 x H1 H2 Hne Hx1 Hx2.
  apply omap_In in H1. apply omap_In in H2. destruct H1 as [o1 [Ho1 R1]], H2 as [o2 [Ho2 R2]].
  apply rehome_fst in R1. apply rehome_fst in R2.
  destruct R1 as (F1 & I1 & P1 & K1), R2 as (F2 & I2 & P2 & K2).
  assert (S : shareable (snd o1) (snd o2)).
  { apply (Hex o1 o2 x); try assumption; congruence. }
  unfold shareable in *. rewrite K1, K2, P1, P2. exact S.
Qed.

(* every operation, whatever result the implementation reported for it *)
Theorem step_Inv a o : Inv a -> Inv (fst (step a o)).
Proof.
  intros HI. destruct o as [s r ips|s|s r c|s r pn c|s r have pn c|ps]; cbn [step].
  - apply Inv_assign. exact HI.
  - cbn. apply Inv_unassign. exact HI.
  - destruct (get_alloc a s) as [al|].
    + pose proof (Inv_assign a s r (a_ips al) HI) as HA.
      destruct (assign a s r (a_ips al)) as [a' [i|e|]] eqn:E; cbn in HA.
      * destruct c as [[pn ips]|]; [|exact HI]. destruct (ips_eqb ips (a_ips al)); [exact HA|exact HI].
      * destruct c; [exact HI|exact HA].
      * destruct c; [exact HI|exact HA].
    + destruct (allocate_spec a s r c); [|exact HI]. destruct c as [[pn ips]|]; [|exact HI].
      pose proof (Inv_assign a s r ips HI) as HA.
      destruct (assign a s r ips) as [a' [i|e|]]; cbn in *; [exact HA|exact HI|exact HI].
  - destruct (get_alloc a s) as [al|].
    + destruct (alloc_fam (a_ips al)) as [f|].
      * destruct (negb _ && negb _).
        -- destruct c; exact HI.
        -- pose proof (Inv_assign a s r (a_ips al) HI) as HA.
           destruct (assign a s r (a_ips al)) as [a' [i|e|]] eqn:E; cbn in HA.
           ++ destruct c as [ips|]; [|exact HI]. destruct (ips_eqb ips (a_ips al)); [exact HA|exact HI].
           ++ destruct c; [exact HI|exact HA].
           ++ destruct c; [exact HI|exact HA].
      * destruct c; exact HI.
    + destruct (from_pool_spec a s r pn c); [|exact HI]. destruct c as [ips|]; [|exact HI].
      pose proof (Inv_assign a s r ips HI) as HA.
      destruct (assign a s r ips) as [a' [i|e|]]; cbn in *; [exact HA|exact HI|exact HI].
  - destruct (additional_spec a s r have pn c); [|exact HI]. destruct c as [x|]; [|exact HI].
    pose proof (Inv_assign a s r [have; x] HI) as HA.
    destruct (assign a s r [have; x]) as [a' [i|e|]]; cbn in *; [exact HA|exact HI|exact HI].
  - cbn. apply Inv_set_pools. exact HI.
Qed.

Definition run (ops : list op) (a : st) : st := fold_left (fun a o => fst (step a o)) ops a.

Theorem run_Inv ops : forall a, Inv a -> Inv (run ops a).
Proof.
  induction ops as [|o ops IH]; intros a HI; cbn; [exact HI|]. apply IH. apply step_Inv. exact HI.
Qed.

(* C01 on the allocator's records: after every single operation of any history *)
Theorem records_exclusive ops s1 s2 al1 al2 x :
  let a := run ops init in
  s1 <> s2 -> get_alloc a s1 = Some al1 -> get_alloc a s2 = Some al2 ->
  In x (a_ips al1) -> In x (a_ips al2) -> shareable al1 al2.
Proof.
  intros a Hne H1 H2 Hx1 Hx2. destruct (run_Inv ops init Inv_init) as [Hnd Hex]. fold a in Hnd, Hex.
  apply (get_alloc_In a s1 al1 Hnd) in H1. apply (get_alloc_In a s2 al2 Hnd) in H2.
  exact (Hex (s1, al1) (s2, al2) x H1 H2 Hne Hx1 Hx2).
Qed.

(* a failing operation changes nothing (validation precedes mutation) *)
Theorem failed_op_no_change a o a' e : step a o = (a', RErr e) -> a' = a.
Proof.
  destruct o as [s r ips|s|s r c|s r pn c|s r have pn c|ps]; cbn [step].
  - apply assign_err_same.
  - discriminate.
  - destruct (get_alloc a s) as [al|].
    + destruct (assign a s r (a_ips al)) as [a1 [i|e1|]] eqn:E.
      * destruct c as [[pn ips]|]; [|discriminate]. destruct (ips_eqb _ _); discriminate.
      * destruct c; [discriminate|]. intros [= <- _]. eapply assign_err_same; eassumption.
      * exfalso. eapply assign_never_mismatch; eassumption.
    + destruct (allocate_spec a s r c); [|discriminate]. destruct c as [[pn ips]|]; [|intros [= <- _]; reflexivity].
      destruct (assign a s r ips) as [a1 [i|e1|]]; discriminate.
  - destruct (get_alloc a s) as [al|].
    + destruct (alloc_fam (a_ips al)).
      * destruct (negb _ && negb _).
        -- destruct c; [discriminate|intros [= <- _]; reflexivity].
        -- destruct (assign a s r (a_ips al)) as [a1 [i|e1|]] eqn:E.
           ++ destruct c as [ips|]; [|discriminate]. destruct (ips_eqb _ _); discriminate.
           ++ destruct c; [discriminate|]. intros [= <- _]. eapply assign_err_same; eassumption.
           ++ exfalso. eapply assign_never_mismatch; eassumption.
      * destruct c; [discriminate|intros [= <- _]; reflexivity].
    + destruct (from_pool_spec a s r pn c); [|discriminate]. destruct c as [ips|]; [|intros [= <- _]; reflexivity].
      destruct (assign a s r ips) as [a1 [i|e1|]]; discriminate.
  - destruct (additional_spec a s r have pn c); [|discriminate]. destruct c as [x|]; [|intros [= <- _]; reflexivity].
    destruct (assign a s r [have; x]) as [a1 [i|e1|]]; discriminate.
  - discriminate.
Qed.

(* C11: an address given up is free again for any requester, as far as the
   releasing service is concerned *)
Theorem released_free a s x t ports k :
  Inv a ->
  (forall e, In e (allocated a) -> fst e <> s -> ~ In x (a_ips (snd e))) ->
  check_sharing (unassign a s) t x ports k = true.
Proof.
  intros HI Hno. apply (proj2 (check_sharing_iff _ t x ports k (Inv_unassign a s HI))).
  intros e He _ Hx. cbn in He. apply In_remove_svc in He. exfalso. apply (Hno e); tauto.
Qed.
