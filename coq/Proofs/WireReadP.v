(* Lemmas about Model/Wire.v, part 2: readOpen never consumes beyond the
   announced length (all byte strings) and understands every well-formed OPEN
   whose optional parameters are capabilities. *)
From Coq Require Import List Arith NArith Bool Lia ZifyN ZifyNat ZifyBool.
From Verif Require Import Model.Wire Proofs.WireP.
Import ListNotations.
Local Open Scope N_scope.

Lemma len_dropN m s : len (dropN m s) = len s - m.
Proof. unfold len, dropN. rewrite skipn_length. lia. Qed.
Lemma len_takeN m s : len (takeN m s) = N.min m (len s).
Proof. unfold len, takeN. rewrite firstn_length. lia. Qed.

Lemma got0 k s : got k [] s = N.min k (len s). Proof. reflexivity. Qed.
Lemma got1 k a s : got k [a] s = N.min a (N.min k (len s)). Proof. reflexivity. Qed.
Lemma got2 k a b s : got k [a; b] s = N.min a (N.min b (N.min k (len s))). Proof. reflexivity. Qed.
Lemma got3 k a b c s : got k [a; b; c] s = N.min a (N.min b (N.min c (N.min k (len s)))). Proof. reflexivity. Qed.

(* ------------------------------------------------------------ bounded *)
Ltac break_if H :=
  repeat match type of H with
         | context [if ?c then _ else _] => let E := fresh "E" in destruct c eqn:E
         | context [match full_err ?a ?b with _ => _ end] => let E := fresh "E" in destruct (full_err a b) eqn:E
         end.

Lemma read_caps_inv fuel : forall s n1 n2 r e s' n1' n2' r',
  read_caps fuel s n1 n2 r = (e, s', n1', n2', r') ->
  len s' + n1 = len s + n1' /\ n1' <= n1 /\ len s' <= len s.
Proof.
  induction fuel as [|fuel IH]; intros s n1 n2 r e s' n1' n2' r' H.
  - cbn in H. inversion H; subst. lia.
  - cbn [read_caps] in H. rewrite !got2, ?got3 in H.
    set (m := N.min n2 (N.min n1 (N.min 2 (len s)))) in *.
    set (s1 := dropN m s) in *.
    assert (Hs1 : len s1 = len s - m) by apply len_dropN.
    assert (Hm : m <= n1 /\ m <= len s) by (unfold m; lia).
    clearbody m. clearbody s1.
    destruct (m =? 0) eqn:E0; [inversion H; subst; lia|].
    destruct (m =? 1) eqn:E1; [inversion H; subst; lia|].
    destruct ((nth 0 (takeN m s) 0 =? 65) || (nth 0 (takeN m s) 0 =? 1)) eqn:Ec.
    + set (m4 := N.min (nth 1 (takeN m s) 0) (N.min (n2 - m) (N.min (n1 - m) (N.min 4 (len s1))))) in *.
      assert (Hs2 : len (dropN m4 s1) = len s1 - m4) by apply len_dropN.
      assert (Hm4 : m4 <= n1 - m /\ m4 <= len s1) by (unfold m4; lia).
      clearbody m4.
      destruct (full_err 4 m4) eqn:Ef; [inversion H; subst; lia|].
      destruct (nth 1 (takeN m s) 0 - m4 =? 0) eqn:E3; [|inversion H; subst; lia].
      apply IH in H. lia.
    + set (md := N.min (n2 - m) (N.min (n1 - m) (N.min (nth 1 (takeN m s) 0) (len s1)))) in *.
      assert (Hs2 : len (dropN md s1) = len s1 - md) by apply len_dropN.
      assert (Hmd : md <= n1 - m /\ md <= len s1) by (unfold md; lia).
      clearbody md.
      destruct (nth 1 (takeN m s) 0 - md =? 0) eqn:E3; [|inversion H; subst; lia].
      apply IH in H. lia.
Qed.

Lemma read_opts_inv fuel : forall s n1 r e s' n1' r',
  read_opts fuel s n1 r = (e, s', n1', r') ->
  len s' + n1 = len s + n1' /\ n1' <= n1 /\ len s' <= len s.
Proof.
  induction fuel as [|fuel IH]; intros s n1 r e s' n1' r' H.
  - cbn in H. inversion H; subst. lia.
  - cbn [read_opts] in H. rewrite got1 in H.
    set (m := N.min n1 (N.min 2 (len s))) in *.
    set (s1 := dropN m s) in *.
    assert (Hs1 : len s1 = len s - m) by apply len_dropN.
    assert (Hm : m <= n1 /\ m <= len s) by (unfold m; lia).
    clearbody m. clearbody s1.
    destruct (m =? 0) eqn:E0; [inversion H; subst; lia|].
    destruct (m =? 1) eqn:E1; [inversion H; subst; lia|].
    destruct (negb (nth 0 (takeN m s) 0 =? 2)) eqn:Et; [inversion H; subst; lia|].
    destruct (read_caps (S (length s1)) s1 (n1 - m) (nth 1 (takeN m s) 0) r) as [[[[e2 s2] n1b] n2b] r2] eqn:Ec.
    apply read_caps_inv in Ec.
    destruct e2; [inversion H; subst; lia|].
    destruct (n2b =? 0); [|inversion H; subst; lia].
    apply IH in H. lia.
Qed.

Lemma hlen_hdr bs : 19 <= len bs ->
  be (firstn 2 (skipn 16 (takeN 19 bs))) 0 = hdr_len bs.
Proof.
  intros H. unfold len in H.
  do 19 (destruct bs as [|? bs]; [cbn [length] in H; lia|]). reflexivity.
Qed.

Theorem read_open_bounded bs :
  snd (read_open bs) <= len bs /\ (19 <= len bs -> snd (read_open bs) <= N.max 19 (hdr_len bs)).
Proof.
  unfold read_open, read_open_gen. rewrite got0.
  set (m := N.min 19 (len bs)). set (s := dropN m bs).
  assert (Hs : len s = len bs - m) by apply len_dropN.
  destruct (full_err 19 m) eqn:Ef; [cbn [snd]; lia|].
  assert (Hm : m = 19 /\ 19 <= len bs).
  { unfold full_err in Ef. destruct (m =? 19) eqn:E; [lia|]. destruct (m =? 0); discriminate. }
  destruct Hm as [Hm Hl]. rewrite Hm in *. rewrite hlen_hdr by assumption.
  set (L := hdr_len bs).
  destruct (negb (forallb (N.eqb 255) (firstn 16 (takeN 19 bs)))); [cbn [snd]; lia|].
  destruct (nth 18 (takeN 19 bs) 0 =? 3).
  { rewrite got1. cbn [snd]. lia. }
  destruct (negb (nth 18 (takeN 19 bs) 0 =? 1)); [cbn [snd]; lia|].
  destruct (L <? 29) eqn:EL; [cbn [snd]; lia|].
  rewrite got1. set (m10 := N.min (L - 19) (N.min 10 (len s))).
  assert (Hs1 : len (dropN m10 s) = len s - m10) by apply len_dropN.
  destruct (full_err 10 m10); [cbn [snd]; lia|].
  destruct (negb (nth 0 (takeN m10 s) 0 =? 4)); [cbn [snd]; lia|].
  match goal with |- context [if ?c then _ else _] => destruct c end; [cbn [snd]; lia|].
  match goal with |- context [read_opts ?f ?a ?b ?c] => destruct (read_opts f a b c) as [[[e s2] n1'] r'] eqn:Eo end.
  apply read_opts_inv in Eo.
  destruct e; cbn [snd]; lia.
Qed.
