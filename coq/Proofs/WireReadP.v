(* Lemmas about Model/Wire.v, part 2: readOpen never consumes beyond the
   announced length (all byte strings) and understands every well-formed OPEN
   whose optional parameters are capabilities. *)
From Coq Require Import List Arith NArith Bool Lia ZifyN ZifyNat ZifyBool.
From Verif Require Import Model.Wire Proofs.WireP.
Import ListNotations.
Local Open Scope N_scope.

Lemma len_dropN m s : len (dropN m s) = len s - m.
Proof. unfold len, dropN. rewrite skipn_length. lia. Qed.
Lemma len_takeN m s : len (takeN m s) = N.min m (len s).
Proof. unfold len, takeN. rewrite firstn_length. lia. Qed.

Lemma got0 k s : got k [] s = N.min k (len s). Proof. reflexivity. Qed.
Lemma got1 k a s : got k [a] s = N.min a (N.min k (len s)). Proof. reflexivity. Qed.
Lemma got2 k a b s : got k [a; b] s = N.min a (N.min b (N.min k (len s))). Proof. reflexivity. Qed.
Lemma got3 k a b c s : got k [a; b; c] s = N.min a (N.min b (N.min c (N.min k (len s)))). Proof. reflexivity. Qed.

(* ------------------------------------------------------------ bounded *)
Ltac break_if H :=
  repeat match type of H with
         | context [if ?c then _ else _] => let E := fresh "E" in destruct c eqn:E
         | context [match full_err ?a ?b with _ => _ end] => let E := fresh "E" in destruct (full_err a b) eqn:E
         end.

Lemma read_caps_inv fuel : forall s n1 n2 r e s' n1' n2' r',
  read_caps fuel s n1 n2 r = (e, s', n1', n2', r') ->
  len s' + n1 = len s + n1' /\ n1' <= n1 /\ len s' <= len s.
Proof.
  induction fuel as [|fuel IH]; intros s n1 n2 r e s' n1' n2' r' H.
  - cbn in H. inversion H; subst. lia.
  - cbn [read_caps] in H. rewrite !got2, ?got3 in H.
    set (m := N.min n2 (N.min n1 (N.min 2 (len s)))) in *.
    set (s1 := dropN m s) in *.
    assert (Hs1 : len s1 = len s - m) by apply len_dropN.
    assert (Hm : m <= n1 /\ m <= len s) by (unfold m; lia).
    clearbody m. clearbody s1.
    destruct (m =? 0) eqn:E0; [inversion H; subst; lia|].
    destruct (m =? 1) eqn:E1; [inversion H; subst; lia|].
    destruct ((nth 0 (takeN m s) 0 =? 65) || (nth 0 (takeN m s) 0 =? 1)) eqn:Ec.
    + set (m4 := N.min (nth 1 (takeN m s) 0) (N.min (n2 - m) (N.min (n1 - m) (N.min 4 (len s1))))) in *.
      assert (Hs2 : len (dropN m4 s1) = len s1 - m4) by apply len_dropN.
      assert (Hm4 : m4 <= n1 - m /\ m4 <= len s1) by (unfold m4; lia).
      clearbody m4.
      destruct (full_err 4 m4) eqn:Ef; [inversion H; subst; lia|].
      destruct (nth 1 (takeN m s) 0 - m4 =? 0) eqn:E3; [|inversion H; subst; lia].
      apply IH in H. lia.
    + set (md := N.min (n2 - m) (N.min (n1 - m) (N.min (nth 1 (takeN m s) 0) (len s1)))) in *.
      assert (Hs2 : len (dropN md s1) = len s1 - md) by apply len_dropN.
      assert (Hmd : md <= n1 - m /\ md <= len s1) by (unfold md; lia).
      clearbody md.
      destruct (nth 1 (takeN m s) 0 - md =? 0) eqn:E3; [|inversion H; subst; lia].
      apply IH in H. lia.
Qed.

Lemma read_opts_inv fuel : forall s n1 r e s' n1' r',
  read_opts fuel s n1 r = (e, s', n1', r') ->
  len s' + n1 = len s + n1' /\ n1' <= n1 /\ len s' <= len s.
Proof.
  induction fuel as [|fuel IH]; intros s n1 r e s' n1' r' H.
  - cbn in H. inversion H; subst. lia.
  - cbn [read_opts] in H. rewrite got1 in H.
    set (m := N.min n1 (N.min 2 (len s))) in *.
    set (s1 := dropN m s) in *.
    assert (Hs1 : len s1 = len s - m) by apply len_dropN.
    assert (Hm : m <= n1 /\ m <= len s) by (unfold m; lia).
    clearbody m. clearbody s1.
    destruct (m =? 0) eqn:E0; [inversion H; subst; lia|].
    destruct (m =? 1) eqn:E1; [inversion H; subst; lia|].
    destruct (negb (nth 0 (takeN m s) 0 =? 2)) eqn:Et; [inversion H; subst; lia|].
    destruct (read_caps (S (length s1)) s1 (n1 - m) (nth 1 (takeN m s) 0) r) as [[[[e2 s2] n1b] n2b] r2] eqn:Ec.
    apply read_caps_inv in Ec.
    destruct e2; [inversion H; subst; lia|].
    destruct (n2b =? 0); [|inversion H; subst; lia].
    apply IH in H. lia.
Qed.

Lemma hlen_hdr bs : 19 <= len bs ->
  be (firstn 2 (skipn 16 (takeN 19 bs))) 0 = hdr_len bs.
Proof.
  intros H. unfold len in H.
  do 19 (destruct bs as [|? bs]; [cbn [length] in H; lia|]). reflexivity.
Qed.

Theorem read_open_bounded bs :
  snd (read_open bs) <= len bs /\ (19 <= len bs -> snd (read_open bs) <= N.max 19 (hdr_len bs)).
Proof.
  unfold read_open, read_open_gen. rewrite got0.
  set (m := N.min 19 (len bs)). set (s := dropN m bs).
  assert (Hs : len s = len bs - m) by apply len_dropN.
  destruct (full_err 19 m) eqn:Ef; [cbn [snd]; lia|].
  assert (Hm : m = 19 /\ 19 <= len bs).
  { unfold full_err in Ef. destruct (m =? 19) eqn:E; [lia|]. destruct (m =? 0); discriminate. }
  destruct Hm as [Hm Hl]. rewrite Hm in *. rewrite hlen_hdr by assumption.
  set (L := hdr_len bs).
  destruct (negb (forallb (N.eqb 255) (firstn 16 (takeN 19 bs)))); [cbn [snd]; lia|].
  destruct (nth 18 (takeN 19 bs) 0 =? 3).
  { rewrite got1. cbn [snd]. lia. }
  destruct (negb (nth 18 (takeN 19 bs) 0 =? 1)); [cbn [snd]; lia|].
  destruct (L <? 29) eqn:EL; [cbn [snd]; lia|].
  rewrite got1. set (m10 := N.min (L - 19) (N.min 10 (len s))).
  assert (Hs1 : len (dropN m10 s) = len s - m10) by apply len_dropN.
  destruct (full_err 10 m10); [cbn [snd]; lia|].
  destruct (negb (nth 0 (takeN m10 s) 0 =? 4)); [cbn [snd]; lia|].
  match goal with |- context [if ?c then _ else _] => destruct c end; [cbn [snd]; lia|].
  match goal with |- context [read_opts ?f ?a ?b ?c] => destruct (read_opts f a b c) as [[[e s2] n1'] r'] eqn:Eo end.
  apply read_opts_inv in Eo.
  destruct e; cbn [snd]; lia.
Qed.

(* ------------------------------------------------------------ correct *)
(* what readCapabilities does with one capability *)
Definition step_cap (r : open_result) (c : cap) : open_result :=
  if c_code c =? 65 then
    {| r_asn := be (c_val c) 0; r_hold := r_hold r; r_mp4 := r_mp4 r; r_mp6 := r_mp6 r; r_fbasn := true |}
  else if c_code c =? 1 then
    let afi := be (firstn 2 (c_val c)) 0 in let safi := be (skipn 2 (c_val c)) 0 in
    {| r_asn := r_asn r; r_hold := r_hold r; r_mp4 := r_mp4 r || ((afi =? 1) && (safi =? 1));
       r_mp6 := r_mp6 r || ((afi =? 2) && (safi =? 1)); r_fbasn := r_fbasn r |}
  else r.

Lemma takeN_app a r : takeN (len a) (a ++ r) = a.
Proof. unfold takeN, len. rewrite Nat2N.id, firstn_app, Nat.sub_diag, firstn_all. cbn. apply app_nil_r. Qed.
Lemma dropN_app a r : dropN (len a) (a ++ r) = r.
Proof. unfold dropN, len. rewrite Nat2N.id, skipn_app, Nat.sub_diag, skipn_all. reflexivity. Qed.

Lemma read_caps_cons fuel c tail n1 n2 r :
  wf_cap c -> 2 + len (c_val c) <= n2 -> n2 <= n1 ->
  read_caps (S fuel) (ser_cap c ++ tail) n1 n2 r =
  read_caps fuel tail (n1 - (2 + len (c_val c))) (n2 - (2 + len (c_val c))) (step_cap r c).
Proof.
  intros Hwf H2 H1. destruct c as [code v]. cbn [c_code c_val] in *. unfold wf_cap in Hwf. cbn [c_code c_val] in Hwf.
  unfold ser_cap. cbn [c_code c_val app].
  cbn [read_caps]. rewrite got2.
  assert (Hl : len (code :: len v :: v ++ tail) = 2 + len v + len tail).
  { rewrite !len_cons, len_app. lia. }
  replace (N.min n2 (N.min n1 (N.min 2 (len (code :: len v :: v ++ tail))))) with 2 by lia.
  change (takeN 2 (code :: len v :: v ++ tail)) with [code; len v].
  change (dropN 2 (code :: len v :: v ++ tail)) with (v ++ tail).
  cbn [N.eqb Pos.eqb nth]. unfold step_cap. cbn [c_code c_val].
  destruct ((code =? 65) || (code =? 1)) eqn:Ec.
  - assert (Hv : len v = 4) by (apply Hwf; lia).
    rewrite got3. rewrite Hv.
    replace (N.min 4 (N.min (n2 - 2) (N.min (n1 - 2) (N.min 4 (len (v ++ tail)))))) with 4
      by (rewrite len_app; lia).
    change (full_err 4 4) with (@None rerr). cbv iota. change (4 - 4 =? 0) with true. cbv iota.
    assert (Et : takeN 4 (v ++ tail) = v) by (rewrite <- Hv; apply takeN_app).
    assert (Ed : dropN 4 (v ++ tail) = tail) by (rewrite <- Hv; apply dropN_app).
    rewrite !Et, !Ed.
    replace (n1 - 2 - 4) with (n1 - (2 + 4)) by lia. replace (n2 - 2 - 4) with (n2 - (2 + 4)) by lia.
    destruct (code =? 65) eqn:E65; [reflexivity|].
    replace (code =? 1) with true by lia. reflexivity.
  - rewrite got2.
    replace (N.min (n2 - 2) (N.min (n1 - 2) (N.min (len v) (len (v ++ tail))))) with (len v)
      by (rewrite len_app; lia).
    rewrite N.sub_diag. change (0 =? 0) with true. cbv iota. rewrite dropN_app.
    replace (n1 - 2 - len v) with (n1 - (2 + len v)) by lia.
    replace (n2 - 2 - len v) with (n2 - (2 + len v)) by lia.
    replace (code =? 65) with false by lia. replace (code =? 1) with false by lia. reflexivity.
Qed.

Lemma len_ser_cap c : len (ser_cap c) = 2 + len (c_val c).
Proof. unfold ser_cap. rewrite len_app. reflexivity. Qed.

Lemma read_caps_ser cs : forall fuel rest n1 r,
  Forall wf_cap cs -> (length cs < fuel)%nat -> len (concat (map ser_cap cs)) <= n1 ->
  read_caps fuel (concat (map ser_cap cs) ++ rest) n1 (len (concat (map ser_cap cs))) r =
  (None, rest, n1 - len (concat (map ser_cap cs)), 0, fold_left step_cap cs r).
Proof.
  induction cs as [|c cs IH]; intros fuel rest n1 r Hwf Hf Hn.
  - destruct fuel as [|fuel]; [cbn in Hf; lia|]. cbn [map concat app fold_left].
    cbn [read_caps]. rewrite got2. change (len (@nil N)) with 0.
    replace (N.min 0 (N.min n1 (N.min 2 (len rest)))) with 0 by lia.
    cbn [N.eqb]. rewrite !N.sub_0_r. reflexivity.
  - inversion Hwf; subst. destruct fuel as [|fuel]; [cbn in Hf; lia|].
    cbn [map concat fold_left] in *. rewrite len_app, len_ser_cap in *.
    rewrite <- app_assoc. rewrite read_caps_cons by (assumption || lia).
    replace (2 + len (c_val c) + len (concat (map ser_cap cs)) - (2 + len (c_val c)))
      with (len (concat (map ser_cap cs))) by lia.
    rewrite IH by (assumption || (cbn in Hf; lia) || lia).
    f_equal. f_equal. f_equal. lia.
Qed.

Lemma length_caps_le cs : (length cs <= length (concat (map ser_cap cs)))%nat.
Proof.
  induction cs as [|c cs IH]; [cbn; lia|]. cbn [map concat length]. rewrite app_length.
  unfold ser_cap at 1. cbn [app length]. lia.
Qed.

Lemma length_params_le ps : (length ps <= length (concat (map ser_param ps)))%nat.
Proof.
  induction ps as [|p ps IH]; [cbn; lia|]. cbn [map concat length]. rewrite app_length.
  destruct p; cbn [ser_param app length]; lia.
Qed.

Definition param_caps (p : param) : list cap := match p with PCaps cs => cs | POther _ _ => [] end.

Lemma read_opts_ser ps : forall fuel extra r,
  Forall caps_only ps -> (length ps < fuel)%nat ->
  read_opts fuel (concat (map ser_param ps) ++ extra) (len (concat (map ser_param ps))) r =
  (None, extra, 0, fold_left step_cap (concat (map param_caps ps)) r).
Proof.
  induction ps as [|p ps IH]; intros fuel extra r Hwf Hf.
  - destruct fuel as [|fuel]; [cbn in Hf; lia|]. cbn [map concat app fold_left].
    cbn [read_opts]. rewrite got1. change (len (@nil N)) with 0.
    replace (N.min 0 (N.min 2 (len extra))) with 0 by lia. reflexivity.
  - inversion Hwf as [|? ? (cs & -> & Hcs) Hps]; subst. destruct fuel as [|fuel]; [cbn in Hf; lia|].
    cbn [map concat param_caps ser_param]. set (B := concat (map ser_cap cs)).
    set (T := concat (map ser_param ps)).
    rewrite fold_left_app.
    replace (([2; len B] ++ B) ++ T) with (2 :: len B :: B ++ T) by reflexivity.
    cbn [app]. cbn [read_opts]. rewrite got1.
    assert (Hl : len (2 :: len B :: B ++ T) = 2 + len B + len T) by (rewrite !len_cons, len_app; lia).
    assert (Hl' : len (2 :: len B :: (B ++ T) ++ extra) = 2 + len B + len T + len extra)
      by (rewrite !len_cons, !len_app; lia).
    rewrite Hl.
    replace (N.min (2 + len B + len T) (N.min 2 (len (2 :: len B :: (B ++ T) ++ extra)))) with 2 by lia.
    change (takeN 2 (2 :: len B :: (B ++ T) ++ extra)) with [2; len B].
    change (dropN 2 (2 :: len B :: (B ++ T) ++ extra)) with ((B ++ T) ++ extra).
    cbn [N.eqb Pos.eqb nth negb]. rewrite <- app_assoc.
    assert (Hrc := read_caps_ser cs (S (length (B ++ T ++ extra))) (T ++ extra) (2 + len B + len T - 2) r Hcs).
    fold B in Hrc. rewrite Hrc; [| |lia].
    2:{ rewrite app_length. pose proof (length_caps_le cs) as Hle. fold B in Hle. lia. }
    fold B. cbn [N.eqb]. cbv iota.
    replace (2 + len B + len T - 2 - len B) with (len T) by lia.
    unfold T. rewrite IH by (assumption || (cbn in Hf; lia)). reflexivity.
Qed.

(* the accumulated result is what RFC 5492/6793/4760 say the OPEN means *)
Lemma fold_step_cap cs : forall r, Forall wf_cap cs ->
  fold_left step_cap cs r =
  {| r_asn := fold_left (fun acc c => match cap_as4 c with Some a => a | None => acc end) cs (r_asn r);
     r_hold := r_hold r;
     r_mp4 := r_mp4 r || existsb (cap_is_mp 1 1) cs;
     r_mp6 := r_mp6 r || existsb (cap_is_mp 2 1) cs;
     r_fbasn := r_fbasn r || existsb (fun c => match cap_as4 c with Some _ => true | None => false end) cs |}.
Proof.
  induction cs as [|c cs IH]; intros r Hwf.
  - cbn. rewrite !orb_false_r. destruct r; reflexivity.
  - inversion Hwf as [|? ? Hc Hcs]; subst. cbn [fold_left existsb]. rewrite IH by assumption.
    unfold step_cap, cap_as4, cap_is_mp. unfold wf_cap in Hc.
    destruct (c_code c =? 65) eqn:E65.
    + rewrite Hc by lia. replace (c_code c =? 1) with false by lia.
      cbn [N.eqb Pos.eqb andb orb r_asn r_hold r_mp4 r_mp6 r_fbasn]. rewrite orb_true_r. reflexivity.
    + destruct (c_code c =? 1) eqn:E1.
      * rewrite Hc by lia. cbn [N.eqb Pos.eqb andb orb r_asn r_hold r_mp4 r_mp6 r_fbasn].
        rewrite !orb_assoc. reflexivity.
      * cbn [andb orb]. reflexivity.
Qed.

Lemma open_caps_param o : open_caps o = concat (map param_caps (o_params o)).
Proof. reflexivity. Qed.

Lemma caps_only_wf ps : Forall caps_only ps -> Forall wf_cap (concat (map param_caps ps)).
Proof.
  induction 1 as [|p ps (cs & -> & Hcs) Hps IH]; [constructor|]. cbn [map concat param_caps].
  apply Forall_app. split; assumption.
Qed.

(* For every well-formed OPEN (RFC 4271 4.2; [dec_msg] accepts it, C16_dec_ser)
   whose optional parameters are all capabilities, followed by ANY further
   bytes on the stream: readOpen succeeds, reports [understood o], and consumes
   exactly the message. *)
Theorem read_open_correct o extra :
  wf_msg true (MOpen o) -> Forall caps_only (o_params o) ->
  read_open (ser_msg true (MOpen o) ++ extra) = (ROk (understood o), len (ser_msg true (MOpen o))).
Proof.
  intros [Hlen (Hv & Hh & Hh' & Ha & Hid & _)] Hps.
  rewrite ser_msg_len in Hlen. rewrite ser_msg_len.
  unfold ser_msg. cbn [ser_body snd] in *.
  set (P := concat (map ser_param (o_params o))) in *.
  destruct (o_id o) as [|i1 [|i2 [|i3 [|i4 [|]]]]] eqn:Eid;
    try (exfalso; unfold len in Hid; cbn [length] in Hid; lia). clear Hid.
  set (body := [o_ver o] ++ u16 (o_asn o) ++ u16 (o_hold o) ++ [i1; i2; i3; i4] ++ [len P] ++ P) in *.
  assert (Hb : len body = 10 + len P) by (unfold body; rewrite !len_app, !len_u16; cbn [len length N.of_nat]; lia).
  set (L := 19 + len body) in *.
  unfold read_open, read_open_gen. rewrite got0.
  set (bs := (marker ++ u16 L ++ [1] ++ body) ++ extra).
  assert (Hbs : len bs = L + len extra).
  { unfold bs. rewrite !len_app, len_marker, len_u16. cbn [len length N.of_nat]. unfold L. lia. }
  replace (N.min 19 (len bs)) with 19 by lia.
  change (full_err 19 19) with (@None rerr). cbv iota.
  change (takeN 19 bs) with (marker ++ u16 L ++ [1]).
  change (dropN 19 bs) with (body ++ extra).
  change (forallb (N.eqb 255) (firstn 16 (marker ++ u16 L ++ [1]))) with true.
  change (nth 18 (marker ++ u16 L ++ [1]) 0) with 1.
  change (be (firstn 2 (skipn 16 (marker ++ u16 L ++ [1]))) 0) with (b1 L * 256 + b0 L).
  rewrite u16_val by lia.
  cbn [negb N.eqb Pos.eqb]. cbv iota.
  replace (L <? 29) with false by lia.
  rewrite got1.
  replace (N.min (L - 19) (N.min 10 (len (body ++ extra)))) with 10 by (rewrite len_app; lia).
  change (full_err 10 10) with (@None rerr). cbv iota.
  change (takeN 10 (body ++ extra)) with ([o_ver o] ++ u16 (o_asn o) ++ u16 (o_hold o) ++ [i1; i2; i3; i4] ++ [len P]).
  change (dropN 10 (body ++ extra)) with (P ++ extra).
  change (nth 0 ([o_ver o] ++ u16 (o_asn o) ++ u16 (o_hold o) ++ [i1; i2; i3; i4] ++ [len P]) 0) with (o_ver o).
  change (be (firstn 2 (skipn 1 ([o_ver o] ++ u16 (o_asn o) ++ u16 (o_hold o) ++ [i1; i2; i3; i4] ++ [len P]))) 0)
    with (b1 (o_asn o) * 256 + b0 (o_asn o)).
  change (be (firstn 2 (skipn 3 ([o_ver o] ++ u16 (o_asn o) ++ u16 (o_hold o) ++ [i1; i2; i3; i4] ++ [len P]))) 0)
    with (b1 (o_hold o) * 256 + b0 (o_hold o)).
  rewrite !u16_val by assumption. rewrite Hv. cbn [negb N.eqb Pos.eqb]. cbv iota.
  replace (negb (o_hold o =? 0) && (o_hold o <? 3)) with false by lia.
  replace (L - 19 - 10) with (len P) by lia.
  pose proof (length_params_le (o_params o)) as Hle. fold P in Hle.
  unfold P. rewrite read_opts_ser by (assumption || (fold P; rewrite app_length; lia)). fold P.
  rewrite fold_step_cap by (apply caps_only_wf; assumption).
  rewrite <- open_caps_param. cbn [r_asn r_hold r_mp4 r_mp6 r_fbasn orb].
  f_equal. rewrite Hbs. lia.
Qed.

(* ------------------------------------------------------------ fuel adequacy *)
(* The two `for {}` loops of readOptions / readCapabilities terminate because
   every iteration that continues has consumed at least the 2 header octets.
   Formal proxy: the result of the fuelled functions does not depend on the fuel
   as soon as it exceeds the number of octets left on the stream -- so the
   "out of fuel" branch (O => Some EOther) is never the one that answers in
   [read_open], which starts them with S (length s). *)
Lemma length_dropN m s : length (dropN m s) = (length s - N.to_nat m)%nat.
Proof. apply skipn_length. Qed.

Lemma read_caps_fuel f1 : forall f2 s n1 n2 r, (length s < f1)%nat -> (length s < f2)%nat ->
  read_caps f1 s n1 n2 r = read_caps f2 s n1 n2 r.
Proof.
  induction f1 as [|f1 IH]; intros f2 s n1 n2 r H1 H2; [lia|]. destruct f2 as [|f2]; [lia|].
  cbn [read_caps]. rewrite !got2, ?got3.
  remember (N.min n2 (N.min n1 (N.min 2 (len s)))) as m eqn:Em.
  destruct (m =? 0) eqn:E0; [reflexivity|]. destruct (m =? 1) eqn:E1; [reflexivity|].
  assert (Hl : (length (dropN m s) + 2 <= length s)%nat) by (rewrite length_dropN; unfold len in Em; lia).
  destruct (_ || _).
  - destruct (full_err _ _); [reflexivity|].
    match goal with |- (if ?c then _ else _) = _ => destruct c end; [|reflexivity].
    apply IH; rewrite length_dropN; lia.
  - match goal with |- (if ?c then _ else _) = _ => destruct c end; [|reflexivity].
    apply IH; rewrite length_dropN; lia.
Qed.

Lemma read_opts_fuel f1 : forall f2 s n1 r, (length s < f1)%nat -> (length s < f2)%nat ->
  read_opts f1 s n1 r = read_opts f2 s n1 r.
Proof.
  induction f1 as [|f1 IH]; intros f2 s n1 r H1 H2; [lia|]. destruct f2 as [|f2]; [lia|].
  cbn [read_opts]. rewrite !got1.
  remember (N.min n1 (N.min 2 (len s))) as m eqn:Em.
  destruct (m =? 0) eqn:E0; [reflexivity|]. destruct (m =? 1) eqn:E1; [reflexivity|].
  assert (Hl : (length (dropN m s) + 2 <= length s)%nat) by (rewrite length_dropN; unfold len in Em; lia).
  destruct (negb _); [reflexivity|].
  destruct (read_caps _ _ _ _ _) as [[[[e2 s2] n1b] n2b] r2] eqn:Ec.
  destruct e2; [reflexivity|]. destruct (n2b =? 0); [|reflexivity].
  apply read_caps_inv in Ec. destruct Ec as (_ & _ & Hle). unfold len in Hle.
  apply IH; lia.
Qed.

(* in particular: more fuel than readOpen gives them changes nothing *)
Theorem read_fuel_adequate s n1 n2 r extra :
  read_caps (S (length s) + extra) s n1 n2 r = read_caps (S (length s)) s n1 n2 r /\
  read_opts (S (length s) + extra) s n1 r = read_opts (S (length s)) s n1 r.
Proof. split; [apply read_caps_fuel | apply read_opts_fuel]; lia. Qed.

(* ------------------------------------------------------------ capability precedence *)
(* the AS number a reader understands is the one of the LAST 4-octet capability,
   whatever the 2-octet field says -- AS_TRANS or not *)
Lemma understood_asn_last_as4 asn16 hold id cs1 cs2 a :
  a < 4294967296 ->
  (forall c, In c cs2 -> cap_as4 c = None) ->
  r_asn (understood {| o_ver := 4; o_asn := asn16; o_hold := hold; o_id := id;
                       o_params := [PCaps (cs1 ++ {| c_code := 65; c_val := u32 a |} :: cs2)] |}) = a.
Proof.
  intros Ha Hno. unfold understood, open_caps. cbn [o_params o_asn map concat r_asn]. rewrite app_nil_r.
  rewrite fold_left_app. cbn [fold_left].
  assert (E : cap_as4 {| c_code := 65; c_val := u32 a |} = Some a).
  { unfold cap_as4. cbn [c_code c_val]. change (len (u32 a)) with 4. cbn [N.eqb Pos.eqb andb].
    f_equal. unfold u32. cbn [be]. rewrite N.mul_0_l, N.add_0_l. apply u32_val. assumption. }
  rewrite E. clear E.
  induction cs2 as [|c cs2 IH]; [reflexivity|]. cbn [fold_left].
  rewrite (Hno c (or_introl eq_refl)). apply IH. intros c' Hc'. apply Hno. right. assumption.
Qed.
