(* H-sort discharged for the algorithm Go's sort.Slice runs on slices of at most 12 elements:
   the exact index-based model of insertionSort_func (Proofs/CfgPrefix.v [isort_idx]: compare
   positions j and j-1 of the slice being sorted, swap them, move left) with sortedCopy's
   repaired comparator returns a sorted permutation of its input, for every list. *)
From Coq Require Import NArith Bool List Lia ZifyN ZifyNat ZifyBool Permutation Sorted Arith.
From Verif Require Import Model.Cfg Model.CfgFull Proofs.CfgSortP Proofs.CfgPrefix Proofs.CfgFullP.
Local Open Scope N_scope.

Section Go.
  Context {A : Type} (key : A -> N) (d : A).

  (* sortedCopy's comparator after fix F1: it reads the slice being sorted *)
  Definition less_cur (cur : list A) (i j : nat) : bool := key (nth i cur d) <? key (nth j cur d).

  (* insertion into the reversed sorted prefix (head = left neighbour) *)
  Fixpoint lins (x : A) (rp : list A) : list A :=
    match rp with
    | [] => [x]
    | y :: r => if key x <? key y then y :: lins x r else x :: rp
    end.

  Lemma lins_length x rp : length (lins x rp) = S (length rp).
  Proof. induction rp as [|y r IH]; cbn; [reflexivity|]. destruct (key x <? key y); cbn; [rewrite IH|]; reflexivity. Qed.

  Lemma lins_perm x rp : Permutation (lins x rp) (x :: rp).
  Proof.
    induction rp as [|y r IH]; cbn; [reflexivity|]. destruct (key x <? key y); [|reflexivity].
    rewrite IH. apply perm_swap.
  Qed.

  Lemma nth_mid (pre post : list A) x : nth (length pre) (pre ++ x :: post) d = x.
  Proof. rewrite app_nth2 by lia. rewrite Nat.sub_diag. reflexivity. Qed.

  Lemma swap_mid (pre post : list A) y x :
    swap d (pre ++ y :: x :: post) (S (length pre)) = pre ++ x :: y :: post.
  Proof.
    unfold swap.
    rewrite firstn_app, firstn_all, Nat.sub_diag. cbn [firstn]. rewrite app_nil_r.
    replace (pre ++ y :: x :: post) with ((pre ++ [y]) ++ x :: post) at 1 by (rewrite <- app_assoc; reflexivity).
    replace (S (length pre)) with (length (pre ++ [y])) at 1 by (rewrite app_length; cbn; lia).
    rewrite nth_mid. rewrite nth_mid.
    replace (pre ++ y :: x :: post) with ((pre ++ [y; x]) ++ post) by (rewrite <- app_assoc; reflexivity).
    replace (S (S (length pre))) with (length (pre ++ [y; x])) by (rewrite app_length; cbn; lia).
    rewrite skipn_app, skipn_all, Nat.sub_diag. reflexivity.
  Qed.

  Lemma inner_spec rp : forall x post,
    inner d less_cur (rev rp ++ x :: post) (length rp) = rev (lins x rp) ++ post.
  Proof.
    induction rp as [|y r IH]; intros x post; cbn [inner length lins]; [reflexivity|].
    assert (E : rev (y :: r) ++ x :: post = rev r ++ y :: x :: post) by (cbn; rewrite <- app_assoc; reflexivity).
    rewrite E. unfold less_cur at 1.
    replace (nth (S (length r)) (rev r ++ y :: x :: post) d) with x.
    2:{ replace (rev r ++ y :: x :: post) with ((rev r ++ [y]) ++ x :: post) by (rewrite <- app_assoc; reflexivity).
        replace (S (length r)) with (length (rev r ++ [y])) by (rewrite app_length, rev_length; cbn; lia).
        rewrite nth_mid. reflexivity. }
    replace (nth (length r) (rev r ++ y :: x :: post) d) with y.
    2:{ rewrite <- (rev_length r). rewrite nth_mid. reflexivity. }
    destruct (key x <? key y).
    - rewrite <- (rev_length r) at 1. rewrite swap_mid. rewrite <- (rev_length r) at 1.
      rewrite rev_length. rewrite IH. cbn [rev]. rewrite <- app_assoc. reflexivity.
    - cbn [rev]. rewrite <- !app_assoc. reflexivity.
  Qed.

  Lemma outer_spec post : forall rp,
    fold_left (fun cur i => inner d less_cur cur i) (seq (length rp) (length post)) (rev rp ++ post)
    = rev (fold_left (fun rp x => lins x rp) post rp).
  Proof.
    induction post as [|x post' IH]; intros rp; cbn [length seq fold_left].
    - rewrite app_nil_r. reflexivity.
    - rewrite inner_spec. rewrite <- (lins_length x rp). apply IH.
  Qed.

  Definition go_isort (l : list A) : list A := isort_idx d less_cur l.

  Lemma go_isort_spec a t : go_isort (a :: t) = rev (fold_left (fun rp x => lins x rp) t [a]).
  Proof.
    unfold go_isort, isort_idx. cbn [length]. rewrite Nat.sub_succ, Nat.sub_0_r.
    exact (outer_spec t [a]).
  Qed.

  (* the reversed prefix is sorted downwards *)
  Definition desc (rp : list A) : Prop := StronglySorted (fun u v => key v <= key u) rp.

  Lemma lins_desc x rp : desc rp -> desc (lins x rp).
  Proof.
    unfold desc. induction rp as [|y r IH]; intros H; cbn.
    - constructor; constructor.
    - inversion H as [|? ? Hr Fy]; subst. destruct (key x <? key y) eqn:E.
      + apply N.ltb_lt in E. constructor; [auto|].
        eapply Permutation_Forall; [symmetry; apply lins_perm|]. constructor; [lia|assumption].
      + apply N.ltb_ge in E. constructor; [assumption|]. constructor; [assumption|].
        eapply Forall_impl; [|exact Fy]. cbn. intros; lia.
  Qed.

  Lemma fold_lins_desc post : forall rp, desc rp -> desc (fold_left (fun rp x => lins x rp) post rp).
  Proof. induction post; intros rp H; cbn; [assumption|]. apply IHpost, lins_desc, H. Qed.

  Lemma fold_lins_perm post : forall rp, Permutation (fold_left (fun rp x => lins x rp) post rp) (rev post ++ rp).
  Proof.
    induction post as [|x post' IH]; intros rp; cbn; [reflexivity|].
    rewrite IH, lins_perm, <- app_assoc. cbn. apply Permutation_app_head. reflexivity.
  Qed.

  Lemma desc_rev rp : desc rp -> StronglySorted (kle key) (rev rp).
  Proof.
    unfold desc. induction rp as [|y r IH]; intros H; cbn; [constructor|].
    inversion H as [|? ? Hr Fy]; subst. specialize (IH Hr).
    (* append the largest element at the end *)
    clear Hr H. assert (Fy' : Forall (fun v => key v <= key y) (rev r))
      by (eapply Permutation_Forall; [apply Permutation_rev|assumption]).
    revert IH Fy'. generalize (rev r). intros l. induction l as [|z l IHl]; intros S F; cbn.
    - constructor; constructor.
    - inversion S; subst. inversion F; subst. constructor; [auto|].
      apply Forall_app. split; [assumption|]. constructor; [assumption|constructor].
  Qed.

  Theorem go_isort_sorts l : Permutation (go_isort l) l /\ StronglySorted (kle key) (go_isort l).
  Proof.
    destruct l as [|a t]; [split; constructor|]. rewrite go_isort_spec. split.
    - rewrite <- Permutation_rev, fold_lins_perm. rewrite <- Permutation_rev at 1.
      apply Permutation_sym, Permutation_cons_append.
    - apply desc_rev, fold_lins_desc. constructor; constructor.
  Qed.
End Go.

(* sortedCopy as Go runs it for n <= 12, as a [sorter] *)
Definition go_sorter : sorter :=
  fun A key l => match l with [] => [] | d :: _ => go_isort key d l end.

Theorem go_sorter_hsort : hsort go_sorter.
Proof.
  intros A key l _. unfold go_sorter. destruct l as [|d t]; [split; constructor|].
  apply go_isort_sorts.
Qed.

(* the repaired sortedCopy of Proofs/CfgPrefix.v is this instance *)
Lemma sorted_copy_fixed_is_go_isort l : sorted_copy_fixed l = go_isort (fun x => x) 0 l.
Proof. reflexivity. Qed.

(* the length bound is not used by the proof (the model of insertion sort sorts any list); it
   delimits where Go actually runs insertion sort *)
Lemma full_to_config_deterministic_isort iter iter' m a b :
  fsmall a -> map_order iter -> map_order iter' -> fnodup a -> fperm a b ->
  full_to_config go_sorter iter m a = full_to_config go_sorter iter' m b.
Proof. intros. apply full_to_config_deterministic; auto using go_sorter_hsort. Qed.

Lemma to_config_deterministic_isort {O} iter iter' (other : resources -> option O) vcfg r r' :
  rsmall r -> map_order iter -> map_order iter' -> nodup_names r -> perm_res r r' ->
  to_config go_sorter (cfg_for iter other vcfg) r = to_config go_sorter (cfg_for iter' other vcfg) r'.
Proof. intros. apply to_config_deterministic; auto using go_sorter_hsort. Qed.
