(* Availability is antitone in occupancy: when one service's holdings grow (same
   ports, same sharing key) and nothing else changes, every address that is
   refused to another requester stays refused, every pool that cannot serve it
   still cannot, and a failing Allocate / AllocateFromPool / Assign still fails.
   This is the allocator half of the quiescence-level no-starvation theorem
   (Proofs/CtrlStarveP.v). *)
From Coq Require Import List NArith Bool Lia.
From Verif Require Import Model.Net Model.Alloc Proofs.NetP Proofs.AllocP Proofs.AllocPolicyP.
Import ListNotations.
Local Open Scope N_scope.

(* a' is a with the holdings of t extended *)
Definition ext (t : svc) (a a' : st) : Prop :=
  s_pools a' = s_pools a /\
  (forall u, u <> t -> get_alloc a' u = get_alloc a u) /\
  (forall al, get_alloc a t = Some al -> a_ips al <> [] ->
     exists al', get_alloc a' t = Some al' /\ incl (a_ips al) (a_ips al') /\
                 a_ports al' = a_ports al /\ a_key al' = a_key al).

Lemma ext_refl t a : ext t a a.
Proof.
  split; [reflexivity|]. split; [auto|]. intros al H _. exists al. repeat split; auto. apply incl_refl.
Qed.

(* the general form: same pools, and every holding of a is a holding of a' of the
   same service with the same ports and key *)
Definition covers (a a' : st) : Prop :=
  s_pools a' = s_pools a /\
  forall e x, In e (allocated a) -> In x (a_ips (snd e)) ->
    exists e', In e' (allocated a') /\ fst e' = fst e /\ In x (a_ips (snd e')) /\
               a_ports (snd e') = a_ports (snd e) /\ a_key (snd e') = a_key (snd e).

Lemma ext_covers t a a' : Inv a -> Inv a' -> ext t a a' -> covers a a'.
Proof.
  intros Ia Ia' E. split; [exact (proj1 E)|]. intros e x.
  destruct E as (_ & Eo & Et). destruct e as [u al]. cbn. intros Hin Hx.
  apply (get_alloc_In a u al (proj1 Ia)) in Hin.
  destruct (N.eq_dec u t) as [->|Hne].
  - assert (Hne : a_ips al <> []) by (intros Hn; rewrite Hn in Hx; destruct Hx).
    destruct (Et al Hin Hne) as (al' & Hg & Hi & Hp & Hk).
    exists (t, al'). cbn. split; [apply (get_alloc_In a' t al' (proj1 Ia')); exact Hg|]. auto.
  - exists (u, al). cbn. split; [apply (get_alloc_In a' u al (proj1 Ia')); rewrite (Eo u Hne); exact Hin|]. auto.
Qed.

(* a sub-state: every allocation of a is an allocation of a' *)
Definition sub (a a' : st) : Prop :=
  s_pools a' = s_pools a /\ forall u al, get_alloc a u = Some al -> get_alloc a' u = Some al.
Lemma sub_covers a a' : Inv a -> Inv a' -> sub a a' -> covers a a'.
Proof.
  intros Ia Ia' [Hp Hs]. split; [exact Hp|]. intros [u al] x Hin Hx. cbn in *.
  exists (u, al). cbn. split; [|auto].
  apply (get_alloc_In a' u al (proj1 Ia')). apply Hs. apply (get_alloc_In a u al (proj1 Ia)). exact Hin.
Qed.

Section Mono.
Variables (a a' : st).
Hypothesis Ia : Inv a.
Hypothesis Ia' : Inv a'.
Hypothesis E : covers a a'.

Lemma check_sharing_anti s x ports k :
  check_sharing a' s x ports k = true -> check_sharing a s x ports k = true.
Proof.
  rewrite (check_sharing_iff a' s x ports k Ia'), (check_sharing_iff a s x ports k Ia).
  intros H e He Hne Hx. destruct (proj2 E e x He Hx) as (e' & He' & Hf & Hx' & Hp & Hk).
  rewrite <- Hp, <- Hk. apply H; [exact He'|congruence|exact Hx'].
Qed.

Lemma addr_free_anti s r p x : addr_free a' s r p x = true -> addr_free a s r p x = true.
Proof.
  unfold addr_free. rewrite !andb_true_iff. intros [H1 H2]. split; [exact H1|apply check_sharing_anti; exact H2].
Qed.

Lemma has_free_anti s r p f : has_free a s r p f = false -> has_free a' s r p f = false.
Proof.
  intros H. destruct (has_free a' s r p f) eqn:H'; [|reflexivity]. exfalso.
  unfold has_free in H'. destruct (first_free a' s r p f) as [x|] eqn:Ef; [|discriminate].
  apply first_free_some in Ef. destruct Ef as (Hf & Hin & Hfree).
  apply addr_free_anti in Hfree. rewrite (has_free_false a s r p f H x Hf Hin) in Hfree. discriminate.
Qed.

Lemma classify_anti s r p : classify a s r p = Nothing -> classify a' s r p = Nothing.
Proof.
  unfold classify. pose proof (has_free_anti s r p F4) as H4. pose proof (has_free_anti s r p F6) as H6.
  unfold primary, secondary.
  destruct (r_fam r), (r_pol r), (r_first6 r);
    destruct (has_free a s r p F4), (has_free a s r p F6); cbn; try discriminate; intros _;
    rewrite ?(H4 eq_refl), ?(H6 eq_refl); cbn; try reflexivity.
  all: rewrite andb_false_r; reflexivity.
Qed.

Lemma best_class_all_nothing (b : st) s r l :
  (forall p, In p l -> classify b s r p = Nothing) -> best_class b s r l = Nothing.
Proof.
  unfold best_class. induction l as [|q l IH]; intros H; cbn [fold_left]; [reflexivity|].
  rewrite (H q (or_introl eq_refl)). cbn. apply IH. intros p Hp. apply H. right. exact Hp.
Qed.

Lemma best_class_anti s r l : best_class a s r l = Nothing -> best_class a' s r l = Nothing.
Proof.
  intros H. apply best_class_all_nothing. intros p Hp. apply classify_anti.
  exact (best_class_nothing a s r l H p Hp).
Qed.

Lemma allocate_none_anti s r : allocate_spec a s r None = true -> allocate_spec a' s r None = true.
Proof.
  unfold allocate_spec. destruct E as (Ep & _). rewrite Ep, !andb_true_iff, !class_eqb_eq.
  intros [H1 H2]. split; apply best_class_anti; assumption.
Qed.

Lemma pool_offer_anti s r p : pool_offer a s r p = None -> pool_offer a' s r p = None.
Proof.
  unfold pool_offer. pose proof (has_free_anti s r p F4) as H4. pose proof (has_free_anti s r p F6) as H6.
  unfold has_free in H4, H6.
  destruct (first_free a s r p F4), (first_free a s r p F6), (r_fam r), (r_pol r); cbn; try discriminate; intros _;
    repeat match goal with
    | H : (false = false -> _) |- _ => specialize (H eq_refl)
    | H : match ?x with Some _ => true | None => false end = false |- _ => destruct x; [discriminate|clear H]
    end; try reflexivity;
    destruct (first_free a' s r p F4), (first_free a' s r p F6); reflexivity.
Qed.

Lemma from_pool_none_anti s r pn : from_pool_spec a s r pn None = true -> from_pool_spec a' s r pn None = true.
Proof.
  unfold from_pool_spec. destruct E as (Ep & _). rewrite Ep.
  destruct (find_pool (s_pools a) pn) as [p|]; [|auto].
  destruct (pool_offer a s r p) eqn:Eo.
  - intros H. destruct (pool_offer a' s r p); [exact H|reflexivity].
  - intros _. rewrite (pool_offer_anti s r p Eo). reflexivity.
Qed.

(* Assign of explicitly requested addresses: same pool decision, sharing only gets harder *)
Lemma assign_check_anti s r ips p' :
  assign_check a' s r ips = inl p' -> assign_check a s r ips = inl p'.
Proof.
  unfold assign_check. destruct E as (Ep & _). rewrite Ep.
  destruct (pool_for (by_name (s_pools a)) ips) as [p|]; [|auto].
  destruct (negb (compatible p r)); [auto|].
  destruct (2 <? N.of_nat (length ips)); [auto|].
  destruct (same_family2 ips); [auto|].
  destruct (forallb (fun x => check_sharing a' s x (r_ports r) (r_key r)) ips) eqn:F'; cbn [negb]; [|discriminate].
  assert (F : forallb (fun x => check_sharing a s x (r_ports r) (r_key r)) ips = true).
  { apply forallb_forall. intros x Hx. apply check_sharing_anti. exact (proj1 (forallb_forall _ _) F' x Hx). }
  rewrite F. auto.
Qed.

End Mono.
