(* Semantics of one neighbor block (Model/FrrSem.v on the items of
   FrrRender.neighbor_filters): generic evaluation lemmas, exact content of each
   logical prefix-list, and the evaluation of the out route-map. *)
From Coq Require Import String NArith Bool List Sorted Lia.
From Verif Require Import Model.FrrSpec Proofs.FrrSortP Proofs.FrrListsP Proofs.FrrShapeP Proofs.FrrP.
Import ListNotations.
Open Scope string_scope.

(* ---------- prefix-list evaluation ---------- *)
Lemma pl_lines_in c a nm pm q :
  In (pm, q) (pl_lines c a nm) <-> exists sq, In (IPl a nm sq pm q) (items c).
Proof.
  unfold pl_lines. rewrite in_flat_map. split.
  - intros (it & Hit & H). destruct it as [|a' n' sq pm' q']; [contradiction|].
    destruct (afi_eqb a a' && String.eqb n' nm) eqn:E; [|contradiction].
    apply andb_true_iff in E as [E1 E2]. apply afi_eqb_eq in E1. apply String.eqb_eq in E2. subst.
    destruct H as [H|[]]. inversion H; subst. exists sq; assumption.
  - intros (sq & H). exists (IPl a nm sq pm q). split; [assumption|].
    assert (afi_eqb a a = true) as -> by (destruct a; reflexivity). rewrite String.eqb_refl. left; reflexivity.
Qed.

Lemma pl_eval_permit ls p : (forall l, In l ls -> exists q, l = (true, Some q)) ->
  (pl_eval ls p = true <-> exists q, In (true, Some q) ls /\ pfx_eqb q p = true).
Proof.
  intros H. unfold pl_eval. split.
  - destruct (find (line_matches p) ls) as [l|] eqn:F; [|discriminate]. intros _.
    apply find_some in F as [Hin Hm]. destruct (H l Hin) as (q & ->). exists q; split; [assumption|exact Hm].
  - intros (q & Hin & Hq). destruct (find (line_matches p) ls) as [l|] eqn:F.
    + apply find_some in F as [Hin' _]. destruct (H l Hin') as (q' & ->). reflexivity.
    + exfalso. pose proof (find_none _ _ F _ Hin) as X. unfold line_matches in X. simpl in X. congruence.
Qed.

Lemma pl_eval_deny ls p : (forall l, In l ls -> l = (false, None)) -> pl_eval ls p = false.
Proof.
  intros H. unfold pl_eval. destruct (find (line_matches p) ls) as [l|] eqn:F; [|reflexivity].
  apply find_some in F as [Hin _]. rewrite (H l Hin). reflexivity.
Qed.

Lemma match_nonempty {A} (ls : list A) (um r : bool) (f : list A -> bool) :
  ls <> [] -> (match ls with [] => um | _ => f ls end) = f ls.
Proof. destruct ls; [congruence|reflexivity]. Qed.

Lemma match_ok_afi um c p a nm : afi_eqb a (pfx_afi p) = false -> match_ok um c p (a, nm) = false.
Proof. unfold match_ok; simpl. intros ->. reflexivity. Qed.

Lemma match_ok_eval um c p a nm : afi_eqb a (pfx_afi p) = true -> pl_lines c a nm <> [] ->
  match_ok um c p (a, nm) = pl_eval (pl_lines c a nm) p.
Proof.
  unfold match_ok; simpl. intros -> H. destruct (pl_lines c a nm); [congruence|reflexivity].
Qed.

(* ---------- route-map evaluation ---------- *)
Definition pe {X} (a : afi) (nm : X -> string) (st : X -> setc) (x : X) : rme :=
  mk_rme true [(a, nm x)] [st x] true.

Lemma eval_group {X} ft um c a nm st (xs : list X) rest p : forall acc fell,
  eval_rm ft um c (map (pe a nm st) xs ++ rest) p acc fell =
  eval_rm ft um c rest p
    (fold_left (fun ac x => if match_ok um c p (a, nm x) then apply_set ac (st x) else ac) xs acc)
    (fell || existsb (fun x => match_ok um c p (a, nm x)) xs).
Proof.
  induction xs as [|x xs IH]; intros acc fell; simpl.
  - rewrite orb_false_r. reflexivity.
  - destruct (match_ok um c p (a, nm x)) eqn:M; simpl.
    + rewrite IH. simpl. rewrite orb_true_r. reflexivity.
    + rewrite IH. reflexivity.
Qed.

Lemma eval_finals ft um c n4 n6 p acc fell :
  eval_rm ft um c [mk_rme true [(A4, n4)] [] false; mk_rme true [(A6, n6)] [] false] p acc fell =
  if match_ok um c p (A4, n4) then Some acc
  else if match_ok um c p (A6, n6) then Some acc
  else if fell && ft then Some acc else None.
Proof.
  simpl. destruct (match_ok um c p (A4, n4)); simpl; [reflexivity|].
  destruct (match_ok um c p (A6, n6)); reflexivity.
Qed.

(* effect of a group on the accumulated attributes *)
Lemma add_s_in c x l : In c (add_s x l) <-> c = x \/ In c l.
Proof.
  unfold add_s, mem_s. destruct (existsb (String.eqb x) l) eqn:E.
  - apply existsb_exists in E as (y & Hy & Ey). apply String.eqb_eq in Ey. subst y.
    split; [auto|intros [->|H]; assumption].
  - rewrite in_app_iff. simpl. intuition.
Qed.

Lemma fold_add_s_in c l : In c (fold_right add_s [] l) <-> In c l.
Proof.
  induction l as [|x l IH]; simpl; [tauto|]. rewrite add_s_in, IH. intuition.
Qed.

Lemma fold_lp (h : N -> bool) xs v : forall acc,
  (forall x, In x xs -> h x = true -> x = v) ->
  let r := fold_left (fun ac x => if h x then apply_set ac (SetLP x) else ac) xs acc in
  at_comm r = at_comm acc /\ at_lcomm r = at_lcomm acc /\
  at_lp r = if existsb h xs then Some v else at_lp acc.
Proof.
  induction xs as [|x xs IH]; intros acc Hu; simpl; [auto|].
  assert (Hu': forall y, In y xs -> h y = true -> y = v) by (intros y Hy; apply Hu; right; assumption).
  destruct (h x) eqn:Hx; simpl.
  - assert (x = v) by (apply Hu; [left; reflexivity|assumption]). subst x.
    destruct (IH (apply_set acc (SetLP v)) Hu') as (A & B & C). simpl in *. rewrite A, B, C.
    destruct (existsb h xs); auto.
  - apply IH; assumption.
Qed.

Lemma fold_lp_pres (h : N -> bool) xs : forall acc,
  let r := fold_left (fun ac x => if h x then apply_set ac (SetLP x) else ac) xs acc in
  at_comm r = at_comm acc /\ at_lcomm r = at_lcomm acc.
Proof.
  induction xs as [|x xs IH]; intros acc; cbn [fold_left]; [auto|].
  destruct (h x); [|apply IH]. destruct (IH (apply_set acc (SetLP x))) as (A & B). rewrite A, B. auto.
Qed.

Lemma fold_comm (h : string -> bool) xs : forall acc,
  let r := fold_left (fun ac x => if h x then apply_set ac (SetComm x) else ac) xs acc in
  at_lp r = at_lp acc /\ at_lcomm r = at_lcomm acc /\
  forall c, In c (at_comm r) <-> In c (at_comm acc) \/ (In c xs /\ h c = true).
Proof.
  induction xs as [|x xs IH]; intros acc; cbn [fold_left In].
  - repeat split; tauto.
  - destruct (h x) eqn:Hx.
    + destruct (IH (apply_set acc (SetComm x))) as (A & B & C). rewrite A, B. cbn [apply_set at_lp at_lcomm at_comm] in *.
      split; [reflexivity|]. split; [reflexivity|]. intros c. rewrite C, add_s_in. split.
      * intros [[->|H]|[H1 H2]]; auto.
      * intros [H|[[->|H1] H2]]; auto.
    + destruct (IH acc) as (A & B & C). rewrite A, B. split; [reflexivity|]. split; [reflexivity|].
      intros c. rewrite C. split.
      * intros [H|[H1 H2]]; auto.
      * intros [H|[[->|H1] H2]]; auto. congruence.
Qed.

Lemma fold_lcomm (h : string -> bool) xs : forall acc,
  let r := fold_left (fun ac x => if h x then apply_set ac (SetLComm x) else ac) xs acc in
  at_lp r = at_lp acc /\ at_comm r = at_comm acc /\
  forall c, In c (at_lcomm r) <-> In c (at_lcomm acc) \/ (In c xs /\ h c = true).
Proof.
  induction xs as [|x xs IH]; intros acc; cbn [fold_left In].
  - repeat split; tauto.
  - destruct (h x) eqn:Hx.
    + destruct (IH (apply_set acc (SetLComm x))) as (A & B & C). rewrite A, B. cbn [apply_set at_lp at_lcomm at_comm] in *.
      split; [reflexivity|]. split; [reflexivity|]. intros c. rewrite C, add_s_in. split.
      * intros [[->|H]|[H1 H2]]; auto.
      * intros [H|[[->|H1] H2]]; auto.
    + destruct (IH acc) as (A & B & C). rewrite A, B. split; [reflexivity|]. split; [reflexivity|].
      intros c. rewrite C. split.
      * intros [H|[H1 H2]]; auto.
      * intros [H|[[->|H1] H2]]; auto. congruence.
Qed.

(* ---------- the lines of one neighbor block ---------- *)
Definition block (n : nconf) : list item := map snd (neighbor_filters n).

Lemma block_ipl n a nm sq pm q : In (IPl a nm sq pm q) (block n) ->
  let s := nc_s n in
  (exists y, In y (nc_advs n) /\ a = pfx_afi (ac_pfx y) /\ q = Some (ac_pfx y) /\ pm = true /\
     (nm = pl_allowed s \/ (nm = pl_lp s (ac_lp y) /\ ac_lp y <> 0%N) \/
      (exists c, In c (ac_comms y) /\ nm = pl_comm s c) \/ (exists c, In c (ac_lcomms y) /\ nm = pl_lcomm s c)))
  \/ (nm = pl_allowed s /\ pm = false /\ q = None /\
      ((a = A4 /\ nc_has4 n = false) \/ (a = A6 /\ nc_has6 n = false))).
Proof.
  unfold block, neighbor_filters. rewrite !map_app, !in_app_iff, !map_map. simpl. intros H.
  repeat (destruct H as [H|H]); try contradiction; try discriminate.
  all: try (apply in_map_iff in H as (x & E & _); discriminate).
  - left. apply in_map_iff in H as (x & E & Hx). apply in_flat_map in Hx as (y & Hy & Hx).
    exists y. split; [assumption|]. unfold adv_lines in Hx. rewrite !in_app_iff in Hx.
    destruct Hx as [Hx|[Hx|[Hx|Hx]]].
    + destruct (N.eqb (ac_lp y) 0) eqn:Z; [contradiction|]. apply N.eqb_neq in Z. destruct Hx as [<-|[]].
      simpl in E. inversion E; subst. repeat split; auto.
    + apply in_map_iff in Hx as (c & <- & Hc). simpl in E. inversion E; subst. repeat split; auto.
      right; right; left. exists c; auto.
    + apply in_map_iff in Hx as (c & <- & Hc). simpl in E. inversion E; subst. repeat split; auto.
      right; right; right. exists c; auto.
    + destruct Hx as [<-|[]]. simpl in E. inversion E; subst. repeat split; auto.
  - right. destruct (nc_has4 n) eqn:Hh; simpl in H; [contradiction|]. destruct H as [H|[]]. inversion H; subst. auto 10.
  - right. destruct (nc_has6 n) eqn:Hh; simpl in H; [contradiction|]. destruct H as [H|[]]. inversion H; subst. auto 10.
Qed.

Lemma block_adv_line n y it : In y (nc_advs n) -> In it (map snd (adv_lines (nc_s n) y)) -> In it (block n).
Proof. apply adv_line_in. Qed.

Lemma blk_allowed n y : In y (nc_advs n) ->
  In (IPl (pfx_afi (ac_pfx y)) (pl_allowed (nc_s n)) 0 true (Some (ac_pfx y))) (block n).
Proof.
  intros Hy. apply (block_adv_line n y _ Hy). unfold adv_lines. rewrite !map_app, !in_app_iff. do 3 right. left. reflexivity.
Qed.

Lemma blk_lp n y : In y (nc_advs n) -> ac_lp y <> 0%N ->
  In (IPl (pfx_afi (ac_pfx y)) (pl_lp (nc_s n) (ac_lp y)) 0 true (Some (ac_pfx y))) (block n).
Proof.
  intros Hy Hn. apply (block_adv_line n y _ Hy). unfold adv_lines. rewrite !map_app, !in_app_iff. left.
  apply N.eqb_neq in Hn. rewrite Hn. left. reflexivity.
Qed.

Lemma blk_comm n y c : In y (nc_advs n) -> In c (ac_comms y) ->
  In (IPl (pfx_afi (ac_pfx y)) (pl_comm (nc_s n) c) 0 true (Some (ac_pfx y))) (block n).
Proof.
  intros Hy Hc. apply (block_adv_line n y _ Hy). unfold adv_lines. rewrite !map_app, !in_app_iff. right; left.
  rewrite map_map. simpl. apply in_map_iff. exists c; auto.
Qed.

Lemma blk_lcomm n y c : In y (nc_advs n) -> In c (ac_lcomms y) ->
  In (IPl (pfx_afi (ac_pfx y)) (pl_lcomm (nc_s n) c) 0 true (Some (ac_pfx y))) (block n).
Proof.
  intros Hy Hc. apply (block_adv_line n y _ Hy). unfold adv_lines. rewrite !map_app, !in_app_iff. right; right; left.
  rewrite map_map. simpl. apply in_map_iff. exists c; auto.
Qed.

Lemma blk_deny4 n : nc_has4 n = false -> In (IPl A4 (pl_allowed (nc_s n)) 0 false None) (block n).
Proof.
  intros Hf. unfold block, neighbor_filters. rewrite !map_app, !in_app_iff. do 8 right. left. rewrite Hf. left; reflexivity.
Qed.

Lemma blk_deny6 n : nc_has6 n = false -> In (IPl A6 (pl_allowed (nc_s n)) 0 false None) (block n).
Proof.
  intros Hf. unfold block, neighbor_filters. rewrite !map_app, !in_app_iff. do 9 right. left. rewrite Hf. left; reflexivity.
Qed.

(* property_lists_subset_allowed, per block: a prefix of any list of the block is in the allowed list *)
Lemma block_subset_allowed n a nm sq pm q :
  In (IPl a nm sq pm (Some q)) (block n) -> In (IPl a (pl_allowed (nc_s n)) 0 true (Some q)) (block n).
Proof.
  intros H. apply block_ipl in H as [(y & Hy & -> & E & _)|(_ & _ & E & _)]; [|discriminate].
  inversion E; subst. apply blk_allowed; assumption.
Qed.

(* the out route-map of a block *)
Definition out_entries (n : nconf) : list rme :=
  let s := nc_s n in
  map (pe A4 (pl_lp s) SetLP) (nc_lp4 n) ++ map (pe A6 (pl_lp s) SetLP) (nc_lp6 n) ++
  map (pe A4 (pl_lcomm s) SetLComm) (nc_lcomm4 n) ++ map (pe A6 (pl_lcomm s) SetLComm) (nc_lcomm6 n) ++
  map (pe A4 (pl_comm s) SetComm) (nc_comm4 n) ++ map (pe A6 (pl_comm s) SetComm) (nc_comm6 n) ++
  [mk_rme true [(A4, pl_allowed s)] [] false; mk_rme true [(A6, pl_allowed s)] [] false].

Definition rme_of (its : list item) (name : string) : list rme := rm_entries (mk_frr its []) name.

Lemma rme_of_app l1 l2 nm : rme_of (l1 ++ l2) nm = (rme_of l1 nm ++ rme_of l2 nm)%list.
Proof. unfold rme_of, rm_entries; simpl. apply flat_map_app. Qed.

Lemma rme_of_flat_map {A} (g : A -> list item) l nm : rme_of (flat_map g l) nm = flat_map (fun x => rme_of (g x) nm) l.
Proof.
  induction l as [|x l IH]; simpl; [reflexivity|]. rewrite rme_of_app, IH. reflexivity.
Qed.

Lemma rme_of_c c nm : rm_entries c nm = rme_of (items c) nm.
Proof. reflexivity. Qed.

Lemma rme_of_props {X} rm a (nm : X -> string) (st : X -> setc) xs :
  rme_of (map (fun x => IRm rm 0 true [(a, nm x)] [st x] true) xs) rm = map (pe a nm st) xs.
Proof.
  unfold rme_of, rm_entries; simpl. induction xs as [|x xs IH]; simpl; [reflexivity|].
  rewrite String.eqb_refl. simpl. rewrite IH. reflexivity.
Qed.

Lemma rme_of_none its nm : (forall n' sq pm m st nx, In (IRm n' sq pm m st nx) its -> n' <> nm) -> rme_of its nm = [].
Proof.
  unfold rme_of, rm_entries; simpl. induction its as [|it its IH]; intros H; simpl; [reflexivity|].
  rewrite IH by (intros; eapply H; right; eassumption).
  destruct it as [n' sq pm m st nx|]; [|reflexivity].
  destruct (String.eqb n' nm) eqn:E; [|reflexivity]. apply String.eqb_eq in E. exfalso. eapply H; [left; reflexivity|exact E].
Qed.

Lemma block_out_entries n : rme_of (block n) (rm_out (nc_s n)) = out_entries n.
Proof.
  unfold block, neighbor_filters, out_entries. rewrite !map_app, !rme_of_app, !map_map. simpl.
  unfold prop_entry. simpl.
  rewrite !rme_of_props.
  assert (E1: rme_of [IRm (rm_in (nc_s n)) 0 false [] [] false] (rm_out (nc_s n)) = []).
  { apply rme_of_none. intros n' sq pm m st nx [H|[]]. inversion H; subst. apply rm_in_neq_out. }
  assert (E2: rme_of (map snd (flat_map (adv_lines (nc_s n)) (nc_advs n))) (rm_out (nc_s n)) = []).
  { apply rme_of_none. intros n' sq pm m st nx H. exfalso.
    apply in_map_iff in H as (x & E & Hx). apply in_flat_map in Hx as (y & _ & Hy).
    unfold adv_lines in Hy. rewrite !in_app_iff in Hy. destruct Hy as [Hy|[Hy|[Hy|Hy]]].
    - destruct (N.eqb (ac_lp y) 0); [contradiction|]. destruct Hy as [<-|[]]. discriminate.
    - apply in_map_iff in Hy as (c & <- & _). discriminate.
    - apply in_map_iff in Hy as (c & <- & _). discriminate.
    - destruct Hy as [<-|[]]. discriminate. }
  assert (E3: forall (b : bool) a, rme_of (map snd (if b then [] else [(Counter (pl_allowed (nc_s n)), IPl a (pl_allowed (nc_s n)) 0 false None)])) (rm_out (nc_s n)) = []).
  { intros b a. apply rme_of_none. intros n' sq pm m st nx H. destruct b; simpl in H; [contradiction|]. destruct H as [H|[]]; discriminate. }
  rewrite E1, E2, !E3. simpl. unfold rme_of, rm_entries. simpl. rewrite String.eqb_refl. simpl. reflexivity.
Qed.

(* a block contributes no entry to a route-map that is neither its in nor its out map *)
Lemma block_rme_other n nm : nm <> rm_in (nc_s n) -> nm <> rm_out (nc_s n) -> rme_of (block n) nm = [].
Proof.
  intros H1 H2. apply rme_of_none. intros n' sq pm m st nx H.
  pose proof (in_block_rm_name n _ H) as X. simpl in X. destruct X as [[E _]|E]; congruence.
Qed.
