(* Lemmas for C08 about Model/Cfg.v: cidrsOverlap is exact, ParseCIDR is exact, the
   invariants of poolsFor's loops, attachment of advertisements, aggregation lengths,
   local-preference collisions. *)
From Coq Require Import NArith Bool List Lia ZifyN ZifyBool Permutation Sorted.
From Verif Require Import Model.Cfg Proofs.NetP Proofs.CfgSortP Proofs.CfgSummP.
Local Open Scope N_scope.

(* ------------------------------------------------------------------ prefixes *)
Definition good (p : prefix) : Prop := aligned p /\ wf_prefix p.

Lemma ip_fam_mk f n : ip_fam (mk_ip f n) = f.
Proof. destruct f; reflexivity. Qed.
Lemma ip_val_mk f n : ip_val (mk_ip f n) = n.
Proof. destruct f; reflexivity. Qed.

Lemma contains_spec p x :
  contains p x = true <-> pfam p = ip_fam x /\ ip_val x / block p = pbase p / block p.
Proof. unfold contains. rewrite andb_true_iff, fam_eqb_eq, N.eqb_eq. tauto. Qed.

Lemma contains_base p : contains p (mk_ip (pfam p) (pbase p)) = true.
Proof. apply contains_spec. rewrite ip_fam_mk, ip_val_mk. auto. Qed.

Lemma block_norm p : block (norm p) = block p.
Proof. reflexivity. Qed.

Lemma contains_norm p x : contains (norm p) x = contains p x.
Proof.
  unfold contains. rewrite block_norm. cbn [norm pfam pbase]. unfold pfirst.
  pose proof (block_pos p). rewrite N.div_mul by lia. reflexivity.
Qed.

Lemma norm_good p : wf_prefix p -> good (norm p).
Proof.
  intros [H1 H2]. pose proof (block_pos p). split.
  - unfold aligned. rewrite block_norm. cbn [norm pbase]. unfold pfirst. apply N.mod_mul. lia.
  - split; [exact H1|]. cbn [norm pfam pbase plen]. unfold pfirst.
    pose proof (N.mul_div_le (pbase p) (block p) ltac:(lia)). lia.
Qed.

Lemma aligned_base p : aligned p -> (pbase p / block p) * block p = pbase p.
Proof. intros H. apply aligned_pfirst. exact H. Qed.

(* cidrsOverlap = the address sets intersect *)
Lemma cidr_contains_cidr_sound o i :
  cidr_contains_cidr o i = true -> exists x, contains o x = true /\ contains i x = true.
Proof.
  unfold cidr_contains_cidr. rewrite andb_true_iff, orb_true_iff, !andb_true_iff, fam_eqb_eq.
  intros [Hf [[Hl Hb]|[Hl Hc]]].
  - apply N.eqb_eq in Hl, Hb. exists (mk_ip (pfam i) (pbase i)). split; [|apply contains_base].
    apply contains_spec. rewrite ip_fam_mk, ip_val_mk. split; [assumption|]. rewrite Hb. reflexivity.
  - exists (mk_ip (pfam i) (pbase i)). split; [assumption|apply contains_base].
Qed.

Lemma block_div a b : pfam a = pfam b -> plen a <= plen b -> plen b <= width (pfam b) ->
  forall x, x / block a = (x / block b) / 2 ^ (plen b - plen a).
Proof.
  intros Hf Hl Hw x. unfold block. rewrite Hf.
  rewrite (div_div_pow x (width (pfam b) - plen a) (width (pfam b) - plen b)) by lia.
  do 2 f_equal. lia.
Qed.

Lemma overlap_complete a b x : good a -> good b ->
  contains a x = true -> contains b x = true -> overlap a b = true.
Proof.
  intros [Aa [Wa _]] [Ab [Wb _]] Ca Cb.
  apply contains_spec in Ca, Cb. destruct Ca as [Fa Ea], Cb as [Fb Eb].
  assert (Hf : pfam a = pfam b) by congruence.
  unfold overlap, cidr_contains_cidr. rewrite <- Hf, fam_eqb_refl. cbn [andb].
  destruct (N.lt_trichotomy (plen a) (plen b)) as [L|[E|G]].
  - (* a shorter: a contains b's base *)
    apply orb_true_iff. left. apply orb_true_iff. right.
    apply andb_true_iff. split; [apply N.ltb_lt; assumption|].
    apply contains_spec. rewrite ip_fam_mk, ip_val_mk. split; [reflexivity|].
    rewrite <- Ea. rewrite (block_div a b Hf ltac:(lia) Wb (pbase b)), (block_div a b Hf ltac:(lia) Wb (ip_val x)).
    rewrite Eb. reflexivity.
  - apply orb_true_iff. left. apply orb_true_iff. left.
    apply andb_true_iff. split; [apply N.eqb_eq; assumption|]. apply N.eqb_eq.
    assert (Hb : block a = block b) by (unfold block; rewrite Hf, E; reflexivity).
    rewrite <- (aligned_base a Aa), <- (aligned_base b Ab), <- Ea, <- Eb, Hb. reflexivity.
  - apply orb_true_iff. right. cbn [andb]. apply orb_true_iff. right.
    apply andb_true_iff. split; [apply N.ltb_lt; assumption|].
    apply contains_spec. rewrite ip_fam_mk, ip_val_mk. split; [symmetry; exact Hf|].
    rewrite <- Eb. rewrite (block_div b a (eq_sym Hf) ltac:(lia) Wa (pbase a)), (block_div b a (eq_sym Hf) ltac:(lia) Wa (ip_val x)).
    rewrite Ea. reflexivity.
Qed.

Lemma overlap_iff a b : good a -> good b ->
  (overlap a b = true <-> exists x, contains a x = true /\ contains b x = true).
Proof.
  intros Ga Gb. split.
  - unfold overlap. rewrite orb_true_iff. intros [H|H]; apply cidr_contains_cidr_sound in H;
      destruct H as [x [H1 H2]]; exists x; auto.
  - intros [x [H1 H2]]. eapply overlap_complete; eassumption.
Qed.

Lemma overlap_false_disjoint a b : good a -> good b -> overlap a b = false -> disjoint a b.
Proof.
  intros Ga Gb H x C1 C2. rewrite (overlap_complete a b x Ga Gb C1 C2) in H. discriminate.
Qed.

Lemma overlap_sym a b : overlap a b = overlap b a.
Proof. unfold overlap. apply orb_comm. Qed.

(* ------------------------------------------------------------------ ParseCIDR *)
Lemma wf_prefixb_true p : wf_prefixb p = true <-> wf_prefix p.
Proof. unfold wf_prefixb, wf_prefix. rewrite andb_true_iff, N.leb_le, N.ltb_lt. tauto. Qed.

Lemma mapped_base_lt b : b < 2 ^ 32 -> mapped_base + b < 2 ^ 128.
Proof. unfold mapped_base. intros H. change (2 ^ 32) with 4294967296 in H.
  change (2 ^ 128) with 340282366920938463463374607431768211456. lia. Qed.

Theorem parse_addr_exact a ps : parse_addr a = Some ps ->
  (forall x, in_prefixes ps x <-> addr_denotes a x) /\ ForallOrdPairs disjoint ps /\ Forall good ps.
Proof.
  destruct a as [p|b l|s e]; cbn [parse_addr addr_denotes].
  - destruct (wf_prefixb p) eqn:W; [|discriminate]. intros [= <-]. apply wf_prefixb_true in W.
    split; [|split].
    + intros x. unfold in_prefixes. split.
      * intros [q [[<-|[]] H]]. rewrite contains_norm in H. exact H.
      * intros H. exists (norm p). split; [left; reflexivity|]. rewrite contains_norm. exact H.
    + constructor; constructor.
    + constructor; [apply norm_good; assumption|constructor].
  - destruct ((l <=? 128) && (b <? 2 ^ 32)) eqn:W; [|discriminate].
    apply andb_true_iff in W. destruct W as [W1 W2]. apply N.leb_le in W1. apply N.ltb_lt in W2.
    destruct (96 <=? l) eqn:L; intros [= <-].
    + apply N.leb_le in L.
      assert (WF : wf_prefix {| pfam := F4; pbase := b; plen := l - 96 |}) by (split; cbn; [lia|assumption]).
      split; [|split].
      * intros x. unfold in_prefixes. split.
        -- intros [q [[<-|[]] H]]. rewrite contains_norm in H. exact H.
        -- intros H. eexists. split; [left; reflexivity|]. rewrite contains_norm. exact H.
      * constructor; constructor.
      * constructor; [apply norm_good; assumption|constructor].
    + apply N.leb_gt in L.
      assert (WF : wf_prefix {| pfam := F6; pbase := mapped_base + b; plen := l |})
        by (split; cbn [pfam pbase plen width]; [lia|apply mapped_base_lt; assumption]).
      split; [|split].
      * intros x. unfold in_prefixes. split.
        -- intros [q [[<-|[]] H]]. rewrite contains_norm in H. exact H.
        -- intros H. eexists. split; [left; reflexivity|]. rewrite contains_norm. exact H.
      * constructor; constructor.
      * constructor; [apply norm_good; assumption|constructor].
  - destruct s as [s|s], e as [e|e]; try discriminate.
    + destruct ((s <=? e) && (e <? 2 ^ 32)) eqn:W; [|discriminate].
      apply andb_true_iff in W. destruct W as [W1 W2]. apply N.leb_le in W1. apply N.ltb_lt in W2.
      intros H. destruct (summarize_exact F4 s e ps W2 H) as (X & D & G). split; [|split; [exact D|]].
      * intros x. rewrite X. cbn. intuition.
      * eapply Forall_impl; [|exact G]. cbn. intros p (A & B & _). split; assumption.
    + destruct ((s <=? e) && (e <? 2 ^ 128)) eqn:W; [|discriminate].
      apply andb_true_iff in W. destruct W as [W1 W2]. apply N.leb_le in W1. apply N.ltb_lt in W2.
      intros H. destruct (summarize_exact F6 s e ps W2 H) as (X & D & G). split; [|split; [exact D|]].
      * intros x. rewrite X. cbn. intuition.
      * eapply Forall_impl; [|exact G]. cbn. intros p (A & B & _). split; assumption.
Qed.

(* after F5: an accepted range has both ends in one family and start <= end *)
Lemma parse_range_same_family s e ps : parse_addr (ARange s e) = Some ps ->
  ip_fam s = ip_fam e /\ ip_val s <= ip_val e.
Proof.
  cbn. destruct s as [s|s], e as [e|e]; try discriminate;
    destruct (s <=? e) eqn:E; cbn [andb]; try discriminate; intros _; apply N.leb_le in E; auto.
Qed.

Lemma parse_addrs_spec l per : parse_addrs l = Some per ->
  Forall2 (fun a cs => parse_addr a = Some cs) l per.
Proof.
  revert per. induction l as [|a r IH]; cbn; intros per.
  - intros [= <-]. constructor.
  - destruct (parse_addr a) eqn:E; [|discriminate]. destruct (parse_addrs r); [|discriminate].
    intros [= <-]. constructor; auto.
Qed.

Lemma in_concat_iff {A} (x : A) ll : In x (concat ll) <-> exists l, In l ll /\ In x l.
Proof.
  induction ll as [|l r IH]; cbn.
  - split; [tauto|intros [? [[] _]]].
  - rewrite in_app_iff, IH. split.
    + intros [H|[l' [H1 H2]]]; [exists l; auto|exists l'; auto].
    + intros [l' [[<-|H1] H2]]; [auto|right; exists l'; auto].
Qed.

Lemma Forall2_in_l {A B} (R : A -> B -> Prop) l l' a : Forall2 R l l' -> In a l -> exists b, In b l' /\ R a b.
Proof. induction 1; cbn; [tauto|]. intros [<-|H']; [eauto|]. destruct (IHForall2 H') as [b' [? ?]]. eauto. Qed.
Lemma Forall2_in_r {A B} (R : A -> B -> Prop) l l' b : Forall2 R l l' -> In b l' -> exists a, In a l /\ R a b.
Proof. induction 1; cbn; [tauto|]. intros [<-|H']; [eauto|]. destruct (IHForall2 H') as [a' [? ?]]. eauto. Qed.

(* a pool's CIDR list denotes exactly the union of its address entries *)
Lemma parse_addrs_exact l per : parse_addrs l = Some per ->
  (forall x, in_prefixes (concat per) x <-> exists a, In a l /\ addr_denotes a x) /\ Forall good (concat per).
Proof.
  intros H. apply parse_addrs_spec in H. split.
  - intros x. unfold in_prefixes. split.
    + intros [p [Hp Hc]]. apply in_concat_iff in Hp. destruct Hp as [cs [Hcs Hp]].
      destruct (Forall2_in_r _ _ _ _ H Hcs) as [a [Ha Pa]]. exists a. split; [assumption|].
      apply (proj1 (parse_addr_exact a cs Pa)). exists p. auto.
    + intros [a [Ha Hd]]. destruct (Forall2_in_l _ _ _ _ H Ha) as [cs [Hcs Pa]].
      apply (proj1 (parse_addr_exact a cs Pa)) in Hd. destruct Hd as [p [Hp Hc]].
      exists p. split; [|assumption]. apply in_concat_iff. exists cs. auto.
  - apply Forall_forall. intros p Hp. apply in_concat_iff in Hp. destruct Hp as [cs [Hcs Hp]].
    destruct (Forall2_in_r _ _ _ _ H Hcs) as [a [Ha Pa]].
    destruct (parse_addr_exact a cs Pa) as (_ & _ & G). rewrite Forall_forall in G. auto.
Qed.
