(* Lemmas for C08 about Model/Cfg.v: cidrsOverlap is exact, ParseCIDR is exact, the
   invariants of poolsFor's loops, attachment of advertisements, aggregation lengths,
   local-preference collisions. *)
From Coq Require Import NArith Bool List Lia ZifyN ZifyBool Permutation Sorted.
From Verif Require Import Model.Cfg Proofs.NetP Proofs.CfgSortP Proofs.CfgSummP.
Local Open Scope N_scope.

(* ------------------------------------------------------------------ prefixes *)
Definition good (p : prefix) : Prop := aligned p /\ wf_prefix p.

Lemma ip_fam_mk f n : ip_fam (mk_ip f n) = f.
Proof. destruct f; reflexivity. Qed.
Lemma ip_val_mk f n : ip_val (mk_ip f n) = n.
Proof. destruct f; reflexivity. Qed.

Lemma contains_spec p x :
  contains p x = true <-> pfam p = ip_fam x /\ ip_val x / block p = pbase p / block p.
Proof. unfold contains. rewrite andb_true_iff, fam_eqb_eq, N.eqb_eq. tauto. Qed.

Lemma contains_base p : contains p (mk_ip (pfam p) (pbase p)) = true.
Proof. apply contains_spec. rewrite ip_fam_mk, ip_val_mk. auto. Qed.

Lemma block_norm p : block (norm p) = block p.
Proof. reflexivity. Qed.

Lemma contains_norm p x : contains (norm p) x = contains p x.
Proof.
  unfold contains. rewrite block_norm. cbn [norm pfam pbase]. unfold pfirst.
  pose proof (block_pos p). rewrite N.div_mul by lia. reflexivity.
Qed.

Lemma norm_good p : wf_prefix p -> good (norm p).
Proof.
  intros [H1 H2]. pose proof (block_pos p). split.
  - unfold aligned. rewrite block_norm. cbn [norm pbase]. unfold pfirst. apply N.mod_mul. lia.
  - split; [exact H1|]. cbn [norm pfam pbase plen]. unfold pfirst.
    pose proof (N.mul_div_le (pbase p) (block p) ltac:(lia)). lia.
Qed.

Lemma aligned_base p : aligned p -> (pbase p / block p) * block p = pbase p.
Proof. intros H. apply aligned_pfirst. exact H. Qed.

(* cidrsOverlap = the address sets intersect *)
Lemma cidr_contains_cidr_sound o i :
  cidr_contains_cidr o i = true -> exists x, contains o x = true /\ contains i x = true.
Proof.
  unfold cidr_contains_cidr. rewrite andb_true_iff, orb_true_iff, !andb_true_iff, fam_eqb_eq.
  intros [Hf [[Hl Hb]|[Hl Hc]]].
  - apply N.eqb_eq in Hl, Hb. exists (mk_ip (pfam i) (pbase i)). split; [|apply contains_base].
    apply contains_spec. rewrite ip_fam_mk, ip_val_mk. split; [assumption|]. rewrite Hb. reflexivity.
  - exists (mk_ip (pfam i) (pbase i)). split; [assumption|apply contains_base].
Qed.

Lemma block_div a b : pfam a = pfam b -> plen a <= plen b -> plen b <= width (pfam b) ->
  forall x, x / block a = (x / block b) / 2 ^ (plen b - plen a).
Proof.
  intros Hf Hl Hw x. unfold block. rewrite Hf.
  rewrite (div_div_pow x (width (pfam b) - plen a) (width (pfam b) - plen b)) by lia.
  do 2 f_equal. lia.
Qed.

Lemma overlap_complete a b x : good a -> good b ->
  contains a x = true -> contains b x = true -> overlap a b = true.
Proof.
  intros [Aa [Wa _]] [Ab [Wb _]] Ca Cb.
  apply contains_spec in Ca, Cb. destruct Ca as [Fa Ea], Cb as [Fb Eb].
  assert (Hf : pfam a = pfam b) by congruence.
  unfold overlap, cidr_contains_cidr. rewrite <- Hf, fam_eqb_refl. cbn [andb].
  destruct (N.lt_trichotomy (plen a) (plen b)) as [L|[E|G]].
  - (* a shorter: a contains b's base *)
    apply orb_true_iff. left. apply orb_true_iff. right.
    apply andb_true_iff. split; [apply N.ltb_lt; assumption|].
    apply contains_spec. rewrite ip_fam_mk, ip_val_mk. split; [reflexivity|].
    rewrite <- Ea. rewrite (block_div a b Hf ltac:(lia) Wb (pbase b)), (block_div a b Hf ltac:(lia) Wb (ip_val x)).
    rewrite Eb. reflexivity.
  - apply orb_true_iff. left. apply orb_true_iff. left.
    apply andb_true_iff. split; [apply N.eqb_eq; assumption|]. apply N.eqb_eq.
    assert (Hb : block a = block b) by (unfold block; rewrite Hf, E; reflexivity).
    rewrite <- (aligned_base a Aa), <- (aligned_base b Ab), <- Ea, <- Eb, Hb. reflexivity.
  - apply orb_true_iff. right. cbn [andb]. apply orb_true_iff. right.
    apply andb_true_iff. split; [apply N.ltb_lt; assumption|].
    apply contains_spec. rewrite ip_fam_mk, ip_val_mk. split; [symmetry; exact Hf|].
    rewrite <- Eb. rewrite (block_div b a (eq_sym Hf) ltac:(lia) Wa (pbase a)), (block_div b a (eq_sym Hf) ltac:(lia) Wa (ip_val x)).
    rewrite Ea. reflexivity.
Qed.

Lemma overlap_iff a b : good a -> good b ->
  (overlap a b = true <-> exists x, contains a x = true /\ contains b x = true).
Proof.
  intros Ga Gb. split.
  - unfold overlap. rewrite orb_true_iff. intros [H|H]; apply cidr_contains_cidr_sound in H;
      destruct H as [x [H1 H2]]; exists x; auto.
  - intros [x [H1 H2]]. eapply overlap_complete; eassumption.
Qed.

Lemma overlap_false_disjoint a b : good a -> good b -> overlap a b = false -> disjoint a b.
Proof.
  intros Ga Gb H x C1 C2. rewrite (overlap_complete a b x Ga Gb C1 C2) in H. discriminate.
Qed.

Lemma overlap_sym a b : overlap a b = overlap b a.
Proof. unfold overlap. apply orb_comm. Qed.

(* ------------------------------------------------------------------ ParseCIDR *)
Lemma wf_prefixb_true p : wf_prefixb p = true <-> wf_prefix p.
Proof. unfold wf_prefixb, wf_prefix. rewrite andb_true_iff, N.leb_le, N.ltb_lt. tauto. Qed.

Lemma mapped_base_lt b : b < 2 ^ 32 -> mapped_base + b < 2 ^ 128.
Proof. unfold mapped_base. intros H. change (2 ^ 32) with 4294967296 in H.
  change (2 ^ 128) with 340282366920938463463374607431768211456. lia. Qed.

Theorem parse_addr_exact a ps : parse_addr a = Some ps ->
  (forall x, in_prefixes ps x <-> addr_denotes a x) /\ ForallOrdPairs disjoint ps /\ Forall good ps.
Proof.
  destruct a as [p|b l|s e]; cbn [parse_addr addr_denotes].
  - destruct (wf_prefixb p) eqn:W; [|discriminate]. intros [= <-]. apply wf_prefixb_true in W.
    split; [|split].
    + intros x. unfold in_prefixes. split.
      * intros [q [[<-|[]] H]]. rewrite contains_norm in H. exact H.
      * intros H. exists (norm p). split; [left; reflexivity|]. rewrite contains_norm. exact H.
    + constructor; constructor.
    + constructor; [apply norm_good; assumption|constructor].
  - destruct ((l <=? 128) && (b <? 2 ^ 32)) eqn:W; [|discriminate].
    apply andb_true_iff in W. destruct W as [W1 W2]. apply N.leb_le in W1. apply N.ltb_lt in W2.
    destruct (96 <=? l) eqn:L; intros HH; apply (f_equal (fun o => match o with Some v => v | None => ps end)) in HH; cbv beta iota in HH; subst ps.
    + apply N.leb_le in L.
      assert (WF : wf_prefix {| pfam := F4; pbase := b; plen := l - 96 |}) by (split; cbn; [lia|assumption]).
      split; [|split].
      * intros x. unfold in_prefixes. split.
        -- intros [q [[<-|[]] H]]. rewrite contains_norm in H. exact H.
        -- intros H. eexists. split; [left; reflexivity|]. rewrite contains_norm. exact H.
      * constructor; constructor.
      * constructor; [apply norm_good; assumption|constructor].
    + apply N.leb_gt in L.
      assert (WF : wf_prefix {| pfam := F6; pbase := mapped_base + b; plen := l |})
        by (split; cbn [pfam pbase plen width]; [lia|apply mapped_base_lt; assumption]).
      split; [|split].
      * intros x. unfold in_prefixes. split.
        -- intros [q [[<-|[]] H]]. rewrite contains_norm in H. exact H.
        -- intros H. eexists. split; [left; reflexivity|]. rewrite contains_norm. exact H.
      * constructor; constructor.
      * constructor; [apply norm_good; assumption|constructor].
  - destruct s as [s|s], e as [e|e]; try discriminate.
    + destruct ((s <=? e) && (e <? 2 ^ 32)) eqn:W; [|discriminate].
      apply andb_true_iff in W. destruct W as [W1 W2]. apply N.leb_le in W1. apply N.ltb_lt in W2.
      intros H. destruct (summarize_exact F4 s e ps W2 H) as (X & D & G). split; [|split; [exact D|]].
      * intros x. rewrite X. cbn. intuition.
      * eapply Forall_impl; [|exact G]. cbn. intros p (A & B & _). split; assumption.
    + destruct ((s <=? e) && (e <? 2 ^ 128)) eqn:W; [|discriminate].
      apply andb_true_iff in W. destruct W as [W1 W2]. apply N.leb_le in W1. apply N.ltb_lt in W2.
      intros H. destruct (summarize_exact F6 s e ps W2 H) as (X & D & G). split; [|split; [exact D|]].
      * intros x. rewrite X. cbn. intuition.
      * eapply Forall_impl; [|exact G]. cbn. intros p (A & B & _). split; assumption.
Qed.

(* after F5: an accepted range has both ends in one family and start <= end *)
Lemma parse_range_same_family s e ps : parse_addr (ARange s e) = Some ps ->
  ip_fam s = ip_fam e /\ ip_val s <= ip_val e.
Proof.
  cbn. destruct s as [s|s], e as [e|e]; try discriminate;
    destruct (s <=? e) eqn:E; cbn [andb]; try discriminate; intros _; apply N.leb_le in E; auto.
Qed.

Lemma parse_addrs_spec l per : parse_addrs l = Some per ->
  Forall2 (fun a cs => parse_addr a = Some cs) l per.
Proof.
  revert per. induction l as [|a r IH]; cbn; intros per.
  - intros [= <-]. constructor.
  - destruct (parse_addr a) eqn:E; [|discriminate]. destruct (parse_addrs r); [|discriminate].
    intros [= <-]. constructor; auto.
Qed.

Lemma in_concat_iff {A} (x : A) ll : In x (concat ll) <-> exists l, In l ll /\ In x l.
Proof.
  induction ll as [|l r IH]; cbn.
  - split; [tauto|intros [? [[] _]]].
  - rewrite in_app_iff, IH. split.
    + intros [H|[l' [H1 H2]]]; [exists l; auto|exists l'; auto].
    + intros [l' [[<-|H1] H2]]; [auto|right; exists l'; auto].
Qed.

Lemma Forall2_in_l {A B} (R : A -> B -> Prop) l l' a : Forall2 R l l' -> In a l -> exists b, In b l' /\ R a b.
Proof. induction 1; cbn; [tauto|]. intros [<-|H']; [eauto|]. destruct (IHForall2 H') as [b' [? ?]]. eauto. Qed.
Lemma Forall2_in_r {A B} (R : A -> B -> Prop) l l' b : Forall2 R l l' -> In b l' -> exists a, In a l /\ R a b.
Proof. induction 1; cbn; [tauto|]. intros [<-|H']; [eauto|]. destruct (IHForall2 H') as [a' [? ?]]. eauto. Qed.

(* a pool's CIDR list denotes exactly the union of its address entries *)
Lemma parse_addrs_exact l per : parse_addrs l = Some per ->
  (forall x, in_prefixes (concat per) x <-> exists a, In a l /\ addr_denotes a x) /\ Forall good (concat per).
Proof.
  intros H. apply parse_addrs_spec in H. split.
  - intros x. unfold in_prefixes. split.
    + intros [p [Hp Hc]]. apply in_concat_iff in Hp. destruct Hp as [cs [Hcs Hp]].
      destruct (Forall2_in_r _ _ _ _ H Hcs) as [a [Ha Pa]]. exists a. split; [assumption|].
      apply (proj1 (parse_addr_exact a cs Pa)). exists p. auto.
    + intros [a [Ha Hd]]. destruct (Forall2_in_l _ _ _ _ H Ha) as [cs [Hcs Pa]].
      apply (proj1 (parse_addr_exact a cs Pa)) in Hd. destruct Hd as [p [Hp Hc]].
      exists p. split; [|assumption]. apply in_concat_iff. exists cs. auto.
  - apply Forall_forall. intros p Hp. apply in_concat_iff in Hp. destruct Hp as [cs [Hcs Hp]].
    destruct (Forall2_in_r _ _ _ _ H Hcs) as [a [Ha Pa]].
    destruct (parse_addr_exact a cs Pa) as (_ & _ & G). rewrite Forall_forall in G. auto.
Qed.

(* ------------------------------------------------------------------ list helpers *)
Lemma FOP_snoc {A} (R : A -> A -> Prop) l x :
  ForallOrdPairs R (l ++ [x]) <-> ForallOrdPairs R l /\ Forall (fun y => R y x) l.
Proof.
  induction l as [|a r IH]; cbn.
  - split; [intros _; split; constructor|intros _; constructor; constructor].
  - split.
    + intros H. inversion H as [|? ? Fa Hr]; subst. apply IH in Hr. destruct Hr as [Hr Fx].
      apply Forall_app in Fa. destruct Fa as [Fa Fax]. inversion Fax; subst.
      split; constructor; auto.
    + intros [H Fx]. inversion H as [|? ? Fa Hr]; subst. inversion Fx; subst.
      constructor; [apply Forall_app; split; auto|apply IH; auto].
Qed.

Lemma FOP_impl_in {A} (R R' : A -> A -> Prop) l :
  (forall a b, In a l -> In b l -> R a b -> R' a b) -> ForallOrdPairs R l -> ForallOrdPairs R' l.
Proof.
  induction l as [|x r IH]; intros H F; [constructor|].
  inversion F as [|? ? Fx Fr]; subst. constructor.
  - rewrite Forall_forall in *. intros y Hy. apply H; [left; reflexivity|right; assumption|auto].
  - apply IH; [|assumption]. intros a b Ha Hb. apply H; right; assumption.
Qed.

Lemma FOP_perm {A} (R : A -> A -> Prop) l l' :
  (forall a b, R a b -> R b a) -> Permutation l l' -> ForallOrdPairs R l -> ForallOrdPairs R l'.
Proof.
  intros S P. induction P as [|x l l' P IH|x y l|l l' l'' P1 IH1 P2 IH2]; intros F.
  - constructor.
  - inversion F as [|? ? Fx Fr]; subst. constructor; [eapply Permutation_Forall; eassumption|auto].
  - inversion F as [|? ? Fy Fr]; subst. inversion Fr as [|? ? Fx Fl]; subst.
    inversion Fy as [|? ? Ryx Fy']; subst.
    constructor; [constructor; [apply S; assumption|assumption]|constructor; assumption].
  - auto.
Qed.

Lemma find_pool_none n ps : find_pool n ps = None <-> ~ In n (map p_name ps).
Proof.
  unfold find_pool. induction ps as [|p r IH]; cbn; [tauto|].
  destruct (p_name p =? n) eqn:E.
  - apply N.eqb_eq in E. split; [discriminate|]. intros H. exfalso. apply H. left. assumption.
  - apply N.eqb_neq in E. rewrite IH. tauto.
Qed.

(* ------------------------------------------------------------------ what attachment keeps *)
Definition core (p : pool) := (p_name p, p_cidrs p, p_per_addr p, p_avoid p, p_auto p, p_alloc p).

Lemma core_name p p' : core p = core p' -> p_name p = p_name p'.
Proof. unfold core. congruence. Qed.
Lemma core_cidrs p p' : core p = core p' -> p_cidrs p = p_cidrs p'.
Proof. unfold core. congruence. Qed.
Lemma core_per p p' : core p = core p' -> p_per_addr p = p_per_addr p'.
Proof. unfold core. congruence. Qed.

Lemma add_l2_keeps a p : core (add_l2 a p) = core p /\ p_bgp (add_l2 a p) = p_bgp p.
Proof. unfold add_l2. destruct (existsb _ _); split; reflexivity. Qed.

Lemma Forall2_refl_on {A} (R : A -> A -> Prop) l : (forall x, In x l -> R x x) -> Forall2 R l l.
Proof. induction l; intros H; constructor; [apply H; left; reflexivity|apply IHl; intros; apply H; right; assumption]. Qed.

Lemma Forall2_map_r {A} (R : A -> A -> Prop) (f : A -> A) l : (forall x, In x l -> R x (f x)) -> Forall2 R l (map f l).
Proof. induction l; intros H; cbn; constructor; [apply H; left; reflexivity|apply IHl; intros; apply H; right; assumption]. Qed.

Lemma Forall2_trans' {A} (R1 R2 R3 : A -> A -> Prop) l1 l2 l3 :
  (forall a b c, In a l1 -> R1 a b -> R2 b c -> R3 a c) -> Forall2 R1 l1 l2 -> Forall2 R2 l2 l3 -> Forall2 R3 l1 l3.
Proof.
  intros H F1. revert l3. induction F1 as [|a b l1 l2 Hab F1 IH]; intros l3 F2; inversion F2; subst; constructor.
  - eapply H; [left; reflexivity|eassumption|eassumption].
  - apply IH; [|assumption]. intros; eapply H; [right|..]; eassumption.
Qed.

Lemma Forall2_impl_in {A} (R R' : A -> A -> Prop) l l' :
  (forall a b, In a l -> R a b -> R' a b) -> Forall2 R l l' -> Forall2 R' l l'.
Proof.
  intros H F. induction F; constructor; [apply H; [left; reflexivity|assumption]|].
  apply IHF. intros; apply H; [right|]; assumption.
Qed.

(* L2 attachment keeps everything but p_l2 *)
Definition keep_l2 (p p' : pool) : Prop := core p = core p' /\ p_bgp p = p_bgp p'.

Lemma upd_l2_keeps n a ps : Forall2 keep_l2 ps (upd_pool n (add_l2 a) ps).
Proof.
  unfold upd_pool. apply Forall2_map_r. intros p _. destruct (p_name p =? n).
  - destruct (add_l2_keeps a p) as [H1 H2]. split; congruence.
  - split; reflexivity.
Qed.

Lemma keep_l2_trans ps1 ps2 ps3 : Forall2 keep_l2 ps1 ps2 -> Forall2 keep_l2 ps2 ps3 -> Forall2 keep_l2 ps1 ps3.
Proof. apply Forall2_trans'. intros a b c _ [H1 H2] [H3 H4]. split; congruence. Qed.

Lemma set_l2_keeps crs nodes advs : forall ps ps', set_l2 crs nodes advs ps = Some ps' -> Forall2 keep_l2 ps ps'.
Proof.
  induction advs as [|c r IH]; intros ps ps'; cbn [set_l2].
  - intros [= <-]. apply Forall2_refl_on. intros; split; reflexivity.
  - destruct (parse_l2 nodes c) as [a|]; [|discriminate]. intros H. apply IH in H.
    eapply keep_l2_trans; [|exact H]. clear H IH.
    generalize (targets crs (l2_pools c) (l2_psels c) ps) as ts. intros ts. revert ps.
    induction ts as [|n ts IHt]; intros ps; cbn [fold_left].
    + apply Forall2_refl_on. intros; split; reflexivity.
    + eapply keep_l2_trans; [apply upd_l2_keeps|apply IHt].
Qed.

(* BGP attachment: what is appended to which pool *)
Definition grows (Q : N -> bgpadv -> Prop) (p p' : pool) : Prop :=
  core p = core p' /\ p_l2 p = p_l2 p' /\ forall b, In b (p_bgp p') <-> In b (p_bgp p) \/ Q (p_name p) b.

Lemma grows_names Q ps ps' : Forall2 (grows Q) ps ps' -> map p_name ps = map p_name ps'.
Proof. induction 1 as [|p p' l l' [H _] F IH]; cbn; [reflexivity|]. rewrite IH, (core_name _ _ H). reflexivity. Qed.

Lemma grows_refl ps : Forall2 (grows (fun _ _ => False)) ps ps.
Proof. apply Forall2_refl_on. intros p _. repeat split; auto. tauto. Qed.

Lemma grows_trans Q1 Q2 ps1 ps2 ps3 :
  Forall2 (grows Q1) ps1 ps2 -> Forall2 (grows Q2) ps2 ps3 ->
  Forall2 (grows (fun n b => Q1 n b \/ Q2 n b)) ps1 ps3.
Proof.
  apply Forall2_trans'. intros a b c _ (C1 & L1 & M1) (C2 & L2 & M2). repeat split; try congruence.
  - intros H. apply M2 in H. rewrite <- (core_name _ _ C1) in H. rewrite M1 in H. tauto.
  - intros H. apply M2. rewrite <- (core_name _ _ C1). rewrite M1. tauto.
Qed.

Lemma grows_weaken Q Q' ps ps' :
  (forall n b, In n (map p_name ps) -> (Q n b <-> Q' n b)) -> Forall2 (grows Q) ps ps' -> Forall2 (grows Q') ps ps'.
Proof.
  intros H. apply Forall2_impl_in. intros p p' Hp (C & L & M). repeat split; auto.
  - intros Hb. apply M in Hb. rewrite <- H by (apply in_map; assumption). assumption.
  - intros Hb. apply M. rewrite H by (apply in_map; assumption). assumption.
Qed.

Lemma upd_bgp_grows n a ps :
  Forall2 (grows (fun n' b => b = a /\ n' = n)) ps (upd_pool n (add_bgp a) ps).
Proof.
  unfold upd_pool. apply Forall2_map_r. intros p _. destruct (p_name p =? n) eqn:E.
  - apply N.eqb_eq in E. repeat split; cbn [add_bgp p_bgp].
    + rewrite in_app_iff. cbn. intros [H|[H|[]]]; auto.
    + rewrite in_app_iff. cbn. intros [H|[H _]]; auto.
  - apply N.eqb_neq in E. repeat split; auto. intros [H|[_ H]]; auto. contradiction.
Qed.

Lemma attach_bgp_grows a ts : forall ps ps', attach_bgp a ts ps = Some ps' ->
  Forall2 (grows (fun n b => b = a /\ In n ts)) ps ps'.
Proof.
  induction ts as [|n r IH]; intros ps ps'; cbn [attach_bgp].
  - intros [= <-]. eapply grows_weaken; [|apply grows_refl]. cbn. tauto.
  - destruct (find_pool n ps) as [p0|] eqn:F.
    + destruct (validate_adv a p0); [|discriminate]. intros H. apply IH in H.
      eapply grows_weaken; [|eapply grows_trans; [apply upd_bgp_grows|exact H]].
      cbn. intros n' b _. split.
      * intros [[-> ->]|[-> H']]; auto.
      * intros [-> [<-|H']]; auto.
    + intros H. apply IH in H. apply find_pool_none in F.
      eapply grows_weaken; [|exact H]. cbn. intros n' b Hn. split.
      * intros [-> H']; auto.
      * intros [-> [<-|H']]; [contradiction|auto].
Qed.

Lemma targets_names crs names ss ps ps' : map p_name ps = map p_name ps' ->
  targets crs names ss ps = targets crs names ss ps'.
Proof. intros H. unfold targets. rewrite H. reflexivity. Qed.

Definition bgp_wanted (crs : list pool_cr) (nodes : list node_cr) (advs : list bgp_cr) (ps : list pool)
           (n : N) (b : bgpadv) : Prop :=
  exists c, In c advs /\ parse_bgp nodes c = Some b /\ In n (targets crs (bg_pools c) (bg_psels c) ps).

Lemma set_bgp_grows crs nodes advs : forall ps ps', set_bgp crs nodes advs ps = Some ps' ->
  Forall2 (grows (bgp_wanted crs nodes advs ps)) ps ps'.
Proof.
  induction advs as [|c r IH]; intros ps ps'; cbn [set_bgp].
  - intros [= <-]. eapply grows_weaken; [|apply grows_refl]. intros n b _. split; [tauto|].
    intros [c [[] _]].
  - destruct (parse_bgp nodes c) as [a|] eqn:P; [|discriminate].
    destruct (attach_bgp a _ ps) as [ps1|] eqn:A; [|discriminate]. intros H.
    apply attach_bgp_grows in A. apply IH in H.
    pose proof (grows_names _ _ _ A) as Nm.
    eapply grows_weaken; [|eapply grows_trans; [exact A|exact H]].
    intros n b _. unfold bgp_wanted. split.
    + intros [[-> Ht]|[c' [Hc [Hp Ht]]]].
      * exists c. split; [left; reflexivity|]. split; assumption.
      * exists c'. split; [right; assumption|]. split; [assumption|].
        rewrite (targets_names crs _ _ ps ps1 Nm). assumption.
    + intros [c' [[<-|Hc] [Hp Ht]]].
      * left. split; [congruence|assumption].
      * right. exists c'. split; [assumption|]. split; [assumption|].
        rewrite <- (targets_names crs _ _ ps ps1 Nm). assumption.
Qed.

(* ------------------------------------------------------------------ validateBGPAdvPerPool *)
Definition agg_ok (p : pool) (a : bgpadv) : Prop :=
  ba_agg4 a <= 32 /\ ba_agg6 a <= 128 /\
  forall c r, In (c :: r) (p_per_addr p) -> lowest (c :: r) <= agg_of a (pfam c).
Definition lp_ok (p : pool) : Prop :=
  ForallOrdPairs (fun b a => ba_lp a = ba_lp b \/ compatible a b p = true) (p_bgp p).
Definition pool_ok (p : pool) : Prop := lp_ok p /\ Forall (agg_ok p) (p_bgp p).

Lemma validate_adv_spec a p : ba_agg4 a <= 32 -> ba_agg6 a <= 128 -> validate_adv a p = true ->
  agg_ok p a /\ Forall (fun b => ba_lp a = ba_lp b \/ compatible a b p = true) (p_bgp p).
Proof.
  intros H4 H6. unfold validate_adv. rewrite andb_true_iff, !forallb_forall. intros [H1 H2]. split.
  - split; [assumption|split; [assumption|]]. intros c r Hin. specialize (H1 _ Hin). cbn in H1.
    apply N.leb_le in H1. exact H1.
  - apply Forall_forall. intros b Hb. specialize (H2 _ Hb). apply orb_true_iff in H2.
    destruct H2 as [H2|H2]; [left; apply N.eqb_eq; assumption|right; assumption].
Qed.

Lemma find_pool_some n ps p0 : find_pool n ps = Some p0 -> In p0 ps /\ p_name p0 = n.
Proof. unfold find_pool. intros H. apply find_some in H. destruct H as [H1 H2]. apply N.eqb_eq in H2. auto. Qed.

Lemma nodup_name_unique ps p q : NoDup (map p_name ps) -> In p ps -> In q ps -> p_name p = p_name q -> p = q.
Proof. apply nodup_key_inj. Qed.

Lemma add_bgp_ok a p : pool_ok p -> agg_ok p a ->
  Forall (fun b => ba_lp a = ba_lp b \/ compatible a b p = true) (p_bgp p) -> pool_ok (add_bgp a p).
Proof.
  intros [L G] Ha Hl. split.
  - unfold lp_ok. cbn [add_bgp p_bgp]. apply FOP_snoc. split.
    + eapply FOP_impl_in; [|exact L]. intros x y _ _ H. exact H.
    + eapply Forall_impl; [|exact Hl]. intros b H. exact H.
  - cbn [add_bgp p_bgp]. apply Forall_app. split; [|constructor; [exact Ha|constructor]].
    eapply Forall_impl; [|exact G]. intros b H. exact H.
Qed.

Lemma upd_pool_names n f ps : (forall p, p_name (f p) = p_name p) -> map p_name (upd_pool n f ps) = map p_name ps.
Proof.
  intros H. unfold upd_pool. rewrite map_map. apply map_ext. intros p. destruct (p_name p =? n); [apply H|reflexivity].
Qed.

Lemma attach_bgp_ok a : ba_agg4 a <= 32 -> ba_agg6 a <= 128 ->
  forall ts ps ps', attach_bgp a ts ps = Some ps' -> NoDup (map p_name ps) -> Forall pool_ok ps -> Forall pool_ok ps'.
Proof.
  intros H4 H6. induction ts as [|n r IH]; intros ps ps'; cbn [attach_bgp].
  - intros [= <-]. auto.
  - destruct (find_pool n ps) as [p0|] eqn:F; [|apply IH].
    destruct (validate_adv a p0) eqn:V; [|discriminate]. intros H ND OK.
    apply (IH _ _ H).
    + rewrite upd_pool_names; [assumption|reflexivity].
    + destruct (find_pool_some _ _ _ F) as [Hin Hn].
      destruct (validate_adv_spec a p0 H4 H6 V) as [Ha Hl].
      unfold upd_pool. apply Forall_forall. intros q Hq. apply in_map_iff in Hq.
      destruct Hq as [p [<- Hp]]. rewrite Forall_forall in OK.
      destruct (p_name p =? n) eqn:E; [|apply OK; assumption].
      apply N.eqb_eq in E. assert (p = p0) by (apply (nodup_name_unique ps); auto; congruence). subst p.
      apply add_bgp_ok; auto.
Qed.

Lemma parse_bgp_bounds nodes c a : parse_bgp nodes c = Some a -> ba_agg4 a <= 32 /\ ba_agg6 a <= 128.
Proof.
  unfold parse_bgp. destruct (_ && _) eqn:E; [|discriminate]. intros [= <-]. cbn.
  rewrite !andb_true_iff in E. destruct E as [[_ E1] E2]. apply N.leb_le in E1, E2. auto.
Qed.

Lemma set_bgp_ok crs nodes advs : forall ps ps', set_bgp crs nodes advs ps = Some ps' ->
  NoDup (map p_name ps) -> Forall pool_ok ps -> Forall pool_ok ps'.
Proof.
  induction advs as [|c r IH]; intros ps ps'; cbn [set_bgp].
  - intros [= <-]. auto.
  - destruct (parse_bgp nodes c) as [a|] eqn:P; [|discriminate].
    destruct (attach_bgp a _ ps) as [ps1|] eqn:A; [|discriminate]. intros H ND OK.
    destruct (parse_bgp_bounds _ _ _ P) as [H4 H6].
    apply (IH _ _ H).
    + rewrite <- (grows_names _ _ _ (attach_bgp_grows _ _ _ _ A)). assumption.
    + eapply attach_bgp_ok; eassumption.
Qed.

(* ------------------------------------------------------------------ poolsFor's first loop *)
Definition cidrs_inv (nodeips : list ip) (all : list prefix) : Prop :=
  ForallOrdPairs (fun a b => overlap a b = false) all /\
  Forall (fun c => forall x, In x nodeips -> contains c x = false) all /\ Forall good all.

Lemma existsb_false {A} (f : A -> bool) l : existsb f l = false <-> forall x, In x l -> f x = false.
Proof.
  induction l as [|y r IH]; cbn; [split; [intros _ x []|reflexivity]|].
  rewrite orb_false_iff, IH. split.
  - intros [H1 H2] x [<-|H]; auto.
  - intros H. split; [apply H; left; reflexivity|intros; apply H; right; assumption].
Qed.

Lemma check_cidrs_inv nodeips cs : forall all all', check_cidrs nodeips cs all = Some all' ->
  Forall good cs -> cidrs_inv nodeips all -> all' = all ++ cs /\ cidrs_inv nodeips all'.
Proof.
  induction cs as [|c r IH]; intros all all'; cbn [check_cidrs].
  - intros [= <-] _ I. rewrite app_nil_r. auto.
  - destruct (existsb (overlap c) all || existsb (contains c) nodeips) eqn:E; [discriminate|].
    apply orb_false_iff in E. destruct E as [E1 E2]. intros H G I.
    inversion G as [|? ? Gc Gr]; subst. destruct I as (I1 & I2 & I3).
    destruct (IH _ _ H Gr) as [-> I'].
    + split; [|split].
      * apply FOP_snoc. split; [assumption|]. apply Forall_forall. intros m Hm.
        rewrite overlap_sym. apply (proj1 (existsb_false _ _) E1). assumption.
      * apply Forall_app. split; [assumption|]. constructor; [|constructor].
        apply (proj1 (existsb_false _ _) E2).
      * apply Forall_app. split; [assumption|constructor; [assumption|constructor]].
    + split; [|assumption]. rewrite <- app_assoc. reflexivity.
Qed.

Lemma parse_pool_spec nss c p : parse_pool nss c = Some p ->
  p_name p = pl_name c /\ parse_addrs (pl_addrs c) = Some (p_per_addr p) /\ p_cidrs p = concat (p_per_addr p) /\
  p_bgp p = [] /\ p_l2 p = [] /\ pl_addrs c <> [].
Proof.
  unfold parse_pool. destruct (pl_addrs c) as [|a0 ar] eqn:EA; [discriminate|].
  destruct (parse_addrs (a0 :: ar)) as [per|] eqn:E; [|discriminate].
  destruct (parse_alloc nss (pl_alloc c)); [|discriminate]. intros [= <-]. cbn. repeat split; discriminate.
Qed.

Lemma NoDup_app_snoc {A} (l : list A) x : NoDup l -> ~ In x l -> NoDup (l ++ [x]).
Proof.
  intros ND H. eapply Permutation_NoDup; [apply Permutation_cons_append|]. constructor; assumption.
Qed.

Lemma pools_loop_inv nodeips nss crs : forall all acc ps,
  pools_loop nodeips nss crs all acc = Some ps ->
  all = flat_map p_cidrs acc -> cidrs_inv nodeips all -> NoDup (map p_name acc) ->
  exists news, ps = acc ++ news /\ Forall2 (fun c p => parse_pool nss c = Some p) crs news /\
               cidrs_inv nodeips (flat_map p_cidrs ps) /\ NoDup (map p_name ps).
Proof.
  induction crs as [|c r IH]; intros all acc ps; cbn [pools_loop].
  - intros [= <-] -> I ND. exists []. rewrite app_nil_r. split; [reflexivity|]. split; [constructor|]. split; assumption.
  - destruct (parse_pool nss c) as [pl|] eqn:P; [|discriminate].
    destruct (memN (p_name pl) (map p_name acc)) eqn:M; [discriminate|].
    destruct (check_cidrs nodeips (p_cidrs pl) all) as [all'|] eqn:C; [|discriminate].
    intros H -> I ND.
    destruct (parse_pool_spec _ _ _ P) as (Hn & Hper & Hc & _).
    assert (G : Forall good (p_cidrs pl)) by (rewrite Hc; apply (parse_addrs_exact _ _ Hper)).
    destruct (check_cidrs_inv _ _ _ _ C G I) as [-> I'].
    destruct (IH _ _ _ H) as (news & -> & F & I'' & ND'').
    + rewrite flat_map_app. cbn. rewrite app_nil_r. reflexivity.
    + assumption.
    + rewrite map_app. cbn. apply NoDup_app_snoc; [assumption|].
      intros Hin. apply memN_in in Hin. congruence.
    + exists (pl :: news). rewrite <- app_assoc in *. cbn [app] in *. split; [reflexivity|]. split; [constructor; assumption|]. split; assumption.
Qed.

(* ------------------------------------------------------------------ accepted configurations *)
Definition bgp_exact (Q : N -> bgpadv -> Prop) (p0 p : pool) : Prop :=
  core p0 = core p /\ forall b, In b (p_bgp p) <-> Q (p_name p0) b.

Record accepted_facts (r : resources) (out : pools_out) (ps0 ps2 : list pool) : Prop := {
  af_perm : Permutation (po_pools out) ps2;
  af_parsed : Forall2 (fun c p0 => parse_pool (r_nss r) c = Some p0) (r_pools r) ps0;
  af_grown : Forall2 (bgp_exact (bgp_wanted (r_pools r) (r_nodes r) (r_bgp r) ps0)) ps0 ps2;
  af_inv : cidrs_inv (node_ips (r_nodes r)) (flat_map p_cidrs ps0);
  af_nodup : NoDup (map p_name ps0);
  af_ok : Forall pool_ok ps2 }.

Lemma keep_l2_names ps ps' : Forall2 keep_l2 ps ps' -> map p_name ps = map p_name ps'.
Proof. induction 1 as [|p p' l l' [H _] F IH]; cbn; [reflexivity|]. rewrite IH, (core_name _ _ H). reflexivity. Qed.

Lemma pools_for_accepted iter r out : pools_for iter r = Some out -> exists ps0 ps2, accepted_facts r out ps0 ps2.
Proof.
  unfold pools_for.
  destruct (pools_loop _ _ _ _ _) as [ps0|] eqn:L; [|discriminate].
  destruct (set_l2 _ _ _ _) as [ps1|] eqn:S1; [|discriminate].
  destruct (set_bgp _ _ _ _) as [ps2|] eqn:S2; [|discriminate].
  intros [= <-]. cbn [po_pools]. exists ps0, ps2.
  destruct (pools_loop_inv _ _ _ _ _ _ L eq_refl) as (news & E & F & I & ND).
  { split; [constructor|split; constructor]. }
  { constructor. }
  cbn [app] in E. subst news.
  pose proof (set_l2_keeps _ _ _ _ _ S1) as K.
  pose proof (set_bgp_grows _ _ _ _ _ S2) as G.
  pose proof (keep_l2_names _ _ K) as Nm.
  assert (B0 : Forall (fun p => p_bgp p = []) ps0).
  { clear - F. induction F as [|c p l l' H F IH]; constructor; [|assumption].
    apply parse_pool_spec in H. tauto. }
  constructor.
  - apply ksort_perm.
  - assumption.
  - eapply (Forall2_trans' keep_l2 (grows (bgp_wanted (r_pools r) (r_nodes r) (r_bgp r) ps1))); [|exact K|exact G].
    intros p0 p1 p Hp0 [C1 B1] (C2 & _ & M2). rewrite Forall_forall in B0. specialize (B0 _ Hp0).
    split; [congruence|]. intros b. rewrite M2, <- B1, B0, <- (core_name _ _ C1). cbn [In]. unfold bgp_wanted.
    split.
    + intros [[]|[c [Hc [Hp Ht]]]]. exists c. repeat split; auto.
      rewrite (targets_names _ _ _ ps0 ps1 Nm). assumption.
    + intros [c [Hc [Hp Ht]]]. right. exists c. repeat split; auto.
      rewrite <- (targets_names _ _ _ ps0 ps1 Nm). assumption.
  - assumption.
  - assumption.
  - eapply set_bgp_ok; [exact S2| |].
    + rewrite <- Nm. assumption.
    + apply Forall_forall. intros p Hp. destruct (Forall2_in_r _ _ _ _ K Hp) as [p0 [Hp0 [_ Hb]]].
      rewrite Forall_forall in B0. specialize (B0 _ Hp0). split.
      * unfold lp_ok. rewrite <- Hb, B0. constructor.
      * rewrite <- Hb, B0. constructor.
Qed.

Lemma flat_map_core ps ps' (R : pool -> pool -> Prop) : (forall a b, R a b -> core a = core b) ->
  Forall2 R ps ps' -> flat_map p_cidrs ps = flat_map p_cidrs ps'.
Proof. intros H. induction 1; cbn; [reflexivity|]. rewrite IHForall2, (core_cidrs _ _ (H _ _ H0)). reflexivity. Qed.

Lemma disjoint_sym a b : disjoint a b -> disjoint b a.
Proof. intros H x C1 C2. exact (H x C2 C1). Qed.

(* all accepted CIDRs, within and between pools, are pairwise disjoint *)
Theorem accepted_disjoint iter r out : pools_for iter r = Some out ->
  ForallOrdPairs disjoint (flat_map p_cidrs (po_pools out)).
Proof.
  intros H. destruct (pools_for_accepted _ _ _ H) as (ps0 & ps2 & A).
  destruct (af_inv _ _ _ _ A) as (I1 & _ & I3).
  apply (FOP_perm disjoint (flat_map p_cidrs ps2)); [apply disjoint_sym| |].
  - symmetry. apply flat_map_perm. apply (af_perm _ _ _ _ A).
  - rewrite <- (flat_map_core ps0 ps2 _ (fun a b (H : bgp_exact _ a b) => proj1 H) (af_grown _ _ _ _ A)).
    eapply FOP_impl_in; [|exact I1]. rewrite Forall_forall in I3.
    intros a b Ha Hb. apply overlap_false_disjoint; auto.
Qed.

Lemma accepted_pool_origin iter r out p : pools_for iter r = Some out -> In p (po_pools out) ->
  exists c p0, In c (r_pools r) /\ parse_pool (r_nss r) c = Some p0 /\ core p0 = core p.
Proof.
  intros H Hp. destruct (pools_for_accepted _ _ _ H) as (ps0 & ps2 & A).
  apply (Permutation_in _ (af_perm _ _ _ _ A)) in Hp.
  destruct (Forall2_in_r _ _ _ _ (af_grown _ _ _ _ A) Hp) as [p0 [Hp0 [C _]]].
  destruct (Forall2_in_r _ _ _ _ (af_parsed _ _ _ _ A) Hp0) as [c [Hc P]].
  exists c, p0. auto.
Qed.

Lemma accepted_cr_pool iter r out c : pools_for iter r = Some out -> In c (r_pools r) ->
  exists p p0, In p (po_pools out) /\ parse_pool (r_nss r) c = Some p0 /\ core p0 = core p.
Proof.
  intros H Hc. destruct (pools_for_accepted _ _ _ H) as (ps0 & ps2 & A).
  destruct (Forall2_in_l _ _ _ _ (af_parsed _ _ _ _ A) Hc) as [p0 [Hp0 P]].
  destruct (Forall2_in_l _ _ _ _ (af_grown _ _ _ _ A) Hp0) as [p [Hp [C _]]].
  exists p, p0. split; [|auto]. apply (Permutation_in _ (Permutation_sym (af_perm _ _ _ _ A))). assumption.
Qed.

(* no node's internal IP lies in an accepted pool *)
Theorem no_node_ip iter r out p c x : pools_for iter r = Some out ->
  In p (po_pools out) -> In c (p_cidrs p) -> In x (node_ips (r_nodes r)) -> contains c x = false.
Proof.
  intros H Hp Hc Hx. destruct (pools_for_accepted _ _ _ H) as (ps0 & ps2 & A).
  apply (Permutation_in _ (af_perm _ _ _ _ A)) in Hp.
  destruct (Forall2_in_r _ _ _ _ (af_grown _ _ _ _ A) Hp) as [p0 [Hp0 [C _]]].
  destruct (af_inv _ _ _ _ A) as (_ & I2 & _). rewrite Forall_forall in I2.
  apply (I2 c); [|assumption]. apply in_flat_map. exists p0. split; [assumption|].
  rewrite (core_cidrs _ _ C). assumption.
Qed.

(* the address set of a pool is exactly what was written *)
Lemma parse_pool_exact nss c p0 : parse_pool nss c = Some p0 ->
  forall x, in_prefixes (p_cidrs p0) x <-> exists a, In a (pl_addrs c) /\ addr_denotes a x.
Proof.
  intros P. destruct (parse_pool_spec _ _ _ P) as (_ & Hper & Hc & _). rewrite Hc.
  apply (parse_addrs_exact _ _ Hper).
Qed.

Theorem parse_exact iter r out : pools_for iter r = Some out ->
  (forall p, In p (po_pools out) -> exists c, In c (r_pools r) /\ pl_name c = p_name p /\
     forall x, in_prefixes (p_cidrs p) x <-> exists a, In a (pl_addrs c) /\ addr_denotes a x) /\
  (forall c, In c (r_pools r) -> exists p, In p (po_pools out) /\ pl_name c = p_name p /\
     forall x, in_prefixes (p_cidrs p) x <-> exists a, In a (pl_addrs c) /\ addr_denotes a x).
Proof.
  intros H. split.
  - intros p Hp. destruct (accepted_pool_origin _ _ _ _ H Hp) as (c & p0 & Hc & P & C).
    exists c. split; [assumption|]. destruct (parse_pool_spec _ _ _ P) as (Hn & _).
    split; [rewrite <- (core_name _ _ C); auto|]. rewrite <- (core_cidrs _ _ C). apply (parse_pool_exact _ _ _ P).
  - intros c Hc. destruct (accepted_cr_pool _ _ _ _ H Hc) as (p & p0 & Hp & P & C).
    exists p. split; [assumption|]. destruct (parse_pool_spec _ _ _ P) as (Hn & _).
    split; [rewrite <- (core_name _ _ C); auto|]. rewrite <- (core_cidrs _ _ C). apply (parse_pool_exact _ _ _ P).
Qed.

(* ------------------------------------------------------------------ attachment *)
Definition wants (crs : list pool_cr) (names : list N) (ss : list sel) (n : N) : Prop :=
  (names = [] /\ ss = []) \/ In n names \/
  exists c, In c crs /\ pl_name c = n /\ matches_any ss (pl_labels c) = true.

Lemma selected_pools_in crs ss n :
  In n (selected_pools crs ss) <-> exists c, In c crs /\ pl_name c = n /\ matches_any ss (pl_labels c) = true.
Proof.
  unfold selected_pools. rewrite in_map_iff. split.
  - intros [c [E Hc]]. apply filter_In in Hc. exists c. tauto.
  - intros [c [Hc [E M]]]. exists c. split; [assumption|]. apply filter_In. auto.
Qed.

Lemma targets_spec crs names ss ps n : In n (map p_name ps) ->
  (In n (targets crs names ss ps) <-> wants crs names ss n).
Proof.
  intros Hn. unfold targets, wants.
  assert (G : In n (filter (fun n0 => memN n0 (map p_name ps)) (names ++ selected_pools crs ss)) <->
              In n names \/ exists c, In c crs /\ pl_name c = n /\ matches_any ss (pl_labels c) = true).
  { rewrite filter_In, in_app_iff, selected_pools_in, memN_in. tauto. }
  destruct names as [|n0 nr], ss as [|s0 sr]; try (rewrite G; split; [tauto|intros [[? ?]|?]; [discriminate|assumption]]).
  split; [auto|]. intros _. assumption.
Qed.

(* a BGP advertisement is attached to exactly the pools it names or selects (all pools when
   it names none) *)
Theorem adv_attach_exact iter r out p b : pools_for iter r = Some out -> In p (po_pools out) ->
  (In b (p_bgp p) <-> exists c, In c (r_bgp r) /\ parse_bgp (r_nodes r) c = Some b /\
                                 wants (r_pools r) (bg_pools c) (bg_psels c) (p_name p)).
Proof.
  intros H Hp. destruct (pools_for_accepted _ _ _ H) as (ps0 & ps2 & A).
  apply (Permutation_in _ (af_perm _ _ _ _ A)) in Hp.
  destruct (Forall2_in_r _ _ _ _ (af_grown _ _ _ _ A) Hp) as [p0 [Hp0 [C M]]].
  rewrite M. unfold bgp_wanted. rewrite <- (core_name _ _ C).
  assert (Hn : In (p_name p0) (map p_name ps0)) by (apply in_map; assumption).
  split; intros [c [Hc [P T]]]; exists c; repeat split; auto; [apply (targets_spec _ _ _ ps0)|apply (targets_spec _ _ _ ps0) in T]; auto.
Qed.

(* with exactly the nodes its node selectors match (all nodes when it has none) *)
Theorem nodes_exact nodes c b : parse_bgp nodes c = Some b ->
  forall n, In n (ba_nodes b) <-> exists nd, In nd nodes /\ nd_name nd = n /\
                                   (bg_nsels c = [] \/ matches_any (bg_nsels c) (nd_labels nd) = true).
Proof.
  unfold parse_bgp. destruct (_ && _); [|discriminate]. intros [= <-] n. cbn [ba_nodes].
  unfold selected_nodes. rewrite setN_in, in_map_iff. split.
  - intros [nd [E Hnd]]. apply filter_In in Hnd. destruct Hnd as [Hnd M]. exists nd. repeat split; auto.
    destruct (bg_nsels c); [left; reflexivity|right; assumption].
  - intros [nd [Hnd [E M]]]. exists nd. split; [assumption|]. apply filter_In. split; [assumption|].
    destruct (bg_nsels c) eqn:Es; [reflexivity|]. destruct M as [M|M]; [discriminate|assumption].
Qed.

Theorem l2_nodes_exact nodes c a : parse_l2 nodes c = Some a ->
  forall n, In n (la_nodes a) <-> exists nd, In nd nodes /\ nd_name nd = n /\
                                   (l2_nsels c = [] \/ matches_any (l2_nsels c) (nd_labels nd) = true).
Proof.
  unfold parse_l2. destruct (_ && _); [|discriminate]. intros [= <-] n. cbn [la_nodes].
  unfold selected_nodes. rewrite setN_in, in_map_iff. split.
  - intros [nd [E Hnd]]. apply filter_In in Hnd. destruct Hnd as [Hnd M]. exists nd. repeat split; auto.
    destruct (l2_nsels c); [left; reflexivity|right; assumption].
  - intros [nd [Hnd [E M]]]. exists nd. split; [assumption|]. apply filter_In. split; [assumption|].
    destruct (l2_nsels c) eqn:Es; [reflexivity|]. destruct M as [M|M]; [discriminate|assumption].
Qed.

(* ------------------------------------------------------------------ aggregation *)
Lemma lowest_single q : lowest [q] = plen q.
Proof. reflexivity. Qed.

Lemma agg_of_le_width a f : ba_agg4 a <= 32 -> ba_agg6 a <= 128 -> agg_of a f <= width f.
Proof. destruct f; cbn; auto. Qed.

(* an address entry that is one CIDR q (written as a CIDR, or a range that is one block):
   the aggregate of any address of q, for any attached advertisement, stays inside q *)
Theorem aggregate_in_cidr iter r out c : pools_for iter r = Some out -> In c (r_pools r) ->
  exists p, In p (po_pools out) /\ p_name p = pl_name c /\
    forall a q b x y, In a (pl_addrs c) -> parse_addr a = Some [q] -> In b (p_bgp p) ->
      contains q x = true -> contains (mask_to (agg_of b (pfam q)) x) y = true -> contains q y = true.
Proof.
  intros H Hc. destruct (pools_for_accepted _ _ _ H) as (ps0 & ps2 & A).
  destruct (Forall2_in_l _ _ _ _ (af_parsed _ _ _ _ A) Hc) as [p0 [Hp0 P]].
  destruct (Forall2_in_l _ _ _ _ (af_grown _ _ _ _ A) Hp0) as [p [Hp [C _]]].
  exists p. split; [apply (Permutation_in _ (Permutation_sym (af_perm _ _ _ _ A))); assumption|].
  destruct (parse_pool_spec _ _ _ P) as (Hn & Hper & _).
  split; [rewrite <- (core_name _ _ C); assumption|].
  intros a q b x y Ha Pa Hb Cx Cy.
  pose proof (af_ok _ _ _ _ A) as OK. rewrite Forall_forall in OK. destruct (OK _ Hp) as [_ G].
  rewrite Forall_forall in G. destruct (G _ Hb) as (H4 & H6 & Hl).
  apply parse_addrs_spec in Hper. destruct (Forall2_in_l _ _ _ _ Hper Ha) as [cs [Hcs Pcs]].
  rewrite Pa in Pcs. injection Pcs as <-. rewrite <- (core_per _ _ C) in Hl.
  specialize (Hl q [] Hcs). rewrite lowest_single in Hl.
  eapply aggregate_contained; [exact Hl| |exact Cx|exact Cy].
  apply agg_of_le_width; assumption.
Qed.

(* ------------------------------------------------------------------ local preference *)
Definition peers_overlap (a b : bgpadv) : Prop :=
  ba_peers a = [] \/ ba_peers b = [] \/ exists x, In x (ba_peers a) /\ In x (ba_peers b).
Definition collide (a b : bgpadv) (p : pool) : Prop :=
  (exists n, In n (ba_nodes a) /\ In n (ba_nodes b)) /\ peers_overlap a b /\
  exists f, pool_has f p = true /\ agg_of a f = agg_of b f.

Lemma existsb_mem l l' : existsb (fun x => memN x l') l = true <-> exists x, In x l /\ In x l'.
Proof.
  rewrite existsb_exists. split; intros [x [H1 H2]]; exists x; split; auto; apply memN_in; assumption.
Qed.

Lemma aggr_different_spec a b p :
  aggr_different a b p = false <-> exists f, pool_has f p = true /\ agg_of a f = agg_of b f.
Proof.
  unfold aggr_different.
  destruct (N.eqb_spec (ba_agg4 a) (ba_agg4 b)) as [E4|E4], (N.eqb_spec (ba_agg6 a) (ba_agg6 b)) as [E6|E6],
    (pool_has F4 p) eqn:H4, (pool_has F6 p) eqn:H6; cbn [negb andb]; split; intros H;
    try discriminate; try reflexivity;
    try (destruct H as [[|] [Hf Ef]]; cbn [agg_of] in Ef; congruence);
    try (exists F4; split; [assumption|exact E4]); try (exists F6; split; [assumption|exact E6]).
Qed.

Lemma compatible_spec a b p : compatible a b p = true <-> ~ collide a b p.
Proof.
  unfold compatible, collide.
  destruct (aggr_different a b p) eqn:D.
  - split; [|reflexivity]. intros _ (_ & _ & Hf). apply aggr_different_spec in Hf. congruence.
  - apply aggr_different_spec in D.
    assert (PO : (match ba_peers a, ba_peers b with
                  | _ :: _, _ :: _ => negb (existsb (fun x => memN x (ba_peers b)) (ba_peers a))
                  | _, _ => false end) = false <-> peers_overlap a b).
    { unfold peers_overlap. destruct (ba_peers a) as [|x xs] eqn:Ea, (ba_peers b) as [|y ys] eqn:Eb;
        try (split; [auto|reflexivity]).
      rewrite negb_false_iff, existsb_mem. split; [auto|]. intros [?|[?|?]]; [discriminate|discriminate|assumption]. }
    destruct (match ba_peers a, ba_peers b with _ :: _, _ :: _ => _ | _, _ => false end) eqn:PE.
    + split; [|reflexivity]. intros _ (_ & Hp & _). apply PO in Hp. discriminate.
    + rewrite negb_true_iff. split.
      * intros E (Hn & _ & _). apply existsb_mem in Hn. congruence.
      * intros Hc. destruct (existsb (fun n => memN n (ba_nodes b)) (ba_nodes a)) eqn:E; [|reflexivity]. exfalso. apply Hc.
        split; [apply existsb_mem; assumption|]. split; [apply PO; reflexivity|assumption].
Qed.

Lemma collide_sym a b p : collide a b p -> collide b a p.
Proof.
  intros ([n [H1 H2]] & Hp & [f [Hf E]]). split; [exists n; auto|]. split.
  - destruct Hp as [?|[?|[x [? ?]]]]; unfold peers_overlap; eauto.
  - exists f. auto.
Qed.

(* advertisementsAreCompatible is symmetric: the verdict of validateBGPAdvPerPool on a pair does
   not depend on which of the two advertisements was attached first *)
Lemma compatible_sym a b p : compatible a b p = compatible b a p.
Proof.
  apply Bool.eq_true_iff_eq. rewrite !compatible_spec. split; intros H C; apply H, collide_sym, C.
Qed.

(* two advertisements attached to one accepted pool with different local preferences never
   collide (i.e. a colliding pair is rejected) *)
Theorem localpref_no_collision iter r out p : pools_for iter r = Some out -> In p (po_pools out) ->
  ForallOrdPairs (fun a b => ba_lp a <> ba_lp b -> ~ collide a b p) (p_bgp p).
Proof.
  intros H Hp. destruct (pools_for_accepted _ _ _ H) as (ps0 & ps2 & A).
  apply (Permutation_in _ (af_perm _ _ _ _ A)) in Hp.
  pose proof (af_ok _ _ _ _ A) as OK. rewrite Forall_forall in OK. destruct (OK _ Hp) as [L _].
  eapply FOP_impl_in; [|exact L]. cbn. intros a b _ _ [E|Cm] Hne Hc; [congruence|].
  apply compatible_spec in Cm. apply Cm. apply collide_sym. assumption.
Qed.
