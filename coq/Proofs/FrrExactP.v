(* Lifting the block-level evaluation (FrrOutP.block_eval) to the rendered
   configuration: frr_out_offered / frr_out_exact, lists_defined and
   property_lists_subset_allowed for the whole configuration. *)
From Coq Require Import String NArith Bool List Sorted Lia.
From Verif Require Import Model.FrrSpec Proofs.FrrSortP Proofs.FrrListsP Proofs.FrrShapeP Proofs.FrrP Proofs.FrrSemP Proofs.FrrOutP.
Import ListNotations.
Open Scope string_scope.

(* ---------- generic list lemmas ---------- *)
Lemma all_some_forall2 {A B} (f : A -> option B) l r :
  all_some (map f l) = Some r -> Forall2 (fun x y => f x = Some y) l r.
Proof.
  revert r; induction l as [|x l IH]; simpl; intros r H.
  - inversion H; constructor.
  - destruct (f x) as [y|] eqn:E; [|discriminate]. destruct (all_some (map f l)) as [r'|]; [|discriminate].
    inversion H; subst. constructor; [assumption|apply IH; reflexivity].
Qed.

Lemma forall2_map_inv {A B C} (f : A -> option B) (g : B -> C) (h : A -> C) l r :
  Forall2 (fun x y => f x = Some y) l r -> (forall x y, f x = Some y -> g y = h x) -> map g r = map h l.
Proof. induction 1; intros Hg; simpl; [reflexivity|]. rewrite (Hg _ _ H), IHForall2; auto. Qed.

Lemma flat_map_nil {A B} (f : A -> list B) l : (forall y, In y l -> f y = []) -> flat_map f l = [].
Proof.
  induction l as [|x l IH]; intros H; simpl; [reflexivity|].
  rewrite (H x (or_introl eq_refl)), IH; [reflexivity|]. intros y Hy; apply H; right; assumption.
Qed.

Lemma flat_map_only {A B} (phi : A -> string) (f : A -> list B) l x :
  NoDup (map phi l) -> In x l -> (forall y, In y l -> phi y <> phi x -> f y = []) -> flat_map f l = f x.
Proof.
  induction l as [|z l IH]; simpl; intros Hn Hx H; [contradiction|].
  inversion Hn as [|? ? Hnotin Hn']; subst. destruct Hx as [->|Hx].
  - rewrite flat_map_nil; [apply app_nil_r|]. intros y Hy. apply H; [right; assumption|].
    intros E. apply Hnotin. rewrite <- E. apply in_map; assumption.
  - rewrite (H z (or_introl eq_refl)).
    + simpl. apply IH; try assumption. intros y Hy; apply H; right; assumption.
    + intros E. apply Hnotin. rewrite E. apply in_map; assumption.
Qed.

Lemma map_flat_map {A B C} (g : B -> C) (f : A -> list B) l : map g (flat_map f l) = flat_map (fun x => map g (f x)) l.
Proof. induction l as [|x l IH]; simpl; [reflexivity|]. rewrite map_app, IH. reflexivity. Qed.

Lemma find_unique {A} (P : A -> bool) l x :
  In x l -> P x = true -> (forall y, In y l -> P y = true -> y = x) -> find P l = Some x.
Proof.
  induction l as [|z l IH]; simpl; intros Hx Px Hu; [contradiction|].
  destruct (P z) eqn:Pz.
  - f_equal. apply Hu; auto.
  - destruct Hx as [->|Hx]; [congruence|]. apply IH; auto.
Qed.

Lemma nodup_all_eq {A} (l : list A) s : NoDup l -> (forall x, In x l -> x = s) -> In s l -> l = [s].
Proof.
  intros Hn Ha Hs. destruct l as [|x l]; [contradiction|]. assert (x = s) by (apply Ha; left; reflexivity). subst x.
  destruct l as [|y l]; [reflexivity|]. exfalso. inversion Hn as [|? ? Hnot _]; subst. apply Hnot.
  assert (y = s) by (apply Ha; right; left; reflexivity). subst. left; reflexivity.
Qed.

(* ---------- structure of create_config under wf_sessions ---------- *)
Lemma mk_router_first S k r : mk_router S k = Some r -> In (rc_first r) S /\ rkey (rc_first r) = k.
Proof.
  intros H. destruct (mk_router_spec _ _ _ H) as (f & rest & E & F & _). rewrite F.
  assert (In f (sessions_with rkey k S)) by (rewrite E; left; reflexivity). apply sessions_with_in in H0. exact H0.
Qed.

Lemma cc_keys S rs : create_config S = Some rs ->
  map (fun r => rkey (rc_first r)) rs = sort_s (map rkey S) /\
  forall r, In r rs -> mk_router S (rkey (rc_first r)) = Some r.
Proof.
  unfold create_config. intros H. pose proof (all_some_forall2 _ _ _ H) as F. split.
  - rewrite (forall2_map_inv _ (fun r => rkey (rc_first r)) (fun k => k) _ _ F); [apply map_id|].
    intros k r Hk. apply (proj2 (mk_router_first _ _ _ Hk)).
  - intros r Hr. pose proof (all_some_in _ _ _ H Hr) as Hin. apply in_map_iff in Hin as (k & Hk & _).
    rewrite (proj2 (mk_router_first _ _ _ Hk)). exact Hk.
Qed.

(* the two facts about the session list the grouping needs *)
Definition wf_lite (S : list session) : Prop :=
  NoDup S /\ forall s t, In s S -> In t S -> rkey s = rkey t -> nname s = nname t -> s = t.

Lemma wf_lite_of S : wf_sessions S -> wf_lite S.
Proof. intros W. split; [apply (wf_nodup _ W)|apply (wf_nbr _ W)]. Qed.

Lemma singleton_group_lite S s : wf_lite S -> In s S ->
  sessions_with nname (nname s) (sessions_with rkey (rkey s) S) = [s].
Proof.
  intros [Hnd Hnb] Hs. apply nodup_all_eq.
  - unfold sessions_with. apply NoDup_filter, NoDup_filter. exact Hnd.
  - intros x Hx. apply sessions_with_in in Hx as [Hx Nx]. apply sessions_with_in in Hx as [Hx Kx].
    apply Hnb; assumption.
  - apply sessions_with_in. split; [|reflexivity]. apply sessions_with_in. split; [assumption|reflexivity].
Qed.

Lemma singleton_group S s : wf_sessions S -> In s S ->
  sessions_with nname (nname s) (sessions_with rkey (rkey s) S) = [s].
Proof. intros W. apply singleton_group_lite, wf_lite_of, W. Qed.

(* every neighbor of a router is built from exactly one session of that router *)
Lemma router_nbr_lite S k r n : wf_lite S -> mk_router S k = Some r -> In n (rc_nbrs r) ->
  In (nc_s n) S /\ rkey (nc_s n) = k /\ mk_neighbor (nc_s n) (s_advs (nc_s n)) = Some n.
Proof.
  intros W Hr Hn. destruct (mk_router_spec _ _ _ Hr) as (f & rest & E & _ & _ & _ & Hnb).
  destruct (Hnb n Hn) as (g & more & Eg & Hmk).
  assert (Hg: In g (sessions_with rkey k S)).
  { rewrite E. assert (In g (sessions_with nname (nname g) (f :: rest))) by (rewrite Eg; left; reflexivity).
    apply sessions_with_in in H. tauto. }
  apply sessions_with_in in Hg as [HgS Kg].
  rewrite <- E, <- Kg, (singleton_group_lite S g W HgS) in Eg. inversion Eg; subst more.
  simpl in Hmk. rewrite app_nil_r in Hmk.
  pose proof (proj1 (mk_neighbor_covers _ _ _ Hmk)) as Hs. rewrite Hs. auto.
Qed.

Lemma router_nbr S k r n : wf_sessions S -> mk_router S k = Some r -> In n (rc_nbrs r) ->
  In (nc_s n) S /\ rkey (nc_s n) = k /\ mk_neighbor (nc_s n) (s_advs (nc_s n)) = Some n.
Proof. intros W. apply router_nbr_lite, wf_lite_of, W. Qed.

Lemma router_nbr_names S k r : mk_router S k = Some r ->
  map (fun n => nname (nc_s n)) (rc_nbrs r) = sort_s (map nname (sessions_with rkey k S)).
Proof.
  unfold mk_router. destruct (sessions_with rkey k S) as [|f rest] eqn:E; [discriminate|].
  destruct (all_some _) as [ns|] eqn:E2; [|discriminate]. intros H; inversion H; subst; simpl.
  pose proof (all_some_forall2 _ _ _ E2) as F.
  rewrite (forall2_map_inv _ (fun n => nname (nc_s n)) (fun nn => nn) _ _ F); [apply map_id|].
  intros nn n Hn. destruct (sessions_with nname nn (f :: rest)) as [|g more] eqn:E3; [discriminate|].
  rewrite (proj1 (mk_neighbor_covers _ _ _ Hn)).
  assert (In g (sessions_with nname nn (f :: rest))) by (rewrite E3; left; reflexivity).
  apply sessions_with_in in H0. tauto.
Qed.

(* the router and the neighbor of a session *)
Lemma session_nbr_lite S rs s : wf_lite S -> create_config S = Some rs -> In s S ->
  exists r n, In r rs /\ mk_router S (rkey s) = Some r /\ In n (rc_nbrs r) /\ nc_s n = s /\
              mk_neighbor s (s_advs s) = Some n.
Proof.
  intros W Hc Hs. destruct (cc_keys _ _ Hc) as [Hk Hr].
  assert (Hin: In (rkey s) (map (fun r => rkey (rc_first r)) rs)) by (rewrite Hk; apply sort_s_in, in_map; assumption).
  apply in_map_iff in Hin as (r & Kr & Hrin). exists r. pose proof (Hr r Hrin) as Hmr. rewrite Kr in Hmr.
  assert (Hnn: In (nname s) (map (fun n => nname (nc_s n)) (rc_nbrs r))).
  { rewrite (router_nbr_names _ _ _ Hmr). apply sort_s_in, in_map. apply sessions_with_in. auto. }
  apply in_map_iff in Hnn as (n & Nn & Hn). exists n.
  destruct (router_nbr_lite _ _ _ _ W Hmr Hn) as (HS & K & Hmk).
  assert (nc_s n = s) by (apply (proj2 W); assumption). rewrite H in Hmk. auto.
Qed.

Lemma session_nbr S rs s : wf_sessions S -> create_config S = Some rs -> In s S ->
  exists r n, In r rs /\ mk_router S (rkey s) = Some r /\ In n (rc_nbrs r) /\ nc_s n = s /\
              mk_neighbor s (s_advs s) = Some n.
Proof. intros W. apply session_nbr_lite, wf_lite_of, W. Qed.

(* ---------- items of the rendered configuration ---------- *)
Lemma forall_map_seq0 {X} (g : X -> seqspec * item) l :
  (forall z, strip (snd (g z)) = snd (g z)) -> Forall (fun x => strip (snd x) = snd x) (map g l).
Proof. intros H. apply Forall_forall. intros x Hx. apply in_map_iff in Hx as (z & <- & _). apply H. Qed.

Lemma block_seq0_all n : Forall (fun x => strip (snd x) = snd x) (neighbor_filters n).
Proof.
  unfold neighbor_filters.
  repeat (apply Forall_app; split); try (apply forall_map_seq0; intros; reflexivity).
  - repeat constructor.
  - apply Forall_forall. intros x Hx. apply in_flat_map in Hx as (y & _ & H). unfold adv_lines in H. rewrite !in_app_iff in H.
    destruct H as [H|[H|[H|H]]].
    + destruct (N.eqb (ac_lp y) 0); [contradiction|]. destruct H as [<-|[]]. reflexivity.
    + apply in_map_iff in H as (z & <- & _). reflexivity.
    + apply in_map_iff in H as (z & <- & _). reflexivity.
    + destruct H as [<-|[]]. reflexivity.
  - destruct (nc_has4 n); repeat constructor.
  - destruct (nc_has6 n); repeat constructor.
  - repeat constructor.
Qed.

Lemma block_seq0 n x : In x (neighbor_filters n) -> strip (snd x) = snd x.
Proof. intros H. exact (proj1 (Forall_forall _ _) (block_seq0_all n) x H). Qed.

Definition blocks (rs : list rconf) : list item := flat_map (fun r => flat_map block (rc_nbrs r)) rs.

Lemma stripped_items S c rs : render S = Some c -> create_config S = Some rs -> map strip (items c) = blocks rs.
Proof.
  intros Hr Hc. unfold render in Hr. rewrite Hc in Hr. inversion Hr; subst c; clear Hr. simpl.
  rewrite number_strip. unfold blocks, filters_of, block.
  rewrite <- (map_ext_in snd (fun x => strip (snd x))).
  - rewrite map_flat_map. apply flat_map_ext. intros r. apply map_flat_map.
  - intros x Hx. apply in_flat_map in Hx as (r & _ & Hx). apply in_flat_map in Hx as (n & _ & Hx).
    symmetry. eapply block_seq0; eassumption.
Qed.

Lemma blocks_in rs it : In it (blocks rs) <-> exists n, In n (all_nbrs rs) /\ In it (block n).
Proof.
  unfold blocks, all_nbrs. rewrite in_flat_map. split.
  - intros (r & Hr & H). apply in_flat_map in H as (n & Hn & H). exists n. split; [apply in_flat_map; exists r; auto|assumption].
  - intros (n & Hn & H). apply in_flat_map in Hn as (r & Hr & Hn). exists r. split; [assumption|]. apply in_flat_map. exists n; auto.
Qed.

Lemma block_ipl_seq n a nm sq pm q : In (IPl a nm sq pm q) (block n) -> sq = 0%N.
Proof.
  unfold block. intros H. apply in_map_iff in H as (x & E & Hx). pose proof (block_seq0 n x Hx) as Z.
  rewrite E in Z. simpl in Z. inversion Z. reflexivity.
Qed.

Lemma items_ipl S c rs a nm pm q : render S = Some c -> create_config S = Some rs ->
  ((exists sq, In (IPl a nm sq pm q) (items c)) <-> exists n, In n (all_nbrs rs) /\ In (IPl a nm 0 pm q) (block n)).
Proof.
  intros Hr Hc. rewrite <- (blocks_in rs (IPl a nm 0 pm q)), <- (stripped_items _ _ _ Hr Hc). split.
  - intros (sq & H). apply in_map_iff. exists (IPl a nm sq pm q). split; [reflexivity|assumption].
  - intros H. apply in_map_iff in H as (it & E & Hit). destruct it as [|a' nm' sq pm' q']; simpl in E; [discriminate|].
    inversion E; subst. exists sq; assumption.
Qed.

Lemma all_nbrs_in rs n : In n (all_nbrs rs) <-> exists r, In r rs /\ In n (rc_nbrs r).
Proof. unfold all_nbrs. apply in_flat_map. Qed.

Lemma nbr_session S rs n : wf_sessions S -> create_config S = Some rs -> In n (all_nbrs rs) ->
  In (nc_s n) S /\ mk_neighbor (nc_s n) (s_advs (nc_s n)) = Some n.
Proof.
  intros W Hc Hn. apply all_nbrs_in in Hn as (r & Hr & Hn). destruct (cc_keys _ _ Hc) as [_ Hk].
  destruct (router_nbr _ _ _ _ W (Hk r Hr) Hn) as (A & _ & B). auto.
Qed.

(* every prefix-list line of a block belongs to a logical list of its session *)
Lemma block_ipl_kind s n a nm sq pm q : mk_neighbor s (s_advs s) = Some n ->
  In (IPl a nm sq pm q) (block n) -> exists k, In k (kinds s) /\ nm = kname s k.
Proof.
  intros Hmk H. apply (block_ipl' s n Hmk) in H as [(y & Hy & _ & _ & _ & Hn)|(Hn & _)].
  - destruct Hn as [Hn|[[Hn Hz]|[(x & Hx & Hn)|(x & Hx & Hn)]]].
    + exists KAllowed. split; [apply k_allowed|assumption].
    + exists (KLp (ac_lp y)). split; [eapply k_lp_y; eauto|assumption].
    + exists (KComm x). split; [eapply k_comm_y; eauto|assumption].
    + exists (KLcomm x). split; [eapply k_lcomm_y; eauto|assumption].
  - exists KAllowed. split; [apply k_allowed|assumption].
Qed.

Section Rendered.
  Variables (S : list session) (c : frr) (rs : list rconf) (s : session) (r : rconf) (n : nconf).
  Hypothesis W : wf_sessions S.
  Hypothesis Hr : render S = Some c.
  Hypothesis Hc : create_config S = Some rs.
  Hypothesis HsS : In s S.
  Hypothesis Hrin : In r rs.
  Hypothesis Hmr : mk_router S (rkey s) = Some r.
  Hypothesis Hnin : In n (rc_nbrs r).
  Hypothesis Hns : nc_s n = s.
  Hypothesis Hmk : mk_neighbor s (s_advs s) = Some n.

  Lemma n_in_all : In n (all_nbrs rs).
  Proof. apply all_nbrs_in. exists r; auto. Qed.

  Lemma other_session_no_rm n' : In (nc_s n') S -> nc_s n' <> s -> rme_of (block n') (rm_out s) = [].
  Proof.
    intros HS Hne. apply block_rme_other.
    - intros E. exact (wf_rm_in _ W (nc_s n') s HS HsS (eq_sym E)).
    - intros E. apply Hne. symmetry. apply (wf_rm_out _ W); assumption.
  Qed.

  Lemma rendered_rm_out : rm_entries c (rm_out s) = out_entries n.
  Proof.
    assert (E: rm_entries c (rm_out s) = rme_of (map strip (items c)) (rm_out s))
      by (unfold rme_of; rewrite rm_entries_strip; reflexivity).
    rewrite E. clear E. rewrite (stripped_items _ _ _ Hr Hc). unfold blocks. rewrite rme_of_flat_map.
    destruct (cc_keys _ _ Hc) as [Hk Hmrs].
    rewrite (flat_map_only (fun r' => rkey (rc_first r')) _ rs r).
    - rewrite rme_of_flat_map.
      rewrite (flat_map_only (fun n' => nname (nc_s n')) _ (rc_nbrs r) n).
      + rewrite <- Hns. apply block_out_entries.
      + rewrite (router_nbr_names _ _ _ Hmr). apply sort_s_nodup.
      + assumption.
      + intros n' Hn' Hne. destruct (router_nbr _ _ _ _ W Hmr Hn') as (HS & _ & _).
        apply other_session_no_rm; [assumption|]. intros E. apply Hne. rewrite E, Hns. reflexivity.
    - rewrite Hk. apply sort_s_nodup.
    - assumption.
    - intros r' Hr' Hne. rewrite rme_of_flat_map. apply flat_map_nil. intros n' Hn'.
      destruct (router_nbr _ _ _ _ W (Hmrs r' Hr') Hn') as (HS & K & _).
      apply other_session_no_rm; [assumption|]. intros E. apply Hne. rewrite <- K, E.
      symmetry. apply (proj2 (mk_router_first _ _ _ Hmr)).
  Qed.

  Lemma rendered_pl a k pm q : In k (kinds s) ->
    (In (pm, q) (pl_lines c a (kname s k)) <-> exists sq, In (IPl a (kname s k) sq pm q) (block n)).
  Proof.
    intros Hk. rewrite pl_lines_in, (items_ipl _ _ _ a (kname s k) pm q Hr Hc). split.
    - intros (n' & Hn' & H). destruct (nbr_session _ _ _ W Hc Hn') as (HS & Hmk').
      destruct (block_ipl_kind _ _ _ _ _ _ _ Hmk' H) as (k' & Hk' & E).
      destruct (wf_pl _ W s (nc_s n') k k' HsS HS Hk Hk' E) as [Es _].
      rewrite <- Es in Hmk'. assert (n' = n) by congruence. subst n'. exists 0%N; assumption.
    - intros (sq & H). pose proof (block_ipl_seq _ _ _ _ _ _ H). subst sq. exists n. split; [apply n_in_all|assumption].
  Qed.

  Lemma rendered_find : find_nbr c (s_vrf s) (peer_tok s) = Some (render_router r, render_nbr (s_myasn (rc_first r)) n).
  Proof.
    destruct (render_routers _ _ Hr) as (rs' & Hc' & Hrt & _). rewrite Hc in Hc'. inversion Hc'; subst rs'. clear Hc'.
    destruct (cc_keys _ _ Hc) as [_ Hmrs].
    destruct (mk_router_first _ _ _ Hmr) as [HfS Kf].
    destruct (wf_rkey _ W _ _ HfS HsS Kf) as (_ & _ & Vf).
    unfold find_nbr. rewrite Hrt.
    rewrite (find_unique _ _ (render_router r)).
    - simpl. rewrite (find_unique _ _ (render_nbr (s_myasn (rc_first r)) n)); [reflexivity| | |].
      + apply in_map; assumption.
      + simpl. rewrite Hns. apply String.eqb_refl.
      + intros y Hy Py. apply in_map_iff in Hy as (n' & <- & Hn'). simpl in Py. apply String.eqb_eq in Py.
        destruct (router_nbr _ _ _ _ W Hmr Hn') as (HS & K & Hmk').
        assert (nc_s n' = s).
        { apply (wf_peer _ W); try assumption. destruct (wf_rkey _ W _ _ HS HsS K) as (_ & _ & V). exact V. }
        rewrite H in Hmk'. assert (n' = n) by congruence. subst; reflexivity.
    - apply in_map; assumption.
    - simpl. rewrite Vf. apply String.eqb_refl.
    - intros y Hy Py. apply in_map_iff in Hy as (r' & <- & Hr'). simpl in Py. apply String.eqb_eq in Py.
      pose proof (Hmrs r' Hr') as Hmr'. destruct (mk_router_first _ _ _ Hmr') as [HfS' _].
      assert (rkey (rc_first r') = rkey s) by (apply (wf_vrf _ W); assumption).
      rewrite H in Hmr'. assert (r' = r) by congruence. subst; reflexivity.
  Qed.

  Lemma rendered_activation a :
    activation (render_nbr (s_myasn (rc_first r)) n) a = if act_actual s a then Some (rm_in s, rm_out s) else None.
  Proof. unfold act_actual. destruct a; simpl; rewrite Hns; reflexivity. Qed.

  Theorem rendered_out_offered ft um p : route_ok S p ->
    attrs_equiv (sem_out ft um c (s_vrf s) (peer_tok s) p) (offered s p).
  Proof.
    intros Hp. unfold sem_out, offered. rewrite rendered_find, rendered_activation.
    destruct (act_actual s (pfx_afi p)); [|exact I].
    apply (block_eval ft um c s n p Hmk rendered_rm_out).
    - intros a k pm q Hk. apply rendered_pl; assumption.
    - intros k k' Hk Hk' E. apply (wf_pl _ W s s k k' HsS HsS Hk Hk' E).
    - intros a0 Ha0 T. apply Hp; [|assumption]. unfold all_pfx. apply in_map. apply in_flat_map. exists s; auto.
  Qed.
End Rendered.

(* ---------- the theorems ---------- *)
Theorem frr_out_offered ft um S c s p :
  wf_sessions S -> render S = Some c -> In s S -> route_ok S p ->
  attrs_equiv (sem_out ft um c (s_vrf s) (peer_tok s) p) (offered s p).
Proof.
  intros W Hr Hs Hp. destruct (render_routers _ _ Hr) as (rs & Hc & _).
  destruct (session_nbr _ _ _ W Hc Hs) as (r & n & Hrin & Hmr & Hn & Hns & Hmk).
  eapply rendered_out_offered; eassumption.
Qed.

Lemma intended_requested s p : intended s p = if act_intended s (pfx_afi p) then requested s p else None.
Proof. reflexivity. Qed.

Lemma act_actual_intended s a : f15_shape s = false -> act_actual s a = act_intended s a.
Proof.
  unfold f15_shape, act_actual, act_intended, activate, own_afi, nfam_of, nonempty.
  destruct (String.eqb (s_iface s) "") eqn:E; simpl.
  - intros _. destruct (s_disable_mp s), (s_addr4 s), a; reflexivity.
  - intros ->. reflexivity.
Qed.

Theorem frr_out_exact ft um S c s p :
  wf_sessions S -> render S = Some c -> In s S -> route_ok S p -> f15_shape s = false ->
  attrs_equiv (sem_out ft um c (s_vrf s) (peer_tok s) p) (intended s p).
Proof.
  intros W Hr Hs Hp Hf. rewrite intended_requested, <- (act_actual_intended s _ Hf).
  apply (frr_out_offered ft um S c s p); assumption.
Qed.

(* with F15 shape nothing at all is offered *)
Theorem frr_f15_nothing ft um S c s p :
  wf_sessions S -> render S = Some c -> In s S -> route_ok S p -> f15_shape s = true ->
  sem_out ft um c (s_vrf s) (peer_tok s) p = None.
Proof.
  intros W Hr Hs Hp Hf. pose proof (frr_out_offered ft um S c s p W Hr Hs Hp) as H.
  unfold offered, act_actual, activate, nfam_of in H. unfold f15_shape in Hf. apply andb_true_iff in Hf as [Hi Hd].
  rewrite Hi, Hd in H. destruct (pfx_afi p); simpl in H; destruct (sem_out _ _ _ _ _ _); [contradiction|reflexivity|contradiction|reflexivity].
Qed.

(* ---------- lists_defined for the whole configuration (no well-formedness needed) ---------- *)
Lemma nbr_provenance S rs n : create_config S = Some rs -> In n (all_nbrs rs) ->
  exists f advs, mk_neighbor f advs = Some n.
Proof.
  intros Hc Hn. apply all_nbrs_in in Hn as (r & Hr & Hn).
  destruct (create_config_router _ _ _ Hc Hr) as (k & _ & Hk).
  destruct (mk_router_spec _ _ _ Hk) as (f & rest & _ & _ & _ & _ & Hnb).
  destruct (Hnb n Hn) as (g & more & _ & Hmk). eauto.
Qed.

Lemma items_of_block S c rs n it : render S = Some c -> create_config S = Some rs ->
  In n (all_nbrs rs) -> In it (block n) -> exists it', In it' (items c) /\ strip it' = it.
Proof.
  intros Hr Hc Hn Hit.
  assert (In it (map strip (items c))) by (rewrite (stripped_items _ _ _ Hr Hc); apply blocks_in; eauto).
  apply in_map_iff in H as (it' & E & H). eauto.
Qed.

Lemma block_of_item S c rs it : render S = Some c -> create_config S = Some rs ->
  In it (items c) -> exists n, In n (all_nbrs rs) /\ In (strip it) (block n).
Proof.
  intros Hr Hc Hit. apply blocks_in. rewrite <- (stripped_items _ _ _ Hr Hc). apply in_map; assumption.
Qed.

Theorem lists_defined S c : render S = Some c ->
  forall nm sq pm m st nx a name, In (IRm nm sq pm m st nx) (items c) -> In (a, name) m -> pl_lines c a name <> [].
Proof.
  intros Hr nm sq pm m st nx a name Hit Hm. destruct (render_routers _ _ Hr) as (rs & Hc & _).
  destruct (block_of_item _ _ _ _ Hr Hc Hit) as (n & Hn & Hb). simpl in Hb.
  destruct (nbr_provenance _ _ _ Hc Hn) as (f & advs & Hmk).
  destruct (block_lists_defined f advs n Hmk _ _ _ _ _ _ a name Hb Hm) as (sq' & pm' & q & Hl).
  destruct (items_of_block _ _ _ _ _ Hr Hc Hn Hl) as (it' & Hit' & E).
  destruct it' as [|a' nm' sq'' pm'' q'']; simpl in E; [discriminate|]. inversion E; subst.
  intros X. assert (In (pm', q) (pl_lines c a name)) by (apply pl_lines_in; eauto). rewrite X in H. contradiction.
Qed.

Theorem lists_defined_bool S c : render S = Some c -> lists_defined_b c = true.
Proof.
  intros Hr. unfold lists_defined_b. apply forallb_forall. intros it Hit.
  destruct it as [nm sq pm m st nx|]; [|reflexivity]. apply forallb_forall. intros [a name] Hm. simpl.
  pose proof (lists_defined S c Hr _ _ _ _ _ _ a name Hit Hm). destruct (pl_lines c a name); [congruence|reflexivity].
Qed.

(* ---------- property_lists_subset_allowed ---------- *)
(* every prefix line of the configuration sits in a neighbor block whose allowed
   list has a permit line for the same prefix and family *)
Theorem subset_allowed S c a nm sq pm q : render S = Some c -> In (IPl a nm sq pm (Some q)) (items c) ->
  exists rs n sq', create_config S = Some rs /\ In n (all_nbrs rs) /\ In (IPl a nm 0 pm (Some q)) (block n) /\
                   In (IPl a (pl_allowed (nc_s n)) sq' true (Some q)) (items c).
Proof.
  intros Hr Hit. destruct (render_routers _ _ Hr) as (rs & Hc & _).
  destruct (block_of_item _ _ _ _ Hr Hc Hit) as (n & Hn & Hb). simpl in Hb.
  pose proof (block_subset_allowed _ _ _ _ _ _ Hb) as Ha.
  destruct (items_of_block _ _ _ _ _ Hr Hc Hn Ha) as (it' & Hit' & E).
  destruct it' as [|a' nm' sq'' pm'' q'']; simpl in E; [discriminate|]. inversion E; subst.
  exists rs, n, sq''. auto.
Qed.

(* for a well-formed session set: a prefix permitted by a property list of a
   neighbor is permitted by that neighbor's allowed list *)
Theorem subset_allowed_sem S c s k a q : wf_sessions S -> render S = Some c -> In s S -> In k (kinds s) ->
  In (true, Some q) (pl_lines c a (kname s k)) -> In (true, Some q) (pl_lines c a (pl_allowed s)).
Proof.
  intros W Hr Hs Hk H. destruct (render_routers _ _ Hr) as (rs & Hc & _).
  destruct (session_nbr _ _ _ W Hc Hs) as (r & n & Hrin & Hmr & Hn & Hns & Hmk).
  apply (rendered_pl S c rs s r n W Hr Hc Hs Hrin Hn Hmk a k true (Some q) Hk) in H as (sq & H).
  apply block_subset_allowed in H. rewrite Hns in H.
  apply (rendered_pl S c rs s r n W Hr Hc Hs Hrin Hn Hmk a KAllowed true (Some q) (k_allowed s)). exists 0%N. exact H.
Qed.

(* ---------- inbound, from wf_sessions ---------- *)
Lemma wf_in_out_distinct S rs : wf_sessions S -> create_config S = Some rs -> in_out_distinct rs.
Proof.
  intros W Hc n n' Hn Hn'. destruct (nbr_session _ _ _ W Hc Hn) as [A _]. destruct (nbr_session _ _ _ W Hc Hn') as [B _].
  apply (wf_rm_in _ W); assumption.
Qed.

Theorem frr_in_denied_wf ft um S c s p : wf_sessions S -> render S = Some c -> In s S ->
  sem_in ft um c (s_vrf s) (peer_tok s) p = false.
Proof.
  intros W Hr Hs. destruct (render_routers _ _ Hr) as (rs & Hc & _).
  destruct (session_nbr _ _ _ W Hc Hs) as (r & n & Hrin & Hmr & Hn & Hns & Hmk).
  unfold sem_in. rewrite (rendered_find S c rs s r n W Hr Hc Hs Hrin Hmr Hn Hns Hmk), (rendered_activation s r n Hns).
  destruct (act_actual s (pfx_afi p)); [|reflexivity].
  rewrite <- Hns at 1.
  rewrite (in_denied_rendered ft um S c rs n p no_attrs false Hr Hc (wf_in_out_distinct _ _ W Hc)); [reflexivity|].
  apply all_nbrs_in. exists r; auto.
Qed.

(* originated networks, from wf_sessions: exactly the prefixes requested in the VRF *)
Theorem frr_networks_wf S c s a : wf_sessions S -> render S = Some c -> In s S ->
  exact_pfx_set (sem_networks c (s_vrf s) a)
    (map a_pfx (advs_afi a (flat_map s_advs (sessions_with rkey (rkey s) S)))).
Proof.
  intros W Hr Hs. destruct (render_routers _ _ Hr) as (rs & Hc & Hrt & _).
  destruct (session_nbr _ _ _ W Hc Hs) as (r & n & Hrin & Hmr & Hn & Hns & Hmk).
  pose proof (rendered_find S c rs s r n W Hr Hc Hs Hrin Hmr Hn Hns Hmk) as F.
  unfold find_nbr in F. unfold sem_networks.
  destruct (find (fun r0 => String.eqb (r_vrf r0) (s_vrf s)) (routers c)) as [r0|]; [|discriminate].
  destruct (find _ (r_nbrs r0)); [|discriminate]. inversion F; subst r0.
  destruct (mk_router_spec _ _ _ Hmr) as (f & rest & E & _ & P4 & P6 & _). rewrite E.
  destruct a; simpl; assumption.
Qed.

(* ---------- address families: ip / ipv6 prefix-list namespaces ---------- *)
(* a prefix-list line is written under the keyword (ip / ipv6) of the family of its prefix *)
Theorem lines_family S c a nm sq pm q : render S = Some c -> In (IPl a nm sq pm (Some q)) (items c) -> pfx_afi q = a.
Proof.
  intros Hr Hit. destruct (render_routers _ _ Hr) as (rs & Hc & _).
  destruct (block_of_item _ _ _ _ Hr Hc Hit) as (n & Hn & Hb). simpl in Hb.
  apply block_ipl in Hb as [(y & _ & -> & E & _)|(_ & _ & E & _)]; [|discriminate]. inversion E; reflexivity.
Qed.

(* every match clause `match ip|ipv6 address prefix-list L` of the configuration refers to a list that
   is defined under that keyword, and all prefixes of that list have that family: a route of family a is
   only ever compared with lists holding advertised prefixes of family a *)
Theorem match_family S c nm sq pm m st nx a name : render S = Some c ->
  In (IRm nm sq pm m st nx) (items c) -> In (a, name) m ->
  pl_lines c a name <> [] /\ forall pm' q, In (pm', Some q) (pl_lines c a name) -> pfx_afi q = a.
Proof.
  intros Hr Hit Hm. split; [eapply lists_defined; eassumption|].
  intros pm' q Hl. apply pl_lines_in in Hl as (sq' & Hl). eapply lines_family; eassumption.
Qed.
