From Coq Require Import List NArith Bool Lia Permutation.
From Verif Require Import Model.Elect.
Local Open Scope N_scope.

Lemma mem_In n l : mem n l = true <-> In n l.
Proof.
  unfold mem. rewrite existsb_exists. split.
  - intros [x [Hx He]]. apply N.eqb_eq in He. subst. exact Hx.
  - intros H. exists n. split; [exact H | apply N.eqb_refl].
Qed.

Section Argmin.
Variable h : N -> N.

Let stepf := fun b y : N => if h y <? h b then y else b.

Lemma fold_min_spec r : forall x,
  let w := fold_left stepf r x in
  In w (x :: r) /\ forall m, In m (x :: r) -> h w <= h m.
Proof.
  induction r as [|y r IH]; intros x; cbn [fold_left].
  - split; [left; reflexivity|]. intros m [Hm|[]]. subst. lia.
  - specialize (IH (stepf x y)). cbv zeta in IH. destruct IH as [Hin Hmin].
    split.
    + destruct Hin as [Hin|Hin].
      * rewrite <- Hin. unfold stepf. destruct (h y <? h x); [right; left|left]; reflexivity.
      * right; right; exact Hin.
    + intros m Hm.
      assert (Hs : h (fold_left stepf r (stepf x y)) <= h (stepf x y)) by (apply Hmin; left; reflexivity).
      assert (Hxy : h (stepf x y) <= h x /\ h (stepf x y) <= h y).
      { unfold stepf. destruct (N.ltb_spec (h y) (h x)); lia. }
      destruct Hm as [Hm|[Hm|Hm]]; subst; try lia.
      apply Hmin. right. exact Hm.
Qed.

Lemma argmin_in l w : argmin h l = Some w -> In w l.
Proof.
  destruct l as [|x r]; cbn [argmin]; [discriminate|]. intros [= <-].
  apply (fold_min_spec r x).
Qed.

Lemma argmin_min l w : argmin h l = Some w -> forall m, In m l -> h w <= h m.
Proof.
  destruct l as [|x r]; cbn [argmin]; [discriminate|]. intros [= <-].
  apply (fold_min_spec r x).
Qed.

Lemma argmin_none l : argmin h l = None <-> l = [].
Proof. destruct l; cbn [argmin]; split; congruence. Qed.

Lemma argmin_some l : l <> [] -> exists w, argmin h l = Some w.
Proof. destruct l; [congruence|]. intros _. eexists. reflexivity. Qed.

Lemma argmin_char l w :
  inj_on h l -> In w l -> (forall m, In m l -> h w <= h m) -> argmin h l = Some w.
Proof.
  intros Hinj Hin Hmin.
  destruct (argmin_some l) as [w' Hw']; [intros ->; destruct Hin|].
  rewrite Hw'. f_equal.
  pose proof (argmin_in _ _ Hw') as Hin'. pose proof (argmin_min _ _ Hw' _ Hin) as H1.
  pose proof (Hmin _ Hin') as H2. apply Hinj; [exact Hin'|exact Hin|lia].
Qed.

(* the general statement behind all of C12: two elections whose winners are
   both candidates in both elections have the same winner *)
Lemma no_move_between_survivors l l' w w' :
  inj_on h (l ++ l') -> argmin h l = Some w -> argmin h l' = Some w' ->
  In w l' -> In w' l -> w = w'.
Proof.
  intros Hinj Hw Hw' Hin Hin'.
  pose proof (argmin_min _ _ Hw _ Hin'). pose proof (argmin_min _ _ Hw' _ Hin).
  apply Hinj; [apply in_or_app; left; eapply argmin_in; eassumption
              |apply in_or_app; right; eapply argmin_in; eassumption|lia].
Qed.

Lemma inj_on_incl l l' : incl l' l -> inj_on h l -> inj_on h l'.
Proof. intros Hi Hj a b Ha Hb. apply Hj; apply Hi; assumption. Qed.

Lemma remove_nonwinner l w (removed : N -> bool) :
  inj_on h l -> argmin h l = Some w -> removed w = false ->
  argmin h (filter (fun n => negb (removed n)) l) = Some w.
Proof.
  intros Hinj Hw Hr.
  set (l' := filter (fun n => negb (removed n)) l).
  assert (Hin : In w l') by (apply filter_In; split; [eapply argmin_in; eassumption|rewrite Hr; reflexivity]).
  destruct (argmin_some l') as [w' Hw']; [intros E; rewrite E in Hin; destruct Hin|].
  rewrite Hw'. f_equal. symmetry.
  apply (no_move_between_survivors l l' w w'); try assumption.
  - intros a b Ha Hb. apply Hinj.
    + apply in_app_or in Ha. destruct Ha as [Ha|Ha]; [exact Ha|apply filter_In in Ha; tauto].
    + apply in_app_or in Hb. destruct Hb as [Hb|Hb]; [exact Hb|apply filter_In in Hb; tauto].
  - apply argmin_in in Hw'. apply filter_In in Hw'. tauto.
Qed.

Lemma add_nodes l added w w' :
  inj_on h (l ++ added) -> argmin h l = Some w -> argmin h (l ++ added) = Some w' ->
  w' = w \/ In w' added.
Proof.
  intros Hinj Hw Hw'.
  pose proof (argmin_in _ _ Hw') as Hin'. apply in_app_or in Hin'.
  destruct Hin' as [Hin'|Hin']; [left|right; exact Hin'].
  symmetry. apply (no_move_between_survivors l (l ++ added) w w'); try assumption.
  - intros a b Ha Hb. apply Hinj.
    + apply in_app_or in Ha. destruct Ha as [Ha|Ha]; [apply in_or_app; left; exact Ha|exact Ha].
    + apply in_app_or in Hb. destruct Hb as [Hb|Hb]; [apply in_or_app; left; exact Hb|exact Hb].
  - apply in_or_app. left. eapply argmin_in. eassumption.
Qed.

(* the winner depends on the candidate *set* only: listing order and
   repetitions are irrelevant (Go builds the list by iterating maps) *)
Lemma winner_set_ext l l' :
  inj_on h l -> (forall n, In n l <-> In n l') -> argmin h l = argmin h l'.
Proof.
  intros Hinj Hext.
  destruct l as [|x r].
  - destruct l' as [|y r']; [reflexivity|]. exfalso. apply (proj2 (Hext y)). left. reflexivity.
  - destruct (argmin_some (x :: r)) as [w Hw]; [congruence|].
    destruct (argmin_some l') as [w' Hw'].
    { intros ->. apply (proj1 (Hext x)). left. reflexivity. }
    rewrite Hw, Hw'. f_equal.
    apply (no_move_between_survivors (x :: r) l' w w'); try assumption.
    + intros a b Ha Hb. apply Hinj.
      * apply in_app_or in Ha. destruct Ha as [Ha|Ha]; [exact Ha|apply Hext; exact Ha].
      * apply in_app_or in Hb. destruct Hb as [Hb|Hb]; [exact Hb|apply Hext; exact Hb].
    + apply Hext. eapply argmin_in. eassumption.
    + apply Hext. eapply argmin_in. eassumption.
Qed.

Lemma winner_perm l l' : inj_on h l -> Permutation l l' -> argmin h l = argmin h l'.
Proof.
  intros Hinj Hp. apply winner_set_ext; [exact Hinj|].
  intros n. split; apply Permutation_in; [exact Hp|apply Permutation_sym; exact Hp].
Qed.

End Argmin.

(* the winner is a function of the hash values restricted to the candidates:
   two hash functions that agree on the list give the same winner *)
Lemma argmin_ext_h (h h' : N -> N) l : (forall n, In n l -> h n = h' n) -> argmin h l = argmin h' l.
Proof.
  destruct l as [|x r]; [reflexivity|]. intros He. cbn [argmin]. f_equal.
  revert x He. induction r as [|y r IH]; intros x He; cbn [fold_left]; [reflexivity|].
  rewrite (He y), (He x) by (cbn; tauto).
  apply IH. intros n [Hn|Hn]; [|apply He; right; right; exact Hn].
  subst. destruct (h' y <? h' x); apply He; cbn; tauto.
Qed.

(* ---- decide vs eligible (C04) ---- *)

Lemma In_speakers_for_pool v n :
  In n (speakers_for_pool v) <->
  In n (candidates v) /\ unavail v n = false /\ (v_ignore v = true \/ excluded v n = false) /\ pool_matches v n = true.
Proof.
  unfold speakers_for_pool, node_ok. rewrite filter_In, !andb_true_iff, negb_true_iff, orb_true_iff, negb_true_iff.
  tauto.
Qed.

Lemma In_available v n :
  In n (available v) <-> In n (speakers_for_pool v) /\ (v_local v = true -> has_ep_on v n = true).
Proof.
  unfold available. destruct (v_local v).
  - rewrite filter_In. tauto.
  - split; [intros H; split; [exact H|discriminate]|tauto].
Qed.

Lemma has_ep_on_active v n : has_ep_on v n = true -> active_ep_exists v = true.
Proof.
  unfold has_ep_on, active_ep_exists. rewrite !existsb_exists.
  intros [s [Hs He]]. exists s. split; [exact Hs|].
  rewrite existsb_exists in *. destruct He as [e [He Hon]]. exists e. split; [exact He|].
  unfold ep_on in Hon. apply andb_true_iff in Hon. tauto.
Qed.

Lemma eligible_iff v n :
  eligible v n <-> active_ep_exists v = true /\ In n (available v).
Proof.
  unfold eligible. rewrite In_available, In_speakers_for_pool. tauto.
Qed.

Lemma decide_true_iff h v me :
  decide h v me = true <-> active_ep_exists v = true /\ argmin h (available v) = Some me.
Proof.
  unfold decide. rewrite !andb_true_iff. split.
  - intros [[Ha Hp] Hw]. split; [exact Ha|].
    destruct (argmin h (available v)) as [w|]; [|discriminate]. apply N.eqb_eq in Hw. congruence.
  - intros [Ha Hw]. rewrite Hw, N.eqb_refl. repeat split; try assumption.
    apply argmin_in in Hw. apply In_available in Hw. destruct Hw as [Hw _].
    apply In_speakers_for_pool in Hw. tauto.
Qed.

Lemma winner_eligible h v me : decide h v me = true -> eligible v me.
Proof.
  rewrite decide_true_iff, eligible_iff. intros [Ha Hw]. split; [exact Ha|]. eapply argmin_in; eassumption.
Qed.

Lemma decide_spec h v me :
  inj_on h (available v) ->
  (decide h v me = true <-> eligible v me /\ forall m, eligible v m -> h me <= h m).
Proof.
  intros Hinj. rewrite decide_true_iff. split.
  - intros [Ha Hw]. split.
    + apply eligible_iff. split; [exact Ha|eapply argmin_in; eassumption].
    + intros m Hm. apply eligible_iff in Hm. eapply argmin_min; [eassumption|tauto].
  - intros [He Hmin]. apply eligible_iff in He. destruct He as [Ha Hin]. split; [exact Ha|].
    apply argmin_char; try assumption. intros m Hm. apply Hmin. apply eligible_iff. tauto.
Qed.

Lemma exactly_one h v :
  (exists n, eligible v n) -> exists w, decide h v w = true /\ forall n, decide h v n = true -> n = w.
Proof.
  intros [n Hn]. apply eligible_iff in Hn. destruct Hn as [Ha Hin].
  destruct (argmin_some h (available v)) as [w Hw]; [intros E; rewrite E in Hin; destruct Hin|].
  exists w. split; [apply decide_true_iff; tauto|].
  intros m Hm. apply decide_true_iff in Hm. destruct Hm as [_ Hm]. congruence.
Qed.

Lemma none_when_no_eligible h v : (forall n, ~ eligible v n) -> forall n, decide h v n = false.
Proof.
  intros Hno n. destruct (decide h v n) eqn:E; [|reflexivity].
  exfalso. apply (Hno n). eapply winner_eligible; eassumption.
Qed.

(* two services (views) with the same eligible set and the same hash input
   elect the same node: the true part of "all services sharing an address" *)
Lemma same_candidates_same_winner h v1 v2 n1 n2 :
  inj_on h (available v1) ->
  (forall n, eligible v1 n <-> eligible v2 n) ->
  decide h v1 n1 = true -> decide h v2 n2 = true -> n1 = n2.
Proof.
  intros Hinj Hext H1 H2.
  apply decide_true_iff in H1. apply decide_true_iff in H2. destruct H1 as [Ha1 Hw1], H2 as [Ha2 Hw2].
  assert (Hset : forall n, In n (available v1) <-> In n (available v2)).
  { intros n. specialize (Hext n). rewrite !eligible_iff in Hext. tauto. }
  rewrite (winner_set_ext h _ _ Hinj Hset) in Hw1. congruence.
Qed.

(* F8 witness *)
Definition f8_view : view :=
  {| v_nodes := [ {| ni_id := 1; ni_unavail := false; ni_excl := false |};
                  {| ni_id := 2; ni_unavail := false; ni_excl := false |} ];
     v_speakers := Some [1; 2]; v_advs := [[1; 2]];
     v_eps := [[ {| ep_ready := Some true; ep_serving := None; ep_node := Some 1 |} ]];
     v_local := false; v_ignore := false |}.

Lemma shared_address_refuted :
  exists (h4 h6 : N -> N) (v : view) (n1 n2 : N),
    inj_on h4 (available v) /\ inj_on h6 (available v) /\
    decide h4 v n1 = true /\ decide h6 v n2 = true /\ n1 <> n2.
Proof.
  exists (fun n => n), (fun n => 10 - n), f8_view, 1, 2.
  assert (Hav : available f8_view = [1; 2]) by (vm_compute; reflexivity).
  rewrite Hav. repeat split; try (vm_compute; reflexivity); try discriminate.
  - intros a b _ _ H. exact H.
  - intros a b [<-|[<-|[]]] [<-|[<-|[]]]; vm_compute; congruence.
Qed.

(* ---------- per-node listing orders ---------- *)
Lemma decide_ord_eq h v ord me :
  inj_on h (available v) -> (forall n, In n (available v) <-> In n (ord me)) ->
  decide_ord h v ord me = decide h v me.
Proof.
  intros Hi He. unfold decide_ord, decide.
  rewrite <- (winner_set_ext h (available v) (ord me) Hi He). reflexivity.
Qed.

(* exactly one announcer whatever order each speaker lists the candidates in,
   provided the hashes of the candidates are distinct (H-sha) *)
Theorem exactly_one_any_order h v ord :
  inj_on h (available v) -> (forall me n, In n (available v) <-> In n (ord me)) ->
  (exists n, eligible v n) ->
  exists w, decide_ord h v ord w = true /\ forall n, decide_ord h v ord n = true -> n = w.
Proof.
  intros Hi He Hex. destruct (exactly_one h v Hex) as [w [Hw Hu]].
  exists w. split.
  - rewrite (decide_ord_eq h v ord w Hi (He w)). exact Hw.
  - intros n Hn. rewrite (decide_ord_eq h v ord n Hi (He n)) in Hn. apply Hu. exact Hn.
Qed.

(* without distinct hashes it is false: with a tie, two speakers that list the two
   candidates in different orders both elect themselves *)
Theorem exactly_one_ties_refuted :
  exists (h : N -> N) (v : view) (ord : N -> list N),
    (forall me n, In n (available v) <-> In n (ord me)) /\ (exists n, eligible v n) /\
    decide_ord h v ord 1 = true /\ decide_ord h v ord 2 = true.
Proof.
  exists (fun _ => 0), f8_view, (fun me => if N.eqb me 1 then [1; 2] else [2; 1]).
  assert (Hav : available f8_view = [1; 2]) by (vm_compute; reflexivity).
  split; [|split; [|vm_compute; split; reflexivity]].
  - intros me n. rewrite Hav. destruct (N.eqb me 1); cbn; tauto.
  - exists 1. apply eligible_iff. rewrite Hav. split; [vm_compute; reflexivity|left; reflexivity].
Qed.

(* C12 on views: shrinking the eligible set without removing the announcer keeps it *)
Theorem view_remove_nonowner h v v' w :
  inj_on h (available v') ->
  (forall n, eligible v' n -> eligible v n) -> eligible v' w ->
  decide h v w = true -> decide h v' w = true.
Proof.
  intros Hi Hsub Hw Hd.
  apply (decide_spec h v' w Hi). split; [exact Hw|].
  intros m Hm. apply decide_true_iff in Hd. destruct Hd as [_ Hd].
  eapply argmin_min; [exact Hd|]. apply Hsub in Hm. apply eligible_iff in Hm. tauto.
Qed.
