(* Pre-fix behaviour of the code repaired by the fix: commits F1, F2, F4, F5 (DESIGN.md
   section 5), kept as a regression of the model: each definition below transcribes the
   code BEFORE the fix and the _refuted lemma shows the property failing on it. *)
From Coq Require Import NArith Bool List Lia ZifyN ZifyBool Permutation Sorted.
From Verif Require Import Model.Cfg Proofs.NetP.
Local Open Scope N_scope.

(* ------------------------------------------------------------------ F1: sortedCopy *)
(* Go's sort.Slice runs insertionSort_func for n <= 12:
     for i := a+1; i < b; i++ { for j := i; j > a && less(j, j-1); j-- { swap(j, j-1) } }
   [less] sees the current contents of the slice being sorted ([cur]). *)
Section ISort.
  Context {A : Type} (d : A).
  Definition swap (l : list A) (j : nat) : list A :=        (* swap positions j and j-1 *)
    match j with
    | O => l
    | S i => firstn i l ++ nth j l d :: nth i l d :: skipn (S j) l
    end.
  Fixpoint inner (less : list A -> nat -> nat -> bool) (cur : list A) (j : nat) : list A :=
    match j with
    | O => cur
    | S i => if less cur j i then inner less (swap cur j) i else cur
    end.
  Definition isort_idx (less : list A -> nat -> nat -> bool) (l : list A) : list A :=
    fold_left (fun cur i => inner less cur i) (seq 1 (length l - 1)) l.
End ISort.

(* before F1: the comparator reads the unsorted source [toSort] *)
Definition sorted_copy_prefix (l : list N) : list N :=
  isort_idx 0 (fun _ i j => nth i l 0 <? nth j l 0) l.
(* after F1: it reads the slice being sorted *)
Definition sorted_copy_fixed (l : list N) : list N :=
  isort_idx 0 (fun cur i j => nth i cur 0 <? nth j cur 0) l.

(* [b;c;a] |-> [b;a;c] *)
Lemma sorted_copy_prefix_refuted :
  exists l, NoDup l /\ sorted_copy_prefix l <> sortN l /\ sorted_copy_prefix l = [2; 1; 3].
Proof.
  exists [2; 3; 1]. split; [|split].
  - repeat constructor; cbn; intuition discriminate.
  - vm_compute. discriminate.
  - vm_compute. reflexivity.
Qed.

(* two listings of the same three objects give different results *)
Lemma sorted_copy_prefix_order_dependent :
  exists l l', Permutation l l' /\ NoDup l /\ sorted_copy_prefix l <> sorted_copy_prefix l'.
Proof.
  exists [2; 3; 1], [1; 2; 3]. split; [|split].
  - apply Permutation_sym. apply (Permutation_cons_append [2; 3] 1).
  - repeat constructor; cbn; intuition discriminate.
  - vm_compute. discriminate.
Qed.

(* the repaired insertion sort agrees with the canonical sort on every permutation of 0..5
   (720 lists; the general statement is the H-sort premise of the C18 theorems) *)
Fixpoint ins_everywhere (x : N) (l : list N) : list (list N) :=
  match l with
  | [] => [[x]]
  | y :: r => (x :: l) :: map (cons y) (ins_everywhere x r)
  end.
Fixpoint perms (l : list N) : list (list N) :=
  match l with [] => [[]] | x :: r => flat_map (ins_everywhere x) (perms r) end.

Lemma sorted_copy_fixed_sorts_all_perms_6 :
  forallb (fun l => list_eqb N.eqb (sorted_copy_fixed l) (sortN l)) (perms [0; 1; 2; 3; 4; 5]) = true
  /\ length (perms [0; 1; 2; 3; 4; 5]) = 720%nat.
Proof. split; vm_compute; reflexivity. Qed.

(* ------------------------------------------------------------------ F2: poolsByNamespace *)
(* before F2: each namespace's list in map iteration order *)
Definition by_namespace_prefix (order : list pool) : list (N * list N) :=
  map (fun ns => (ns, map p_name (filter (fun p => memN ns (pool_nss p)) order)))
      (setN (flat_map pool_nss order)).

Definition mini_pool (n : N) (nss : list N) : pool :=
  {| p_name := n; p_cidrs := []; p_per_addr := []; p_avoid := false; p_auto := true; p_bgp := [];
     p_l2 := []; p_alloc := Some {| sa_prio := 0; sa_nss := nss; sa_sels := [] |} |}.

Lemma by_namespace_prefix_refuted :
  exists o o', Permutation o o' /\ by_namespace_prefix o <> by_namespace_prefix o'.
Proof.
  exists [mini_pool 1 [7]; mini_pool 2 [7]], [mini_pool 2 [7]; mini_pool 1 [7]].
  split; [apply perm_swap|]. vm_compute. discriminate.
Qed.

(* ------------------------------------------------------------------ F4: IPv4-mapped CIDR *)
(* before F4 an IPv4-mapped CIDR kept its 16-byte mask: Mask.Size() is the length counted on
   128 bits, while IP.Equal and Contains treat it as the IPv4 prefix it denotes *)
Record rprefix := { rp : prefix; rp_mapped : bool }.
Definition mask_size (a : rprefix) : N := if rp_mapped a then plen (rp a) + 96 else plen (rp a).
Definition cidr_contains_cidr_prefix (o i : rprefix) : bool :=
  fam_eqb (pfam (rp o)) (pfam (rp i)) &&
  (((mask_size o =? mask_size i) && (pbase (rp o) =? pbase (rp i))) ||
   ((mask_size o <? mask_size i) && contains (rp o) (mk_ip (pfam (rp i)) (pbase (rp i))))).
Definition overlap_prefix (a b : rprefix) : bool :=
  cidr_contains_cidr_prefix a b || cidr_contains_cidr_prefix b a.

(* ::ffff:1.2.3.0/120 and 1.2.3.128/25 *)
Lemma overlap_prefix_refuted :
  exists a b x, overlap_prefix a b = false /\ overlap_prefix b a = false /\
                contains (rp a) x = true /\ contains (rp b) x = true.
Proof.
  exists {| rp := {| pfam := F4; pbase := 16909056; plen := 24 |}; rp_mapped := true |},
         {| rp := {| pfam := F4; pbase := 16909184; plen := 25 |}; rp_mapped := false |},
         (V4 16909200).
  vm_compute. repeat split.
Qed.

(* ------------------------------------------------------------------ F5: mixed-family range *)
(* before F5: bytes.Compare of the 16-byte forms, then ipaddr.Summarize returns nil *)
Definition parse_range_prefix (s e : ip) : option (list prefix) :=
  match s, e with
  | V4 a, V6 b => if mapped_base + a <=? b then Some [] else None
  | V6 a, V4 b => if a <=? mapped_base + b then Some [] else None
  | _, _ => parse_addr (ARange s e)
  end.

(* 1.2.3.4-ffff::1 is accepted and denotes nothing *)
Lemma parse_mixed_refuted :
  exists s e, ip_fam s <> ip_fam e /\ parse_range_prefix s e = Some [].
Proof.
  exists (V4 16909060), (V6 340277174624079928635746076935438991361).
  split; [discriminate|]. vm_compute. reflexivity.
Qed.
