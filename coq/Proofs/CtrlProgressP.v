(* Progress of the controller's reconciliation (C06 / C07 "converges", C03):
   once the outside world stops changing things and status writes succeed, the
   controller runs out of work after a bounded number of steps - every run of
   single reconciles and full re-syncs is at most |queue| + 2(|queue| + |services|) + 1
   events long - and a world in which no such step is enabled has no pending work.
   The ReprocessAll loop cannot livelock.

   Scope: Services without explicitly requested addresses (o_want = WNone); with
   explicit requests convergeBalancer can leave a result that it will itself
   reject on the next run (F19 / F22, see Properties/C02.v), and the argument
   below - "what a successful run leaves is admissible for the next run" - does
   not apply to them. *)
From Coq Require Import List NArith Bool Lia.
From Verif Require Import Model.Net Model.Alloc Model.Ctrl Proofs.NetP Proofs.AllocP Proofs.AllocPolicyP
  Proofs.AllocMonoP Proofs.CtrlP Proofs.CtrlWorldP Proofs.CtrlThmP Proofs.CtrlStarveP Proofs.CtrlRestartP
  Proofs.CtrlStableP Proofs.CtrlPostP Proofs.CtrlTotalP.
Import ListNotations.
Local Open Scope N_scope.

Section ConvergeFacts.
Variable rank : ip -> N.
Variable s : svc.

(* a run that leaves addresses passed every early exit *)
Lemma converge_early a o k v ok : converge rank a s o k = CR v ok -> cv_status v <> [] ->
  o_lb o = true /\ by_name (s_pools a) <> [] /\ o_cluster_ok o = true /\
  (is_require (r_pol (o_req o)) && negb (is_dual (r_fam (o_req o)))) = false.
Proof.
  unfold converge. intros H Hst.
  destruct (o_lb o); cbn [negb] in H; [|injection H as <- _; exfalso; apply Hst; reflexivity].
  destruct (by_name (s_pools a)) as [|p0 pr]; [injection H as <- _; exfalso; apply Hst; reflexivity|].
  destruct (o_cluster_ok o); cbn [negb] in H; [|injection H as <- _; exfalso; apply Hst; reflexivity].
  destruct (is_require _ && _); [injection H as <- _; exfalso; apply Hst; reflexivity|].
  repeat split; congruence.
Qed.

(* a run that leaves no address leaves nothing recorded in memory either *)
Lemma converge_nil_none a o k v ok : minv a -> o_want o = WNone ->
  converge rank a s o k = CR v ok -> cv_status v = [] -> get_alloc (cv_mem v) s = None.
Proof.
  intros Hm Hw. unfold converge.
  set (c0 := {| cv_mem := a; cv_status := o_status o; cv_annot := o_annot o |}).
  assert (Hcl : forall c, get_alloc (cv_mem (clear c s)) s = None) by (intros c; cbn; apply get_alloc_unassign_same).
  destruct (negb (o_lb o)); [intros [= <- _] _; apply Hcl|].
  destruct (match by_name (s_pools a) with [] => true | _ => false end); [intros [= <- _] _; apply Hcl|].
  destruct (negb (o_cluster_ok o)); [intros [= <- _] _; apply Hcl|].
  destruct (is_require _ && _); [intros [= <- _] _; apply Hcl|].
  destruct (stageA c0 s o) as [c1 lb1] eqn:EA.
  pose proof (stageA_NilNone s _ _ _ _ EA) as NA.
  pose proof (stageA_rel s MI MI_refl (MI_unassign s) _ _ _ _ EA) as MA. cbn [cv_mem c0] in MA.
  pose proof (stageB_Q rank s c0 o c1 lb1 eq_refl EA) as QB.
  pose proof (stageB_NilNone rank s c1 lb1 o NA) as NB.
  pose proof (stageB_rel rank s MI MI_refl MI_trans (MI_unassign s) (MI_assign s) c1 lb1 o) as MB.
  destruct (stageB rank c1 lb1 s o) as [[c3 lb3]|c3].
  2:{ intros _ _. congruence. }
  destruct (stageC c3 lb3 s (o_req o) k) as [[c4 lb4]|] eqn:EC; [|discriminate].
  pose proof (stageC_Q _ _ _ _ _ _ _ QB EC) as QC.
  pose proof (stageC_NilNone s _ _ _ _ _ _ NB EC) as NC.
  pose proof (stageC_rel s MI MI_refl (MI_step s) _ _ _ _ _ _ EC) as MC.
  destruct (stageD c4 lb4 s o k) as [res|] eqn:ED; [|discriminate].
  pose proof (stageD_Q _ _ _ _ _ _ QC ED) as QD.
  pose proof (stageD_rel s MI MI_refl MI_trans (MI_unassign s) (MI_assign s) (MI_step s) _ _ _ _ _ ED) as MD.
  assert (HE : forall c5 lb5, lb5 <> [] -> Q s c5 lb5 -> minv (cv_mem c5) ->
            stageE c5 lb5 s = CR v ok -> cv_status v = [] -> get_alloc (cv_mem v) s = None).
  { intros c5 lb5 Hne Q5 M5 E Hst. rewrite (stageE_served s _ _ _ _ Hne Q5 M5 E) in Hst. congruence. }
  destruct lb4 as [|x l].
  - pose proof (stageD_unserved s _ _ _ _ (NC eq_refl) ED) as UD.
    destruct res as [[c5 lb5]|c5].
    + apply HE; [exact UD|exact QD|exact (MD (MC (MB (MA Hm))))].
    + intros [= <- _] _. unfold stageD in ED. rewrite Hw in ED.
      destruct (alloc_op (cv_mem c4) _) as [[a' r]|] eqn:E; [|discriminate].
      apply alloc_op_some in E. destruct E as [E Hnm]. destruct r as [ips|e|]; [discriminate| |exfalso; apply Hnm; reflexivity].
      injection ED as <-. cbn [cv_mem].
      destruct (o_want_pool o).
      * destruct (step_frompool_err s _ _ _ _ _ _ (NC eq_refl) E) as [-> _]. exact (NC eq_refl).
      * destruct (step_allocate_err s _ _ _ _ _ (NC eq_refl) E) as [-> _]. exact (NC eq_refl).
  - rewrite (stageD_nonempty s _ _ _ _ _ _ ED) in *. apply HE; [discriminate|exact QD|exact (MD (MC (MB (MA Hm))))].
Qed.
End ConvergeFacts.

(* ---------- "settled" Services ---------- *)
Section Settled.
Variable rank : ip -> N.

(* memory records exactly the status addresses, with the Service's current ports and key *)
Definition heldS (ga : option alloc) (o : svcobj) : Prop :=
  exists al, ga = Some al /\ same_ips (a_ips al) (o_status o) /\
             a_ports al = r_ports (o_req o) /\ a_key al = r_key (o_req o).
(* good: holds addresses that the configuration and its own request still admit *)
Definition good (ps : pools) (ga : option alloc) (o : svcobj) : Prop :=
  sadm rank o (o_status o) ps /\ heldS ga o.
(* empty: holds nothing, in memory and in the status *)
Definition empty (ga : option alloc) (o : svcobj) : Prop := ga = None /\ o_status o = [].

Lemma pool_for_complete ps ips p : pools_disjoint ps -> ips <> [] ->
  In p ps -> (forall x, In x ips -> in_pool p x = true) -> pool_for ps ips = Some p.
Proof.
  intros Hd Hne Hin Hall. destruct (pool_for ps ips) as [q|] eqn:E.
  - f_equal. symmetry. apply (owner_unique ps ips q p Hd Hne E Hin Hall).
  - exfalso. unfold pool_for in E. pose proof (find_none _ _ E p Hin) as E3. cbv beta in E3.
    rewrite (proj2 (forallb_forall _ _) Hall) in E3. discriminate.
Qed.

Lemma family_ok_lengths l f p : family_changed (alloc_fam l) f p = false ->
  (2 <? N.of_nat (length l)) = false /\ same_family2 l = false.
Proof.
  destruct l as [|x [|y [|z l]]]; cbn; try discriminate; [auto|].
  destruct (fam_eqb (ip_fam x) (ip_fam y)); [discriminate|auto].
Qed.

(* the sharing half of admissibility comes from the allocator's invariant *)
Lemma good_admissible a s o : Inv a -> good (s_pools a) (get_alloc a s) o -> admissible_now rank a s o.
Proof.
  intros HI [(Hlb & Hps & Hcl & Hrq & Hne & Hfam & (p & Hpf & Hcomp & Hwp) & Hlen & Hsf & Hwant) (al & Hg & Hi & Hpo & Hk)].
  unfold admissible_now. repeat (split; [assumption|]).
  assert (Hck : assign_check a s (o_req o) (o_status o) = inl p).
  { unfold assign_check. rewrite Hpf, Hcomp, Hlen, Hsf. cbn [negb].
    assert (F : forallb (fun x => check_sharing a s x (r_ports (o_req o)) (r_key (o_req o))) (o_status o) = true).
    { apply forallb_forall. intros x Hx. apply (check_sharing_iff a s x _ _ HI).
      intros e He Hne' Hxe.
      assert (Hin : In (s, al) (allocated a)) by (apply get_alloc_In; [exact (proj1 HI)|exact Hg]).
      destruct (proj2 HI e (s, al) x He Hin Hne' Hxe) as (Sh1 & Sh2 & Sh3 & Sh4); [cbn; apply Hi; exact Hx|].
      cbn [snd] in *. rewrite <- Hk, <- Hpo. split.
      - apply sharing_ok_spec. repeat split; try assumption. congruence.
      - intros q Hq Hq'. exact (Sh4 q Hq' Hq). }
    rewrite F. reflexivity. }
  eexists. split; [unfold assign; rewrite Hck; reflexivity|]. split; [|exact Hwant].
  intros wp Hw. unfold pool_of. rewrite get_alloc_do_assign_same. cbn. f_equal. apply Hwp. exact Hw.
Qed.

(* what one run of convergeBalancer leaves is settled: good or empty *)
Theorem converge_settles a s o k v ok :
  minv a -> names_unique (s_pools a) -> pools_disjoint (by_name (s_pools a)) -> o_want o = WNone ->
  converge rank a s o k = CR v ok ->
  let o' := with_status o (cv_status v) (cv_annot v) in
  empty (get_alloc (cv_mem v) s) o' \/ good (s_pools a) (get_alloc (cv_mem v) s) o'.
Proof.
  intros Hm Hnu Hdj Hw EC o'.
  destruct (cv_status v) as [|x0 l0] eqn:Est.
  - left. split; [eapply converge_nil_none; eassumption|reflexivity].
  - right.
    assert (Hst : cv_status v <> []) by (rewrite Est; discriminate).
    destruct (converge_early rank s _ _ _ _ _ EC Hst) as (Hlb & Hps & Hcl & Hrq).
    pose proof (converge_post_family rank s o a k v ok Hm EC) as HF. unfold post_family in HF.
    cbn [with_status o_status o_lb o_req] in HF. destruct (HF Hst) as [_ Hfam].
    pose proof (converge_post_pool rank a s o k v ok Hm EC) as HP. unfold post_pool in HP.
    cbn [with_status o_status o_want o_annot o_req] in HP.
    destruct HP as (p & Hin & Han & Hall & Hcomp); [rewrite Hw; discriminate|exact Hst|].
    pose proof (converge_post_wantpool rank a s o k v ok Hm EC Hnu Hdj) as HWP.
    cbn [with_status o_want_pool o_want o_status o_annot] in HWP.
    pose proof (converge_post_attrs rank a s o k v ok Hm EC) as HAT. unfold post_attrs in HAT.
    cbn [with_status o_req o_status] in HAT.
    pose proof (converge_synced rank s _ _ _ _ _ EC) as Hs. unfold synced, ips_of in Hs.
    destruct (family_ok_lengths _ _ _ Hfam) as [Hlen Hsf].
    unfold good, o'. cbn [with_status o_status]. rewrite <- Est. split.
    + unfold sadm. cbn [with_status o_lb o_cluster_ok o_req o_want o_want_pool].
      repeat (split; [assumption|]).
      split.
      * exists p. split; [apply pool_for_complete; assumption|]. split; [exact Hcomp|].
        intros wp Hwp. destruct (HWP wp Hwp) as [H|H]; [rewrite Hw; discriminate|contradiction|congruence].
      * split; [exact Hlen|]. split; [exact Hsf|]. left. exact Hw.
    + unfold heldS. cbn [with_status o_status o_req].
      destruct (get_alloc (cv_mem v) s) as [al|] eqn:Hg.
      * destruct (HAT al eq_refl) as (H1 & H2 & H3). exists al. auto.
      * exfalso. rewrite Est in Hs. destruct (Hs x0) as [_ H]. apply H. left. reflexivity.
Qed.
End Settled.

(* ---------- one handler call with a successful write ---------- *)
Section Handler.
Variable rank : ip -> N.

Lemma skey_eqb_refl x : skey_eqb x x = true.
Proof. unfold skey_eqb. rewrite !N.eqb_refl. reflexivity. Qed.

Lemma subset_ips_incl a b : (forall x, In x a -> In x b) -> subset_ips a b = true.
Proof. intros H. unfold subset_ips. apply forallb_forall. intros x Hx. apply mem_ip_In. auto. Qed.

(* SetBalancer asks for a re-sync only when the key changes or an address is released *)
Lemma set_balancer_no_reprocess c s o k oc v ok :
  set_balancer rank c s (Some o) k = Some oc -> c_have_pools c = true ->
  converge rank (c_mem c) s o k = CR v ok -> k_write k = true ->
  skey_eqb (key_of (c_mem c) s) (key_of (cv_mem v) s) = true ->
  (forall x, In x (ips_of (c_mem c) s) -> In x (ips_of (cv_mem v) s)) ->
  (forall x, In x (o_status o) -> In x (ips_of (cv_mem v) s)) ->
  oc_sync oc <> ReprocessAll.
Proof.
  unfold set_balancer. intros H Hp EC Hw Hkey H1 H2. rewrite Hp, EC, Hw, Hkey in H. cbn [negb] in H.
  assert (R : forall ips, (forall x, In x ips -> In x (ips_of (cv_mem v) s)) ->
              match ips with
              | [] => false
              | _ => negb (subset_ips ips (ips_of (cv_mem v) s)) &&
                     match pool_for (by_name (s_pools (cv_mem v))) ips with Some _ => true | None => false end
              end = false).
  { intros ips Hi. destruct ips as [|x l]; [reflexivity|]. rewrite (subset_ips_incl _ _ Hi). reflexivity. }
  rewrite (R _ H1), (R _ H2) in H. cbn [orb] in H.
  destruct (negb _) in H; injection H as <-; cbn [oc_sync]; destruct ok; discriminate.
Qed.

(* what a handler call on an existing Service does, when its write (if any) succeeds *)
Lemma handler_obj w s k w1 r o :
  apply_handler rank w s k = Some (w1, r) -> aget (w_api w) s = Some o ->
  c_have_pools (w_ctl w) = true -> k_write k = true ->
  exists v ok, converge rank (c_mem (w_ctl w)) s o k = CR v ok /\ c_mem (w_ctl w1) = cv_mem v /\
    aget (w_api w1) s = Some (with_status o (cv_status v) (cv_annot v)) /\ r <> Error /\
    (skey_eqb (key_of (c_mem (w_ctl w)) s) (key_of (cv_mem v) s) = true ->
     (forall x, In x (ips_of (c_mem (w_ctl w)) s) -> In x (ips_of (cv_mem v) s)) ->
     (forall x, In x (o_status o) -> In x (ips_of (cv_mem v) s)) -> r <> ReprocessAll).
Proof.
  unfold apply_handler. rewrite api_get_aget. intros H Eo Hp Hw. rewrite Eo in H.
  destruct (set_balancer rank (w_ctl w) s (Some o) k) as [oc|] eqn:ES; [|discriminate].
  injection H as <- <-. cbn [w_api w_ctl].
  destruct (set_balancer_mem rank _ _ _ _ _ ES Hp) as (v & ok & EC & Hmem & Hwr).
  exists v, ok. split; [exact EC|]. split; [exact Hmem|].
  pose proof (set_balancer_spec rank _ _ _ _ _ ES) as (_ & _ & _ & _ & Hmain). specialize (Hmain Hp).
  split; [|split].
  - destruct (oc_write oc) as [[st an]|].
    + destruct Hwr as [-> ->]. rewrite Hw. apply aget_put_same.
    + destruct Hwr as [E1 E2]. rewrite E1, E2, with_status_id. exact Eo.
  - destruct (oc_write oc) as [[st an]|]; [exact (proj1 (proj2 Hmain) Hw)|exact (proj2 Hmain)].
  - intros Hk H1 H2. eapply set_balancer_no_reprocess; eassumption.
Qed.

Lemma with_status_want o st an : o_want (with_status o st an) = o_want o.
Proof. reflexivity. Qed.

Definition pgood (w : world) (s : svc) (o : svcobj) : Prop :=
  good rank (s_pools (c_mem (w_ctl w))) (get_alloc (c_mem (w_ctl w)) s) o.
Definition pempty (w : world) (s : svc) (o : svcobj) : Prop :=
  empty (get_alloc (c_mem (w_ctl w)) s) o.

Theorem handler_settles w s k w1 r o :
  apply_handler rank w s k = Some (w1, r) -> aget (w_api w) s = Some o ->
  c_have_pools (w_ctl w) = true -> mem_inv (w_ctl w) -> pools_wf (w_ctl w) ->
  o_want o = WNone -> k_write k = true ->
  exists o1, aget (w_api w1) s = Some o1 /\ o_want o1 = WNone /\ r <> Error /\
    (pempty w1 s o1 \/ pgood w1 s o1) /\
    (pgood w s o -> pgood w1 s o1 /\ r <> ReprocessAll) /\
    (pempty w s o -> pempty w1 s o1 -> r <> ReprocessAll).
Proof.
  intros EH Eo Hp Hm [Hnu Hdj] Hwant Hw.
  pose proof (apply_handler_pools rank _ _ _ _ _ EH) as Hps.
  destruct (handler_obj _ _ _ _ _ _ EH Eo Hp Hw) as (v & ok & EC & Hmem & Hapi & HrE & HrR).
  exists (with_status o (cv_status v) (cv_annot v)). split; [exact Hapi|]. split; [exact Hwant|]. split; [exact HrE|].
  pose proof (converge_settles rank _ s o k v ok Hm Hnu Hdj Hwant EC) as Hset. cbv zeta in Hset.
  unfold pgood, pempty. rewrite Hps, Hmem.
  pose proof (converge_synced rank s _ _ _ _ _ EC) as Hs. unfold synced in Hs.
  split; [exact Hset|]. split.
  - intros Hg. pose proof (good_admissible rank _ s o (proj1 Hm) Hg) as Hadm.
    destruct (handler_keeps rank _ _ _ _ _ _ Hadm EC) as (_ & Hincl & _).
    destruct Hg as [Hsadm (al & Hga & Hi & Hpo & Hk)].
    assert (Hne : cv_status v <> []).
    { destruct Hsadm as (_ & _ & _ & _ & Hne & _). destruct (o_status o) as [|x l]; [congruence|].
      intros E. specialize (Hincl x (or_introl eq_refl)). rewrite E in Hincl. exact Hincl. }
    split.
    + destruct Hset as [[_ He]|Hgood]; [cbn in He; congruence|exact Hgood].
    + apply HrR.
      * unfold key_of. rewrite Hga.
        destruct (get_alloc (cv_mem v) s) as [al'|] eqn:Hg'.
        -- destruct (converge_attrs rank s _ _ _ _ _ EC al' Hg') as (_ & Hke & _). rewrite Hk, Hke. apply skey_eqb_refl.
        -- exfalso. unfold ips_of in Hs. rewrite Hg' in Hs. destruct (cv_status v) as [|x l]; [congruence|].
           destruct (Hs x) as [_ H]. apply H. left. reflexivity.
      * intros x Hx. apply Hs. apply Hincl. apply Hi. unfold ips_of in Hx. rewrite Hga in Hx. exact Hx.
      * intros x Hx. apply Hs. apply Hincl. exact Hx.
  - intros [Hg0 Hst0] [Hg1 _]. apply HrR.
    + unfold key_of. rewrite Hg0, Hg1. reflexivity.
    + unfold ips_of. rewrite Hg0. intros x [].
    + rewrite Hst0. intros x [].
Qed.
End Handler.

(* ---------- a potential that bounds the requests for a re-sync ---------- *)
Section Potential.
Variable rank : ip -> N.
Variable U : list svc.          (* the Services the reconciler can be asked about *)
Hypothesis HU : NoDup U.

(* an upper bound on a Service's class: 0 good (or gone everywhere), 1 empty (or gone from
   the API only), 2 anything *)
Definition cls_ok (w : world) (s : svc) (c : nat) : Prop :=
  match aget (w_api w) s with
  | Some o => (c = 0%nat /\ pgood rank w s o) \/ (c = 1%nat /\ pempty w s o) \/ c = 2%nat
  | None => (c = 0%nat /\ get_alloc (c_mem (w_ctl w)) s = None) \/ c = 1%nat \/ c = 2%nat
  end.
Definition potential (w : world) (n : nat) : Prop :=
  exists f : svc -> nat, (forall s, In s U -> cls_ok w s (f s)) /\ n = list_sum (map f U).

Definition upd (f : svc -> nat) (s : svc) (c : nat) : svc -> nat := fun t => if t =? s then c else f t.

Lemma sum_cons (g : svc -> nat) x l : list_sum (map g (x :: l)) = (g x + list_sum (map g l))%nat.
Proof. reflexivity. Qed.

Lemma sum_upd_notin f s c l : ~ In s l -> list_sum (map (upd f s c) l) = list_sum (map f l).
Proof.
  induction l as [|x l IH]; [reflexivity|]. intros Hn. rewrite !sum_cons. unfold upd at 1.
  destruct (x =? s) eqn:E; [apply N.eqb_eq in E; exfalso; apply Hn; left; exact E|].
  rewrite IH; [reflexivity|]. intros H. apply Hn. right. exact H.
Qed.

Lemma sum_upd f s c l : NoDup l -> In s l ->
  (list_sum (map (upd f s c) l) + f s = list_sum (map f l) + c)%nat.
Proof.
  induction l as [|x l IH]; [intros _ []|]. intros Hnd Hin. inversion Hnd as [|? ? Hni Hnd']; subst. rewrite !sum_cons.
  destruct Hin as [->|Hin].
  - unfold upd at 1. rewrite N.eqb_refl. rewrite (sum_upd_notin f s c l Hni). lia.
  - unfold upd at 1. destruct (x =? s) eqn:E; [apply N.eqb_eq in E; subst; contradiction|].
    specialize (IH Hnd' Hin). lia.
Qed.

(* the standing assumptions, kept by every reconciler step *)
Definition PInv (w : world) : Prop :=
  mem_inv (w_ctl w) /\ c_have_pools (w_ctl w) = true /\ pools_wf (w_ctl w) /\
  (forall s o, aget (w_api w) s = Some o -> o_want o = WNone) /\
  (forall s, In s (w_queue w) -> In s U) /\ (forall s, aget (w_api w) s <> None -> In s U).

Lemma cls_ok_frame w w1 t c :
  aget (w_api w1) t = aget (w_api w) t ->
  get_alloc (c_mem (w_ctl w1)) t = get_alloc (c_mem (w_ctl w)) t ->
  s_pools (c_mem (w_ctl w1)) = s_pools (c_mem (w_ctl w)) ->
  cls_ok w t c -> cls_ok w1 t c.
Proof. unfold cls_ok, pgood, pempty. intros -> -> ->. auto. Qed.

Lemma handler_none_reprocess w s k w1 r :
  apply_handler rank w s k = Some (w1, r) -> aget (w_api w) s = None ->
  get_alloc (c_mem (w_ctl w1)) s = None /\ w_api w1 = w_api w /\ r <> Error /\
  (r = ReprocessAll -> get_alloc (c_mem (w_ctl w)) s <> None).
Proof.
  unfold apply_handler. rewrite api_get_aget. intros H E. rewrite E in H. cbn [set_balancer] in H.
  destruct (get_alloc (c_mem (w_ctl w)) s) eqn:Hg; injection H as <- <-; cbn.
  - split; [apply get_alloc_unassign_same|]. split; [reflexivity|]. split; congruence.
  - split; [exact Hg|]. split; [reflexivity|]. split; congruence.
Qed.

(* one handler call whose write succeeds: the potential does not grow, and drops when a
   re-sync is requested *)
Theorem handler_potential w s k w1 r n :
  In s U -> PInv w -> potential w n -> k_write k = true ->
  apply_handler rank w s k = Some (w1, r) ->
  exists n', PInv w1 /\ potential w1 n' /\ (n' <= n)%nat /\ (r = ReprocessAll -> (n' < n)%nat) /\ r <> Error /\
             w_queue w1 = w_queue w.
Proof.
  intros HsU (Hm & Hp & Hwf & Hreg & HqU & HaU) (f & Hf & ->) Hw EH.
  pose proof (apply_handler_pools rank _ _ _ _ _ EH) as Hps.
  destruct (apply_handler_inv rank w s k w1 r EH (fun _ => Hp) Hm) as (Hfr & Hnone & Hm1 & Hp1 & _ & _ & _ & Hq & _).
  assert (HP1 : (forall o1, aget (w_api w1) s = Some o1 -> o_want o1 = WNone) -> PInv w1).
  { intros Ho1. split; [exact Hm1|]. split; [exact (Hp1 Hp)|]. split; [unfold pools_wf; rewrite Hps; exact Hwf|].
    split; [|split].
    - intros t ot Ht. destruct (N.eq_dec t s) as [->|Hne].
      + exact (Ho1 ot Ht).
      + rewrite (proj1 (Hfr t Hne)) in Ht. exact (Hreg t ot Ht).
    - rewrite Hq. exact HqU.
    - intros t Ht. apply HaU. destruct (N.eq_dec t s) as [->|Hne].
      + intros E. apply Ht. apply Hnone. exact E.
      + rewrite <- (proj1 (Hfr t Hne)). exact Ht. }
  assert (Hothers : forall c t, In t U -> cls_ok w1 s c -> cls_ok w1 t (upd f s c t)).
  { intros c t Ht Hc. unfold upd. destruct (t =? s) eqn:E.
    - apply N.eqb_eq in E. subst t. exact Hc.
    - apply N.eqb_neq in E. destruct (Hfr t E) as [A1 A2]. apply (cls_ok_frame w w1 t _ A1 A2 Hps). apply Hf. exact Ht. }
  pose proof (Hf s HsU) as Hcs. unfold cls_ok in Hcs.
  destruct (aget (w_api w) s) as [o|] eqn:Eo.
  - destruct (handler_settles rank _ _ _ _ _ _ EH Eo Hp Hm Hwf (Hreg s o Eo) Hw)
      as (o1 & Ho1 & Hw1 & HrE & Hset & Hgood & Hempty).
    assert (HPI : PInv w1).
    { apply HP1. intros o2 E2. rewrite Ho1 in E2. injection E2 as <-. exact Hw1. }
    assert (Hcls : forall c, ((c = 0%nat /\ pgood rank w1 s o1) \/ (c = 1%nat /\ pempty w1 s o1) \/ c = 2%nat) -> cls_ok w1 s c).
    { intros c Hc. unfold cls_ok. rewrite Ho1. exact Hc. }
    destruct Hcs as [[Hc Hg]|[[Hc He]|Hc]].
    + destruct (Hgood Hg) as [Hg1 HrR].
      exists (list_sum (map (upd f s 0%nat) U)). split; [exact HPI|]. split.
      * exists (upd f s 0%nat). split; [|reflexivity]. intros t Ht. apply Hothers; [exact Ht|]. apply Hcls. auto.
      * pose proof (sum_upd f s 0%nat U HU HsU). split; [lia|]. split; [intros; congruence|]. split; [exact HrE|exact Hq].
    + destruct Hset as [He1|Hg1].
      * exists (list_sum (map (upd f s 1%nat) U)). split; [exact HPI|]. split.
        -- exists (upd f s 1%nat). split; [|reflexivity]. intros t Ht. apply Hothers; [exact Ht|]. apply Hcls. auto.
        -- pose proof (sum_upd f s 1%nat U HU HsU). split; [lia|]. split; [intros E; exfalso; exact (Hempty He He1 E)|]. split; [exact HrE|exact Hq].
      * exists (list_sum (map (upd f s 0%nat) U)). split; [exact HPI|]. split.
        -- exists (upd f s 0%nat). split; [|reflexivity]. intros t Ht. apply Hothers; [exact Ht|]. apply Hcls. auto.
        -- pose proof (sum_upd f s 0%nat U HU HsU). split; [lia|]. split; [intros; lia|]. split; [exact HrE|exact Hq].
    + destruct Hset as [He1|Hg1].
      * exists (list_sum (map (upd f s 1%nat) U)). split; [exact HPI|]. split.
        -- exists (upd f s 1%nat). split; [|reflexivity]. intros t Ht. apply Hothers; [exact Ht|]. apply Hcls. auto.
        -- pose proof (sum_upd f s 1%nat U HU HsU). split; [lia|]. split; [intros; lia|]. split; [exact HrE|exact Hq].
      * exists (list_sum (map (upd f s 0%nat) U)). split; [exact HPI|]. split.
        -- exists (upd f s 0%nat). split; [|reflexivity]. intros t Ht. apply Hothers; [exact Ht|]. apply Hcls. auto.
        -- pose proof (sum_upd f s 0%nat U HU HsU). split; [lia|]. split; [intros; lia|]. split; [exact HrE|exact Hq].
  - destruct (handler_none_reprocess _ _ _ _ _ EH Eo) as (Hg1 & Hapi & HrE & HrR).
    assert (HPI : PInv w1).
    { apply HP1. intros o2. rewrite Hapi, Eo. discriminate. }
    exists (list_sum (map (upd f s 0%nat) U)). split; [exact HPI|]. split.
    + exists (upd f s 0%nat). split; [|reflexivity]. intros t Ht. apply Hothers; [exact Ht|].
      unfold cls_ok. rewrite Hapi, Eo. left. auto.
    + pose proof (sum_upd f s 0%nat U HU HsU). split; [lia|]. split.
      * intros E. specialize (HrR E). destruct Hcs as [[_ Hc]|[Hc|Hc]]; [contradiction|lia|lia].
      * split; [exact HrE|exact Hq].
Qed.
End Potential.

(* ---------- whole passes, single events, runs ---------- *)
Section Runs.
Variable rank : ip -> N.
Variable U : list svc.
Hypothesis HU : NoDup U.

Definition writes_ok (ks : list oracle) : Prop := Forall (fun k => k_write k = true) ks.

Lemma pass_potential order : forall ks w retry acc w' retry' rs n,
  reload_pass rank w order ks retry acc = Some (w', retry', rs) -> writes_ok ks ->
  (forall s, In s order -> In s U) -> PInv U w -> potential rank U w n ->
  exists n', PInv U w' /\ potential rank U w' n' /\ (n' <= n)%nat /\
             (retry' = true -> retry = true \/ (n' < n)%nat) /\
             w_queue w' = w_queue w /\ w_gate w' = w_gate w /\ w_reload w' = w_reload w.
Proof.
  induction order as [|s order IH]; intros ks w retry acc w' retry' rs n H Hks HoU HP Hpot.
  - cbn in H. injection H as <- <- _. exists n. split; [exact HP|]. split; [exact Hpot|]. split; [lia|]. split; [auto|]. auto.
  - cbn [reload_pass] in H. destruct ks as [|k ks]; [discriminate|].
    destruct (apply_handler rank w s k) as [[w1 r]|] eqn:EH; [|discriminate].
    inversion Hks as [|? ? Hk Hks']; subst.
    destruct (handler_potential rank U HU w s k w1 r n (HoU s (or_introl eq_refl)) HP Hpot Hk EH)
      as (n1 & HP1 & Hpot1 & Hle & Hlt & HrE & Hq1).
    destruct (proj1 HP) as [Hm0 _].
    destruct (apply_handler_inv rank w s k w1 r EH (fun _ => proj1 (proj2 HP)) (proj1 HP)) as (_ & _ & _ & _ & _ & Hg1 & Hr1 & _).
    destruct (IH _ _ _ _ _ _ _ _ H Hks' (fun t Ht => HoU t (or_intror Ht)) HP1 Hpot1)
      as (n' & HP' & Hpot' & Hle' & Hret & Hq' & Hg' & Hr').
    exists n'. split; [exact HP'|]. split; [exact Hpot'|]. split; [lia|]. split.
    + intros E. destruct (Hret E) as [E1|Hlt']; [|right; lia].
      apply orb_true_iff in E1. destruct E1 as [E1|E1]; [left; exact E1|].
      right. destruct r; try discriminate; [contradiction|specialize (Hlt eq_refl); lia].
    + split; [congruence|]. split; congruence.
Qed.

(* reconciler steps whose status writes succeed; nothing else happens *)
Definition rev_ev (e : ev) : Prop :=
  match e with
  | ESvc _ k => k_write k = true
  | EReload _ ks => writes_ok ks
  | _ => False
  end.

Definition work (w : world) (n : nat) : nat :=
  (length (w_queue w) + n + (if w_reload w then 1 else 0))%nat.

Lemma filter_len_le (f : svc -> bool) l : (length (filter f l) <= length l)%nat.
Proof. induction l as [|x l IH]; cbn; [lia|]. destruct (f x); cbn; lia. Qed.

Lemma dequeue_shorter q s : In s q -> (length (dequeue q s) < length q)%nat.
Proof.
  unfold dequeue. induction q as [|x q IH]; [intros []|]. intros Hin.
  change (filter (fun x0 => negb (x0 =? s)) (x :: q)) with
    (if negb (x =? s) then x :: filter (fun x0 => negb (x0 =? s)) q else filter (fun x0 => negb (x0 =? s)) q).
  destruct (x =? s) eqn:E; cbn [negb length].
  - apply Nat.lt_succ_r. apply filter_len_le.
  - destruct Hin as [->|Hin]; [rewrite N.eqb_refl in E; discriminate|]. apply -> Nat.succ_lt_mono. exact (IH Hin).
Qed.

(* every reconciler step uses up work *)
Theorem step_uses_work w e w' n :
  PInv U w -> potential rank U w n -> rev_ev e -> wstep rank w e = Some w' ->
  exists n', PInv U w' /\ potential rank U w' n' /\ (work w' n' < work w n)%nat /\
             (w_reload w = true \/ w_gate w = true -> w_reload w' = true \/ w_gate w' = true).
Proof.
  intros HP Hpot Hev. unfold wstep. destruct e as [| | |s k|order ks| |]; try contradiction; cbn [wstep_t rev_ev] in *.
  - (* one Service *)
    destruct (memN s (w_queue w)) eqn:Hmem; cbn [negb]; [|discriminate].
    apply memN_In in Hmem.
    destruct (negb (w_gate w) && match api_get w s with Some _ => true | None => false end) eqn:Hdrop.
    + cbn [option_map fst]. intros [= <-]. exists n. split; [|split; [|split]].
      * destruct HP as (A & B & C & D & E & F). split; [exact A|]. split; [exact B|]. split; [exact C|]. split; [exact D|]. split; [|exact F].
        cbn [w_queue]. intros t Ht. apply E. apply In_dequeue in Ht. tauto.
      * exact Hpot.
      * unfold work. cbn [w_queue w_reload]. pose proof (dequeue_shorter _ _ Hmem). lia.
      * cbn [w_reload w_gate]. apply andb_true_iff in Hdrop. destruct Hdrop as [Hg _].
        apply negb_true_iff in Hg. intros [H|H]; [left; exact H|congruence].
    + destruct (apply_handler rank w s k) as [[w1 r]|] eqn:EH; [|discriminate]. cbn [option_map fst]. intros [= <-].
      destruct (handler_potential rank U HU w s k w1 r n (proj1 (proj2 (proj2 (proj2 (proj2 HP)))) s Hmem) HP Hpot Hev EH)
        as (n1 & HP1 & Hpot1 & Hle & Hlt & HrE & Hq1).
      exists n1. split; [|split; [|split]].
      * destruct HP1 as (A & B & C & D & E & F). split; [exact A|]. split; [exact B|]. split; [exact C|]. split; [exact D|]. split; [|exact F].
        cbn [w_queue]. intros t Ht. apply (proj1 (proj2 (proj2 (proj2 (proj2 HP))))).
        destruct r; try (apply In_dequeue in Ht; tauto). contradiction.
      * destruct Hpot1 as (f & Hf & ->). exists f. split; [|reflexivity]. exact Hf.
      * unfold work. cbn [w_queue w_reload]. pose proof (dequeue_shorter _ _ Hmem).
        destruct r; try contradiction; try specialize (Hlt eq_refl); destruct (w_reload w); cbn; lia.
      * cbn [w_reload w_gate]. intros [H|H]; [left; rewrite H; reflexivity|right; exact H].
  - (* a full re-sync *)
    destruct (w_reload w) eqn:Hrl; cbn [negb]; [|discriminate].
    destruct (same_set order (map fst (w_api w)) && desc_by_status w order) eqn:Hord; cbn [negb]; [|discriminate].
    destruct (reload_pass rank w order ks false []) as [[[w1 retry] rs]|] eqn:EP; [|discriminate]. cbn [option_map fst]. intros [= <-].
    apply andb_true_iff in Hord. destruct Hord as [Hss _].
    assert (HoU : forall s, In s order -> In s U).
    { intros s Hs. apply (proj2 (proj2 (proj2 (proj2 (proj2 HP))))). apply aget_In. apply (same_set_In _ _ s Hss). exact Hs. }
    destruct (pass_potential order ks w false [] w1 retry rs n EP Hev HoU HP Hpot)
      as (n1 & HP1 & Hpot1 & Hle & Hret & Hq1 & _ & _).
    exists n1. split; [|split; [|split]].
    + destruct HP1 as (A & B & C & D & E & F). split; [exact A|]. split; [exact B|]. split; [exact C|]. split; [exact D|]. split; [|exact F].
      cbn [w_queue]. rewrite <- Hq1. exact E.
    + destruct Hpot1 as (f & Hf & ->). exists f. split; [|reflexivity]. exact Hf.
    + unfold work. cbn [w_queue w_reload]. rewrite Hrl. destruct retry.
      * destruct (Hret eq_refl) as [H|H]; [discriminate|]. lia.
      * lia.
    + cbn [w_reload w_gate]. intros _. destruct retry; [left; reflexivity|right; rewrite orb_true_r; reflexivity].
Qed.

(* so every run of reconciler steps is bounded by the work there is at its start *)
Theorem run_bounded evs : forall w w' n,
  PInv U w -> potential rank U w n -> Forall rev_ev evs -> wrun rank evs w = Some w' ->
  (length evs <= work w n)%nat.
Proof.
  induction evs as [|e evs IH]; intros w w' n HP Hpot Hevs H; [cbn; lia|].
  inversion Hevs as [|? ? He Hevs']; subst. unfold wrun in H. cbn [fold_left] in H.
  destruct (wstep rank w e) as [w1|] eqn:E; [|rewrite wrun_none in H; discriminate].
  destruct (step_uses_work w e w1 n HP Hpot He E) as (n1 & HP1 & Hpot1 & Hlt & _).
  specialize (IH w1 w' n1 HP1 Hpot1 Hevs' H). cbn [length]. lia.
Qed.
End Runs.

(* ---------- enabledness with successful writes; an admitted order always exists ---------- *)
From Coq Require Import Permutation.
Section Enabled.
Variable rank : ip -> N.

Definition wtrue (k : oracle) : oracle := {| k_write := true; k_final := k_final k |}.

Lemma converge_write_irrelevant a s o k : converge rank a s o (wtrue k) = converge rank a s o k.
Proof. destruct k; reflexivity. Qed.

Lemma set_balancer_total_w c s o : pools_wf c ->
  exists k oc, k_write k = true /\ set_balancer rank c s o k = Some oc.
Proof.
  intros [Hnu Hdj]. unfold set_balancer. destruct o as [ob|].
  - destruct (negb (c_have_pools c)); [exists {| k_write := true; k_final := None |}; eauto|].
    destruct (converge_oracle_exists rank s (c_mem c) ob Hnu Hdj) as [k Hk]. exists (wtrue k).
    rewrite converge_write_irrelevant.
    destruct (converge rank (c_mem c) s ob k) as [v ok|]; [|congruence].
    destruct (negb _); eauto.
  - exists {| k_write := true; k_final := None |}. destruct (get_alloc (c_mem c) s); eauto.
Qed.

Lemma apply_handler_total_w w s : pools_wf (w_ctl w) ->
  exists k w1 r, k_write k = true /\ apply_handler rank w s k = Some (w1, r) /\ pools_wf (w_ctl w1).
Proof.
  intros Hwf. destruct (set_balancer_total_w (w_ctl w) s (api_get w s) Hwf) as (k & oc & Hk & E).
  exists k. unfold apply_handler. rewrite E. eexists _, _. split; [exact Hk|]. split; [reflexivity|]. cbn [w_ctl].
  destruct (set_balancer_spec rank _ _ _ _ _ E) as (_ & Hp & _). unfold pools_wf. rewrite Hp. exact Hwf.
Qed.

Lemma reload_pass_total_w order : forall w retry acc, pools_wf (w_ctl w) ->
  exists ks res, writes_ok ks /\ reload_pass rank w order ks retry acc = Some res.
Proof.
  induction order as [|s order IH]; intros w retry acc Hwf.
  - exists [], (w, retry, rev acc). split; [constructor|reflexivity].
  - destruct (apply_handler_total_w w s Hwf) as (k & w1 & r & Hk & E & Hwf1).
    destruct (IH w1 (retry || match r with Error | ReprocessAll => true | _ => false end) (r :: acc) Hwf1) as (ks & res & Hks & Eks).
    exists (k :: ks), res. split; [constructor; assumption|]. cbn [reload_pass]. rewrite E. exact Eks.
Qed.

(* insertion sort by the number of recorded addresses, descending *)
Definition nstN (w : world) (s : svc) : N :=
  N.of_nat (length (match api_get w s with Some o => o_status o | None => [] end)).
Fixpoint ins_desc (f : svc -> N) (x : svc) (l : list svc) : list svc :=
  match l with
  | [] => [x]
  | y :: r => if f y <? f x then x :: y :: r else y :: ins_desc f x r
  end.
Definition sort_desc (f : svc -> N) (l : list svc) : list svc := fold_right (ins_desc f) [] l.

Lemma desc_cons w a b r : desc_by_status w (a :: b :: r) = (nstN w b <=? nstN w a) && desc_by_status w (b :: r).
Proof. reflexivity. Qed.

Lemma desc_ins w x l : desc_by_status w l = true -> desc_by_status w (ins_desc (nstN w) x l) = true.
Proof.
  induction l as [|y r IH]; [reflexivity|]. intros H. cbn [ins_desc].
  destruct (nstN w y <? nstN w x) eqn:E.
  - rewrite desc_cons, H. apply N.ltb_lt in E. rewrite (proj2 (N.leb_le _ _)); [reflexivity|lia].
  - apply N.ltb_ge in E. destruct r as [|z r'].
    + cbn [ins_desc]. rewrite desc_cons. rewrite (proj2 (N.leb_le _ _) E). reflexivity.
    + rewrite desc_cons in H. apply andb_true_iff in H. destruct H as [H1 H2]. specialize (IH H2).
      cbn [ins_desc] in *. destruct (nstN w z <? nstN w x).
      * rewrite desc_cons. rewrite (proj2 (N.leb_le _ _) E). exact IH.
      * rewrite desc_cons, H1. exact IH.
Qed.

Lemma desc_sort w l : desc_by_status w (sort_desc (nstN w) l) = true.
Proof. induction l as [|x l IH]; [reflexivity|]. cbn [sort_desc fold_right]. apply desc_ins. exact IH. Qed.

Lemma ins_perm f x l : Permutation (ins_desc f x l) (x :: l).
Proof.
  induction l as [|y r IH]; [apply Permutation_refl|]. cbn [ins_desc]. destruct (f y <? f x); [apply Permutation_refl|].
  eapply Permutation_trans; [apply perm_skip; exact IH|apply perm_swap].
Qed.

Lemma sort_perm f l : Permutation (sort_desc f l) l.
Proof.
  induction l as [|x l IH]; [constructor|]. cbn [sort_desc fold_right].
  eapply Permutation_trans; [apply ins_perm|apply perm_skip; exact IH].
Qed.

Lemma same_set_perm a b : Permutation a b -> same_set a b = true.
Proof.
  intros HP. unfold same_set. rewrite !andb_true_iff. split; [split|].
  - apply forallb_forall. intros x Hx. apply memN_In. eapply Permutation_in; eassumption.
  - apply forallb_forall. intros x Hx. apply memN_In. eapply Permutation_in; [apply Permutation_sym; exact HP|exact Hx].
  - rewrite (Permutation_length HP). apply N.eqb_refl.
Qed.

Theorem reconcile_enabled w : pools_wf (w_ctl w) -> (w_queue w <> [] \/ w_reload w = true) ->
  exists e w', rev_ev e /\ wstep rank w e = Some w'.
Proof.
  intros Hwf [Hq|Hr].
  - destruct (w_queue w) as [|s q] eqn:Eq; [congruence|].
    destruct (apply_handler_total_w w s Hwf) as (k & w1 & r & Hk & E & _).
    exists (ESvc s k). unfold wstep. cbn [wstep_t rev_ev]. rewrite Eq.
    assert (Hm : memN s (s :: q) = true) by (apply memN_In; left; reflexivity). rewrite Hm. cbn [negb].
    destruct (negb (w_gate w) && _); [cbn; eauto|]. rewrite E. cbn. eauto.
  - set (order := sort_desc (nstN w) (map fst (w_api w))).
    destruct (reload_pass_total_w order w false [] Hwf) as (ks & [[w1 retry] rs] & Hks & E).
    assert (Ho : same_set order (map fst (w_api w)) && desc_by_status w order = true).
    { unfold order. rewrite (same_set_perm _ _ (sort_perm _ _)), (desc_sort w _). reflexivity. }
    exists (EReload order ks). unfold wstep. cbn [wstep_t rev_ev]. rewrite Hr. cbn [negb].
    rewrite Ho. cbn [negb]. rewrite E. cbn. eauto.
Qed.
End Enabled.

(* ---------- the statements ---------- *)
Section Statements.
Variable rank : ip -> N.

(* nothing explicit is requested, a configuration with distinct names and disjoint pools is loaded *)
Definition settled_inputs (w : world) : Prop :=
  mem_inv (w_ctl w) /\ c_have_pools (w_ctl w) = true /\ pools_wf (w_ctl w) /\
  (forall s o, aget (w_api w) s = Some o -> o_want o = WNone).

Definition universe (w : world) : list svc := nodup N.eq_dec (w_queue w ++ map fst (w_api w)).
Definition budget (w : world) : nat := (length (w_queue w) + 2 * length (universe w) + 1)%nat.

Lemma sum_const (l : list svc) c : list_sum (map (fun _ => c) l) = (c * length l)%nat.
Proof. induction l as [|x l IH]; cbn [map list_sum fold_right length]; [lia|]. change (fold_right Nat.add 0%nat (map (fun _ : svc => c) l)) with (list_sum (map (fun _ : svc => c) l)). rewrite IH. lia. Qed.

Lemma settled_PInv w : settled_inputs w -> PInv (universe w) w /\ potential rank (universe w) w (2 * length (universe w)).
Proof.
  intros (Hm & Hp & Hwf & Hreg). split.
  - split; [exact Hm|]. split; [exact Hp|]. split; [exact Hwf|]. split; [exact Hreg|]. split.
    + intros s Hs. apply nodup_In. apply in_or_app. left. exact Hs.
    + intros s Hs. apply nodup_In. apply in_or_app. right. apply aget_In. exact Hs.
  - exists (fun _ => 2%nat). split; [|symmetry; apply sum_const].
    intros s _. unfold cls_ok. destruct (aget (w_api w) s); auto.
Qed.

(* the ReprocessAll loop cannot livelock: every run of reconciler steps with successful
   writes is at most [budget] steps long *)
Theorem reconcile_terminates w evs w' :
  settled_inputs w -> Forall rev_ev evs -> wrun rank evs w = Some w' -> (length evs <= budget w)%nat.
Proof.
  intros Hs Hevs Hr. destruct (settled_PInv w Hs) as [HP Hpot].
  pose proof (run_bounded rank (universe w) (NoDup_nodup _ _) evs w w' _ HP Hpot Hevs Hr) as H.
  unfold work, budget in *. destruct (w_reload w); lia.
Qed.

Lemma wrun_cons e evs w w1 : wstep rank w e = Some w1 -> wrun rank (e :: evs) w = wrun rank evs w1.
Proof. intros E. unfold wrun. cbn [fold_left]. rewrite E. reflexivity. Qed.

Lemma reaches_aux U (HU : NoDup U) m : forall w n,
  (work w n <= m)%nat -> PInv U w -> potential rank U w n -> (w_reload w = true \/ w_gate w = true) ->
  exists evs w', Forall rev_ev evs /\ wrun rank evs w = Some w' /\ quiescent w' /\ (length evs <= work w n)%nat.
Proof.
  induction m as [|m IH]; intros w n Hwk HP Hpot HJ.
  - unfold work in Hwk. destruct (w_queue w) as [|s q] eqn:Eq; [|cbn in Hwk; lia].
    destruct (w_reload w) eqn:Er; [lia|]. exists [], w. split; [constructor|]. split; [reflexivity|]. split; [|cbn; lia].
    unfold quiescent. destruct HJ as [H|H]; [congruence|]. auto.
  - destruct (w_queue w) as [|s q] eqn:Eq.
    + destruct (w_reload w) eqn:Er.
      * destruct (reconcile_enabled rank w (proj1 (proj2 (proj2 HP))) (or_intror Er)) as (e & w1 & He & E).
        destruct (step_uses_work rank U HU w e w1 n HP Hpot He E) as (n1 & HP1 & Hpot1 & Hlt & HJ1).
        destruct (IH w1 n1 ltac:(lia) HP1 Hpot1 (HJ1 (or_introl Er))) as (evs & w' & Hevs & Hr & Hq & Hlen).
        exists (e :: evs), w'. split; [constructor; assumption|]. split; [rewrite (wrun_cons _ _ _ _ E); exact Hr|]. split; [exact Hq|cbn [length]; lia].
      * exists [], w. split; [constructor|]. split; [reflexivity|]. split; [|cbn; lia].
        unfold quiescent. destruct HJ as [H|H]; [congruence|]. auto.
    + assert (Hne : w_queue w <> []) by (rewrite Eq; discriminate).
      destruct (reconcile_enabled rank w (proj1 (proj2 (proj2 HP))) (or_introl Hne)) as (e & w1 & He & E).
      destruct (step_uses_work rank U HU w e w1 n HP Hpot He E) as (n1 & HP1 & Hpot1 & Hlt & HJ1).
      destruct (IH w1 n1 ltac:(lia) HP1 Hpot1 (HJ1 HJ)) as (evs & w' & Hevs & Hr & Hq & Hlen).
      exists (e :: evs), w'. split; [constructor; assumption|]. split; [rewrite (wrun_cons _ _ _ _ E); exact Hr|]. split; [exact Hq|cbn [length]; lia].
Qed.

(* and quiescence is reached: from every such world with a re-sync pending (or the first
   pass already done) some run of at most [budget] reconciler steps ends with no work left *)
Theorem reconcile_reaches_quiescence w :
  settled_inputs w -> (w_reload w = true \/ w_gate w = true) ->
  exists evs w', Forall rev_ev evs /\ wrun rank evs w = Some w' /\ quiescent w' /\ (length evs <= budget w)%nat.
Proof.
  intros Hs HJ. destruct (settled_PInv w Hs) as [HP Hpot].
  destruct (reaches_aux (universe w) (NoDup_nodup _ _) _ w _ (le_n _) HP Hpot HJ) as (evs & w' & H1 & H2 & H3 & H4).
  exists evs, w'. repeat (split; [assumption|]). unfold work, budget in *. destruct (w_reload w); lia.
Qed.

(* a world in which no reconciler step is enabled has no pending work *)
Theorem stuck_means_done w : pools_wf (w_ctl w) ->
  (forall e w', rev_ev e -> wstep rank w e <> Some w') -> w_queue w = [] /\ w_reload w = false.
Proof.
  intros Hwf Hstuck. split.
  - destruct (w_queue w) as [|s q] eqn:Eq; [reflexivity|]. exfalso.
    destruct (reconcile_enabled rank w Hwf) as (e & w1 & He & E); [left; rewrite Eq; discriminate|]. exact (Hstuck e w1 He E).
  - destruct (w_reload w) eqn:Er; [|reflexivity]. exfalso.
    destruct (reconcile_enabled rank w Hwf (or_intror Er)) as (e & w1 & He & E). exact (Hstuck e w1 He E).
Qed.
End Statements.

(* ---------- after a restart ---------- *)
Section AfterRestart.
Variable rank : ip -> N.

Lemma wrun_app evs1 evs2 w w1 : wrun rank evs1 w = Some w1 -> wrun rank (evs1 ++ evs2) w = wrun rank evs2 w1.
Proof. unfold wrun. rewrite fold_left_app. intros ->. reflexivity. Qed.

(* the process restarts and the pool reconciler delivers a configuration with distinct
   names and disjoint pools: whatever the previous instance left behind, the new one runs
   out of work within the bound, and then its memory is exactly what the statuses record *)
Theorem restart_settles evs0 w ps :
  wrun rank evs0 world0 = Some w ->
  names_unique ps -> pools_disjoint (by_name ps) ->
  (forall s o, aget (w_api w) s = Some o -> o_want o = WNone) ->
  exists wp evs w', wrun rank [ECrash; EPools ps] w = Some wp /\
    Forall rev_ev evs /\ (length evs <= budget wp)%nat /\
    wrun rank (evs0 ++ [ECrash; EPools ps] ++ evs) world0 = Some w' /\ quiescent w' /\
    forall s, match aget (w_api w') s with
              | Some o => same_ips (ips_of (c_mem (w_ctl w')) s) (o_status o)
              | None => get_alloc (c_mem (w_ctl w')) s = None
              end.
Proof.
  intros Hr0 Hnu Hdj Hreg.
  set (wp := {| w_api := w_api w; w_ctl := set_pools_c fresh_ctl ps; w_gate := false; w_reload := true;
               w_queue := map fst (w_api w) |}).
  assert (Hwp : wrun rank [ECrash; EPools ps] w = Some wp) by reflexivity.
  assert (Hs : settled_inputs wp).
  { split; [|split; [reflexivity|split; [split; assumption|exact Hreg]]].
    split; [split; [constructor|intros e1 e2 x []]|intros e []]. }
  destruct (reconcile_reaches_quiescence rank wp Hs (or_introl eq_refl)) as (evs & w' & Hevs & Hr & Hq & Hlen).
  exists wp, evs, w'. split; [exact Hwp|]. split; [exact Hevs|]. split; [exact Hlen|].
  assert (Hfull : wrun rank (evs0 ++ [ECrash; EPools ps] ++ evs) world0 = Some w').
  { rewrite (wrun_app _ _ _ _ Hr0). rewrite (wrun_app _ _ _ _ Hwp). exact Hr. }
  split; [exact Hfull|]. split; [exact Hq|].
  exact (quiescent_memory_eq_status rank _ _ Hfull Hq).
Qed.
End AfterRestart.
