(* For uniquely named, pairwise disjoint pools (what configuration validation
   accepts, C08) the specification always admits some allocator result: the one
   the transcribed algorithm computes.  So a history is excluded from
   [wrun ... = Some w] by the "observed result must be admitted" rule only when
   the implementation deviates from the specification - which is what the
   correspondence check detects - never because the specification is empty. *)
From Coq Require Import List NArith Bool Lia Permutation Sorted.
From Verif Require Import Model.Net Model.Alloc Model.AllocRef Proofs.NetP Proofs.AllocP Proofs.AllocPolicyP
  Proofs.AllocSortP Proofs.AllocRefP.
Import ListNotations.
Local Open Scope N_scope.

Section Total.
Variables (a : st) (s : svc) (r : req).
Hypothesis Hnu : names_unique (s_pools a).
Hypothesis Hdj : pools_disjoint (by_name (s_pools a)).

(* an offer of a compatible configured pool can be assigned *)
Lemma offer_assignable p ips :
  In p (by_name (s_pools a)) -> compatible p r = true -> offer_ok a s r p ips = true ->
  exists a', assign a s r ips = (a', ROk ips).
Proof.
  intros Hin Hc Ho. unfold offer_ok in Ho. apply andb_true_iff in Ho. destruct Ho as [Hall Hshape].
  assert (Hne : ips <> []) by (intros ->; destruct (r_fam r); discriminate).
  assert (Hinp : forall x, In x ips -> in_pool p x = true /\ addr_free a s r p x = true).
  { intros x Hx. pose proof (proj1 (forallb_forall _ _) Hall x Hx) as H. apply andb_true_iff in H. exact H. }
  assert (Hpf : pool_for (by_name (s_pools a)) ips = Some p).
  { destruct (pool_for (by_name (s_pools a)) ips) as [p'|] eqn:E.
    - f_equal. symmetry. apply (owner_unique _ ips p' p Hdj Hne E Hin). intros x Hx. apply Hinp. exact Hx.
    - exfalso. unfold pool_for in E. pose proof (find_none _ _ E p Hin) as Hn. cbv beta in Hn.
      rewrite (proj2 (forallb_forall _ _)) in Hn; [discriminate|]. intros x Hx. apply Hinp. exact Hx. }
  eexists. unfold assign, assign_check. rewrite Hpf, Hc. cbn [negb].
  assert (Hlen : (2 <? N.of_nat (length ips)) = false /\ same_family2 ips = false).
  { destruct (r_fam r); destruct ips as [|x [|y [|z t]]]; try discriminate; cbn; split; try reflexivity.
    apply andb_true_iff in Hshape. destruct Hshape as [H1 _]. apply andb_true_iff in H1. destruct H1 as [H1 H2].
    apply fam_eqb_eq in H1. apply fam_eqb_eq in H2. rewrite H1, H2. reflexivity. }
  destruct Hlen as [-> ->].
  assert (F : forallb (fun x => check_sharing a s x (r_ports r) (r_key r)) ips = true).
  { apply forallb_forall. intros x Hx. destruct (Hinp x Hx) as [_ H]. unfold addr_free in H. apply andb_true_iff in H. tauto. }
  rewrite F. reflexivity.
Qed.

Theorem allocate_oracle_exists : get_alloc a s = None ->
  exists c, snd (step a (OAllocate s r c)) <> RSpecMismatch.
Proof.
  intros Hg.
  set (c := allocate_ref a s r (isort go_less (pinned_pools (s_pools a) r)) (unpinned_pools (s_pools a))).
  assert (Hs : allocate_spec a s r c = true).
  { apply allocate_ref_sortpools_refines_spec; [exact Hnu|]. intros q. tauto. }
  exists c. cbn [step]. rewrite Hg, Hs. destruct c as [[pn ips]|]; [|cbn; discriminate].
  unfold allocate_spec in Hs. destruct (find_pool (s_pools a) pn) as [p|] eqn:Ef; [|discriminate].
  apply andb_true_iff in Hs. destruct Hs as [Ho Hch].
  destruct (find_pool_spec _ _ _ Ef) as [Hin _].
  assert (Hc : compatible p r = true).
  { apply orb_true_iff in Hch. destruct Hch as [Hch|Hch].
    - apply choice_ok_in_spec in Hch. destruct Hch as ((q & Hq & Hn) & _).
      apply pinned_pools_spec in Hq. destruct Hq as (Hq1 & _ & Hq3 & _).
      rewrite (names_unique_eq _ q p Hnu Hq1 Hin Hn) in Hq3. exact Hq3.
    - apply andb_true_iff in Hch. destruct Hch as [_ Hch].
      apply choice_ok_in_spec in Hch. destruct Hch as ((q & Hq & Hn) & _).
      apply unpinned_pools_spec in Hq. destruct Hq as (Hq1 & _ & Hq3).
      rewrite (names_unique_eq _ q p Hnu Hq1 Hin Hn) in Hq3. unfold compatible. rewrite Hq3. reflexivity. }
  destruct (offer_assignable p ips Hin Hc Ho) as [a' Ha]. rewrite Ha. cbn. discriminate.
Qed.

Theorem frompool_oracle_exists pn : get_alloc a s = None ->
  exists c, snd (step a (OAllocateFromPool s r pn c)) <> RSpecMismatch.
Proof.
  intros Hg. cbn [step]. rewrite Hg.
  destruct (find_pool (s_pools a) pn) as [p|] eqn:Ef.
  - destruct (find_pool_spec _ _ _ Ef) as [Hin _].
    destruct (compatible p r) eqn:Hc.
    + destruct (pool_offer a s r p) as [ips|] eqn:Eo.
      * exists (Some ips). unfold from_pool_spec. rewrite Ef, (pool_offer_ok _ _ _ _ _ Eo), Hc. cbn [andb].
        destruct (offer_assignable p ips Hin Hc (pool_offer_ok _ _ _ _ _ Eo)) as [a' Ha]. rewrite Ha. cbn. discriminate.
      * exists None. unfold from_pool_spec. rewrite Ef, Eo. cbn. discriminate.
    + exists None. unfold from_pool_spec. rewrite Ef, Hc. destruct (pool_offer a s r p); cbn; discriminate.
  - exists None. unfold from_pool_spec. rewrite Ef. cbn. discriminate.
Qed.

Theorem additional_oracle_exists have pn :
  exists c, snd (step a (OAdditional s r have pn c)) <> RSpecMismatch.
Proof.
  exists (match find_pool (s_pools a) pn with
          | Some p => match first_free a s r p (other_fam (ip_fam have)) with
                      | Some x => match snd (assign a s r [have; x]) with ROk _ => Some x | _ => None end
                      | None => None
                      end
          | None => None
          end).
  cbn [step]. unfold additional_spec.
  destruct (find_pool (s_pools a) pn) as [p|] eqn:Ef; [|cbn; discriminate].
  destruct (first_free a s r p (other_fam (ip_fam have))) as [x|] eqn:E1.
  - pose proof (first_free_some _ _ _ _ _ _ E1) as (Hf & Hin & Hfree).
    match goal with |- context [assign ?a0 ?s0 ?r0 [have; x]] => destruct (assign a0 s0 r0 [have; x]) as [a' [i|e|]] eqn:Ea end.
    + cbn [snd]. rewrite Hin, Hfree, <- Hf, fam_eqb_refl. cbn [andb snd]. rewrite Ea. cbn. discriminate.
    + cbn [snd]. unfold has_free. rewrite E1. cbn. discriminate.
    + exfalso. exact (assign_never_mismatch _ _ _ _ _ Ea).
  - unfold has_free. rewrite E1. cbn. discriminate.
Qed.
End Total.

From Verif Require Import Model.Ctrl Proofs.CtrlP Proofs.CtrlWorldP Proofs.CtrlThmP Proofs.AllocMonoP Proofs.CtrlStarveP.

Section CtrlTotal.
Variable rank : ip -> N.
Variable s : svc.

Definition PE (x y : st) : Prop := s_pools y = s_pools x.
Lemma PE_refl x : PE x x. Proof. reflexivity. Qed.
Lemma PE_trans x y z : PE x y -> PE y z -> PE x z. Proof. unfold PE. congruence. Qed.
Lemma PE_unassign x : PE x (unassign x s). Proof. reflexivity. Qed.
Lemma PE_assign x r ips : PE x (fst (assign x s r ips)). Proof. apply assign_pools. Qed.

Definition kk_add (have : ip) (c : option ip) : oracle :=
  {| k_write := true; k_final := match c with Some x => Some (0, [have; x]) | None => None end |}.
Lemma the_additional_kk have c : the_additional have (kk_add have c) = c.
Proof.
  unfold the_additional, kk_add. destruct c as [x|]; cbn; [|reflexivity].
  assert (ip_eqb have have = true) by (destruct have; cbn; apply N.eqb_refl). rewrite H. reflexivity.
Qed.

(* whatever the Service and the memory: some oracle is admitted by convergeBalancer *)
Theorem converge_oracle_exists a o :
  names_unique (s_pools a) -> pools_disjoint (by_name (s_pools a)) ->
  exists k, converge rank a s o k <> CMismatch.
Proof.
  intros Hnu Hdj. unfold converge.
  set (c0 := {| cv_mem := a; cv_status := o_status o; cv_annot := o_annot o |}).
  set (knone := {| k_write := true; k_final := None |}).
  destruct (negb (o_lb o)); [exists knone; discriminate|].
  destruct (match by_name (s_pools a) with [] => true | _ => false end); [exists knone; discriminate|].
  destruct (negb (o_cluster_ok o)); [exists knone; discriminate|].
  destruct (is_require _ && _); [exists knone; discriminate|].
  destruct (stageA c0 s o) as [c1 lb1] eqn:EA.
  pose proof (stageA_NilNone s _ _ _ _ EA) as NA.
  pose proof (stageA_rel s PE PE_refl PE_unassign _ _ _ _ EA) as PA. cbn [cv_mem c0] in PA.
  pose proof (stageB_NilNone rank s c1 lb1 o NA) as NB.
  pose proof (stageB_rel rank s PE PE_refl PE_trans PE_unassign PE_assign c1 lb1 o) as PB.
  destruct (stageB rank c1 lb1 s o) as [[c3 lb3]|c3]; [|exists knone; discriminate].
  assert (Hp3 : s_pools (cv_mem c3) = s_pools a) by (unfold PE in *; congruence).
  assert (Hnu3 : names_unique (s_pools (cv_mem c3))) by (rewrite Hp3; exact Hnu).
  assert (Hdj3 : pools_disjoint (by_name (s_pools (cv_mem c3)))) by (rewrite Hp3; exact Hdj).
  (* does stage C call the allocator? *)
  assert (HE : forall c5 lb5, stageE c5 lb5 s <> CMismatch).
  { intros c5 lb5. unfold stageE. destruct lb5; [discriminate|]. destruct (pool_of _ _); [|discriminate].
    destruct (find_pool _ _); discriminate. }
  destruct lb3 as [|have [|y l]].
  - (* nothing recorded: stage D may allocate *)
    specialize (NB eq_refl).
    destruct (o_want o) as [|d|] eqn:Ew.
    + destruct (o_want_pool o) as [wp|] eqn:Ewp.
      * destruct (frompool_oracle_exists (cv_mem c3) s (o_req o) Hdj3 wp NB) as [[ips0|] Hc].
        { exists {| k_write := true; k_final := Some (0, ips0) |}.
          cbn [stageC]. unfold stageD. rewrite Ew, Ewp. cbn [k_final option_map snd]. unfold alloc_op.
          destruct (step (cv_mem c3) (OAllocateFromPool s (o_req o) wp (Some ips0))) as [a' [ips|e|]]; cbn in Hc;
            [apply HE|discriminate|congruence]. }
        { exists knone.
          cbn [stageC]. unfold stageD. rewrite Ew, Ewp. cbn [knone k_final option_map]. unfold alloc_op.
          destruct (step (cv_mem c3) (OAllocateFromPool s (o_req o) wp None)) as [a' [ips|e|]]; cbn in Hc;
            [apply HE|discriminate|congruence]. }
      * destruct (allocate_oracle_exists (cv_mem c3) s (o_req o) Hnu3 Hdj3 NB) as [c Hc].
        exists {| k_write := true; k_final := c |}.
        cbn [stageC]. unfold stageD. rewrite Ew, Ewp. cbn [k_final].
        unfold alloc_op. destruct (step (cv_mem c3) (OAllocate s (o_req o) c)) as [a' [ips|e|]]; cbn in Hc;
          [apply HE|discriminate|congruence].
    + exists knone. cbn [stageC]. unfold stageD. rewrite Ew.
      destruct (negb _); [discriminate|].
      destruct (assign (cv_mem c3) s (o_req o) d) as [a' [i|e|]]; try discriminate.
      destruct (o_want_pool o); [destruct (opt_pool_eqb _ _); [apply HE|discriminate]|apply HE].
    + exists knone. cbn [stageC]. unfold stageD. rewrite Ew. discriminate.
  - (* one address recorded: stage C may ask for the other family *)
    destruct (additional_applies (o_req o) [have]) eqn:Eap.
    + destruct (pool_of (cv_mem c3) s) as [pn|] eqn:Epo.
      * destruct (additional_oracle_exists (cv_mem c3) s (o_req o) have pn) as [c Hc].
        exists (kk_add have c). unfold stageC. rewrite Eap, Epo, the_additional_kk.
        unfold alloc_op. destruct (step (cv_mem c3) (OAdditional s (o_req o) have pn c)) as [a' [[|x [|? ?]]|e|]]; cbn in Hc; try congruence;
          cbn [stageD]; apply HE.
      * exists knone. unfold stageC. rewrite Eap, Epo. cbn [stageD]. apply HE.
    + exists knone. unfold stageC. rewrite Eap. cbn [stageD]. apply HE.
  - exists knone. cbn [stageC stageD]. apply HE.
Qed.
End CtrlTotal.

Section WorldTotal.
Variable rank : ip -> N.

Definition pools_wf (c : cstate) : Prop :=
  names_unique (s_pools (c_mem c)) /\ pools_disjoint (by_name (s_pools (c_mem c))).

Lemma set_balancer_total c s o : pools_wf c -> exists k oc, set_balancer rank c s o k = Some oc.
Proof.
  intros [Hnu Hdj]. unfold set_balancer. destruct o as [ob|].
  - destruct (negb (c_have_pools c)); [exists {| k_write := true; k_final := None |}; eauto|].
    destruct (converge_oracle_exists rank s (c_mem c) ob Hnu Hdj) as [k Hk]. exists k.
    destruct (converge rank (c_mem c) s ob k) as [v ok|]; [|congruence].
    destruct (negb _); eauto.
  - exists {| k_write := true; k_final := None |}. destruct (get_alloc (c_mem c) s); eauto.
Qed.

Lemma apply_handler_total w s : pools_wf (w_ctl w) ->
  exists k w1 r, apply_handler rank w s k = Some (w1, r) /\ pools_wf (w_ctl w1).
Proof.
  intros Hwf. destruct (set_balancer_total (w_ctl w) s (api_get w s) Hwf) as (k & oc & E).
  exists k. unfold apply_handler. rewrite E. eexists _, _. split; [reflexivity|]. cbn [w_ctl].
  destruct (set_balancer_spec rank _ _ _ _ _ E) as (_ & Hp & _). unfold pools_wf. rewrite Hp. exact Hwf.
Qed.

(* a queued Service can always be reconciled: some oracle is admitted *)
Theorem esvc_enabled w s : pools_wf (w_ctl w) -> In s (w_queue w) ->
  exists k w', wstep rank w (ESvc s k) = Some w'.
Proof.
  intros Hwf Hin. destruct (apply_handler_total w s Hwf) as (k & w1 & r & E & _).
  exists k. unfold wstep. cbn [wstep_t]. rewrite (proj2 (memN_In s (w_queue w)) Hin). cbn [negb].
  destruct (negb (w_gate w) && _); [cbn; eauto|]. rewrite E. cbn. eauto.
Qed.

Lemma reload_pass_total order : forall w retry acc, pools_wf (w_ctl w) ->
  exists ks res, reload_pass rank w order ks retry acc = Some res.
Proof.
  induction order as [|s order IH]; intros w retry acc Hwf.
  - exists [], (w, retry, rev acc). reflexivity.
  - destruct (apply_handler_total w s Hwf) as (k & w1 & r & E & Hwf1).
    destruct (IH w1 (retry || match r with Error | ReprocessAll => true | _ => false end) (r :: acc) Hwf1) as (ks & res & Eks).
    exists (k :: ks), res. cbn [reload_pass]. rewrite E. exact Eks.
Qed.

(* a pending re-sync can always be carried out in any admitted order *)
Theorem ereload_enabled w order : pools_wf (w_ctl w) -> w_reload w = true ->
  same_set order (map fst (w_api w)) && desc_by_status w order = true ->
  exists ks w', wstep rank w (EReload order ks) = Some w'.
Proof.
  intros Hwf Hr Ho. destruct (reload_pass_total order w false [] Hwf) as (ks & [[w1 retry] rs] & E).
  exists ks. unfold wstep. cbn [wstep_t]. rewrite Hr, Ho, E. cbn. eauto.
Qed.
End WorldTotal.
