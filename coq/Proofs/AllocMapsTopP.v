(* Top level of the refinement Model/AllocMaps.v -> Model/Alloc.v: every
   operation commutes with [abs], coherence is an invariant of every history,
   memory = rebuild, counters, and the boundary of the domain. *)
From Coq Require Import List NArith ZArith Bool Lia Permutation.
From Verif Require Import Model.Net Model.Alloc Model.AllocMaps Proofs.NetP Proofs.AllocP Proofs.AllocPolicyP
  Proofs.AllocCountP Proofs.AllocMapsBaseP Proofs.AllocMapsP Proofs.AllocMapsCohP Proofs.AllocMapsRefP
  Proofs.AllocMapsCongP.
Import ListNotations.
Local Open Scope N_scope.

Definition not_setpools (o : op) : Prop := match o with OSetPools _ => False | _ => True end.

(* ---------- each operation commutes with the abstraction ---------- *)
Theorem lift_step m o : MCoh m -> not_setpools o -> lift (m_step m o) = step (abs m) o.
Proof.
  intros HC Hns. destruct o as [s r ips|s|s r c|s r pn c|s r have pn c|ps]; cbn [m_step step]; try destruct Hns.
  - apply lift_assign. exact HC.
  - unfold lift. cbn [fst snd]. rewrite abs_m_unassign. reflexivity.
  - change (get_alloc (abs m) s) with (aget N.eqb s (m_alloc m)).
    destruct (aget N.eqb s (m_alloc m)) as [al|].
    + pose proof (lift_assign m s r (a_ips al) HC) as HL.
      destruct (m_assign_op m s r (a_ips al)) as [m1 r1], (assign (abs m) s r (a_ips al)) as [a1 ra].
      unfold lift in HL. cbn [fst snd] in HL. injection HL as <- <-.
      destruct r1; destruct c as [[pn ips']|]; try reflexivity. destruct (ips_eqb ips' (a_ips al)); reflexivity.
    + destruct (allocate_spec (abs m) s r c); [|reflexivity]. destruct c as [[pn ips']|]; [|reflexivity].
      pose proof (lift_assign m s r ips' HC) as HL.
      destruct (m_assign_op m s r ips') as [m1 r1], (assign (abs m) s r ips') as [a1 ra].
      unfold lift in HL. cbn [fst snd] in HL. injection HL as <- <-. destruct r1; reflexivity.
  - change (get_alloc (abs m) s) with (aget N.eqb s (m_alloc m)).
    destruct (aget N.eqb s (m_alloc m)) as [al|].
    + destruct (alloc_fam (a_ips al)) as [f|]; [|destruct c; reflexivity].
      destruct (negb _ && negb _); [destruct c; reflexivity|].
      pose proof (lift_assign m s r (a_ips al) HC) as HL.
      destruct (m_assign_op m s r (a_ips al)) as [m1 r1], (assign (abs m) s r (a_ips al)) as [a1 ra].
      unfold lift in HL. cbn [fst snd] in HL. injection HL as <- <-.
      destruct r1; destruct c as [ips'|]; try reflexivity. destruct (ips_eqb ips' (a_ips al)); reflexivity.
    + destruct (from_pool_spec (abs m) s r pn c); [|reflexivity]. destruct c as [ips'|]; [|reflexivity].
      pose proof (lift_assign m s r ips' HC) as HL.
      destruct (m_assign_op m s r ips') as [m1 r1], (assign (abs m) s r ips') as [a1 ra].
      unfold lift in HL. cbn [fst snd] in HL. injection HL as <- <-. destruct r1; reflexivity.
  - destruct (additional_spec (abs m) s r have pn c); [|reflexivity]. destruct c as [x|]; [|reflexivity].
    pose proof (lift_assign m s r [have; x] HC) as HL.
    destruct (m_assign_op m s r [have; x]) as [m1 r1], (assign (abs m) s r [have; x]) as [a1 ra].
    unfold lift in HL. cbn [fst snd] in HL. injection HL as <- <-. destruct r1; reflexivity.
Qed.

(* SetPools: same result; the recorded allocations are those of the abstract
   SetPools (the list is a permutation: re-homed services are re-inserted) *)
Theorem lift_step_setpools m ps : MInv m ->
  snd (m_step m (OSetPools ps)) = snd (step (abs m) (OSetPools ps)) /\
  st_equiv (abs (fst (m_step m (OSetPools ps)))) (fst (step (abs m) (OSetPools ps))).
Proof.
  intros HM. cbn [m_step step fst snd]. split; [reflexivity|].
  apply m_set_pools_sim; [exact HM| |tauto]. destruct HM as (_ & [H _] & _). exact H.
Qed.

Theorem lift_step_equiv m o : MInv m ->
  snd (m_step m o) = snd (step (abs m) o) /\ st_equiv (abs (fst (m_step m o))) (fst (step (abs m) o)).
Proof.
  intros HM. destruct o as [s r ips|s|s r c|s r pn c|s r have pn c|ps]; try apply lift_step_setpools; try exact HM.
  all: match goal with |- context [m_step ?mm ?o] =>
         pose proof (lift_step mm o (proj1 HM) I) as H; unfold lift in H; rewrite <- H; cbn [fst snd];
         split; [reflexivity|apply st_equiv_refl] end.
Qed.

(* ---------- coherence is preserved by every operation ---------- *)
Theorem MInv_step m o : MInv m -> wf_op o -> MInv (fst (m_step m o)).
Proof.
  intros HM Hwf. destruct o as [s r ips|s|s r c|s r pn c|s r have pn c|ps]; cbn [m_step]; cbn [wf_op] in Hwf.
  - apply MInv_assign_op; assumption.
  - cbn [fst]. apply MInv_unassign. exact HM.
  - destruct (aget N.eqb s (m_alloc m)) as [al|].
    + pose proof (MInv_assign_op m s r (a_ips al) HM Hwf) as HA.
      destruct (m_assign_op m s r (a_ips al)) as [m1 r1]. cbn [fst] in HA.
      destruct r1; destruct c as [[pn ips']|]; try assumption. destruct (ips_eqb ips' (a_ips al)); assumption.
    + destruct (allocate_spec (abs m) s r c); [|exact HM]. destruct c as [[pn ips']|]; [|exact HM].
      pose proof (MInv_assign_op m s r ips' HM Hwf) as HA.
      destruct (m_assign_op m s r ips') as [m1 r1]. cbn [fst] in HA. destruct r1; assumption.
  - destruct (aget N.eqb s (m_alloc m)) as [al|].
    + destruct (alloc_fam (a_ips al)) as [f|]; [|destruct c; exact HM].
      destruct (negb _ && negb _); [destruct c; exact HM|].
      pose proof (MInv_assign_op m s r (a_ips al) HM Hwf) as HA.
      destruct (m_assign_op m s r (a_ips al)) as [m1 r1]. cbn [fst] in HA.
      destruct r1; destruct c as [ips'|]; try assumption. destruct (ips_eqb ips' (a_ips al)); assumption.
    + destruct (from_pool_spec (abs m) s r pn c); [|exact HM]. destruct c as [ips'|]; [|exact HM].
      pose proof (MInv_assign_op m s r ips' HM Hwf) as HA.
      destruct (m_assign_op m s r ips') as [m1 r1]. cbn [fst] in HA. destruct r1; assumption.
  - destruct (additional_spec (abs m) s r have pn c); [|exact HM]. destruct c as [x|]; [|exact HM].
    pose proof (MInv_assign_op m s r [have; x] HM Hwf) as HA.
    destruct (m_assign_op m s r [have; x]) as [m1 r1]. cbn [fst] in HA. destruct r1; assumption.
  - cbn [fst]. apply m_set_pools_sim; [exact HM| |tauto]. destruct HM as (_ & [H _] & _). exact H.
Qed.

Theorem m_run_MInv ops : forall m, Forall wf_op ops -> MInv m -> MInv (m_run ops m).
Proof.
  induction ops as [|o ops IH]; intros m Hwf HM; [exact HM|]. inversion Hwf; subst. cbn.
  apply IH; [assumption|]. apply MInv_step; assumption.
Qed.

(* ---------- simulation of whole histories ---------- *)
Fixpoint m_trace (ops : list op) (m : mstate) : list res :=
  match ops with [] => [] | o :: r => snd (m_step m o) :: m_trace r (fst (m_step m o)) end.
Fixpoint trace (ops : list op) (a : st) : list res :=
  match ops with [] => [] | o :: r => snd (step a o) :: trace r (fst (step a o)) end.

Theorem m_step_sim m a o :
  MInv m -> Inv a -> st_equiv (abs m) a ->
  snd (m_step m o) = snd (step a o) /\ st_equiv (abs (fst (m_step m o))) (fst (step a o)).
Proof.
  intros HM HA HE. destruct (lift_step_equiv m o HM) as [H1 H2].
  destruct (step_equiv (abs m) a o (proj1 (proj2 HM)) HA HE) as [H3 H4].
  split; [congruence|]. eapply st_equiv_trans; eassumption.
Qed.

Theorem m_run_sim ops : forall m a,
  Forall wf_op ops -> MInv m -> Inv a -> st_equiv (abs m) a ->
  m_trace ops m = trace ops a /\ st_equiv (abs (m_run ops m)) (run ops a).
Proof.
  induction ops as [|o ops IH]; intros m a Hwf HM HA HE; [split; [reflexivity|exact HE]|].
  inversion Hwf as [|? ? Hw1 Hw2]; subst. destruct (m_step_sim m a o HM HA HE) as [H1 H2]. cbn.
  destruct (IH (fst (m_step m o)) (fst (step a o))) as [H3 H4]; auto.
  - apply MInv_step; assumption.
  - apply step_Inv. exact HA.
  - split; [congruence|exact H4].
Qed.

(* ---------- memory = rebuild ---------- *)
(* the four derived maps read alike *)
Definition maps_equiv (m1 m2 : mstate) : Prop :=
  (forall x, key_of m1 x = key_of m2 x) /\
  (forall x p, owner m1 x p = owner m2 x p) /\
  (forall x t, In t (svcs_on m1 x) <-> In t (svcs_on m2 x)) /\
  (forall n x, count m1 n x = count m2 n x).

Lemma option_ext {A} (o1 o2 : option A) : (forall t, o1 = Some t <-> o2 = Some t) -> o1 = o2.
Proof.
  intros H. destruct o1 as [x|], o2 as [y|]; try reflexivity.
  - symmetry. apply H. reflexivity.
  - pose proof (proj1 (H x) eq_refl). discriminate.
  - pose proof (proj2 (H y) eq_refl). discriminate.
Qed.

Lemma users_equiv a b n x : Inv a -> Inv b -> st_equiv a b -> users a n x = users b n x.
Proof.
  intros [HA _] [HB _] [_ He]. unfold users. f_equal. apply Permutation_length. apply Perm_filter.
  apply NoDup_Permutation; [apply (NoDup_map_inv fst); exact HA|apply (NoDup_map_inv fst); exact HB|exact He].
Qed.

Theorem MCoh_determines m1 m2 :
  MCoh m1 -> MCoh m2 -> Inv (abs m1) -> Inv (abs m2) -> st_equiv (abs m1) (abs m2) -> maps_equiv m1 m2.
Proof.
  intros H1 H2 I1 I2 HE. pose proof HE as [_ He]. cbn in He.
  assert (Hten : forall x e, In e (tenants (abs m1) x) <-> In e (tenants (abs m2) x)).
  { intros x e. rewrite !In_tenants. cbn. rewrite He. tauto. }
  repeat split.
  - intros x. destruct (tenants (abs m1) x) as [|e ts] eqn:Et.
    + rewrite (coh_key_none m1 H1 x Et). symmetry. apply (coh_key_none m2 H2).
      destruct (tenants (abs m2) x) as [|e ts] eqn:Et2; [reflexivity|]. exfalso.
      assert (In e (tenants (abs m1) x)) by (apply Hten; rewrite Et2; left; reflexivity). rewrite Et in H. destruct H.
    + assert (In e (tenants (abs m1) x)) by (rewrite Et; left; reflexivity).
      rewrite (coh_key_some m1 H1 x e H). symmetry. apply (coh_key_some m2 H2). apply Hten. exact H.
  - intros x p. apply option_ext. intros t. rewrite (coh_ports m1 H1), (coh_ports m2 H2).
    split; intros [al [Ha Hr]]; exists al; (split; [apply He; exact Ha|exact Hr]).
  - rewrite (coh_svcs m1 H1), (coh_svcs m2 H2). intros [al [Ha Hr]]; exists al; (split; [apply He; exact Ha|exact Hr]).
  - rewrite (coh_svcs m1 H1), (coh_svcs m2 H2). intros [al [Ha Hr]]; exists al; (split; [apply He; exact Ha|exact Hr]).
  - intros n x. rewrite (coh_count m1 H1), (coh_count m2 H2), (users_equiv _ _ n x I1 I2 HE). reflexivity.
Qed.

Lemma MInv_rebuild ps l :
  Inv {| s_pools := ps; allocated := l |} -> AllocsOk {| s_pools := ps; allocated := l |} ->
  MInv (rebuild {| s_pools := ps; allocated := l |}) /\
  abs (rebuild {| s_pools := ps; allocated := l |}) = {| s_pools := ps; allocated := l |}.
Proof.
  induction l as [|[s al] l IH]; intros HI HW.
  - split; [|reflexivity]. split; [|split; [exact HI|exact HW]].
    constructor; try reflexivity.
    + intros x e [].
    + intros x p t. split; [discriminate|]. intros [al [[] _]].
    + intros x t. split; [intros []|]. intros [al [[] _]].
    + intros n. constructor.
    + intros n x. destruct (is4 x); reflexivity.
    + intros n x. destruct (is6 x); reflexivity.
    + intros n. constructor.
    + intros n. constructor.
  - destruct HI as [Hnd Hex]. cbn in Hnd. inversion Hnd as [|? ? Hn Hd]; subst.
    assert (HI' : Inv {| s_pools := ps; allocated := l |}).
    { split; [exact Hd|]. intros e1 e2 x H1 H2. apply Hex; right; assumption. }
    assert (HW' : AllocsOk {| s_pools := ps; allocated := l |}).
    { intros e He. apply HW. right. exact He. }
    destruct (IH HI' HW') as [HM Habs].
    change (rebuild {| s_pools := ps; allocated := (s, al) :: l |})
      with (m_assign (rebuild {| s_pools := ps; allocated := l |}) s al).
    set (m := rebuild {| s_pools := ps; allocated := l |}) in *.
    assert (Hml : m_alloc m = l) by (change (allocated (abs m) = l); rewrite Habs; reflexivity).
    split.
    + apply MInv_assign; [exact HM|exact (HW (s, al) (or_introl eq_refl))|].
      rewrite Hml. intros e x He Hne Hx Hxe. apply (Hex e (s, al) x); cbn; auto.
    + rewrite abs_m_assign, Habs. unfold do_assign. cbn. f_equal. f_equal.
      apply (adel_notin N.eqb). apply (aget_None_notin N.eqb N.eqb_eq). exact Hn.
Qed.

(* for every finite history over the domain: what the long-running allocator
   remembers in its four derived maps is what a fresh allocator holds after
   re-assigning the surviving allocations; and no panic was reached *)
Theorem memory_equals_rebuild ops :
  Forall wf_op ops ->
  let m := m_run ops m_init in
  MCoh m /\ maps_equiv m (rebuild (abs m)) /\ abs (rebuild (abs m)) = abs m /\ m_panic m = false.
Proof.
  intros Hwf m. pose proof (m_run_MInv ops m_init Hwf MInv_init) as HM. fold m in HM.
  destruct HM as (HC & HI & HW).
  destruct (MInv_rebuild (m_pools m) (m_alloc m) HI HW) as [(HC2 & HI2 & _) Habs].
  change {| s_pools := m_pools m; allocated := m_alloc m |} with (abs m) in *.
  split; [exact HC|]. split; [|split; [exact Habs|exact (coh_nopanic m HC)]].
  apply MCoh_determines; auto. rewrite Habs. apply st_equiv_refl.
Qed.

(* ---------- counters ---------- *)
Lemma users_pos_iff a n x :
  (0 < users a n x)%Z <-> exists e, In e (allocated a) /\ a_pool (snd e) = n /\ In x (a_ips (snd e)).
Proof.
  unfold users. split.
  - intros H. destruct (filter _ (allocated a)) as [|e l] eqn:Ef; [cbn in H; lia|].
    assert (Hin : In e (filter (fun e => (a_pool (snd e) =? n) && mem_ip x (a_ips (snd e))) (allocated a)))
      by (rewrite Ef; left; reflexivity).
    apply filter_In in Hin. destruct Hin as [Hin Hb]. apply andb_true_iff in Hb. destruct Hb as [H1 H2].
    exists e. split; [exact Hin|]. split; [apply N.eqb_eq; exact H1|apply mem_ip_In; exact H2].
  - intros [e [He [Hn Hx]]].
    assert (Hin : In e (filter (fun e => (a_pool (snd e) =? n) && mem_ip x (a_ips (snd e))) (allocated a))).
    { apply filter_In. split; [exact He|]. rewrite Hn, N.eqb_refl. apply mem_ip_In. exact Hx. }
    destruct (filter _ (allocated a)); [destruct Hin|cbn; lia].
Qed.

Lemma filter_map_fst {A B} (f : A -> bool) (l : list (A * B)) :
  map fst (filter (fun e => f (fst e)) l) = filter f (map fst l).
Proof. induction l as [|[x y] l IH]; [reflexivity|]. cbn. destruct (f x); cbn; rewrite IH; reflexivity. Qed.

(* len of a family map = number of distinct addresses of that family in use *)
Lemma len_family_map (l : list (ip * Z)) a n f :
  NoDup (map fst l) ->
  (forall x, aget ip_eqb x l = if fam_eqb (ip_fam x) f then nz (users a n x) else None) ->
  Z.of_nat (length l) = assigned a n f.
Proof.
  intros Hnd Hc. unfold assigned. f_equal. rewrite <- (map_length fst).
  apply Permutation_length. apply NoDup_Permutation; [exact Hnd|apply NoDup_filter; apply ips_in_use_NoDup|].
  intros x. rewrite filter_In, ips_in_use_spec, <- users_pos_iff.
  rewrite (In_keys_aget ip_eqb ip_eqb_eq), Hc. unfold nz.
  pose proof (users_nonneg a n x). destruct (fam_eqb (ip_fam x) f).
  - destruct (users a n x =? 0)%Z eqn:E.
    + apply Z.eqb_eq in E. split; [congruence|lia].
    + apply Z.eqb_neq in E. split; [intros _; split; [lia|reflexivity]|discriminate].
  - split; [congruence|intros [_ H0]; discriminate].
Qed.

Theorem m_len_fam_eq m n f : MCoh m -> m_len_fam m n f = assigned (abs m) n f.
Proof.
  intros HC. unfold m_len_fam. destruct f.
  - apply len_family_map; [apply (coh_use4_keys m HC)|apply (coh_count4 m HC)].
  - apply len_family_map; [apply (coh_use6_keys m HC)|apply (coh_count6 m HC)].
Qed.

Theorem m_counters_eq m n : MCoh m -> m_counters_for m n = counters_for (abs m) n.
Proof.
  intros HC. unfold m_counters_for, counters_for. cbn [abs s_pools].
  destruct (find_pool (m_pools m) n); [|reflexivity]. rewrite !(m_len_fam_eq m n _ HC). reflexivity.
Qed.

(* ---------- the boundary of the domain ---------- *)
Definition ex_pool : pool :=
  {| p_name := 1; p_cidrs := [ {| pfam := F4; pbase := 167772160; plen := 30 |} ]; p_avoid := false; p_auto := true; p_pin := None |}.
Definition ex_pools : pools := {| by_name := [ex_pool]; by_ns := []; by_sel := [] |}.
Definition ex_ip : ip := V4 167772161.
Definition p80 : port := {| proto := 1; pnum := 80 |}.
Definition p443 : port := {| proto := 1; pnum := 443 |}.
Definition ex_req (ports : list port) (sh : N) : req :=
  {| r_ns := 1; r_labels := []; r_fam := S4; r_pol := Single; r_first6 := false; r_ports := ports;
     r_key := {| sharing := sh; backend := 0 |} |}.

(* a tenant WITHOUT ports (outside the domain): when the last port on the address
   goes, Unassign forgets the sharing key although service 2 still holds the address *)
Definition zero_port_ops : list op :=
  [OSetPools ex_pools; OAssign 1 (ex_req [p80] 7) [ex_ip]; OAssign 2 (ex_req [] 7) [ex_ip]; OUnassign 1].

Lemma zero_port_incoherent :
  let m := m_run zero_port_ops m_init in
  get_alloc (abs m) 2 <> None /\ tenants (abs m) ex_ip <> [] /\ key_of m ex_ip = None /\ ~ MCoh m /\
  (* and a third service with another sharing key is then accepted on the address *)
  m_check_sharing m 3 ex_ip [p80] {| sharing := 9; backend := 0 |} = true /\
  check_sharing (abs m) 3 ex_ip [p80] {| sharing := 9; backend := 0 |} = false.
Proof.
  intros m. split; [vm_compute; discriminate|]. split; [vm_compute; discriminate|].
  split; [vm_compute; reflexivity|]. split; [|split; vm_compute; reflexivity].
  intros HC.
  assert (H : exists e, In e (tenants (abs m) ex_ip)) by (vm_compute; eexists; left; reflexivity).
  destruct H as [e He]. pose proof (coh_key_some m HC ex_ip e He) as Hk.
  assert (Hn : key_of m ex_ip = None) by (vm_compute; reflexivity). congruence.
Qed.

(* the same port twice in one service (outside the domain): Unassign reaches the
   "incoherent state" panic on the second copy *)
Definition dup_port_ops : list op :=
  [OSetPools ex_pools; OAssign 1 (ex_req [p80; p80] 7) [ex_ip]; OUnassign 1].

Lemma dup_port_panics : m_panic (m_run dup_port_ops m_init) = true.
Proof. vm_compute. reflexivity. Qed.

(* inside the domain: two services sharing an address, one leaves, the other
   changes its key in place, pools are renamed: the maps at every stage *)
Definition ex_pool2 : pool :=
  {| p_name := 2; p_cidrs := [ {| pfam := F4; pbase := 167772160; plen := 30 |} ]; p_avoid := false; p_auto := true; p_pin := None |}.
Definition sharing_ops : list op :=
  [OSetPools ex_pools; OAssign 1 (ex_req [p80] 7) [ex_ip]; OAssign 2 (ex_req [p443] 7) [ex_ip]].

Lemma sharing_maps_witness :
  let m := m_run sharing_ops m_init in
  key_of m ex_ip = Some {| sharing := 7; backend := 0 |} /\
  owner m ex_ip p80 = Some 1 /\ owner m ex_ip p443 = Some 2 /\
  count m 1 ex_ip = Some 2%Z /\ aget ip_eqb ex_ip (use4_of m 1) = Some 2%Z /\ use6_of m 1 = [] /\ m_len_fam m 1 F4 = 1%Z /\
  let m2 := m_run [OUnassign 1; OAssign 2 (ex_req [p443] 9) [ex_ip];
                   OSetPools {| by_name := [ex_pool2]; by_ns := []; by_sel := [] |}] m in
  key_of m2 ex_ip = Some {| sharing := 9; backend := 0 |} /\ owner m2 ex_ip p80 = None /\
  svcs_on m2 ex_ip = [2] /\ count m2 1 ex_ip = None /\ count m2 2 ex_ip = Some 1%Z /\ m_panic m2 = false.
Proof. vm_compute. repeat split; reflexivity. Qed.

(* SetPools re-inserts re-homed services: the concrete list is a permutation *)
Lemma setpools_order_witness :
  let ops := sharing_ops ++ [OSetPools {| by_name := [ex_pool2]; by_ns := []; by_sel := [] |}] in
  map fst (allocated (abs (m_run ops m_init))) = [1; 2] /\ map fst (allocated (run ops init)) = [2; 1].
Proof. vm_compute. split; reflexivity. Qed.
