(* Shape of the merged advertisement list (Model/FrrRender.v add_advc / add_all /
   mk_neighbor): strictly sorted by prefix text, every entry supported by the
   requested advertisements (same prefix, local preference; each community comes
   from a requested advertisement with that prefix).  With FrrListsP.covers this
   is the exact content of neighborConfig.Advertisements. *)
From Coq Require Import String NArith Bool List Sorted Lia.
From Verif Require Import Model.FrrRender Model.FrrSem Proofs.FrrSortP Proofs.FrrListsP.
Import ListNotations.
Open Scope string_scope.

Definition atext (x : advc) : string := p_text (ac_pfx x).

Definition supp (L : list advc) (y : advc) : Prop :=
  (exists g, In g L /\ ac_pfx g = ac_pfx y /\ ac_lp g = ac_lp y) /\
  (forall c, In c (ac_comms y) -> exists g, In g L /\ atext g = atext y /\ In c (ac_comms g)) /\
  (forall c, In c (ac_lcomms y) -> exists g, In g L /\ atext g = atext y /\ In c (ac_lcomms g)).

Lemma supp_self L y : In y L -> supp L y.
Proof.
  intros H. split; [exists y; auto|]. split; intros c Hc; exists y; auto.
Qed.

Lemma merge_supp L c a m :
  atext c = atext a -> merge_advc c a = Some m -> supp L c -> In a L -> supp L m.
Proof.
  unfold merge_advc. intros T.
  destruct (negb (afi_eqb _ _)); [discriminate|]. destruct (negb (N.eqb _ _)); [discriminate|].
  intros H; inversion H; subst; clear H. intros ((g & Hg & Pg & Lg) & Cc & Lc) Ha.
  unfold supp, atext in *; simpl. split; [exists g; auto|]. split; intros x Hx; apply sort_s_in, in_app_or in Hx as [Hx|Hx].
  - apply Cc; assumption.
  - exists a; auto.
  - apply Lc; assumption.
  - exists a; auto.
Qed.

Lemma add_advc_supp L cur a r :
  (forall x, In x cur -> supp L x) -> In a L -> add_advc cur a = Some r -> forall y, In y r -> supp L y.
Proof.
  revert r; induction cur as [|c rest IH]; simpl; intros r Hc Ha H y Hy.
  - inversion H; subst. destruct Hy as [<-|[]]. apply supp_self; assumption.
  - destruct (String.leb _ _).
    + destruct (String.eqb _ _) eqn:E.
      * apply String.eqb_eq in E. destruct (merge_advc c a) as [m|] eqn:M; [|discriminate]. inversion H; subst.
        destruct Hy as [<-|Hy]; [|apply Hc; right; assumption].
        eapply merge_supp; [exact E|exact M|apply Hc; left; reflexivity|exact Ha].
      * inversion H; subst. destruct Hy as [<-|Hy]; [apply supp_self; assumption|apply Hc; assumption].
    + destruct (add_advc rest a) as [r'|] eqn:R; [|discriminate]. inversion H; subst.
      destruct Hy as [<-|Hy]; [apply Hc; left; reflexivity|].
      eapply IH; [intros x Hx; apply Hc; right; assumption|exact Ha|reflexivity|exact Hy].
Qed.

Lemma add_all_supp L l : forall cur r,
  (forall x, In x cur -> supp L x) -> incl l L -> add_all cur l = Some r -> forall y, In y r -> supp L y.
Proof.
  induction l as [|a l IH]; simpl; intros cur r Hc Hi H y Hy.
  - inversion H; subst. apply Hc; assumption.
  - destruct (add_advc cur a) as [c|] eqn:E; [|discriminate].
    eapply IH; [| |exact H|exact Hy].
    + intros x Hx. eapply add_advc_supp; eauto. apply Hi; left; reflexivity.
    + intros x Hx; apply Hi; right; assumption.
Qed.

(* texts of the result *)
Lemma add_advc_texts cur a r y : add_advc cur a = Some r -> In y r ->
  atext y = atext a \/ exists x, In x cur /\ atext y = atext x.
Proof.
  revert r; induction cur as [|c rest IH]; simpl; intros r H Hy.
  - inversion H; subst. destruct Hy as [<-|[]]. left; reflexivity.
  - destruct (String.leb _ _).
    + destruct (String.eqb _ _) eqn:E.
      * destruct (merge_advc c a) as [m|] eqn:M; [|discriminate]. inversion H; subst.
        destruct Hy as [<-|Hy].
        -- right. exists c. split; [left; reflexivity|].
           unfold merge_advc in M. destruct (negb _); [discriminate|]. destruct (negb _); [discriminate|].
           inversion M; reflexivity.
        -- right. exists y; split; [right; assumption|reflexivity].
      * inversion H; subst. destruct Hy as [<-|Hy]; [left; reflexivity|right; exists y; auto].
    + destruct (add_advc rest a) as [r'|] eqn:R; [|discriminate]. inversion H; subst.
      destruct Hy as [<-|Hy]; [right; exists c; split; [left; reflexivity|reflexivity]|].
      destruct (IH _ eq_refl Hy) as [E|(x & Hx & E)]; [left; assumption|right; exists x; split; [right; assumption|assumption]].
Qed.

Lemma add_advc_sorted cur a r : ssorted atext cur -> add_advc cur a = Some r -> ssorted atext r.
Proof.
  unfold ssorted. revert r; induction cur as [|c rest IH]; simpl; intros r Hs H.
  - inversion H; subst. constructor; constructor.
  - inversion Hs as [|? ? Hs' Hf]; subst. rewrite Forall_forall in Hf.
    destruct (String.leb (p_text (ac_pfx a)) (p_text (ac_pfx c))) eqn:L.
    + destruct (String.eqb (p_text (ac_pfx c)) (p_text (ac_pfx a))) eqn:E.
      * destruct (merge_advc c a) as [m|] eqn:M; [|discriminate]. inversion H; subst.
        assert (Tm: atext m = atext c).
        { unfold merge_advc in M. destruct (negb _); [discriminate|]. destruct (negb _); [discriminate|]. inversion M; reflexivity. }
        constructor; [assumption|]. rewrite Forall_forall. intros w Hw. specialize (Hf w Hw).
        unfold klt in *. rewrite Tm. assumption.
      * inversion H; subst. apply String.eqb_neq in E.
        assert (Hac: klt atext a c) by (split; [exact L|intros X; apply E; symmetry; exact X]).
        constructor; [assumption|]. constructor; [assumption|].
        rewrite Forall_forall. intros w Hw. eapply slt_trans; [exact Hac|apply Hf; assumption].
    + destruct (add_advc rest a) as [r'|] eqn:R; [|discriminate]. inversion H; subst.
      constructor; [apply IH; [assumption|reflexivity]|].
      rewrite Forall_forall. intros w Hw.
      destruct (add_advc_texts _ _ _ _ R Hw) as [Ew|(x & Hx & Ew)]; unfold klt; rewrite Ew.
      * apply not_leb_slt. exact L.
      * apply Hf; assumption.
Qed.

Lemma add_all_sorted l : forall cur r, ssorted atext cur -> add_all cur l = Some r -> ssorted atext r.
Proof.
  induction l as [|a l IH]; simpl; intros cur r Hs H.
  - inversion H; subst; assumption.
  - destruct (add_advc cur a) as [c|] eqn:E; [|discriminate]. eapply IH; [|exact H]. eapply add_advc_sorted; eauto.
Qed.

(* strictly sorted by a key: an element is determined by its key *)
Lemma ssorted_key_unique {A} (key : A -> string) l x y :
  ssorted key l -> In x l -> In y l -> key x = key y -> x = y.
Proof.
  induction 1 as [|z l Hs IH Hf]; simpl; [tauto|]. rewrite Forall_forall in Hf.
  intros [->|Hx] [->|Hy] E; auto.
  - exfalso. specialize (Hf y Hy). unfold klt in Hf. rewrite E in Hf. exact (slt_irrefl _ Hf).
  - exfalso. specialize (Hf x Hx). unfold klt in Hf. rewrite E in Hf. exact (slt_irrefl _ Hf).
Qed.

(* ---- neighborConfig.Advertisements ---- *)
Lemma mk_neighbor_shape f advs n : mk_neighbor f advs = Some n ->
  ssorted atext (nc_advs n) /\ forall y, In y (nc_advs n) -> supp (map advc_of advs) y.
Proof.
  unfold mk_neighbor. destruct (add_all [] (map advc_of advs)) as [acs|] eqn:E; [|discriminate].
  intros H; inversion H; subst; simpl. split.
  - eapply add_all_sorted; [|exact E]. constructor.
  - eapply add_all_supp; [| |exact E]; [intros x []|apply incl_refl].
Qed.
