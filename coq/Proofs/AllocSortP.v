(* sortPools (allocator.go): sort.Slice with a comparator that is NOT a strict
   weak order (two priority-0 pools are each "less" than the other).  For up to
   12 elements Go's sort.Slice runs insertionSort; that algorithm is modelled
   here and proved to return a permutation sorted by the priority key
   (ascending priority number, 0 last) for every input length. *)
From Coq Require Import List NArith Bool Lia Permutation Sorted.
From Verif Require Import Model.Net Model.Alloc Model.AllocRef Proofs.AllocP Proofs.AllocPolicyP.
Import ListNotations.
Local Open Scope N_scope.

Lemma ins_rev_perm less x acc : Permutation (ins_rev less x acc) (x :: acc).
Proof.
  induction acc as [|e r IH]; cbn; [apply Permutation_refl|].
  destruct (less x e); [|apply Permutation_refl].
  eapply Permutation_trans; [apply perm_skip; exact IH|apply perm_swap].
Qed.

Lemma isort_fold_perm less l : forall acc,
  Permutation (fold_left (fun acc x => ins_rev less x acc) l acc) (rev l ++ acc).
Proof.
  induction l as [|x l IH]; intros acc; cbn [fold_left rev]; [apply Permutation_refl|].
  eapply Permutation_trans; [apply IH|]. rewrite <- app_assoc. cbn.
  apply Permutation_app_head. apply ins_rev_perm.
Qed.

Theorem isort_perm less l : Permutation (isort less l) l.
Proof.
  unfold isort. eapply Permutation_trans; [apply Permutation_sym, Permutation_rev|].
  eapply Permutation_trans; [apply isort_fold_perm|]. rewrite app_nil_r.
  apply Permutation_sym, Permutation_rev.
Qed.

(* the sort key: (0, p) for priority p > 0, (1, 0) for priority 0 *)
Definition kle (a b : N * N) : Prop := key_lt b a = false.    (* a <= b *)

Lemma key_lt_false_iff a b : key_lt a b = false <-> (fst b < fst a \/ (fst a = fst b /\ snd b <= snd a)).
Proof.
  unfold key_lt. rewrite orb_false_iff, andb_false_iff, !N.ltb_ge, N.eqb_neq. lia.
Qed.

Lemma kle_trans a b c : kle a b -> kle b c -> kle a c.
Proof. unfold kle. rewrite !key_lt_false_iff. lia. Qed.

Lemma prio_key_pinned p : prio_key p = if prio_of p =? 0 then (1, 0) else (0, prio_of p).
Proof. unfold prio_key, prio_of. destruct (p_pin p) as [pn|]; [reflexivity|]. cbn. reflexivity. Qed.

Lemma go_less_true x e : go_less x e = true -> kle (prio_key x) (prio_key e).
Proof.
  unfold go_less, kle. rewrite !prio_key_pinned, key_lt_false_iff.
  destruct (N.ltb_spec 0 (prio_of x)), (N.ltb_spec 0 (prio_of e)); cbn [andb];
    destruct (N.eqb_spec (prio_of x) 0), (N.eqb_spec (prio_of e) 0); cbn; try lia;
    try (intros H; apply N.ltb_lt in H; lia); try discriminate.
Qed.

Lemma go_less_false x e : go_less x e = false -> kle (prio_key e) (prio_key x).
Proof.
  unfold go_less, kle. rewrite !prio_key_pinned, key_lt_false_iff.
  destruct (N.ltb_spec 0 (prio_of x)), (N.ltb_spec 0 (prio_of e)); cbn [andb];
    destruct (N.eqb_spec (prio_of x) 0), (N.eqb_spec (prio_of e) 0); cbn; try lia;
    try (intros H; apply N.ltb_ge in H; lia); try discriminate.
Qed.

(* the reversed prefix is sorted descending *)
Definition desc (l : list pool) : Prop := StronglySorted (fun a b => kle (prio_key b) (prio_key a)) l.

Lemma ins_rev_desc x acc : desc acc -> desc (ins_rev go_less x acc).
Proof.
  induction acc as [|e r IH]; intros Hd; cbn [ins_rev].
  - constructor; constructor.
  - inversion Hd as [|? ? Hr He]; subst. destruct (go_less x e) eqn:E.
    + constructor; [apply IH; exact Hr|].
      apply Forall_forall. intros y Hy.
      apply (Permutation_in _ (ins_rev_perm go_less x r)) in Hy. destruct Hy as [<-|Hy].
      * apply go_less_true. exact E.
      * exact (proj1 (Forall_forall _ _) He y Hy).
    + constructor; [exact Hd|]. constructor; [apply go_less_false; exact E|].
      apply Forall_forall. intros y Hy. eapply kle_trans; [|apply go_less_false; exact E].
      exact (proj1 (Forall_forall _ _) He y Hy).
Qed.

Lemma fold_desc l : forall acc, desc acc -> desc (fold_left (fun acc x => ins_rev go_less x acc) l acc).
Proof. induction l as [|x l IH]; intros acc H; cbn; [exact H|]. apply IH. apply ins_rev_desc. exact H. Qed.

Lemma desc_rev_sorted l : desc l -> StronglySorted (fun a b => kle (prio_key a) (prio_key b)) (rev l).
Proof.
  induction l as [|x l IH]; intros H; cbn; [constructor|].
  inversion H as [|? ? Hl Hx]; subst.
  assert (G : forall m y, StronglySorted (fun a b => kle (prio_key a) (prio_key b)) m ->
                 Forall (fun a => kle (prio_key a) (prio_key y)) m ->
                 StronglySorted (fun a b => kle (prio_key a) (prio_key b)) (m ++ [y])).
  { induction m as [|z m IHm]; intros y Hs Hf; cbn; [constructor; constructor|].
    inversion Hs as [|? ? Hm Hz]; subst. inversion Hf as [|? ? Hzy Hmy]; subst.
    constructor; [apply IHm; assumption|].
    apply Forall_app. split; [exact Hz|constructor; [exact Hzy|constructor]]. }
  apply G; [apply IH; exact Hl|].
  apply Forall_forall. intros y Hy. apply in_rev in Hy. exact (proj1 (Forall_forall _ _) Hx y Hy).
Qed.

(* sortPools on up to 12 pinned pools: pools come out by ascending priority
   number with priority 0 last (ties in any order) *)
Theorem isort_sorted l :
  StronglySorted (fun a b => kle (prio_key a) (prio_key b)) (isort go_less l).
Proof. unfold isort. apply desc_rev_sorted. apply fold_desc. constructor. Qed.

(* and no pool of strictly better priority comes after a pool in the result *)
Corollary isort_no_inversion l l1 p l2 q :
  isort go_less l = l1 ++ p :: l2 -> In q l2 -> key_lt (prio_key q) (prio_key p) = false.
Proof.
  intros H Hq. pose proof (isort_sorted l) as Hs. rewrite H in Hs.
  assert (Hs2 : StronglySorted (fun a b => kle (prio_key a) (prio_key b)) (p :: l2)).
  { clear - Hs. induction l1 as [|z l1 IH]; [exact Hs|]. inversion Hs; subst. apply IH. assumption. }
  inversion Hs2 as [|? ? _ Hf]; subst. exact (proj1 (Forall_forall _ _) Hf q Hq).
Qed.

(* the comparator is not a strict weak order: irreflexivity fails *)
Example go_less_not_irreflexive :
  let p := {| p_name := 1; p_cidrs := []; p_avoid := false; p_auto := true;
              p_pin := Some {| prio := 0; nss := [1]; sels := [] |} |} in
  go_less p p = true.
Proof. reflexivity. Qed.
