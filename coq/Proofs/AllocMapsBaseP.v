(* Association lists (Model/AllocMaps.v, Section AMap): lookup after update. *)
From Coq Require Import List NArith ZArith Bool Lia Permutation.
From Verif Require Import Model.Net Model.Alloc Model.AllocMaps Proofs.NetP Proofs.AllocP.
Import ListNotations.

Section AMapP.
  Context {K V : Type} (eqb : K -> K -> bool).
  Hypothesis eqb_eq : forall a b, eqb a b = true <-> a = b.

  Lemma eqb_refl' k : eqb k k = true.
  Proof. apply eqb_eq. reflexivity. Qed.
  Lemma eqb_ne k k' : k <> k' -> eqb k k' = false.
  Proof. intros H. destruct (eqb k k') eqn:E; [|reflexivity]. apply eqb_eq in E. contradiction. Qed.

  Lemma aget_nil k : aget eqb k (@nil (K * V)) = None.
  Proof. reflexivity. Qed.

  Lemma aget_cons k k0 v0 (l : list (K * V)) :
    aget eqb k ((k0, v0) :: l) = if eqb k0 k then Some v0 else aget eqb k l.
  Proof. unfold aget. cbn. destruct (eqb k0 k); reflexivity. Qed.

  Lemma aget_adel_eq k (l : list (K * V)) : aget eqb k (adel eqb k l) = None.
  Proof.
    induction l as [|[k0 v0] l IH]; [reflexivity|]. unfold adel. cbn.
    destruct (eqb k0 k) eqn:E; cbn; [exact IH|]. fold (adel eqb k l). rewrite aget_cons, E. exact IH.
  Qed.

  Lemma aget_adel_ne k k' (l : list (K * V)) : k <> k' -> aget eqb k' (adel eqb k l) = aget eqb k' l.
  Proof.
    intros Hne. induction l as [|[k0 v0] l IH]; [reflexivity|]. unfold adel. cbn.
    fold (adel eqb k l). rewrite aget_cons.
    destruct (eqb k0 k) eqn:E; cbn.
    - apply eqb_eq in E. subst k0. rewrite (eqb_ne k k' Hne). exact IH.
    - rewrite aget_cons. rewrite IH. reflexivity.
  Qed.

  Lemma aget_aset_eq k v (l : list (K * V)) : aget eqb k (aset eqb k v l) = Some v.
  Proof. unfold aset. rewrite aget_cons, eqb_refl'. reflexivity. Qed.

  Lemma aget_aset_ne k k' v (l : list (K * V)) : k <> k' -> aget eqb k' (aset eqb k v l) = aget eqb k' l.
  Proof. intros Hne. unfold aset. rewrite aget_cons, (eqb_ne k k' Hne). apply aget_adel_ne. exact Hne. Qed.

  Lemma aget_Some_In k v (l : list (K * V)) : aget eqb k l = Some v -> In (k, v) l.
  Proof.
    induction l as [|[k0 v0] l IH]; [discriminate|]. rewrite aget_cons.
    destruct (eqb k0 k) eqn:E.
    - apply eqb_eq in E. subst. intros [= ->]. left. reflexivity.
    - intros H. right. auto.
  Qed.

  Lemma aget_None_notin k (l : list (K * V)) : aget eqb k l = None <-> ~ In k (map fst l).
  Proof.
    induction l as [|[k0 v0] l IH]; cbn; [tauto|]. rewrite aget_cons.
    destruct (eqb k0 k) eqn:E.
    - apply eqb_eq in E. subst. split; [discriminate|]. intros H. exfalso. apply H. left. reflexivity.
    - rewrite IH. split; [|tauto]. intros H [H1|H1]; [|tauto]. subst. rewrite eqb_refl' in E. discriminate.
  Qed.

  Lemma nil_iff_aget (l : list (K * V)) : l = [] <-> forall k, aget eqb k l = None.
  Proof.
    split; [intros -> k; reflexivity|]. destruct l as [|[k0 v0] l]; [reflexivity|].
    intros H. specialize (H k0). rewrite aget_cons, eqb_refl' in H. discriminate.
  Qed.

  Lemma adel_notin k (l : list (K * V)) : aget eqb k l = None -> adel eqb k l = l.
  Proof.
    induction l as [|[k0 v0] l IH]; [reflexivity|]. rewrite aget_cons. unfold adel. cbn.
    destruct (eqb k0 k); [discriminate|]. cbn. intros H. fold (adel eqb k l). rewrite IH; auto.
  Qed.

  Lemma adel_adel k (l : list (K * V)) : adel eqb k (adel eqb k l) = adel eqb k l.
  Proof. apply adel_notin. apply aget_adel_eq. Qed.

  Lemma In_adel e k (l : list (K * V)) : In e (adel eqb k l) <-> In e l /\ fst e <> k.
  Proof.
    unfold adel. rewrite filter_In, negb_true_iff. split; intros [H1 H2]; split; auto.
    - intros E. apply eqb_eq in E. congruence.
    - apply eqb_ne. exact H2.
  Qed.

  Lemma keys_adel k (l : list (K * V)) : NoDup (map fst l) -> NoDup (map fst (adel eqb k l)).
  Proof. apply NoDup_map_filter. Qed.

  Lemma keys_aset k v (l : list (K * V)) : NoDup (map fst l) -> NoDup (map fst (aset eqb k v l)).
  Proof.
    intros H. unfold aset. cbn. constructor; [|apply keys_adel; exact H].
    intros Hin. apply in_map_iff in Hin. destruct Hin as [e [He Hin]]. apply In_adel in Hin. tauto.
  Qed.

  Lemma In_keys_aget k (l : list (K * V)) : In k (map fst l) <-> aget eqb k l <> None.
  Proof.
    pose proof (aget_None_notin k l) as H. destruct (aget eqb k l).
    - split; [discriminate|]. intros _. destruct (in_dec (fun a b => match Bool.bool_dec (eqb a b) true with left e => left (proj1 (eqb_eq a b) e) | right n => right (fun e => n (proj2 (eqb_eq a b) e)) end) k (map fst l)) as [i|n]; [exact i|].
      exfalso. apply H in n. discriminate.
    - split; [|congruence]. intros Hin. exfalso. apply (proj1 H); auto.
  Qed.

  (* with unique keys, membership and lookup coincide *)
  Lemma In_aget_nodup k v (l : list (K * V)) : NoDup (map fst l) -> (In (k, v) l <-> aget eqb k l = Some v).
  Proof.
    intros Hnd. split; [|apply aget_Some_In].
    induction l as [|[k0 v0] l IH]; [intros []|]. cbn in Hnd. inversion Hnd as [|? ? Hn Hd]; subst.
    rewrite aget_cons. intros [H|H].
    - injection H as -> ->. rewrite eqb_refl'. reflexivity.
    - destruct (eqb k0 k) eqn:E; [|auto]. apply eqb_eq in E. subst. exfalso. apply Hn.
      apply in_map_iff. exists (k, v). auto.
  Qed.
End AMapP.

(* the three key types *)
Lemma Neqb_eq : forall a b : N, N.eqb a b = true <-> a = b.
Proof. exact N.eqb_eq. Qed.

Definition ip_dec (x y : ip) : {x = y} + {x <> y}.
Proof. destruct (ip_eqb x y) eqn:E; [left; apply ip_eqb_eq; exact E|right; intros H; apply ip_eqb_eq in H; congruence]. Defined.

Lemma ip_eqb_refl x : ip_eqb x x = true.
Proof. apply ip_eqb_eq. reflexivity. Qed.
Lemma ip_eqb_neq x y : x <> y -> ip_eqb x y = false.
Proof. intros H. destruct (ip_eqb x y) eqn:E; [|reflexivity]. apply ip_eqb_eq in E. contradiction. Qed.

Definition port_dec (x y : port) : {x = y} + {x <> y}.
Proof. destruct (port_eqb x y) eqn:E; [left; apply port_eqb_eq; exact E|right; intros H; apply port_eqb_eq in H; congruence]. Defined.

Lemma memN_In n l : memN n l = true <-> In n l.
Proof.
  unfold memN. rewrite existsb_exists. split.
  - intros [y [Hy He]]. apply N.eqb_eq in He. subst. exact Hy.
  - intros H. exists n. split; [exact H|apply N.eqb_refl].
Qed.

Lemma Perm_filter {A} (f : A -> bool) l l' : Permutation l l' -> Permutation (filter f l) (filter f l').
Proof.
  induction 1; cbn.
  - constructor.
  - destruct (f x); [constructor|]; assumption.
  - destruct (f x), (f y); try constructor; apply Permutation_refl.
  - eapply Permutation_trans; eassumption.
Qed.
