(* Lemmas about Model/Wire.v, part 4: message sizes (RFC 4271 4.1: at most 4096
   octets), the exact shape of the oversized-withdraw finding, and the meaning of
   the NLRI octets for every prefix length (the network the peer installs is the
   intended address masked to the prefix length). *)
From Coq Require Import List Arith NArith Bool Lia ZifyN ZifyNat ZifyBool.
From Verif Require Import Model.Wire Proofs.WireP Proofs.WireDecP.
Import ListNotations.
Local Open Scope N_scope.

(* whatever the decoder accepts is within the RFC size limits and has an exact length field *)
Lemma dec_msg_size w4 bs m : dec_msg w4 bs = Some m -> 19 <= len bs <= 4096 /\ (wfb bs -> hdr_len bs = len bs).
Proof.
  unfold dec_msg. intros H.
  apply bind_some in H. destruct H as ([mk r0] & H0 & H). apply take_inv in H0. destruct H0 as [-> Hmk].
  apply bind_some in H. destruct H as ([] & Hg & H). apply guard_some in Hg.
  apply marker_inv in Hg; [|assumption]. subst mk.
  apply bind_some in H. destruct H as ([l r1] & H1 & H).
  apply bind_some in H. destruct H as ([t body] & H2 & H). apply get8_inv in H2. subst r1.
  apply bind_some in H. destruct H as ([] & Hg2 & _). apply guard_some in Hg2.
  split; [lia|]. intros Hw. apply wfb_app in Hw. destruct Hw as [_ Hw].
  apply (get16_inv _ _ _ Hw) in H1. destruct H1 as (E & Hl & _).
  assert (El : l = len (marker ++ r0)) by lia. rewrite <- El.
  destruct r0 as [|a [|b r]]; try discriminate. cbn in E. inversion E; subst a b.
  unfold hdr_len. cbn. apply u16_val. assumption.
Qed.

(* sendUpdate: every message it writes (4-byte next hop) is far below the limit *)
Theorem enc_update_size asn ibgp fbasn nh a bs :
  wf_uparams asn nh a -> enc_update asn ibgp fbasn nh a = Some bs -> 19 <= len bs <= 4096.
Proof.
  intros Hwf H. destruct (update_roundtrip _ _ _ _ _ _ Hwf H) as (Hd & _ & _).
  exact (proj1 (dec_msg_size _ _ _ Hd)).
Qed.

(* sendWithdraw: exact length, and the round trip holds EXACTLY when the message
   fits into 4096 octets -- this is the whole shape of the finding
   withdraw-exceeds-4096-octets *)
Lemma enc_withdraw_len ps bs : enc_withdraw ps = Some bs ->
  len bs = 23 + len (concat (map enc_prefix ps)).
Proof.
  unfold enc_withdraw.
  destruct (65535 <? len (concat (map enc_prefix ps))); [discriminate|].
  destruct (65535 <? 21 + len (concat (map enc_prefix ps)) + 2); [discriminate|].
  intros H0. apply Some_inj in H0. rewrite <- H0.
  rewrite !len_app, len_marker, !len_u16. cbn [len length N.of_nat]. change (N.of_nat 1) with 1. lia.
Qed.

Theorem withdraw_roundtrip_iff ps bs w4 : Forall wf_prefix ps -> enc_withdraw ps = Some bs ->
  (dec_msg w4 bs = Some (intended_withdraw ps) <-> len bs <= 4096) /\ wfb bs /\ hdr_len bs = len bs.
Proof.
  intros Hps H. destruct (enc_withdraw_ser _ _ Hps H) as (E1 & E2 & Hb).
  assert (Hhl : hdr_len bs = len bs).
  { pose proof (enc_withdraw_len _ _ H) as Hl. revert H. unfold enc_withdraw.
    destruct (65535 <? len (concat (map enc_prefix ps))) eqn:Ea; [discriminate|].
    destruct (65535 <? 21 + len (concat (map enc_prefix ps)) + 2) eqn:Eb; [discriminate|].
    intros H0. apply Some_inj in H0. rewrite <- H0 in *. unfold hdr_len. rewrite Hl.
    cbn [marker repeat app nth u16]. rewrite u16_val by lia. lia. }
  split; [|split; assumption]. split.
  - intros Hd. exact (proj2 (proj1 (dec_msg_size _ _ _ Hd))).
  - intros Hl.
    assert (Hwf : wf_msg w4 (intended_withdraw ps)).
    { split; [destruct w4; [rewrite <- E1 | rewrite <- E2]; assumption|].
      unfold intended_withdraw. repeat split; cbn [u_wdr u_attrs u_nlri]; try constructor.
      apply Forall_forall. intros x Hx. apply in_map_iff in Hx. destruct Hx as (p & <- & Hp).
      apply wf_intended_nlri. rewrite Forall_forall in Hps. auto. }
    destruct w4; [rewrite E1 | rewrite E2]; apply dec_ser; assumption.
Qed.

(* in numbers: n prefixes of length /32 need 23 + 5 n octets *)
Lemma enc_prefix_len p : wf_prefix p -> len (enc_prefix p) = 1 + (p_len p + 7) / 8.
Proof.
  intros (Hl & _ & Hn). unfold enc_prefix. rewrite len_cons. unfold len. rewrite firstn_length, bytes_for_bits_spec.
  assert ((p_len p + 7) / 8 <= 4) by (apply N.lt_succ_r; apply N.div_lt_upper_bound; lia). lia.
Qed.

(* ------------------------------------------------------------ what the NLRI octets mean *)
(* the network a receiver installs: the prefix octets, padded with zero octets
   to 4, as a 32-bit number with the bits beyond the prefix length cleared *)
Definition addr_val (ip : list N) : N := be (firstn 4 (ip ++ [0; 0; 0; 0])) 0.
Definition mask_to (n v : N) : N := v / 2 ^ (32 - n) * 2 ^ (32 - n).
Definition nlri_network (p : nlri) : N := mask_to (fst p) (addr_val (snd p)).

Lemma be4 a b c d : be [a; b; c; d] 0 = ((a * 256 + b) * 256 + c) * 256 + d.
Proof. reflexivity. Qed.

(* for EVERY prefix length 0..32 and arbitrary address bits: the octets written
   for the prefix denote exactly the intended address masked to the length *)
Theorem nlri_network_spec p : wf_prefix p ->
  nlri_network (intended_nlri p) = mask_to (p_len p) (addr_val (p_ip p)).
Proof.
  intros (Hl & Hb & Hn). destruct (p_ip p) as [|a [|b [|c [|d [|]]]]] eqn:E; try discriminate.
  inversion Hb as [|? ? Ha Hb1]; subst. inversion Hb1 as [|? ? Hb' Hb2]; subst.
  inversion Hb2 as [|? ? Hc Hb3]; subst. inversion Hb3 as [|? ? Hd _]; subst.
  unfold nlri_network, intended_nlri. cbn [fst snd]. rewrite E.
  set (n := p_len p) in *. unfold mask_to.
  assert (Hk : (n + 7) / 8 = 0 /\ n = 0 \/ (n + 7) / 8 = 1 /\ 1 <= n <= 8 \/ (n + 7) / 8 = 2 /\ 9 <= n <= 16 \/
               (n + 7) / 8 = 3 /\ 17 <= n <= 24 \/ (n + 7) / 8 = 4 /\ 25 <= n <= 32).
  { pose proof (N.div_mod (n + 7) 8 ltac:(discriminate)). pose proof (N.mod_lt (n + 7) 8 ltac:(discriminate)). lia. }
  (* the dropped low octets are below 2^(32-n): dividing by 2^(32-n) removes them *)
  assert (Hdrop : forall H L sh, L < 2 ^ sh -> sh <= 32 - n ->
            (H * 2 ^ sh + L) / 2 ^ (32 - n) = (H * 2 ^ sh) / 2 ^ (32 - n)).
  { intros H L sh HL Hsh. replace (32 - n) with (sh + (32 - n - sh)) by lia.
    rewrite N.pow_add_r, <- !N.div_div by (apply N.pow_nonzero; discriminate).
    rewrite N.div_add_l by (apply N.pow_nonzero; discriminate).
    rewrite (N.div_small L) by assumption. rewrite N.add_0_r.
    rewrite N.div_mul by (apply N.pow_nonzero; discriminate). reflexivity. }
  unfold addr_val.
  destruct Hk as [[-> Hn0] | [[-> Hr] | [[-> Hr] | [[-> Hr] | [-> Hr]]]]];
    [change (N.to_nat 0) with 0%nat | change (N.to_nat 1) with 1%nat | change (N.to_nat 2) with 2%nat
    | change (N.to_nat 3) with 3%nat | change (N.to_nat 4) with 4%nat];
    cbn [firstn app]; rewrite !be4.
  - rewrite Hn0. change (2 ^ (32 - 0)) with 4294967296.
    rewrite (N.div_small (((a * 256 + b) * 256 + c) * 256 + d)) by lia. reflexivity.
  - f_equal. replace (((a * 256 + b) * 256 + c) * 256 + d) with (a * 2 ^ 24 + ((b * 256 + c) * 256 + d))
      by (change (2 ^ 24) with 16777216; lia).
    replace (((a * 256 + 0) * 256 + 0) * 256 + 0) with (a * 2 ^ 24) by (change (2 ^ 24) with 16777216; lia).
    symmetry. apply Hdrop; [change (2 ^ 24) with 16777216; lia | lia].
  - f_equal. replace (((a * 256 + b) * 256 + c) * 256 + d) with ((a * 256 + b) * 2 ^ 16 + (c * 256 + d))
      by (change (2 ^ 16) with 65536; lia).
    replace (((a * 256 + b) * 256 + 0) * 256 + 0) with ((a * 256 + b) * 2 ^ 16) by (change (2 ^ 16) with 65536; lia).
    symmetry. apply Hdrop; [change (2 ^ 16) with 65536; lia | lia].
  - f_equal. replace (((a * 256 + b) * 256 + c) * 256 + d) with (((a * 256 + b) * 256 + c) * 2 ^ 8 + d)
      by (change (2 ^ 8) with 256; lia).
    replace (((a * 256 + b) * 256 + c) * 256 + 0) with (((a * 256 + b) * 256 + c) * 2 ^ 8) by (change (2 ^ 8) with 256; lia).
    symmetry. apply Hdrop; [change (2 ^ 8) with 256; lia | lia].
  - reflexivity.
Qed.

(* bitwise reading of the same fact: every one of the first [len] bits of the
   address is in the NLRI octets, at its place *)
Definition bit_at (bs : list N) (i : N) : bool := N.testbit (nth (N.to_nat (i / 8)) bs 0) (7 - i mod 8).

Theorem nlri_bits_spec p i : wf_prefix p -> i < p_len p ->
  bit_at (snd (intended_nlri p)) i = bit_at (p_ip p) i.
Proof.
  intros (Hl & _ & Hn) Hi. unfold intended_nlri, bit_at. cbn [snd]. f_equal.
  assert (Hlt : (N.to_nat (i / 8) < N.to_nat ((p_len p + 7) / 8))%nat).
  { assert (i / 8 < (p_len p + 7) / 8); [|lia].
    pose proof (N.div_mod i 8 ltac:(discriminate)). pose proof (N.mod_lt i 8 ltac:(discriminate)).
    pose proof (N.div_mod (p_len p + 7) 8 ltac:(discriminate)). pose proof (N.mod_lt (p_len p + 7) 8 ltac:(discriminate)). lia. }
  revert Hlt. generalize (N.to_nat (i / 8)) as j, (N.to_nat ((p_len p + 7) / 8)) as k, (p_ip p) as l.
  induction j as [|j IH]; intros k l Hlt; destruct k as [|k]; try lia; destruct l as [|x l]; cbn; try reflexivity.
  apply IH. lia.
Qed.
