(* The announcer's methods as sections of ONE RWMutex in the lock-level machine of Model/Lock.v
   (instantiation of rw_sections_atomic with the model functions of Model/Announcer.v). *)
From Coq Require Import List NArith ZArith Bool.
From Verif Require Import Model.Net Model.Announcer.
From Verif Require Model.Lock Proofs.LockP.
Import ListNotations.

(* the methods of the announcer as sections of ONE RWMutex in the lock-level machine of Model/Lock.v:
   writer k performs update (us k) (one section), reader k asks (qs k).  Whatever the
   interleaving of Lock / RLock / steps / Unlock, every answer is [ask] on the state produced by a
   prefix (in lock-acquisition order) of the COMPLETE updates *)
Lemma t_rw_lock_level (us : nat -> upd) (qs : nat -> query) s0 h c :
  let wb := fun k => [fun s => apply_upd s (us k)] in
  let rq := fun k s => ask s (qs k) in
  Lock.rwinit st answer s0 h -> Lock.rwsteps st answer wb rq (Lock.mk_rwconfig st answer s0 h []) c ->
  (forall i a, Lock.rths st answer c i = Lock.RGot st answer a \/ Lock.rths st answer c i = Lock.RDone st answer a ->
     exists k, a = ask (Lock.serial st wb (skipn k (Lock.rorder st answer c)) s0) (qs i)) /\
  ((forall i, ~ Lock.writer_in st answer (Lock.rths st answer c i)) -> Lock.rsigma st answer c = Lock.serial st wb (Lock.rorder st answer c) s0).
Proof.
  intros wb rq Hi St. destruct (LockP.rw_sections_atomic st answer wb rq s0 h c Hi St) as [A [B _]]. split; assumption.
Qed.
