(* Lemmas about Model/Wire.v, part 5: the exact acceptance set of readOpen.
   readOpen is more liberal than the RFC decoder [dec_msg]: it ignores the
   "Opt Parm Len" octet, ignores the upper limit 4096, and treats the end of the
   STREAM at an optional-parameter boundary like the end of the message.  The
   theorem below says precisely which byte streams it accepts, and what it
   reports and consumes on them. *)
From Coq Require Import List Arith NArith Bool Lia ZifyN ZifyNat ZifyBool.
From Verif Require Import Model.Wire Proofs.WireP Proofs.WireReadP Proofs.WireDecP.
Import ListNotations.
Local Open Scope N_scope.
Unset Lia Cache.

(* the streams readOpen accepts: header announcing L, the ten fixed octets with
   version 4 and a legal hold time, ANY option-length octet, then capability
   parameters [ps] (known capabilities 4 octets long), then
   - either exactly up to the announced length (L = 29 + |ps|), followed by anything,
   - or fewer (L > 29 + |ps|) and then the stream ENDS. *)
Definition open_stream (L asn16 hold : N) (id : list N) (optlen : N) (ps : list param) (extra : list N) : list N :=
  marker ++ u16 L ++ [1] ++ [4] ++ u16 asn16 ++ u16 hold ++ id ++ [optlen] ++ concat (map ser_param ps) ++ extra.

Definition open_stream_ok (L asn16 hold : N) (id : list N) (ps : list param) (extra : list N) : Prop :=
  len id = 4 /\ asn16 < 65536 /\ hold < 65536 /\ (hold = 0 \/ 3 <= hold) /\ L < 65536 /\
  Forall caps_only ps /\
  (L = 29 + len (concat (map ser_param ps)) \/ (29 + len (concat (map ser_param ps)) < L /\ extra = [])).

Lemma read_opts_ser_gen ps : forall fuel extra n1 r,
  Forall caps_only ps -> (length ps < fuel)%nat ->
  len (concat (map ser_param ps)) <= n1 -> (n1 = len (concat (map ser_param ps)) \/ extra = []) ->
  read_opts fuel (concat (map ser_param ps) ++ extra) n1 r =
  (None, extra, n1 - len (concat (map ser_param ps)), fold_left step_cap (concat (map param_caps ps)) r).
Proof.
  induction ps as [|p ps IH]; intros fuel extra n1 r Hwf Hf Hn Hor.
  - destruct fuel as [|fuel]; [cbn in Hf; lia|]. cbn [map concat app fold_left] in *.
    cbn [read_opts]. rewrite got1. change (len (@nil N)) with 0 in *.
    assert (Hm : N.min n1 (N.min 2 (len extra)) = 0).
    { destruct Hor as [-> | ->]; [apply N.min_0_l | change (len (@nil N)) with 0; lia]. }
    rewrite Hm. cbn [N.eqb]. unfold dropN. cbn [N.to_nat skipn]. rewrite !N.sub_0_r. reflexivity.
  - inversion Hwf as [|? ? (cs & -> & Hcs) Hps]; subst. destruct fuel as [|fuel]; [cbn in Hf; lia|].
    cbn [map concat param_caps ser_param] in *. set (B := concat (map ser_cap cs)) in *.
    set (T := concat (map ser_param ps)) in *.
    rewrite fold_left_app.
    replace (([2; len B] ++ B) ++ T) with (2 :: len B :: B ++ T) in * by reflexivity.
    assert (Hl : len (2 :: len B :: B ++ T) = 2 + len B + len T) by (rewrite !len_cons, len_app; lia).
    rewrite Hl in *.
    cbn [app]. cbn [read_opts]. rewrite got1.
    assert (Hl' : len (2 :: len B :: (B ++ T) ++ extra) = 2 + len B + len T + len extra)
      by (rewrite !len_cons, !len_app; lia).
    replace (N.min n1 (N.min 2 (len (2 :: len B :: (B ++ T) ++ extra)))) with 2 by lia.
    change (takeN 2 (2 :: len B :: (B ++ T) ++ extra)) with [2; len B].
    change (dropN 2 (2 :: len B :: (B ++ T) ++ extra)) with ((B ++ T) ++ extra).
    cbn [N.eqb Pos.eqb nth negb]. rewrite <- app_assoc.
    assert (Hrc := read_caps_ser cs (S (length (B ++ T ++ extra))) (T ++ extra) (n1 - 2) r Hcs).
    fold B in Hrc. rewrite Hrc; [| |lia].
    2:{ rewrite app_length. pose proof (length_caps_le cs) as Hle. fold B in Hle. lia. }
    cbn [N.eqb]. cbv iota.
    unfold T. rewrite IH; [|assumption|cbn in Hf; lia|fold T; lia|fold T; destruct Hor; [left; lia | right; assumption]].
    fold T. f_equal. f_equal. lia.
Qed.

(* <= : readOpen accepts every such stream *)
Theorem read_open_stream L asn16 hold id optlen ps extra :
  open_stream_ok L asn16 hold id ps extra ->
  read_open (open_stream L asn16 hold id optlen ps extra) =
  (ROk (understood {| o_ver := 4; o_asn := asn16; o_hold := hold; o_id := id; o_params := ps |}),
   29 + len (concat (map ser_param ps))).
Proof.
  intros (Hid & Ha & Hh & Hh' & HL & Hps & Hor). unfold open_stream.
  set (P := concat (map ser_param ps)) in *.
  destruct id as [|i1 [|i2 [|i3 [|i4 [|]]]]]; try (exfalso; unfold len in Hid; cbn [length] in Hid; lia). clear Hid.
  set (body := [4] ++ u16 asn16 ++ u16 hold ++ [i1; i2; i3; i4] ++ [optlen] ++ P ++ extra).
  assert (Hb : len body = 10 + len P + len extra).
  { unfold body. rewrite !len_app, !len_u16. cbn [len length N.of_nat]. lia. }
  unfold read_open, read_open_gen. rewrite got0.
  set (bs := marker ++ u16 L ++ [1] ++ body).
  assert (Hbs : len bs = 19 + len body).
  { unfold bs. rewrite !len_app, len_marker, len_u16. cbn [len length N.of_nat]. lia. }
  replace (N.min 19 (len bs)) with 19 by lia.
  change (full_err 19 19) with (@None rerr). cbv iota.
  change (takeN 19 bs) with (marker ++ u16 L ++ [1]).
  change (dropN 19 bs) with body.
  change (forallb (N.eqb 255) (firstn 16 (marker ++ u16 L ++ [1]))) with true.
  change (nth 18 (marker ++ u16 L ++ [1]) 0) with 1.
  change (be (firstn 2 (skipn 16 (marker ++ u16 L ++ [1]))) 0) with (b1 L * 256 + b0 L).
  rewrite u16_val by lia.
  cbn [negb N.eqb Pos.eqb]. cbv iota.
  replace (L <? 29) with false by lia.
  rewrite got1.
  replace (N.min (L - 19) (N.min 10 (len body))) with 10 by lia.
  change (full_err 10 10) with (@None rerr). cbv iota.
  change (takeN 10 body) with ([4] ++ u16 asn16 ++ u16 hold ++ [i1; i2; i3; i4] ++ [optlen]).
  change (dropN 10 body) with (P ++ extra).
  change (nth 0 ([4] ++ u16 asn16 ++ u16 hold ++ [i1; i2; i3; i4] ++ [optlen]) 0) with 4.
  change (be (firstn 2 (skipn 1 ([4] ++ u16 asn16 ++ u16 hold ++ [i1; i2; i3; i4] ++ [optlen]))) 0)
    with (b1 asn16 * 256 + b0 asn16).
  change (be (firstn 2 (skipn 3 ([4] ++ u16 asn16 ++ u16 hold ++ [i1; i2; i3; i4] ++ [optlen]))) 0)
    with (b1 hold * 256 + b0 hold).
  rewrite !u16_val by assumption. cbn [negb N.eqb Pos.eqb]. cbv iota.
  replace (negb (hold =? 0) && (hold <? 3)) with false by lia.
  pose proof (length_params_le ps) as Hle. fold P in Hle.
  unfold P. rewrite read_opts_ser_gen; [|assumption|fold P; rewrite app_length; lia|fold P; lia|fold P; destruct Hor; [left; lia | right; tauto]].
  fold P. rewrite fold_step_cap by (apply caps_only_wf; assumption).
  replace (len bs - len extra) with (29 + len P) by (rewrite Hbs, Hb; lia). reflexivity.
Qed.

(* ------------------------------------------------------------ => : inversion of the reader *)
Lemma take_drop m s : m <= len s -> s = takeN m s ++ dropN m s /\ len (takeN m s) = m.
Proof.
  intros H. split; [symmetry; apply firstn_skipn|]. rewrite len_takeN. lia.
Qed.

Lemma pair5_inv {A B C D E} (a a' : A) (b b' : B) (c c' : C) (d d' : D) (e e' : E) :
  (a, b, c, d, e) = (a', b', c', d', e') -> a = a' /\ b = b' /\ c = c' /\ d = d' /\ e = e'.
Proof. intros H. inversion H. auto. Qed.

Lemma read_caps_ok_inv fuel : forall s n1 n2 r s' n1' r',
  read_caps fuel s n1 n2 r = (None, s', n1', 0, r') ->
  exists cs, s = concat (map ser_cap cs) ++ s' /\ n2 = len (concat (map ser_cap cs)) /\ n2 <= n1 /\
             n1' = n1 - n2 /\ Forall wf_cap cs /\ r' = fold_left step_cap cs r.
Proof.
  induction fuel as [|fuel IH]; intros s n1 n2 r s' n1' r' H; [cbn in H; discriminate|].
  cbn [read_caps] in H. rewrite !got2, ?got3 in H.
  remember (N.min n2 (N.min n1 (N.min 2 (len s)))) as m eqn:Em.
  assert (Hm : m = 0 \/ m = 1 \/ m = 2) by lia. destruct Hm as [-> | [-> | ->]].
  - cbn [N.eqb] in H. apply pair5_inv in H. destruct H as (_ & Hs & Hn1 & Hn2 & Hr).
    exists []. cbn [map concat app fold_left]. unfold dropN in Hs. cbn in Hs.
    change (len (@nil N)) with 0. repeat split; try assumption; try (symmetry; assumption); try lia. constructor.
  - cbn [N.eqb Pos.eqb] in H. discriminate.
  - cbn [N.eqb Pos.eqb] in H.
    destruct s as [|code [|n3 s1]]; try (cbn [len length N.of_nat] in Em; lia).
    change (takeN 2 (code :: n3 :: s1)) with [code; n3] in H.
    change (dropN 2 (code :: n3 :: s1)) with s1 in H. cbn [nth] in H.
    assert (Hge : 2 <= n2 /\ 2 <= n1) by lia.
    destruct ((code =? 65) || (code =? 1)) eqn:Ec.
    + remember (N.min n3 (N.min (n2 - 2) (N.min (n1 - 2) (N.min 4 (len s1))))) as m4 eqn:Em4.
      unfold full_err in H. destruct (m4 =? 4) eqn:E4.
      2:{ destruct (m4 =? 0); apply pair5_inv in H; destruct H as (H & _); discriminate H. }
      apply N.eqb_eq in E4. rewrite E4 in H, Em4. clear E4 m4.
      destruct (n3 - 4 =? 0) eqn:E3; [|apply pair5_inv in H; destruct H as (H & _); discriminate H].
      assert (Hf : n3 = 4 /\ 6 <= n2 /\ 6 <= n1 /\ 4 <= len s1) by (clear - Em4 E3 Hge; lia).
      clear Em4 E3 Em Hge. destruct Hf as (Hn3 & Hf2 & Hf1 & Hfs).
      destruct (take_drop 4 s1 Hfs) as [Hs1 Hd]. set (d := takeN 4 s1) in *. set (s2 := dropN 4 s1) in *.
      apply IH in H. destruct H as (cs & Hs2 & Hn2 & Hle & Hn1' & Hwf & Hr).
      exists ({| c_code := code; c_val := d |} :: cs).
      cbn [map concat fold_left]. rewrite len_app, len_ser_cap. unfold ser_cap at 1. cbn [c_code c_val]. rewrite Hd.
      clearbody d s2.
      assert (Hnum : n2 = 2 + 4 + len (concat (map ser_cap cs)) /\ n2 <= n1 /\ n1' = n1 - n2)
        by (clear - Hf2 Hf1 Hn2 Hle Hn1'; lia).
      destruct Hnum as (Hna & Hnb & Hnc).
      split; [|split; [exact Hna|split; [exact Hnb|split; [exact Hnc|split]]]].
      * rewrite Hn3. rewrite Hs1, Hs2. cbn [app]. rewrite <- app_assoc. reflexivity.
      * constructor; [|assumption]. unfold wf_cap. cbn [c_code c_val]. intros _. exact Hd.
      * rewrite Hr. f_equal. unfold step_cap. cbn [c_code c_val].
        destruct (code =? 65) eqn:E65; [reflexivity|]. cbn [orb] in Ec. rewrite Ec. reflexivity.
    + remember (N.min (n2 - 2) (N.min (n1 - 2) (N.min n3 (len s1)))) as md eqn:Emd.
      destruct (n3 - md =? 0) eqn:E3; [|apply pair5_inv in H; destruct H as (H & _); discriminate H].
      assert (Hf : md = n3 /\ n3 + 2 <= n2 /\ n3 + 2 <= n1 /\ n3 <= len s1) by (clear - Emd E3 Hge; lia).
      clear Emd E3 Em Hge. destruct Hf as (Hmd & Hf2 & Hf1 & Hfs). rewrite Hmd in H. clear Hmd md.
      destruct (take_drop n3 s1 Hfs) as [Hs1 Hd]. set (v := takeN n3 s1) in *. set (s2 := dropN n3 s1) in *.
      apply IH in H. destruct H as (cs & Hs2 & Hn2 & Hle & Hn1' & Hwf & Hr).
      exists ({| c_code := code; c_val := v |} :: cs).
      cbn [map concat fold_left]. rewrite len_app, len_ser_cap. unfold ser_cap at 1. cbn [c_code c_val]. rewrite Hd.
      clearbody v s2.
      apply orb_false_iff in Ec. destruct Ec as [E65 E1].
      assert (Hnum : n2 = 2 + n3 + len (concat (map ser_cap cs)) /\ n2 <= n1 /\ n1' = n1 - n2)
        by (clear - Hf2 Hf1 Hn2 Hle Hn1'; lia).
      destruct Hnum as (Hna & Hnb & Hnc).
      split; [|split; [exact Hna|split; [exact Hnb|split; [exact Hnc|split]]]].
      * rewrite Hs1, Hs2. cbn [app]. rewrite <- app_assoc. reflexivity.
      * constructor; [|assumption]. unfold wf_cap. cbn [c_code c_val]. intros [Hc | Hc]; subst code; discriminate.
      * rewrite Hr. f_equal. unfold step_cap. cbn [c_code c_val]. rewrite E65, E1. reflexivity.
Qed.

Lemma pair4_inv {A B C D} (a a' : A) (b b' : B) (c c' : C) (d d' : D) :
  (a, b, c, d) = (a', b', c', d') -> a = a' /\ b = b' /\ c = c' /\ d = d'.
Proof. intros H. inversion H. auto. Qed.

Lemma read_opts_ok_inv fuel : forall s n1 r s' n1' r',
  read_opts fuel s n1 r = (None, s', n1', r') ->
  exists ps, s = concat (map ser_param ps) ++ s' /\ Forall caps_only ps /\
             len (concat (map ser_param ps)) <= n1 /\ n1' = n1 - len (concat (map ser_param ps)) /\
             (n1' = 0 \/ s' = []) /\ r' = fold_left step_cap (concat (map param_caps ps)) r.
Proof.
  induction fuel as [|fuel IH]; intros s n1 r s' n1' r' H; [cbn in H; discriminate|].
  cbn [read_opts] in H. rewrite got1 in H.
  remember (N.min n1 (N.min 2 (len s))) as m eqn:Em.
  assert (Hm : m = 0 \/ m = 1 \/ m = 2) by lia. destruct Hm as [-> | [-> | ->]].
  - cbn [N.eqb] in H. apply pair4_inv in H. destruct H as (_ & Hs & Hn1 & Hr).
    exists []. cbn [map concat app fold_left]. unfold dropN in Hs. cbn in Hs.
    change (len (@nil N)) with 0.
    assert (Hz : n1 = 0 \/ s = []).
    { destruct s; [right; reflexivity|]. left. rewrite len_cons in Em. lia. }
    subst s' r'. split; [reflexivity|]. split; [constructor|]. split; [lia|]. split; [lia|]. split; [|reflexivity].
    destruct Hz as [Hz | Hz]; [left; lia | right; assumption].
  - cbn [N.eqb Pos.eqb] in H. discriminate.
  - cbn [N.eqb Pos.eqb] in H.
    destruct s as [|ty [|n2 s1]]; try (cbn [len length N.of_nat] in Em; lia).
    change (takeN 2 (ty :: n2 :: s1)) with [ty; n2] in H.
    change (dropN 2 (ty :: n2 :: s1)) with s1 in H. cbn [nth] in H.
    assert (Hge : 2 <= n1) by lia. clear Em.
    destruct (negb (ty =? 2)) eqn:Et; [apply pair4_inv in H; destruct H as (H & _); discriminate H|].
    apply negb_false_iff, N.eqb_eq in Et. subst ty.
    destruct (read_caps (S (length s1)) s1 (n1 - 2) n2 r) as [[[[e2 s2] n1b] n2b] r2] eqn:Ec.
    destruct e2; [apply pair4_inv in H; destruct H as (H & _); discriminate H|].
    destruct (n2b =? 0) eqn:E0; [|apply pair4_inv in H; destruct H as (H & _); discriminate H].
    apply N.eqb_eq in E0. subst n2b.
    apply read_caps_ok_inv in Ec. destruct Ec as (cs & Hs1 & Hn2 & Hle & Hn1b & Hcs & Hr2).
    apply IH in H. destruct H as (ps & Hs2 & Hps & Hlen & Hn1' & Hor & Hr).
    exists (PCaps cs :: ps). cbn [map concat ser_param param_caps].
    set (B := concat (map ser_cap cs)) in *. set (T := concat (map ser_param ps)) in *.
    assert (HlB : len ([2; len B] ++ B) = 2 + len B) by (rewrite len_app; reflexivity).
    rewrite len_app, HlB.
    assert (Hnum : 2 + len B + len T <= n1 /\ n1' = n1 - (2 + len B + len T))
      by (clear - Hge Hn2 Hle Hn1b Hlen Hn1'; lia).
    destruct Hnum as (Hna & Hnb).
    split; [|split; [|split; [exact Hna|split; [exact Hnb|split; [exact Hor|]]]]].
    + rewrite Hs1, Hs2, <- Hn2. cbn [app]. rewrite <- !app_assoc. reflexivity.
    + constructor; [exists cs; split; [reflexivity | assumption] | assumption].
    + rewrite fold_left_app, <- Hr2. exact Hr.
Qed.

(* the fixed part of the message: marker, length, type, version, AS, hold time, id, option length *)
Lemma list29 (l : list N) : 29 <= len l ->
  exists h t, l = h ++ t /\ length h = 29%nat.
Proof.
  intros H. exists (firstn 29 l), (skipn 29 l). split; [symmetry; apply firstn_skipn|].
  rewrite firstn_length. unfold len in H. lia.
Qed.

Lemma pair_lt a b : a < 256 -> b < 256 -> a * 256 + b < 65536.
Proof. intros. lia. Qed.

(* => : whatever readOpen accepts is such a stream *)
Theorem read_open_accepts_inv bs r n : wfb bs -> read_open bs = (ROk r, n) ->
  exists L asn16 hold id optlen ps extra,
    bs = open_stream L asn16 hold id optlen ps extra /\ open_stream_ok L asn16 hold id ps extra.
Proof.
  intros Hw H. unfold read_open, read_open_gen in H. rewrite got0 in H.
  remember (N.min 19 (len bs)) as m eqn:Em.
  destruct (full_err 19 m) eqn:Ef; [inversion H|].
  assert (Hm : m = 19 /\ 19 <= len bs).
  { unfold full_err in Ef. destruct (m =? 19) eqn:E; [lia|]. destruct (m =? 0); discriminate. }
  destruct Hm as [-> Hl19]. clear Ef Em.
  destruct (negb (forallb (N.eqb 255) (firstn 16 (takeN 19 bs)))) eqn:Emk; [inversion H|].
  apply negb_false_iff in Emk.
  destruct (nth 18 (takeN 19 bs) 0 =? 3) eqn:E3; [inversion H|].
  destruct (negb (nth 18 (takeN 19 bs) 0 =? 1)) eqn:E1; [inversion H|].
  apply negb_false_iff, N.eqb_eq in E1.
  rewrite hlen_hdr in H by assumption. set (L := hdr_len bs) in *.
  destruct (L <? 29) eqn:EL; [inversion H|].
  rewrite got1 in H. remember (N.min (L - 19) (N.min 10 (len (dropN 19 bs)))) as m10 eqn:Em10.
  destruct (full_err 10 m10) eqn:Ef10; [inversion H|].
  assert (Hm10 : m10 = 10).
  { unfold full_err in Ef10. destruct (m10 =? 10) eqn:E; [lia|]. destruct (m10 =? 0); discriminate. }
  rewrite Hm10 in *. clear Ef10 Hm10.
  assert (Hl29 : 29 <= len bs) by (rewrite len_dropN in Em10; lia).
  (* name the 29 fixed octets *)
  unfold len in Hl29.
  do 29 (destruct bs as [|? bs]; [cbn [length] in Hl29; lia|]).
  clear Hl19 Hl29 Em10.
  change (takeN 19 (n0 :: n1 :: n2 :: n3 :: n4 :: n5 :: n6 :: n7 :: n8 :: n9 :: n10 :: n11 :: n12 :: n13 :: n14 :: n15 :: n16 :: n17 :: n18 :: n19 :: n20 :: n21 :: n22 :: n23 :: n24 :: n25 :: n26 :: n27 :: n28 :: bs))
    with [n0; n1; n2; n3; n4; n5; n6; n7; n8; n9; n10; n11; n12; n13; n14; n15; n16; n17; n18] in *.
  change (dropN 19 (n0 :: n1 :: n2 :: n3 :: n4 :: n5 :: n6 :: n7 :: n8 :: n9 :: n10 :: n11 :: n12 :: n13 :: n14 :: n15 :: n16 :: n17 :: n18 :: n19 :: n20 :: n21 :: n22 :: n23 :: n24 :: n25 :: n26 :: n27 :: n28 :: bs))
    with (n19 :: n20 :: n21 :: n22 :: n23 :: n24 :: n25 :: n26 :: n27 :: n28 :: bs) in *.
  change (takeN 10 (n19 :: n20 :: n21 :: n22 :: n23 :: n24 :: n25 :: n26 :: n27 :: n28 :: bs))
    with [n19; n20; n21; n22; n23; n24; n25; n26; n27; n28] in H.
  change (dropN 10 (n19 :: n20 :: n21 :: n22 :: n23 :: n24 :: n25 :: n26 :: n27 :: n28 :: bs)) with bs in H.
  cbn [nth firstn skipn] in H, Emk, E1.
  change (be [n20; n21] 0) with (n20 * 256 + n21) in H. change (be [n22; n23] 0) with (n22 * 256 + n23) in H.
  destruct (negb (n19 =? 4)) eqn:Ev; [inversion H|]. apply negb_false_iff, N.eqb_eq in Ev.
  set (hold := n22 * 256 + n23) in *. set (asn16 := n20 * 256 + n21) in *.
  destruct (negb (hold =? 0) && (hold <? 3)) eqn:Eh; [inversion H|].
  destruct (read_opts (S (length bs)) bs (L - 19 - 10)
              {| r_asn := asn16; r_hold := hold; r_mp4 := false; r_mp6 := false; r_fbasn := false |})
    as [[[e s2] n1'] r'] eqn:Eo.
  destruct e; [inversion H|].
  apply read_opts_ok_inv in Eo. destruct Eo as (ps & Hbs & Hps & Hlen & Hn1' & Hor & _).
  (* bytes *)
  unfold wfb in Hw.
  repeat match goal with Hw : Forall _ (_ :: _) |- _ => inversion Hw as [|? ? ?Hb ?Hw]; clear Hw; subst end.
  cbn [forallb] in Emk. repeat (apply andb_true_iff in Emk; destruct Emk as [?Hk Emk]).
  repeat match goal with Hk : (255 =? _) = true |- _ => apply N.eqb_eq in Hk; subst end.
  assert (HL : L = n16 * 256 + n17) by reflexivity.
  exists L, asn16, hold, [n24; n25; n26; n27], n28, ps, s2.
  split.
  - unfold open_stream.
    assert (E16 : u16 L = [n16; n17]) by (rewrite HL; apply b_of_pair; assumption).
    assert (Ea : u16 asn16 = [n20; n21]) by (apply b_of_pair; assumption).
    assert (Eh' : u16 hold = [n22; n23]) by (apply b_of_pair; assumption).
    rewrite E16, Ea, Eh'. reflexivity.
  - unfold open_stream_ok. split; [reflexivity|].
    assert (asn16 < 65536 /\ hold < 65536 /\ L < 65536).
    { unfold asn16, hold. rewrite HL. repeat split; apply pair_lt; assumption. }
    repeat split; try tauto; try lia.
    destruct Hor as [Hz | Hz]; [left; lia|].
    destruct (N.eq_dec L (29 + len (concat (map ser_param ps)))) as [E | E]; [left; exact E | right; split; [lia | assumption]].
Qed.

(* the acceptance set of readOpen, exactly *)
Theorem read_open_accepts_iff bs : wfb bs ->
  ((exists r n, read_open bs = (ROk r, n)) <->
   (exists L asn16 hold id optlen ps extra,
      bs = open_stream L asn16 hold id optlen ps extra /\ open_stream_ok L asn16 hold id ps extra)).
Proof.
  intros Hw. split.
  - intros (r & n & H). exact (read_open_accepts_inv bs r n Hw H).
  - intros (L & asn16 & hold & id & optlen & ps & extra & -> & Hok).
    eexists. eexists. apply read_open_stream. exact Hok.
Qed.

(* strictly more liberal than the RFC decoder: wrong Opt Parm Len octet, and a
   stream that ends at a parameter boundary before the announced length *)
Lemma read_open_more_liberal :
  (exists bs r n, wfb bs /\ read_open bs = (ROk r, n) /\ dec_msg true bs = None /\ hdr_len bs = len bs) /\
  (exists bs r n, wfb bs /\ read_open bs = (ROk r, n) /\ len bs < hdr_len bs).
Proof.
  split.
  - exists (marker ++ [0; 31; 1; 4; 252; 0; 0; 90; 10; 0; 0; 1; 7; 2; 0]). eexists. eexists.
    split; [|split; [vm_compute; reflexivity | split; vm_compute; reflexivity]].
    unfold marker; cbn [repeat app]. repeat (constructor; [reflexivity|]). constructor.
  - exists (marker ++ [0; 49; 1; 4; 252; 0; 0; 90; 10; 0; 0; 1; 20; 2; 0]). eexists. eexists.
    split; [|split; [vm_compute; reflexivity | vm_compute; reflexivity]].
    unfold marker; cbn [repeat app]. repeat (constructor; [reflexivity|]). constructor.
Qed.
