(* Lemmas about Model/Wire.v, part 1: the independent decoder inverts the RFC
   serializer ([dec_ser]); the Go encoders produce the serialization of the
   intended message; hence the round-trip theorems of C16. *)
From Coq Require Import List Arith NArith Bool Lia ZifyN ZifyNat ZifyBool.
From Verif Require Import Model.Wire.
Import ListNotations.
Local Open Scope N_scope.

(* ------------------------------------------------------------ bytes *)
Lemma b0_lt n : b0 n < 256. Proof. unfold b0. apply N.mod_lt. discriminate. Qed.
Lemma b1_lt n : b1 n < 256. Proof. unfold b1. apply N.mod_lt. discriminate. Qed.
Lemma b2_lt n : b2 n < 256. Proof. unfold b2. apply N.mod_lt. discriminate. Qed.
Lemma b3_lt n : b3 n < 256. Proof. unfold b3. apply N.mod_lt. discriminate. Qed.

Lemma b0_small n : n < 256 -> b0 n = n.
Proof. intros. unfold b0. apply N.mod_small. assumption. Qed.

Lemma u16_val n : n < 65536 -> b1 n * 256 + b0 n = n.
Proof.
  intros H. unfold b1, b0.
  rewrite (N.mod_small (n / 256) 256) by (apply N.div_lt_upper_bound; lia).
  pose proof (N.div_mod n 256 ltac:(discriminate)). lia.
Qed.

Lemma u32_val n : n < 4294967296 -> ((b3 n * 256 + b2 n) * 256 + b1 n) * 256 + b0 n = n.
Proof.
  intros H. unfold b3, b2, b1, b0.
  pose proof (N.div_mod n 256 ltac:(discriminate)) as E0.
  pose proof (N.div_mod (n / 256) 256 ltac:(discriminate)) as E1.
  pose proof (N.div_mod (n / 256 / 256) 256 ltac:(discriminate)) as E2.
  rewrite N.div_div in E2 by discriminate.
  replace (n / 65536) with (n / (256 * 256)) by reflexivity.
  replace (n / 16777216) with (n / (256 * 256) / 256) by (rewrite N.div_div by discriminate; reflexivity).
  rewrite <- (N.div_div n 256 256) in * by discriminate.
  set (q1 := n / 256) in *. set (q2 := q1 / 256) in *. set (q3 := q2 / 256) in *.
  assert (q3 < 256).
  { unfold q3, q2, q1. repeat (apply N.div_lt_upper_bound; [discriminate|]). lia. }
  rewrite (N.mod_small q3 256) by assumption.
  pose proof (N.div_mod q2 256 ltac:(discriminate)) as E3. fold q3 in E3.
  lia.
Qed.

Lemma wfb_app a b : wfb (a ++ b) <-> wfb a /\ wfb b.
Proof. unfold wfb. apply Forall_app. Qed.
Lemma wfb_u16 n : wfb (u16 n).
Proof. repeat constructor; [apply b1_lt | apply b0_lt]. Qed.
Lemma wfb_u32 n : wfb (u32 n).
Proof. repeat constructor; [apply b3_lt | apply b2_lt | apply b1_lt | apply b0_lt]. Qed.
Lemma wfb_marker : wfb marker.
Proof. unfold marker, wfb. apply Forall_forall. intros x Hx. apply repeat_spec in Hx. subst. reflexivity. Qed.
Lemma wfb_firstn k l : wfb l -> wfb (firstn k l).
Proof.
  unfold wfb. revert k. induction l; intros k H; destruct k; cbn; try constructor.
  - inversion H; assumption.
  - inversion H; apply IHl; assumption.
Qed.
Lemma wfb_concat ls : Forall wfb ls -> wfb (concat ls).
Proof. induction 1; cbn. constructor. apply wfb_app. split; assumption. Qed.

Lemma len_app {A} (a b : list A) : len (a ++ b) = len a + len b.
Proof. unfold len. rewrite app_length. lia. Qed.
Lemma len_cons {A} (x : A) l : len (x :: l) = 1 + len l.
Proof. unfold len. cbn [length]. lia. Qed.
Lemma len_nil {A} : len (@nil A) = 0. Proof. reflexivity. Qed.
Lemma len_u16 n : len (u16 n) = 2. Proof. reflexivity. Qed.
Lemma len_u32 n : len (u32 n) = 4. Proof. reflexivity. Qed.
Lemma len_marker : len marker = 16. Proof. reflexivity. Qed.

(* ------------------------------------------------------------ readers *)
Lemma get16_u16 n r : n < 65536 -> get16 (u16 n ++ r) = Some (n, r).
Proof. intros. cbn [u16 app get16]. rewrite u16_val by assumption. reflexivity. Qed.
Lemma get32_u32 n r : n < 4294967296 -> get32 (u32 n ++ r) = Some (n, r).
Proof. intros. cbn [u32 app get32]. rewrite u32_val by assumption. reflexivity. Qed.

Lemma take_app a r : take (len a) (a ++ r) = Some (a, r).
Proof.
  unfold take. rewrite len_app.
  destruct (len a + len r <? len a) eqn:E; [lia|].
  unfold len. rewrite Nat2N.id, firstn_app, skipn_app, Nat.sub_diag, firstn_all, skipn_all.
  cbn. rewrite app_nil_r. reflexivity.
Qed.
Lemma take_app' k a r : k = len a -> take k (a ++ r) = Some (a, r).
Proof. intros ->. apply take_app. Qed.

(* [many p] over a concatenation of serialized items *)
Lemma many_step {A} (p : list N -> option (A * list N)) f l : l <> [] ->
  many p (S f) l = bind (p l) (fun '(a, r) => bind (many p f r) (fun xs => Some (a :: xs))).
Proof. destruct l; [congruence | reflexivity]. Qed.

Lemma many_ser {A} (p : list N -> option (A * list N)) (ser : A -> list N) (ok : A -> Prop) :
  (forall a r, ok a -> p (ser a ++ r) = Some (a, r)) ->
  (forall a, ok a -> ser a <> []) ->
  forall xs fuel, Forall ok xs -> (length (concat (map ser xs)) <= fuel)%nat ->
  many p fuel (concat (map ser xs)) = Some xs.
Proof.
  intros Hp Hne. induction xs as [|x xs IH]; intros fuel Hok Hf.
  - destruct fuel; reflexivity.
  - inversion Hok; subst. cbn [map concat] in *.
    pose proof (Hne x H1) as Hx.
    assert (Hl : (1 <= length (ser x))%nat) by (destruct (ser x); [congruence | cbn; lia]).
    rewrite app_length in Hf.
    destruct fuel as [|f]; [lia|].
    rewrite many_step by (destruct (ser x); [congruence | discriminate]).
    rewrite Hp by assumption. cbn [bind]. rewrite IH by (assumption || lia). reflexivity.
Qed.

Lemma all_ser {A} (p : list N -> option (A * list N)) (ser : A -> list N) (ok : A -> Prop) :
  (forall a r, ok a -> p (ser a ++ r) = Some (a, r)) ->
  (forall a, ok a -> ser a <> []) ->
  forall xs, Forall ok xs -> all p (concat (map ser xs)) = Some xs.
Proof. intros. unfold all. eapply many_ser; eauto. Qed.

(* ------------------------------------------------------------ dec o ser *)
Lemma dec_ser_nlri p r : wf_nlri p -> dec_nlri (ser_nlri p ++ r) = Some (p, r).
Proof.
  destruct p as [n bs]. intros [H1 H2]. cbn [fst snd] in *.
  unfold dec_nlri, ser_nlri. cbn [fst snd app get8 bind].
  replace (n <=? 32) with true by lia. cbn [guard bind].
  rewrite (take_app' _ bs r) by congruence. reflexivity.
Qed.

Lemma ser_nlri_ne p : ser_nlri p <> []. Proof. discriminate. Qed.

Lemma dec_ser_nlris l : Forall wf_nlri l -> all dec_nlri (concat (map ser_nlri l)) = Some l.
Proof. apply all_ser; auto using dec_ser_nlri, ser_nlri_ne. Qed.

Lemma dec_ser_cap c r : wf_cap c -> dec_cap (ser_cap c ++ r) = Some (c, r).
Proof.
  intros H. unfold dec_cap, ser_cap. cbn [app get8 bind].
  rewrite take_app. cbn [bind].
  replace (negb ((c_code c =? 1) || (c_code c =? 65)) || (len (c_val c) =? 4)) with true.
  - destruct c; reflexivity.
  - unfold wf_cap in H. destruct (c_code c =? 1) eqn:E1; destruct (c_code c =? 65) eqn:E2; cbn; try reflexivity;
      symmetry; apply N.eqb_eq; apply H; lia.
Qed.

Lemma dec_ser_param p r : wf_param p -> dec_param (ser_param p ++ r) = Some (p, r).
Proof.
  intros H. unfold dec_param. destruct p as [cs | t v]; cbn [ser_param wf_param] in *.
  - cbn [app get8 bind]. rewrite take_app. cbn [bind]. cbn [N.eqb Pos.eqb].
    rewrite (all_ser dec_cap ser_cap wf_cap) by (auto using dec_ser_cap; discriminate). reflexivity.
  - cbn [app get8 bind]. rewrite take_app. cbn [bind].
    replace (t =? 2) with false by lia. reflexivity.
Qed.

Lemma ser_param_ne p : ser_param p <> []. Proof. destruct p; discriminate. Qed.

Lemma rep_asn (w4 : bool) (asns : list N) (r : list N) :
  Forall (fun a => a < (if w4 then 4294967296 else 65536)) asns ->
  rep (dec_asn w4) (length asns) (concat (map (fun a => if w4 then u32 a else u16 a) asns) ++ r) = Some (asns, r).
Proof.
  induction 1 as [|a l Ha Hl IH]; [reflexivity|].
  cbn [length rep map concat]. rewrite <- app_assoc. unfold dec_asn at 1.
  destruct w4.
  - rewrite get32_u32 by assumption. cbn [bind]. rewrite IH. reflexivity.
  - rewrite get16_u16 by assumption. cbn [bind]. rewrite IH. reflexivity.
Qed.

Lemma dec_ser_seg w4 s r : wf_seg w4 s -> dec_seg w4 (ser_seg w4 s ++ r) = Some (s, r).
Proof.
  destruct s as [t asns]. intros [Ht Ha]. cbn [fst snd] in *.
  unfold dec_seg, ser_seg. cbn [fst snd app get8 bind].
  replace ((t =? 1) || (t =? 2)) with true by lia. cbn [guard bind].
  unfold len. rewrite Nat2N.id, rep_asn by assumption. reflexivity.
Qed.

Lemma ser_seg_ne w4 s : ser_seg w4 s <> []. Proof. discriminate. Qed.

Lemma dec_attr_raw w4 f t v r : (N.testbit f 4 = true -> len v < 65536) ->
  dec_attr w4 (ser_attr_raw f t v ++ r) = bind (dec_attr_val w4 f t v) (fun a => Some (a, r)).
Proof.
  intros H. unfold dec_attr, ser_attr_raw, flag_extended.
  destruct (N.testbit f 4) eqn:E.
  - cbn [app get8 bind]. rewrite E. rewrite <- !app_assoc, get16_u16 by auto. cbn [bind].
    rewrite take_app. reflexivity.
  - cbn [app get8 bind]. rewrite E. cbn [get8 bind]. rewrite take_app. reflexivity.
Qed.

Lemma all_get32 vs : Forall (fun v => v < 4294967296) vs -> all get32 (concat (map u32 vs)) = Some vs.
Proof. apply (all_ser get32 u32 (fun v => v < 4294967296)); [intros; apply get32_u32; assumption | discriminate]. Qed.

Lemma dec_ser_attr w4 a r : wf_attr w4 a -> dec_attr w4 (ser_attr w4 a ++ r) = Some (a, r).
Proof.
  intros H. destruct a; cbn [ser_attr wf_attr] in H |- *; rewrite dec_attr_raw by (try discriminate; tauto).
  - unfold dec_attr_val. cbn [N.eqb Pos.eqb]. change (wellknown 64) with true. cbn [guard bind].
    replace (v <=? 2) with true by lia. reflexivity.
  - unfold dec_attr_val. cbn [N.eqb Pos.eqb]. change (wellknown 64) with true. cbn [guard bind].
    rewrite (all_ser (dec_seg w4) (ser_seg w4) (wf_seg w4)); auto using dec_ser_seg, ser_seg_ne.
  - unfold dec_attr_val. cbn [N.eqb Pos.eqb]. change (wellknown 64) with true. cbn [guard bind].
    rewrite H. reflexivity.
  - unfold dec_attr_val. cbn [N.eqb Pos.eqb]. change (wellknown 64) with true. cbn [guard bind].
    rewrite <- (app_nil_r (u32 v)), get32_u32 by assumption. reflexivity.
  - unfold dec_attr_val. cbn [N.eqb Pos.eqb].
    change (flag_optional 192 && flag_transitive 192) with true. cbn [guard bind].
    rewrite all_get32 by assumption. reflexivity.
  - destruct H as (H1 & H2 & H3 & H5 & H8 & _). unfold dec_attr_val.
    replace (ty =? 1) with false by lia. replace (ty =? 2) with false by lia.
    replace (ty =? 3) with false by lia. replace (ty =? 5) with false by lia.
    replace (ty =? 8) with false by lia. reflexivity.
Qed.

Lemma ser_attr_raw_ne f t v : ser_attr_raw f t v <> [].
Proof. unfold ser_attr_raw. destruct (N.testbit f 4); discriminate. Qed.
Lemma ser_attr_ne w4 a : ser_attr w4 a <> [].
Proof. destruct a; apply ser_attr_raw_ne. Qed.

Lemma marker_ok : forallb (N.eqb 255) marker = true. Proof. reflexivity. Qed.

Lemma dec_msg_hdr w4 ty body :
  19 + len body <= 4096 ->
  dec_msg w4 (marker ++ u16 (19 + len body) ++ [ty] ++ body) =
  (if ty =? 1 then bind (dec_open body) (fun o => Some (MOpen o))
   else if ty =? 2 then bind (dec_update w4 body) (fun u => Some (MUpdate u))
   else if ty =? 3 then bind (get8 body) (fun '(c, r) => bind (get8 r) (fun '(s, d) => Some (MNotification c s d)))
   else if ty =? 4 then match body with [] => Some MKeepalive | _ => None end
   else None).
Proof.
  intros H. unfold dec_msg.
  rewrite (take_app' 16 marker) by reflexivity. cbn [bind]. rewrite marker_ok. cbn [guard bind].
  rewrite get16_u16 by lia. cbn [bind app get8].
  replace ((19 <=? 19 + len body) && (19 + len body <=? 4096) &&
           (19 + len body =? len (marker ++ u16 (19 + len body) ++ ty :: body))) with true.
  - reflexivity.
  - rewrite !len_app, len_cons, len_marker, len_u16. lia.
Qed.

Lemma ser_msg_len w4 m : len (ser_msg w4 m) = 19 + len (snd (ser_body w4 m)).
Proof.
  unfold ser_msg. destruct (ser_body w4 m) as [ty body]. cbn [snd].
  rewrite !len_app, len_marker, len_u16, len_cons, len_nil. lia.
Qed.

Theorem dec_ser w4 m : wf_msg w4 m -> dec_msg w4 (ser_msg w4 m) = Some m.
Proof.
  intros [Hlen Hwf]. rewrite ser_msg_len in Hlen. unfold ser_msg.
  destruct m as [o | u | | c s d]; cbn [ser_body snd] in *.
  - rewrite dec_msg_hdr by assumption. cbn [N.eqb Pos.eqb].
    destruct Hwf as (Hv & Hh & Hh' & Ha & Hid & Hps).
    unfold dec_open. cbn [app get8 bind]. rewrite <- ?app_assoc.
    rewrite get16_u16 by assumption. cbn [bind]. rewrite get16_u16 by assumption. cbn [bind].
    rewrite (take_app' 4 (o_id o)) by congruence. cbn [bind app get8].
    rewrite N.eqb_refl. cbn [guard bind]. rewrite Hv. cbn [N.eqb Pos.eqb guard bind].
    replace ((o_hold o =? 0) || (3 <=? o_hold o)) with true by lia. cbn [guard bind].
    rewrite (all_ser dec_param ser_param wf_param) by auto using dec_ser_param, ser_param_ne.
    cbn [bind]. destruct o; cbn in *; subst; reflexivity.
  - rewrite dec_msg_hdr by assumption. cbn [N.eqb Pos.eqb].
    destruct Hwf as (Hw & Hat & Hn & Hok).
    rewrite !len_app, !len_u16 in Hlen.
    unfold dec_update. rewrite <- ?app_assoc.
    rewrite get16_u16 by lia. cbn [bind]. rewrite take_app. cbn [bind].
    rewrite dec_ser_nlris by assumption. cbn [bind].
    rewrite get16_u16 by lia. cbn [bind]. rewrite take_app. cbn [bind].
    rewrite (all_ser (dec_attr w4) (ser_attr w4) (wf_attr w4)) by auto using dec_ser_attr, ser_attr_ne.
    cbn [bind]. rewrite dec_ser_nlris by assumption. cbn [bind].
    destruct u; cbn in *. rewrite Hok. reflexivity.
  - rewrite dec_msg_hdr by assumption. reflexivity.
  - rewrite dec_msg_hdr by assumption. reflexivity.
Qed.

(* ------------------------------------------------------------ the Go encoders *)
Lemma bytes_for_bits_spec n : bytes_for_bits n = (n + 7) / 8.
Proof.
  unfold bytes_for_bits. change 7 with (N.ones 3) at 2.
  rewrite N.ldiff_ones_r, N.shiftl_mul_pow2, N.shiftr_div_pow2.
  change (2 ^ 3) with 8. rewrite N.div_mul by discriminate. reflexivity.
Qed.

(* the same fact checked exhaustively on the domain of the property *)
Lemma bytes_for_bits_0_32 :
  forallb (fun n => bytes_for_bits n =? (n + 7) / 8) (map N.of_nat (seq 0 33)) = true.
Proof. vm_compute. reflexivity. Qed.

Lemma enc_prefix_ser p : p_len p <= 32 -> enc_prefix p = ser_nlri (intended_nlri p).
Proof.
  intros H. unfold enc_prefix, ser_nlri, intended_nlri. cbn [fst snd].
  rewrite b0_small by lia. rewrite bytes_for_bits_spec. reflexivity.
Qed.

Lemma wf_intended_nlri p : wf_prefix p -> wf_nlri (intended_nlri p).
Proof.
  intros (Hl & _ & Hn). unfold wf_nlri, intended_nlri. cbn [fst snd]. split; [assumption|].
  unfold len. rewrite firstn_length.
  assert ((p_len p + 7) / 8 <= 4).
  { apply N.lt_succ_r. apply N.div_lt_upper_bound; lia. }
  lia.
Qed.

Lemma enc_prefixes_ser ps : Forall wf_prefix ps ->
  concat (map enc_prefix ps) = concat (map ser_nlri (map intended_nlri ps)).
Proof.
  induction 1 as [|p l Hp Hl IH]; [reflexivity|]. cbn [map concat].
  rewrite enc_prefix_ser, IH by apply Hp. reflexivity.
Qed.

Lemma all_some_legacy cs vs : all_some (map comm_u32 cs) = Some vs ->
  vs = map legacy_val cs /\ forallb is_legacy cs = true.
Proof.
  revert vs. induction cs as [|c cs IH]; intros vs H; cbn in *.
  - inversion H. auto.
  - destruct c; cbn in *; [|discriminate].
    destruct (all_some (map comm_u32 cs)) as [xs|]; [|discriminate].
    inversion H; subst. destruct (IH xs eq_refl) as [-> ->]. auto.
Qed.

Lemma all_some_legacy' cs : forallb is_legacy cs = true -> all_some (map comm_u32 cs) = Some (map legacy_val cs).
Proof.
  induction cs as [|c cs IH]; cbn; [reflexivity|]. destruct c; cbn; [|discriminate].
  intros H. rewrite IH by assumption. reflexivity.
Qed.

Lemma len_concat_u32 vs : len (concat (map u32 vs)) = 4 * len vs.
Proof.
  induction vs as [|v vs IH]; [reflexivity|]. cbn [map concat]. rewrite len_app, len_u32, IH, len_cons. lia.
Qed.

Lemma len_map {A B} (f : A -> B) l : len (map f l) = len l.
Proof. unfold len. rewrite map_length. reflexivity. Qed.

Lemma ser_comm_attr w4 vs :
  ser_attr w4 (ACommunities vs) = [192; 8; 4 * len vs] ++ concat (map u32 vs).
Proof.
  cbn [ser_attr]. unfold ser_attr_raw. change (N.testbit 192 4) with false. cbv iota.
  rewrite len_concat_u32. reflexivity.
Qed.

Lemma enc_comms_ser w4 cs cm : enc_comms cs = Some cm ->
  cm = concat (map (ser_attr w4) (intended_comm_attrs cs)) /\ len cs <= 63 /\ forallb is_legacy cs = true.
Proof.
  destruct cs as [|c cs]; [intros H; inversion H; cbn; repeat split; lia|].
  unfold enc_comms, intended_comm_attrs. remember (c :: cs) as l eqn:El.
  destruct (all_some (map comm_u32 l)) as [vs|] eqn:E; [|discriminate].
  apply all_some_legacy in E. destruct E as [-> Hleg].
  destruct (255 <? 4 * len l) eqn:E2; [discriminate|]. intros [= <-].
  split; [|split; [lia | assumption]].
  cbn [map concat]. rewrite ser_comm_attr, app_nil_r, len_map. reflexivity.
Qed.

Lemma legacy_val_lt c : wf_comm c -> legacy_val c < 4294967296.
Proof. destruct c; cbn; intros; lia. Qed.

Lemma wf_intended_comm_attrs w4 cs : Forall wf_comm cs -> Forall (wf_attr w4) (intended_comm_attrs cs).
Proof.
  intros H. destruct cs as [|c cs]; constructor; [|constructor]. cbn [wf_attr].
  apply Forall_forall. intros v Hv. apply in_map_iff in Hv. destruct Hv as (x & <- & Hx).
  apply legacy_val_lt. rewrite Forall_forall in H. auto.
Qed.

Lemma enc_path_attrs_ser asn ibgp fbasn nh a attrs :
  length nh = 4%nat -> enc_path_attrs asn ibgp fbasn nh a = Some attrs ->
  attrs = concat (map (ser_attr fbasn) (intended_attrs asn ibgp nh a)) /\
  len (a_comms a) <= 63 /\ forallb is_legacy (a_comms a) = true /\
  (ibgp = false -> fbasn = false -> asn <= 65535).
Proof.
  intros Hnh. unfold enc_path_attrs, enc_aspath.
  destruct nh as [|n1 [|n2 [|n3 [|n4 [|]]]]]; try discriminate.
  destruct (enc_comms (a_comms a)) as [cm|] eqn:Ec.
  2:{ destruct ibgp; [discriminate|]. destruct fbasn; [discriminate|]. destruct (65535 <? asn); discriminate. }
  destruct (enc_comms_ser fbasn _ _ Ec) as (-> & Hn & Hl).
  unfold intended_attrs.
  destruct ibgp; [|destruct fbasn; [|destruct (65535 <? asn) eqn:E; [discriminate|]]];
    intros [= <-]; repeat split; auto; try discriminate; try lia;
    try (rewrite !map_app, !concat_app; reflexivity).
Qed.

Lemma len_intended_comm_attrs w4 cs : len cs <= 63 ->
  len (concat (map (ser_attr w4) (intended_comm_attrs cs))) <= 255.
Proof.
  intros H. destruct cs as [|c cs]; [cbn; lia|].
  unfold intended_comm_attrs. remember (c :: cs) as l.
  cbn [map concat]. rewrite ser_comm_attr, app_nil_r, len_app, len_concat_u32, len_map.
  change (len [192; 8; 4 * len l]) with 3. lia.
Qed.

Lemma len_intended_attrs asn ibgp fbasn nh a : length nh = 4%nat -> len (a_comms a) <= 63 ->
  len (concat (map (ser_attr fbasn) (intended_attrs asn ibgp nh a))) <= 300.
Proof.
  intros Hnh Hc. destruct nh as [|n1 [|n2 [|n3 [|n4 [|]]]]]; try discriminate.
  unfold intended_attrs. rewrite !map_app, !concat_app, !len_app.
  pose proof (len_intended_comm_attrs fbasn _ Hc).
  destruct ibgp, fbasn; cbn [map concat ser_attr] in *; unfold ser_attr_raw; cbn -[N.of_nat len] in *;
    repeat rewrite ?len_app, ?len_cons, ?len_nil; cbn [len length N.of_nat] in *; lia.
Qed.

(* ------------------------------------------------------------ round trips *)

Lemma wfb_nil : wfb []. Proof. constructor. Qed.
Lemma wfb_cons x l : x < 256 -> wfb l -> wfb (x :: l). Proof. constructor; assumption. Qed.
Ltac wfb_tac :=
  repeat first [ assumption | apply wfb_u16 | apply wfb_u32 | apply wfb_marker | apply wfb_nil
               | apply wfb_cons; [first [lia | apply b0_lt | apply b1_lt | apply b2_lt | apply b3_lt]|]
               | apply wfb_app; split ].

Lemma update_ok_intended asn ibgp nh a :
  update_ok {| u_wdr := []; u_attrs := intended_attrs asn ibgp nh a; u_nlri := [intended_nlri (a_pfx a)] |} = true.
Proof. unfold intended_attrs, intended_comm_attrs. destruct ibgp, (a_comms a); reflexivity. Qed.

Lemma wf_intended_attrs asn ibgp fbasn nh a :
  wf_uparams asn nh a -> (ibgp = false -> fbasn = false -> asn <= 65535) ->
  Forall (wf_attr fbasn) (intended_attrs asn ibgp nh a).
Proof.
  intros (Ha & (Hnh & _) & (_ & Hlp & Hc)) Hasn. unfold intended_attrs.
  repeat (apply Forall_app; split); [| |apply wf_intended_comm_attrs; assumption].
  - repeat constructor; cbn [wf_attr]; try lia.
    + destruct ibgp; constructor; [|constructor]. split; [right; reflexivity|]. cbn [snd].
      constructor; [|constructor].
      destruct fbasn; [lia|]. specialize (Hasn eq_refl eq_refl). lia.
    + unfold len. rewrite Hnh. reflexivity.
  - destruct ibgp; repeat constructor. exact Hlp.
Qed.

Theorem enc_update_ser asn ibgp fbasn nh a bs :
  wf_uparams asn nh a -> enc_update asn ibgp fbasn nh a = Some bs ->
  bs = ser_msg fbasn (intended_update asn ibgp nh a) /\ wf_msg fbasn (intended_update asn ibgp nh a).
Proof.
  intros Hwf. pose proof Hwf as (Ha & (Hnh & Hnhb) & (Hp & Hlp & Hc)).
  unfold enc_update.
  destruct (enc_path_attrs asn ibgp fbasn nh a) as [attrs|] eqn:E; [|discriminate].
  destruct (enc_path_attrs_ser _ _ _ _ _ _ Hnh E) as (-> & Hn & Hleg & Hasn).
  set (A := concat (map (ser_attr fbasn) (intended_attrs asn ibgp nh a))) in *.
  destruct (65535 <? len A) eqn:E1; [discriminate|].
  destruct (65535 <? 23 + len A + len (enc_prefix (a_pfx a))) eqn:E2; [discriminate|].
  intros [= <-].
  assert (Hser : marker ++ u16 (23 + len A + len (enc_prefix (a_pfx a))) ++ [2] ++ u16 0 ++ u16 (len A) ++ A ++ enc_prefix (a_pfx a)
                 = ser_msg fbasn (intended_update asn ibgp nh a)).
  { unfold ser_msg, intended_update. cbn [ser_body u_wdr u_attrs u_nlri map concat]. fold A.
    rewrite enc_prefix_ser by apply Hp. rewrite app_nil_r.
    change (len (@nil N)) with 0. cbn [app].
    rewrite !len_app, !len_u16. f_equal. f_equal. f_equal. lia. }
  split; [exact Hser|].
  split.
  - rewrite <- Hser. rewrite !len_app, len_marker, !len_u16.
    pose proof (len_intended_attrs asn ibgp fbasn nh a Hnh Hn). fold A in H.
    assert (len (enc_prefix (a_pfx a)) <= 5).
    { unfold enc_prefix. rewrite len_cons. unfold len. rewrite firstn_length. destruct Hp as (Hl & _). lia. }
    cbn [len length N.of_nat]. change (N.of_nat 1) with 1. lia.
  - unfold intended_update. repeat split; cbn [u_wdr u_attrs u_nlri].
    + constructor.
    + apply wf_intended_attrs; assumption.
    + constructor; [apply wf_intended_nlri; assumption | constructor].
    + apply update_ok_intended.
Qed.

Lemma wfb_enc_prefix p : wf_prefix p -> wfb (enc_prefix p).
Proof.
  intros (_ & Hb & Hn). unfold enc_prefix. constructor; [apply b0_lt | apply wfb_firstn; assumption].
Qed.

Lemma wfb_enc_comms cs cm : enc_comms cs = Some cm -> wfb cm.
Proof.
  unfold enc_comms. destruct cs as [|c cs]; [intros [= <-]; constructor|].
  remember (c :: cs) as l. destruct (all_some (map comm_u32 l)) as [vs|]; [|discriminate].
  destruct (255 <? 4 * len l) eqn:E; [discriminate|]. intros [= <-].
  change (wfb ([192; 8; 4 * len l] ++ concat (map u32 vs))). apply wfb_app; split.
  { repeat constructor; lia. }
  apply wfb_concat. apply Forall_forall. intros x Hx. apply in_map_iff in Hx.
  destruct Hx as (v & <- & _). apply wfb_u32.
Qed.

Lemma wfb_enc_path_attrs asn ibgp fbasn nh a attrs :
  wfb nh -> enc_path_attrs asn ibgp fbasn nh a = Some attrs -> wfb attrs.
Proof.
  intros Hnh. unfold enc_path_attrs, enc_aspath.
  destruct (enc_comms (a_comms a)) as [cm|] eqn:Ec.
  2:{ destruct ibgp; [discriminate|]. destruct fbasn; [discriminate|]. destruct (65535 <? asn); discriminate. }
  apply wfb_enc_comms in Ec.
  destruct ibgp; [|destruct fbasn; [|destruct (65535 <? asn) eqn:E; [discriminate|]]];
    intros [= <-]; wfb_tac.
Qed.

Theorem enc_update_wfb asn ibgp fbasn nh a bs :
  wf_uparams asn nh a -> enc_update asn ibgp fbasn nh a = Some bs -> wfb bs.
Proof.
  intros (Ha & (Hnh & Hnhb) & (Hp & Hlp & Hc)). unfold enc_update.
  destruct (enc_path_attrs asn ibgp fbasn nh a) as [attrs|] eqn:E; [|discriminate].
  apply wfb_enc_path_attrs in E; [|assumption].
  destruct (65535 <? len attrs); [discriminate|].
  destruct (65535 <? 23 + len attrs + len (enc_prefix (a_pfx a))); [discriminate|].
  intros [= <-]. pose proof (wfb_enc_prefix _ Hp). wfb_tac.
Qed.


Lemma hdr_len_ser w4 m : len (ser_msg w4 m) <= 4096 -> hdr_len (ser_msg w4 m) = len (ser_msg w4 m).
Proof.
  intros H. rewrite ser_msg_len in *. unfold ser_msg. destruct (ser_body w4 m) as [ty body]. cbn [snd] in *.
  unfold hdr_len. transitivity (19 + len body).
  - cbn [marker repeat app nth u16]. apply u16_val. lia.
  - reflexivity.
Qed.

Theorem update_roundtrip asn ibgp fbasn nh a bs :
  wf_uparams asn nh a -> enc_update asn ibgp fbasn nh a = Some bs ->
  dec_msg fbasn bs = Some (intended_update asn ibgp nh a) /\ wfb bs /\ hdr_len bs = len bs.
Proof.
  intros Hwf H. destruct (enc_update_ser _ _ _ _ _ _ Hwf H) as [-> Hm].
  split; [apply dec_ser; assumption|]. split.
  - eapply enc_update_wfb; eassumption.
  - apply hdr_len_ser. apply Hm.
Qed.

Lemma enc_comms_some w4 cs : forallb is_legacy cs = true -> len cs <= 63 ->
  enc_comms cs = Some (concat (map (ser_attr w4) (intended_comm_attrs cs))).
Proof.
  intros Hleg Hn. destruct cs as [|c cs]; [reflexivity|].
  unfold enc_comms, intended_comm_attrs. remember (c :: cs) as l.
  rewrite all_some_legacy' by assumption. replace (255 <? 4 * len l) with false by lia.
  cbn [map concat]. rewrite ser_comm_attr, app_nil_r, len_map. reflexivity.
Qed.

(* enc_update fails exactly in the documented cases *)
Theorem enc_update_none asn ibgp fbasn nh a :
  wf_uparams asn nh a ->
  (enc_update asn ibgp fbasn nh a = None <->
   (ibgp = false /\ fbasn = false /\ 65535 < asn) \/ 63 < len (a_comms a) \/ forallb is_legacy (a_comms a) = false).
Proof.
  intros Hwf. pose proof Hwf as (Ha & (Hnh & Hnhb) & (Hp & Hlp & Hc)). split.
  - intros H.
    destruct (forallb is_legacy (a_comms a)) eqn:Hleg; [|auto].
    destruct (63 <? len (a_comms a)) eqn:Hn; [right; left; lia|].
    destruct ((negb ibgp && negb fbasn && (65535 <? asn))%bool) eqn:Hasn.
    { left. destruct ibgp, fbasn; cbn in Hasn; try discriminate. repeat split; lia. }
    exfalso. revert H. unfold enc_update, enc_path_attrs.
    assert (Ec := enc_comms_some fbasn (a_comms a) Hleg ltac:(lia)).
    rewrite Ec.
    assert (Easp : exists asp, enc_aspath asn ibgp fbasn = Some asp /\ len asp <= 7).
    { unfold enc_aspath. destruct ibgp; [eexists; split; [reflexivity|cbn; lia]|].
      destruct fbasn; [eexists; split; [reflexivity|cbn; lia]|].
      cbn in Hasn. rewrite Hasn. eexists; split; [reflexivity|cbn; lia]. }
    destruct Easp as (asp & -> & Hasp).
    pose proof (len_intended_comm_attrs fbasn (a_comms a) ltac:(lia)) as Hcm.
    set (cm := concat (map (ser_attr fbasn) (intended_comm_attrs (a_comms a)))) in *.
    set (attrs := [64; 1; 1; 0; 64; 2] ++ asp ++ [64; 3; 4] ++ nh ++ (if ibgp then [64; 5; 4] ++ u32 (a_lp a) else []) ++ cm).
    assert (len attrs <= 300).
    { unfold attrs. rewrite !len_app. assert (len nh = 4) by (unfold len; rewrite Hnh; reflexivity).
      destruct ibgp; rewrite ?len_app, ?len_u32; cbn [len length N.of_nat] in *; lia. }
    replace (65535 <? len attrs) with false by lia.
    assert (len (enc_prefix (a_pfx a)) <= 5).
    { unfold enc_prefix. rewrite len_cons. unfold len. rewrite firstn_length. destruct Hp as (Hl & _). lia. }
    replace (65535 <? 23 + len attrs + len (enc_prefix (a_pfx a))) with false by lia.
    discriminate.
  - intros H. destruct (enc_update asn ibgp fbasn nh a) as [bs|] eqn:E; [|reflexivity]. exfalso.
    unfold enc_update in E.
    destruct (enc_path_attrs asn ibgp fbasn nh a) as [attrs|] eqn:E'; [|discriminate].
    destruct (enc_path_attrs_ser _ _ _ _ _ _ Hnh E') as (_ & Hn & Hleg & Hasn).
    destruct H as [(-> & -> & H) | [H | H]].
    + specialize (Hasn eq_refl eq_refl). lia.
    + lia.
    + congruence.
Qed.

(* ------------------------------------------------------------ OPEN, withdraw, KEEPALIVE *)
Lemma Some_inj {A} (a b : A) : Some a = Some b -> a = b.
Proof. congruence. Qed.

Theorem open_roundtrip asn rid hold bs w4 :
  asn < 4294967296 -> wf_ip4 rid -> hold < 65536 -> (hold = 0 \/ 3 <= hold) ->
  enc_open asn rid hold = Some bs ->
  dec_msg w4 bs = Some (intended_open asn rid hold) /\ wfb bs /\ hdr_len bs = len bs /\ len bs = 49.
Proof.
  intros Ha (Hr & Hrb) Hh Hh' H.
  destruct rid as [|r1 [|r2 [|r3 [|r4 [|]]]]]; try discriminate.
  assert (Hser : enc_open asn [r1; r2; r3; r4] hold = Some (ser_msg w4 (intended_open asn [r1; r2; r3; r4] hold)))
    by reflexivity.
  assert (Hb : wfb bs).
  { revert H. unfold enc_open. intros [= <-].
    inversion Hrb as [|? ? ? H1]; subst. inversion H1 as [|? ? ? H2]; subst.
    inversion H2 as [|? ? ? H3]; subst. inversion H3; subst. cbn [firstn]. wfb_tac. }
  assert (Hl : len bs = 49) by (revert H; unfold enc_open; intros [= <-]; reflexivity).
  rewrite Hser in H. injection H as <-.
  assert (Hwf : wf_msg w4 (intended_open asn [r1; r2; r3; r4] hold)).
  { split; [rewrite Hl; lia|].
    unfold intended_open, wf_open. cbn [o_ver o_hold o_asn o_id o_params].
    repeat split; auto.
    - destruct (65535 <? asn) eqn:E; lia.
    - repeat constructor; cbn; intros; reflexivity. }
  split; [apply dec_ser; assumption|]. split; [assumption|split; [|assumption]].
  apply hdr_len_ser. apply Hwf.
Qed.

Theorem enc_open_total asn rid hold : enc_open asn rid hold <> None.
Proof. discriminate. Qed.

Lemma len_enc_prefixes ps : Forall wf_prefix ps -> len (concat (map enc_prefix ps)) <= 5 * len ps.
Proof.
  induction 1 as [|p l Hp Hl IH]; [cbn; lia|]. cbn [map concat]. rewrite len_app, len_cons.
  assert (len (enc_prefix p) <= 5).
  { unfold enc_prefix. rewrite len_cons. unfold len. rewrite firstn_length. destruct Hp as (Hq & _). lia. }
  lia.
Qed.

Theorem enc_withdraw_ser ps bs : Forall wf_prefix ps -> enc_withdraw ps = Some bs ->
  bs = ser_msg true (intended_withdraw ps) /\ bs = ser_msg false (intended_withdraw ps) /\ wfb bs.
Proof.
  intros Hps. unfold enc_withdraw.
  set (W := concat (map enc_prefix ps)).
  destruct (65535 <? len W) eqn:E1; [discriminate|].
  destruct (65535 <? 21 + len W + 2) eqn:E2; [discriminate|]. intros [= <-].
  assert (Hs : forall w4, marker ++ u16 (21 + len W + 2) ++ [2] ++ u16 (len W) ++ W ++ u16 0 = ser_msg w4 (intended_withdraw ps)).
  { intros w4. unfold ser_msg, intended_withdraw. cbn [ser_body u_wdr u_attrs u_nlri map concat].
    unfold W. rewrite enc_prefixes_ser by assumption. rewrite app_nil_r.
    change (len (@nil N)) with 0. rewrite !len_app, !len_u16. f_equal. f_equal. f_equal. lia. }
  split; [apply Hs|]. split; [apply Hs|].
  assert (wfb W).
  { unfold W. apply wfb_concat. apply Forall_forall. intros x Hx. apply in_map_iff in Hx.
    destruct Hx as (p & <- & Hp). apply wfb_enc_prefix. rewrite Forall_forall in Hps. auto. }
  wfb_tac.
Qed.

(* full statement for messages within the RFC 4271 maximum: 23 + 5 n <= 4096 *)
Theorem withdraw_roundtrip_partial ps bs w4 : Forall wf_prefix ps -> len ps <= 814 ->
  enc_withdraw ps = Some bs ->
  dec_msg w4 bs = Some (intended_withdraw ps) /\ wfb bs /\ hdr_len bs = len bs.
Proof.
  intros Hps Hn H. destruct (enc_withdraw_ser _ _ Hps H) as (E1 & E2 & Hb).
  assert (Hl : len bs <= 4096).
  { revert H. unfold enc_withdraw. pose proof (len_enc_prefixes ps Hps).
    destruct (65535 <? len (concat (map enc_prefix ps))); [discriminate|].
    destruct (65535 <? 21 + len (concat (map enc_prefix ps)) + 2); [discriminate|].
    intros H0. apply Some_inj in H0. rewrite <- H0.
    rewrite !len_app, len_marker, !len_u16. cbn [len length N.of_nat]. change (N.of_nat 1) with 1. lia. }
  assert (Hwf : wf_msg w4 (intended_withdraw ps)).
  { split; [destruct w4; [rewrite <- E1 | rewrite <- E2]; assumption|].
    unfold intended_withdraw. repeat split; cbn [u_wdr u_attrs u_nlri]; try constructor.
    apply Forall_forall. intros x Hx. apply in_map_iff in Hx. destruct Hx as (p & <- & Hp).
    apply wf_intended_nlri. rewrite Forall_forall in Hps. auto. }
  split; [|split; [assumption|]].
  - destruct w4; [rewrite E1 | rewrite E2]; apply dec_ser; assumption.
  - rewrite E1. apply hdr_len_ser. rewrite <- E1. assumption.
Qed.

(* the unrestricted statement fails: 815 /32 prefixes give 4098 octets *)
Definition wdr815 : list prefix := repeat {| p_ip := [10; 0; 0; 1]; p_len := 32 |} 815.
Definition wdr815_bytes : list N := match enc_withdraw wdr815 with Some b => b | None => [] end.

Theorem withdraw_roundtrip_refuted :
  exists ps bs, Forall wf_prefix ps /\ enc_withdraw ps = Some bs /\ wfb bs /\ hdr_len bs = len bs /\
                4096 < len bs /\ dec_msg true bs = None.
Proof.
  exists wdr815, wdr815_bytes. split; [|split; [|split; [|split; [|split]]]].
  - apply Forall_forall. intros x Hx. apply repeat_spec in Hx. subst. repeat split; cbn; try lia.
    repeat constructor.
  - vm_compute. reflexivity.
  - assert (H : forallb (fun b => b <? 256) wdr815_bytes = true) by (vm_compute; reflexivity).
    rewrite forallb_forall in H. apply Forall_forall. intros x Hx. apply N.ltb_lt. apply H. exact Hx.
  - vm_compute. reflexivity.
  - vm_compute. reflexivity.
  - vm_compute. reflexivity.
Qed.

Theorem keepalive_wf w4 :
  exists bs, enc_keepalive = Some bs /\ dec_msg w4 bs = Some MKeepalive /\ wfb bs /\ hdr_len bs = len bs /\ len bs = 19.
Proof.
  eexists. split; [reflexivity|]. split; [destruct w4; reflexivity|].
  split; [wfb_tac|]. split; reflexivity.
Qed.

(* F11: on IPv6 transport the next hop is 16 bytes; the attribute announces 4 *)
Theorem nexthop16_refuted :
  exists asn ibgp fbasn nh a bs, asn < 4294967296 /\ wf_adv a /\ wfb nh /\ length nh = 16%nat /\
    enc_update asn ibgp fbasn nh a = Some bs /\ dec_msg fbasn bs = None.
Proof.
  exists 64512, false, true, [253;0;0;0;0;0;0;0;0;0;0;0;0;0;0;1],
    {| a_pfx := {| p_ip := [10;0;0;1]; p_len := 32 |}; a_lp := 0; a_comms := [] |}.
  eexists. split; [reflexivity|]. split.
  { split; [|split; [reflexivity | constructor]]. split; [reflexivity|]. split; [|cbn; lia]. wfb_tac. }
  split; [wfb_tac|]. split; [reflexivity|]. split; vm_compute; reflexivity.
Qed.
