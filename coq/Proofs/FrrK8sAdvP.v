(* frr-k8s mode: the FRRConfiguration does not depend on the order of a session's advertisement list. *)
From Coq Require Import String NArith Bool List Sorted Permutation Lia.
From Verif Require Import Model.FrrSpec Model.FrrK8s Proofs.FrrSortP Proofs.FrrListsP Proofs.FrrShapeP Proofs.FrrP
     Proofs.FrrAdvPermP Proofs.FrrK8sP.
Import ListNotations.
Open Scope string_scope.

Lemma k_neighbor_with_advs s l :
  k_neighbor (with_advs s l) =
  if negb (secret_empty (s_secret s)) && nonempty (s_password s) then None
  else Some (mk_kneighbor (s_addr s) (s_iface s) (s_peerasn s) (s_dynasn s) "" (s_port s)
            (s_hold s) (s_keep s) (s_connect s) (s_bfd s) (s_gr s) (s_multihop s)
            (pfx_set (map a_pfx l))
            (map (fun k => (k, pfx_set (map a_pfx (filter (has_comm k) l)))) (comm_keys l))
            (map (fun n => (n, pfx_set (map a_pfx (filter (fun a => N.eqb (a_lp a) n) l)))) (lp_keys l))
            (s_password s) (s_secret s) (s_disable_mp s)).
Proof. destruct s; reflexivity. Qed.

Lemma with_advs_self s : with_advs s (s_advs s) = s.
Proof. destruct s; reflexivity. Qed.

Lemma map_ext_keys {K V} (f g : K -> V) l : (forall k, f k = g k) -> map (fun k => (k, f k)) l = map (fun k => (k, g k)) l.
Proof. intros H. apply map_ext. intros k. rewrite H. reflexivity. Qed.

Lemma k_neighbor_advperm s s' : adv_perm s s' -> key_inj p_text (map a_pfx (s_advs s)) -> k_neighbor s' = k_neighbor s.
Proof.
  intros [E P] Hi. rewrite E. rewrite <- (with_advs_self s) at 2. rewrite !k_neighbor_with_advs.
  destruct (negb (secret_empty (s_secret s)) && nonempty (s_password s)); [reflexivity|].
  assert (Hsub: forall f, key_inj p_text (map a_pfx (filter f (s_advs s)))).
  { intros f x y Hx Hy. apply Hi.
    - apply in_map_iff in Hx as (a & <- & Ha). apply in_map. apply filter_In in Ha. tauto.
    - apply in_map_iff in Hy as (a & <- & Ha). apply in_map. apply filter_In in Ha. tauto. }
  assert (E1: pfx_set (map a_pfx (s_advs s')) = pfx_set (map a_pfx (s_advs s))).
  { symmetry. apply sort_k_perm; [exact Hi|apply Permutation_map; exact P]. }
  assert (E2: comm_keys (s_advs s') = comm_keys (s_advs s)).
  { unfold comm_keys. symmetry. apply sort_s_perm. apply Permutation_flat_map. exact P. }
  assert (E3: lp_keys (s_advs s') = lp_keys (s_advs s)).
  { unfold lp_keys. symmetry. apply sort_n_perm. apply filter_perm. apply Permutation_map. exact P. }
  rewrite E1, E2, E3. f_equal. f_equal.
  - apply map_ext_keys. intros k. symmetry. apply sort_k_perm; [apply Hsub|apply Permutation_map, filter_perm; exact P].
  - apply map_ext_keys. intros n. symmetry. apply sort_k_perm; [apply Hsub|apply Permutation_map, filter_perm; exact P].
Qed.

Lemma sname_with_advs s l : sname (with_advs s l) = sname s.
Proof. destruct s; reflexivity. Qed.

Lemma adv_perm_sname s s' : adv_perm s s' -> sname s' = sname s.
Proof. intros [E _]. rewrite E. apply sname_with_advs. Qed.

(* sorting related lists by a key the relation preserves gives related lists *)
Lemma insert_k_rel (key : session -> string) x y l l' :
  (forall a b, adv_perm a b -> key b = key a) -> adv_perm x y -> Forall2 adv_perm l l' ->
  Forall2 adv_perm (insert_k key x l) (insert_k key y l').
Proof.
  intros Hk Hxy F. induction F as [|a b l l' Hab F IH]; simpl; [apply Forall2_cons; [assumption|apply Forall2_nil]|].
  rewrite (Hk x y Hxy), (Hk a b Hab).
  destruct (String.leb (key x) (key a)).
  - destruct (String.eqb (key x) (key a)).
    + apply Forall2_cons; assumption.
    + apply Forall2_cons; [assumption|apply Forall2_cons; assumption].
  - apply Forall2_cons; assumption.
Qed.

Lemma sort_k_rel (key : session -> string) l l' :
  (forall a b, adv_perm a b -> key b = key a) -> Forall2 adv_perm l l' -> Forall2 adv_perm (sort_k key l) (sort_k key l').
Proof.
  intros Hk F. induction F as [|a b l l' Hab F IH]; simpl; [apply Forall2_nil|]. apply insert_k_rel; assumption.
Qed.

Lemma map_rel_eq {B} (f : session -> B) l l' : Forall2 adv_perm l l' -> (forall a b, In a l -> adv_perm a b -> f b = f a) -> map f l' = map f l.
Proof.
  induction 1 as [|a b l l' Hab F IH]; intros H; simpl; [reflexivity|].
  rewrite (H a b (or_introl eq_refl) Hab), IH; [reflexivity|]. intros x y Hx; apply H; right; assumption.
Qed.

Theorem k8s_render_advperm node S S' :
  key_inj p_text (map a_pfx (flat_map s_advs S)) -> Forall2 adv_perm S S' -> k8s_render node S = k8s_render node S'.
Proof.
  intros Hi F. unfold k8s_render.
  rewrite <- (rel_map_key rkey S S' (fun s s' H => proj1 (adv_perm_keys s s' H)) F).
  rewrite (all_some_ext (k_router S) (k_router S')); [reflexivity|].
  intros k _. unfold k_router.
  pose proof (sw_rel rkey k S S' (fun s s' H => proj1 (adv_perm_keys s s' H)) F) as Fr.
  destruct (sessions_with rkey k S) as [|f rest] eqn:E; destruct (sessions_with rkey k S') as [|f' rest'] eqn:E';
    inversion Fr as [|? ? ? ? Hff' Frest]; subst; [reflexivity|].
  assert (Hsub: forall x, In x (f :: rest) -> In x S) by (intros x Hx; rewrite <- E in Hx; apply sessions_with_in in Hx; tauto).
  assert (EN: map k_neighbor (sort_k sname (f' :: rest')) = map k_neighbor (sort_k sname (f :: rest))).
  { apply map_rel_eq; [apply sort_k_rel; [intros a b; apply adv_perm_sname|assumption]|].
    intros a b Ha Hab. apply k_neighbor_advperm; [assumption|].
    apply sort_k_in in Ha. intros x y Hx Hy. apply Hi.
    - apply in_map_iff in Hx as (u & <- & Hu). apply in_map. apply in_flat_map. exists a; split; [apply Hsub; assumption|assumption].
    - apply in_map_iff in Hy as (u & <- & Hu). apply in_map. apply in_flat_map. exists a; split; [apply Hsub; assumption|assumption]. }
  rewrite EN. destruct Hff' as [Ef _]. destruct (keys_with_advs f (s_advs f')) as (_ & _ & A1 & A2 & A3 & _).
  assert (EP: pfx_set (map a_pfx (flat_map s_advs (f' :: rest'))) = pfx_set (map a_pfx (flat_map s_advs (f :: rest)))).
  { symmetry. apply sort_k_perm.
    - intros x y Hx Hy. apply Hi.
      + apply in_map_iff in Hx as (u & <- & Hu). apply in_map. apply in_flat_map in Hu as (v & Hv & Hu). apply in_flat_map. exists v; split; [apply Hsub; assumption|assumption].
      + apply in_map_iff in Hy as (u & <- & Hu). apply in_map. apply in_flat_map in Hu as (v & Hv & Hu). apply in_flat_map. exists v; split; [apply Hsub; assumption|assumption].
    - apply Permutation_map. apply rel_flat_advs. assumption. }
  rewrite EP, Ef, A1, A2, A3. reflexivity.
Qed.
