(* A reference allocator that transcribes findBestPoolForService /
   getFreeIPsFromPool / selectIPsForFamilyAndPolicy over an explicitly ordered
   pool list, and the proof that - on a list sorted by the priority key, as
   sortPools produces (Proofs/AllocSortP.v) - its result is admitted by
   [allocate_spec].  So the relation used to validate the implementation's
   observed choices is not stricter than the algorithm itself, and "pinned pools by
   ascending priority, 0 last, before unpinned pools" holds for the algorithm. *)
From Coq Require Import List NArith Bool Lia Permutation Sorted.
From Verif Require Import Model.Net Model.Alloc Model.AllocRef Proofs.NetP Proofs.AllocP Proofs.AllocPolicyP Proofs.AllocSortP.
Import ListNotations.
Local Open Scope N_scope.

Section Ref.
Variables (a : st) (s : svc) (r : req).

Local Notation find_best := (find_best a s r).
Local Notation alloc_from := (alloc_from a s r).
Local Notation allocate_ref := (allocate_ref a s r).

(* ---------- what find_best returns ---------- *)
Definition rank_of (p : pool) : N := class_rank (classify a s r p).

Lemma find_best_spec l : forall pc sc,
  (forall p, pc = Some p -> classify a s r p = PrimaryOnly) ->
  (forall p, sc = Some p -> classify a s r p = SecondaryOnly) ->
  match find_best l pc sc with
  | Some p =>
      (* either a Full pool of l, none before it Full ... *)
      (exists l1 l2, l = l1 ++ p :: l2 /\ classify a s r p = Full /\ forall q, In q l1 -> classify a s r q <> Full)
      (* ... or no Full pool in l and p is the remembered / first primary, else secondary *)
      \/ ((forall q, In q l -> classify a s r q <> Full) /\
          ((pc = Some p) \/
           (pc = None /\ exists l1 l2, l = l1 ++ p :: l2 /\ classify a s r p = PrimaryOnly /\
                                       forall q, In q l1 -> classify a s r q <> PrimaryOnly) \/
           (pc = None /\ (forall q, In q l -> classify a s r q <> PrimaryOnly) /\
            (sc = Some p \/
             (sc = None /\ exists l1 l2, l = l1 ++ p :: l2 /\ classify a s r p = SecondaryOnly /\
                                         forall q, In q l1 -> classify a s r q <> SecondaryOnly)))))
  | None => pc = None /\ sc = None /\ forall q, In q l -> classify a s r q = Nothing
  end.
Proof.
  induction l as [|p l IH]; intros pc sc Hpc Hsc; cbn [find_best].
  - destruct pc as [p|]; [right; split; [intros q []|left; reflexivity]|].
    destruct sc as [p|]; [|repeat split; intros q []].
    right. split; [intros q []|]. right. right. split; [reflexivity|]. split; [intros q []|left; reflexivity].
  - destruct (classify a s r p) eqn:Ec.
    + left. exists [], l. split; [reflexivity|]. split; [exact Ec|intros q []].
    + (* PrimaryOnly *)
      set (pc' := match pc with None => Some p | _ => pc end).
      assert (Hpc' : forall q, pc' = Some q -> classify a s r q = PrimaryOnly).
      { intros q Hq. unfold pc' in Hq. destruct pc; [apply Hpc; exact Hq|]. injection Hq as <-. exact Ec. }
      specialize (IH pc' sc Hpc' Hsc). destruct (find_best l pc' sc) as [w|].
      * destruct IH as [(l1 & l2 & -> & Hw & Hb)|(Hnf & IH)].
        -- left. exists (p :: l1), l2. split; [reflexivity|]. split; [exact Hw|].
           intros q [<-|Hq]; [congruence|apply Hb; exact Hq].
        -- right. split; [intros q [<-|Hq]; [congruence|apply Hnf; exact Hq]|].
           destruct IH as [Hw|[[Hn _]|[Hn _]]].
           ++ unfold pc' in Hw. destruct pc as [p0|]; [left; exact Hw|].
              injection Hw as <-. right. left. split; [reflexivity|]. exists [], l. split; [reflexivity|]. split; [exact Ec|intros q []].
           ++ unfold pc' in Hn. destruct pc; discriminate.
           ++ unfold pc' in Hn. destruct pc; discriminate.
      * destruct IH as [Hn _]. unfold pc' in Hn. destruct pc; discriminate.
    + (* SecondaryOnly *)
      set (sc' := match sc with None => Some p | _ => sc end).
      assert (Hsc' : forall q, sc' = Some q -> classify a s r q = SecondaryOnly).
      { intros q Hq. unfold sc' in Hq. destruct sc; [apply Hsc; exact Hq|]. injection Hq as <-. exact Ec. }
      specialize (IH pc sc' Hpc Hsc'). destruct (find_best l pc sc') as [w|].
      * destruct IH as [(l1 & l2 & -> & Hw & Hb)|(Hnf & IH)].
        -- left. exists (p :: l1), l2. split; [reflexivity|]. split; [exact Hw|].
           intros q [<-|Hq]; [congruence|apply Hb; exact Hq].
        -- right. split; [intros q [<-|Hq]; [congruence|apply Hnf; exact Hq]|].
           destruct IH as [Hw|[(Hn & l1 & l2 & -> & Hw & Hb)|(Hn & Hnp & IH)]].
           ++ left. exact Hw.
           ++ right. left. split; [exact Hn|]. exists (p :: l1), l2. split; [reflexivity|]. split; [exact Hw|].
              intros q [<-|Hq]; [congruence|apply Hb; exact Hq].
           ++ right. right. split; [exact Hn|]. split; [intros q [<-|Hq]; [congruence|apply Hnp; exact Hq]|].
              destruct IH as [Hw|(Hn2 & _)].
              ** unfold sc' in Hw. destruct sc as [s0|]; [left; exact Hw|].
                 injection Hw as <-. right. split; [reflexivity|]. exists [], l. split; [reflexivity|]. split; [exact Ec|intros q []].
              ** unfold sc' in Hn2. destruct sc; discriminate.
      * destruct IH as (_ & Hn & _). unfold sc' in Hn. destruct sc; discriminate.
    + (* Nothing *)
      specialize (IH pc sc Hpc Hsc). destruct (find_best l pc sc) as [w|].
      * destruct IH as [(l1 & l2 & -> & Hw & Hb)|(Hnf & IH)].
        -- left. exists (p :: l1), l2. split; [reflexivity|]. split; [exact Hw|].
           intros q [<-|Hq]; [congruence|apply Hb; exact Hq].
        -- right. split; [intros q [<-|Hq]; [congruence|apply Hnf; exact Hq]|].
           destruct IH as [Hw|[(Hn & l1 & l2 & -> & Hw & Hb)|(Hn & Hnp & IH)]].
           ++ left. exact Hw.
           ++ right. left. split; [exact Hn|]. exists (p :: l1), l2. split; [reflexivity|]. split; [exact Hw|].
              intros q [<-|Hq]; [congruence|apply Hb; exact Hq].
           ++ right. right. split; [exact Hn|]. split; [intros q [<-|Hq]; [congruence|apply Hnp; exact Hq]|].
              destruct IH as [Hw|(Hn2 & l1 & l2 & -> & Hw & Hb)]; [left; exact Hw|].
              right. split; [exact Hn2|]. exists (p :: l1), l2. split; [reflexivity|]. split; [exact Hw|].
              intros q [<-|Hq]; [congruence|apply Hb; exact Hq].
      * destruct IH as (H1 & H2 & H3). repeat split; auto. intros q [<-|Hq]; [exact Ec|apply H3; exact Hq].
Qed.

End Ref.

(* ---------- best_class is the minimum rank over the SET of pools ---------- *)
Lemma class_rank_inj x y : class_rank x = class_rank y -> x = y.
Proof. destruct x, y; cbn; intros H; try reflexivity; lia. Qed.

Lemma best_class_attained a s r l : forall b,
  let res := fold_left (fun b p => if class_rank (classify a s r p) <? class_rank b then classify a s r p else b) l b in
  res = b \/ exists q, In q l /\ classify a s r q = res.
Proof.
  induction l as [|p l IH]; intros b; cbn [fold_left]; [left; reflexivity|].
  cbv zeta in IH. destruct (class_rank (classify a s r p) <? class_rank b) eqn:E.
  - destruct (IH (classify a s r p)) as [H|[q [Hq Hc]]].
    + right. exists p. split; [left; reflexivity|]. symmetry. exact H.
    + right. exists q. split; [right; exact Hq|exact Hc].
  - destruct (IH b) as [H|[q [Hq Hc]]]; [left; exact H|].
    right. exists q. split; [right; exact Hq|exact Hc].
Qed.

Lemma best_class_char a s r l c :
  (forall q, In q l -> class_rank c <= class_rank (classify a s r q)) ->
  (c = Nothing \/ exists q, In q l /\ classify a s r q = c) ->
  best_class a s r l = c.
Proof.
  intros Hmin Hatt. unfold best_class.
  destruct (best_class_fold a s r l Nothing) as [Hb0 Hb].
  pose proof (best_class_attained a s r l Nothing) as Ha. cbv zeta in Ha.
  set (res := fold_left _ l Nothing) in *.
  apply class_rank_inj. apply N.le_antisymm.
  - destruct Hatt as [->|[q [Hq <-]]]; [exact Hb0|apply Hb; exact Hq].
  - destruct Ha as [->|[q [Hq <-]]]; [destruct c; cbn; lia|apply Hmin; exact Hq].
Qed.

(* ---------- what a pool offers ---------- *)
Lemma has_free_iff a s r p f : has_free a s r p f = true <-> exists x, first_free a s r p f = Some x.
Proof. unfold has_free. destruct (first_free a s r p f); split; eauto; try discriminate. intros [x H]. discriminate. Qed.

Lemma pool_offer_ok a s r p ips : pool_offer a s r p = Some ips -> offer_ok a s r p ips = true.
Proof.
  unfold pool_offer, select_ips, offer_ok. intros H.
  assert (HF : forall f x, first_free a s r p f = Some x ->
                 ip_fam x = f /\ in_pool p x = true /\ addr_free a s r p x = true)
    by (intros f x Hx; apply first_free_some; exact Hx).
  destruct (first_free a s r p F4) as [x|] eqn:E4; destruct (first_free a s r p F6) as [y|] eqn:E6;
    try (destruct (HF F4 x E4) as (Fx & Ix & Ax));
    try (destruct (HF F6 y E6) as (Fy & Iy & Ay));
    destruct (r_fam r); try destruct (r_pol r); try discriminate;
    injection H as <-; cbn [forallb]; rewrite ?Ix, ?Ax, ?Iy, ?Ay; cbn [andb];
    rewrite ?Fx, ?Fy; cbn [fam_eqb andb other_fam]; try reflexivity;
    unfold has_free; rewrite ?E4, ?E6; reflexivity.
Qed.

Lemma classify_offer a s r p : classify a s r p <> Nothing -> exists ips, pool_offer a s r p = Some ips.
Proof.
  unfold classify, pool_offer, select_ips, has_free, primary, secondary.
  destruct (r_fam r); destruct (r_pol r); destruct (r_first6 r);
    destruct (first_free a s r p F4) as [x|]; destruct (first_free a s r p F6) as [y|]; cbn [andb];
    intros H; try (exfalso; apply H; reflexivity); eauto.
Qed.

Lemma find_pool_exists_ref ps p : In p (by_name ps) -> exists q, find_pool ps (p_name p) = Some q.
Proof.
  intros Hin. unfold find_pool. destruct (find (fun q => p_name q =? p_name p) (by_name ps)) as [q|] eqn:F; [eauto|].
  exfalso. pose proof (find_none _ _ F p Hin) as Hn. cbv beta in Hn. rewrite N.eqb_refl in Hn. discriminate.
Qed.

(* ---------- the reference result is admitted by the spec ---------- *)
Definition same_elems (l l' : list pool) : Prop := forall q, In q l <-> In q l'.

Lemma key_lt_irrefl k : key_lt k k = false.
Proof. apply key_lt_false_iff. lia. Qed.

Lemma choice_ok_ref a s r L l p :
  same_elems l L ->
  StronglySorted (fun x y => kle (prio_key x) (prio_key y)) l ->
  find_best a s r l None None = Some p ->
  choice_ok_in a s r L p = true.
Proof.
  intros Hsame Hsorted Hf.
  pose proof (find_best_spec a s r l None None ltac:(discriminate) ltac:(discriminate)) as HS. rewrite Hf in HS.
  (* normalise the three shapes: p at l1 ++ p :: l2 with class c, pools before p not of class c, no pool of l of better class *)
  assert (Hshape : exists l1 l2 c, l = l1 ++ p :: l2 /\ classify a s r p = c /\ c <> Nothing /\
                     (forall q, In q l1 -> classify a s r q <> c) /\
                     (forall q, In q l -> class_rank c <= class_rank (classify a s r q))).
  { destruct HS as [(l1 & l2 & E & Hc & Hb)|(Hnf & [H|[(_ & l1 & l2 & E & Hc & Hb)|(_ & Hnp & [H|(_ & l1 & l2 & E & Hc & Hb)])]])]; try discriminate.
    - exists l1, l2, Full. repeat split; auto; [discriminate|]. intros q _. cbn. lia.
    - exists l1, l2, PrimaryOnly. repeat split; auto; [discriminate|].
      intros q Hq. specialize (Hnf q Hq). destruct (classify a s r q); cbn; try lia. congruence.
    - exists l1, l2, SecondaryOnly. repeat split; auto; [discriminate|].
      intros q Hq. specialize (Hnf q Hq). specialize (Hnp q Hq). destruct (classify a s r q); cbn; try lia; congruence. }
  destruct Hshape as (l1 & l2 & c & E & Hc & Hnn & Hbefore & Hmin).
  assert (Hpin : In p l) by (rewrite E; apply in_or_app; right; left; reflexivity).
  unfold choice_ok_in. rewrite !andb_true_iff. repeat split.
  - apply existsb_exists. exists p. split; [apply Hsame; exact Hpin|apply N.eqb_refl].
  - apply class_eqb_eq. rewrite Hc. symmetry. apply best_class_char.
    + intros q Hq. apply Hmin. apply Hsame. exact Hq.
    + right. exists p. split; [apply Hsame; exact Hpin|exact Hc].
  - apply negb_true_iff. destruct (class_eqb (classify a s r p) Nothing) eqn:En; [|reflexivity].
    apply class_eqb_eq in En. congruence.
  - apply forallb_forall. intros q Hq. apply Hsame in Hq. apply negb_true_iff.
    destruct (key_lt (prio_key q) (prio_key p)) eqn:Ek; [|reflexivity]. cbn.
    destruct (class_eqb (classify a s r q) (classify a s r p)) eqn:Ec; [|reflexivity]. exfalso.
    apply class_eqb_eq in Ec. rewrite E in Hq. apply in_app_or in Hq. destruct Hq as [Hq|[<-|Hq]].
    + apply (Hbefore q Hq). congruence.
    + rewrite key_lt_irrefl in Ek. discriminate.
    + (* q after p in a sorted list: its key is not smaller *)
      rewrite E in Hsorted.
      assert (Hs2 : StronglySorted (fun x y => kle (prio_key x) (prio_key y)) (p :: l2)).
      { clear - Hsorted. induction l1 as [|z l1 IH]; [exact Hsorted|]. inversion Hsorted; subst. apply IH. assumption. }
      inversion Hs2 as [|? ? _ Hfa]; subst. pose proof (proj1 (Forall_forall _ _) Hfa q Hq) as Hk.
      unfold kle in Hk. congruence.
Qed.

Lemma find_best_none_best a s r L l :
  same_elems l L -> find_best a s r l None None = None -> best_class a s r L = Nothing.
Proof.
  intros Hsame Hf.
  pose proof (find_best_spec a s r l None None ltac:(discriminate) ltac:(discriminate)) as HS. rewrite Hf in HS.
  destruct HS as (_ & _ & Hall). apply best_class_char; [|left; reflexivity].
  intros q Hq. rewrite (Hall q (proj2 (Hsame q) Hq)). cbn. lia.
Qed.

Lemma unpinned_sorted ps l : same_elems l (unpinned_pools ps) ->
  StronglySorted (fun x y => kle (prio_key x) (prio_key y)) l.
Proof.
  intros Hsame.
  assert (Hk : forall q, In q l -> prio_key q = (1, 0)).
  { intros q Hq. apply Hsame in Hq. apply unpinned_pools_spec in Hq. destruct Hq as (_ & _ & Hp).
    unfold prio_key. rewrite Hp. reflexivity. }
  clear Hsame. induction l as [|x l IH]; [constructor|].
  constructor; [apply IH; intros q Hq; apply Hk; right; exact Hq|].
  apply Forall_forall. intros y Hy. unfold kle. rewrite (Hk x (or_introl eq_refl)), (Hk y (or_intror Hy)).
  apply key_lt_irrefl.
Qed.

(* the transcription of Go's selection, run on the pinned pools sorted as
   sortPools sorts them (any tie order) and on the unpinned auto-assign pools in
   any (map iteration) order, always returns a result that allocate_spec admits *)
Theorem allocate_ref_refines_spec a s r pinned_sorted unp :
  names_unique (s_pools a) ->
  same_elems pinned_sorted (pinned_pools (s_pools a) r) ->
  StronglySorted (fun x y => kle (prio_key x) (prio_key y)) pinned_sorted ->
  same_elems unp (unpinned_pools (s_pools a)) ->
  allocate_spec a s r (allocate_ref a s r pinned_sorted unp) = true.
Proof.
  intros Hun Hps Hsorted Hus.
  assert (Hfp : forall L l p, same_elems l L -> (forall q, In q L -> In q (by_name (s_pools a))) ->
                 In p l -> find_pool (s_pools a) (p_name p) = Some p).
  { intros L l p Hs HL Hp. destruct (find_pool_exists_ref (s_pools a) p (HL p (proj1 (Hs p) Hp))) as [q Hq].
    rewrite Hq. f_equal. apply find_pool_spec in Hq. destruct Hq as [Hqin Hqn].
    apply (names_unique_eq (s_pools a)); auto. apply HL. apply Hs. exact Hp. }
  assert (HLp : forall q, In q (pinned_pools (s_pools a) r) -> In q (by_name (s_pools a))).
  { intros q Hq. apply pinned_pools_spec in Hq. tauto. }
  assert (HLu : forall q, In q (unpinned_pools (s_pools a)) -> In q (by_name (s_pools a))).
  { intros q Hq. apply unpinned_pools_spec in Hq. tauto. }
  assert (Hin_best : forall l p, find_best a s r l None None = Some p -> In p l /\ classify a s r p <> Nothing).
  { intros l p Hf. pose proof (find_best_spec a s r l None None ltac:(discriminate) ltac:(discriminate)) as HS.
    rewrite Hf in HS.
    destruct HS as [(l1 & l2 & -> & Hc & _)|(_ & [H|[(_ & l1 & l2 & -> & Hc & _)|(_ & _ & [H|(_ & l1 & l2 & -> & Hc & _)])]])];
      try discriminate; (split; [apply in_or_app; right; left; reflexivity|congruence]). }
  unfold allocate_ref, alloc_from, allocate_spec.
  destruct (find_best a s r pinned_sorted None None) as [p|] eqn:Fp.
  - destruct (Hin_best _ _ Fp) as [Hpin Hnn]. destruct (classify_offer a s r p Hnn) as [ips Hoff].
    rewrite Hoff. cbn [option_map]. rewrite (Hfp _ _ _ Hps HLp Hpin).
    rewrite (pool_offer_ok _ _ _ _ _ Hoff). cbn [andb].
    rewrite (choice_ok_ref a s r _ _ _ Hps Hsorted Fp). reflexivity.
  - pose proof (find_best_none_best a s r _ _ Hps Fp) as Hbp.
    destruct (find_best a s r unp None None) as [p|] eqn:Fu.
    + destruct (Hin_best _ _ Fu) as [Hpin Hnn]. destruct (classify_offer a s r p Hnn) as [ips Hoff].
      rewrite Hoff. cbn [option_map]. rewrite (Hfp _ _ _ Hus HLu Hpin).
      rewrite (pool_offer_ok _ _ _ _ _ Hoff). cbn [andb].
      rewrite (choice_ok_ref a s r _ _ _ Hus (unpinned_sorted _ _ Hus) Fu).
      rewrite Hbp. cbn. apply orb_true_r.
    + rewrite Hbp, (find_best_none_best a s r _ _ Hus Fu). reflexivity.
Qed.

(* with sortPools' algorithm for the order of the pinned pools *)
Corollary allocate_ref_sortpools_refines_spec a s r unp :
  names_unique (s_pools a) -> same_elems unp (unpinned_pools (s_pools a)) ->
  allocate_spec a s r (allocate_ref a s r (isort go_less (pinned_pools (s_pools a) r)) unp) = true.
Proof.
  intros Hun Hus. apply allocate_ref_refines_spec; auto.
  - intros q. split; apply Permutation_in; [apply isort_perm|apply Permutation_sym, isort_perm].
  - apply isort_sorted.
Qed.
