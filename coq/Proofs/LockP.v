(* Lemmas about Model/Lock.v: soundness of the lock-set checker for the
   interleaving semantics, and serial equivalence of handlers that are
   bracketed by one mutex. *)
From Coq Require Import List String Bool Arith Lia.
From Verif Require Import Model.Lock.
Import ListNotations.

Lemma mem_in x l : mem x l = true <-> In x l.
Proof.
  unfold mem. rewrite existsb_exists. split.
  - intros [y [H1 H2]]. apply String.eqb_eq in H2. subst. exact H1.
  - intros H. exists x. split; [exact H|apply String.eqb_refl].
Qed.

Lemma mem_false x l : mem x l = false <-> ~ In x l.
Proof. rewrite <- mem_in. destruct (mem x l); split; congruence. Qed.

Lemma in_rem x m l : In x (rem m l) -> In x l.
Proof. unfold rem. rewrite filter_In. tauto. Qed.

Lemma in_rem1 x m l : In x (rem1 m l) -> In x l.
Proof.
  induction l as [|y l IH]; cbn; [tauto|]. destruct (String.eqb m y); cbn; [tauto|]. intros [H|H]; auto.
Qed.

Lemma upd_same c i t : upd c i t i = t.
Proof. unfold upd. rewrite Nat.eqb_refl. reflexivity. Qed.

Lemma upd_other c i t j : j <> i -> upd c i t j = c j.
Proof. unfold upd. intros H. apply Nat.eqb_neq in H. rewrite H. reflexivity. Qed.

(* ---------- the invariant ---------- *)
Definition I1 (G : guard_map) (O : owner_map) (c : config) : Prop :=
  forall i, check G O (hx (c i)) (hr (c i)) (code (c i)) = true.
Definition I2 (c : config) : Prop :=
  forall i j m, i <> j -> In m (hx (c i)) -> ~ In m (hx (c j)) /\ ~ In m (hr (c j)).

Lemma I1_upd G O c i t : I1 G O c -> check G O (hx t) (hr t) (code t) = true -> I1 G O (upd c i t).
Proof.
  intros H Ht k. destruct (Nat.eq_dec k i) as [->|Hne]; [rewrite upd_same; exact Ht|rewrite upd_other by exact Hne; apply H].
Qed.

(* a thread whose holdings only shrink keeps mutual exclusion *)
Lemma I2_upd_shrink c i t : I2 c ->
  (forall m, In m (hx t) -> In m (hx (c i))) -> (forall m, In m (hr t) -> In m (hr (c i))) -> I2 (upd c i t).
Proof.
  intros H Hx Hr a b m Hab Hin.
  destruct (Nat.eq_dec a i) as [->|Ha]; destruct (Nat.eq_dec b i) as [->|Hb]; try congruence.
  - rewrite upd_same in Hin. rewrite upd_other by exact Hb. apply (H i b m Hab). apply Hx. exact Hin.
  - rewrite upd_other in Hin by exact Ha. rewrite upd_same. destruct (H a i m Hab Hin) as [N1 N2].
    split; intros X; [apply N1, Hx, X|apply N2, Hr, X].
  - rewrite upd_other in Hin by exact Ha. rewrite upd_other by exact Hb. apply (H a b m Hab Hin).
Qed.

Lemma step_inv G O bodies c c' :
  forallb (check G O [] []) bodies = true -> I1 G O c -> I2 c -> step bodies c c' -> I1 G O c' /\ I2 c'.
Proof.
  intros WB H1 H2 St. destruct St as [i m r E Free|i m r E Free|i m r E Held|i m r E Held|i f r E|i f r E|i f r E|i f r E|i f r E|i f r E|i b E Ex Er Hb];
    pose proof (H1 i) as C; rewrite E in C; cbn [check] in C.
  - (* Lock *)
    apply andb_true_iff in C. destruct C as [_ C]. split; [apply I1_upd; [exact H1|exact C]|].
    intros a b m' Hab Hin.
    destruct (Nat.eq_dec a i) as [->|Ha]; destruct (Nat.eq_dec b i) as [->|Hb]; try congruence.
    + rewrite upd_same in Hin. rewrite upd_other by exact Hb. cbn [hx] in Hin. destruct Hin as [<-|Hin].
      * apply Free.
      * apply (H2 i b m' Hab Hin).
    + rewrite upd_other in Hin by exact Ha. rewrite upd_same. cbn [hx hr].
      destruct (H2 a i m' Hab Hin) as [N1 N2]. split; [|exact N2].
      intros [<-|X]; [|apply N1, X]. destruct (Free a) as [F _]. apply F, Hin.
    + rewrite upd_other in Hin by exact Ha. rewrite upd_other by exact Hb. apply (H2 a b m' Hab Hin).
  - (* RLock *)
    apply andb_true_iff in C. destruct C as [_ C]. split; [apply I1_upd; [exact H1|exact C]|].
    intros a b m' Hab Hin.
    destruct (Nat.eq_dec a i) as [->|Ha]; destruct (Nat.eq_dec b i) as [->|Hb]; try congruence.
    + rewrite upd_same in Hin. rewrite upd_other by exact Hb. cbn [hx] in Hin. apply (H2 i b m' Hab Hin).
    + rewrite upd_other in Hin by exact Ha. rewrite upd_same. cbn [hx hr].
      destruct (H2 a i m' Hab Hin) as [N1 N2]. split; [exact N1|].
      intros [<-|X]; [|apply N2, X]. apply (Free a), Hin.
    + rewrite upd_other in Hin by exact Ha. rewrite upd_other by exact Hb. apply (H2 a b m' Hab Hin).
  - apply andb_true_iff in C. destruct C as [_ C]. split; [apply I1_upd; [exact H1|exact C]|].
    apply I2_upd_shrink; [exact H2| |]; cbn [hx hr]; [intros x; apply in_rem|auto].
  - apply andb_true_iff in C. destruct C as [_ C]. split; [apply I1_upd; [exact H1|exact C]|].
    apply I2_upd_shrink; [exact H2| |]; cbn [hx hr]; [auto|intros x; apply in_rem1].
  - apply andb_true_iff in C. destruct C as [_ C]. split; [apply I1_upd; [exact H1|exact C]|].
    apply I2_upd_shrink; [exact H2| |]; cbn [hx hr]; auto.
  - apply andb_true_iff in C. destruct C as [_ C]. split; [apply I1_upd; [exact H1|exact C]|].
    apply I2_upd_shrink; [exact H2| |]; cbn [hx hr]; auto.
  - apply andb_true_iff in C. destruct C as [_ C]. split; [apply I1_upd; [exact H1|exact C]|].
    apply I2_upd_shrink; [exact H2| |]; cbn [hx hr]; auto.
  - split; [apply I1_upd; [exact H1|exact C]|].
    apply I2_upd_shrink; [exact H2| |]; cbn [hx hr]; auto.
  - split; [apply I1_upd; [exact H1|exact C]|].
    apply I2_upd_shrink; [exact H2| |]; cbn [hx hr]; auto.
  - split; [apply I1_upd; [exact H1|exact C]|].
    apply I2_upd_shrink; [exact H2| |]; cbn [hx hr]; auto.
  - split.
    + apply I1_upd; [exact H1|]. cbn [hx hr code]. rewrite forallb_forall in WB. apply WB, Hb.
    + apply I2_upd_shrink; [exact H2| |]; cbn [hx hr]; intros x [].
Qed.

Lemma idle_inv G O c : idle c -> I1 G O c /\ I2 c.
Proof.
  intros H. split.
  - intros i. rewrite (H i). reflexivity.
  - intros i j m _ Hin. rewrite (H i) in Hin. destruct Hin.
Qed.

Lemma steps_inv G O bodies c c' :
  forallb (check G O [] []) bodies = true -> I1 G O c -> I2 c -> steps bodies c c' -> I1 G O c' /\ I2 c'.
Proof.
  intros WB H1 H2 St. induction St as [|c c' c'' _ IH S]; [auto|].
  destruct (IH H1 H2) as [A B]. eapply step_inv; eauto.
Qed.

Lemma writes_held G O X R a r f : check G O X R (a :: r) = true -> writes a f = true ->
  (exists m, guard_of G f = Some m /\ In m X) /\ (forall t, owner_of O f = Some t -> In t X).
Proof.
  intros C W. destruct a; cbn in W; try discriminate; apply String.eqb_eq in W; subst f0;
    cbn [check] in C; apply andb_true_iff in C; destruct C as [C _];
    apply andb_true_iff in C; destruct C as [C1 C2]; (split;
    [destruct (guard_of G f) as [m|]; try discriminate; exists m; split; try reflexivity; apply mem_in, C1
    |intros t Ht; unfold owner_ok in C2; rewrite Ht in C2; apply mem_in, C2]).
Qed.

Lemma accesses_held G O X R a r f : check G O X R (a :: r) = true -> accesses a f = true ->
  (exists m, guard_of G f = Some m /\ (In m X \/ In m R)) \/ (exists t, owner_of O f = Some t /\ In t X).
Proof.
  intros C W. destruct a; cbn in W; try discriminate; apply String.eqb_eq in W; subst f0;
    cbn [check] in C; apply andb_true_iff in C; destruct C as [C _].
  - apply orb_true_iff in C. destruct C as [C|C].
    + left. destruct (guard_of G f) as [m|]; try discriminate. exists m. split; [reflexivity|].
      apply orb_true_iff in C. destruct C as [C|C]; [left|right]; apply mem_in, C.
    + right. unfold owner_held in C. destruct (owner_of O f) as [t|]; try discriminate. exists t. split; [reflexivity|apply mem_in, C].
  - left. apply andb_true_iff in C. destruct C as [C _].
    destruct (guard_of G f) as [m|]; try discriminate. exists m. split; [reflexivity|left; apply mem_in, C].
  - left. apply andb_true_iff in C. destruct C as [C _].
    destruct (guard_of G f) as [m|]; try discriminate. exists m. split; [reflexivity|left; apply mem_in, C].
Qed.

Lemma inv_not_racy G O c : I1 G O c -> I2 c -> ~ racy G c.
Proof.
  intros H1 H2 [i [j [f [a [ra [b [rb [Hne [_ [Ea [Eb [W A]]]]]]]]]]]].
  pose proof (H1 i) as Ci. rewrite Ea in Ci. pose proof (H1 j) as Cj. rewrite Eb in Cj.
  destruct (writes_held _ _ _ _ _ _ _ Ci W) as [[m [Gm Hm]] Own].
  destruct (accesses_held _ _ _ _ _ _ _ Cj A) as [[m' [Gm' Hm']]|[t [Ot Ht]]].
  - rewrite Gm in Gm'. inversion Gm'; subst m'.
    destruct (H2 i j m Hne Hm) as [N1 N2]. destruct Hm'; contradiction.
  - (* the reader is the owner goroutine: the writer would have to be it too *)
    destruct (H2 i j t Hne (Own t Ot)) as [N1 _]. contradiction.
Qed.

(* lockset_sound: if every (inlined) function body passes the checker, no state reachable
   from the idle configuration has two goroutines at conflicting accesses to a guarded field *)
Lemma lockset_sound_bodies G O bodies c0 c :
  forallb (check G O [] []) bodies = true -> idle c0 -> steps bodies c0 c -> ~ racy G c.
Proof.
  intros WB Hi St. destruct (idle_inv G O c0 Hi) as [A B].
  destruct (steps_inv G O bodies c0 c WB A B St) as [A' B']. apply (inv_not_racy G O); assumption.
Qed.

Lemma lockset_sound G P bodies c0 c :
  well_locked G P = true -> inline_all fuel0 P = Some bodies -> idle c0 -> steps bodies c0 c -> ~ racy G c.
Proof.
  unfold well_locked. intros W E. rewrite E in W. apply (lockset_sound_bodies G []). exact W.
Qed.

(* while a mutex is held exclusively nobody else holds it in any mode, and a mutex held
   shared is held exclusively by nobody: the invariant itself, for reachable states *)
Lemma mutual_exclusion G P bodies c0 c :
  well_locked G P = true -> inline_all fuel0 P = Some bodies -> idle c0 -> steps bodies c0 c ->
  forall i j m, i <> j -> In m (hx (c i)) -> ~ In m (hx (c j)) /\ ~ In m (hr (c j)).
Proof.
  unfold well_locked. intros W E Hi St. rewrite E in W. destruct (idle_inv G [] c0 Hi) as [A B].
  destruct (steps_inv G [] bodies c0 c W A B St) as [_ B']. exact B'.
Qed.

(* ---------- handlers_serial ---------- *)
Section SerialP.
  Variable S : Type.
  Variable bodies : nat -> list (S -> S).
  Variable s0 : S.

  Definition hinit : hconfig S := mk_hconfig S s0 (fun _ => TIdle S) [].

  Record J (c : hconfig S) : Prop := {
    j_one : forall i j r r', hs S c i = TIn S r -> hs S c j = TIn S r' -> i = j;
    j_in : forall i r, hs S c i = TIn S r -> run_body S r (sigma S c) = serial S bodies (order S c) s0;
    j_out : (forall i r, hs S c i <> TIn S r) -> sigma S c = serial S bodies (order S c) s0;
    j_nodup : NoDup (order S c);
    j_order : forall i, In i (order S c) <-> hs S c i <> TIdle S }.

  Lemma hupd_same h i x : hupd S h i x i = x.
  Proof. unfold hupd. rewrite Nat.eqb_refl. reflexivity. Qed.
  Lemma hupd_other h i x j : j <> i -> hupd S h i x j = h j.
  Proof. unfold hupd. intros H. apply Nat.eqb_neq in H. rewrite H. reflexivity. Qed.

  Lemma J_init : J hinit.
  Proof.
    split; cbn; try discriminate; auto.
    - constructor.
    - intros i. split; [intros []|intros H; congruence].
  Qed.

  Lemma J_step c c' : J c -> hstep S bodies c c' -> J c'.
  Proof.
    intros Jc St. destruct St as [i Hi None|i f r Hi|i Hi].
    - split; cbn [hs sigma order].
      + intros a b r r' Ha Hb. destruct (Nat.eq_dec a i) as [->|Na]; destruct (Nat.eq_dec b i) as [->|Nb]; auto.
        * rewrite hupd_other in Hb by exact Nb. exfalso. eapply None; eauto.
        * rewrite hupd_other in Ha by exact Na. exfalso. eapply None; eauto.
        * rewrite hupd_other in Ha by exact Na. exfalso. eapply None; eauto.
      + intros a r Ha. destruct (Nat.eq_dec a i) as [->|Na].
        * rewrite hupd_same in Ha. inversion Ha; subst r. cbn [serial fold_right]. f_equal. apply (j_out _ Jc). exact None.
        * rewrite hupd_other in Ha by exact Na. exfalso. eapply None; eauto.
      + intros H. exfalso. apply (H i (bodies i)). apply hupd_same.
      + constructor; [|apply (j_nodup _ Jc)]. intros X. apply (j_order _ Jc) in X. congruence.
      + intros a. cbn [In]. destruct (Nat.eq_dec a i) as [->|Na].
        * rewrite hupd_same. split; [discriminate|auto].
        * rewrite hupd_other by exact Na. rewrite <- (j_order _ Jc). split; [intros [E|E]; [congruence|exact E]|auto].
    - assert (Only : forall a r', hs S c a = TIn S r' -> a = i) by (intros a r' Ha; eapply (j_one _ Jc); eauto).
      split; cbn [hs sigma order].
      + intros a b r1 r2 Ha Hb.
        assert (a = i). { destruct (Nat.eq_dec a i) as [->|Na]; [reflexivity|]. rewrite hupd_other in Ha by exact Na. eapply Only; eauto. }
        assert (b = i). { destruct (Nat.eq_dec b i) as [->|Nb]; [reflexivity|]. rewrite hupd_other in Hb by exact Nb. eapply Only; eauto. }
        congruence.
      + intros a r' Ha. destruct (Nat.eq_dec a i) as [->|Na].
        * rewrite hupd_same in Ha. inversion Ha; subst r'. rewrite <- (j_in _ Jc i (f :: r) Hi). reflexivity.
        * rewrite hupd_other in Ha by exact Na. exfalso. apply Na. eapply Only; eauto.
      + intros H. exfalso. apply (H i r). apply hupd_same.
      + apply (j_nodup _ Jc).
      + intros a. rewrite (j_order _ Jc). destruct (Nat.eq_dec a i) as [->|Na].
        * rewrite hupd_same, Hi. split; discriminate.
        * rewrite hupd_other by exact Na. reflexivity.
    - assert (Only : forall a r', hs S c a = TIn S r' -> a = i) by (intros a r' Ha; eapply (j_one _ Jc); eauto).
      split; cbn [hs sigma order].
      + intros a b r1 r2 Ha Hb.
        destruct (Nat.eq_dec a i) as [->|Na]; [rewrite hupd_same in Ha; discriminate|].
        rewrite hupd_other in Ha by exact Na. exfalso. apply Na. eapply Only; eauto.
      + intros a r' Ha. destruct (Nat.eq_dec a i) as [->|Na]; [rewrite hupd_same in Ha; discriminate|].
        rewrite hupd_other in Ha by exact Na. exfalso. apply Na. eapply Only; eauto.
      + intros _. apply (j_in _ Jc i [] Hi).
      + apply (j_nodup _ Jc).
      + intros a. rewrite (j_order _ Jc). destruct (Nat.eq_dec a i) as [->|Na].
        * rewrite hupd_same, Hi. split; discriminate.
        * rewrite hupd_other by exact Na. reflexivity.
  Qed.

  Lemma J_steps_from c0 c : J c0 -> hsteps S bodies c0 c -> J c.
  Proof.
    intros J0 St. induction St as [c|c c' c'' St1 IH St2]; [exact J0|].
    eapply J_step; [apply IH; exact J0|exact St2].
  Qed.

  Lemma J_steps c : hsteps S bodies hinit c -> J c.
  Proof. apply J_steps_from, J_init. Qed.

  (* handlers_serial: whenever no handler is inside its critical section, the shared state is
     the result of running the handlers that have started one at a time, in lock-acquisition
     order; each handler appears at most once in that order, and exactly the started ones do *)
  Lemma handlers_serial c : hsteps S bodies hinit c ->
    (forall i r, hs S c i <> TIn S r) ->
    sigma S c = serial S bodies (order S c) s0 /\ NoDup (order S c) /\
    (forall i, In i (order S c) <-> hs S c i = TDone S).
  Proof.
    intros St Q. pose proof (J_steps c St) as Jc. split; [apply (j_out _ Jc), Q|]. split; [apply (j_nodup _ Jc)|].
    intros i. rewrite (j_order _ Jc). destruct (hs S c i) eqn:E; split; try congruence; try discriminate.
    intros _. exfalso. eapply Q; eauto.
  Qed.

  (* at most one handler is ever inside *)
  Lemma handlers_exclusive c : hsteps S bodies hinit c ->
    forall i j r r', hs S c i = TIn S r -> hs S c j = TIn S r' -> i = j.
  Proof. intros St. apply (j_one _ (J_steps c St)). Qed.
End SerialP.

(* ---------- readers and writers under one RWMutex ---------- *)
Section RWP.
  Variable S A : Type.
  Variable wb : nat -> list (S -> S).
  Variable rq : nat -> S -> A.
  Variable s0 : S.

  Notation rths := (rths S A).
  Notation rsigma := (rsigma S A).
  Notation rorder := (rorder S A).
  Notation WIn := (WIn S A).
  Notation RGot := (RGot S A).
  Notation RDone := (RDone S A).
  Notation writer_in := (writer_in S A).
  Notation reader_in := (reader_in S A).

  Record K (c : rwconfig S A) : Prop := {
    k_wone : forall i j r r', rths c i = WIn r -> rths c j = WIn r' -> i = j;
    k_excl : forall i j, writer_in (rths c i) -> ~ reader_in (rths c j);
    k_in : forall i r, rths c i = WIn r -> run_body S r (rsigma c) = serial S wb (rorder c) s0;
    k_out : (forall i, ~ writer_in (rths c i)) -> rsigma c = serial S wb (rorder c) s0;
    k_ans : forall i a, rths c i = RGot a \/ rths c i = RDone a ->
            exists k, a = rq i (serial S wb (skipn k (rorder c)) s0) }.

  Lemma rwupd_same h i x : rwupd S A h i x i = x.
  Proof. unfold rwupd. rewrite Nat.eqb_refl. reflexivity. Qed.
  Lemma rwupd_other h i x j : j <> i -> rwupd S A h i x j = h j.
  Proof. unfold rwupd. intros H. apply Nat.eqb_neq in H. rewrite H. reflexivity. Qed.

  Lemma K_init h : rwinit S A s0 h -> K (mk_rwconfig S A s0 h []).
  Proof.
    intros Hi. split; cbn.
    - intros i j r r' Hx. destruct (Hi i) as [E|E]; rewrite E in Hx; discriminate.
    - intros i j [r Hx]. destruct (Hi i) as [E|E]; rewrite E in Hx; discriminate.
    - intros i r Hx. destruct (Hi i) as [E|E]; rewrite E in Hx; discriminate.
    - reflexivity.
    - intros i a [Hx|Hx]; destruct (Hi i) as [E|E]; rewrite E in Hx; discriminate.
  Qed.

  (* a thread whose new state is neither "writer inside" nor an answer, and which was not
     a writer inside before: the writer-related parts of the invariant are untouched *)
  Ltac split_at j i := destruct (Nat.eq_dec j i) as [->|?];
                       [rewrite ?rwupd_same in *|rewrite ?rwupd_other in * by assumption].

  Lemma K_step c c' : K c -> rwstep S A wb rq c c' -> K c'.
  Proof.
    intros Kc St. destruct St as [i Hi Free|i f r Hi|i Hi|i Hi NoW|i Hi|i a Hi].
    - (* writer locks *)
      assert (NoWr : forall j r, rths c j <> WIn r) by (intros j r E; apply (proj1 (Free j)); exists r; exact E).
      split; cbn [Lock.rths Lock.rsigma Lock.rorder].
      + intros a b r r' Ha Hb. destruct (Nat.eq_dec a i) as [->|Na]; destruct (Nat.eq_dec b i) as [->|Nb]; auto.
        * rewrite rwupd_other in Hb by exact Nb. exfalso. eapply NoWr; eauto.
        * rewrite rwupd_other in Ha by exact Na. exfalso. eapply NoWr; eauto.
        * rewrite rwupd_other in Ha by exact Na. exfalso. eapply NoWr; eauto.
      + intros a b _ Rb. destruct (Nat.eq_dec b i) as [->|Nb].
        * rewrite rwupd_same in Rb. destruct Rb as [E|[x E]]; discriminate.
        * rewrite rwupd_other in Rb by exact Nb. apply (proj2 (Free b)). exact Rb.
      + intros a r Ha. destruct (Nat.eq_dec a i) as [->|Na].
        * rewrite rwupd_same in Ha. inversion Ha; subst r. cbn [serial fold_right]. f_equal.
          apply (k_out _ Kc). intros j. apply (proj1 (Free j)).
        * rewrite rwupd_other in Ha by exact Na. exfalso. eapply NoWr; eauto.
      + intros H. exfalso. apply (H i). rewrite rwupd_same. exists (wb i). reflexivity.
      + intros a x Ha. destruct (Nat.eq_dec a i) as [->|Na].
        * rewrite rwupd_same in Ha. destruct Ha; discriminate.
        * rewrite rwupd_other in Ha by exact Na. destruct (k_ans _ Kc a x Ha) as [k Ek]. exists (Datatypes.S k). exact Ek.
    - (* writer step *)
      assert (Only : forall a r', rths c a = WIn r' -> a = i) by (intros a r' Ha; eapply (k_wone _ Kc); eauto).
      split; cbn [Lock.rths Lock.rsigma Lock.rorder].
      + intros a b r1 r2 Ha Hb.
        assert (a = i). { destruct (Nat.eq_dec a i) as [->|Na]; [reflexivity|]. rewrite rwupd_other in Ha by exact Na. eapply Only; eauto. }
        assert (b = i). { destruct (Nat.eq_dec b i) as [->|Nb]; [reflexivity|]. rewrite rwupd_other in Hb by exact Nb. eapply Only; eauto. }
        congruence.
      + intros a b _ Rb. destruct (Nat.eq_dec b i) as [->|Nb].
        * rewrite rwupd_same in Rb. destruct Rb as [E|[x E]]; discriminate.
        * rewrite rwupd_other in Rb by exact Nb. apply (k_excl _ Kc i b); [exists (f :: r); exact Hi|exact Rb].
      + intros a r' Ha. destruct (Nat.eq_dec a i) as [->|Na].
        * rewrite rwupd_same in Ha. inversion Ha; subst r'. rewrite <- (k_in _ Kc i (f :: r) Hi). reflexivity.
        * rewrite rwupd_other in Ha by exact Na. exfalso. apply Na. eapply Only; eauto.
      + intros H. exfalso. apply (H i). rewrite rwupd_same. exists r. reflexivity.
      + intros a x Ha. destruct (Nat.eq_dec a i) as [->|Na].
        * rewrite rwupd_same in Ha. destruct Ha; discriminate.
        * rewrite rwupd_other in Ha by exact Na. apply (k_ans _ Kc a x Ha).
    - (* writer unlocks *)
      assert (Only : forall a r', rths c a = WIn r' -> a = i) by (intros a r' Ha; eapply (k_wone _ Kc); eauto).
      assert (NoW' : forall a r', rwupd S A (rths c) i (WDone S A) a <> WIn r').
      { intros a r' Ha. destruct (Nat.eq_dec a i) as [->|Na]; [rewrite rwupd_same in Ha; discriminate|].
        rewrite rwupd_other in Ha by exact Na. apply Na. eapply Only; eauto. }
      split; cbn [Lock.rths Lock.rsigma Lock.rorder].
      + intros a b r1 r2 Ha _. exfalso. eapply NoW'; eauto.
      + intros a b [r' Ha] _. eapply NoW'; eauto.
      + intros a r' Ha. exfalso. eapply NoW'; eauto.
      + intros _. apply (k_in _ Kc i [] Hi).
      + intros a x Ha. destruct (Nat.eq_dec a i) as [->|Na].
        * rewrite rwupd_same in Ha. destruct Ha; discriminate.
        * rewrite rwupd_other in Ha by exact Na. apply (k_ans _ Kc a x Ha).
    - (* reader locks *)
      assert (NoW' : forall a r', rwupd S A (rths c) i (RIn S A) a <> WIn r').
      { intros a r' Ha. destruct (Nat.eq_dec a i) as [->|Na]; [rewrite rwupd_same in Ha; discriminate|].
        rewrite rwupd_other in Ha by exact Na. apply (NoW a). exists r'. exact Ha. }
      split; cbn [Lock.rths Lock.rsigma Lock.rorder].
      + intros a b r1 r2 Ha _. exfalso. eapply NoW'; eauto.
      + intros a b [r' Ha] _. eapply NoW'; eauto.
      + intros a r' Ha. exfalso. eapply NoW'; eauto.
      + intros _. apply (k_out _ Kc). exact NoW.
      + intros a x Ha. destruct (Nat.eq_dec a i) as [->|Na].
        * rewrite rwupd_same in Ha. destruct Ha; discriminate.
        * rewrite rwupd_other in Ha by exact Na. apply (k_ans _ Kc a x Ha).
    - (* reader reads *)
      assert (NoW : forall a, ~ writer_in (rths c a)).
      { intros a Wa. apply (k_excl _ Kc a i Wa). left. exact Hi. }
      assert (NoW' : forall a r', rwupd S A (rths c) i (RGot (rq i (rsigma c))) a <> WIn r').
      { intros a r' Ha. destruct (Nat.eq_dec a i) as [->|Na]; [rewrite rwupd_same in Ha; discriminate|].
        rewrite rwupd_other in Ha by exact Na. apply (NoW a). exists r'. exact Ha. }
      split; cbn [Lock.rths Lock.rsigma Lock.rorder].
      + intros a b r1 r2 Ha _. exfalso. eapply NoW'; eauto.
      + intros a b [r' Ha] _. eapply NoW'; eauto.
      + intros a r' Ha. exfalso. eapply NoW'; eauto.
      + intros _. apply (k_out _ Kc). exact NoW.
      + intros a x Ha. destruct (Nat.eq_dec a i) as [->|Na].
        * rewrite rwupd_same in Ha. exists 0. cbn [skipn]. rewrite <- (k_out _ Kc NoW).
          destruct Ha as [E|E]; inversion E; reflexivity.
        * rewrite rwupd_other in Ha by exact Na. apply (k_ans _ Kc a x Ha).
    - (* reader unlocks *)
      assert (WSame : forall b r', rwupd S A (rths c) i (RDone a) b = WIn r' -> rths c b = WIn r').
      { intros b r' Hb. destruct (Nat.eq_dec b i) as [->|Nb]; [rewrite rwupd_same in Hb; discriminate|].
        rewrite rwupd_other in Hb by exact Nb. exact Hb. }
      split; cbn [Lock.rths Lock.rsigma Lock.rorder].
      + intros x y r1 r2 Hx Hy. apply (k_wone _ Kc x y r1 r2); apply WSame; assumption.
      + intros x y [r' Hx] Ry. apply WSame in Hx. destruct (Nat.eq_dec y i) as [->|Ny].
        * apply (k_excl _ Kc x i); [exists r'; exact Hx|]. right. exists a. exact Hi.
        * rewrite rwupd_other in Ry by exact Ny. apply (k_excl _ Kc x y); [exists r'; exact Hx|exact Ry].
      + intros x r' Hx. apply (k_in _ Kc x r'). apply WSame. exact Hx.
      + intros H. apply (k_out _ Kc). intros x [r' Hx]. apply (H x). exists r'.
        destruct (Nat.eq_dec x i) as [->|Nx]; [rewrite Hi in Hx; discriminate|]. rewrite rwupd_other by exact Nx. exact Hx.
      + intros x y Hx. destruct (Nat.eq_dec x i) as [->|Nx].
        * rewrite rwupd_same in Hx. apply (k_ans _ Kc i y). left.
          destruct Hx as [E|E]; inversion E; subst; exact Hi.
        * rewrite rwupd_other in Hx by exact Nx. apply (k_ans _ Kc x y Hx).
  Qed.

  Lemma K_steps c0 c : K c0 -> rwsteps S A wb rq c0 c -> K c.
  Proof.
    intros K0 St. induction St as [c|c c' c'' St1 IH St2]; [exact K0|].
    eapply K_step; [apply IH; exact K0|exact St2].
  Qed.

  (* rw_sections_atomic: from any initial population of idle writers and readers,
     (1) every answer a reader obtained is its query on the state produced by a PREFIX (in
         time) of the COMPLETE writer sections — never on a half-updated state;
     (2) whenever no writer is inside, the state is the serial run of the writers in
         lock-acquisition order;
     (3) a writer inside excludes every other writer and every reader. *)
  Lemma rw_sections_atomic h c : rwinit S A s0 h -> rwsteps S A wb rq (mk_rwconfig S A s0 h []) c ->
    (forall i a, rths c i = RGot a \/ rths c i = RDone a ->
       exists k, a = rq i (serial S wb (skipn k (rorder c)) s0)) /\
    ((forall i, ~ writer_in (rths c i)) -> rsigma c = serial S wb (rorder c) s0) /\
    (forall i j, writer_in (rths c i) -> (writer_in (rths c j) -> i = j) /\ ~ reader_in (rths c j)).
  Proof.
    intros Hi St. pose proof (K_steps _ c (K_init h Hi) St) as Kc.
    split; [apply (k_ans _ Kc)|]. split; [apply (k_out _ Kc)|].
    intros i j Wi. split; [|apply (k_excl _ Kc i j Wi)].
    intros [r' Hj]. destruct Wi as [r Hi']. eapply (k_wone _ Kc); eauto.
  Qed.
End RWP.

(* ---------- a blocking send under the lock vs. after the unlock ---------- *)
Lemma qsteps_app ul cap a b c : qsteps ul cap a b -> qsteps ul cap b c -> qsteps ul cap a c.
Proof.
  intros P Q. induction Q as [s|s s' s'' Q1 IH Q2]; [exact P|].
  eapply qsteps_trans; [apply IH; exact P|exact Q2].
Qed.

Lemma q_one_round cap q : q < cap ->
  qsteps true cap (mk_qstate HP0 C0 q) (mk_qstate HP0 C0 (S q)).
Proof.
  intros Hq. eapply qsteps_trans; [eapply qsteps_trans; [eapply qsteps_trans; [apply qsteps_refl|]|]|].
  - apply QLock. discriminate.
  - apply QSendU; [reflexivity|exact Hq].
  - apply QUnlockU. reflexivity.
Qed.

Lemma q_fill cap n q : q + n = cap -> qsteps true cap (mk_qstate HP0 C0 q) (mk_qstate HP0 C0 cap).
Proof.
  revert q. induction n as [|n IH]; intros q E.
  - replace q with cap by lia. apply qsteps_refl.
  - eapply qsteps_app; [apply q_one_round; lia|]. apply IH. lia.
Qed.

(* with the send under the lock, the handler and the consumer loop reach a state in which the
   handler waits for room in the full queue while holding the mutex and the consumer waits for
   the mutex: nothing can move any more *)
Lemma send_under_lock_deadlocks cap : 1 <= cap ->
  exists s, qsteps true cap (mk_qstate HP0 C0 0) s /\ qstuck true cap s /\
            qh s = HP1 /\ qc s = C1 /\ qq s = cap.
Proof.
  intros Hc. destruct cap as [|c]; [lia|]. exists (mk_qstate HP1 C1 (S c)). split; [|split; [|auto]].
  - eapply qsteps_app; [apply (q_fill (S c) (S c) 0); lia|].
    eapply qsteps_trans; [eapply qsteps_trans; [eapply qsteps_trans; [eapply qsteps_trans; [eapply qsteps_trans; [apply qsteps_refl|]|]|]|]|].
    + apply QRecv.
    + apply QLock. discriminate.
    + apply QSendU; [reflexivity|lia].
    + apply QUnlockU. reflexivity.
    + apply QLock. discriminate.
  - intros s' St. inversion St; subst; try discriminate; try lia.
Qed.

Lemma q_bound_step ul cap s s' : qq s <= cap -> qstep ul cap s s' -> qq s' <= cap.
Proof. intros H St. destruct St; cbn in *; lia. Qed.

Lemma q_bound_steps ul cap s s' : qq s <= cap -> qsteps ul cap s s' -> qq s' <= cap.
Proof.
  intros B St. induction St as [s|s s' s'' St1 IH St2]; [exact B|].
  eapply q_bound_step; [apply IH; exact B|exact St2].
Qed.

(* with the send after the unlock (the order in announcer.go) every reachable state can move *)
Lemma send_after_unlock_progress cap s : 1 <= cap ->
  qsteps false cap (mk_qstate HP0 C0 0) s -> exists s', qstep false cap s s'.
Proof.
  intros Hc St. assert (B : qq s <= cap) by (eapply q_bound_steps; [|exact St]; cbn; lia).
  destruct s as [h c q]. cbn in B. destruct h.
  - destruct c.
    + eexists. apply QLock. discriminate.
    + eexists. apply QLock. discriminate.
    + eexists. apply QRUnlock.
  - eexists. apply QUnlockA. reflexivity.
  - destruct (Nat.eq_dec q cap) as [->|Ne].
    + destruct c.
      * destruct cap as [|c']; [lia|]. eexists. apply QRecv.
      * eexists. apply QRLock. reflexivity.
      * eexists. apply QRUnlock.
    + eexists. apply QSendA; [reflexivity|lia].
Qed.

(* ---------- entry points ---------- *)
Lemma lockset_sound_from G O P entries bodies c0 c :
  well_locked_from G O P entries = true -> inline_entries fuel0 P entries = Some bodies ->
  idle c0 -> steps bodies c0 c -> ~ racy G c.
Proof.
  unfold well_locked_from. intros W E. rewrite E in W. apply (lockset_sound_bodies G O). exact W.
Qed.

Lemma mutual_exclusion_from G O P entries bodies c0 c :
  well_locked_from G O P entries = true -> inline_entries fuel0 P entries = Some bodies -> idle c0 -> steps bodies c0 c ->
  forall i j m, i <> j -> In m (hx (c i)) -> ~ In m (hx (c j)) /\ ~ In m (hr (c j)).
Proof.
  unfold well_locked_from. intros W E Hi St. rewrite E in W. destruct (idle_inv G O c0 Hi) as [A B].
  destruct (steps_inv G O bodies c0 c W A B St) as [_ B']. exact B'.
Qed.

(* ---------- recursive RLock ---------- *)
(* a reader that takes the read lock again while holding it and a writer that asks for the lock in
   between are stuck forever: the nested RLock waits for the pending writer, the writer for the reader *)
Lemma recursive_rlock_deadlocks :
  exists s, rrsteps true (mk_rrstate RP0 WP0) s /\ rrstuck true s /\ ~ rrfinished s /\
            rr_r s = RP1 /\ rr_w s = WPpending.
Proof.
  exists (mk_rrstate RP1 WPpending). split; [|split; [|split; [|auto]]].
  - eapply rrsteps_trans; [eapply rrsteps_trans; [apply rrsteps_refl|]|].
    + apply (RRlock true RP0 WP0); [reflexivity|left; reflexivity].
    + apply (RWpend true RP1).
  - intros s' St. inversion St; subst; try discriminate.
    + destruct H3; discriminate.
  - intros [E _]. discriminate.
Qed.

(* without nesting (RLock; RUnlock; RLock; RUnlock) every state is final or can move *)
Lemma sequential_rlock_progress s : rrfinished s \/ exists s', rrstep false s s'.
Proof.
  destruct s as [p w]. destruct w.
  - right. eexists. apply RWpend.
  - right. destruct p.
    + eexists. apply RWenter. reflexivity.
    + eexists. apply RRunlock; [reflexivity|discriminate].
    + eexists. apply RWenter. reflexivity.
    + eexists. apply RRunlock; [reflexivity|discriminate].
    + eexists. apply RWenter. reflexivity.
  - right. eexists. apply RWleave.
  - destruct p.
    + right. eexists. apply RRlock; [reflexivity|right; reflexivity].
    + right. eexists. apply RRunlock; [reflexivity|discriminate].
    + right. eexists. apply RRlock; [reflexivity|right; reflexivity].
    + right. eexists. apply RRunlock; [reflexivity|discriminate].
    + left. split; reflexivity.
Qed.

(* ---------- notifications after the state ---------- *)
Section NotifyP.
  Variable S : Type.
  Lemma notified_quiescent_gen (t : list (nev S)) : forall sp,
    ends_notified S t = true ->
    (fst sp = snd sp \/ existsb (fun e => negb (is_write S e)) t = true) ->
    fst (nrun S t sp) = snd (nrun S t sp).
  Proof.
    induction t as [|e t IH]; intros sp E H; cbn [nrun fold_left].
    - destruct H as [H|H]; [exact H|discriminate].
    - destruct e as [f|]; cbn [ends_notified] in E.
      + apply andb_true_iff in E. destruct E as [E1 E2]. apply (IH (nstep S sp (NWrite S f)) E2). right. exact E1.
      + apply (IH (nstep S sp (NNotify S)) E). left. reflexivity.
  Qed.

  (* if the published value equals the state before a handler runs and every write of the handler is
     followed by a later notification, then an eager consumer — one that reads the state at every
     notification, however early it is scheduled — has published the final state when the handler ends *)
  Lemma notified_quiescent t sp : fst sp = snd sp -> ends_notified S t = true ->
    fst (nrun S t sp) = snd (nrun S t sp).
  Proof. intros Q E. apply notified_quiescent_gen; [exact E|left; exact Q]. Qed.
End NotifyP.

(* a notification BEFORE the write it announces leaves a stale published value (C20-5 / C20-6 shape) *)
Lemma notify_before_state_stale :
  let t := [NNotify nat; NWrite nat (fun n => n + 1)%nat] in
  ends_notified nat t = false /\ nrun nat t (0, 0)%nat = (1, 0)%nat.
Proof. vm_compute. split; reflexivity. Qed.

(* ---------- local progress of [steps] for a well-locked program ---------- *)
(* In a reachable state of a program that passes the checker, a goroutine that has something left
   to do can take its next step unless that step is Lock / RLock of a mutex held by ANOTHER
   goroutine; in particular it never waits for a mutex it holds itself (no self-deadlock: the
   checker refuses to acquire a held mutex), never releases a mutex it does not hold, and an idle
   goroutine can always start a function. *)
Lemma well_locked_local_progress G O bodies c0 c i :
  forallb (check G O [] []) bodies = true -> idle c0 -> steps bodies c0 c ->
  match code (c i) with
  | [] => True
  | Acq m :: _ => (~ In m (hx (c i)) /\ ~ In m (hr (c i))) /\
                  ((forall j, j <> i -> ~ In m (hx (c j)) /\ ~ In m (hr (c j))) -> exists c', step bodies c c')
  | AcqR m :: _ => (~ In m (hx (c i)) /\ ~ In m (hr (c i))) /\
                   ((forall j, j <> i -> ~ In m (hx (c j))) -> exists c', step bodies c c')
  | CondB :: _ | CondE :: _ => True     (* block markers occur only in the program of the notification analysis *)
  | _ => exists c', step bodies c c'
  end.
Proof.
  intros WB Hi St. destruct (idle_inv G O c0 Hi) as [A B].
  destruct (steps_inv G O bodies c0 c WB A B St) as [I1' _].
  pose proof (I1' i) as C. destruct (code (c i)) as [|a r] eqn:E; [exact I|].
  destruct a; cbn [check] in C.
  - apply andb_true_iff in C. destruct C as [C _]. apply andb_true_iff in C. destruct C as [C1 C2].
    apply negb_true_iff in C1, C2. apply mem_false in C1, C2. split; [split; assumption|].
    intros Free. eexists. apply (SAcq bodies c i m r E). intros j. destruct (Nat.eq_dec j i) as [->|Hne]; [split; assumption|apply Free, Hne].
  - apply andb_true_iff in C. destruct C as [C _]. apply andb_true_iff in C. destruct C as [C1 C2].
    apply negb_true_iff in C1, C2. apply mem_false in C1, C2. split; [split; assumption|].
    intros Free. eexists. apply (SAcqR bodies c i m r E). intros j. destruct (Nat.eq_dec j i) as [->|Hne]; [assumption|apply Free, Hne].
  - apply andb_true_iff in C. destruct C as [C _]. eexists. apply (SRel bodies c i m r E). apply mem_in, C.
  - apply andb_true_iff in C. destruct C as [C _]. eexists. apply (SRelR bodies c i m r E). apply mem_in, C.
  - eexists. apply (SRd bodies c i f r E).
  - eexists. apply (SWrW bodies c i f r E).
  - eexists. apply (SWrE bodies c i f r E).
  - discriminate.
  - eexists. apply (SCb bodies c i c1 r E).
  - eexists. apply (SSend bodies c i ch r E).
  - eexists. apply (SRecv bodies c i ch r E).
  - exact I.
  - exact I.
Qed.

(* ---------- deferred unlock: a panicking handler does not keep the Listener mutex ---------- *)
Lemma deferred_unlock_serves_all os : served true false os = List.length os.
Proof. induction os as [|o r IH]; [reflexivity|]. cbn. destruct o; cbn; rewrite IH; reflexivity. Qed.

Lemma held_serves_none d os : served d true os = 0.
Proof. destruct os; reflexivity. Qed.

Lemma plain_unlock_blocks_after_panic pre post :
  ~ In Panics pre -> served false false (pre ++ Panics :: post) = S (List.length pre).
Proof.
  induction pre as [|o r IH]; intro NP.
  - cbn. rewrite held_serves_none. reflexivity.
  - destruct o; [|exfalso; apply NP; left; reflexivity].
    cbn. f_equal. apply IH. intro H. apply NP. right. exact H.
Qed.
