(* C15 k8s_eq_frr: the FRRConfiguration of frr-k8s mode, read per neighbor
   (FrrK8s.sem_k8s), offers exactly what FrrSpec.offered says; so does the
   FRR-mode configuration (FrrExactP.frr_out_offered); hence they agree. *)
From Coq Require Import String NArith Bool List Sorted Lia PeanoNat.
From Verif Require Import Model.FrrSpec Model.FrrK8s Proofs.FrrSortP Proofs.FrrListsP Proofs.FrrShapeP Proofs.FrrP
     Proofs.FrrSemP Proofs.FrrOutP Proofs.FrrExactP Proofs.FrrK8sP.
Import ListNotations.
Open Scope string_scope.

(* ---- attrs_equiv is an equivalence ---- *)
Lemma attrs_equiv_sym x y : attrs_equiv x y -> attrs_equiv y x.
Proof.
  destruct x, y; simpl; auto. intros (A & B & C). split; [congruence|]. split; intros z; [rewrite (B z)|rewrite (C z)]; tauto.
Qed.

Lemma attrs_equiv_trans x y z : attrs_equiv x y -> attrs_equiv y z -> attrs_equiv x z.
Proof.
  destruct x, y, z; simpl; auto; try tauto. intros (A & B & C) (A' & B' & C'). split; [congruence|].
  split; intros w; [rewrite (B w); apply B'|rewrite (C w); apply C'].
Qed.

(* ---- "large:" marker ---- *)
Lemma substring_all s : String.substring 0 (String.length s) s = s.
Proof. induction s as [|c s IH]; simpl; [reflexivity|]. rewrite IH. reflexivity. Qed.

Lemma strip_large_large t : strip_large ("large:" ++ t) = (true, t).
Proof. unfold strip_large. simpl. rewrite Nat.sub_0_r, substring_all. destruct t; reflexivity. Qed.

Lemma strip_large_std t : String.prefix "large:" t = false -> strip_large t = (false, t).
Proof. unfold strip_large. intros ->. reflexivity. Qed.

(* ---- membership in a sorted prefix set ---- *)
Lemma mem_p_set p l : mem_p p (pfx_set l) = true <-> exists x, In x l /\ p_text x = p_text p.
Proof.
  unfold mem_p, pfx_set. rewrite existsb_exists. split.
  - intros (x & Hx & E). apply sort_k_in in Hx. exists x. split; [assumption|]. apply pfx_eqb_text in E. congruence.
  - intros (x & Hx & E). destruct (sort_k_has p_text l x Hx) as (y & Hy & K). exists y. split; [assumption|].
    apply pfx_eqb_text. congruence.
Qed.

(* ---- the neighbor of a session is found ---- *)
Lemma k_find_session node S c s : wf_sessions S -> key_inj sname S -> k8s_render node S = Some c -> In s S ->
  exists n, k_find c (s_vrf s) (s_addr s) (s_iface s) = Some n /\ k_neighbor s = Some n.
Proof.
  intros W Hinj Hr Hs. destruct (k8s_session_has_neighbor _ _ _ _ Hinj Hr Hs) as (r & n & Hrin & Hn & Hkn & Hkr).
  exists n. split; [|assumption]. unfold k_find.
  destruct (k_router_spec _ _ _ Hkr) as (f & rest & Ef & _ & Vr & _ & Hns & _).
  assert (HfS: In f S /\ rkey f = rkey s).
  { assert (In f (sessions_with rkey (rkey s) S)) by (rewrite Ef; left; reflexivity). apply sessions_with_in in H. exact H. }
  destruct HfS as [HfS Kf]. destruct (wf_rkey _ W _ _ HfS Hs Kf) as (_ & _ & Vf).
  rewrite (find_unique _ _ r).
  - apply find_unique.
    + assumption.
    + destruct (k_neighbor_params _ _ Hkn) as (A & B & _). rewrite A, B, !String.eqb_refl. reflexivity.
    + intros n' Hn' P. apply andb_true_iff in P as [P1 P2]. apply String.eqb_eq in P1, P2.
      pose proof (all_some_in _ _ _ Hns Hn') as Hin. apply in_map_iff in Hin as (t & Ht & Hts).
      apply sort_k_in in Hts. rewrite <- Ef in Hts. apply sessions_with_in in Hts as [HtS Kt].
      destruct (k_neighbor_params _ _ Ht) as (A & B & _). 
      assert (t = s).
      { apply (wf_peer _ W); try assumption.
        - destruct (wf_rkey _ W _ _ HtS Hs Kt) as (_ & _ & V). exact V.
        - assert (I1: s_iface t = s_iface s) by congruence. assert (I2: s_addr t = s_addr s) by congruence.
          unfold peer_tok. rewrite I1, I2. reflexivity. }
      subst t. congruence.
  - assumption.
  - rewrite Vr, Vf. apply String.eqb_refl.
  - intros r' Hr' P. apply String.eqb_eq in P.
    unfold k8s_render in Hr. destruct (all_some _) as [rs|] eqn:E; [|discriminate]. inversion Hr; subst c. simpl in *.
    pose proof (all_some_in _ _ _ E Hr') as Hin. apply in_map_iff in Hin as (k & Hk & _).
    destruct (k_router_spec _ _ _ Hk) as (f' & rest' & Ef' & _ & Vr' & _).
    assert (Hf': In f' S /\ rkey f' = k).
    { assert (In f' (sessions_with rkey k S)) by (rewrite Ef'; left; reflexivity). apply sessions_with_in in H. exact H. }
    destruct Hf' as [Hf'S Kf'].
    assert (rkey f' = rkey s) by (apply (wf_vrf _ W); try assumption; congruence).
    assert (k = rkey s) by congruence. subst k. congruence.
Qed.

(* same prefix, same local preference (what FRR mode insists on) *)
Definition lp_consistent (s : session) : Prop :=
  forall a a', In a (s_advs s) -> In a' (s_advs s) -> p_text (a_pfx a) = p_text (a_pfx a') -> a_lp a = a_lp a'.

Lemma render_lp_consistent S c s : wf_sessions S -> render S = Some c -> In s S -> lp_consistent s.
Proof.
  intros W Hr Hs a a' Ha Ha' T. destruct (render_routers _ _ Hr) as (rs & Hc & _).
  destruct (session_nbr _ _ _ W Hc Hs) as (r & n & _ & _ & _ & _ & Hmk).
  destruct (proj2 (mk_neighbor_covers _ _ _ Hmk) a Ha) as (y & Hy & (Ty & _ & _ & _ & Ly)).
  destruct (proj2 (mk_neighbor_covers _ _ _ Hmk) a' Ha') as (y' & Hy' & (Ty' & _ & _ & _ & Ly')).
  simpl in *. assert (y = y').
  { apply (ssorted_key_unique atext (nc_advs n)); try assumption; [apply (proj1 (mk_neighbor_shape _ _ _ Hmk))|].
    unfold atext. congruence. }
  subst. congruence.
Qed.

Section Reading.
  Variables (s : session) (n : kneighbor) (p : pfx).
  Hypothesis Hk : k_neighbor s = Some n.
  Hypothesis Hlp : lp_consistent s.
  Hypothesis Hco : forall a c, In a (s_advs s) -> In (false, c) (a_comms a) -> String.prefix "large:" c = false.

  Let advs := s_advs s.
  Let F := filter (fun a => pfx_eqb (a_pfx a) p) advs.

  Lemma F_in a : In a F <-> In a advs /\ p_text (a_pfx a) = p_text p.
  Proof. unfold F. rewrite filter_In, pfx_eqb_text. tauto. Qed.

  Lemma n_fields :
    kn_allowed n = pfx_set (map a_pfx advs) /\
    kn_with_comm n = map (fun k => (k, pfx_set (map a_pfx (filter (has_comm k) advs)))) (comm_keys advs) /\
    kn_with_lp n = map (fun l => (l, pfx_set (map a_pfx (filter (fun a => N.eqb (a_lp a) l) advs)))) (lp_keys advs) /\
    kn_interface n = s_iface s /\ kn_disable_mp n = s_disable_mp s.
  Proof.
    unfold k_neighbor in Hk. destruct (_ && _); [discriminate|]. inversion Hk; subst; simpl. auto.
  Qed.

  Lemma allowed_mem : mem_p p (kn_allowed n) = true <-> F <> [].
  Proof.
    destruct n_fields as (E & _). rewrite E, mem_p_set. split.
    - intros (x & Hx & T). apply in_map_iff in Hx as (a & <- & Ha). intros X.
      assert (In a F) by (apply F_in; auto). rewrite X in H. contradiction.
    - intros X. destruct F as [|a r] eqn:EF; [congruence|]. assert (In a F) by (rewrite EF; left; reflexivity).
      apply F_in in H as [H1 H2]. exists (a_pfx a). split; [apply in_map; assumption|assumption].
  Qed.

  Lemma lp_entry l ps : In (l, ps) (kn_with_lp n) ->
    l <> 0%N /\ (mem_p p ps = true <-> exists a, In a F /\ a_lp a = l).
  Proof.
    destruct n_fields as (_ & _ & E & _). rewrite E. intros H. apply in_map_iff in H as (l' & X & Hl). inversion X; subst l' ps.
    apply lp_keys_spec in Hl as [Hz _]. split; [assumption|]. rewrite mem_p_set. split.
    - intros (x & Hx & T). apply in_map_iff in Hx as (a & <- & Ha). apply filter_In in Ha as [Ha La]. apply N.eqb_eq in La.
      exists a. split; [apply F_in; auto|assumption].
    - intros (a & Ha & La). apply F_in in Ha as [H1 H2]. exists (a_pfx a). split; [|assumption].
      apply in_map. apply filter_In. split; [assumption|apply N.eqb_eq; assumption].
  Qed.

  Lemma comm_entry k ps : In (k, ps) (kn_with_comm n) ->
    (mem_p p ps = true <-> exists a c, In a F /\ In c (a_comms a) /\ comm_key c = k).
  Proof.
    destruct n_fields as (_ & E & _). rewrite E. intros H. apply in_map_iff in H as (k' & X & Hl). inversion X; subst k' ps.
    rewrite mem_p_set. split.
    - intros (x & Hx & T). apply in_map_iff in Hx as (a & <- & Ha). apply filter_In in Ha as [Ha La].
      apply has_comm_spec in La as (c & Hc & Kc). exists a, c. split; [apply F_in; auto|auto].
    - intros (a & c & Ha & Hc & Kc). apply F_in in Ha as [H1 H2]. exists (a_pfx a). split; [|assumption].
      apply in_map. apply filter_In. split; [assumption|]. apply has_comm_spec. exists c; auto.
  Qed.

  Lemma comm_entry_key a c : In a F -> In c (a_comms a) ->
    exists ps, In (comm_key c, ps) (kn_with_comm n) /\ mem_p p ps = true.
  Proof.
    intros Ha Hc. destruct n_fields as (_ & E & _).
    assert (Hk': In (comm_key c) (comm_keys advs)).
    { apply comm_keys_spec. apply F_in in Ha as [H1 _]. exists a, c. auto. }
    eexists. split.
    - rewrite E. apply in_map_iff. exists (comm_key c). split; [reflexivity|assumption].
    - apply (proj2 (comm_entry (comm_key c) _ ltac:(rewrite E; apply in_map_iff; exists (comm_key c); split; [reflexivity|assumption]))).
      exists a, c. auto.
  Qed.

  Lemma strip_of c a : In a advs -> In c (a_comms a) -> strip_large (comm_key c) = c.
  Proof.
    intros Ha Hc. destruct c as [[|] t]; unfold comm_key; simpl.
    - apply strip_large_large.
    - apply strip_large_std. eapply Hco; eauto.
  Qed.


  Theorem reading_offered : attrs_equiv (read_nbr n (s_addr4 s) p) (offered s p).
  Proof.
    destruct n_fields as (_ & _ & _ & Ei & Ed).
    unfold read_nbr, offered.
    assert (Ea: k_activated n (s_addr4 s) (pfx_afi p) = act_actual s (pfx_afi p)).
    { unfold k_activated, act_actual, nfam_of. rewrite Ei, Ed. reflexivity. }
    rewrite Ea. destruct (act_actual s (pfx_afi p)); simpl; [|exact I].
    unfold requested. fold advs. fold F.
    destruct (mem_p p (kn_allowed n)) eqn:M.
    - apply allowed_mem in M. destruct F as [|a1 rest] eqn:EF; [congruence|].
      assert (Ha1: In a1 F) by (rewrite EF; left; reflexivity).
      assert (HL: forall a, In a F -> a_lp a = a_lp a1).
      { intros a Ha. apply F_in in Ha as [H1 H2]. apply F_in in Ha1 as [H3 H4]. apply Hlp; try assumption. congruence. }
      simpl. split; [|split].
      + (* local preference *)
        destruct (N.eqb (a_lp a1) 0) eqn:Z.
        * apply N.eqb_eq in Z. destruct (filter (fun x => mem_p p (snd x)) (kn_with_lp n)) as [|[l ps] r] eqn:Fl; [reflexivity|].
          exfalso. assert (Hin: In (l, ps) (filter (fun x => mem_p p (snd x)) (kn_with_lp n))) by (rewrite Fl; left; reflexivity).
          apply filter_In in Hin as [Hin Hm]. simpl in Hm. destruct (lp_entry l ps Hin) as [Hz Hiff].
          apply Hiff in Hm as (a & Ha & La). rewrite (HL a Ha) in La. congruence.
        * apply N.eqb_neq in Z.
          destruct (filter (fun x => mem_p p (snd x)) (kn_with_lp n)) as [|[l ps] r] eqn:Fl.
          -- exfalso. destruct n_fields as (_ & _ & E & _).
             assert (Hk': In (a_lp a1) (lp_keys advs)).
             { apply lp_keys_spec. split; [assumption|]. exists a1. split; [apply F_in in Ha1; tauto|reflexivity]. }
             set (e := (a_lp a1, pfx_set (map a_pfx (filter (fun a => N.eqb (a_lp a) (a_lp a1)) advs)))).
             assert (He: In e (kn_with_lp n)) by (rewrite E; apply in_map_iff; exists (a_lp a1); split; [reflexivity|assumption]).
             assert (In e (filter (fun x => mem_p p (snd x)) (kn_with_lp n))).
             { apply filter_In. split; [assumption|]. apply (proj2 (lp_entry _ _ He)). exists a1; auto. }
             rewrite Fl in H. contradiction.
          -- assert (Hin: In (l, ps) (filter (fun x => mem_p p (snd x)) (kn_with_lp n))) by (rewrite Fl; left; reflexivity).
             apply filter_In in Hin as [Hin Hm]. simpl in Hm. destruct (lp_entry l ps Hin) as [Hz Hiff].
             apply Hiff in Hm as (a & Ha & La). rewrite (HL a Ha) in La. simpl. congruence.
      + (* communities *)
        intros x. rewrite fold_add_s_in.
        change (comm_texts false a1 ++ flat_map (comm_texts false) rest)%list with (flat_map (comm_texts false) (a1 :: rest)).
        rewrite in_flat_map, in_map_iff. split.
        * intros ([k ps] & Ex & Hin). simpl in Ex. apply filter_In in Hin as [Hin Hneg]. apply filter_In in Hin as [Hin Hm].
          cbn [fst snd] in *. apply (comm_entry k ps Hin) in Hm as (a & c & Ha & Hc & Kc). subst k.
          assert (Haa: In a advs) by (apply F_in in Ha; tauto).
          rewrite (strip_of c a Haa Hc) in *. exists a. split; [rewrite <- EF; assumption|].
          destruct c as [b t]. cbn [fst snd] in *. apply negb_true_iff in Hneg. subst b x.
          unfold comm_texts. apply in_map_iff. exists (false, t). split; [reflexivity|]. apply filter_In. split; [assumption|reflexivity].
        * intros (a & Ha & Hx). rewrite <- EF in Ha. unfold comm_texts in Hx. apply in_map_iff in Hx as ([b t] & Et & Hc). simpl in Et. subst t.
          apply filter_In in Hc as [Hc Hb]. simpl in Hb. apply Bool.eqb_prop in Hb. subst b.
          destruct (comm_entry_key a (false, x) Ha Hc) as (ps & Hin & Hm).
          assert (Haa: In a advs) by (apply F_in in Ha; tauto).
          exists (comm_key (false, x), ps). split.
          -- simpl. rewrite (strip_of (false, x) a Haa Hc). reflexivity.
          -- apply filter_In. split; [apply filter_In; split; assumption|]. simpl. rewrite (strip_of (false, x) a Haa Hc). reflexivity.
      + (* large communities *)
        intros x. rewrite fold_add_s_in.
        change (comm_texts true a1 ++ flat_map (comm_texts true) rest)%list with (flat_map (comm_texts true) (a1 :: rest)).
        rewrite in_flat_map, in_map_iff. split.
        * intros ([k ps] & Ex & Hin). simpl in Ex. apply filter_In in Hin as [Hin Hpos]. apply filter_In in Hin as [Hin Hm].
          cbn [fst snd] in *. apply (comm_entry k ps Hin) in Hm as (a & c & Ha & Hc & Kc). subst k.
          assert (Haa: In a advs) by (apply F_in in Ha; tauto).
          rewrite (strip_of c a Haa Hc) in *. exists a. split; [rewrite <- EF; assumption|].
          destruct c as [b t]. cbn [fst snd] in *. subst b x.
          unfold comm_texts. apply in_map_iff. exists (true, t). split; [reflexivity|]. apply filter_In. split; [assumption|reflexivity].
        * intros (a & Ha & Hx). rewrite <- EF in Ha. unfold comm_texts in Hx. apply in_map_iff in Hx as ([b t] & Et & Hc). simpl in Et. subst t.
          apply filter_In in Hc as [Hc Hb]. simpl in Hb. apply Bool.eqb_prop in Hb. subst b.
          destruct (comm_entry_key a (true, x) Ha Hc) as (ps & Hin & Hm).
          assert (Haa: In a advs) by (apply F_in in Ha; tauto).
          exists (comm_key (true, x), ps). split.
          -- simpl. rewrite (strip_of (true, x) a Haa Hc). reflexivity.
          -- apply filter_In. split; [apply filter_In; split; assumption|]. simpl. rewrite (strip_of (true, x) a Haa Hc). reflexivity.
    - destruct F as [|a1 rest] eqn:EF; [exact I|]. exfalso.
      assert (mem_p p (kn_allowed n) = true) by (apply allowed_mem; rewrite EF; discriminate). congruence.
  Qed.
End Reading.

(* ---- the theorems ---- *)
Theorem k8s_out_offered node S c s p :
  wf_sessions S -> key_inj sname S -> comms_ok S -> k8s_render node S = Some c -> In s S -> lp_consistent s ->
  attrs_equiv (sem_k8s c s p) (offered s p).
Proof.
  intros W Hinj Hco Hr Hs Hlp. destruct (k_find_session _ _ _ _ W Hinj Hr Hs) as (n & Hf & Hk).
  unfold sem_k8s. rewrite Hf. apply reading_offered; try assumption.
  intros a c0 Ha Hc0. eapply Hco; eauto.
Qed.

Theorem k8s_eq_frr ft um node S f c s p :
  wf_sessions S -> key_inj sname S -> comms_ok S -> route_ok S p ->
  render S = Some f -> k8s_render node S = Some c -> In s S ->
  attrs_equiv (sem_k8s c s p) (sem_out ft um f (s_vrf s) (peer_tok s) p).
Proof.
  intros W Hinj Hco Hp Hrf Hrk Hs.
  eapply attrs_equiv_trans.
  - apply (k8s_out_offered node S c s p); try assumption. exact (render_lp_consistent S f s W Hrf Hs).
  - apply attrs_equiv_sym. apply (frr_out_offered ft um S f s p); assumption.
Qed.
