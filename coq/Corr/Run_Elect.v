(* Correspondence runner for Model/Elect.v: the harness ships, per view, the node
   names, the first address' text, the view and ShouldAnnounce's verdict on
   every node; the model must give the same verdict vector. *)
From Coq Require Import List NArith ZArith Bool Uint63.
From Verif Require Export Base.Sha256 Model.Elect.
Import ListNotations.

Record ecase := mk_ecase { c_id : N; c_names : list (N * list int); c_ip : list int;
                           c_view : view; c_obs : list (N * bool) }.

Definition hash_table (c : ecase) : list (N * N) :=
  map (fun p => (fst p, Z.to_N (digest_Z (sha256 (snd p ++ [35%uint63] ++ c_ip c))))) (c_names c).

Definition h_of (tbl : list (N * N)) (n : N) : N :=
  match find (fun p => N.eqb (fst p) n) tbl with Some p => snd p | None => 0%N end.

Definition case_ok (c : ecase) : bool :=
  let h := h_of (hash_table c) in
  forallb (fun p => Bool.eqb (decide h (c_view c) (fst p)) (snd p)) (c_obs c).

Definition mismatches (cs : list ecase) : list N :=
  map c_id (filter (fun c => negb (case_ok c)) cs).
