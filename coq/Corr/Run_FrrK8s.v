(* Correspondence runner for Model/FrrK8s.v (C15).
   KCfg: session set, permuted set, node name, the FRRConfiguration the real
   updateConfig handed to the callback (projected; None = updateConfig returned
   an error), probe routes.   KPw: one call of the real passwordForSession.
   codes 10*id + k:
     k=1 k8s_render S <> observed          k=2 k8s_render (permuted S) <> k8s_render S
     k=3 sem_k8s of the OBSERVED configuration <> intended (F15 shape skipped)
     k=4 sem_k8s of the observed configuration <> sem_out of the FRR-mode model's render (k8s_eq_frr, sampled)
     k=5 password and secret reference both set on an observed neighbor
     k=6 passwordForSession differs from the model
     k=9 (informational) the session set / a probe route is outside the premises of C15_k8s_eq_frr *)
From Coq Require Import List NArith Bool String.
From Verif Require Export Model.FrrSpec Model.FrrK8s.
Import ListNotations.
Open Scope string_scope.

Inductive kcase :=
  | KCfg (id : N) (node : string) (Ss Sperm : list session) (obs : option kconfig) (routes : list pfx)
  | KPw (id : N) (p : peer_pw) (t : bgp_impl) (h : secret_handling) (obs : option (string * (string * string))).

Definition combos : list (bool * bool) := [(false, false); (false, true); (true, false); (true, true)].

(* the same prefix requested with two local preferences: FRR mode refuses the set, frr-k8s mode lists the prefix under both *)
Definition lp_conflict (s : session) (r : pfx) : bool :=
  match map a_lp (filter (fun a => pfx_eqb (a_pfx a) r) (s_advs s)) with
  | [] => false
  | x :: l => negb (forallb (N.eqb x) l)
  end.

Definition k_vs_intended (c : kconfig) (S : list session) (routes : list pfx) : bool :=
  forallb (fun s => f15_shape s || forallb (fun r => lp_conflict s r || attrs_equiv_b (sem_k8s c s r) (intended s r)) routes) S.

Definition k_vs_frr (c : kconfig) (S : list session) (routes : list pfx) : bool :=
  match render S with
  | None => true
  | Some f =>
      forallb (fun s => forallb (fun r => forallb (fun fu =>
        attrs_equiv_b (sem_k8s c s r) (sem_out (fst fu) (snd fu) f (s_vrf s) (peer_tok s) r)) combos) routes) S
  end.

Definition pw_xor (c : kconfig) : bool :=
  forallb (fun r => forallb (fun n => negb (nonempty (kn_password n) && negb (secret_empty (kn_secret n)))) (kr_nbrs r)) (kc_routers c).

Definition pw_res_eqb (a b : string * (string * string)) : bool :=
  String.eqb (fst a) (fst b) && pair_eqb String.eqb String.eqb (snd a) (snd b).

Definition codes (c : kcase) : list N :=
  match c with
  | KCfg id node Ss Sperm obs routes =>
      let k (b : bool) (n : N) := if b then [] else [(10 * id + n)%N] in
      let r := k8s_render node Ss in
      k (opt_eqb kconfig_eqb r obs) 1%N ++ k (opt_eqb kconfig_eqb (k8s_render node Sperm) r) 2%N ++
      k (wf_sessions_b Ss && comms_ok_b Ss && nodup_b String.eqb (map sname Ss) && forallb (route_ok_b Ss) routes) 9%N ++
      match obs with
      | None => []
      | Some o => k (k_vs_intended o Ss routes) 3%N ++ k (k_vs_frr o Ss routes) 4%N ++ k (pw_xor o) 5%N
      end
  | KPw id p t h obs =>
      if opt_eqb pw_res_eqb (password_for_session p t h) obs then [] else [(10 * id + 6)%N]
  end.

Definition mismatches (cs : list kcase) : list N := flat_map codes cs.
