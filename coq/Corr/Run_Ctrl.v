(* Correspondence runner for Model/Ctrl.v: one case = one history driven through
   the real ServiceReconciler + controller.SetBalancer/SetPools + a fake API
   server.  After every event the harness records the statuses and pool
   annotations of all Services, the allocator's IPs()/Pool() and the handler
   results; the model must agree. *)
From Coq Require Import List NArith Bool.
From Verif Require Export Model.Ctrl.
Import ListNotations.
Local Open Scope N_scope.

Record wobs := { wo_api : list (svc * (list ip * option poolid));   (* every existing Service *)
                 wo_mem : list (svc * (poolid * list ip));          (* services with Pool() <> "" *)
                 wo_syncs : list sync }.
Record ccase := { cc_id : N; cc_rank : list (ip * N); cc_universe : list svc; cc_events : list (ev * wobs) }.

Definition rank_of (tbl : list (ip * N)) (x : ip) : N :=
  match find (fun e => ip_eqb (fst e) x) tbl with Some e => snd e | None => 0 end.

Definition sync_eqb (a b : sync) : bool :=
  match a, b with Success, Success | Error, Error | ReprocessAll, ReprocessAll | ErrorNoRetry, ErrorNoRetry => true | _, _ => false end.
Fixpoint syncs_eqb (a b : list sync) : bool :=
  match a, b with [], [] => true | x :: a', y :: b' => sync_eqb x y && syncs_eqb a' b' | _, _ => false end.

Definition same_ip_set (a b : list ip) : bool := subset_ips a b && subset_ips b a.

Definition api_ok (w : world) (o : wobs) (s : svc) : bool :=
  match api_get w s, find (fun e => fst e =? s) (wo_api o) with
  | None, None => true
  | Some ob, Some (_, (st, an)) => ips_eqb (o_status ob) st && opt_pool_eqb (o_annot ob) an
  | _, _ => false
  end.
Definition mem_ok (w : world) (o : wobs) (s : svc) : bool :=
  match get_alloc (c_mem (w_ctl w)) s, find (fun e => fst e =? s) (wo_mem o) with
  | None, None => true
  | Some al, Some (_, (pn, ips)) => (a_pool al =? pn) && same_ip_set (a_ips al) ips
  | _, _ => false
  end.

Definition wobs_ok (universe : list svc) (w : world) (rs : list sync) (o : wobs) : bool :=
  syncs_eqb rs (wo_syncs o) && forallb (api_ok w o) universe && forallb (mem_ok w o) universe.

Fixpoint runw (rank : ip -> N) (universe : list svc) (w : world) (evs : list (ev * wobs)) (i : N) : option N :=
  match evs with
  | [] => None
  | (e, o) :: rest =>
      match wstep_t rank w e with
      | None => Some i
      | Some (w', rs) => if wobs_ok universe w' rs o then runw rank universe w' rest (i + 1) else Some i
      end
  end.

Definition first_bad (c : ccase) : option N := runw (rank_of (cc_rank c)) (cc_universe c) world0 (cc_events c) 0.
Definition mismatches (cs : list ccase) : list N :=
  map cc_id (filter (fun c => match first_bad c with Some _ => true | None => false end) cs).
Definition where_bad (cs : list ccase) : list (N * option N) :=
  map (fun c => (cc_id c, first_bad c)) (filter (fun c => match first_bad c with Some _ => true | None => false end) cs).
