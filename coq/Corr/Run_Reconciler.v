(* Correspondence runner for Model/Reconciler.v: per history of Reconcile calls the harness ships,
   for every call, what the cluster state rendered to at that moment (the id of the
   configuration class, None = toConfig fails), the scripted handler answer, and what the real
   reconciler did (handler called with which configuration, error returned = requeue,
   ForceReload called); the model must produce the same outputs. *)
From Coq Require Import List NArith Bool.
From Verif Require Export Model.Reconciler.
Import ListNotations.

Record rstepc := { s_render : option N; s_h : hres; s_called : option N; s_requeue : bool; s_reload : bool }.
Record rcase := { rc_id : N; rc_pool : bool; rc_steps : list rstepc }.

Definition oN_same (a b : option N) : bool :=
  match a, b with Some x, Some y => N.eqb x y | None, None => true | _, _ => false end.
Definition out_same (o : out N) (s : rstepc) : bool :=
  oN_same (o_called o) (s_called s) && Bool.eqb (o_requeue o) (s_requeue s) && Bool.eqb (o_reload o) (s_reload s).
Fixpoint all2 {A B} (f : A -> B -> bool) (l : list A) (m : list B) : bool :=
  match l, m with [], [] => true | x :: l', y :: m' => f x y && all2 f l' m' | _, _ => false end.
Definition case_ok (c : rcase) : bool :=
  all2 out_same (outs N.eqb (rc_pool c) (map (fun s => (s_render s, s_h s)) (rc_steps c)) hinit) (rc_steps c).
Definition mismatches (cs : list rcase) : list N := map rc_id (filter (fun c => negb (case_ok c)) cs).
