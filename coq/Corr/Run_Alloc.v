(* Correspondence runner for Model/Alloc.v: one case = one history on a real
   allocator.Allocator.  After every operation the harness records the result,
   IPs()/Pool() of every service, CountersForPool of every pool and a matrix of
   checkSharing probes; the model, fed the same operations (allocation results
   as checked choices), must agree on all of them. *)
From Coq Require Import List NArith ZArith Bool.
From Verif Require Export Model.Alloc Model.AllocRef.
Import ListNotations.
Local Open Scope N_scope.

Record probe := { pr_svc : svc; pr_ip : ip; pr_ports : list port; pr_key : skey; pr_ok : bool }.
Record obs := { ob_res : option (list ip);                     (* None = error returned *)
                ob_allocs : list (svc * (poolid * list ip));   (* services with Pool() <> "" *)
                ob_counters : list (poolid * counters);
                ob_probes : list probe }.
Record acase := { ac_id : N; ac_universe : list svc; ac_steps : list (op * obs) }.

Definition res_ok (r : res) (o : option (list ip)) : bool :=
  match r, o with
  | ROk ips, Some ips' => ips_eqb ips ips'
  | RErr _, None => true
  | _, _ => false
  end.

Definition alloc_ok (a : st) (o : obs) (s : svc) : bool :=
  match get_alloc a s, find (fun e => fst e =? s) (ob_allocs o) with
  | None, None => true
  | Some al, Some (_, (pn, ips)) => (a_pool al =? pn) && ips_eqb (a_ips al) ips
  | _, _ => false
  end.

Definition counters_eqb (x y : counters) : bool :=
  (c_assigned4 x =? c_assigned4 y)%Z && (c_assigned6 x =? c_assigned6 y)%Z &&
  (c_avail4 x =? c_avail4 y)%Z && (c_avail6 x =? c_avail6 y)%Z.

Definition obs_ok (universe : list svc) (a : st) (r : res) (o : obs) : bool :=
  res_ok r (ob_res o) &&
  forallb (alloc_ok a o) universe &&
  forallb (fun e => counters_eqb (counters_for a (fst e)) (snd e)) (ob_counters o) &&
  forallb (fun p => Bool.eqb (check_sharing a (pr_svc p) (pr_ip p) (pr_ports p) (pr_key p)) (pr_ok p)) (ob_probes o).

(* for [OUnassign]/[OSetPools] the model's result is ROk []; Go returns nothing *)
Definition normalize (o : op) (ob : option (list ip)) : option (list ip) :=
  match o with OUnassign _ | OSetPools _ => Some [] | _ => ob end.

(* the transcription of the selection algorithm (Model/AllocRef.v, proved to refine
   [allocate_spec]) run next to the implementation: with the chosen pool favoured
   in the unobservable map order it must choose the same POOL, and fail exactly
   when the implementation failed.  Which free address of that pool is taken is
   not compared: the property does not fix it (offer_ok validates it) *)
Definition same_choice (x : option (poolid * list ip)) (pn : poolid) (ips : list ip) : bool :=
  match x with Some (pn', _) => pn =? pn' | None => false end.
Definition ref_ok (a : st) (o : op) : bool :=
  match o with
  | OAllocate s r c =>
      match get_alloc a s with
      | Some _ => true
      | None =>
          match c with
          | None => match allocate_ref_with a s r (fun l => l) with None => true | Some _ => false end
          | Some (pn, ips) =>
              same_choice (allocate_ref_with a s r (prefer pn)) pn ips ||
              same_choice (allocate_ref_with a s r (prefer_last pn)) pn ips
          end
      end
  | _ => true
  end.

Fixpoint run (universe : list svc) (a : st) (steps : list (op * obs)) : bool :=
  match steps with
  | [] => true
  | (o, ob) :: rest =>
      let '(a', r) := step a o in
      ref_ok a o &&
      obs_ok universe a' r {| ob_res := normalize o (ob_res ob); ob_allocs := ob_allocs ob;
                              ob_counters := ob_counters ob; ob_probes := ob_probes ob |}
      && run universe a' rest
  end.

(* index of the first step that disagrees (for the replay report) *)
Fixpoint first_bad (universe : list svc) (a : st) (steps : list (op * obs)) (i : N) : option N :=
  match steps with
  | [] => None
  | (o, ob) :: rest =>
      let '(a', r) := step a o in
      if ref_ok a o && obs_ok universe a' r {| ob_res := normalize o (ob_res ob); ob_allocs := ob_allocs ob;
                                 ob_counters := ob_counters ob; ob_probes := ob_probes ob |}
      then first_bad universe a' rest (i + 1) else Some i
  end.

Definition case_ok (c : acase) : bool := run (ac_universe c) init (ac_steps c).
Definition mismatches (cs : list acase) : list N := map ac_id (filter (fun c => negb (case_ok c)) cs).
Definition where_bad (cs : list acase) : list (N * option N) :=
  map (fun c => (ac_id c, first_bad (ac_universe c) init (ac_steps c) 0)) (filter (fun c => negb (case_ok c)) cs).
