(* Correspondence runner for Model/AllocMaps.v: one case = one history on a real
   allocator.Allocator.  After every operation the harness dumps the ACTUAL
   contents of allocated, sharingKeyForIP, portsInUse, servicesOnIP, poolIPsInUse,
   poolIPV4InUse, poolIPV6InUse (sorted), Pool()/IPs() of every service and
   CountersForPool of every pool; the concrete model, fed the same operations (allocation
   results as checked choices), must hold the same maps.

   Maps are compared as maps: every binding of one side is looked up in the other.
   An inner map that is present but empty counts as absent on both sides (the Go
   code never removes servicesOnIP[ip] / poolIPsInUse[pool]; whether it does is
   not observable through any method of the allocator). *)
From Coq Require Import List NArith ZArith Bool.
From Verif Require Export Model.AllocMaps.
Import ListNotations.
Local Open Scope N_scope.

(* white-box part: [None] = the harness could not read that field of the
   Allocator (it is read through reflection; an absent field or an unexpected
   shape skips the comparison of that map).  Black-box part, always present:
   Pool()/IPs() of every service of the universe, CountersForPool, the result of
   the operation (probes are ordinary Assign+Unassign operations of a probe
   service inside the history). *)
Record mdump := {
  d_bb : list (svc * (poolid * list ip));
  d_alloc : option (list (svc * alloc));
  d_key : option (list (ip * skey));
  d_ports : option (list (ip * list (port * svc)));
  d_svcs : option (list (ip * list svc));
  d_use : option (list (poolid * list (ip * Z)));
  d_use4 : option (list (poolid * list (ip * Z)));
  d_use6 : option (list (poolid * list (ip * Z)));
  d_counters : list (poolid * counters) }.
Record mobs := { mo_res : option (list ip); mo_dump : mdump }.
Record mcase := { mc_id : N; mc_universe : list svc; mc_steps : list (op * mobs) }.

(* ---------- equality of observables ---------- *)
Definition skey_eqb (a b : skey) : bool := (sharing a =? sharing b) && (backend a =? backend b).
Fixpoint ports_eqb (a b : list port) : bool :=
  match a, b with
  | [], [] => true
  | x :: a', y :: b' => port_eqb x y && ports_eqb a' b'
  | _, _ => false
  end.
Definition alloc_eqb (x y : alloc) : bool :=
  (a_pool x =? a_pool y) && ips_eqb (a_ips x) (a_ips y) && ports_eqb (a_ports x) (a_ports y) &&
  skey_eqb (a_key x) (a_key y).

Section MapEq.
  Context {K V : Type} (keqb : K -> K -> bool) (veqb : V -> V -> bool).
  Definition sub_map (l1 l2 : list (K * V)) : bool :=
    forallb (fun e => match aget keqb (fst e) l2 with Some v => veqb (snd e) v | None => false end) l1.
  Definition map_eqb (l1 l2 : list (K * V)) : bool := sub_map l1 l2 && sub_map l2 l1.
End MapEq.

Definition drop_empty {K A} (l : list (K * list A)) : list (K * list A) :=
  filter (fun e => negb (is_nil (snd e))) l.

Definition set_eqb (a b : list svc) : bool := forallb (fun x => memN x b) a && forallb (fun x => memN x a) b.

Definition use_eqb (l1 l2 : list (poolid * list (ip * Z))) : bool :=
  map_eqb N.eqb (map_eqb ip_eqb Z.eqb) (drop_empty l1) (drop_empty l2).

Definition counters_eqb (x y : counters) : bool :=
  (c_assigned4 x =? c_assigned4 y)%Z && (c_assigned6 x =? c_assigned6 y)%Z &&
  (c_avail4 x =? c_avail4 y)%Z && (c_avail6 x =? c_avail6 y)%Z.

Definition res_ok (r : res) (o : option (list ip)) : bool :=
  match r, o with
  | ROk ips, Some ips' => ips_eqb ips ips'
  | RErr _, None => true
  | _, _ => false
  end.

Definition opt_ok {A} (f : A -> bool) (o : option A) : bool := match o with None => true | Some x => f x end.

Definition bb_ok (m : mstate) (d : mdump) (s : svc) : bool :=
  match aget N.eqb s (m_alloc m), aget N.eqb s (d_bb d) with
  | None, None => true
  | Some al, Some (pn, ips) => (a_pool al =? pn) && ips_eqb (a_ips al) ips
  | _, _ => false
  end.

(* which observable differs: 0 = none *)
Definition dump_diff (universe : list svc) (m : mstate) (d : mdump) : N :=
  if negb (opt_ok (map_eqb N.eqb alloc_eqb (m_alloc m)) (d_alloc d)) then 1
  else if negb (opt_ok (map_eqb ip_eqb skey_eqb (m_key m)) (d_key d)) then 2
  else if negb (opt_ok (fun l => map_eqb ip_eqb (map_eqb port_eqb N.eqb) (drop_empty (m_ports m)) (drop_empty l)) (d_ports d)) then 3
  else if negb (opt_ok (fun l => map_eqb ip_eqb set_eqb (drop_empty (m_svcs m)) (drop_empty l)) (d_svcs d)) then 4
  else if negb (opt_ok (use_eqb (m_use m)) (d_use d)) then 5
  else if negb (opt_ok (use_eqb (m_use4 m)) (d_use4 d)) then 6
  else if negb (opt_ok (use_eqb (m_use6 m)) (d_use6 d)) then 7
  else if negb (forallb (fun e => counters_eqb (m_counters_for m (fst e)) (snd e)) (d_counters d)) then 8
  else if negb (forallb (bb_ok m d) universe) then 9
  else if m_panic m then 10
  else 0.

Definition normalize (o : op) (ob : option (list ip)) : option (list ip) :=
  match o with OUnassign _ | OSetPools _ => Some [] | _ => ob end.

(* first disagreement: (step index, observable) *)
Fixpoint first_bad (u : list svc) (m : mstate) (steps : list (op * mobs)) (i : N) : option (N * N) :=
  match steps with
  | [] => None
  | (o, ob) :: rest =>
      let '(m', r) := m_step m o in
      if negb (res_ok r (normalize o (mo_res ob))) then Some (i, 11)
      else match dump_diff u m' (mo_dump ob) with
           | 0 => first_bad u m' rest (i + 1)
           | k => Some (i, k)
           end
  end.

Definition case_ok (c : mcase) : bool :=
  match first_bad (mc_universe c) m_init (mc_steps c) 0 with None => true | Some _ => false end.
Definition mismatches (cs : list mcase) : list N := map mc_id (filter (fun c => negb (case_ok c)) cs).
Definition where_bad (cs : list mcase) : list (N * option (N * N)) :=
  map (fun c => (mc_id c, first_bad (mc_universe c) m_init (mc_steps c) 0)) (filter (fun c => negb (case_ok c)) cs).
