(* Correspondence runner for Model/Wire.v: the harness ships the parameters it
   gave to the real sendOpen / sendUpdate / sendWithdraw / sendKeepalive with the
   bytes written (None = error returned), and the byte strings it fed to the
   real readOpen with result, error class and bytes consumed.  The model must
   produce exactly the same. *)
From Coq Require Import List NArith Bool.
From Verif Require Export Model.Wire.
Import ListNotations.
Local Open Scope N_scope.

Inductive wcase :=
| WOpen (id asn : N) (rid : list N) (hold : N) (obs : option (list N))
| WUpdate (id asn : N) (ibgp fbasn : bool) (nh : list N) (a : adv) (obs : option (list N))
| WWithdraw (id : N) (ps : list prefix) (obs : option (list N))
| WKeepalive (id : N) (obs : option (list N))
| WRead (id : N) (bs : list N) (res : rres) (consumed : N).

Fixpoint bytes_eqb (a b : list N) : bool :=
  match a, b with
  | [], [] => true
  | x :: a, y :: b => (x =? y) && bytes_eqb a b
  | _, _ => false
  end.
Definition obs_eqb (a b : option (list N)) : bool :=
  match a, b with
  | None, None => true
  | Some x, Some y => bytes_eqb x y
  | _, _ => false
  end.
Definition rerr_eqb (a b : rerr) : bool :=
  match a, b with EEof, EEof | EUnexp, EUnexp | EOther, EOther => true | _, _ => false end.
Definition res_eqb (a b : rres) : bool :=
  match a, b with
  | ROk x, ROk y => (r_asn x =? r_asn y) && (r_hold x =? r_hold y) && Bool.eqb (r_mp4 x) (r_mp4 y)
                    && Bool.eqb (r_mp6 x) (r_mp6 y) && Bool.eqb (r_fbasn x) (r_fbasn y)
  | RErr x, RErr y => rerr_eqb x y
  | _, _ => false
  end.

Definition case_id (c : wcase) : N :=
  match c with WOpen i _ _ _ _ | WUpdate i _ _ _ _ _ _ | WWithdraw i _ _ | WKeepalive i _ | WRead i _ _ _ => i end.

Definition case_ok (c : wcase) : bool :=
  match c with
  | WOpen _ asn rid hold obs => obs_eqb (enc_open asn rid hold) obs
  | WUpdate _ asn ibgp fbasn nh a obs => obs_eqb (enc_update asn ibgp fbasn nh a) obs
  | WWithdraw _ ps obs => obs_eqb (enc_withdraw ps) obs
  | WKeepalive _ obs => obs_eqb enc_keepalive obs
  | WRead _ bs res consumed => let '(r, n) := read_open bs in res_eqb r res && (n =? consumed)
  end.

Definition mismatches (cs : list wcase) : list N :=
  map case_id (filter (fun c => negb (case_ok c)) cs).
