(* Trace validation for Model/Session.v.  One case = one schedule: the session
   configuration and the totally ordered trace the harness observed.

   Observable events (the session's internal steps are not observable without
   hooks, only their effects on the peer):
     TSet l          logged immediately BEFORE Set(l) is called (Set returned nil)
     TSetRet         logged after that Set call returned
     TSetRejected    Set returned an error
     TAccept c       the peer accepted TCP connection c (before sending its OPEN)
     TOpen c asn hold   what the OPEN the session sent on c says
     TOpenSent c     the peer sends its own OPEN now (scripted delay possible)
     TKeepalive c ph a KEEPALIVE other than the accepting one
     THandshake c asn fb acc   peer presented AS [asn], 4-octet capability [fb];
                     acc = the session answered with KEEPALIVE (else it closed)
     TUpd c k v / TWdr c ks    UPDATE / withdraw decoded by the peer on c
     TDrop c         connection c ended (either side)
     TCloseRet       Close() returned
     TFinal c tbl    end of schedule: c was left alone and is stable, peer table
     TFinalClosed    end of a schedule that closed the session

   The replay checks what every trace of the model satisfies:
   * the verdict of each handshake is [hs_accept] (model's connect guard);
   * KEEPALIVEs are accepted anywhere after the OPEN exchange (only recorded);
   * every UPDATE is written with the AS width of the capability announced in
     the handshake of the connection it arrives on (C17_flush_uses_connection_capability);
   * every message is justified (Proofs/SessionP.v emitted_justified: a flush
     only sends UPDATE k v with desired k = Some v and withdraws k with
     desired k = None, k announced before) by a Set that was already called,
     with a Set index that never decreases on one connection (the sender never
     goes back to an older desired set), on an established, not yet dropped
     connection;
   * no connection is accepted after Close returned (closed_silent);
   * at the end the table of the stable connection, rebuilt from the observed
     messages, equals the table the peer reports and the last Set (converges). *)
From Coq Require Import List NArith Bool.
From Verif Require Export Model.Session.
Import ListNotations.
Local Open Scope N_scope.

Inductive tev :=
| TSet (l : list (key * attrs))
| TSetRet
| TSetRejected
| TAt (t : N)                      (* milliseconds since the start of the schedule, logged before timed events *)
| TAccept (c : N)
| TBackoff (l : list (N * N * bool * N))   (* the connection attempts in order: (id, time accepted, succeeded?, time the peer caused / answered the failure) *)
| TOpen (c asn hold : N)           (* AS number (4-octet capability) and hold time of the OPEN the session sent on c *)
| TOpenSent (c : N)                (* the peer is about to send ITS OPEN on c (it may delay it) *)
| TKeepalive (c ph : N)            (* a KEEPALIVE after the accepting one; ph = hold time the peer announced *)
| THandshake (c asn : N) (fb acc : bool)
| TUpd (c k v w : N)               (* w: width of the AS numbers in AS_PATH as written: 0 (empty path), 2, 4 *)
| TWdr (c : N) (ks : list N)
| TDrop (c : N)
| TCloseRet
| TOpenAfterClose (c : N)         (* 1.5 s after Close returned the peer still sees c open: never a model trace *)
| TFinal (c : N) (tbl : list (key * attrs))
| TFinalClosed.

(* white-box step cases: the harness builds a session value by hand (no
   goroutines), runs ONE of abort / Set / Close on it and reports the state
   before and after; the model's step must give the same state *)
Record sst := { x_closed : bool; x_conn : bool; x_adv : list (key * attrs); x_pend : option (list (key * attrs)) }.
Inductive sop := OAbort | OSet (l : list (key * attrs)) | OSetInvalid | OClose
  | OReaderDrop (current : bool)     (* consumeBGP(conn) returns; conn is / is not s.conn *)
  | OKeepalive (ok : bool).          (* s.sendKeepalive() with a working / broken connection *)

Inductive scase :=
| STrace (id : N) (g : cfg) (t : list tev)
| SBackoff (id : N) (ops : list bool) (obs : list N)   (* backoff.Duration()/Reset() sequence, observed delays in ms *)
| SStep (id : N) (g : cfg) (pre : sst) (op : sop) (post : sst).

Record cstate := { cs_id : N; cs_j : nat; cs_tbl : table; cs_live : bool;
                   cs_fb : bool }.   (* capability announced in THIS connection's handshake *)
Record rstate := { sets : list table;          (* S_0 = empty, S_1, ... in call order *)
                   nret : nat;                  (* number of Set calls that have returned *)
                   accepted : list (N * nat);   (* TAccept seen, with [nret] at that moment *)
                   now : N;                     (* last TAt *)
                   bo : N;                      (* model backoff state (bo_duration / bo_reset) *)
                   pend : option (N * N);       (* failed attempt: (time, delay slept before the next dial) *)
                   hsdone : list N;             (* connections whose handshake verdict was seen *)
                   kalast : list (N * N);       (* per connection: time of the handshake / last KEEPALIVE *)
                   late : list N;               (* connections whose peer OPEN was sent after Close had returned *)
                   conns : list cstate;         (* established connections *)
                   closedret : bool }.

Definition rstate0 : rstate := {| sets := [empty]; nret := 0; accepted := []; now := 0; bo := bo_reset; pend := None; hsdone := []; kalast := []; late := []; conns := []; closedret := false |}.

Definition find_conn (c : N) (r : rstate) : option cstate := find (fun x => cs_id x =? c) (conns r).
Definition set_conn (x : cstate) (r : rstate) : rstate :=
  {| sets := sets r; nret := nret r; accepted := accepted r; now := now r; bo := bo r; pend := pend r; hsdone := hsdone r; kalast := kalast r; late := late r;
     conns := x :: filter (fun y => negb (cs_id y =? cs_id x)) (conns r); closedret := closedret r |}.

(* timing slack (ms) granted to the peer's logging lag when checking LOWER bounds *)
Definition slack : N := 500.
(* a connect() attempt failed now: run() sleeps bo_duration before dialling again *)
Definition fail_now (r : rstate) (c : N) : rstate :=
  {| sets := sets r; nret := nret r; accepted := accepted r; now := now r; bo := snd (bo_duration (bo r));
     pend := Some (now r, fst (bo_duration (bo r))); hsdone := c :: hsdone r; kalast := kalast r;
     late := late r; conns := conns r; closedret := closedret r |}.
Definition ok_now (r : rstate) (c : N) : rstate :=
  {| sets := sets r; nret := nret r; accepted := accepted r; now := now r; bo := bo_reset;
     pend := None; hsdone := c :: hsdone r; kalast := (c, now r) :: kalast r;
     late := late r; conns := conns r; closedret := closedret r |}.

(* backoff of run() (backoff_delay_spec, backoff_reset): connection attempts are
   sequential; after a FAILED attempt -- the session fails no earlier than the peer's
   action that made it fail -- the next dial comes no earlier than the model's delay *)
Fixpoint check_backoff (b : N) (l : list (N * N * bool * N)) : bool :=
  match l with
  | [] => true
  | (_, _, true, _) :: rest => check_backoff bo_reset rest
  | (_, _, false, ref) :: rest =>
    let d := fst (bo_duration b) in
    match rest with
    | (_, a', _, _) :: _ => if a' + slack <? ref + d then false else check_backoff (snd (bo_duration b)) rest
    | [] => true
    end
  end.

(* smallest index j' >= j with [ok (nth j' sets)] *)
Fixpoint find_from (ok : table -> bool) (l : list table) (j : nat) : option nat :=
  match l with
  | [] => None
  | t :: r => if ok t then Some j else find_from ok r (S j)
  end.
Definition justify (ok : table -> bool) (r : rstate) (j : nat) : option nat :=
  find_from ok (skipn j (sets r)) j.

Definition tbl_eq_on (U : list key) (a b : table) : bool := forallb (fun k => oeqb (a k) (b k)) U.

Definition rstep (g : cfg) (r : rstate) (e : tev) : option rstate :=
  match e with
  | TSet l => if forallb (fun p => mem (fst p) (universe g)) l
              then Some {| sets := sets r ++ [map_of l]; nret := nret r; accepted := accepted r; now := now r; bo := bo r; pend := pend r; hsdone := hsdone r; kalast := kalast r; late := late r; conns := conns r; closedret := closedret r |}
              else None
  | TSetRet => Some {| sets := sets r; nret := S (nret r); accepted := accepted r; now := now r; bo := bo r; pend := pend r; hsdone := hsdone r; kalast := kalast r; late := late r; conns := conns r; closedret := closedret r |}
  | TSetRejected => Some r
  | TAt t => Some {| sets := sets r; nret := nret r; accepted := accepted r; now := t; bo := bo r; pend := pend r;
                     hsdone := hsdone r; kalast := kalast r; late := late r; conns := conns r; closedret := closedret r |}
  | TBackoff l => if check_backoff bo_reset l then Some r else None
  | TAccept c => if closedret r then None

                 else Some {| sets := sets r; nret := nret r; accepted := (c, nret r) :: accepted r; now := now r; bo := bo r; pend := None; hsdone := hsdone r; kalast := kalast r; late := late r; conns := conns r; closedret := false |}
  | TOpen c asn hold =>
    (* C17_session_open_decodes: the configured AS number and hold time (90 only for nil) *)
    if mem c (map fst (accepted r)) && (asn =? my_asn g) && (hold =? session_hold g) then Some r else None
  | TOpenSent c =>
    Some {| sets := sets r; nret := nret r; accepted := accepted r; now := now r; bo := bo r; pend := pend r;
            hsdone := hsdone r; kalast := kalast r;
            late := if closedret r then c :: late r else late r; conns := conns r; closedret := closedret r |}
  | TKeepalive c ph =>
    (* recorded only: no property of C16 / C17 restricts when a (well-formed)
       KEEPALIVE may be written; the cadence of sendKeepalives (keepalive_period) is a
       statistic of the harness, not a replay rule *)
    Some r
  | THandshake c asn fb acc =>
    match find (fun p => fst p =? c) (accepted r) with
    | None => None
    | Some (_, n0) =>
      (* the verdict may be logged after TCloseRet: connect() holds s.mu, so a dial
         accepted before Close returned completes its handshake first; only a
         TAccept after TCloseRet is a dial after Close *)
      if negb (Bool.eqb acc (hs_accept g asn fb)) then None
      (* C17_no_message_after_close: the accepting KEEPALIVE answers the peer's
         OPEN; if that OPEN was sent after Close had returned, the KEEPALIVE was
         written after Close *)
      else if acc && mem c (late r) then None
      else if acc then
        (* the first flush on c moves to a set that is at least as recent as
           (a) every Set that had returned when the dial was accepted (connect
           holds s.mu across the dial, so those Sets are in s.new/advertised) and
           (b) every set a message logged so far was justified by *)
        let j0 := fold_left Nat.max (map cs_j (conns r)) n0 in
        Some (set_conn {| cs_id := c; cs_j := j0; cs_tbl := empty; cs_live := true; cs_fb := fb |} (ok_now r c))
      else Some (fail_now r c)
    end
  | TUpd c k v w =>
    match find_conn c r with
    | Some x =>
      if negb (cs_live x) || negb (mem k (universe g)) then None
      (* C17_flush_uses_connection_capability: iBGP empty path, eBGP the width of
         the capability announced on THIS connection *)
      else if negb (w =? (if my_asn g =? peer_asn g then 0 else if cs_fb x then 4 else 2)) then None
      else match justify (fun t => oeqb (t k) (Some v)) r (cs_j x) with
           | Some j => Some (set_conn {| cs_id := c; cs_j := j; cs_tbl := upd (cs_tbl x) k (Some v); cs_live := true; cs_fb := cs_fb x |} r)
           | None => None
           end
    | None => None
    end
  | TWdr c ks =>
    match find_conn c r with
    | Some x =>
      if negb (cs_live x) || match ks with [] => true | _ => false end then None
      else if negb (forallb (fun k => is_some (cs_tbl x k)) ks) then None
      else match justify (fun t => forallb (fun k => negb (is_some (t k))) ks) r (cs_j x) with
           | Some j => Some (set_conn {| cs_id := c; cs_j := j; cs_tbl := apply_msg (cs_tbl x) (MWdr ks); cs_live := true; cs_fb := cs_fb x |} r)
           | None => None
           end
    | None => None
    end
  | TDrop c =>
    match find_conn c r with
    | Some x => Some (set_conn {| cs_id := c; cs_j := cs_j x; cs_tbl := cs_tbl x; cs_live := false; cs_fb := cs_fb x |} r)
    | None =>
      (* a connection that ends before any verdict: the dial / OPEN exchange failed *)
      if mem c (map fst (accepted r)) && negb (mem c (hsdone r)) && negb (closedret r) then Some (fail_now r c) else Some r
    end
  | TCloseRet => Some {| sets := sets r; nret := nret r; accepted := accepted r; now := now r; bo := bo r; pend := pend r; hsdone := hsdone r; kalast := kalast r; late := late r; conns := conns r; closedret := true |}
  | TFinal c tbl =>
    match find_conn c r with
    | Some x => if cs_live x && negb (closedret r)
                   && tbl_eq_on (universe g) (cs_tbl x) (map_of tbl)
                   && tbl_eq_on (universe g) (map_of tbl) (last (sets r) empty)
                then Some r else None
    | None => None
    end
  | TOpenAfterClose _ => None
  | TFinalClosed => if closedret r then Some r else None
  end.

Fixpoint replay (g : cfg) (r : rstate) (t : list tev) : bool :=
  match t with
  | [] => true
  | e :: t' => match rstep g r e with Some r' => replay g r' t' | None => false end
  end.

Definition ends_final (t : list tev) : bool :=
  match rev t with TFinal _ _ :: _ | TFinalClosed :: _ => true | _ => false end.

Definition sess_of (x : sst) : sess :=
  {| closed := x_closed x; conn := if x_conn x then Some 1 else None; synced := false;
     advertised := map_of (x_adv x);
     pending := match x_pend x with Some l => Some (map_of l) | None => None end; fbasn := false |}.
Definition sess_eq_on (U : list key) (a b : sess) : bool :=
  Bool.eqb (closed a) (closed b) && Bool.eqb (is_some (conn a)) (is_some (conn b))
  && tbl_eq_on U (advertised a) (advertised b)
  && match pending a, pending b with
     | Some x, Some y => tbl_eq_on U x y
     | None, None => true
     | _, _ => false
     end.
Definition model_op (g : cfg) (s : sess) (o : sop) : option sess :=
  let w := {| ws := s; wp := {| up := None; ptable := empty; pcap := false |}; desired := empty |} in
  match o with
  | OAbort => Some (abort s)
  | OSet l => option_map ws (step g w (ESet l))
  | OSetInvalid => option_map ws (step g w ESetRejected)
  | OClose => option_map ws (step g w EClose)
  | OReaderDrop cur => option_map ws (step g w (EReaderDrop (if cur then 1 else 2)))
  | OKeepalive true => Some s
  | OKeepalive false => match step g w EKeepaliveFail with Some w' => Some (ws w') | None => Some s end
  end.

Definition case_id (c : scase) : N := match c with STrace i _ _ | SStep i _ _ _ _ | SBackoff i _ _ => i end.
Fixpoint listN_eqb (a b : list N) : bool :=
  match a, b with [] , [] => true | x :: a, y :: b => (x =? y) && listN_eqb a b | _, _ => false end.
Definition case_ok (c : scase) : bool :=
  match c with
  | STrace _ g t => ends_final t && replay g rstate0 t
  | SBackoff _ ops obs => listN_eqb (bo_run bo_reset ops) obs
  | SStep _ g pre o post =>
    match model_op g (sess_of pre) o with
    | Some s' => sess_eq_on (universe g) s' (sess_of post)
    | None => false
    end
  end.

Definition mismatches (cs : list scase) : list N :=
  map case_id (filter (fun c => negb (case_ok c)) cs).
