(* Correspondence runner for Model/Speaker.v: a history of events on the real
   speaker controller (each followed by the re-syncs it requested); after every
   event the harness ships the announcer's contents, the last Set of every
   live BGP session and the controller's announced[] maps. *)
From Coq Require Import List NArith Bool.
From Verif Require Export Model.Speaker Corr.Run_BgpAds.
Import ListNotations.
Local Open Scope N_scope.

Definition l2ent_eqb (a b : l2ent) : bool :=
  ip_eqb (le_ip a) (le_ip b) && Bool.eqb (le_all a) (le_all b) && set_eqN (le_ifs a) (le_ifs b).
Definition subset_l2 (a b : list l2ent) : bool := forallb (fun x => existsb (l2ent_eqb x) b) a.
Definition set_eq_l2 (a b : list l2ent) : bool := subset_l2 a b && subset_l2 b a.

Record sobs := mk_sobs { so_l2 : list (N * option (list l2ent));
                         so_sess : list (N * option (list adv));
                         so_annb : list (N * bool); so_annl : list (N * bool) }.
Record scase := mk_scase { sc_id : N; sc_ignore : bool; sc_ifs : list N;
                           sc_hash : list (ip * list (N * N));
                           sc_spk : option (list N); sc_evs : list (sev * sobs) }.

Definition hash_of (tbl : list (ip * list (N * N))) (x : ip) (n : N) : N :=
  match find (fun p => ip_eqb (fst p) x) tbl with
  | Some p => match find (fun q => fst q =? n) (snd p) with Some q => snd q | None => 0 end
  | None => 0
  end.

Definition sobs_ok (st : sstate) (o : sobs) : bool :=
  forallb (fun x => match s_l2 st (fst x), snd x with
                    | Some l, Some l' => set_eq_l2 l l'
                    | None, None => true
                    | _, _ => false
                    end) (so_l2 o) &&
  forallb (fun x => match sess_of (s_bgp st) (fst x), snd x with
                    | Some l, Some l' => set_eq_ads l l'
                    | None, None => true
                    | _, _ => false
                    end) (so_sess o) &&
  forallb (fun x => Bool.eqb (s_annb st (fst x)) (snd x)) (so_annb o) &&
  forallb (fun x => Bool.eqb (s_annl st (fst x)) (snd x)) (so_annl o).

Fixpoint srun_ok (ev : env) (ws : cluster * sstate) (evs : list (sev * sobs)) : bool :=
  match evs with
  | [] => true
  | (e, o) :: r => let ws' := sstep ev ws e in sobs_ok (snd ws') o && srun_ok ev ws' r
  end.
Definition scase_ok (c : scase) : bool :=
  let ev := {| en_me := 0; en_ignore := sc_ignore c; en_ifs := sc_ifs c; en_hash := hash_of (sc_hash c) |} in
  srun_ok ev ([], sinit (sc_spk c)) (sc_evs c).
Definition mismatches_spk (cs : list scase) : list N := map sc_id (filter (fun c => negb (scase_ok c)) cs).
