(* Correspondence runner for Model/FrrRender.v + FrrSem.v (C14).
   Per case: the session set [fc_S] (in some order), the same set permuted
   [fc_Sperm] (sessions and each advertisement list), the AST parsed from the
   text the real createConfig+templateConfig produced ([fc_obs]; None = error),
   probe routes, and the verdicts of the Python port of the semantics.
   Returned codes: 10*id + k,
     k=1 render S <> observed AST          k=2 render (permuted S) <> render S
     k=3 Coq's sem_out on the OBSERVED AST <> intended (some neighbor, route, ft, um; F15 shape skipped)
     k=4 observed AST references an undefined list   k=5 sequence numbers not increasing
     k=6 Python port of sem_out <> Coq's sem_out on the observed AST
     k=7 observed AST accepts an inbound route       k=8 originated networks <> requested
     k=9 (informational, not a mismatch) the generated session set or a probe route is outside the premises
         wf_sessions / route_ok of C14_frr_out_exact or canonical_texts of C14_text_match_is_binary_match *)
From Coq Require Import List NArith Bool String.
From Verif Require Export Model.FrrSpec.
Import ListNotations.
Open Scope string_scope.

Record fcase := mk_fcase {
  fc_id : N; fc_S : list session; fc_Sperm : list session; fc_obs : option frr;
  fc_routes : list pfx;
  fc_py : list (N * pfx * list (option attrs))   (* session index, route, results for (ft,um) = ff ft tf tt *)
}.

Definition combos : list (bool * bool) := [(false, false); (false, true); (true, false); (true, true)].


Definition sem_vs_intended (c : frr) (S : list session) (routes : list pfx) : bool :=
  forallb (fun s =>
    f15_shape s ||
    forallb (fun r =>
      forallb (fun fu => attrs_equiv_b (sem_out (fst fu) (snd fu) c (s_vrf s) (peer_tok s) r) (intended s r)) combos)
      routes) S.

Definition in_denied (c : frr) (S : list session) (routes : list pfx) : bool :=
  forallb (fun s => forallb (fun r => forallb (fun fu => negb (sem_in (fst fu) (snd fu) c (s_vrf s) (peer_tok s) r)) combos) routes) S.

Definition mem_pfx (p : pfx) (l : list pfx) : bool := existsb (pfx_eqb p) l.

Definition networks_exact (c : frr) (S : list session) : bool :=
  forallb (fun s =>
    forallb (fun a =>
      let want := map a_pfx (advs_afi a (flat_map s_advs (filter (fun t => String.eqb (s_vrf t) (s_vrf s)) S))) in
      let got := sem_networks c (s_vrf s) a in
      forallb (fun p => mem_pfx p got) want && forallb (fun p => mem_pfx p want) got) [A4; A6]) S.

Definition attrs_eqb (x y : option attrs) : bool :=
  match x, y with
  | None, None => true
  | Some a, Some b => opt_eqb N.eqb (at_lp a) (at_lp b) && list_eqb String.eqb (at_comm a) (at_comm b) &&
                      list_eqb String.eqb (at_lcomm a) (at_lcomm b)
  | _, _ => false
  end.

Definition py_agrees (c : frr) (S : list session) (py : list (N * pfx * list (option attrs))) : bool :=
  forallb (fun x =>
    let '(i, r, res) := x in
    match nth_error S (N.to_nat i) with
    | None => false
    | Some s => list_eqb attrs_eqb (map (fun fu => sem_out (fst fu) (snd fu) c (s_vrf s) (peer_tok s) r) combos) res
    end) py.

Definition codes (c : fcase) : list N :=
  let r := render (fc_S c) in
  let k (b : bool) (n : N) := if b then [] else [(10 * fc_id c + n)%N] in
  k (opt_eqb frr_eqb r (fc_obs c)) 1%N ++
  k (opt_eqb frr_eqb (render (fc_Sperm c)) r) 2%N ++
  k (wf_sessions_b (fc_S c) && forallb (route_ok_b (fc_S c)) (fc_routes c) && forallb (canonical_texts_b (fc_S c)) (fc_routes c)) 9%N ++
  match fc_obs c with
  | None => []
  | Some o =>
      k (sem_vs_intended o (fc_S c) (fc_routes c)) 3%N ++
      k (lists_defined_b o) 4%N ++ k (seqs_increasing_b o) 5%N ++
      k (py_agrees o (fc_S c) (fc_py c)) 6%N ++
      k (in_denied o (fc_S c) (fc_routes c)) 7%N ++
      k (networks_exact o (fc_S c)) 8%N
  end.

Definition mismatches (cs : list fcase) : list N := flat_map codes cs.
