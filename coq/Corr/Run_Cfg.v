(* Correspondence runner for Model/Cfg.v.  The harnesses ship
     CFor      snapshot, projection of config.For's result (None = error)
     CToConfig snapshot, projection of toConfig's result
     CSorted   names given to sortedCopy, names it returned
     CParse    one address entry, what config.ParseCIDR returned
     COverlap  two parsed prefixes, cidrsOverlap's verdict
   and the model must compute the same.  p_per_addr (an unexported Go field) is not compared. *)
From Coq Require Import List NArith Bool.
From Verif Require Export Model.Cfg Model.CfgFull.
Import ListNotations.
Local Open Scope N_scope.

Inductive ccase :=
| CFor (id : N) (r : resources) (res : option pools_out)
| CToConfig (id : N) (r : resources) (res : option pools_out)
| CSorted (id : N) (inp out : list N)
| CParse (id : N) (a : addr) (res : option (list prefix))
| COverlap (id : N) (a b : prefix) (res : bool)
| CFull (id : N) (m : vmode) (fr : fresources) (res : option fconfig)        (* toConfig, whole Config *)
| CFullFor (id : N) (m : vmode) (fr : fresources) (res : option fconfig).    (* config.For, whole Config *)

Definition case_id (c : ccase) : N :=
  match c with CFor i _ _ | CToConfig i _ _ | CSorted i _ _ | CParse i _ _ | COverlap i _ _ _ | CFull i _ _ _ | CFullFor i _ _ _ => i end.

Definition id_iter (l : list pool) : list pool := l.

Definition case_ok (c : ccase) : bool :=
  match c with
  | CFor _ r res => opt_eqb out_eqb (pools_for id_iter r) res
  | CToConfig _ r res => opt_eqb out_eqb (to_config ksorter (pools_for id_iter) r) res
  | CSorted _ i o => lN_eqb (sortN i) o
  | CParse _ a res => opt_eqb (list_eqb prefix_eqb) (parse_addr a) res
  | COverlap _ a b res => Bool.eqb (overlap a b) res
  | CFull _ m fr res => opt_eqb fconfig_eqb (full_to_config ksorter id_iter m fr) res
  | CFullFor _ m fr res => opt_eqb fconfig_eqb (full_for id_iter m fr) res
  end.

Definition mismatches (cs : list ccase) : list N := map case_id (filter (fun c => negb (case_ok c)) cs).
