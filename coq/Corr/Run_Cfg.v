(* Correspondence runner for Model/Cfg.v.  The harnesses ship
     CFor      snapshot, projection of config.For's result (None = error)
     CToConfig snapshot, projection of toConfig's result
     CSorted   names given to sortedCopy, names it returned
     CParse    one address entry, what config.ParseCIDR returned
     COverlap  two parsed prefixes, cidrsOverlap's verdict
   and the model must compute the same.  p_per_addr (an unexported Go field) is not compared. *)
From Coq Require Import List NArith Bool.
From Verif Require Export Model.Cfg Model.CfgFull.
Import ListNotations.
Local Open Scope N_scope.

Inductive ccase :=
| CFor (id : N) (r : resources) (res : option pools_out)
| CToConfig (id : N) (r : resources) (res : option pools_out)
| CSorted (id : N) (inp out : list N)
| CParse (id : N) (a : addr) (res : option (list prefix))
| COverlap (id : N) (a b : prefix) (res : bool)
| CFull (id : N) (m : vmode) (fr : fresources) (res : option fconfig)        (* toConfig, whole Config *)
| CFullFor (id : N) (m : vmode) (fr : fresources) (res : option fconfig).    (* config.For, whole Config *)

Definition case_id (c : ccase) : N :=
  match c with CFor i _ _ | CToConfig i _ _ | CSorted i _ _ | CParse i _ _ | COverlap i _ _ _ | CFull i _ _ _ | CFullFor i _ _ _ => i end.

Definition lN_eqb := list_eqb N.eqb.
Definition opt_eqb {A} (e : A -> A -> bool) (a b : option A) : bool :=
  match a, b with Some x, Some y => e x y | None, None => true | _, _ => false end.
Definition bgpadv_eqb (a b : bgpadv) : bool :=
  (ba_name a =? ba_name b) && (ba_agg4 a =? ba_agg4 b) && (ba_agg6 a =? ba_agg6 b) &&
  (ba_lp a =? ba_lp b) && lN_eqb (ba_comms a) (ba_comms b) && lN_eqb (ba_nodes a) (ba_nodes b) &&
  lN_eqb (ba_peers a) (ba_peers b).
Definition l2adv_same (a b : l2adv) : bool :=
  Bool.eqb (la_all a) (la_all b) && lN_eqb (la_nodes a) (la_nodes b) && lN_eqb (la_ifaces a) (la_ifaces b).
Definition salloc_eqb (a b : salloc) : bool :=
  (sa_prio a =? sa_prio b) && lN_eqb (sa_nss a) (sa_nss b) && (sa_nsel a =? sa_nsel b).
Definition pool_eqb (a b : pool) : bool :=
  (p_name a =? p_name b) && list_eqb prefix_eqb (p_cidrs a) (p_cidrs b) &&
  Bool.eqb (p_avoid a) (p_avoid b) && Bool.eqb (p_auto a) (p_auto b) &&
  list_eqb bgpadv_eqb (p_bgp a) (p_bgp b) && list_eqb l2adv_same (p_l2 a) (p_l2 b) &&
  opt_eqb salloc_eqb (p_alloc a) (p_alloc b).
Definition out_eqb (a b : pools_out) : bool :=
  list_eqb pool_eqb (po_pools a) (po_pools b) &&
  list_eqb (fun x y => (fst x =? fst y) && lN_eqb (snd x) (snd y)) (po_byns a) (po_byns b) &&
  lN_eqb (po_bysel a) (po_bysel b).

Definition id_iter (l : list pool) : list pool := l.
Definition bfd_eqb (a b : bfd) : bool :=
  (b_name a =? b_name b) && oN_eqb (b_rx a) (b_rx b) && oN_eqb (b_tx a) (b_tx b) && oN_eqb (b_detect a) (b_detect b) &&
  oN_eqb (b_echoint a) (b_echoint b) && oN_eqb (b_minttl a) (b_minttl b) && Bool.eqb (b_echo a) (b_echo b) &&
  Bool.eqb (b_passive a) (b_passive b).
Definition fconfig_eqb (a b : fconfig) : bool :=
  out_eqb (fc_pools a) (fc_pools b) && list_eqb peer_eqb (fc_peers a) (fc_peers b) &&
  list_eqb bfd_eqb (fc_bfds a) (fc_bfds b) && (fc_extras a =? fc_extras b).

Definition case_ok (c : ccase) : bool :=
  match c with
  | CFor _ r res => opt_eqb out_eqb (pools_for id_iter r) res
  | CToConfig _ r res => opt_eqb out_eqb (to_config ksorter (pools_for id_iter) r) res
  | CSorted _ i o => lN_eqb (sortN i) o
  | CParse _ a res => opt_eqb (list_eqb prefix_eqb) (parse_addr a) res
  | COverlap _ a b res => Bool.eqb (overlap a b) res
  | CFull _ m fr res => opt_eqb fconfig_eqb (full_to_config ksorter id_iter m fr) res
  | CFullFor _ m fr res => opt_eqb fconfig_eqb (full_for id_iter m fr) res
  end.

Definition mismatches (cs : list ccase) : list N := map case_id (filter (fun c => negb (case_ok c)) cs).
