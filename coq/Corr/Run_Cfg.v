(* Correspondence runner for Model/Cfg.v.  The harnesses ship
     CFor      snapshot, projection of config.For's result (None = error)
     CToConfig snapshot, projection of toConfig's result
     CSorted   names given to sortedCopy, names it returned
     CParse    one address entry, what config.ParseCIDR returned
     COverlap  two parsed prefixes, cidrsOverlap's verdict
   and the model must compute the same.  p_per_addr (an unexported Go field) is not compared. *)
From Coq Require Import List NArith Bool.
From Verif Require Export Model.Cfg Model.CfgFull.
Import ListNotations.
Local Open Scope N_scope.

Inductive ccase :=
| CFor (id : N) (r : resources) (res : option pools_out)
| CToConfig (id : N) (r : resources) (res : option pools_out)
| CSorted (id : N) (inp out : list N)
| CParse (id : N) (a : addr) (res : option (list prefix))
| COverlap (id : N) (a b : prefix) (res : bool)
| CFull (id : N) (m : vmode) (fr : fresources) (res : option fconfig)        (* toConfig, whole Config *)
| CFullFor (id : N) (m : vmode) (fr : fresources) (res : option fconfig).    (* config.For, whole Config *)

Definition case_id (c : ccase) : N :=
  match c with CFor i _ _ | CToConfig i _ _ | CSorted i _ _ | CParse i _ _ | COverlap i _ _ _ | CFull i _ _ _ | CFullFor i _ _ _ => i end.

Definition id_iter (l : list pool) : list pool := l.

(* ---- the comparison of the model's result with the implementation's.  Exact (Model/CfgFull.v
   *_eqb) wherever a property or a consumer depends on the order; fields that every consumer
   treats as a SET / an any-match list are compared up to order (and repetition for the two name
   sets), so that a change of their in-memory order is not reported:
     BGPAdvertisement.Peers          set of peer names      (slices.Contains only)
     L2Advertisement.Interfaces      set of interface names (containsAdvertisement and the speaker use sets)
     Pool.L2Advertisements           any-match list (poolMatchesNodeL2, interface union); up to order
     ServiceAllocation.ServiceSelectors, Peer.NodeSelectors   any-match lists; up to order
   Kept exact: Pool.CIDR order (first-fit allocation order, PoolForIP), Pool.BGPAdvertisements
   order (order in which routes are built / merged), ByNamespace lists and ByServiceSelector
   (C18: part of the value; the allocator's candidate order), every map (already canonical). *)
Fixpoint remove_first {A} (e : A -> A -> bool) (x : A) (l : list A) : option (list A) :=
  match l with
  | [] => None
  | y :: r => if e x y then Some r else match remove_first e x r with Some r' => Some (y :: r') | None => None end
  end.
Fixpoint perm_eqb {A} (e : A -> A -> bool) (a b : list A) : bool :=
  match a with
  | [] => match b with [] => true | _ => false end
  | x :: a' => match remove_first e x b with Some b' => perm_eqb e a' b' | None => false end
  end.
Definition bgpadv_obs (a b : bgpadv) : bool :=
  (ba_name a =? ba_name b)%N && (ba_agg4 a =? ba_agg4 b)%N && (ba_agg6 a =? ba_agg6 b)%N &&
  (ba_lp a =? ba_lp b)%N && lN_eqb (ba_comms a) (ba_comms b) && lN_eqb (ba_nodes a) (ba_nodes b) &&
  lN_eqb (setN (ba_peers a)) (setN (ba_peers b)).
Definition l2adv_obs (a b : l2adv) : bool :=
  Bool.eqb (la_all a) (la_all b) && lN_eqb (la_nodes a) (la_nodes b) && lN_eqb (setN (la_ifaces a)) (setN (la_ifaces b)).
Definition salloc_obs (a b : salloc) : bool :=
  (sa_prio a =? sa_prio b)%N && lN_eqb (sa_nss a) (sa_nss b) && perm_eqb sel_eqb (sa_sels a) (sa_sels b).
Definition pool_obs (a b : pool) : bool :=
  (p_name a =? p_name b)%N && list_eqb prefix_eqb (p_cidrs a) (p_cidrs b) &&
  Bool.eqb (p_avoid a) (p_avoid b) && Bool.eqb (p_auto a) (p_auto b) &&
  list_eqb bgpadv_obs (p_bgp a) (p_bgp b) && perm_eqb l2adv_obs (p_l2 a) (p_l2 b) &&
  opt_eqb salloc_obs (p_alloc a) (p_alloc b).
Definition out_obs (a b : pools_out) : bool :=
  list_eqb pool_obs (po_pools a) (po_pools b) &&
  list_eqb (fun x y => (fst x =? fst y)%N && lN_eqb (snd x) (snd y)) (po_byns a) (po_byns b) &&
  lN_eqb (po_bysel a) (po_bysel b).
Definition peer_obs (a b : peer) : bool :=
  peer_eqb {| p_pname := p_pname a; p_myasn := p_myasn a; p_asn := p_asn a; p_dyn := p_dyn a; p_addr := p_addr a;
              p_iface := p_iface a; p_src := p_src a; p_port := p_port a; p_hold := p_hold a; p_keep := p_keep a;
              p_connect := p_connect a; p_router := p_router a; p_nsels := []; p_password := p_password a;
              p_secretpw := p_secretpw a; p_pwref := p_pwref a; p_bfd := p_bfd a; p_graceful := p_graceful a;
              p_multihop := p_multihop a; p_vrf := p_vrf a; p_disablemp := p_disablemp a |}
           {| p_pname := p_pname b; p_myasn := p_myasn b; p_asn := p_asn b; p_dyn := p_dyn b; p_addr := p_addr b;
              p_iface := p_iface b; p_src := p_src b; p_port := p_port b; p_hold := p_hold b; p_keep := p_keep b;
              p_connect := p_connect b; p_router := p_router b; p_nsels := []; p_password := p_password b;
              p_secretpw := p_secretpw b; p_pwref := p_pwref b; p_bfd := p_bfd b; p_graceful := p_graceful b;
              p_multihop := p_multihop b; p_vrf := p_vrf b; p_disablemp := p_disablemp b |} &&
  perm_eqb sel_eqb (p_nsels a) (p_nsels b).
Definition fconfig_obs (a b : fconfig) : bool :=
  out_obs (fc_pools a) (fc_pools b) && list_eqb peer_obs (fc_peers a) (fc_peers b) &&
  list_eqb bfd_eqb (fc_bfds a) (fc_bfds b) && (fc_extras a =? fc_extras b)%N.

Definition case_ok (c : ccase) : bool :=
  match c with
  | CFor _ r res => opt_eqb out_obs (pools_for id_iter r) res
  | CToConfig _ r res => opt_eqb out_obs (to_config ksorter (pools_for id_iter) r) res
  | CSorted _ i o => lN_eqb (sortN i) o
  | CParse _ a res => opt_eqb (list_eqb prefix_eqb) (parse_addr a) res
  | COverlap _ a b res => Bool.eqb (overlap a b) res
  | CFull _ m fr res => opt_eqb fconfig_obs (full_to_config ksorter id_iter m fr) res
  | CFullFor _ m fr res => opt_eqb fconfig_obs (full_for id_iter m fr) res
  end.

Definition mismatches (cs : list ccase) : list N := map case_id (filter (fun c => negb (case_ok c)) cs).
