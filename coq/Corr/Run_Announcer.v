(* Correspondence runner for Model/Announcer.v.
   [acase]: a history driven through the real Announce; after every update the
   harness ships what it observed (answer matrix, reference counts, group
   counters, what gratuitous sent, ARP packets through the real responder);
   the model must observe the same.
   [tcase]: a concurrent run; every answer carries the window [lo, hi] of
   update counts that may have preceded it; some prefix in the window must
   explain it (trace validation against C13_rw_serial_by_definition). *)
From Coq Require Import List NArith ZArith Bool.
From Verif Require Export Model.Announcer Model.AnnouncerExt Model.AnnouncerJoin.
Import ListNotations.

Inductive obs :=
  | OShould (i : ip) (intf : N) (d : drop)
  | ORc (i : ip) (c : Z)
  | OGrp (intf g : N) (c : Z)
  | OMem (intf g : N) (c : Z)   (* sockets of the responder on intf joined to group g (kernel) *)
  | OMemSum (g : N) (c : Z)     (* sockets joined to group g (kernel), summed over the NDP responders *)
  | OGrat (a : adv) (sent : list (bool * N))
  | OGratN (a : adv) (n : N)
  | OName (n : N) (b : bool)
  | OArp (intf mac op dst tha : N) (t : ip) (d : drop) (replied : bool)   (* dst: ETHERNET destination; tha: ARP payload field *)
  | ONdp (intf : N) (is_ns has_ll : bool) (t : ip) (d : drop)
  | OArpBad (intf : N) (d : drop) (replied : bool).   (* a frame the parsers reject, through the real read path *)

Definition bn_eqb (a b : bool * N) : bool := Bool.eqb (fst a) (fst b) && N.eqb (snd a) (snd b).
Definition subset (l l' : list (bool * N)) : bool := forallb (fun x => existsb (bn_eqb x) l') l.

Definition obs_ok (s : st) (o : obs) : bool :=
  match o with
  | OShould i intf d => drop_eqb (should_announce s i intf) d
  | ORc i c => Z.eqb (rc s i) c
  | OGrp intf g c => Z.eqb (grp s intf g) c
  | OMem intf g c => Z.eqb (mem s intf g) c
  | OMemSum g c => Z.eqb (fold_left (fun acc i => (acc + mem s i g)%Z) (ndps s) 0%Z) c
  | OGrat a sent => let m := gratuitous s a in
                    subset m sent && subset sent m && Nat.eqb (length m) (length sent)
  | OGratN a n => N.eqb (N.of_nat (length (gratuitous s a))) n
  | OName n b => Bool.eqb (announce_name s n) b
  | OArp intf mac op dst tha t d replied =>
      (* any label among the applicable reasons; answered iff there is none (C13_arp_label_free) *)
      let f := mk_arp_frame dst op tha t in
      admissible (arp_reasons s intf mac (f_op f) (f_eth_dst f) (f_target f)) d && Bool.eqb replied (drop_eqb d DNone)
  | ONdp intf ns ll t d => admissible (ndp_reasons s intf ns ll t) d
  | OArpBad intf d replied =>
      (* dropped, not answered, and NOT reported as "socket closed" (run() would exit); the label is free otherwise *)
      negb (drop_eqb d DClosed) && negb (drop_eqb d DNone) && negb replied
  end.

Record acase := mk_acase { c_id : N; c_arps : list N; c_ndps : list N;
                           c_steps : list (upd * list obs) }.

Fixpoint steps_ok (s : st) (l : list (upd * list obs)) : bool :=
  match l with
  | [] => true
  | (u, os) :: r => let s' := apply_upd s u in forallb (obs_ok s') os && steps_ok s' r
  end.

Definition case_ok (c : acase) : bool := steps_ok (init (c_arps c) (c_ndps c)) (c_steps c).

Definition mismatches (cs : list acase) : list N :=
  map c_id (filter (fun c => negb (case_ok c)) cs).

(* ---- concurrent traces ---- *)
Definition answer_eqb (a b : answer) : bool :=
  match a, b with
  | ADrop d, ADrop d' => drop_eqb d d'
  | ASent l, ASent l' => subset l l' && subset l' l && Nat.eqb (length l) (length l')
  | ABool x, ABool y => Bool.eqb x y
  | _, _ => false
  end.

Record treq := mk_treq { t_q : query; t_ans : answer; t_lo : nat; t_hi : nat }.
Record tcase := mk_tcase { tc_id : N; tc_arps : list N; tc_ndps : list N;
                           tc_upds : list upd; tc_reqs : list treq }.

(* states after 0, 1, ..., n updates *)
Fixpoint states (s : st) (us : list upd) : list st :=
  s :: match us with [] => [] | u :: r => states (apply_upd s u) r end.

(* a responder's drop label: any admissible one; everything else: the model's answer *)
Definition answer_ok (s : st) (q : query) (a : answer) : bool :=
  match q, a with
  | QArp intf mac op dst t, ADrop d => admissible (arp_reasons s intf mac op dst t) d
  | QNdp intf ns ll t, ADrop d => admissible (ndp_reasons s intf ns ll t) d
  | _, _ => answer_eqb (ask s q) a
  end.
Definition explained (sts : list st) (r : treq) : bool :=
  existsb (fun s => answer_ok s (t_q r) (t_ans r))
          (firstn (t_hi r - t_lo r + 1) (skipn (t_lo r) sts)).

Definition tcase_ok (c : tcase) : bool :=
  let sts := states (init (tc_arps c) (tc_ndps c)) (tc_upds c) in
  forallb (explained sts) (tc_reqs c).

Definition tmismatches (cs : list tcase) : list N :=
  map tc_id (filter (fun c => negb (tcase_ok c)) cs).

(* ---- histories with interface rescans (the REAL updateInterfaces on veth interfaces) ---- *)
Inductive cev := CSet (name : N) (a : adv) | CDel (name : N) | CRescan (ar nd : list N).
Record xcase := mk_xcase { xc_id : N; xc_steps : list (cev * list obs) }.
Definition apply_cev (s : st) (e : cev) : st :=
  match e with
  | CSet n a => set_balancer n a s
  | CDel n => delete_balancer n s
  | CRescan ar nd => rescan ar nd s
  end.
Fixpoint xsteps_ok (s : st) (l : list (cev * list obs)) : bool :=
  match l with
  | [] => true
  | (e, os) :: r => let s' := apply_cev s e in forallb (obs_ok s') os && xsteps_ok s' r
  end.
Definition xmismatches (cs : list xcase) : list N :=
  map xc_id (filter (fun c => negb (xsteps_ok (init [] []) (xc_steps c))) cs).

(* ---- histories with failing multicast joins (real responders in a private network namespace) ---- *)
Record jcase := mk_jcase { jc_id : N; jc_ndps : list N; jc_steps : list (updj * list obs) }.
Fixpoint jsteps_ok (s : st) (l : list (updj * list obs)) : bool :=
  match l with
  | [] => true
  | (u, os) :: r => let s' := apply_updj s u in forallb (obs_ok s') os && jsteps_ok s' r
  end.
Definition jmismatches (cs : list jcase) : list N :=
  map jc_id (filter (fun c => negb (jsteps_ok (init (jc_ndps c) (jc_ndps c)) (jc_steps c))) cs).
