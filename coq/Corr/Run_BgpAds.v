(* Correspondence runner for Model/BgpAds.v.
   (1) ecase10 (C10): one endpoint layout + advertisement node lists, with the
       verdict of the real ShouldAnnounce for a list of (node flags, ignore,
       policy) combinations.
   (2) bcase (C05): a history of events on the real bgpController with, after
       every event, the observed last Set of every live session (as a
       duplicate-free list), and PeersForService for the listed services. *)
From Coq Require Import List NArith Bool.
From Verif Require Export Model.BgpAds.
Import ListNotations.
Local Open Scope N_scope.

Record flags10 := mk_f10 { f_node : option (bool * bool); f_ignore : bool; f_local : bool; f_obs : breason }.
Record ecase10 := mk_ecase10 { e_id : N; e_me : N; e_advs : list (list N); e_eps : list (list bep); e_obs : list flags10 }.

(* the DECISION must agree; the reported reason must be one whose condition holds (any of them) *)
Definition case10_ok (c : ecase10) : bool :=
  forallb (fun f =>
     let v := {| bv_advs := e_advs c; bv_node := f_node f; bv_ignore := f_ignore f; bv_local := f_local f; bv_eps := e_eps c |} in
     Bool.eqb (breason_eqb (bgp_decide (e_me c) v) RAnnounce) (breason_eqb (f_obs f) RAnnounce) &&
     reason_applies (e_me c) v (f_obs f)) (e_obs c).
Definition mismatches10 (cs : list ecase10) : list N := map e_id (filter (fun c => negb (case10_ok c)) cs).

(* ---- C05 ---- *)
Definition subsetN (a b : list N) : bool := forallb (fun x => existsb (N.eqb x) b) a.
Definition set_eqN (a b : list N) : bool := subsetN a b && subsetN b a.
(* the peers an advertisement names are a SET (order and storage are representation choices); communities are sorted by the code *)
Definition adv_same (a b : adv) : bool :=
  prefix_eqb (ad_pfx a) (ad_pfx b) && (ad_lp a =? ad_lp b) && listN_eqb (ad_comms a) (ad_comms b) && set_eqN (ad_peers a) (ad_peers b).
Definition subset_ads (a b : list adv) : bool := forallb (fun x => existsb (adv_same x) b) a.
Definition set_eq_ads (a b : list adv) : bool := subset_ads a b && subset_ads b a.

(* observation after one event: sessions (peer name, ads) of the live sessions; PeersForService per service *)
(* o_made: for every live session, (attribute, secret reference) of the arguments it was created with *)
Record bobs := mk_bobs { o_sess : list (N * list adv); o_peers : list (N * list N); o_made : list (N * (N * N)) }.
Record bcase := mk_bcase { b_id : N; b_me : N; b_pnames : list N; b_evs : list (bev * bobs) }.

Definition sess_ok (st : bstate) (pnames : list N) (o : bobs) : bool :=
  forallb (fun p => match sess_of st p, find (fun x => fst x =? p) (o_sess o) with
                    | Some l, Some (_, l') => set_eq_ads l l'
                    | None, None => true
                    | _, _ => false
                    end) pnames.
Definition peers_ok (st : bstate) (o : bobs) : bool :=
  forallb (fun x => set_eqN (bs_active st (fst x)) (snd x)) (o_peers o).

Definition made_obs_ok (st : bstate) (o : bobs) : bool :=
  forallb (fun x => match find (fun q => pc_name (ps_cfg q) =? fst x) (bs_peers st) with
                    | Some q => match ps_sess q, ps_made q with
                                | Some _, Some c => (pc_attr c =? fst (snd x)) && (pc_ref c =? snd (snd x))
                                | _, _ => false
                                end
                    | None => false
                    end) (o_made o).

Fixpoint brun_ok (cr : bool) (me : N) (pnames : list N) (st : bstate) (evs : list (bev * bobs)) : bool :=
  match evs with
  | [] => true
  | (e, o) :: r => let st' := bstep_gen cr me st e in
                   sess_ok st' pnames o && peers_ok st' o && made_obs_ok st' o && brun_ok cr me pnames st' r
  end.
Definition bcase_ok (cr : bool) (c : bcase) : bool := brun_ok cr (b_me c) (b_pnames c) binit (b_evs c).
Definition mismatches (cs : list bcase) : list N := map b_id (filter (fun c => negb (bcase_ok true c)) cs).
(* the model of the code before the F12 fix (development aid / regression of the model) *)
Definition mismatches_prefix (cs : list bcase) : list N := map b_id (filter (fun c => negb (bcase_ok false c)) cs).
