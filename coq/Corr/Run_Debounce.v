(* Correspondence runner for Model/Debounce.v: trace validation.

   The harness runs the REAL debouncers against serialised submitters and logs,
   under one mutex, for the FRR debouncer
     TS c / TR     a submitter is about to send {config: c} / {useOld: true}
     TD            that send has returned
     TB c ok       the reload action was entered with configuration c and will return ok
     TQ            quiet period over (no activity for many intervals)
   and for the frr-k8s debouncer  KS / KD (notification about to be sent / sent),
   KO (event received from `out`), KQ.
   The receive of a submission by the loop happens somewhere between TS and TD
   (its linearisation point); the validator tries every placement (angelic
   simulation with a set of states).  For the frr-k8s variant the emitted event
   is logged by the receiver after the loop has already moved on, so a fire may
   also be still unlogged ([u] below).
   A trace is accepted iff some placement makes it a run of the model, every TB
   carries exactly the model's stored configuration (= the most recently
   submitted one, C19_config_is_latest), and at TQ the model has timer off and
   applied = config. *)
From Coq Require Import List NArith Bool.
From Verif Require Export Model.Debounce.
Import ListNotations.

Inductive titem := TS (c : cfg) | TR | TD | TB (c : option cfg) (ok : bool) | TQ.
Inductive pend := PNone | PLin | PWait (e : ev).

Definition fire_chk (s : st) (p : pend) (c : option cfg) (ok : bool) : list (st * pend) :=
  if ocfg_eqb (config s) c then
    match step s (Fire ok) with Some s' => [(s', p)] | None => [] end
  else [].

Definition sim1 (x : st * pend) (t : titem) : list (st * pend) :=
  let (s, p) := x in
  match t with
  | TS c => match p with PNone => [(s, PWait (Submit c))] | _ => [] end
  | TR => match p with PNone => [(s, PWait ReapplyOld)] | _ => [] end
  | TD => match p with
          | PNone => []
          | PLin => [(s, PNone)]
          | PWait e => match step s e with Some s' => [(s', PNone)] | None => [] end
          end
  | TB c ok =>
      fire_chk s p c ok ++
      match p with
      | PWait e => match step s e with Some s' => fire_chk s' PLin c ok | None => [] end
      | _ => []
      end
  | TQ => match p with
          | PNone => if negb (timer s) && ocfg_eqb (applied s) (config s) then [(s, p)] else []
          | _ => []
          end
  end.

Fixpoint sim (xs : list (st * pend)) (tr : list titem) : list (st * pend) :=
  match tr with
  | [] => xs
  | t :: tr' => sim (flat_map (fun x => sim1 x t) xs) tr'
  end.

Definition trace_ok (tr : list titem) : bool :=
  match sim [(init, PNone)] tr with [] => false | _ => true end.

(* ---- frr-k8s variant ---- *)
Inductive kitem := KS | KD | KO | KQ.
Inductive kpend := KPNone | KPLin | KPWait.

Definition kx := (kst * kpend * bool)%type.

Definition kfired (s : kst) : kst := mk_k false false (N.succ (k_out s)).

Definition kclos (x : kx) : list kx :=
  let '(s, p, u) := x in
  x :: (if k_timer s && negb u then [(kfired s, p, true)] else [])
    ++ (match p with
        | KPWait => if negb u then [(kfired (mk_k true true (k_out s)), KPLin, true)] else []
        | _ => []
        end).

Definition ksim1 (x : kx) (t : kitem) : list kx :=
  let '(s, p, u) := x in
  match t with
  | KS => match p with KPNone => [(s, KPWait, u)] | _ => [] end
  | KD => match p with
          | KPNone => []
          | KPLin => [(s, KPNone, u)]
          | KPWait => [(mk_k true true (k_out s), KPNone, u)]
          end
  | KO => if u then [(s, p, false)] else []      (* kclos provides the fired variants *)
  | KQ => match p with
          | KPNone => if negb u && negb (k_timer s) && negb (k_pending s) then [x] else []
          | _ => []
          end
  end.

Definition kpend_eqb (a b : kpend) : bool :=
  match a, b with KPNone, KPNone | KPLin, KPLin | KPWait, KPWait => true | _, _ => false end.
Definition kx_eqb (a b : kx) : bool :=
  let '(s, p, u) := a in let '(s', p', u') := b in
  Bool.eqb (k_timer s) (k_timer s') && Bool.eqb (k_pending s) (k_pending s') && N.eqb (k_out s) (k_out s')
  && kpend_eqb p p' && Bool.eqb u u'.
Fixpoint dedup (l : list kx) : list kx :=
  match l with
  | [] => []
  | x :: l' => let r := dedup l' in if existsb (kx_eqb x) r then r else x :: r
  end.

Fixpoint ksim (xs : list kx) (tr : list kitem) : list kx :=
  match tr with
  | [] => xs
  | t :: tr' => ksim (dedup (flat_map (fun x => flat_map (fun y => ksim1 y t) (kclos x)) xs)) tr'
  end.

Definition ktrace_ok (tr : list kitem) : bool :=
  match ksim [(kinit, KPNone, false)] tr with [] => false | _ => true end.

(* ---- cases ---- *)
Inductive dcase :=
  | DFrr (id : N) (tr : list titem)
  | DK8s (id : N) (tr : list kitem)
  | DVal (id : N) (fields : option (list N)) (prev : N) (obs_prev : N) (obs_sent : bool).

Definition case_id (c : dcase) : N :=
  match c with DFrr i _ | DK8s i _ | DVal i _ _ _ _ => i end.

Definition case_ok (c : dcase) : bool :=
  match c with
  | DFrr _ tr => trace_ok tr
  | DK8s _ tr => ktrace_ok tr
  | DVal _ f p op os =>
      let r := validate_reload f p in N.eqb (fst r) op && Bool.eqb (snd r) os
  end.

Definition mismatches (cs : list dcase) : list N :=
  map case_id (filter (fun c => negb (case_ok c)) cs).
