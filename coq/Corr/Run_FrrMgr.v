(* Correspondence runner for Model/FrrMgr.v: the histories the harnesses drive
   through the real session managers (NewSession / Set / refused Set / Close /
   SyncBFDProfiles / SyncExtraInfo) are replayed through the model.
   MFrr: operations, observed per-operation "no error", and the AST parsed from
   the text of the LAST configuration the real manager handed to its reload
   channel (None = it never handed one on).  MK8s: the same with the last
   FRRConfiguration handed to the callback.
   codes 10*id + k:  k=1 the per-operation results differ   k=2 the last configuration differs *)
From Coq Require Import List NArith Bool String.
From Verif Require Export Model.FrrMgr.
Import ListNotations.
Open Scope string_scope.

Inductive mcase :=
  | MFrr (id : N) (ops : list mop) (oks : list bool) (obs : option frr)
  | MK8s (id : N) (node : string) (ops : list mop) (oks : list bool) (obs : option kconfig).

Definition mcodes (c : mcase) : list N :=
  match c with
  | MFrr id ops oks obs =>
      let '(_, oks', last) := mrun gen_frr true minit None ops in
      (if list_eqb Bool.eqb oks oks' then [] else [(10 * id + 1)%N]) ++
      (if opt_eqb frr_eqb (option_map (fun x => fst (fst x)) last) obs then [] else [(10 * id + 2)%N])
  | MK8s id node ops oks obs =>
      let '(_, oks', last) := mrun (gen_k8s node) false minit None ops in
      (if list_eqb Bool.eqb oks oks' then [] else [(10 * id + 1)%N]) ++
      (if opt_eqb kconfig_eqb (option_map fst last) obs then [] else [(10 * id + 2)%N])
  end.

Definition mismatches (cs : list mcase) : list N := flat_map mcodes cs.
