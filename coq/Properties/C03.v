(* C03 — assignment stability.  Statements only; proofs in Proofs/CtrlP.v,
   Proofs/CtrlThmP.v.  [converge] is the transcription of convergeBalancer,
   [apply_handler] one SetBalancer call applied to the API + controller memory,
   [rank] the order of the textual form of addresses (isEqualIPs). *)
From Coq Require Import List NArith.
From Verif Require Import Model.Alloc Model.Ctrl Proofs.AllocP Proofs.CtrlP Proofs.CtrlWorldP Proofs.CtrlThmP.

(* a Service whose recorded addresses are admissible (family fits, the allocator
   accepts them again, requested pool / requested addresses agree) keeps exactly
   that set; the only other outcome is the PreferDualStack gain of one address *)
Theorem C03_handler_keeps : forall rank a s o k v ok,
  admissible_now rank a s o -> converge rank a s o k = CR v ok ->
  ok = true /\ (forall x, In x (o_status o) -> In x (cv_status v)) /\
  (same_ips (cv_status v) (o_status o) \/
   (r_pol (o_req o) = Prefer /\ exists have x, o_status o = [have] /\ cv_status v = [have; x])).
Proof. exact handler_keeps. Qed.

(* events on other Services change nothing recorded for this one *)
Theorem C03_handler_frame : forall rank w s k w' r t,
  apply_handler rank w s k = Some (w', r) -> t <> s ->
  aget (w_api w') t = aget (w_api w) t /\
  get_alloc (c_mem (w_ctl w')) t = get_alloc (c_mem (w_ctl w)) t.
Proof. exact handler_frame. Qed.

(* configuration changes: as long as some pool still owns the addresses
   (renamed, re-grouped, edited) the allocator keeps them; only the pool name follows *)
Theorem C03_setpools_keeps : forall a ps s al p,
  Inv a -> get_alloc a s = Some al -> pool_for (by_name ps) (a_ips al) = Some p ->
  get_alloc (set_pools a ps) s =
    Some {| a_pool := p_name p; a_ips := a_ips al; a_ports := a_ports al; a_key := a_key al |}.
Proof. exact setpools_keeps. Qed.

(* whatever the handler does, memory and the status it wants written agree *)
Theorem C03_memory_matches_written_status : forall rank s a o k v ok,
  converge rank a s o k = CR v ok -> same_ips (ips_of (cv_mem v) s) (cv_status v).
Proof. intros rank s a o k v ok. exact (converge_synced rank s a o k v ok). Qed.

(* a converged Service is a fixpoint of the handler: recorded addresses admissible,
   no PreferDualStack gain possible, status in the normalised (textual) order,
   annotation naming the owning pool ==> SetBalancer attempts no status write *)
Theorem C03_converged_no_write : forall rank c s o k oc a',
  c_have_pools c = true ->
  o_lb o = true -> by_name (s_pools (c_mem c)) <> [] -> o_cluster_ok o = true ->
  (is_require (r_pol (o_req o)) && negb (is_dual (r_fam (o_req o))))%bool = false ->
  o_status o <> [] ->
  family_changed (alloc_fam (o_status o)) (r_fam (o_req o)) (r_pol (o_req o)) = false ->
  assign (c_mem c) s (o_req o) (o_status o) = (a', ROk (o_status o)) ->
  (forall p, o_want_pool o = Some p -> pool_of a' s = Some p) ->
  (o_want o = WNone \/ exists d, o_want o = WIps d /\ equal_ips rank (o_status o) d = true) ->
  additional_applies (o_req o) (o_status o) = false ->
  sort2 rank (o_status o) = o_status o ->
  o_annot o = pool_of a' s ->
  set_balancer rank c s (Some o) k = Some oc ->
  oc_write oc = None /\ c_mem (oc_state oc) = a'.
Proof. exact converged_no_write. Qed.

(* Not proved: the same for a PreferDualStack Service that holds ONE address on
   dual-stack cluster IPs (whether the other family can be gained depends on the
   allocator state; the first handler run that fails to gain it leaves a state
   in which it fails again - checked on the implementation at every quiescent
   point: oracle converged-service-rewritten).  F6 (fixed) and F22 (finding) are
   the two ways that clause failed. *)
