(* C03 — assignment stability.  Statements only; proofs in Proofs/CtrlP.v,
   Proofs/CtrlThmP.v.  [converge] is the transcription of convergeBalancer,
   [apply_handler] one SetBalancer call applied to the API + controller memory,
   [rank] the order of the textual form of addresses (isEqualIPs). *)
From Coq Require Import List NArith.
From Verif Require Import Model.Alloc Model.Ctrl Proofs.AllocP Proofs.CtrlP Proofs.CtrlWorldP Proofs.CtrlThmP.

(* a Service whose recorded addresses are admissible (family fits, the allocator
   accepts them again, requested pool / requested addresses agree) keeps exactly
   that set; the only other outcome is the PreferDualStack gain of one address *)
Theorem C03_handler_keeps : forall rank a s o k v ok,
  admissible_now rank a s o -> converge rank a s o k = CR v ok ->
  ok = true /\ (forall x, In x (o_status o) -> In x (cv_status v)) /\
  (same_ips (cv_status v) (o_status o) \/
   (r_pol (o_req o) = Prefer /\ exists have x, o_status o = [have] /\ cv_status v = [have; x])).
Proof. exact handler_keeps. Qed.

(* events on other Services change nothing recorded for this one *)
Theorem C03_handler_frame : forall rank w s k w' r t,
  apply_handler rank w s k = Some (w', r) -> t <> s ->
  aget (w_api w') t = aget (w_api w) t /\
  get_alloc (c_mem (w_ctl w')) t = get_alloc (c_mem (w_ctl w)) t.
Proof. exact handler_frame. Qed.

(* configuration changes: as long as some pool still owns the addresses
   (renamed, re-grouped, edited) the allocator keeps them; only the pool name follows *)
Theorem C03_setpools_keeps : forall a ps s al p,
  Inv a -> get_alloc a s = Some al -> pool_for (by_name ps) (a_ips al) = Some p ->
  get_alloc (set_pools a ps) s =
    Some {| a_pool := p_name p; a_ips := a_ips al; a_ports := a_ports al; a_key := a_key al |}.
Proof. exact setpools_keeps. Qed.

(* whatever the handler does, memory and the status it wants written agree *)
Theorem C03_memory_matches_written_status : forall rank s a o k v ok,
  converge rank a s o k = CR v ok -> same_ips (ips_of (cv_mem v) s) (cv_status v).
Proof. intros rank s a o k v ok. exact (converge_synced rank s a o k v ok). Qed.

(* "no further status write once converged" (idempotence of the handler) is not
   proved in general: it is checked on the implementation at every quiescent
   point of every generated history (oracle converged-service-rewritten), and
   F6 (fixed) / F22 (finding) are the two ways it failed. *)
