(* C03 — assignment stability.  Statements only; proofs in Proofs/CtrlP.v,
   Proofs/CtrlThmP.v.  [converge] is the transcription of convergeBalancer,
   [apply_handler] one SetBalancer call applied to the API + controller memory,
   [rank] the order of the textual form of addresses (isEqualIPs). *)
From Coq Require Import List NArith.
From Verif Require Import Model.Alloc Model.Ctrl Proofs.AllocP Proofs.CtrlP Proofs.CtrlWorldP Proofs.CtrlThmP.

(* a Service whose recorded addresses are admissible (family fits, the allocator
   accepts them again, requested pool / requested addresses agree) keeps exactly
   that set; the only other outcome is the PreferDualStack gain of one address *)
Theorem C03_handler_keeps : forall rank a s o k v ok,
  admissible_now rank a s o -> converge rank a s o k = CR v ok ->
  ok = true /\ (forall x, In x (o_status o) -> In x (cv_status v)) /\
  (same_ips (cv_status v) (o_status o) \/
   (r_pol (o_req o) = Prefer /\ exists have x, o_status o = [have] /\ cv_status v = [have; x])).
Proof. exact handler_keeps. Qed.

(* events on other Services change nothing recorded for this one *)
Theorem C03_handler_frame : forall rank w s k w' r t,
  apply_handler rank w s k = Some (w', r) -> t <> s ->
  aget (w_api w') t = aget (w_api w) t /\
  get_alloc (c_mem (w_ctl w')) t = get_alloc (c_mem (w_ctl w)) t.
Proof. exact handler_frame. Qed.

(* configuration changes: as long as some pool still owns the addresses
   (renamed, re-grouped, edited) the allocator keeps them; only the pool name follows *)
Theorem C03_setpools_keeps : forall a ps s al p,
  Inv a -> get_alloc a s = Some al -> pool_for (by_name ps) (a_ips al) = Some p ->
  get_alloc (set_pools a ps) s =
    Some {| a_pool := p_name p; a_ips := a_ips al; a_ports := a_ports al; a_key := a_key al |}.
Proof. exact setpools_keeps. Qed.

(* whatever the handler does, memory and the status it wants written agree *)
Theorem C03_memory_matches_written_status : forall rank s a o k v ok,
  converge rank a s o k = CR v ok -> same_ips (ips_of (cv_mem v) s) (cv_status v).
Proof. intros rank s a o k v ok. exact (converge_synced rank s a o k v ok). Qed.

(* a converged Service is a fixpoint of the handler: recorded addresses admissible,
   no PreferDualStack gain possible, status in the normalised (textual) order,
   annotation naming the owning pool ==> SetBalancer attempts no status write *)
Theorem C03_converged_no_write : forall rank c s o k oc a',
  c_have_pools c = true ->
  o_lb o = true -> by_name (s_pools (c_mem c)) <> [] -> o_cluster_ok o = true ->
  (is_require (r_pol (o_req o)) && negb (is_dual (r_fam (o_req o))))%bool = false ->
  o_status o <> [] ->
  family_changed (alloc_fam (o_status o)) (r_fam (o_req o)) (r_pol (o_req o)) = false ->
  assign (c_mem c) s (o_req o) (o_status o) = (a', ROk (o_status o)) ->
  (forall p, o_want_pool o = Some p -> pool_of a' s = Some p) ->
  (o_want o = WNone \/ exists d, o_want o = WIps d /\ equal_ips rank (o_status o) d = true) ->
  additional_applies (o_req o) (o_status o) = false ->
  sort2 rank (o_status o) = o_status o ->
  o_annot o = pool_of a' s ->
  set_balancer rank c s (Some o) k = Some oc ->
  oc_write oc = None /\ c_mem (oc_state oc) = a'.
Proof. exact converged_no_write. Qed.

(* (That the state a handler run leaves IS converged in this sense is the last section:
   C03_second_call_writes_nothing.)
   Not proved: the same for a PreferDualStack Service that holds ONE address on
   dual-stack cluster IPs (whether the other family can be gained depends on the
   allocator state; the first handler run that fails to gain it leaves a state
   in which it fails again - checked on the implementation at every quiescent
   point: oracle converged-service-rewritten).  F6 (fixed) and F22 (finding) are
   the two ways that clause failed. *)

(* ==== stability over whole histories ==== *)
From Coq Require Import Bool.
From Verif Require Import Model.Net Proofs.AllocPolicyP Proofs.CtrlStableP.
Import ListNotations.
Local Open Scope N_scope.

(* C03: in every history of the reconciler model that does not edit or delete the
   Service itself, does not restart the controller (C06) and only delivers
   configurations in which a compatible pool still owns the Service's addresses
   (renamed, re-grouped, re-prioritised or otherwise edited pools included), the
   Service has exactly the same addresses afterwards - in its status and in the
   controller's memory - whatever happens to other Services, however often it is
   re-synced and whichever status writes fail.  (Status in normalised order and
   no second family to gain: the PreferDualStack gain is C03_handler_keeps.) *)
Theorem C03_stable_across_history : forall rank s o0 S0,
  sort2 rank S0 = S0 -> additional_applies (o_req o0) S0 = false ->
  forall evs w w', WInv w -> K rank s o0 S0 w -> Forall (ok_ev rank s o0 S0) evs ->
  wrun rank evs w = Some w' ->
  (exists o', aget (w_api w') s = Some o' /\ o_status o' = S0) /\ ips_of (c_mem (w_ctl w')) s = S0.
Proof. exact stable_across_history. Qed.

(* the recorded addresses are admissible for the handler whenever they are
   statically admissible and memory still records them (no other Service can
   have taken them: exclusivity) *)
Theorem C03_static_admissibility_suffices : forall rank s o0 S0 a an,
  Inv a -> held s o0 S0 a -> sadm rank o0 S0 (s_pools a) -> admissible_now rank a s (with_status o0 S0 an).
Proof. exact adm_from_static. Qed.

(* non-vacuity: a reachable world, a Service holding 10.0.0.0, then a history that
   renames its pool, re-syncs everything twice and creates another Service *)
Definition srank (x : ip) : N := ip_val x.
Definition s4a : ip := V4 167772160.
Definition spool (n : poolid) : pool :=
  {| p_name := n; p_cidrs := [ {| pfam := F4; pbase := 167772160; plen := 30 |} ]; p_avoid := false; p_auto := true; p_pin := None |}.
Definition spools (n : poolid) : pools := {| by_name := [spool n]; by_ns := []; by_sel := [] |}.
Definition sobj (port : N) : svcobj :=
  {| o_lb := true;
     o_req := {| r_ns := 1; r_labels := []; r_fam := S4; r_pol := Single; r_first6 := false;
                 r_ports := [ {| proto := 0; pnum := port |} ]; r_key := {| sharing := 0; backend := 0 |} |};
     o_cluster_ok := true; o_want := WNone; o_want_pool := None; o_status := []; o_annot := None |}.
Definition sk (c : option (poolid * list ip)) : oracle := {| k_write := true; k_final := c |}.
Definition sevs0 : list ev := [EPools (spools 1); UPut 2 (sobj 80); EReload [2] [sk (Some (1, [s4a]))]; ESvc 2 (sk None)].
Definition sevs1 : list ev :=
  [EPools (spools 7); EReload [2] [sk None]; UPut 3 (sobj 81); ESvc 3 (sk (Some (7, [V4 167772161]))); EKick; EReload [2; 3] [sk None; sk None]].
Example C03_stable_across_history_nonvacuous :
  exists w w', wrun srank sevs0 world0 = Some w /\ WInv w /\ K srank 2 (sobj 80) [s4a] w /\
    Forall (ok_ev srank 2 (sobj 80) [s4a]) sevs1 /\ wrun srank sevs1 w = Some w' /\
    sort2 srank [s4a] = [s4a] /\ additional_applies (o_req (sobj 80)) [s4a] = false.
Proof.
  destruct (wrun srank sevs0 world0) as [w|] eqn:E; [|vm_compute in E; discriminate].
  pose proof (wrun_WInv srank sevs0 world0 w WInv_world0 E) as HW.
  destruct (wrun srank sevs1 w) as [w'|] eqn:E'; [|vm_compute in E; injection E as <-; vm_compute in E'; discriminate].
  exists w, w'. split; [reflexivity|]. split; [exact HW|].
  vm_compute in E. injection E as <-.
  assert (Hs : forall n, sadm srank (sobj 80) [s4a] (spools n)).
  { intros n. unfold sadm.
    split; [reflexivity|]. split; [discriminate|]. split; [reflexivity|]. split; [reflexivity|].
    split; [discriminate|]. split; [reflexivity|].
    split; [exists (spool n); split; [vm_compute; reflexivity|split; [reflexivity|intros wp Hwp; discriminate Hwp]]|].
    split; [reflexivity|]. split; [reflexivity|left; reflexivity]. }
  split; [|split; [|split; [exact E'|split; reflexivity]]].
  - split; [exists (Some 1); reflexivity|]. split; [eexists; split; [reflexivity|]; repeat split|apply Hs].
  - unfold sevs1. repeat (apply Forall_cons; [try exact I; try (intros H; discriminate H); try apply Hs|]). apply Forall_nil.
Qed.


(* ==== last clause: "no further status write after at most one normalising write" ==== *)
From Verif Require Import Proofs.CtrlStarveP Proofs.CtrlTotalP Proofs.CtrlProgressP Proofs.CtrlExactP.

(* C03_converged_no_write assumes a converged Service.  Composition: whatever state a
   Service was in, the run of convergeBalancer AFTER a run finds exactly its own result and
   leaves it - same status, same annotation, same recorded addresses - for every allocator
   answer in both runs.  Hypotheses: no explicitly requested addresses (with them the first
   run may leave a result the second rejects: F19 / F22, and the status may need the one
   normalising re-ordering); the first run left an address; the Service cannot gain a second
   family any more (two addresses, or not PreferDualStack on dual-stack cluster IPs). *)
Theorem C03_second_run_is_fixpoint : forall rank a s o k v ok k2 v2 ok2,
  minv a -> names_unique (s_pools a) -> pools_disjoint (by_name (s_pools a)) -> o_want o = WNone ->
  converge rank a s o k = CR v ok -> cv_status v <> [] ->
  additional_applies (o_req o) (cv_status v) = false ->
  converge rank (cv_mem v) s (with_status o (cv_status v) (cv_annot v)) k2 = CR v2 ok2 ->
  ok2 = true /\ cv_status v2 = cv_status v /\ cv_annot v2 = cv_annot v /\
  same_ips (ips_of (cv_mem v2) s) (cv_status v).
Proof. exact second_run_fixpoint. Qed.

(* SetBalancer: the call after a call (whose write, if any, succeeded - or which had nothing
   to write) attempts no status write *)
Theorem C03_second_call_writes_nothing : forall rank c s o k oc k2 oc2,
  c_have_pools c = true -> mem_inv c -> pools_wf c -> o_want o = WNone ->
  set_balancer rank c s (Some o) k = Some oc ->
  forall st an, (oc_write oc = Some (st, an) \/ (oc_write oc = None /\ st = o_status o /\ an = o_annot o)) ->
  st <> [] -> additional_applies (o_req o) st = false ->
  set_balancer rank (oc_state oc) s (Some (with_status o st an)) k2 = Some oc2 ->
  oc_write oc2 = None.
Proof. exact second_call_writes_nothing. Qed.

(* what a run records in memory is exactly, in this order, the status it leaves *)
Theorem C03_memory_is_exactly_the_written_status : forall rank s a o k v ok, o_want o = WNone ->
  converge rank a s o k = CR v ok -> ips_of (cv_mem v) s = cv_status v.
Proof. exact converge_exact. Qed.
Print Assumptions C03_second_call_writes_nothing.

(* the premises are met: a first call that allocates and writes an address *)
Definition sctl : cstate := {| c_mem := {| s_pools := spools 1; allocated := [] |}; c_have_pools := true |}.
Example C03_second_call_nonvacuous :
  exists oc, c_have_pools sctl = true /\ mem_inv sctl /\ pools_wf sctl /\ o_want (sobj 80) = WNone /\
    set_balancer srank sctl 2 (Some (sobj 80)) (sk (Some (1, [s4a]))) = Some oc /\
    oc_write oc = Some ([s4a], Some 1) /\ additional_applies (o_req (sobj 80)) [s4a] = false /\
    exists oc2, set_balancer srank (oc_state oc) 2 (Some (with_status (sobj 80) [s4a] (Some 1))) (sk None) = Some oc2.
Proof.
  destruct (set_balancer srank sctl 2 (Some (sobj 80)) (sk (Some (1, [s4a])))) as [oc|] eqn:E; [|vm_compute in E; discriminate].
  exists oc. vm_compute in E. injection E as <-.
  split; [reflexivity|]. split; [split; [split; [constructor|intros e1 e2 x []]|intros e []]|].
  split; [split; [repeat constructor; intros []|intros p q x [<-|[]] [<-|[]] _ _; reflexivity]|].
  split; [reflexivity|]. split; [reflexivity|]. split; [reflexivity|]. split; [reflexivity|].
  eexists. vm_compute. reflexivity.
Qed.
