(* C12 — Layer-2 failover is minimal.  Statements only; proofs in Proofs/ElectP.v.
   [argmin h l] is the node ShouldAnnounce elects among the eligible list [l]
   (C12_code_connection), [h n] the SHA-256 of "<name n>#<address>" as a number;
   [inj_on h l] is hypothesis H-sha (no collision among one election's inputs). *)
From Coq Require Import List NArith Permutation.
From Verif Require Import Model.Elect Proofs.ElectP.
Local Open Scope N_scope.

(* removing any set of nodes that does not contain the announcer keeps it *)
Theorem C12_remove_nonowner : forall (h : N -> N) l w (removed : N -> bool),
  inj_on h l -> argmin h l = Some w -> removed w = false ->
  argmin h (filter (fun n => negb (removed n)) l) = Some w.
Proof. exact remove_nonwinner. Qed.

(* adding nodes keeps it unless an added node becomes the announcer *)
Theorem C12_add_nodes : forall (h : N -> N) l added w w',
  inj_on h (l ++ added) -> argmin h l = Some w -> argmin h (l ++ added) = Some w' ->
  w' = w \/ In w' added.
Proof. exact add_nodes. Qed.

(* no address moves between two nodes eligible before and after a change *)
Theorem C12_no_move_between_survivors : forall (h : N -> N) l l' w w',
  inj_on h (l ++ l') -> argmin h l = Some w -> argmin h l' = Some w' ->
  In w l' -> In w' l -> w = w'.
Proof. exact no_move_between_survivors. Qed.

(* the choice depends only on the set of eligible names (not on listing order
   or repetitions) ... *)
(* The hypothesis [inj_on h l] is the H-sha boundary: [h] is the WHOLE 256-bit digest of
   "<node>#<first address>", assumed to differ between the candidates.  An implementation that
   orders the candidates by a PREFIX of the digest (seeded C12-11: the first 4 bytes as an integer)
   satisfies the same statements on every set of names whose prefixes differ, i.e. on all random
   names, and leaves ties to the iteration order of a Go map.  The boundary is made concrete by
   corpus/C12/sha-prefix-collisions.json (tools/shacollide: pairs worker-<n> whose digests for
   10.20.30.1 / fc00:f853:ccd:e799::1 share exactly their first 1..5 bytes), which TestVerifL2Multi
   runs with the colliding pair ranking first and second, several election rounds per speaker plus
   fresh speakers, against Elect.decide on the full digests (Run_Elect) and the exactly-one oracle. *)
Theorem C12_order_independent : forall (h : N -> N) l l',
  inj_on h l -> (forall n, In n l <-> In n l') -> argmin h l = argmin h l'.
Proof. exact winner_set_ext. Qed.

Theorem C12_permutation : forall (h : N -> N) l l',
  inj_on h l -> Permutation l l' -> argmin h l = argmin h l'.
Proof. exact winner_perm. Qed.

(* ... and on the hash inputs (names, address) of those nodes only *)
(* by typing: the choice is a function of the list and of [h : N -> N]; which address is
   hashed is outside the model (harness), see C12_identical_for_every_service_refuted *)
Theorem C12_depends_only_on_names_and_address : forall (h h' : N -> N) l,
  (forall n, In n l -> h n = h' n) -> argmin h l = argmin h' l.
Proof. exact argmin_ext_h. Qed.

(* connection to the code: node [me] answers iff the service has an active
   endpoint and [me] is the argmin over the eligible nodes; the eligible list
   is exactly the statement's eligibility predicate *)
Theorem C12_code_connection : forall h v me,
  decide h v me = true <-> active_ep_exists v = true /\ argmin h (available v) = Some me.
Proof. exact decide_true_iff. Qed.

Theorem C12_available_is_eligible : forall v n,
  eligible v n <-> active_ep_exists v = true /\ In n (available v).
Proof. exact eligible_iff. Qed.

(* non-vacuity: three nodes, the middle hash wins after the lowest leaves *)
Example C12_nonvacuous :
  let h := fun n => match n with 1 => 50 | 2 => 20 | 3 => 70 | _ => 0 end in
  argmin h [1;2;3] = Some 2 /\ argmin h [1;3] = Some 1 /\ argmin h [3;1;2] = Some 2.
Proof. vm_compute. repeat split. Qed.

(* on views, as the property observes it: shrinking the eligible set without removing
   the announcer leaves the announcer unchanged *)
Theorem C12_view_remove_nonowner : forall h v v' w,
  inj_on h (available v') ->
  (forall n, eligible v' n -> eligible v n) -> eligible v' w ->
  decide h v w = true -> decide h v' w = true.
Proof. exact view_remove_nonowner. Qed.

(* the clause "identical ... for every Service using that address" is false for the same
   reason as in C04 (finding F8: the hash input is each Service's FIRST address) *)
Theorem C12_identical_for_every_service_refuted :
  exists (h4 h6 : N -> N) (v : view) (n1 n2 : N),
    inj_on h4 (available v) /\ inj_on h6 (available v) /\
    decide h4 v n1 = true /\ decide h6 v n2 = true /\ n1 <> n2.
Proof. exact shared_address_refuted. Qed.
